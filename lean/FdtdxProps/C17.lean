/-
C17 — Phasor detectors compute the windowed discrete Fourier transform.

Theorems about `FdtdxModel/C17.lean` (every step count, on-mask, window, history, frequency phasor sequence; `K` any
commutative ring of real scalars, `V` any `K`-module of phasor values, e.g. ℂ over ℝ or pairs over ℚ):

  C17_fold / C17_fold_inverse     state after n gated updates = init ± scale • Σ_{t<n, kept t} (w t · x t) • ph t
  C17_fold_window                 with the placed window array (apodization · on-mask) the gate is redundant and
                                  the sum runs over the recorded steps with the apodization weights
  C17_window_sum                  Σ window array = Σ_{kept} apodization = the quantity the continuous scale divides by
  C17_scale_continuous / _pulse   scale · Σw = 2 (continuous), scale = stride (pulse)
  C17_constant_signal             continuous mode reproduces 2·c for a constant history at zero frequency
  C17_thin_spec / C17_thin_le_one stride thinning keeps exactly the active steps whose rank is a multiple of the stride
  C17_thin_count                  number of recorded steps after thinning = ⌈active / stride⌉
  C17_closed_face_fold            (after the fix) a closed-surface face accumulates the same windowed DFT
  asFound_closed_surface_ignores_window   refutation witness for the pinned tree
  C17_reMulConj / C17_poynting_components  the stored real Poynting vector is Re(E × conj H), component by component
  C17_plane_flux_*                plane flux = (½ in continuous mode) · (± by direction) Σ area · Re(E × conj H)_axis
  C17_net_flux_*                  closed surface = Σ_faces ± face sums, inward = negated, size-one axis pair cancels
-/
import FdtdxModel.C17
import FdtdxProps.C14
import Mathlib.Algebra.BigOperators.Intervals
import Mathlib.Algebra.Module.BigOperators
import Mathlib.Tactic.Ring
import Mathlib.Tactic.Abel
import Mathlib.Tactic.LinearCombination
import Mathlib.Tactic.FieldSimp
import Mathlib.Tactic.Linarith

namespace Fdtdx.C17
open Finset

/-! ### the fold invariant -/
section fold
variable {K V : Type} [CommRing K] [AddCommGroup V] [Module K V]

/-- the module scalar action as the model's explicit `smul` argument -/
abbrev act : K → V → V := fun r v => r • v

theorem phContrib_eq (x : K) (ph : V) (scale w : K) :
    phContrib (act (K := K) (V := V)) x ph scale w = scale • ((w * x) • ph) := by
  simp only [phContrib, act, smul_smul]
  congr 1; ring

/-- the windowed DFT sum over the kept steps below `n` -/
def dftSum (on : Nat → Bool) (w x : Nat → K) (ph : Nat → V) (n : Nat) : V :=
  ∑ t ∈ range n, if on t then (w t * x t) • ph t else 0

/-- C17 (fold invariant): after the first `n` steps the accumulator is the initial value plus
    `scale • Σ_{t<n, kept t} (w t · x t) • ph t`, for every on-mask, window, history and phasor sequence. -/
theorem C17_fold (on : Nat → Bool) (w x : Nat → K) (ph : Nat → V) (scale : K) (init : V) (n : Nat) :
    phRun (act (K := K) (V := V)) false on x ph scale w init n = init + scale • dftSum on w x ph n := by
  induction n with
  | zero => simp [phRun, dftSum]
  | succ n ih =>
    simp only [phRun, phStep, dftSum, sum_range_succ] at ih ⊢
    rw [ih]
    by_cases h : on n = true
    · simp only [h, if_true, Bool.false_eq_true, if_false, phContrib_eq, smul_add]
      abel
    · have h' : on n = false := by simpa using h
      simp [h']

/-- inverse recording (`Detector.inverse`): the same sum is subtracted -/
theorem C17_fold_inverse (on : Nat → Bool) (w x : Nat → K) (ph : Nat → V) (scale : K) (init : V) (n : Nat) :
    phRun (act (K := K) (V := V)) true on x ph scale w init n = init - scale • dftSum on w x ph n := by
  induction n with
  | zero => simp [phRun, dftSum]
  | succ n ih =>
    simp only [phRun, phStep, dftSum, sum_range_succ] at ih ⊢
    rw [ih]
    by_cases h : on n = true
    · simp only [h, if_true, phContrib_eq, smul_add]
      abel
    · have h' : on n = false := by simpa using h
      simp [h']

theorem sumTo_eq_sum {M : Type} [AddCommMonoid M] (f : Nat → M) (n : Nat) : sumTo f n = ∑ t ∈ range n, f t := by
  induction n with
  | zero => simp [sumTo]
  | succ n ih => rw [sumTo, ih, sum_range_succ]

/-- the apodization weight of step `t` (1 without apodization) -/
def apodAt (apod : Option (K → K)) (cast : Nat → K) (dt : K) (t : Nat) : K :=
  match apod with
  | none => 1
  | some f => f (cast t * dt)

theorem windowArr_eq (apod : Option (K → K)) (cast : Nat → K) (dt : K) (on : Nat → Bool) (t : Nat) :
    windowArr apod cast dt on t = if on t then apodAt apod cast dt t else 0 := by
  cases apod <;> by_cases h : on t = true <;> simp [windowArr, apodAt, h]

/-- C17: with the window array built at placement (apodization · kept-mask) the accumulated value is
    `scale • Σ_{t<n, kept t} (apod(t·dt) · x t) • ph t` — the windowed DFT over the recorded steps. -/
theorem C17_fold_window (apod : Option (K → K)) (cast : Nat → K) (dt : K) (on : Nat → Bool) (x : Nat → K)
    (ph : Nat → V) (scale : K) (init : V) (n : Nat) :
    phRun (act (K := K) (V := V)) false on x ph scale (windowArr apod cast dt on) init n
      = init + scale • ∑ t ∈ range n, if on t then (apodAt apod cast dt t * x t) • ph t else 0 := by
  rw [C17_fold, dftSum]
  congr 2
  apply sum_congr rfl
  intro t _
  by_cases h : on t = true <;> simp [windowArr_eq, h]

/-- C17: the window sum the continuous scale divides by is the sum of the apodization weights over the recorded steps. -/
theorem C17_window_sum (apod : Option (K → K)) (cast : Nat → K) (dt : K) (on : Nat → Bool) (T : Nat) :
    sumTo (windowArr apod cast dt on) T = ∑ t ∈ range T, if on t then apodAt apod cast dt t else 0 := by
  rw [sumTo_eq_sum]
  exact sum_congr rfl (fun t _ => windowArr_eq apod cast dt on t)

end fold

section field
variable {K V : Type} [Field K] [AddCommGroup V] [Module K V]

theorem C17_scale_pulse (cast : Nat → K) (ws : K) (stride : Nat) :
    staticScale cast .pulse ws stride = cast stride := rfl

/-- C17: continuous mode scales by `2 / Σw` (placement guarantees `Σw ≠ 0`). -/
theorem C17_scale_continuous (cast : Nat → K) (ws : K) (stride : Nat) (h : ws ≠ 0) :
    staticScale cast .continuous ws stride * ws = 2 := by
  simp only [staticScale]
  field_simp

/-- C17 (normalisation): in continuous mode a constant history `c` against a constant phasor `v` (zero frequency)
    accumulates exactly `2c • v`, whatever the window, stride thinning and schedule. -/
theorem C17_constant_signal (apod : Option (K → K)) (cast : Nat → K) (dt : K) (on : Nat → Bool) (c : K) (v : V)
    (T stride : Nat) (hws : sumTo (windowArr apod cast dt on) T ≠ 0) :
    phRun (act (K := K) (V := V)) false on (fun _ => c) (fun _ => v)
      (staticScale cast .continuous (sumTo (windowArr apod cast dt on) T) stride) (windowArr apod cast dt on) 0 T
      = (2 * c) • v := by
  rw [C17_fold, dftSum, zero_add]
  have h1 : (∑ t ∈ range T, if on t = true then (windowArr apod cast dt on t * c) • v else 0)
      = (c * sumTo (windowArr apod cast dt on) T) • v := by
    rw [sumTo_eq_sum, mul_sum, sum_smul]
    apply sum_congr rfl
    intro t _
    by_cases h : on t = true
    · simp [h, mul_comm]
    · have h' : on t = false := by simpa using h
      simp [windowArr_eq, h']
  rw [h1, smul_smul]
  congr 1
  have := C17_scale_continuous cast (sumTo (windowArr apod cast dt on) T) stride hws
  linear_combination c * this

end field

/-! ### stride thinning -/

theorem thinFrom_get (s c : Nat) (l : List Bool) (t : Nat) (ht : t < l.length) :
    (thinFrom s c l)[t]? = some (C14.onFn l t && decide ((c + C14.rank (C14.onFn l) t) % s = 0)) := by
  induction l generalizing c t with
  | nil => simp at ht
  | cons b l ih =>
    cases t with
    | zero => cases b <;> simp [thinFrom, C14.onFn, C14.rank]
    | succ t =>
      have ht' : t < l.length := by simpa using ht
      have hon : C14.onFn (b :: l) (t + 1) = C14.onFn l t := by simp [C14.onFn]
      cases b
      · simp only [thinFrom, List.getElem?_cons_succ, ih c t ht', hon, C14.rank_cons]
        simp
      · simp only [thinFrom, List.getElem?_cons_succ, ih (c + 1) t ht', hon, C14.rank_cons]
        have hc : c + 1 + C14.rank (C14.onFn l) t = c + (1 + C14.rank (C14.onFn l) t) := by omega
        simp only [if_true, hc]

/-- C17: stride thinning (`active[::stride]`) keeps exactly the active steps whose rank among the active steps is a
    multiple of the stride. -/
theorem C17_thin_spec (s : Nat) (hs : 2 ≤ s) (l : List Bool) (t : Nat) (ht : t < l.length) :
    (thin s l)[t]? = some (C14.onFn l t && decide (C14.rank (C14.onFn l) t % s = 0)) := by
  unfold thin
  rw [if_neg (by omega), thinFrom_get s 0 l t ht]
  simp

theorem C17_thin_le_one (s : Nat) (hs : s ≤ 1) (l : List Bool) : thin s l = l := by
  simp [thin, hs]

theorem thinFrom_length (s c : Nat) (l : List Bool) : (thinFrom s c l).length = l.length := by
  induction l generalizing c with
  | nil => rfl
  | cons b l ih => cases b <;> simp [thinFrom, ih]

/-- thinning never activates an inactive step, and always keeps the first active one -/
theorem C17_thin_sub (s : Nat) (l : List Bool) (t : Nat) (ht : t < l.length) (h : (thin s l)[t]? = some true) :
    C14.onFn l t = true := by
  by_cases hs : s ≤ 1
  · rw [C17_thin_le_one s hs] at h
    simp only [C14.onFn, List.getD_eq_getElem?_getD, h, Option.getD_some]
  · rw [C17_thin_spec s (by omega) l t ht] at h
    simp only [Option.some.injEq, Bool.and_eq_true] at h
    exact h.1

/-- number of multiples of `s` in `[c, c+m)` -/
def multIn (s c m : Nat) : Nat := (c + m + s - 1) / s - (c + s - 1) / s

private theorem ceil_step (s c : Nat) (hs : 0 < s) :
    (c + 1 + s - 1) / s = (c + s - 1) / s + (if c % s = 0 then 1 else 0) := by
  obtain ⟨q, r, hc, hr⟩ : ∃ q r, c = s * q + r ∧ r < s := ⟨c / s, c % s, (Nat.div_add_mod c s).symm, Nat.mod_lt _ hs⟩
  have hmod : c % s = r := by rw [hc, Nat.add_comm, Nat.add_mul_mod_self_left, Nat.mod_eq_of_lt hr]
  rw [hmod]
  by_cases h0 : r = 0
  · subst h0
    have e1 : c + 1 + s - 1 = s * (q + 1) + 0 := by rw [hc, Nat.mul_add]; omega
    have e2 : c + s - 1 = s * q + (s - 1) := by rw [hc]; omega
    rw [e1, e2, Nat.add_comm (s * (q+1)), Nat.add_mul_div_left _ _ hs, Nat.add_comm (s * q),
      Nat.add_mul_div_left _ _ hs, Nat.div_eq_of_lt (by omega), Nat.div_eq_of_lt (by omega)]
    simp
  · have e1 : c + 1 + s - 1 = s * (q + 1) + r := by rw [hc, Nat.mul_add]; omega
    have e2 : c + s - 1 = s * (q + 1) + (r - 1) := by rw [hc, Nat.mul_add]; omega
    rw [e1, e2, Nat.add_comm (s * (q+1)), Nat.add_mul_div_left _ _ hs, Nat.add_comm (s * (q+1)),
      Nat.add_mul_div_left _ _ hs, Nat.div_eq_of_lt hr, Nat.div_eq_of_lt (by omega)]
    simp [h0]

private theorem ceil_mono (s a b : Nat) (h : a ≤ b) : (a + s - 1) / s ≤ (b + s - 1) / s :=
  Nat.div_le_div_right (by omega)

theorem thinFrom_count (s : Nat) (hs : 0 < s) (c : Nat) (l : List Bool) :
    C14.numOn (thinFrom s c l) = multIn s c (C14.numOn l) := by
  induction l generalizing c with
  | nil => simp [thinFrom, C14.numOn, multIn]
  | cons b l ih =>
    cases b
    · simpa [thinFrom, C14.numOn] using ih c
    · have h1 : C14.numOn (true :: l) = C14.numOn l + 1 := by simp [C14.numOn]
      have h2 : C14.numOn (thinFrom s c (true :: l))
          = (if c % s = 0 then 1 else 0) + C14.numOn (thinFrom s (c + 1) l) := by
        by_cases hc : c % s = 0 <;> simp [thinFrom, C14.numOn, hc]
        omega
      rw [h2, ih (c + 1), h1]
      unfold multIn
      have hst := ceil_step s c hs
      have hm := ceil_mono s (c + 1) (c + 1 + C14.numOn l) (by omega)
      have e : c + (C14.numOn l + 1) + s - 1 = c + 1 + C14.numOn l + s - 1 := by omega
      rw [e]
      omega

/-- C17: the number of recorded steps after stride thinning is ⌈(number of active steps) / stride⌉. -/
theorem C17_thin_count (s : Nat) (hs : 1 ≤ s) (l : List Bool) :
    C14.numOn (thin s l) = (C14.numOn l + s - 1) / s := by
  unfold thin
  by_cases h1 : s ≤ 1
  · have : s = 1 := by omega
    subst this
    simp
  · rw [if_neg h1, thinFrom_count s (by omega) 0 l]
    unfold multIn
    have : (0 + s - 1) / s = 0 := Nat.div_eq_of_lt (by omega)
    rw [this]; simp


/-! ### the closed-surface detector -/
section closed
variable {K V : Type} [CommRing K] [AddCommGroup V] [Module K V]

/-- C17 (after `fix: apply the apodization weight in ClosedSurfacePhasorPoyntingFluxDetector.update`): each stored
    face cell accumulates the same windowed DFT as a `PhasorDetector` on that cell. -/
theorem C17_closed_face_fold (apod : Option (K → K)) (cast : Nat → K) (dt : K) (on : Nat → Bool) (xFace : Nat → K)
    (ph : Nat → V) (scale : K) (n : Nat) :
    phRun (act (K := K) (V := V)) false on xFace ph scale (windowArr apod cast dt on) 0 n
      = scale • ∑ t ∈ range n, if on t then (apodAt apod cast dt t * xFace t) • ph t else 0 := by
  rw [C17_fold_window, zero_add]

end closed

/-- Refutation witness for the pinned tree: window weights (1, 3) over two recorded steps, unit history and phasor,
    scale `2/Σw` represented by 1: the closed-surface accumulator holds 2, the windowed DFT is 4. -/
example :
    AsFound.csRun (fun (r v : Int) => r * v) (fun _ => true) (fun _ => 1) (fun _ => 1) 1
        (fun t => if t = 0 then 1 else 3) 0 2 = 2
    ∧ phRun (fun (r v : Int) => r * v) false (fun _ => true) (fun _ => 1) (fun _ => 1) 1
        (fun t => if t = 0 then 1 else 3) 0 2 = 4 := by decide

theorem asFound_closed_surface_ignores_window :
    ∃ (on : Nat → Bool) (x ph w : Nat → Int) (scale : Int) (n : Nat),
      AsFound.csRun (fun (r v : Int) => r * v) on x ph scale w 0 n
        ≠ phRun (fun (r v : Int) => r * v) false on x ph scale w 0 n :=
  ⟨fun _ => true, fun _ => 1, fun _ => 1, fun t => if t = 0 then 1 else 3, 1, 2, by decide⟩

/-! ### phasor Poynting flux -/
section poynting
variable {K : Type} [CommRing K]

omit [CommRing K] in
theorem Cx.ext' {a b : Cx K} (h1 : a.re = b.re) (h2 : a.im = b.im) : a = b := by
  cases a; cases b; simp_all

theorem Cx.sub_re (a b : Cx K) : (a - b).re = a.re - b.re := rfl

/-- `reMulConj a b` is the real part of `a · conj b` -/
theorem C17_reMulConj (a b : Cx K) : (a * Cx.conj b).re = reMulConj a b := by
  show a.re * b.re - a.im * (-b.im) = a.re * b.re + a.im * b.im
  ring

/-- C17: the stored Poynting vector is `Re(E × conj H)`, component by component. -/
theorem C17_poynting_components (e h : Fin 3 → Cx K) :
    poyntingRe e h 0 = (e 1 * Cx.conj (h 2) - e 2 * Cx.conj (h 1)).re
    ∧ poyntingRe e h 1 = (e 2 * Cx.conj (h 0) - e 0 * Cx.conj (h 2)).re
    ∧ poyntingRe e h 2 = (e 0 * Cx.conj (h 1) - e 1 * Cx.conj (h 0)).re := by
  refine ⟨?_, ?_, ?_⟩ <;> simp only [poyntingRe, Cx.sub_re, C17_reMulConj] <;> rfl

theorem faceSum_eq_sum (a : Fin 3) (cells : List (Cell K)) :
    faceSum a cells = (cells.map (fun c => poyntingRe c.e c.h a * c.area)).sum := by
  induction cells with
  | nil => rfl
  | cons c l ih => simp [faceSum, ih]

/-- C17: plane flux = area-weighted sum of the normal component of `Re(E × conj H)`, halved in continuous mode,
    negated for direction "-". -/
theorem C17_plane_flux_pulse (half : K) (a : Fin 3) (cells : List (Cell K)) :
    planeFlux half .pulse false a cells = (cells.map (fun c => poyntingRe c.e c.h a * c.area)).sum := by
  simp [planeFlux, faceSum_eq_sum]

theorem C17_plane_flux_continuous (half : K) (neg : Bool) (a : Fin 3) (cells : List (Cell K)) :
    planeFlux half .continuous neg a cells = half * planeFlux half .pulse neg a cells := by
  cases neg <;> simp [planeFlux]

theorem C17_plane_flux_direction (half : K) (mode : Mode) (a : Fin 3) (cells : List (Cell K)) :
    planeFlux half mode true a cells = - planeFlux half mode false a cells := by
  cases mode <;> simp [planeFlux]

/-- signed face contribution -/
def faceTerm (f : Face K) : K := if f.isMax then faceSum f.axis f.cells else - faceSum f.axis f.cells

theorem netRaw_eq (faces : List (Face K)) (acc : K) :
    faces.foldl (fun acc f => if f.isMax then acc + faceSum f.axis f.cells else acc - faceSum f.axis f.cells) acc
      = acc + (faces.map faceTerm).sum := by
  induction faces generalizing acc with
  | nil => simp
  | cons f l ih =>
    rw [List.foldl_cons, ih, List.map_cons, List.sum_cons]
    by_cases h : f.isMax = true
    · simp only [h, if_true, faceTerm]; ring
    · have h' : f.isMax = false := by simpa using h
      simp only [h', Bool.false_eq_true, if_false, faceTerm]; ring

/-- C17: the closed-surface flux is the signed sum of the face integrals (max faces +, min faces −), halved in
    continuous mode, negated for `orientation = "inward"`. -/
theorem C17_net_flux_pulse (half : K) (faces : List (Face K)) :
    netFlux half .pulse false faces = (faces.map faceTerm).sum := by
  simp [netFlux, netRaw_eq]

theorem C17_net_flux_continuous (half : K) (inward : Bool) (faces : List (Face K)) :
    netFlux half .continuous inward faces = half * netFlux half .pulse inward faces := by
  cases inward <;> simp [netFlux]

theorem C17_net_flux_inward (half : K) (mode : Mode) (faces : List (Face K)) :
    netFlux half mode true faces = - netFlux half mode false faces := by
  cases mode <;> simp [netFlux]

/-- C17: on an axis of size one the max and the min face are the same cells and cancel. -/
theorem C17_net_flux_pair_cancels (half : K) (mode : Mode) (inward : Bool) (a : Fin 3) (cells : List (Cell K))
    (rest : List (Face K)) :
    netFlux half mode inward (⟨a, true, cells⟩ :: ⟨a, false, cells⟩ :: rest) = netFlux half mode inward rest := by
  have h : ∀ fs : List (Face K),
      fs.foldl (fun acc f => if f.isMax then acc + faceSum f.axis f.cells else acc - faceSum f.axis f.cells) 0
        = (fs.map faceTerm).sum := by
    intro fs; rw [netRaw_eq]; ring
  simp only [netFlux, h, List.map_cons, List.sum_cons, faceTerm]
  simp

end poynting

/-! ### non-vacuity -/

-- a thinned schedule: stride 2 keeps the 1st and 3rd active steps
example : thin 2 [false, true, true, false, true, true] = [false, true, false, false, true, false] := by decide
example : thin 1 [false, true, true] = [false, true, true] := by decide
example : thin 3 [true, true, true, true, true, true, true] = [true, false, false, true, false, false, true] := by decide
example : resolveStride 0 = 1 ∧ resolveStride (-3) = 1 ∧ resolveStride 4 = 4 := by decide
-- the fold on concrete integer data with a non-rectangular window, gaps in the mask, non-constant phasor
example : phRun (fun (r v : Int) => r * v) false (fun t => t % 2 = 0) (fun t => (t : Int) + 1) (fun t => (t : Int) - 2) 3
    (fun t => if t = 0 then 1 else 2) 0 5 = 3 * (1 * 1 * (-2) + 2 * 3 * 0 + 2 * 5 * 2) := by decide
-- hypotheses of C17_constant_signal are satisfiable (ℚ-like: here the window sum 4 ≠ 0 over Int)
example : sumTo (windowArr (some fun (x : Int) => x + 1) (fun n => (n : Int)) 1 (fun t => t % 2 = 0)) 3 ≠ 0 := by decide
-- Poynting: E = (0, 1+i, 0), H = (0, 0, 2+i): S_x = Re((1+i)(2−i)) = 3
example : poyntingRe (fun i => if i = 1 then (⟨1, 1⟩ : Cx Int) else ⟨0, 0⟩)
    (fun i => if i = 2 then (⟨2, 1⟩ : Cx Int) else ⟨0, 0⟩) 0 = 3 := by decide

end Fdtdx.C17
