/-
C02 — One backward step exactly undoes one forward step.

Theorems about the shared Yee model (`FdtdxModel/Yee.lean`): for EVERY grid shape, every halo mix (zero,
periodic, Bloch multipliers — the halo rule is arbitrary here), PEC/PMC walls, every metric, isotropic or diagonal
materials with or without electric and magnetic conductivity, ANY additive source terms jE, jH (any source set,
switch and temporal profile: the reverse step subtracts the same terms), and any state satisfying the walls:

  C02_roundtrip          backward (forward (E,H)) = (E,H)        (exact, over any field)
  C02_roundtrip_steps    n forward steps followed by n backward steps (sources indexed by step) return (E,H)
  C02_factor_needed      the hypothesis `FactorOK` is exactly what the reverse update divides by

`FactorOK`: where a conductivity array is present, `1 ± c·σ·η₀·ε⁻¹/2 ≠ 0` (resp. `1 ± c·σ/η₀·μ⁻¹/2 ≠ 0`).
The fully anisotropic (9-component) lossless tier is covered by the correspondence check and the
implementation-side oracle only (see props/C02.json → not_shown).
-/
import FdtdxProps.C01
import Mathlib.Tactic.FieldSimp
import Mathlib.Tactic.Ring

namespace Fdtdx.C02
open Fdtdx Fdtdx.Yee Fdtdx.C01

section
variable {K : Type} [Field K]

/-- divisors of the lossy forward / reverse updates are non-zero -/
def okE (c eta0 ie : K) (sig : Option K) : Prop :=
  ∀ s, sig = some s → 1 + c * s * eta0 * ie / 2 ≠ 0 ∧ 1 - c * s * eta0 * ie / 2 ≠ 0
def okH (c eta0 im : K) (sig : Option K) : Prop :=
  ∀ s, sig = some s → 1 + c * s / eta0 * im / 2 ≠ 0 ∧ 1 - c * s / eta0 * im / 2 ≠ 0

structure FactorOK (cf : Cfg K) (m : Mat K) : Prop where
  ex : ∀ i j k, okE cf.c cf.eta0 (m.invEps.x i j k) (optAt (m.sigE.map (·.x)) i j k)
  ey : ∀ i j k, okE cf.c cf.eta0 (m.invEps.y i j k) (optAt (m.sigE.map (·.y)) i j k)
  ez : ∀ i j k, okE cf.c cf.eta0 (m.invEps.z i j k) (optAt (m.sigE.map (·.z)) i j k)
  hx : ∀ i j k, okH cf.c cf.eta0 (m.invMu.x i j k) (optAt (m.sigH.map (·.x)) i j k)
  hy : ∀ i j k, okH cf.c cf.eta0 (m.invMu.y i j k) (optAt (m.sigH.map (·.y)) i j k)
  hz : ∀ i j k, okH cf.c cf.eta0 (m.invMu.z i j k) (optAt (m.sigH.map (·.z)) i j k)

/-- scalar core: the reverse E update inverts the forward one (source term added then subtracted) -/
theorem revE1_updE1 (c eta0 e cu ie j : K) (sig : Option K) (h : okE c eta0 ie sig) :
    revE1 c eta0 (updE1 c eta0 e cu ie sig + j - j) cu ie sig = e := by
  cases sig with
  | none => simp [revE1, updE1]
  | some s =>
    obtain ⟨h1, h2⟩ := h s rfl
    simp only [revE1, updE1]
    generalize c * s * eta0 * ie / 2 = a at *
    field_simp
    ring

theorem revH1_updH1 (c eta0 hh cu im j : K) (sig : Option K) (h : okH c eta0 im sig) :
    revH1 c eta0 (updH1 c eta0 hh cu im sig + j - j) cu im sig = hh := by
  cases sig with
  | none => simp [revH1, updH1]
  | some s =>
    obtain ⟨h1, h2⟩ := h s rfl
    simp only [revH1, updH1]
    generalize c * s / eta0 * im / 2 = a at *
    field_simp
    ring

theorem V3.ext' (A B : V3 K) (hx : ∀ i j k, A.x i j k = B.x i j k) (hy : ∀ i j k, A.y i j k = B.y i j k)
    (hz : ∀ i j k, A.z i j k = B.z i j k) : A = B := by
  cases A; cases B
  simp only [V3.mk.injEq]
  exact ⟨funext fun i => funext fun j => funext fun k => hx i j k,
    funext fun i => funext fun j => funext fun k => hy i j k,
    funext fun i => funext fun j => funext fun k => hz i j k⟩

/-- reversing the H half step: for any E-field `E'` used by both directions -/
theorem revStepH_stepH (cf : Cfg K) (m : Mat K) (jH : V3 K) (E' H : V3 K) (hf : FactorOK cf m)
    (hwx : ∀ i j k, pmcMask cf 0 i j k = true → H.x i j k = 0)
    (hwy : ∀ i j k, pmcMask cf 1 i j k = true → H.y i j k = 0)
    (hwz : ∀ i j k, pmcMask cf 2 i j k = true → H.z i j k = 0) :
    revStepH cf m jH E' (stepH cf m jH E' H) = H := by
  apply V3.ext'
  · intro i j k
    by_cases hmk : pmcMask cf 0 i j k = true
    · simp [revStepH, projH, maskV, hmk, hwx i j k hmk]
    · simp only [revStepH, stepH, projH, maskV, subV, addV, hmk, Bool.false_eq_true, if_false]
      exact revH1_updH1 _ _ _ _ _ _ _ (hf.hx i j k)
  · intro i j k
    by_cases hmk : pmcMask cf 1 i j k = true
    · simp [revStepH, projH, maskV, hmk, hwy i j k hmk]
    · simp only [revStepH, stepH, projH, maskV, subV, addV, hmk, Bool.false_eq_true, if_false]
      exact revH1_updH1 _ _ _ _ _ _ _ (hf.hy i j k)
  · intro i j k
    by_cases hmk : pmcMask cf 2 i j k = true
    · simp [revStepH, projH, maskV, hmk, hwz i j k hmk]
    · simp only [revStepH, stepH, projH, maskV, subV, addV, hmk, Bool.false_eq_true, if_false]
      exact revH1_updH1 _ _ _ _ _ _ _ (hf.hz i j k)

theorem revStepE_stepE (cf : Cfg K) (m : Mat K) (jE : V3 K) (E H : V3 K) (hf : FactorOK cf m)
    (hwx : ∀ i j k, pecMask cf 0 i j k = true → E.x i j k = 0)
    (hwy : ∀ i j k, pecMask cf 1 i j k = true → E.y i j k = 0)
    (hwz : ∀ i j k, pecMask cf 2 i j k = true → E.z i j k = 0) :
    revStepE cf m jE (stepE cf m jE E H) H = E := by
  apply V3.ext'
  · intro i j k
    by_cases hmk : pecMask cf 0 i j k = true
    · simp [revStepE, projE, maskV, hmk, hwx i j k hmk]
    · simp only [revStepE, stepE, projE, maskV, subV, addV, hmk, Bool.false_eq_true, if_false]
      exact revE1_updE1 _ _ _ _ _ _ _ (hf.ex i j k)
  · intro i j k
    by_cases hmk : pecMask cf 1 i j k = true
    · simp [revStepE, projE, maskV, hmk, hwy i j k hmk]
    · simp only [revStepE, stepE, projE, maskV, subV, addV, hmk, Bool.false_eq_true, if_false]
      exact revE1_updE1 _ _ _ _ _ _ _ (hf.ey i j k)
  · intro i j k
    by_cases hmk : pecMask cf 2 i j k = true
    · simp [revStepE, projE, maskV, hmk, hwz i j k hmk]
    · simp only [revStepE, stepE, projE, maskV, subV, addV, hmk, Bool.false_eq_true, if_false]
      exact revE1_updE1 _ _ _ _ _ _ _ (hf.ez i j k)

/-- **C02_roundtrip**: stepping backward after stepping forward returns the original E and H, exactly. -/
theorem C02_roundtrip (cf : Cfg K) (m : Mat K) (jE jH : V3 K) (E H : V3 K)
    (hf : FactorOK cf m) (hw : WallOK cf E H) :
    backward cf m jE jH (forward cf m jE jH E H).1 (forward cf m jE jH E H).2 = (E, H) := by
  have hH : revStepH cf m jH (stepE cf m jE E H) (stepH cf m jH (stepE cf m jE E H) H) = H :=
    revStepH_stepH cf m jH _ H hf hw.hx hw.hy hw.hz
  have hE : revStepE cf m jE (stepE cf m jE E H) H = E := revStepE_stepE cf m jE E H hf hw.ex hw.ey hw.ez
  simp only [backward, forward]
  rw [hH, hE]

/-- n forward steps with step-indexed source terms, starting at step `t` -/
def fwdN (cf : Cfg K) (m : Mat K) (jE jH : Nat → V3 K) (t : Nat) : Nat → V3 K × V3 K → V3 K × V3 K
  | 0, s => s
  | n + 1, s => let s' := fwdN cf m jE jH t n s; forward cf m (jE (t + n)) (jH (t + n)) s'.1 s'.2

/-- n backward steps undoing steps t+n-1, …, t -/
def bwdN (cf : Cfg K) (m : Mat K) (jE jH : Nat → V3 K) (t : Nat) : Nat → V3 K × V3 K → V3 K × V3 K
  | 0, s => s
  | n + 1, s => bwdN cf m jE jH t n (backward cf m (jE (t + n)) (jH (t + n)) s.1 s.2)

theorem fwdN_walls (cf : Cfg K) (m : Mat K) (jE jH : Nat → V3 K) (t n : Nat) (E H : V3 K) (hw : WallOK cf E H) :
    WallOK cf (fwdN cf m jE jH t n (E, H)).1 (fwdN cf m jE jH t n (E, H)).2 := by
  cases n with
  | zero => exact hw
  | succ n => exact C01_walls_preserved cf m _ _ _ _

/-- **C02_roundtrip_steps**: every time step index of a run: n forward steps then n backward steps are the identity. -/
theorem C02_roundtrip_steps (cf : Cfg K) (m : Mat K) (jE jH : Nat → V3 K) (t n : Nat) (E H : V3 K)
    (hf : FactorOK cf m) (hw : WallOK cf E H) :
    bwdN cf m jE jH t n (fwdN cf m jE jH t n (E, H)) = (E, H) := by
  induction n with
  | zero => rfl
  | succ n ih =>
    have hwn := fwdN_walls cf m jE jH t n E H hw
    show bwdN cf m jE jH t n (backward cf m (jE (t + n)) (jH (t + n))
      (forward cf m (jE (t + n)) (jH (t + n)) (fwdN cf m jE jH t n (E, H)).1 (fwdN cf m jE jH t n (E, H)).2).1
      (forward cf m (jE (t + n)) (jH (t + n)) (fwdN cf m jE jH t n (E, H)).1 (fwdN cf m jE jH t n (E, H)).2).2) = _
    rw [C02_roundtrip cf m _ _ _ _ hf hwn]
    exact ih

/-- the excluded point is real: with `1 − a = 0` the reverse update divides by zero and (in a field, where
`x / 0 = 0`) does NOT return the original value — the hypothesis cannot be dropped. -/
theorem C02_factor_needed : revE1 (1 : ℚ) 1 (updE1 1 1 3 0 1 (some 2) + 0 - 0) 0 1 (some 2) ≠ 3 := by
  norm_num [revE1, updE1]

end

/-! ### non-vacuity: the concrete domain of C01 (periodic x, PEC y) with a lossy medium meets the hypotheses -/
example : FactorOK (K := ℚ) exCfg ⟨constV 2, constV 1, some (constV (1 / 3)), none⟩ := by
  constructor <;> intro i j k s hs <;> simp [optAt, constV, exCfg] at hs ⊢ <;> subst hs <;> norm_num

end Fdtdx.C02
