/-
C11 — CPML auxiliary fields under complex storage.

`Cpml.forwardP` (time step with PerfectlyMatchedLayer objects: fields and the psi arrays of every layer) commutes with
every ring homomorphism φ between scalar fields, for every list of layers (any axes, boxes, coefficient arrays, both
`simulate_boundaries` branches, both kappa branches), shape, halo rule, walls, metric, diagonal materials:

  C11_cpml_natural          forwardP on the φ-image of (config, materials, layers, sources, E, H, psi) = φ-image of forwardP
  C11_cpml_natural_steps    … after n steps with step-indexed sources
  C11_cpml_complex_run      φ = (ℝ → ℂ): a complex-storage run with PML started from real data has Re = the real run and
                            Im = 0 for E, H — and
  C11_cpml_psi_real        : every psi array stays the embedded real psi array.
-/
import FdtdxProps.C11
import FdtdxProps.C10Pml
import FdtdxModel.C11Ext
import Mathlib.Tactic.NormNum

namespace Fdtdx.C11
open Fdtdx Fdtdx.Yee Fdtdx.C02 Fdtdx.Cpml
set_option linter.unusedSectionVars false

section
variable {R K : Type} [Field R] [Field K] (φ : R →+* K)

theorem stepCpml1_map (p : Pml R) (isE sim : Bool) (o : Nat) (d q : R) :
    stepCpml1 (mapPml φ p) isE sim o (φ d) (φ q) = (φ (stepCpml1 p isE sim o d q).1, φ (stepCpml1 p isE sim o d q).2) := by
  cases isE <;> cases sim <;> cases h : p.kappaDefault <;> simp [stepCpml1, mapPml, h]

theorem dFwd_map (cf : Cfg R) (ax : Nat) (f : F3 R) (i j k : Nat) :
    dFwd (mapCfg φ cf) ax (mapF φ f) i j k = φ (dFwd cf ax f i j k) := by
  rcases ax with _ | _ | ax <;> simp only [dFwd, mapF, mapCfg, map_sub, map_mul, next1_map]

theorem dBwd_map (cf : Cfg R) (ax : Nat) (f : F3 R) (i j k : Nat) :
    dBwd (mapCfg φ cf) ax (mapF φ f) i j k = φ (dBwd cf ax f i j k) := by
  rcases ax with _ | _ | ax <;> simp only [dBwd, mapF, mapCfg, map_sub, map_mul, prev1_map]

theorem get_map (V : V3 R) (c : Nat) : V3.get (mapV φ V) c = mapF φ (V3.get V c) := by
  rcases c with _ | _ | c <;> rfl

theorem mapPml_axis (p : Pml R) : (mapPml φ p).axis = p.axis := rfl
theorem mapPml_box (p : Pml R) : (mapPml φ p).box = p.box := rfl
theorem mapPml_off (p : Pml R) (i j k : Nat) : (mapPml φ p).off i j k = p.off i j k := rfl

theorem applyE_map (cf : Cfg R) (sim : Bool) (E : V3 R) (comp i j k : Nat) (x : R) (s : PmlSt R) :
    applyE (mapCfg φ cf) sim (mapV φ E) comp i j k (φ x) (mapSt φ s) = φ (applyE cf sim E comp i j k x s) := by
  have hb : (mapSt φ s).p.box = s.p.box := rfl
  have ha : (mapSt φ s).p.axis = s.p.axis := rfl
  have ho : (mapSt φ s).p.off i j k = s.p.off i j k := rfl
  have h1 : (mapSt φ s).h1 i j k = φ (s.h1 i j k) := rfl
  have h2 : (mapSt φ s).h2 i j k = φ (s.h2 i j k) := rfl
  have hp : (mapSt φ s).p = mapPml φ s.p := rfl
  simp only [applyE, h1, h2, hp, mapPml_axis, mapPml_box, mapPml_off, get_map, dFwd_map, stepCpml1_map]
  split_ifs <;> simp

theorem applyH_map (cf : Cfg R) (sim : Bool) (H : V3 R) (comp i j k : Nat) (x : R) (s : PmlSt R) :
    applyH (mapCfg φ cf) sim (mapV φ H) comp i j k (φ x) (mapSt φ s) = φ (applyH cf sim H comp i j k x s) := by
  have hb : (mapSt φ s).p.box = s.p.box := rfl
  have ha : (mapSt φ s).p.axis = s.p.axis := rfl
  have ho : (mapSt φ s).p.off i j k = s.p.off i j k := rfl
  have h1 : (mapSt φ s).e1 i j k = φ (s.e1 i j k) := rfl
  have h2 : (mapSt φ s).e2 i j k = φ (s.e2 i j k) := rfl
  have hp : (mapSt φ s).p = mapPml φ s.p := rfl
  simp only [applyH, h1, h2, hp, mapPml_axis, mapPml_box, mapPml_off, get_map, dBwd_map, stepCpml1_map]
  split_ifs <;> simp

theorem foldE_map (cf : Cfg R) (sim : Bool) (E : V3 R) (comp i j k : Nat) (l : List (PmlSt R)) : ∀ x : R,
    (l.map (mapSt φ)).foldl (applyE (mapCfg φ cf) sim (mapV φ E) comp i j k) (φ x)
      = φ (l.foldl (applyE cf sim E comp i j k) x) := by
  induction l with
  | nil => intro x; rfl
  | cons s l ih =>
    intro x
    simp only [List.map_cons, List.foldl_cons]
    rw [applyE_map]
    exact ih _

theorem foldH_map (cf : Cfg R) (sim : Bool) (H : V3 R) (comp i j k : Nat) (l : List (PmlSt R)) : ∀ x : R,
    (l.map (mapSt φ)).foldl (applyH (mapCfg φ cf) sim (mapV φ H) comp i j k) (φ x)
      = φ (l.foldl (applyH cf sim H comp i j k) x) := by
  induction l with
  | nil => intro x; rfl
  | cons s l ih =>
    intro x
    simp only [List.map_cons, List.foldl_cons]
    rw [applyH_map]
    exact ih _

theorem curlEp_map (cf : Cfg R) (sim : Bool) (l : List (PmlSt R)) (E : V3 R) :
    curlEp (mapCfg φ cf) sim (l.map (mapSt φ)) (mapV φ E) = mapV φ (curlEp cf sim l E) := by
  have hc := curlE_map φ cf E
  apply V3.ext' <;> intro i j k
  · have := congrArg (fun V => V.x i j k) hc
    simp only [mapV] at this
    simp only [curlEp, mapV, ← this]
    exact foldE_map φ cf sim E 0 i j k l _
  · have := congrArg (fun V => V.y i j k) hc
    simp only [mapV] at this
    simp only [curlEp, mapV, ← this]
    exact foldE_map φ cf sim E 1 i j k l _
  · have := congrArg (fun V => V.z i j k) hc
    simp only [mapV] at this
    simp only [curlEp, mapV, ← this]
    exact foldE_map φ cf sim E 2 i j k l _

theorem curlHp_map (cf : Cfg R) (sim : Bool) (l : List (PmlSt R)) (H : V3 R) :
    curlHp (mapCfg φ cf) sim (l.map (mapSt φ)) (mapV φ H) = mapV φ (curlHp cf sim l H) := by
  have hc := curlH_map φ cf H
  apply V3.ext' <;> intro i j k
  · have := congrArg (fun V => V.x i j k) hc
    simp only [mapV] at this
    simp only [curlHp, mapV, ← this]
    exact foldH_map φ cf sim H 0 i j k l _
  · have := congrArg (fun V => V.y i j k) hc
    simp only [mapV] at this
    simp only [curlHp, mapV, ← this]
    exact foldH_map φ cf sim H 1 i j k l _
  · have := congrArg (fun V => V.z i j k) hc
    simp only [mapV] at this
    simp only [curlHp, mapV, ← this]
    exact foldH_map φ cf sim H 2 i j k l _

theorem updPsiH_map (cf : Cfg R) (sim : Bool) (E : V3 R) (s : PmlSt R) :
    updPsiH (mapCfg φ cf) sim (mapV φ E) (mapSt φ s) = mapSt φ (updPsiH cf sim E s) := by
  have hs : (mapSt φ s).p = mapPml φ s.p := rfl
  apply C10.PmlSt.ext'
  · rfl
  · intro i j k; rfl
  · intro i j k; rfl
  · intro i j k
    have h1 : (mapSt φ s).h1 i j k = φ (s.h1 i j k) := rfl
    have hr : (mapSt φ (updPsiH cf sim E s)).h1 i j k = φ ((updPsiH cf sim E s).h1 i j k) := rfl
    rw [hr]
    simp only [updPsiH, hs, h1, mapPml_axis, mapPml_box, mapPml_off, get_map, dFwd_map, stepCpml1_map]
    split_ifs <;> rfl
  · intro i j k
    have h1 : (mapSt φ s).h2 i j k = φ (s.h2 i j k) := rfl
    have hr : (mapSt φ (updPsiH cf sim E s)).h2 i j k = φ ((updPsiH cf sim E s).h2 i j k) := rfl
    rw [hr]
    simp only [updPsiH, hs, h1, mapPml_axis, mapPml_box, mapPml_off, get_map, dFwd_map, stepCpml1_map]
    split_ifs <;> rfl

theorem updPsiE_map (cf : Cfg R) (sim : Bool) (H : V3 R) (s : PmlSt R) :
    updPsiE (mapCfg φ cf) sim (mapV φ H) (mapSt φ s) = mapSt φ (updPsiE cf sim H s) := by
  have hs : (mapSt φ s).p = mapPml φ s.p := rfl
  apply C10.PmlSt.ext'
  · rfl
  · intro i j k
    have h1 : (mapSt φ s).e1 i j k = φ (s.e1 i j k) := rfl
    have hr : (mapSt φ (updPsiE cf sim H s)).e1 i j k = φ ((updPsiE cf sim H s).e1 i j k) := rfl
    rw [hr]
    simp only [updPsiE, hs, h1, mapPml_axis, mapPml_box, mapPml_off, get_map, dBwd_map, stepCpml1_map]
    split_ifs <;> rfl
  · intro i j k
    have h1 : (mapSt φ s).e2 i j k = φ (s.e2 i j k) := rfl
    have hr : (mapSt φ (updPsiE cf sim H s)).e2 i j k = φ ((updPsiE cf sim H s).e2 i j k) := rfl
    rw [hr]
    simp only [updPsiE, hs, h1, mapPml_axis, mapPml_box, mapPml_off, get_map, dBwd_map, stepCpml1_map]
    split_ifs <;> rfl
  · intro i j k; rfl
  · intro i j k; rfl

theorem updEwith_map (cf : Cfg R) (m : Mat R) (jE cu E : V3 R) :
    updEwith (mapCfg φ cf) (mapMat φ m) (mapV φ jE) (mapV φ cu) (mapV φ E) = mapV φ (updEwith cf m jE cu E) := by
  have hx := optAt_map φ m.sigE (·.x) (·.x) (fun _ _ _ _ => rfl)
  have hy := optAt_map φ m.sigE (·.y) (·.y) (fun _ _ _ _ => rfl)
  have hz := optAt_map φ m.sigE (·.z) (·.z) (fun _ _ _ _ => rfl)
  apply V3.ext' <;> intro i j k
  · simp only [updEwith, projE, maskV, addV, mapV, mapMat, pecMask_map, hx]
    split_ifs <;> simp [updE1_map, mapCfg]
  · simp only [updEwith, projE, maskV, addV, mapV, mapMat, pecMask_map, hy]
    split_ifs <;> simp [updE1_map, mapCfg]
  · simp only [updEwith, projE, maskV, addV, mapV, mapMat, pecMask_map, hz]
    split_ifs <;> simp [updE1_map, mapCfg]

theorem updHwith_map (cf : Cfg R) (m : Mat R) (jH cu H : V3 R) :
    updHwith (mapCfg φ cf) (mapMat φ m) (mapV φ jH) (mapV φ cu) (mapV φ H) = mapV φ (updHwith cf m jH cu H) := by
  have hx := optAt_map φ m.sigH (·.x) (·.x) (fun _ _ _ _ => rfl)
  have hy := optAt_map φ m.sigH (·.y) (·.y) (fun _ _ _ _ => rfl)
  have hz := optAt_map φ m.sigH (·.z) (·.z) (fun _ _ _ _ => rfl)
  apply V3.ext' <;> intro i j k
  · simp only [updHwith, projH, maskV, addV, mapV, mapMat, pmcMask_map, hx]
    split_ifs <;> simp [updH1_map, mapCfg]
  · simp only [updHwith, projH, maskV, addV, mapV, mapMat, pmcMask_map, hy]
    split_ifs <;> simp [updH1_map, mapCfg]
  · simp only [updHwith, projH, maskV, addV, mapV, mapMat, pmcMask_map, hz]
    split_ifs <;> simp [updH1_map, mapCfg]

theorem mapPsiE_map (cf : Cfg R) (sim : Bool) (H : V3 R) (l : List (PmlSt R)) :
    (l.map (mapSt φ)).map (updPsiE (mapCfg φ cf) sim (mapV φ H)) = (l.map (updPsiE cf sim H)).map (mapSt φ) := by
  simp only [List.map_map]
  apply List.map_congr_left
  intro s _
  exact updPsiE_map φ cf sim H s

theorem mapPsiH_map (cf : Cfg R) (sim : Bool) (E : V3 R) (l : List (PmlSt R)) :
    (l.map (mapSt φ)).map (updPsiH (mapCfg φ cf) sim (mapV φ E)) = (l.map (updPsiH cf sim E)).map (mapSt φ) := by
  simp only [List.map_map]
  apply List.map_congr_left
  intro s _
  exact updPsiH_map φ cf sim E s

/-- **C11_cpml_natural**: the time step with CPML layers (fields and all psi arrays) commutes with every ring
homomorphism between scalar fields. -/
theorem C11_cpml_natural (cf : Cfg R) (m : Mat R) (jE jH : V3 R) (sim : Bool) (l : List (PmlSt R)) (E H : V3 R) :
    forwardP (mapCfg φ cf) (mapMat φ m) (mapV φ jE) (mapV φ jH) sim (l.map (mapSt φ)) (mapV φ E) (mapV φ H)
      = (mapV φ (forwardP cf m jE jH sim l E H).1, mapV φ (forwardP cf m jE jH sim l E H).2.1,
         (forwardP cf m jE jH sim l E H).2.2.map (mapSt φ)) := by
  simp only [forwardP]
  rw [curlHp_map, updEwith_map, mapPsiE_map, curlEp_map, updHwith_map, mapPsiH_map]

/-- **C11_cpml_natural_steps** -/
theorem C11_cpml_natural_steps (cf : Cfg R) (m : Mat R) (jE jH : Nat → V3 R) (sim : Bool) (t n : Nat)
    (l : List (PmlSt R)) (E H : V3 R) :
    C10.fwdPN (mapCfg φ cf) (mapMat φ m) (fun s => mapV φ (jE s)) (fun s => mapV φ (jH s)) sim t n
        (mapV φ E, mapV φ H, l.map (mapSt φ))
      = (mapV φ (C10.fwdPN cf m jE jH sim t n (E, H, l)).1, mapV φ (C10.fwdPN cf m jE jH sim t n (E, H, l)).2.1,
         (C10.fwdPN cf m jE jH sim t n (E, H, l)).2.2.map (mapSt φ)) := by
  induction n with
  | zero => rfl
  | succ n ih =>
    simp only [C10.fwdPN]
    rw [ih]
    exact C11_cpml_natural φ cf m _ _ sim _ _ _

end

section complex

/-- **C11_cpml_complex_run**: complex storage of a run with CPML layers started from real data: real part of every
field component = the real-storage run, imaginary part = 0, at every step and cell. -/
theorem C11_cpml_complex_run (cf : Cfg ℝ) (m : Mat ℝ) (jE jH : Nat → V3 ℝ) (sim : Bool) (t n : Nat) (l : List (PmlSt ℝ))
    (E H : V3 ℝ) (i j k : Nat) :
    let SC := C10.fwdPN (mapCfg emb cf) (mapMat emb m) (fun s => mapV emb (jE s)) (fun s => mapV emb (jH s)) sim t n
        (mapV emb E, mapV emb H, l.map (mapSt emb))
    let SR := C10.fwdPN cf m jE jH sim t n (E, H, l)
    ((SC.1.x i j k).re = SR.1.x i j k ∧ (SC.1.x i j k).im = 0)
    ∧ ((SC.1.y i j k).re = SR.1.y i j k ∧ (SC.1.y i j k).im = 0)
    ∧ ((SC.1.z i j k).re = SR.1.z i j k ∧ (SC.1.z i j k).im = 0)
    ∧ ((SC.2.1.x i j k).re = SR.2.1.x i j k ∧ (SC.2.1.x i j k).im = 0)
    ∧ ((SC.2.1.y i j k).re = SR.2.1.y i j k ∧ (SC.2.1.y i j k).im = 0)
    ∧ ((SC.2.1.z i j k).re = SR.2.1.z i j k ∧ (SC.2.1.z i j k).im = 0) := by
  intro SC SR
  have h : SC = _ := C11_cpml_natural_steps emb cf m jE jH sim t n l E H
  rw [h]
  simp [mapV, emb]
  exact ⟨rfl, rfl, rfl, rfl, rfl, rfl⟩

/-- **C11_cpml_psi_real**: the auxiliary arrays of the complex-storage run are exactly the embedded auxiliary arrays of
the real-storage run (psi stays real), layer by layer. -/
theorem C11_cpml_psi_real (cf : Cfg ℝ) (m : Mat ℝ) (jE jH : Nat → V3 ℝ) (sim : Bool) (t n : Nat) (l : List (PmlSt ℝ))
    (E H : V3 ℝ) :
    (C10.fwdPN (mapCfg emb cf) (mapMat emb m) (fun s => mapV emb (jE s)) (fun s => mapV emb (jH s)) sim t n
        (mapV emb E, mapV emb H, l.map (mapSt emb))).2.2
      = (C10.fwdPN cf m jE jH sim t n (E, H, l)).2.2.map (mapSt emb) := by
  rw [C11_cpml_natural_steps emb cf m jE jH sim t n l E H]

end complex

/-! ### non-vacuity: the embedded layer of C10's example keeps its static data and has the embedded psi values -/
example : (mapSt (fun q : ℚ => (q : ℝ)) (C10.exSt 2)).p.axis = 0 ∧ (mapSt (fun q : ℚ => (q : ℝ)) (C10.exSt 2)).h1 0 0 0 = 6 := by
  refine ⟨rfl, ?_⟩
  simp [mapSt, mapF, C10.exSt]; norm_num

end Fdtdx.C11
