/-
C20 — Projection filters are bounded, monotone and well-behaved at the extremes.

Theorems about `FdtdxModel/C20.lean` over ℝ.  `th` is any function with the three facts used
(`TanhLike`: strictly monotone, `th 0 = 0`, odd); `Real.tanh` is shown to be one (`real_tanhLike`), and
every theorem has a `…_real` corollary or is used through it.  `isInf / isZero : ℝ → Bool` are the two
flags of the code (`jnp.isinf(beta)`, `beta == 0`); `isZero` is tied to `= 0` by hypothesis `hz`, `isInf` is
arbitrary (ℝ has no infinite element): "β = ∞" is the branch `isInf β = true`, and `isInf 1 = false`
(`h1`) says that the substituted safe value is finite.

  C20_range            0 ≤ β (or flagged infinite), η ∈ [0,1], x ∈ [0,1]  →  0 ≤ proj x ≤ 1
  C20_monotone         x ≤ y → proj x ≤ proj y                  (all real x, y)
  C20_fix_zero/_one    η ∈ (0,1) → proj 0 = 0, proj 1 = 1         (and a witness that η = 1 breaks it at β = ∞)
  C20_beta_zero        β = 0 → proj = clip to [0,1]   (= identity on [0,1])
  C20_beta_inf         isInf β → proj x = 1 for x > η, 0 for x < η
  C20_guard            for every β ≥ 0 / flagged: safe_beta is finite, > 0, divisor > 0: the formula branch,
                       evaluated for EVERY β by the double `where`, never divides by zero
  C20_limit_*          for fixed x ≠ η, η ∈ (0,1): proj_β x → step as β → ∞   (Real.tanh)
  C20_smoothed_eq_plain        needs_smoothing = false → smoothed cell = plain projection of the cell
  C20_needsSmoothing_iff       needs_smoothing ⇔ |∇ρ|² > floor ∧ |η − ρ| < R·|∇ρ|  (interface inside the voxel; floor ≥ 0:
                               0 as found, tiny·2²⁰ after the repair)
  C20_floor_plain              |∇ρ|² ≤ floor → plain projection (the repaired guard)
  C20_uniform_plain            a uniform design is projected plainly everywhere
  C20_smooth_guards            norm_eff > 0 and the polynomial argument is in (−1,1): the reasons the smoothed
                               branch has no singular operation
  C20_deriv / C20_deriv_bound  the formula branch is differentiable in x with derivative
                               β(1 − tanh²(β(x−η)))/divisor ∈ [0, β/divisor]  (finite for finite β > 0)

PARTIAL (float behaviour, K/S only): "finite gradients for β ∈ {0, ∞} in IEEE arithmetic" is a statement
about NaN/Inf propagation through `jnp.where` under automatic differentiation.  What is proved here are the
real-number reasons (C20_guard, C20_smooth_guards, C20_deriv_bound); the IEEE fact is checked by K on the
real code (jax.grad, binary64 and float32) for every case.
-/
import FdtdxModel.C20
import Mathlib.Analysis.SpecialFunctions.Trigonometric.DerivHyp
import Mathlib.Analysis.SpecialFunctions.Sqrt
import Mathlib.Analysis.SpecialFunctions.Exp
import Mathlib.Tactic.Linarith
import Mathlib.Tactic.Ring
import Mathlib.Tactic.FieldSimp
import Mathlib.Tactic.Positivity

namespace Fdtdx.C20

/-- the facts about `tanh` that the range / monotonicity / endpoint theorems use -/
structure TanhLike (th : ℝ → ℝ) : Prop where
  mono : StrictMono th
  zero : th 0 = 0
  odd : ∀ x, th (-x) = -th x

theorem real_tanh_strictMono : StrictMono Real.tanh := by
  intro x y hxy
  rw [Real.tanh_eq_sinh_div_cosh, Real.tanh_eq_sinh_div_cosh,
    div_lt_div_iff₀ (Real.cosh_pos x) (Real.cosh_pos y)]
  have h : 0 < Real.sinh (y - x) := Real.sinh_pos_iff.mpr (by linarith)
  rw [Real.sinh_sub] at h
  nlinarith [h]

theorem real_tanhLike : TanhLike Real.tanh :=
  ⟨real_tanh_strictMono, Real.tanh_zero, Real.tanh_neg⟩

section abstract
variable {th : ℝ → ℝ} (T : TanhLike th) {isInf isZero : ℝ → Bool}

include T in
theorem th_nonneg {x : ℝ} (hx : 0 ≤ x) : 0 ≤ th x := by
  rw [← T.zero]; exact T.mono.monotone hx

include T in
theorem th_pos {x : ℝ} (hx : 0 < x) : 0 < th x := by
  rw [← T.zero]; exact T.mono hx

/-! ### the guard -/

include T in
/-- the divisor of the formula branch is positive for every finite β > 0 and η ∈ [0,1] -/
theorem divisor_pos {b η : ℝ} (hb : 0 < b) (h0 : 0 ≤ η) (h1 : η ≤ 1) : 0 < divisor th b η := by
  unfold divisor
  rcases h0.eq_or_lt with h | h
  · subst h
    have : 0 < th (b * (1 - 0)) := th_pos T (by simpa using hb)
    have h2 : 0 ≤ th (b * 0) := th_nonneg T (by simp)
    linarith
  · have : 0 < th (b * η) := th_pos T (mul_pos hb h)
    have h2 : 0 ≤ th (b * (1 - η)) := th_nonneg T (mul_nonneg hb.le (by linarith))
    linarith

/-- `safe_beta` is never flagged infinite and never zero; for β ≥ 0 it is positive -/
theorem safeBeta_spec (hz : ∀ b, isZero b = true ↔ b = 0) (h1 : isInf 1 = false) (β : ℝ) :
    isInf (safeBeta isInf isZero β) = false ∧ safeBeta isInf isZero β ≠ 0 ∧
      (0 ≤ β → 0 < safeBeta isInf isZero β) := by
  unfold safeBeta
  by_cases h : (isInf β || isZero β) = true
  · rw [if_pos h]; exact ⟨h1, one_ne_zero, fun _ => one_pos⟩
  · rw [if_neg h]
    simp only [Bool.or_eq_true, not_or, Bool.not_eq_true] at h
    have hne : β ≠ 0 := fun h0 => by
      have := (hz β).mpr h0
      rw [h.2] at this; exact Bool.noConfusion this
    exact ⟨h.1, hne, fun h0 => lt_of_le_of_ne h0 (Ne.symm hne)⟩

include T in
/-- C20_guard: whatever β ≥ 0 is passed (0, finite, flagged infinite), the formula branch — which the
double `where` evaluates unconditionally — is computed with a finite positive `safe_beta` and a positive divisor. -/
theorem C20_guard (hz : ∀ b, isZero b = true ↔ b = 0) (h1 : isInf 1 = false)
    {β η : ℝ} (hβ : 0 ≤ β) (h0 : 0 ≤ η) (h1' : η ≤ 1) :
    isInf (safeBeta isInf isZero β) = false ∧ 0 < safeBeta isInf isZero β ∧
      0 < divisor th (safeBeta isInf isZero β) η := by
  obtain ⟨a, _, c⟩ := safeBeta_spec hz h1 β
  exact ⟨a, c hβ, divisor_pos T (c hβ) h0 h1'⟩

/-! ### branches -/

theorem C20_beta_zero {β : ℝ} (hβ : isZero β = true) (η x : ℝ) :
    tanhProjection th isInf isZero β η x = clip01 x := by
  simp [tanhProjection, hβ]

theorem clip01_of_mem {x : ℝ} (h0 : 0 ≤ x) (h1 : x ≤ 1) : clip01 x = x := by
  unfold clip01
  rw [if_neg (not_lt.mpr h0), if_neg (not_lt.mpr h1)]

theorem clip01_mem (x : ℝ) : 0 ≤ clip01 x ∧ clip01 x ≤ 1 := by
  unfold clip01
  split_ifs with h1 h2
  · exact ⟨le_refl _, zero_le_one⟩
  · exact ⟨zero_le_one, le_refl _⟩
  · exact ⟨not_lt.mp h1, not_lt.mp h2⟩

theorem clip01_mono {x y : ℝ} (h : x ≤ y) : clip01 x ≤ clip01 y := by
  unfold clip01
  split_ifs <;> linarith

/-- β = 0 is the identity on [0,1] -/
theorem C20_beta_zero_id {β : ℝ} (hβ : isZero β = true) (η : ℝ) {x : ℝ} (h0 : 0 ≤ x) (h1 : x ≤ 1) :
    tanhProjection th isInf isZero β η x = x := by
  rw [C20_beta_zero hβ, clip01_of_mem h0 h1]

theorem C20_beta_inf {β : ℝ} (hz : isZero β = false) (hi : isInf β = true) (η x : ℝ) :
    tanhProjection th isInf isZero β η x = step η x := by
  simp [tanhProjection, hz, hi]

theorem C20_beta_inf_above {β : ℝ} (hz : isZero β = false) (hi : isInf β = true) {η x : ℝ} (h : η < x) :
    tanhProjection th isInf isZero β η x = 1 := by
  rw [C20_beta_inf hz hi, step, if_pos h]

theorem C20_beta_inf_below {β : ℝ} (hz : isZero β = false) (hi : isInf β = true) {η x : ℝ} (h : x < η) :
    tanhProjection th isInf isZero β η x = 0 := by
  rw [C20_beta_inf hz hi, step, if_neg (not_lt.mpr h.le)]

theorem C20_formula {β : ℝ} (hz : isZero β = false) (hi : isInf β = false) (η x : ℝ) :
    tanhProjection th isInf isZero β η x = dividend th β η x / divisor th β η := by
  simp [tanhProjection, safeBeta, hz, hi]

theorem step_mem (η x : ℝ) : 0 ≤ step η x ∧ step η x ≤ 1 := by
  unfold step; split_ifs <;> constructor <;> norm_num

theorem step_mono (η : ℝ) {x y : ℝ} (h : x ≤ y) : step η x ≤ step η y := by
  unfold step
  by_cases h1 : η < x
  · rw [if_pos h1, if_pos (lt_of_lt_of_le h1 h)]
  · rw [if_neg h1]; split_ifs <;> norm_num

/-! ### range, monotonicity, endpoints -/

include T in
theorem dividend_mono {b η : ℝ} (hb : 0 < b) {x y : ℝ} (h : x ≤ y) :
    dividend th b η x ≤ dividend th b η y := by
  unfold dividend
  have : th (b * (x - η)) ≤ th (b * (y - η)) :=
    T.mono.monotone (mul_le_mul_of_nonneg_left (by linarith) hb.le)
  linarith

include T in
theorem dividend_zero (b η : ℝ) : dividend th b η 0 = 0 := by
  unfold dividend
  have : b * (0 - η) = -(b * η) := by ring
  rw [this, T.odd]; ring

theorem dividend_one (b η : ℝ) : dividend th b η 1 = divisor th b η := rfl

include T in
/-- C20_range: the projection maps [0,1] into [0,1] for every β ≥ 0 (zero, finite or flagged infinite) and η ∈ [0,1]. -/
theorem C20_range (hz : ∀ b, isZero b = true ↔ b = 0) {β η x : ℝ} (hβ : 0 ≤ β) (h0 : 0 ≤ η) (h1 : η ≤ 1)
    (hx0 : 0 ≤ x) (hx1 : x ≤ 1) :
    0 ≤ tanhProjection th isInf isZero β η x ∧ tanhProjection th isInf isZero β η x ≤ 1 := by
  cases hzb : isZero β
  · cases hib : isInf β
    · have hne : β ≠ 0 := fun h => by rw [(hz β).mpr h] at hzb; exact Bool.noConfusion hzb
      have hb : 0 < β := lt_of_le_of_ne hβ (Ne.symm hne)
      have hd := divisor_pos T hb h0 h1
      rw [C20_formula hzb hib]
      constructor
      · apply div_nonneg _ hd.le
        rw [← dividend_zero T β η]; exact dividend_mono T hb hx0
      · rw [div_le_one hd, ← dividend_one]; exact dividend_mono T hb hx1
    · rw [C20_beta_inf hzb hib]; exact step_mem η x
  · rw [C20_beta_zero hzb]; exact clip01_mem x

include T in
/-- C20_monotone: non-decreasing in the design value, for every β ≥ 0 and η ∈ [0,1], on all of ℝ. -/
theorem C20_monotone (hz : ∀ b, isZero b = true ↔ b = 0) {β η : ℝ} (hβ : 0 ≤ β) (h0 : 0 ≤ η) (h1 : η ≤ 1)
    {x y : ℝ} (hxy : x ≤ y) :
    tanhProjection th isInf isZero β η x ≤ tanhProjection th isInf isZero β η y := by
  cases hzb : isZero β
  · cases hib : isInf β
    · have hne : β ≠ 0 := fun h => by rw [(hz β).mpr h] at hzb; exact Bool.noConfusion hzb
      have hb : 0 < β := lt_of_le_of_ne hβ (Ne.symm hne)
      have hd := divisor_pos T hb h0 h1
      rw [C20_formula hzb hib, C20_formula hzb hib]
      exact div_le_div_of_nonneg_right (dividend_mono T hb hxy) hd.le
    · rw [C20_beta_inf hzb hib, C20_beta_inf hzb hib]; exact step_mono η hxy
  · rw [C20_beta_zero hzb, C20_beta_zero hzb]; exact clip01_mono hxy

include T in
/-- strictly increasing in the formula branch (finite β > 0) -/
theorem C20_strictMono_formula {β η : ℝ} (hzb : isZero β = false) (hib : isInf β = false) (hb : 0 < β)
    (h0 : 0 ≤ η) (h1 : η ≤ 1) {x y : ℝ} (hxy : x < y) :
    tanhProjection th isInf isZero β η x < tanhProjection th isInf isZero β η y := by
  have hd := divisor_pos T hb h0 h1
  rw [C20_formula hzb hib, C20_formula hzb hib]
  apply div_lt_div_of_pos_right _ hd
  unfold dividend
  have : th (β * (x - η)) < th (β * (y - η)) := T.mono (mul_lt_mul_of_pos_left (by linarith) hb)
  linarith

include T in
/-- C20_fix_zero: 0 is a fixed point for EVERY β (any flags), as soon as 0 ≤ η -/
theorem C20_fix_zero (β : ℝ) {η : ℝ} (h0 : 0 ≤ η) :
    tanhProjection th isInf isZero β η 0 = 0 := by
  cases hzb : isZero β
  · cases hib : isInf β
    · rw [C20_formula hzb hib, dividend_zero T, zero_div]
    · rw [C20_beta_inf hzb hib, step, if_neg (not_lt.mpr h0)]
  · rw [C20_beta_zero hzb, clip01_of_mem le_rfl zero_le_one]

include T in
/-- C20_fix_one: 1 is a fixed point when η < 1 -/
theorem C20_fix_one (hz : ∀ b, isZero b = true ↔ b = 0) {β η : ℝ} (hβ : 0 ≤ β) (h0 : 0 ≤ η) (h1 : η < 1) :
    tanhProjection th isInf isZero β η 1 = 1 := by
  cases hzb : isZero β
  · cases hib : isInf β
    · have hne : β ≠ 0 := fun h => by rw [(hz β).mpr h] at hzb; exact Bool.noConfusion hzb
      have hb : 0 < β := lt_of_le_of_ne hβ (Ne.symm hne)
      rw [C20_formula hzb hib, dividend_one, div_self (divisor_pos T hb h0 h1.le).ne']
    · rw [C20_beta_inf hzb hib, step, if_pos h1]
  · rw [C20_beta_zero hzb, clip01_of_mem zero_le_one le_rfl]

/-- the side condition η < 1 of `C20_fix_one` is needed: at β = ∞ and η = 1 the value at 1 is 0 -/
theorem C20_fix_one_needs_eta_lt_one {β : ℝ} (hzb : isZero β = false) (hib : isInf β = true) :
    tanhProjection th isInf isZero β 1 1 = 0 := by
  rw [C20_beta_inf hzb hib, step, if_neg (lt_irrefl _)]

end abstract

/-! ### instances for `Real.tanh` with the flags of a finite β -/

/-- flags as the code computes them for a real (hence finite) β -/
noncomputable def zeroFlag (b : ℝ) : Bool := decide (b = 0)
def noInf (_ : ℝ) : Bool := false

theorem zeroFlag_spec : ∀ b, zeroFlag b = true ↔ b = 0 := fun b => by simp [zeroFlag]

/-- range + monotone + endpoints for `Real.tanh` and every real β ≥ 0 -/
theorem C20_real (β η : ℝ) (hβ : 0 ≤ β) (h0 : 0 < η) (h1 : η < 1) :
    (∀ x, 0 ≤ x → x ≤ 1 → 0 ≤ tanhProjection Real.tanh noInf zeroFlag β η x ∧
        tanhProjection Real.tanh noInf zeroFlag β η x ≤ 1) ∧
    Monotone (tanhProjection Real.tanh noInf zeroFlag β η) ∧
    tanhProjection Real.tanh noInf zeroFlag β η 0 = 0 ∧
    tanhProjection Real.tanh noInf zeroFlag β η 1 = 1 :=
  ⟨fun _ a b => C20_range real_tanhLike zeroFlag_spec hβ h0.le h1.le a b,
   fun _ _ h => C20_monotone real_tanhLike zeroFlag_spec hβ h0.le h1.le h,
   C20_fix_zero real_tanhLike β h0.le,
   C20_fix_one real_tanhLike zeroFlag_spec hβ h0.le h1⟩

-- non-vacuity: the hypotheses are met by concrete numbers and the three branches are reachable
example : (0:ℝ) ≤ 8 ∧ (0:ℝ) < 1/2 ∧ (1/2:ℝ) < 1 := by norm_num
example : zeroFlag 0 = true ∧ zeroFlag 8 = false ∧ noInf 8 = false := by simp [zeroFlag, noInf]
example : tanhProjection Real.tanh noInf zeroFlag 0 (1/2) (3/4) = 3/4 :=
  C20_beta_zero_id (by simp [zeroFlag]) _ (by norm_num) (by norm_num)
example : tanhProjection Real.tanh (fun _ => true) zeroFlag 1 (1/2) (3/4) = 1 :=
  C20_beta_inf_above (by simp [zeroFlag]) rfl (by norm_num)

/-! ### β → ∞ -/

open Filter Topology in
theorem tendsto_tanh_atTop : Tendsto Real.tanh atTop (𝓝 1) := by
  have h2 : Tendsto (fun x : ℝ => Real.exp (-(2 * x))) atTop (𝓝 0) :=
    Real.tendsto_exp_neg_atTop_nhds_zero.comp (tendsto_id.const_mul_atTop (by norm_num : (0:ℝ) < 2))
  have h3 : Tendsto (fun x : ℝ => (1 - Real.exp (-(2 * x))) / (1 + Real.exp (-(2 * x)))) atTop (𝓝 ((1 - 0) / (1 + 0))) :=
    (tendsto_const_nhds.sub h2).div (tendsto_const_nhds.add h2) (by norm_num)
  have h4 : (fun x : ℝ => (1 - Real.exp (-(2 * x))) / (1 + Real.exp (-(2 * x)))) = Real.tanh := by
    funext x
    rw [Real.tanh_eq]
    have e : Real.exp (-(2 * x)) = Real.exp (-x) / Real.exp x := by
      rw [← Real.exp_sub]; congr 1; ring
    have hx := (Real.exp_pos x).ne'
    rw [e]
    field_simp
  rw [h4] at h3
  simpa using h3

open Filter Topology in
theorem tendsto_tanh_mul_pos {c : ℝ} (hc : 0 < c) : Tendsto (fun β : ℝ => Real.tanh (β * c)) atTop (𝓝 1) :=
  tendsto_tanh_atTop.comp (tendsto_id.atTop_mul_const hc)

open Filter Topology in
theorem tendsto_tanh_mul_neg {c : ℝ} (hc : c < 0) : Tendsto (fun β : ℝ => Real.tanh (β * c)) atTop (𝓝 (-1)) := by
  have h := (tendsto_tanh_mul_pos (neg_pos.mpr hc)).neg
  refine h.congr (fun β => ?_)
  rw [← Real.tanh_neg]; congr 1; ring

open Filter Topology in
/-- C20_limit_above: for a threshold strictly inside (0,1) and a fixed design value above it, the finite-β
projection tends to 1 — the value of the β = ∞ branch — as β → ∞. -/
theorem C20_limit_above {η x : ℝ} (h0 : 0 < η) (h1 : η < 1) (hx : η < x) :
    Tendsto (fun β : ℝ => tanhProjection Real.tanh noInf zeroFlag β η x) atTop (𝓝 1) := by
  have hf : Tendsto (fun β : ℝ => (Real.tanh (β * η) + Real.tanh (β * (x - η))) /
      (Real.tanh (β * η) + Real.tanh (β * (1 - η)))) atTop (𝓝 ((1 + 1) / (1 + 1))) :=
    ((tendsto_tanh_mul_pos h0).add (tendsto_tanh_mul_pos (by linarith))).div
      ((tendsto_tanh_mul_pos h0).add (tendsto_tanh_mul_pos (by linarith))) (by norm_num)
  have : ((1:ℝ) + 1) / (1 + 1) = 1 := by norm_num
  rw [this] at hf
  refine hf.congr' ?_
  filter_upwards [eventually_gt_atTop (0:ℝ)] with β hβ
  rw [C20_formula (by simp [zeroFlag, hβ.ne']) rfl]; rfl

open Filter Topology in
/-- C20_limit_below: … and to 0 for a design value below the threshold. -/
theorem C20_limit_below {η x : ℝ} (h0 : 0 < η) (h1 : η < 1) (hx : x < η) :
    Tendsto (fun β : ℝ => tanhProjection Real.tanh noInf zeroFlag β η x) atTop (𝓝 0) := by
  have hf : Tendsto (fun β : ℝ => (Real.tanh (β * η) + Real.tanh (β * (x - η))) /
      (Real.tanh (β * η) + Real.tanh (β * (1 - η)))) atTop (𝓝 ((1 + -1) / (1 + 1))) :=
    ((tendsto_tanh_mul_pos h0).add (tendsto_tanh_mul_neg (by linarith))).div
      ((tendsto_tanh_mul_pos h0).add (tendsto_tanh_mul_pos (by linarith))) (by norm_num)
  have : ((1:ℝ) + -1) / (1 + 1) = 0 := by norm_num
  rw [this] at hf
  refine hf.congr' ?_
  filter_upwards [eventually_gt_atTop (0:ℝ)] with β hβ
  rw [C20_formula (by simp [zeroFlag, hβ.ne']) rfl]; rfl

/-! ### smoothed projection -/

section smooth
variable (th sq : ℝ → ℝ) (isInf isZero : ℝ → Bool) (cast : ℕ → ℝ)

/-- C20_smoothed_eq_plain: in a cell without an interface the smoothed projection is the plain one. -/
theorem C20_smoothed_eq_plain (fl β η dx R ρ g0 g1 : ℝ)
    (h : needsSmoothing (fun x => |x|) sq fl R η ρ (gradHelper dx g0 g1) = false) :
    smoothedCell th sq (fun x => |x|) isInf isZero cast fl β η dx R ρ g0 g1 =
      tanhProjection th isInf isZero β η ρ := by
  simp [smoothedCell, h]

/-- and with an interface it is the fill-factor mix of the two effective projections -/
theorem C20_smoothed_mix (fl β η dx R ρ g0 g1 : ℝ)
    (h : needsSmoothing (fun x => |x|) sq fl R η ρ (gradHelper dx g0 g1) = true) :
    smoothedCell th sq (fun x => |x|) isInf isZero cast fl β η dx R ρ g0 g1 =
      let hh := gradHelper dx g0 g1
      let ne := normEff (fun x => |x|) sq fl hh
      let s := (η - ρ) / ne / R
      (1 - fillPlus cast s) * tanhProjection th isInf isZero β η (ρ - R * ne * fillPlus cast s) +
        fillPlus cast s * tanhProjection th isInf isZero β η (ρ + R * ne * fillMinus cast s) := by
  simp [smoothedCell, h]

theorem gradHelper_nonneg (dx g0 g1 : ℝ) : 0 ≤ gradHelper dx g0 g1 := by
  unfold gradHelper; exact add_nonneg (mul_self_nonneg _) (mul_self_nonneg _)

theorem gradHelper_eq_zero_iff {dx : ℝ} (hdx : dx ≠ 0) (g0 g1 : ℝ) :
    gradHelper dx g0 g1 = 0 ↔ g0 = 0 ∧ g1 = 0 := by
  unfold gradHelper
  constructor
  · intro h
    have h0 : g0 / dx * (g0 / dx) = 0 := by nlinarith [mul_self_nonneg (g0 / dx), mul_self_nonneg (g1 / dx)]
    have h1 : g1 / dx * (g1 / dx) = 0 := by nlinarith [mul_self_nonneg (g0 / dx), mul_self_nonneg (g1 / dx)]
    have a := mul_self_eq_zero.mp h0
    have b := mul_self_eq_zero.mp h1
    exact ⟨by simpa [hdx] using a, by simpa [hdx] using b⟩
  · rintro ⟨rfl, rfl⟩; simp

theorem normEff_real {fl : ℝ} {h : ℝ} (hh : 0 ≤ h) :
    normEff (fun x => |x|) Real.sqrt fl h = if fl < h then Real.sqrt h else 1 := by
  unfold normEff nonzeroNorm
  simp only [abs_of_nonneg hh]
  by_cases h0 : fl < h
  · simp [h0]
  · simp [h0]

theorem normEff_pos {fl : ℝ} (hfl : 0 ≤ fl) {h : ℝ} (hh : 0 ≤ h) : 0 < normEff (fun x => |x|) Real.sqrt fl h := by
  rw [normEff_real hh]
  split_ifs with h0
  · exact Real.sqrt_pos.mpr (lt_of_le_of_lt hfl h0)
  · exact one_pos

/-- C20_needsSmoothing_iff: a cell needs smoothing exactly when the squared design gradient exceeds the floor
(`0` in the tree as found, `tiny·2²⁰` after the repair) and the linearised level set `ρ = η` passes within the
smoothing radius `R` of the cell centre. -/
theorem C20_needsSmoothing_iff {fl R η ρ h : ℝ} (hfl : 0 ≤ fl) (hh : 0 ≤ h) :
    needsSmoothing (fun x => |x|) Real.sqrt fl R η ρ h = true ↔ fl < h ∧ |η - ρ| < R * Real.sqrt h := by
  unfold needsSmoothing
  rw [normEff_real hh]
  by_cases h0 : fl < h
  · have hp : 0 < Real.sqrt h := Real.sqrt_pos.mpr (lt_of_le_of_lt hfl h0)
    simp only [nonzeroNorm, abs_of_nonneg hh, h0, decide_true, Bool.true_and, decide_eq_true_eq, true_and, ↓reduceIte]
    rw [abs_div, abs_of_pos hp, div_lt_iff₀ hp]
  · simp [h0, nonzeroNorm, abs_of_nonneg hh]

/-- C20_smooth_guards: the two divisions of the smoothed branch have non-zero denominators, where smoothing is
applied the norm is at least `√floor`, and the argument of the fill-factor polynomial lies in (−1, 1). -/
theorem C20_smooth_guards {fl R η ρ h : ℝ} (hfl : 0 ≤ fl) (hh : 0 ≤ h) (hR : 0 < R) :
    0 < normEff (fun x => |x|) Real.sqrt fl h ∧
    (needsSmoothing (fun x => |x|) Real.sqrt fl R η ρ h = true →
      Real.sqrt fl < normEff (fun x => |x|) Real.sqrt fl h ∧
      |(η - ρ) / normEff (fun x => |x|) Real.sqrt fl h / R| < 1) := by
  refine ⟨normEff_pos hfl hh, fun hn => ?_⟩
  have hn' := hn
  rw [C20_needsSmoothing_iff hfl hh] at hn'
  unfold needsSmoothing at hn
  simp only [Bool.and_eq_true, decide_eq_true_eq] at hn
  constructor
  · rw [normEff_real hh, if_pos hn'.1]
    exact Real.sqrt_lt_sqrt hfl hn'.1
  · rw [abs_div, abs_of_pos hR, div_lt_one hR]
    exact hn.2

/-- C20_uniform_plain: in a uniform design (all entries equal) no cell is smoothed, whatever `jnp.gradient`
stencil applies: the result is the plain projection everywhere. -/
theorem C20_uniform_plain (c055 fl β η res : ℝ) (hfl : 0 ≤ fl) (n m : ℕ) (c : ℝ) (i j : ℕ) :
    smoothedProjection th Real.sqrt (fun x => |x|) isInf isZero cast c055 fl β η res n m (fun _ _ => c) i j =
      tanhProjection th isInf isZero β η c := by
  have g0 : grad0 (cast 2) n (fun _ _ => c) i j = 0 := by unfold grad0; split_ifs <;> simp
  have g1 : grad1 (cast 2) m (fun _ _ => c) i j = 0 := by unfold grad1; split_ifs <;> simp
  unfold smoothedProjection
  simp only [g0, g1]
  apply C20_smoothed_eq_plain
  have : gradHelper (1 / res) 0 0 = 0 := by simp [gradHelper]
  rw [this]
  simp [needsSmoothing, nonzeroNorm, not_lt.mpr hfl]

/-- C20_floor_plain: a cell whose squared gradient does not exceed the floor is projected plainly — the repaired
guard: tiny gradients never reach the `1/norm` arithmetic. -/
theorem C20_floor_plain (fl β η dx R ρ g0 g1 : ℝ) (h : gradHelper dx g0 g1 ≤ fl) :
    smoothedCell th Real.sqrt (fun x => |x|) isInf isZero cast fl β η dx R ρ g0 g1 =
      tanhProjection th isInf isZero β η ρ := by
  apply C20_smoothed_eq_plain
  simp [needsSmoothing, nonzeroNorm, abs_of_nonneg (gradHelper_nonneg dx g0 g1), not_lt.mpr h]

/-- the fill factor is `1/2` at the interface and the two factors are mirror images -/
theorem fill_facts (s : ℝ) :
    fillPlus (fun n => (n:ℝ)) 0 = 1 / 2 ∧ fillMinus (fun n => (n:ℝ)) s = fillPlus (fun n => (n:ℝ)) (-s) ∧
    fillPlus (fun n => (n:ℝ)) s + fillMinus (fun n => (n:ℝ)) s = 1 := by
  refine ⟨?_, ?_, ?_⟩ <;> simp only [fillPlus, fillMinus] <;> push_cast <;> ring

-- non-vacuity of the two cell classes: ρ = 0.3, η = 0.5, gradient (0,0) → plain; gradient (1,0), dx = 1, R = 0.55 → smoothed
example : needsSmoothing (fun x => |x|) Real.sqrt 0 0.55 0.5 0.3 (gradHelper 1 0 0) = false := by
  simp [needsSmoothing, nonzeroNorm, gradHelper]
example : needsSmoothing (fun x => |x|) Real.sqrt (1/1000) 0.55 0.5 0.3 (gradHelper 1 1 0) = true := by
  rw [C20_needsSmoothing_iff (by norm_num) (gradHelper_nonneg _ _ _)]
  simp only [gradHelper]; norm_num

end smooth

/-! ### the derivative of the formula branch (real-number side of "finite gradients") -/

/-- C20_deriv: for finite β (formula branch) the projection is differentiable in the design value with
derivative `β (1 − tanh²(β (x − η))) / divisor`. -/
theorem C20_deriv {isInf isZero : ℝ → Bool} {β : ℝ} (hz : isZero β = false) (hi : isInf β = false) (η x : ℝ) :
    HasDerivAt (tanhProjection Real.tanh isInf isZero β η)
      (β * (1 - Real.tanh (β * (x - η)) ^ 2) / divisor Real.tanh β η) x := by
  have hfun : tanhProjection Real.tanh isInf isZero β η =
      fun y => (Real.tanh (β * η) + Real.tanh (β * (y - η))) / divisor Real.tanh β η := by
    funext y; rw [C20_formula hz hi]; rfl
  rw [hfun]
  have hlin : HasDerivAt (fun y : ℝ => β * (y - η)) β x := by
    simpa using ((hasDerivAt_id x).sub_const η).const_mul β
  have htanh : ∀ u : ℝ, HasDerivAt Real.tanh (1 - Real.tanh u ^ 2) u := by
    intro u
    have hs := Real.hasDerivAt_sinh u
    have hc := Real.hasDerivAt_cosh u
    have hq := hs.div hc (Real.cosh_pos u).ne'
    have hfe : Real.sinh / Real.cosh = Real.tanh := by
      funext y; simp [Real.tanh_eq_sinh_div_cosh]
    rw [hfe] at hq
    have he : 1 - Real.tanh u ^ 2 =
        (Real.cosh u * Real.cosh u - Real.sinh u * Real.sinh u) / Real.cosh u ^ 2 := by
      have := (Real.cosh_pos u).ne'
      rw [Real.tanh_eq_sinh_div_cosh]
      field_simp
    rw [he]; exact hq
  have hcomp := (htanh (β * (x - η))).comp x hlin
  have hsum := (hcomp.const_add (Real.tanh (β * η))).div_const (divisor Real.tanh β η)
  exact hsum.congr_deriv (by ring)

/-- C20_deriv_bound: that derivative lies in `[0, β / divisor]` — in particular it is finite for every finite β > 0. -/
theorem C20_deriv_bound {β η : ℝ} (hb : 0 < β) (h0 : 0 ≤ η) (h1 : η ≤ 1) (x : ℝ) :
    0 ≤ β * (1 - Real.tanh (β * (x - η)) ^ 2) / divisor Real.tanh β η ∧
    β * (1 - Real.tanh (β * (x - η)) ^ 2) / divisor Real.tanh β η ≤ β / divisor Real.tanh β η := by
  have hd := divisor_pos real_tanhLike hb h0 h1
  have hsq := Real.tanh_sq_lt_one (β * (x - η))
  constructor
  · apply div_nonneg _ hd.le
    apply mul_nonneg hb.le; linarith
  · apply div_le_div_of_nonneg_right _ hd.le
    have : 0 ≤ Real.tanh (β * (x - η)) ^ 2 := sq_nonneg _
    nlinarith

end Fdtdx.C20
