/-
C06 — The simulation state depends only on the steps executed, not on how the run is split; reset.

Theorems about `FdtdxModel/C06.lean` (+ the loops of `FdtdxModel/C05.lean`), for every total step count T,
every step function `body` (Yee update, sources, detector recording with arbitrary switches — nothing about it
is assumed, the detector records are part of the state), every container:

  C06_partial_run               a partial run start → stop (start ≤ stop, at most T steps) is `forward` iterated
                                stop - start times and ends with the counter at `stop`
  C06_split                     run b→c after run a→b = run a→c     (a ≤ b ≤ c, c - a ≤ T)
  C06_history                   any chain of consecutive partial runs a_0 ≤ a_1 ≤ … ≤ a_n = one run a_0 → a_n
  C06_run_fdtd_eq_custom        run_fdtd (no gradient) = custom_fdtd_forward(reset_container=True, 0, T)
  C06_run_fdtd_eq_history       … = any history 0 = a_0 ≤ … ≤ a_n = T of partial runs on the reset container
  C06_reset_zero                NO finiteness hypothesis, any scalar type: after reset every field entry, every
                                detector entry and (flag set) every recording entry is exactly 0
  C06_reset_fieldstate          the field part of reset is one map over ALL FieldState components: E, H, psi_E, psi_H,
                                dispersive_P_curr and dispersive_P_prev are each all zero afterwards (= zeroing the flat leaves)
  C06_reset_zero_ext            … instantiated at `Ext K` (a scalar type with a non-finite element)
  C06_reset_preserves           reset keeps materials, the recording state (default flags) and all shapes
  C06_reset_idem                reset ∘ reset = reset (same flags)
  C06_reset_eq_of_sameFrame     two containers with the same materials / recording state / shapes reset to the
                                SAME container, whatever their fields and detector states were
  C06_rerun_deterministic       hence run_fdtd from either gives identical results, in particular from the arrays
                                returned by a previous run (`C06_rerun_from_output`, body preserving the frame)
  C06_rerun_from_output_any     the same under every accepted gradient strategy
  C06_unrecorded_detectors      custom_fdtd_forward(record_detectors=False): detector states are all zero after
                                reset_container=True and untouched after reset_container=False, whatever they held before
  C06_recorded_rows             record_detectors=True: rows not written by a step of the executed window are zero
                                (reset_container=True) resp. unchanged (False)
  AsFound.C06_reset_ext         the pinned tree reset detector / recording states by `v * 0`: over `Ext K` that zeroes
                                exactly the finite entries and keeps the non-finite ones — machine-checked refutation
                                of "reset zeroes all time-dependent state" (witness examples), replayed on the
                                implementation by K/S and repaired by a `fix:` commit; `AsFound.reset_eq_of_finite`:
                                on finite scalars the fix changes nothing.
-/
import FdtdxProps.C05
import FdtdxModel.C06
import Mathlib.Algebra.GroupWithZero.Defs
import Mathlib.Algebra.Ring.Int.Defs

namespace Fdtdx.C06
open Fdtdx.C05

/-! ### partial runs -/

section runs
variable {σ : Type}

/-- **C06 (partial run)**: `custom_fdtd_forward(start, stop)` without reset is `forward` iterated `stop - start`
times, provided the loop bound `max_steps = T` is not hit. -/
theorem C06_partial_run (T : Nat) (reset : σ → σ) (body : Nat → σ → σ) (start stop : Nat) (a : σ)
    (hT : stop - start ≤ T) :
    customForward T false reset body start stop a = (step body)^[stop - start] (start, a) := by
  unfold customForward
  simpa using whileLoop_until body stop T (start, a) (by simpa using hT)

theorem C06_partial_run_counter (T : Nat) (reset : σ → σ) (body : Nat → σ → σ) (start stop : Nat) (a : σ)
    (hle : start ≤ stop) (hT : stop - start ≤ T) :
    (customForward T false reset body start stop a).1 = stop := by
  rw [C06_partial_run T reset body start stop a hT, step_iterate_fst]; simp; omega

/-- **C06 (split)**: running `a → b` and then `b → c` on the returned arrays gives exactly the state of the
single run `a → c` — fields and detector records alike, they are all part of `σ`. -/
theorem C06_split (T : Nat) (reset : σ → σ) (body : Nat → σ → σ) (a b c : Nat) (s : σ)
    (hab : a ≤ b) (hbc : b ≤ c) (hT : c - a ≤ T) :
    customForward T false reset body b c (customForward T false reset body a b s).2
      = customForward T false reset body a c s := by
  have h1 := C06_partial_run T reset body a b s (by omega)
  have hcnt := C06_partial_run_counter T reset body a b s hab (by omega)
  rw [C06_partial_run T reset body b c _ (by omega), C06_partial_run T reset body a c s hT]
  have hpair : (b, (customForward T false reset body a b s).2) = customForward T false reset body a b s :=
    Prod.ext hcnt.symm rfl
  rw [hpair, h1, ← Function.iterate_add_apply]
  congr 1; omega

theorem le_getLast_of_isChain (l : List Nat) (b : Nat) (h : List.IsChain (· ≤ ·) (b :: l)) :
    b ≤ (b :: l).getLast (by simp) := by
  induction l generalizing b with
  | nil => simp
  | cons c rest ih =>
    simp [List.isChain_cons_cons] at h
    have := ih c h.2
    simp [List.getLast_cons] at this ⊢
    omega

/-- **C06 (history)**: a chain of consecutive partial runs `a_0 ≤ a_1 ≤ … ≤ a_n` equals the single run
`a_0 → a_n` (any number of split points, any positions, empty pieces allowed). -/
theorem C06_history (T : Nat) (body : Nat → σ → σ) (pts : List Nat) (a0 : Nat) (s : σ) (t0 : Nat)
    (hchain : List.IsChain (· ≤ ·) (a0 :: pts)) (hT : (a0 :: pts).getLast (by simp) - a0 ≤ T) :
    runHistory T body (a0 :: pts) (t0, s)
      = if pts = [] then (t0, s) else (step body)^[(a0 :: pts).getLast (by simp) - a0] (a0, s) := by
  induction pts generalizing a0 s t0 with
  | nil => simp [runHistory]
  | cons b rest ih =>
    have hab : a0 ≤ b := by
      have := hchain; simp [List.isChain_cons_cons] at this; exact this.1
    have hch' : List.IsChain (· ≤ ·) (b :: rest) := by
      have := hchain; simp [List.isChain_cons_cons] at this; exact this.2
    have hlast : (a0 :: b :: rest).getLast (by simp) = (b :: rest).getLast (by simp) := by
      simp [List.getLast_cons]
    have hble : b ≤ (b :: rest).getLast (by simp) := le_getLast_of_isChain rest b hch'
    rw [hlast] at hT
    simp only [runHistory]
    rw [ih b _ _ hch' (by omega)]
    simp only [reduceCtorEq, if_false]
    have h1 := C06_partial_run T id body a0 b s (by omega)
    have hcnt := C06_partial_run_counter T id body a0 b s hab (by omega)
    by_cases hr : rest = []
    · subst hr; simp only [if_true]
      rw [h1]; simp
    · rw [if_neg hr, hlast]
      have hpair : (b, (customForward T false id body a0 b s).2) = customForward T false id body a0 b s :=
        Prod.ext hcnt.symm rfl
      rw [hpair, h1, ← Function.iterate_add_apply]
      congr 1; omega

/-- **C06 (run_fdtd vs custom_fdtd_forward)**: the no-gradient `run_fdtd` equals
`custom_fdtd_forward(reset_container=True, record_detectors as in run_fdtd, 0, T)`. -/
theorem C06_run_fdtd_eq_custom (T : Nat) (reset : σ → σ) (body : Nat → σ → σ) (a : σ) :
    runFdtd T .none none false reset body a = .ok (customForward T true reset body 0 T a) := by
  have h : customForward T true reset body 0 T a = customForward T false reset body 0 T (reset a) := rfl
  rw [h, C06_partial_run T reset body 0 T (reset a) (by omega)]
  simp [runFdtd, C05_checkpointed_eq_iterate]

/-- … and any history of partial runs `0 = a_0 ≤ a_1 ≤ … ≤ a_n = T` on the reset container. -/
theorem C06_run_fdtd_eq_history (T : Nat) (reset : σ → σ) (body : Nat → σ → σ) (a : σ) (pts : List Nat)
    (hne : pts ≠ []) (hchain : List.IsChain (· ≤ ·) (0 :: pts)) (hlast : (0 :: pts).getLast (by simp) = T) :
    runFdtd T .none none false reset body a = .ok (runHistory T body (0 :: pts) (0, reset a)) := by
  rw [C06_history T body pts 0 (reset a) 0 hchain (by omega), if_neg hne, hlast]
  simp [runFdtd, C05_checkpointed_eq_iterate]

end runs

/-! ### reset (any scalar type — no arithmetic is involved any more) -/

section reset
variable {α : Type} [OfNat α 0]

/-- **C06 (reset zeroes all time-dependent state)** — no finiteness hypothesis: for ANY scalar type (binary64 with
NaN/inf, the extended scalars `Ext K` below, …) every field entry and every detector entry is exactly the literal 0
after reset, and so is every recording entry when its flag is set. -/
theorem C06_reset_zero (c : Container α) (rr : Bool) :
    (∀ x ∈ (c.reset true rr).fields, x = 0) ∧ (∀ x ∈ (c.reset true rr).det, x = 0)
    ∧ (∀ l, (c.reset true true).recording = some l → ∀ x ∈ l, x = 0) := by
  refine ⟨?_, ?_, ?_⟩
  · intro x hx; simp [Container.reset, zerosLike] at hx; exact hx.2.symm
  · intro x hx; simp [Container.reset, zerosLike] at hx; exact hx.2.symm
  · intro l hl x hx
    simp only [Container.reset, if_true] at hl
    cases hrec : c.recording with
    | none => rw [hrec] at hl; cases hl
    | some r =>
      rw [hrec] at hl
      simp only [Option.map_some, Option.some.injEq] at hl
      subst hl
      simp [zerosLike] at hx; exact hx.2.symm

/-- **C06 (reset covers every FieldState component)**: the field part of `reset` is one map over all six components —
E, H, the CPML auxiliaries psi_E / psi_H and the ADE polarisation at the current AND the previous step.  Each component is
all zero afterwards, and zeroing the flattened leaves (what `Container.reset` does) is the same thing. -/
theorem C06_reset_fieldstate (f : FieldState α) :
    zerosLike f.leaves = f.zeroAll.leaves
    ∧ (∀ x ∈ f.zeroAll.E, x = 0) ∧ (∀ x ∈ f.zeroAll.H, x = 0)
    ∧ (∀ x ∈ f.zeroAll.psiE, x = 0) ∧ (∀ x ∈ f.zeroAll.psiH, x = 0)
    ∧ (∀ x ∈ f.zeroAll.pCurr, x = 0) ∧ (∀ x ∈ f.zeroAll.pPrev, x = 0)
    ∧ (∀ (c : Container α), c.fields = f.leaves → ∀ rd rr, (c.reset rd rr).fields = f.zeroAll.leaves) := by
  have hz : ∀ (l : List α) x, x ∈ zerosLike l → x = 0 := by
    intro l x hx; simp [zerosLike] at hx; exact hx.2.symm
  have hl : zerosLike f.leaves = f.zeroAll.leaves := by
    simp [FieldState.leaves, FieldState.zeroAll, zerosLike]
  refine ⟨hl, hz _, hz _, hz _, hz _, hz _, hz _, ?_⟩
  intro c hc rd rr
  simp only [Container.reset, hc, hl]

/-- **C06 (reset keeps materials)** — and, with the default flags, the recording state; all shapes are kept. -/
theorem C06_reset_preserves (c : Container α) (rd rr : Bool) :
    (c.reset rd rr).mat = c.mat
    ∧ (c.reset rd false).recording = c.recording
    ∧ (c.reset rd rr).fields.length = c.fields.length
    ∧ (c.reset rd rr).det.length = c.det.length
    ∧ (c.reset false rr).det = c.det := by
  refine ⟨rfl, rfl, by simp [Container.reset, zerosLike], ?_, rfl⟩
  cases rd <;> simp [Container.reset, zerosLike]

/-- **C06 (reset is idempotent)** -/
theorem C06_reset_idem (c : Container α) (rd rr : Bool) : (c.reset rd rr).reset rd rr = c.reset rd rr := by
  cases rd <;> cases rr <;> cases hrec : c.recording <;>
    simp [Container.reset, zerosLike, hrec, Function.comp_def]

/-- same materials, same recording state, same shapes -/
def sameFrame (c c' : Container α) : Prop :=
  c.mat = c'.mat ∧ c.recording = c'.recording ∧ c.fields.length = c'.fields.length ∧ c.det.length = c'.det.length

omit [OfNat α 0] in
theorem map_const_eq_of_length {β : Type} (l l' : List α) (z : β) (h : l.length = l'.length) :
    l.map (fun _ => z) = l'.map (fun _ => z) := by
  rw [List.map_const', List.map_const', h]

/-- **C06 (reset forgets the time-dependent state)**: containers of the same frame reset to the same container,
whatever (finite or not) their fields and detector states held. -/
theorem C06_reset_eq_of_sameFrame (c c' : Container α) (h : sameFrame c c') : c.reset = c'.reset := by
  obtain ⟨hm, hr, hf, hd⟩ := h
  simp only [Container.reset, if_true, Bool.false_eq_true, if_false, zerosLike]
  rw [map_const_eq_of_length c.fields c'.fields 0 hf, map_const_eq_of_length c.det c'.det 0 hd, hm, hr]

/-- **C06 (runs after reset are deterministic)**: `run_fdtd` (every accepted gradient strategy) started from two
containers of the same frame returns identical results. -/
theorem C06_rerun_deterministic (T : Nat) (g : Grad) (body : Nat → Container α → Container α)
    (c c' : Container α) (h : sameFrame c c') :
    runFdtd T g none false (fun x => x.reset) body c = runFdtd T g none false (fun x => x.reset) body c' := by
  have hr := C06_reset_eq_of_sameFrame c c' h
  cases g <;> simp [runFdtd, checkpointedRun, reversibleRun, hr]

/-- … in particular a second run started from the arrays returned by a first run (diverged or not) reproduces it,
as long as one time step does not change materials, recording state or shapes (a property of `forward`). -/
theorem C06_rerun_from_output (T : Nat) (body : Nat → Container α → Container α)
    (hbody : ∀ t x, sameFrame (body t x) x) (c : Container α) :
    ∀ out, runFdtd T .none none false (fun x => x.reset) body c = .ok out →
      runFdtd T .none none false (fun x => x.reset) body out.2 = .ok out := by
  intro out hout
  have hframe : ∀ n (s : Nat × Container α), sameFrame ((step body)^[n] s).2 s.2 := by
    intro n
    induction n with
    | zero => intro s; exact ⟨rfl, rfl, rfl, rfl⟩
    | succ n ih =>
      intro s
      rw [Function.iterate_succ_apply']
      obtain ⟨h1, h2, h3, h4⟩ := ih s
      obtain ⟨g1, g2, g3, g4⟩ := hbody ((step body)^[n] s).1 ((step body)^[n] s).2
      exact ⟨g1.trans h1, g2.trans h2, g3.trans h3, g4.trans h4⟩
  have hval : out = (step body)^[T] (0, c.reset) := by
    simp [runFdtd, C05_checkpointed_eq_iterate] at hout; exact hout.symm
  have hsf : sameFrame out.2 c := by
    rw [hval]
    obtain ⟨h1, h2, h3, h4⟩ := hframe T (0, c.reset)
    obtain ⟨p1, p2, p3, p4, _⟩ := C06_reset_preserves c true false
    exact ⟨h1.trans p1, h2.trans p2, h3.trans p3, h4.trans p4⟩
  rw [C06_rerun_deterministic T .none body out.2 c hsf, hout]

/-- … under every accepted gradient strategy (the arrays returned by a reversible / checkpointed run are as good a
starting point as a fresh placement) -/
theorem C06_rerun_from_output_any (T : Nat) (g : Grad) (hg : validGrad T g) (body : Nat → Container α → Container α)
    (hbody : ∀ t x, sameFrame (body t x) x) (c : Container α) :
    ∀ out, runFdtd T g none false (fun x => x.reset) body c = .ok out →
      runFdtd T g none false (fun x => x.reset) body out.2 = .ok out := by
  intro out hout
  rw [C05_strategy_pairwise T g .none hg trivial] at hout ⊢
  exact C06_rerun_from_output T body hbody c out hout

end reset

/-! ### reset_container × record_detectors -/

section recordflag
variable {α : Type} [OfNat α 0]

omit [OfNat α 0] in
theorem iterate_det_of_unrecorded (f : Nat → Container α → Container α) (hno : ∀ t x, (f t x).det = x.det)
    (n : Nat) (s : Nat × Container α) : ((step f)^[n] s).2.det = s.2.det := by
  induction n generalizing s with
  | zero => rfl
  | succ n ih => rw [Function.iterate_succ_apply, ih]; exact hno _ _

/-- **C06 (reset_container with record_detectors = False)**: a call that does not record leaves the detector states
exactly as the (optional) reset made them — all zero after `reset_container=True`, untouched otherwise —
whatever the container held before (a recorded run, non-finite rubbish, …) and whatever window is run. -/
theorem C06_unrecorded_detectors (T : Nat) (body : Bool → Nat → Container α → Container α)
    (hno : ∀ t x, (body false t x).det = x.det) (start stop : Nat) (c : Container α) :
    (customForwardRD T true false (fun x => x.reset) body start stop c).2.det = zerosLike c.det
    ∧ (∀ v ∈ (customForwardRD T true false (fun x => x.reset) body start stop c).2.det, v = 0)
    ∧ (customForwardRD T false false (fun x => x.reset) body start stop c).2.det = c.det := by
  have h : ∀ rs, (customForwardRD T rs false (fun x => x.reset) body start stop c).2.det
      = (if rs then c.reset else c).det := by
    intro rs
    unfold customForwardRD customForward
    rw [whileLoop_eq_iterate, iterate_det_of_unrecorded (body false) hno]
  refine ⟨by rw [h true]; rfl, ?_, by rw [h false]; rfl⟩
  intro v hv
  rw [h true] at hv
  exact (C06_reset_zero c false).2.1 v hv

omit [OfNat α 0] in
theorem iterate_row_kept (f : Nat → Container α → Container α) (writes : Nat → Prop) (i : Nat)
    (hrow : ∀ t x, ¬ writes t → (f t x).det[i]? = x.det[i]?)
    (n : Nat) (s : Nat × Container α) (hq : ∀ j, j < n → ¬ writes (s.1 + j)) :
    ((step f)^[n] s).2.det[i]? = s.2.det[i]? := by
  induction n generalizing s with
  | zero => rfl
  | succ n ih =>
    rw [Function.iterate_succ_apply, ih]
    · exact hrow _ _ (by simpa using hq 0 (by omega))
    · intro j hj
      have := hq (j + 1) (by omega)
      simpa [step, Nat.add_assoc, Nat.add_comm 1 j] using this

/-- **C06 (recording calls)**: row `i` of a detector state that no step of the executed window `[start, stop)` writes
is exactly what the (optional) reset made it: zero after `reset_container=True`, the earlier value otherwise. -/
theorem C06_recorded_rows (T : Nat) (body : Bool → Nat → Container α → Container α) (rd : Bool)
    (writes : Nat → Prop) (i : Nat)
    (hrow : ∀ t x, ¬ writes t → (body rd t x).det[i]? = x.det[i]?)
    (start stop : Nat) (hq : ∀ t, start ≤ t → t < stop → ¬ writes t) (rs : Bool) (c : Container α) :
    (customForwardRD T rs rd (fun x => x.reset) body start stop c).2.det[i]?
      = (if rs then c.reset else c).det[i]? := by
  unfold customForwardRD customForward
  rw [whileLoop_eq_iterate]
  apply iterate_row_kept (body rd) writes i hrow
  intro j hj
  have := iterCount_cond_true _ _ _ _ j hj
  rw [step_iterate_fst] at this
  simp only [decide_eq_true_eq] at this
  exact hq _ (by simp) (by simpa using this)

end recordflag

/-- the provenance model of the driver satisfies the hypotheses of both theorems -/
theorem recordBody_unrecorded (rows : List (List Nat)) (t : Nat) (x : Container Tag) :
    (recordBody rows false t x).det = x.det := rfl

example : (customForwardRD 10 true false (fun x => x.reset) (recordBody [[0], [3], [0, 3, 6], []]) 2 5
    ⟨[.kept 0], [.kept 0, .kept 1, .kept 2, .kept 3], none, []⟩).2.det = [.zero, .zero, .zero, .zero] := by decide
example : (customForwardRD 10 true true (fun x => x.reset) (recordBody [[0], [3], [0, 3, 6], []]) 2 5
    ⟨[.kept 0], [.kept 0, .kept 1, .kept 2, .kept 3], none, []⟩).2.det = [.zero, .recorded, .recorded, .zero] := by decide
example : (customForwardRD 10 false true (fun x => x.reset) (recordBody [[0], [3], [0, 3, 6], []]) 2 5
    ⟨[.kept 0], [.kept 0, .kept 1, .kept 2, .kept 3], none, []⟩).2.det = [.kept 0, .recorded, .recorded, .kept 3] := by decide

/-! ### scalars with a non-finite element -/

/-- a scalar type with one non-finite element absorbing multiplication (NaN; `inf * 0` is NaN too) -/
inductive Ext (K : Type) where
  | fin (x : K)
  | nan
  deriving DecidableEq, Repr

instance {K : Type} [Mul K] : Mul (Ext K) :=
  ⟨fun a b => match a, b with
    | .fin x, .fin y => .fin (x * y)
    | _, _ => .nan⟩

instance {K : Type} [OfNat K 0] : OfNat (Ext K) 0 := ⟨.fin 0⟩

/-- `C06_reset_zero` at the extended scalars: non-finite entries are zeroed as well -/
theorem C06_reset_zero_ext {K : Type} [OfNat K 0] (c : Container (Ext K)) :
    (∀ x ∈ c.reset.fields, x = Ext.fin 0) ∧ (∀ x ∈ c.reset.det, x = Ext.fin 0) :=
  ⟨(C06_reset_zero c false).1, (C06_reset_zero c false).2.1⟩

/-! ### the pinned tree (`v * 0`): refutation of "reset zeroes all time-dependent state" -/

namespace AsFound

/-- as found, over scalars with a non-finite element: `zeros_like` zeroes every field entry; `v * 0` zeroes exactly
the finite detector entries and leaves the non-finite ones non-finite. -/
theorem C06_reset_ext {K : Type} [MulZeroClass K] (c : Container (Ext K)) :
    (∀ x ∈ (AsFound.reset c).fields, x = Ext.fin 0)
    ∧ (AsFound.reset c).det = c.det.map (fun v => match v with | .fin _ => Ext.fin 0 | .nan => Ext.nan) := by
  constructor
  · intro x hx
    simp [AsFound.reset, zerosLike] at hx
    exact hx.2.symm
  · simp only [AsFound.reset, if_true, timesZero]
    apply List.map_congr_left
    intro v _
    cases v with
    | fin x => show Ext.fin (x * 0) = Ext.fin 0; rw [mul_zero]
    | nan => rfl

/-- as found the sentence held only for finite detector states -/
theorem C06_reset_ext_finite {K : Type} [MulZeroClass K] (c : Container (Ext K))
    (hfin : ∀ v ∈ c.det, ∃ x, v = Ext.fin x) : ∀ v ∈ (AsFound.reset c).det, v = Ext.fin 0 := by
  intro v hv
  rw [(C06_reset_ext c).2] at hv
  obtain ⟨w, hw, rfl⟩ := List.mem_map.mp hv
  obtain ⟨x, rfl⟩ := hfin w hw
  rfl

/-- on finite scalars (`x * 0 = 0`) the as-found reset and the fixed one coincide: the fix changes nothing there -/
theorem reset_eq_of_finite {K : Type} [MulZeroClass K] (c : Container K) (rd rr : Bool) :
    AsFound.reset c rd rr = c.reset rd rr := by
  cases rd <;> cases rr <;> cases hrec : c.recording <;>
    simp [AsFound.reset, Container.reset, timesZero, zerosLike, hrec]

/-- witness: a non-finite detector entry survives the as-found reset (and the next run starts from it) … -/
example : (AsFound.reset (α := Ext Int) ⟨[.nan, .fin 2], [.fin 3, .nan], none, [.fin 7]⟩)
    = ⟨[.fin 0, .fin 0], [.fin 0, .nan], none, [.fin 7]⟩ := by decide
/-- … so two containers of the same frame do NOT reset to the same container as found -/
example : AsFound.reset (α := Ext Int) ⟨[.fin 0], [.nan], none, []⟩ ≠ AsFound.reset ⟨[.fin 0], [.fin 1], none, []⟩ := by
  decide

end AsFound

/-! ### non-vacuity -/

-- hypotheses of C06_split / C06_history are satisfiable by a non-trivial history
example : (2 : Nat) ≤ 5 ∧ 5 ≤ 9 ∧ 9 - 2 ≤ 10 := by omega
example : List.IsChain (· ≤ ·) [0, 3, 3, 7, 10] ∧ [0, 3, 3, 7, 10].getLast (by simp) = 10 := by decide
example : runHistory 10 logBody [0, 3, 3, 7, 10] (0, []) = (10, [0, 1, 2, 3, 4, 5, 6, 7, 8, 9]) := by decide
-- as found, the loop bound is the total step count: a window longer than T is cut short (hypothesis c - a ≤ T)
example : customForward 4 false id logBody 3 9 [] = (7, [3, 4, 5, 6]) := by decide
-- sameFrame is satisfiable by containers with different (also non-finite) time-dependent state
example : sameFrame (α := Ext Int) ⟨[.fin 1, .nan], [.nan], none, [.fin 7]⟩ ⟨[.fin 0, .fin 5], [.fin 9], none, [.fin 7]⟩ := by
  unfold sameFrame; decide
-- the fixed reset zeroes non-finite detector entries too
example : (Container.reset (α := Ext Int) ⟨[.nan, .fin 2], [.fin 3, .nan], none, [.fin 7]⟩)
    = ⟨[.fin 0, .fin 0], [.fin 0, .fin 0], none, [.fin 7]⟩ := by decide

end Fdtdx.C06
