/-
C38 — Equivalent grid descriptions give identical simulations.

Theorems about `FdtdxModel/C38.lean` (+ the grid model of C37), any cell counts, any ordered field:

  C38_uniformEdges_spec        the resolved axis has n+1 edges, edge i = (center − n·h/2) + h·i, every width = h
  C38_uniformEdges_valid       … and passes the RectilinearGrid constructor (h > 0, n ≥ 1)
  C38_center_equivariant / C38_from_length_center   shifting the policy centre shifts all edges, changes no cell count;
                               a volume given by its length gets round(length/h) cells whatever the centre
  C38_three_descriptions_same_edges   uniform policy, quasi-uniform policy with that spacing on the axis (even n) and the
                               explicit grid built from those edges resolve to THE SAME edge list
  C38_quasi_rejects_odd / C38_policy_rejects  the error branches (odd count for the quasi policy only, h ≤ 0, n ≤ 0)
  C38_resolved_is_uniform      the resolved grid is flagged uniform with spacing rnd(h) for every tolerance ≥ 0
  C38_same_dt                  both branches of cfl_time_step give (cf/√3)·h/c on it (when the recorded spacing is h)
  C38_reference_spacing        c·dt/courant_number = h
  C38_metric_scale_one         `_metric_scale` = 1 on every cell for both stencils, whether or not the grid is flagged
                               uniform (flag path: literally 1; general path: ref/w = h/h)
  C38_consumers_translation_invariant  widths, min width, extents, metric factors, edge average unchanged by a shift
  C38_widths_translation_invariant   shifting the origin of an explicit grid leaves all widths unchanged
  C38_curl_term / C38_edge_average   hence the metric-aware curl term is the raw difference and the edge average the
                               arithmetic mean: the update equations of the three descriptions coincide term by term
-/
import FdtdxModel.C38
import FdtdxProps.C37

set_option linter.unusedSectionVars false
set_option linter.unusedVariables false

namespace Fdtdx.C38
open Fdtdx.C37

variable {K : Type} [Field K] [LinearOrder K] [IsStrictOrderedRing K]

/-! ### the resolved axis -/

theorem uniformEdges_length (c h : K) (n : Nat) : (uniformEdges (Nat.cast : Nat → K) c h n).length = n + 1 := by
  simp [uniformEdges]

theorem uniformEdges_edge (c h : K) (n i : Nat) (hi : i ≤ n) :
    edge (uniformEdges (Nat.cast : Nat → K) c h n) i = (c - (n : K) * h / 2) + h * (i : K) := by
  unfold edge uniformEdges
  have : i < n + 1 := by omega
  simp [this]

/-- **shape of the resolved axis**: n+1 edges starting at center − n·h/2, all widths equal to h, centred on `center` -/
theorem C38_uniformEdges_spec (c h : K) (n : Nat) :
    (uniformEdges (Nat.cast : Nat → K) c h n).length = n + 1 ∧
    (∀ i, i ≤ n → edge (uniformEdges (Nat.cast : Nat → K) c h n) i = (c - (n : K) * h / 2) + h * (i : K)) ∧
    (∀ i, i < n → width (uniformEdges (Nat.cast : Nat → K) c h n) i = h) ∧
    edge (uniformEdges (Nat.cast : Nat → K) c h n) 0 + edge (uniformEdges (Nat.cast : Nat → K) c h n) n = 2 * c := by
  refine ⟨uniformEdges_length c h n, fun i hi => uniformEdges_edge c h n i hi, ?_, ?_⟩
  · intro i hi
    unfold width
    rw [uniformEdges_edge c h n (i + 1) (by omega), uniformEdges_edge c h n i (by omega)]
    push_cast; ring
  · rw [uniformEdges_edge c h n 0 (by omega), uniformEdges_edge c h n n le_rfl]
    push_cast; ring

theorem strictlyIncreasing_of_adjacent (e : List K)
    (h : ∀ i, i + 1 < e.length → edge e i < edge e (i + 1)) : strictlyIncreasing e = true := by
  induction e with
  | nil => rfl
  | cons a r ih =>
    cases r with
    | nil => rfl
    | cons b r =>
      simp only [strictlyIncreasing, Bool.and_eq_true, decide_eq_true_eq]
      constructor
      · have := h 0 (by simp)
        simpa using this
      · apply ih
        intro i hi
        have := h (i + 1) (by simp at hi ⊢; omega)
        simpa using this

/-- the resolved axis passes the constructor's checks -/
theorem C38_uniformEdges_valid (c h : K) (n : Nat) (hh : 0 < h) (hn : 1 ≤ n) :
    validEdges (uniformEdges (Nat.cast : Nat → K) c h n) = true := by
  unfold validEdges
  rw [Bool.and_eq_true]
  constructor
  · rw [decide_eq_true_eq, uniformEdges_length]; omega
  · apply strictlyIncreasing_of_adjacent
    intro i hi
    rw [uniformEdges_length] at hi
    have hw := (C38_uniformEdges_spec c h n).2.2.1 i (by omega)
    unfold width at hw
    linarith

/-- **centre equivariance**: moving the policy's `center` by `t` moves every edge by `t` and changes no cell count — in
particular the number of cells of a volume declared by its physical length does not depend on the centre -/
theorem C38_center_equivariant (c t h : K) (n : Nat) :
    uniformEdges (Nat.cast : Nat → K) (c + t) h n = (uniformEdges (Nat.cast : Nat → K) c h n).map (· + t) ∧
    (uniformEdges (Nat.cast : Nat → K) (c + t) h n).length = (uniformEdges (Nat.cast : Nat → K) c h n).length := by
  constructor
  · unfold uniformEdges
    rw [List.map_map]
    apply List.map_congr_left
    intro i _
    simp only [Function.comp]
    ring
  · rw [uniformEdges_length, uniformEdges_length]

/-- a volume declared by its length resolves, under either policy and for ANY centre, to the grid of
`round(length/spacing)` cells centred on `center` — the same edges as for centre 0, shifted -/
theorem C38_from_length_center (rnd : K → Int) (c h len : K) (hh : 0 < h) (n : Nat) (hn : 1 ≤ n)
    (hr : rnd (len / h) = (n : Int)) :
    resolveUniformFromLength (Nat.cast : Nat → K) rnd c h len = .ok ((uniformEdges Nat.cast 0 h n).map (· + c)) ∧
    (n % 2 = 0 → resolveQuasiFromLength (Nat.cast : Nat → K) rnd c h len
        = .ok ((uniformEdges Nat.cast 0 h n).map (· + c))) := by
  have he : uniformEdges (Nat.cast : Nat → K) c h n = (uniformEdges (Nat.cast : Nat → K) 0 h n).map (· + c) := by
    have := (C38_center_equivariant (0 : K) c h n).1
    rwa [zero_add] at this
  constructor
  · unfold resolveUniformFromLength cellsFromLength
    rw [hr]; unfold resolveUniformAxis
    rw [if_neg (by simp [hh]), if_neg (by omega), ← he]; simp
  · intro hev
    unfold resolveQuasiFromLength cellsFromLength
    rw [hr]; unfold resolveQuasiAxis
    rw [if_neg (by simp [hh]), if_neg (by omega), if_neg (by omega), ← he]; simp

/-! ### the three descriptions -/

/-- **same edges**: for a positive spacing and an even positive cell count, the uniform policy, the quasi-uniform
policy (with that spacing on the axis) and the explicit grid with those edges all resolve to one and the same list. -/
theorem C38_three_descriptions_same_edges (c h : K) (n : Nat) (hh : 0 < h) (hn : 1 ≤ n) (hev : n % 2 = 0) :
    resolveUniformAxis (Nat.cast : Nat → K) c h (n : Int) = .ok (uniformEdges Nat.cast c h n) ∧
    resolveQuasiAxis (Nat.cast : Nat → K) c h (n : Int) = .ok (uniformEdges Nat.cast c h n) ∧
    resolveExplicitAxis (uniformEdges (Nat.cast : Nat → K) c h n) (n : Int) = .ok (uniformEdges Nat.cast c h n) := by
  refine ⟨?_, ?_, ?_⟩
  · unfold resolveUniformAxis
    rw [if_neg (by simp [hh]), if_neg (by omega)]; simp
  · unfold resolveQuasiAxis
    rw [if_neg (by simp [hh]), if_neg (by omega), if_neg (by omega)]; simp
  · unfold resolveExplicitAxis
    rw [C38_uniformEdges_valid c h n hh hn, uniformEdges_length]
    simp

/-- odd counts: the uniform policy (and an explicit grid) still resolve, the quasi-uniform policy refuses -/
theorem C38_quasi_rejects_odd (c h : K) (n : Nat) (hh : 0 < h) (hodd : n % 2 = 1) :
    resolveQuasiAxis (Nat.cast : Nat → K) c h (n : Int) = .error "err-odd" ∧
    resolveUniformAxis (Nat.cast : Nat → K) c h (n : Int) = .ok (uniformEdges Nat.cast c h n) := by
  constructor
  · unfold resolveQuasiAxis
    rw [if_neg (by simp [hh]), if_pos (by omega)]
  · unfold resolveUniformAxis
    rw [if_neg (by simp [hh]), if_neg (by omega)]; simp

/-- non-positive spacing / cell count are rejected by both policies -/
theorem C38_policy_rejects (c h : K) (n : Int) :
    (h ≤ 0 → resolveUniformAxis (Nat.cast : Nat → K) c h n = .error "err-spacing" ∧
             resolveQuasiAxis (Nat.cast : Nat → K) c h n = .error "err-spacing") ∧
    (0 < h → n ≤ 0 → (∃ m, resolveUniformAxis (Nat.cast : Nat → K) c h n = .error m) ∧
                      (∃ m, resolveQuasiAxis (Nat.cast : Nat → K) c h n = .error m)) := by
  constructor
  · intro hh
    have : ¬ (0 < h) := not_lt.mpr hh
    simp [resolveUniformAxis, resolveQuasiAxis, this]
  · intro hh hn
    constructor
    · exact ⟨"err-shape", by unfold resolveUniformAxis; rw [if_neg (by simp [hh]), if_pos hn]⟩
    · unfold resolveQuasiAxis
      rw [if_neg (by simp [hh])]
      by_cases hodd : n % 2 ≠ 0
      · exact ⟨"err-odd", by rw [if_pos hodd]⟩
      · exact ⟨"invalid", by rw [if_neg hodd, if_pos hn]⟩

/-- **uniform verdict** of the resolved grid, for every tolerance and round-off floor ≥ 0, any shape -/
theorem C38_resolved_is_uniform (tol eps8 : K) (htol : 0 ≤ tol) (heps : 0 ≤ eps8) (cx cy cz h : K)
    (nx ny nz : Nat) (hnx : 1 ≤ nx) (rnd : K → K) :
    isUniform tol eps8 (uniformEdges (Nat.cast : Nat → K) cx h nx) (uniformEdges Nat.cast cy h ny)
      (uniformEdges Nat.cast cz h nz) = true ∧
    uniformSpacing rnd tol eps8 (uniformEdges (Nat.cast : Nat → K) cx h nx) (uniformEdges Nat.cast cy h ny)
      (uniformEdges Nat.cast cz h nz) = some (rnd h) := by
  have hw : ∀ (c : K) (n i : Nat), i + 1 < (uniformEdges (Nat.cast : Nat → K) c h n).length →
      width (uniformEdges (Nat.cast : Nat → K) c h n) i = h := by
    intro c n i hi
    rw [uniformEdges_length] at hi
    exact (C38_uniformEdges_spec c h n).2.2.1 i (by omega)
  obtain ⟨h1, h2⟩ := C37_uniform_of_equal_widths tol eps8 htol heps _ _ _ h (hw cx nx) (hw cy ny) (hw cz nz)
    (by rw [uniformEdges_length]; omega)
  exact ⟨h1, h2 rnd⟩

/-! ### the time step and the metric factors -/

theorem sqrt_unique (sqrt : K → K) (hq : SqrtSpec sqrt) (x y : K) (hy : 0 ≤ y) (hxy : y * y = x) : sqrt x = y := by
  have hx : 0 ≤ x := by rw [← hxy]; exact mul_self_nonneg y
  obtain ⟨h0, h2⟩ := hq x hx
  exact (mul_self_inj_of_nonneg h0 hy).mp (by rw [h2, hxy])

theorem minList3 (h : K) : minOf3 h h h = h := by
  simp [minOf3, minList]

/-- **same dt**: on an equal-width grid both branches of `cfl_time_step` give `(cf/√3)·h/c` -/
theorem C38_same_dt (sqrt : K → K) (hq : SqrtSpec sqrt) (cf c h : K) (hc : 0 < c) (hh : 0 < h) :
    cflTimeStep sqrt cf c (some h) h h h = (cf / sqrt 3) * h / c ∧
    cflTimeStep sqrt cf c none h h h = (cf / sqrt 3) * h / c := by
  have h3 := sqrt_pos_of sqrt hq 3 (by norm_num)
  constructor
  · show (cf / sqrt 3) * (if minOf3 h h h < h then minOf3 h h h else h) / c = _
    rw [minList3, if_neg (lt_irrefl h)]
  · show cf / (c * sqrt (1 / (h * h) + 1 / (h * h) + 1 / (h * h))) = _
    have hs : sqrt (1 / (h * h) + 1 / (h * h) + 1 / (h * h)) = sqrt 3 / h := by
      apply sqrt_unique sqrt hq _ _ (div_nonneg (le_of_lt h3) (le_of_lt hh))
      have := (hq 3 (by norm_num)).2
      field_simp
      rw [sq, this]; norm_num
    rw [hs]; field_simp

/-- `c·dt / courant_number` is the spacing itself -/
theorem C38_reference_spacing (sqrt : K → K) (hq : SqrtSpec sqrt) (cf c h : K) (hc : 0 < c) (hh : 0 < h)
    (hcf : cf ≠ 0) (uni : Option K) (hu : uni = some h ∨ uni = none) :
    referenceSpacing c (cflTimeStep sqrt cf c uni h h h) (courantNumber sqrt cf) = h := by
  have h3 := sqrt_pos_of sqrt hq 3 (by norm_num)
  obtain ⟨d1, d2⟩ := C38_same_dt sqrt hq cf c h hc hh
  have : cflTimeStep sqrt cf c uni h h h = (cf / sqrt 3) * h / c := by
    rcases hu with rfl | rfl
    · exact d1
    · exact d2
  rw [this]
  unfold referenceSpacing courantNumber
  field_simp

/-- **metric scale = 1**: on a resolved equal-width axis, for every cell, both stencils, and whether or not the grid is
flagged uniform. -/
theorem C38_metric_scale_one (sqrt : K → K) (hq : SqrtSpec sqrt) (cf c h ctr : K) (hc : 0 < c) (hh : 0 < h)
    (hcf : cf ≠ 0) (uni : Option K) (hu : uni = some h ∨ uni = none) (n i : Nat) (hi : i < n)
    (nonuniform backward : Bool) :
    metricScale nonuniform (referenceSpacing c (cflTimeStep sqrt cf c uni h h h) (courantNumber sqrt cf))
      (uniformEdges (Nat.cast : Nat → K) ctr h n) backward i = 1 := by
  rw [C38_reference_spacing sqrt hq cf c h hc hh hcf uni hu]
  have hw := (C38_uniformEdges_spec ctr h n).2.2.1
  unfold metricScale
  cases nonuniform with
  | false => simp
  | true =>
    simp only [Bool.not_true, Bool.false_eq_true, if_false]
    cases backward with
    | false => simp only [Bool.false_eq_true, if_false]; rw [hw i hi]; exact div_self (ne_of_gt hh)
    | true =>
      simp only [if_true]
      unfold prevWidth
      rw [hw i hi, hw (i - 1) (by omega), half_eq]
      field_simp; ring

/-- the metric-aware curl term is then the raw finite difference … -/
theorem C38_curl_term (next cur : K) : curlTerm (1 : K) next cur = next - cur := by
  unfold curlTerm; ring

/-- … and the center→edge average the arithmetic mean, on either code path -/
theorem C38_edge_average (ctr h : K) (hh : 0 < h) (n i : Nat) (hi : i < n) (nonuniform : Bool) (cur prev : K) :
    backwardEdgeAverage nonuniform (uniformEdges (Nat.cast : Nat → K) ctr h n) i cur prev = (cur + prev) / 2 := by
  have hw := (C38_uniformEdges_spec ctr h n).2.2.1
  unfold backwardEdgeAverage
  cases nonuniform with
  | false => simp [half_eq]; ring
  | true =>
    simp only [Bool.not_true, Bool.false_eq_true, if_false]
    unfold prevWidth
    rw [hw i hi, hw (i - 1) (by omega), half_eq]
    field_simp
    ring

/-- an explicit grid with the same spacings but another origin (edges shifted by `t`) has the same widths, hence the same
minimum widths, verdict inputs, time step and metric factors: the solver only sees widths -/
theorem C38_widths_translation_invariant (e : List K) (t : K) (i : Nat) (hi : i + 1 < e.length) :
    width (e.map (· + t)) i = width e i := by
  unfold width edge
  have h1 : i < e.length := by omega
  simp [hi, h1]

/-- **every consumer quantity of the model is translation invariant**: for the same mesh written with another origin
(`e.map (· + t)`: lower-corner style, arbitrary or negative offsets) the width list, the minimum width (hence both CFL
branches), extents, the metric factors of both stencils and the edge average are unchanged — they use edge differences only. -/
theorem C38_consumers_translation_invariant (e : List K) (t : K) :
    widths (e.map (· + t)) = widths e ∧
    minSpacing (e.map (· + t)) = minSpacing e ∧
    (∀ lo up, lo < e.length → up < e.length → extent (e.map (· + t)) lo up = extent e lo up) ∧
    (∀ (nonuni bw : Bool) (ref : K) i, i + 1 < e.length →
        metricScale nonuni ref (e.map (· + t)) bw i = metricScale nonuni ref e bw i) ∧
    (∀ (nonuni : Bool) (cur prev : K) i, i + 1 < e.length →
        backwardEdgeAverage nonuni (e.map (· + t)) i cur prev = backwardEdgeAverage nonuni e i cur prev) := by
  have hw : widths (e.map (· + t)) = widths e := by
    unfold widths
    rw [List.length_map]
    apply List.map_congr_left
    intro i hi
    rw [List.mem_range] at hi
    exact C38_widths_translation_invariant e t i (by omega)
  refine ⟨hw, by unfold minSpacing; rw [hw], ?_, ?_, ?_⟩
  · intro lo up hlo hup
    unfold extent edge
    simp [hlo, hup]
  · intro nonuni bw ref i hi
    unfold metricScale prevWidth
    rw [C38_widths_translation_invariant e t i hi, C38_widths_translation_invariant e t (i - 1) (by omega)]
  · intro nonuni cur prev i hi
    unfold backwardEdgeAverage prevWidth
    rw [C38_widths_translation_invariant e t i hi, C38_widths_translation_invariant e t (i - 1) (by omega)]

/-! ### non-vacuity -/

example : resolveUniformAxis (Nat.cast : Nat → ℚ) 0 (1 / 2) 4 = .ok [-1, -1 / 2, 0, 1 / 2, 1] := by decide +kernel
example : resolveQuasiAxis (Nat.cast : Nat → ℚ) 0 (1 / 2) 4 = .ok [-1, -1 / 2, 0, 1 / 2, 1] := by decide +kernel
example : resolveQuasiAxis (Nat.cast : Nat → ℚ) 0 (1 / 2) 3 = .error "err-odd" := by decide +kernel
example : resolveExplicitAxis ([-1, -1 / 2, 0, 1 / 2, 1] : List ℚ) 4 = .ok [-1, -1 / 2, 0, 1 / 2, 1] := by decide +kernel
example : resolveExplicitAxis ([-1, -1 / 2, 0, 1 / 2, 1] : List ℚ) 6 = .error "err-mismatch" := by decide +kernel
/-- a stretched axis does NOT have unit metric factors (the theorem is not vacuous) -/
example : metricScale true (1 : ℚ) [0, 1, 3] false 1 = 1 / 2 := by decide +kernel

end Fdtdx.C38
