/-
C03 — The full backward pass reconstructs E and H outside the absorbing layers at every earlier time step.

Theorems about the CPML model (`FdtdxModel/Cpml.lean`: `forwardP`, `backwardP`, `restore`, `resetP`) on top of the
shared Yee model, over any field `K`, for EVERY grid shape, PML objects on ANY subset of the six faces with ANY
thicknesses `1 ≤ th ≤ n` (full-face boxes, so edges and corners overlap), the other faces zero / periodic / PEC / PMC
(any halo multipliers), every metric, isotropic or diagonal ε, μ (optionally with conductivity as long as the
divisors of the reverse update do not vanish), ANY additive source terms, any graded profile whose inner face is
clean (`a = 0`, and `1/κ = 1` unless the κ branch is off) — which the default grading satisfies (C12):

  psi_zero_at_interface   ψ stays 0 on every interface layer through any number of forward steps
  stencil_footprint       the (PML-corrected) curl at a cell whose PMLs are all "at their interface layer" depends only
                          on the field at the cell and its three forward (resp. backward) neighbours / wrapped cells
  geometry_footprint      every forward neighbour of an interior cell is interior or on an interface layer; every
                          backward neighbour is interior or an interface cell all of whose forward neighbours are again
                          interior / interface cells  (full-face boxes; this is the 3-D corner argument)
  C03_reverse_step        if the reconstructed state agrees with the forward state on the interior at t+1, then after
                          `backward` (interfaces restored from the lossless recording, reverse H, reverse E, PML reset)
                          it agrees with the forward state on the interior at t
  C03_full_backward       induction over the whole reverse sweep: agreement on the interior at EVERY step

"Interior" = in bounds and outside every PML box.  The recording is lossless by hypothesis of the property: the
restored values are the forward state after the step being undone, read on the interface slices.
-/
import FdtdxLemmas.Cpml

namespace Fdtdx.C03
open Fdtdx Fdtdx.Yee Fdtdx.Cpml Fdtdx.C01 Fdtdx.C02

section
variable {K : Type} [Field K]

/-- in bounds and outside every PML box -/
def Interior (cf : Cfg K) (ps : List (Pml K)) (i j k : Nat) : Prop :=
  i < cf.nx ∧ j < cf.ny ∧ k < cf.nz ∧ ∀ q ∈ ps, ¬ q.box.mem i j k

/-- on the interface slice of some PML -/
def OnIf (ps : List (Pml K)) (i j k : Nat) : Prop := ∃ q ∈ ps, q.iface.mem i j k

/-- cells whose values are known after `add_interfaces`: interior or interface layer -/
def Known (cf : Cfg K) (ps : List (Pml K)) (i j k : Nat) : Prop := Interior cf ps i j k ∨ OnIf ps i j k

/-- every PML containing the cell has it on its interface layer -/
def Soft (ps : List (Pml K)) (i j k : Nat) : Prop := ∀ q ∈ ps, q.box.mem i j k → q.iface.mem i j k

/-- the auxiliary fields vanish on the interface layer -/
def PsiZero (st : PmlSt K) : Prop :=
  ∀ i j k, st.p.iface.mem i j k → st.e1 i j k = 0 ∧ st.e2 i j k = 0 ∧ st.h1 i j k = 0 ∧ st.h2 i j k = 0

/-- zero profile at the inner face ("no loss or stretching at the inner face"; default grading: C12) -/
def IfaceCoef (q : Pml K) : Prop := CleanAt q q.ifOff

def agree (A B : V3 K) (i j k : Nat) : Prop := A.x i j k = B.x i j k ∧ A.y i j k = B.y i j k ∧ A.z i j k = B.z i j k

/-- a predicate holds at a cell and at the cells its forward differences read -/
structure FwdN (cf : Cfg K) (P : Nat → Nat → Nat → Prop) (i j k : Nat) : Prop where
  c : P i j k
  x1 : i + 1 < cf.nx → P (i + 1) j k
  x0 : ¬ i + 1 < cf.nx → cf.bx.wrap = true → P 0 j k
  y1 : j + 1 < cf.ny → P i (j + 1) k
  y0 : ¬ j + 1 < cf.ny → cf.by_.wrap = true → P i 0 k
  z1 : k + 1 < cf.nz → P i j (k + 1)
  z0 : ¬ k + 1 < cf.nz → cf.bz.wrap = true → P i j 0

/-- a predicate holds at a cell and at the cells its backward differences read -/
structure BwdN (cf : Cfg K) (P : Nat → Nat → Nat → Prop) (i j k : Nat) : Prop where
  c : P i j k
  x1 : ∀ i', i = i' + 1 → P i' j k
  x0 : i = 0 → cf.bx.wrap = true → P (cf.nx - 1) j k
  y1 : ∀ j', j = j' + 1 → P i j' k
  y0 : j = 0 → cf.by_.wrap = true → P i (cf.ny - 1) k
  z1 : ∀ k', k = k' + 1 → P i j k'
  z0 : k = 0 → cf.bz.wrap = true → P i j (cf.nz - 1)

theorem FwdN.mono {cf : Cfg K} {P Q : Nat → Nat → Nat → Prop} {i j k : Nat} (h : ∀ i j k, P i j k → Q i j k)
    (hp : FwdN cf P i j k) : FwdN cf Q i j k :=
  ⟨h _ _ _ hp.c, fun a => h _ _ _ (hp.x1 a), fun a b => h _ _ _ (hp.x0 a b), fun a => h _ _ _ (hp.y1 a),
   fun a b => h _ _ _ (hp.y0 a b), fun a => h _ _ _ (hp.z1 a), fun a b => h _ _ _ (hp.z0 a b)⟩

/-! ### psi stays zero on the interface layer -/

theorem psiZero_updPsiE (cf : Cfg K) (sim : Bool) (H : V3 K) (st : PmlSt K) (hg : FaceGeo cf st.p)
    (hc : IfaceCoef st.p) (hz : PsiZero st) : PsiZero (updPsiE cf sim H st) := by
  intro i j k hm
  have hm' : st.p.iface.mem i j k := hm
  obtain ⟨hbox, hoff⟩ := iface_sub cf st.p hg i j k hm'
  obtain ⟨z1, z2, z3, z4⟩ := hz i j k hm'
  refine ⟨?_, ?_, z3, z4⟩
  · simp only [updPsiE, hbox, if_true, hoff, z1]
    rw [stepCpml1_clean _ _ _ _ _ hc]
  · simp only [updPsiE, hbox, if_true, hoff, z2]
    rw [stepCpml1_clean _ _ _ _ _ hc]

theorem psiZero_updPsiH (cf : Cfg K) (sim : Bool) (E : V3 K) (st : PmlSt K) (hg : FaceGeo cf st.p)
    (hc : IfaceCoef st.p) (hz : PsiZero st) : PsiZero (updPsiH cf sim E st) := by
  intro i j k hm
  have hm' : st.p.iface.mem i j k := hm
  obtain ⟨hbox, hoff⟩ := iface_sub cf st.p hg i j k hm'
  obtain ⟨z1, z2, z3, z4⟩ := hz i j k hm'
  refine ⟨z1, z2, ?_, ?_⟩
  · simp only [updPsiH, hbox, if_true, hoff, z3]
    rw [stepCpml1_clean _ _ _ _ _ hc]
  · simp only [updPsiH, hbox, if_true, hoff, z4]
    rw [stepCpml1_clean _ _ _ _ _ hc]

/-- static data and the ψ = 0 invariant of a list of PMLs with respect to the static list `ps` -/
structure ListOK (cf : Cfg K) (ps : List (Pml K)) (pmls : List (PmlSt K)) : Prop where
  stat : pmls.map (·.p) = ps
  zero : ∀ st ∈ pmls, PsiZero st

/-- the static requirements: full-face boxes on non-wrapping axes, clean inner face -/
structure StaticOK (cf : Cfg K) (ps : List (Pml K)) : Prop where
  geo : ∀ q ∈ ps, FaceGeo cf q
  coef : ∀ q ∈ ps, IfaceCoef q

theorem ListOK.mem_p {cf : Cfg K} {ps : List (Pml K)} {pmls : List (PmlSt K)} (h : ListOK cf ps pmls)
    {st : PmlSt K} (hs : st ∈ pmls) : st.p ∈ ps := by
  rw [← h.stat]; exact List.mem_map_of_mem hs

theorem listOK_mapE (cf : Cfg K) (ps : List (Pml K)) (pmls : List (PmlSt K)) (sim : Bool) (H : V3 K)
    (hs : StaticOK cf ps) (h : ListOK cf ps pmls) : ListOK cf ps (pmls.map (updPsiE cf sim H)) := by
  constructor
  · rw [← h.stat, List.map_map]; rfl
  · intro st hst
    obtain ⟨s0, hs0, rfl⟩ := List.mem_map.1 hst
    exact psiZero_updPsiE cf sim H s0 (hs.geo _ (h.mem_p hs0)) (hs.coef _ (h.mem_p hs0)) (h.zero _ hs0)

theorem listOK_mapH (cf : Cfg K) (ps : List (Pml K)) (pmls : List (PmlSt K)) (sim : Bool) (E : V3 K)
    (hs : StaticOK cf ps) (h : ListOK cf ps pmls) : ListOK cf ps (pmls.map (updPsiH cf sim E)) := by
  constructor
  · rw [← h.stat, List.map_map]; rfl
  · intro st hst
    obtain ⟨s0, hs0, rfl⟩ := List.mem_map.1 hst
    exact psiZero_updPsiH cf sim E s0 (hs.geo _ (h.mem_p hs0)) (hs.coef _ (h.mem_p hs0)) (h.zero _ hs0)

/-- one forward step keeps the static data and ψ = 0 on the interface layers -/
theorem listOK_forwardP (cf : Cfg K) (m : Mat K) (jE jH : V3 K) (sim : Bool) (ps : List (Pml K))
    (pmls : List (PmlSt K)) (E H : V3 K) (hs : StaticOK cf ps) (h : ListOK cf ps pmls) :
    ListOK cf ps (forwardP cf m jE jH sim pmls E H).2.2 :=
  listOK_mapH cf ps _ sim _ hs (listOK_mapE cf ps pmls sim H hs h)

/-! ### stencil footprint -/

theorem applyE_soft (cf : Cfg K) (sim : Bool) (E : V3 K) (comp i j k : Nat) (acc : K) (st : PmlSt K)
    (hg : FaceGeo cf st.p) (hc : IfaceCoef st.p) (hz : PsiZero st)
    (hsoft : st.p.box.mem i j k → st.p.iface.mem i j k) : applyE cf sim E comp i j k acc st = acc := by
  unfold applyE
  by_cases hm : st.p.box.mem i j k
  · obtain ⟨-, hoff⟩ := iface_sub cf st.p hg i j k (hsoft hm)
    obtain ⟨-, -, z3, z4⟩ := hz i j k (hsoft hm)
    simp only [hm, if_true, hoff, z3, z4, stepCpml1_clean _ _ _ _ _ hc]
    split_ifs <;> simp
  · simp [hm]

theorem applyH_soft (cf : Cfg K) (sim : Bool) (H : V3 K) (comp i j k : Nat) (acc : K) (st : PmlSt K)
    (hg : FaceGeo cf st.p) (hc : IfaceCoef st.p) (hz : PsiZero st)
    (hsoft : st.p.box.mem i j k → st.p.iface.mem i j k) : applyH cf sim H comp i j k acc st = acc := by
  unfold applyH
  by_cases hm : st.p.box.mem i j k
  · obtain ⟨-, hoff⟩ := iface_sub cf st.p hg i j k (hsoft hm)
    obtain ⟨z1, z2, -, -⟩ := hz i j k (hsoft hm)
    simp only [hm, if_true, hoff, z1, z2, stepCpml1_clean _ _ _ _ _ hc]
    split_ifs <;> simp
  · simp [hm]

/-- at a soft cell the PML loop of `curl_E` changes nothing: corrected derivative = plain derivative -/
theorem curlEp_soft (cf : Cfg K) (sim : Bool) (ps : List (Pml K)) (pmls : List (PmlSt K)) (E : V3 K) (i j k : Nat)
    (hs : StaticOK cf ps) (h : ListOK cf ps pmls) (hsoft : Soft ps i j k) :
    agree (curlEp cf sim pmls E) (curlE cf E) i j k := by
  have key : ∀ comp acc, pmls.foldl (applyE cf sim E comp i j k) acc = acc := fun comp acc =>
    foldl_fixed _ _ _ (fun st hst => applyE_soft cf sim E comp i j k acc st (hs.geo _ (h.mem_p hst))
      (hs.coef _ (h.mem_p hst)) (h.zero _ hst) (hsoft _ (h.mem_p hst)))
  exact ⟨key 0 _, key 1 _, key 2 _⟩

theorem curlHp_soft (cf : Cfg K) (sim : Bool) (ps : List (Pml K)) (pmls : List (PmlSt K)) (H : V3 K) (i j k : Nat)
    (hs : StaticOK cf ps) (h : ListOK cf ps pmls) (hsoft : Soft ps i j k) :
    agree (curlHp cf sim pmls H) (curlH cf H) i j k := by
  have key : ∀ comp acc, pmls.foldl (applyH cf sim H comp i j k) acc = acc := fun comp acc =>
    foldl_fixed _ _ _ (fun st hst => applyH_soft cf sim H comp i j k acc st (hs.geo _ (h.mem_p hst))
      (hs.coef _ (h.mem_p hst)) (h.zero _ hst) (hsoft _ (h.mem_p hst)))
  exact ⟨key 0 _, key 1 _, key 2 _⟩

/-- the plain curl of E at a cell reads the cell and its forward neighbours only -/
theorem curlE_congr (cf : Cfg K) (A B : V3 K) (i j k : Nat) (h : FwdN cf (agree A B) i j k) :
    agree (curlE cf A) (curlE cf B) i j k := by
  refine ⟨?_, ?_, ?_⟩
  · rw [curlE_x, curlE_x,
      dFwd_congr_y cf A.z B.z i j k h.c.2.2 (fun a => (h.y1 a).2.2) (fun a b => (h.y0 a b).2.2),
      dFwd_congr_z cf A.y B.y i j k h.c.2.1 (fun a => (h.z1 a).2.1) (fun a b => (h.z0 a b).2.1)]
  · rw [curlE_y, curlE_y,
      dFwd_congr_z cf A.x B.x i j k h.c.1 (fun a => (h.z1 a).1) (fun a b => (h.z0 a b).1),
      dFwd_congr_x cf A.z B.z i j k h.c.2.2 (fun a => (h.x1 a).2.2) (fun a b => (h.x0 a b).2.2)]
  · rw [curlE_z, curlE_z,
      dFwd_congr_x cf A.y B.y i j k h.c.2.1 (fun a => (h.x1 a).2.1) (fun a b => (h.x0 a b).2.1),
      dFwd_congr_y cf A.x B.x i j k h.c.1 (fun a => (h.y1 a).1) (fun a b => (h.y0 a b).1)]

theorem curlH_congr (cf : Cfg K) (A B : V3 K) (i j k : Nat) (h : BwdN cf (agree A B) i j k) :
    agree (curlH cf A) (curlH cf B) i j k := by
  refine ⟨?_, ?_, ?_⟩
  · rw [curlH_x, curlH_x,
      dBwd_congr_y cf A.z B.z i j k h.c.2.2 (fun a b => (h.y1 a b).2.2) (fun a b => (h.y0 a b).2.2),
      dBwd_congr_z cf A.y B.y i j k h.c.2.1 (fun a b => (h.z1 a b).2.1) (fun a b => (h.z0 a b).2.1)]
  · rw [curlH_y, curlH_y,
      dBwd_congr_z cf A.x B.x i j k h.c.1 (fun a b => (h.z1 a b).1) (fun a b => (h.z0 a b).1),
      dBwd_congr_x cf A.z B.z i j k h.c.2.2 (fun a b => (h.x1 a b).2.2) (fun a b => (h.x0 a b).2.2)]
  · rw [curlH_z, curlH_z,
      dBwd_congr_x cf A.y B.y i j k h.c.2.1 (fun a b => (h.x1 a b).2.1) (fun a b => (h.x0 a b).2.1),
      dBwd_congr_y cf A.x B.x i j k h.c.1 (fun a b => (h.y1 a b).1) (fun a b => (h.y0 a b).1)]

/-- **stencil_footprint** (E → H direction): at a soft cell the PML-corrected `curl_E` of two fields that agree on the
cell and its forward neighbours (wrapped cells on periodic axes) coincide — whatever the two ψ states are, as long as
they vanish on the interface layers. -/
theorem stencil_footprint_E (cf : Cfg K) (sim sim' : Bool) (ps : List (Pml K)) (pmls pmls' : List (PmlSt K))
    (A B : V3 K) (i j k : Nat) (hs : StaticOK cf ps) (h : ListOK cf ps pmls) (h' : ListOK cf ps pmls')
    (hsoft : Soft ps i j k) (hn : FwdN cf (agree A B) i j k) :
    agree (curlEp cf sim pmls A) (curlEp cf sim' pmls' B) i j k := by
  obtain ⟨a1, a2, a3⟩ := curlEp_soft cf sim ps pmls A i j k hs h hsoft
  obtain ⟨b1, b2, b3⟩ := curlEp_soft cf sim' ps pmls' B i j k hs h' hsoft
  obtain ⟨c1, c2, c3⟩ := curlE_congr cf A B i j k hn
  exact ⟨by rw [a1, b1, c1], by rw [a2, b2, c2], by rw [a3, b3, c3]⟩

/-- **stencil_footprint** (H → E direction) -/
theorem stencil_footprint_H (cf : Cfg K) (sim sim' : Bool) (ps : List (Pml K)) (pmls pmls' : List (PmlSt K))
    (A B : V3 K) (i j k : Nat) (hs : StaticOK cf ps) (h : ListOK cf ps pmls) (h' : ListOK cf ps pmls')
    (hsoft : Soft ps i j k) (hn : BwdN cf (agree A B) i j k) :
    agree (curlHp cf sim pmls A) (curlHp cf sim' pmls' B) i j k := by
  obtain ⟨a1, a2, a3⟩ := curlHp_soft cf sim ps pmls A i j k hs h hsoft
  obtain ⟨b1, b2, b3⟩ := curlHp_soft cf sim' ps pmls' B i j k hs h' hsoft
  obtain ⟨c1, c2, c3⟩ := curlH_congr cf A B i j k hn
  exact ⟨by rw [a1, b1, c1], by rw [a2, b2, c2], by rw [a3, b3, c3]⟩

/-! ### geometry -/

theorem interior_soft (cf : Cfg K) (ps : List (Pml K)) (i j k : Nat) (h : Interior cf ps i j k) : Soft ps i j k :=
  fun q hq hm => absurd hm (h.2.2.2 q hq)

theorem known_of_bounds (cf : Cfg K) (ps : List (Pml K)) (i j k : Nat) (hi : i < cf.nx) (hj : j < cf.ny) (hk : k < cf.nz)
    (h : ∀ q ∈ ps, q.box.mem i j k → q.iface.mem i j k) : Known cf ps i j k := by
  by_cases hall : ∀ q ∈ ps, ¬ q.box.mem i j k
  · exact Or.inl ⟨hi, hj, hk, hall⟩
  · push Not at hall
    obtain ⟨q, hq, hm⟩ := hall
    exact Or.inr ⟨q, hq, h q hq hm⟩

/-- **geometry_footprint** (forward): every cell read by the forward differences at an interior cell is interior or on
an interface layer. -/
theorem geometry_footprint_fwd (cf : Cfg K) (ps : List (Pml K)) (hs : StaticOK cf ps) (i j k : Nat)
    (h : Interior cf ps i j k) : FwdN cf (Known cf ps) i j k := by
  obtain ⟨hi, hj, hk, hout⟩ := h
  refine ⟨Or.inl ⟨hi, hj, hk, hout⟩, ?_, ?_, ?_, ?_, ?_, ?_⟩
  · intro hb
    exact known_of_bounds cf ps _ _ _ hb hj hk (fun q hq hm => next_x cf q (hs.geo q hq) i j k (hout q hq) hm)
  · intro _ hw
    exact Or.inl ⟨by omega, hj, hk, fun q hq hm =>
      hout q hq ((wrap_x cf q (hs.geo q hq) hw 0 i j k (by omega) hi).1 hm)⟩
  · intro hb
    exact known_of_bounds cf ps _ _ _ hi hb hk (fun q hq hm => next_y cf q (hs.geo q hq) i j k (hout q hq) hm)
  · intro _ hw
    exact Or.inl ⟨hi, by omega, hk, fun q hq hm =>
      hout q hq ((wrap_y cf q (hs.geo q hq) hw i 0 j k (by omega) hj).1 hm)⟩
  · intro hb
    exact known_of_bounds cf ps _ _ _ hi hj hb (fun q hq hm => next_z cf q (hs.geo q hq) i j k (hout q hq) hm)
  · intro _ hw
    exact Or.inl ⟨hi, hj, by omega, fun q hq hm =>
      hout q hq ((wrap_z cf q (hs.geo q hq) hw i j 0 k (by omega) hk).1 hm)⟩

/-- cells at which the reverse H update reproduces the forward H: in bounds, soft, all forward reads known -/
def HGood (cf : Cfg K) (ps : List (Pml K)) (i j k : Nat) : Prop :=
  Soft ps i j k ∧ FwdN cf (Known cf ps) i j k

theorem interior_hgood (cf : Cfg K) (ps : List (Pml K)) (hs : StaticOK cf ps) (i j k : Nat)
    (h : Interior cf ps i j k) : HGood cf ps i j k :=
  ⟨interior_soft cf ps i j k h, geometry_footprint_fwd cf ps hs i j k h⟩

/-- the x-predecessor of an interior cell is `HGood` -/
theorem prev_hgood_x (cf : Cfg K) (ps : List (Pml K)) (hs : StaticOK cf ps) (i j k : Nat)
    (h : Interior cf ps (i + 1) j k) : HGood cf ps i j k := by
  by_cases hint : Interior cf ps i j k
  · exact interior_hgood cf ps hs i j k hint
  obtain ⟨hi, hj, hk, hout⟩ := h
  have hsoft : ∀ q ∈ ps, q.box.mem i j k →
      q.iface.mem i j k ∧ ∀ j' k', j' < cf.ny → k' < cf.nz → q.iface.mem i j' k' :=
    fun q hq hm => prev_x cf q (hs.geo q hq) i j k hi (hout q hq) hm
  have hex : ∃ q ∈ ps, q.box.mem i j k := by
    by_contra hne
    push Not at hne
    exact hint ⟨by omega, hj, hk, hne⟩
  obtain ⟨q, hq, hm⟩ := hex
  have hspan := (hsoft q hq hm).2
  refine ⟨fun q' hq' hm' => (hsoft q' hq' hm').1, ⟨Or.inr ⟨q, hq, (hsoft q hq hm).1⟩, ?_, ?_, ?_, ?_, ?_, ?_⟩⟩
  · intro _; exact Or.inl ⟨hi, hj, hk, hout⟩
  · intro hb; omega
  · intro hb; exact Or.inr ⟨q, hq, hspan _ _ hb hk⟩
  · intro _ _; exact Or.inr ⟨q, hq, hspan _ _ (by omega) hk⟩
  · intro hb; exact Or.inr ⟨q, hq, hspan _ _ hj hb⟩
  · intro _ _; exact Or.inr ⟨q, hq, hspan _ _ hj (by omega)⟩

theorem prev_hgood_y (cf : Cfg K) (ps : List (Pml K)) (hs : StaticOK cf ps) (i j k : Nat)
    (h : Interior cf ps i (j + 1) k) : HGood cf ps i j k := by
  by_cases hint : Interior cf ps i j k
  · exact interior_hgood cf ps hs i j k hint
  obtain ⟨hi, hj, hk, hout⟩ := h
  have hsoft : ∀ q ∈ ps, q.box.mem i j k →
      q.iface.mem i j k ∧ ∀ i' k', i' < cf.nx → k' < cf.nz → q.iface.mem i' j k' :=
    fun q hq hm => prev_y cf q (hs.geo q hq) i j k hj (hout q hq) hm
  have hex : ∃ q ∈ ps, q.box.mem i j k := by
    by_contra hne
    push Not at hne
    exact hint ⟨hi, by omega, hk, hne⟩
  obtain ⟨q, hq, hm⟩ := hex
  have hspan := (hsoft q hq hm).2
  refine ⟨fun q' hq' hm' => (hsoft q' hq' hm').1, ⟨Or.inr ⟨q, hq, (hsoft q hq hm).1⟩, ?_, ?_, ?_, ?_, ?_, ?_⟩⟩
  · intro hb; exact Or.inr ⟨q, hq, hspan _ _ hb hk⟩
  · intro _ _; exact Or.inr ⟨q, hq, hspan _ _ (by omega) hk⟩
  · intro _; exact Or.inl ⟨hi, hj, hk, hout⟩
  · intro hb; omega
  · intro hb; exact Or.inr ⟨q, hq, hspan _ _ hi hb⟩
  · intro _ _; exact Or.inr ⟨q, hq, hspan _ _ hi (by omega)⟩

theorem prev_hgood_z (cf : Cfg K) (ps : List (Pml K)) (hs : StaticOK cf ps) (i j k : Nat)
    (h : Interior cf ps i j (k + 1)) : HGood cf ps i j k := by
  by_cases hint : Interior cf ps i j k
  · exact interior_hgood cf ps hs i j k hint
  obtain ⟨hi, hj, hk, hout⟩ := h
  have hsoft : ∀ q ∈ ps, q.box.mem i j k →
      q.iface.mem i j k ∧ ∀ i' j', i' < cf.nx → j' < cf.ny → q.iface.mem i' j' k :=
    fun q hq hm => prev_z cf q (hs.geo q hq) i j k hk (hout q hq) hm
  have hex : ∃ q ∈ ps, q.box.mem i j k := by
    by_contra hne
    push Not at hne
    exact hint ⟨hi, hj, by omega, hne⟩
  obtain ⟨q, hq, hm⟩ := hex
  have hspan := (hsoft q hq hm).2
  refine ⟨fun q' hq' hm' => (hsoft q' hq' hm').1, ⟨Or.inr ⟨q, hq, (hsoft q hq hm).1⟩, ?_, ?_, ?_, ?_, ?_, ?_⟩⟩
  · intro hb; exact Or.inr ⟨q, hq, hspan _ _ hb hj⟩
  · intro _ _; exact Or.inr ⟨q, hq, hspan _ _ (by omega) hj⟩
  · intro hb; exact Or.inr ⟨q, hq, hspan _ _ hi hb⟩
  · intro _ _; exact Or.inr ⟨q, hq, hspan _ _ hi (by omega)⟩
  · intro _; exact Or.inl ⟨hi, hj, hk, hout⟩
  · intro hb; omega

/-- **geometry_footprint** (backward): every cell read by the backward differences at an interior cell is `HGood`
(interior, or an interface cell that lies only in PMLs of that axis and whose own forward reads are known). -/
theorem geometry_footprint_bwd (cf : Cfg K) (ps : List (Pml K)) (hs : StaticOK cf ps) (i j k : Nat)
    (h : Interior cf ps i j k) : BwdN cf (HGood cf ps) i j k := by
  have hh := h
  obtain ⟨hi, hj, hk, hout⟩ := h
  refine ⟨interior_hgood cf ps hs i j k hh, ?_, ?_, ?_, ?_, ?_, ?_⟩
  · intro i' he; subst he; exact prev_hgood_x cf ps hs i' j k hh
  · intro _ hw
    exact interior_hgood cf ps hs _ _ _ ⟨by omega, hj, hk, fun q hq hm =>
      hout q hq ((wrap_x cf q (hs.geo q hq) hw (cf.nx - 1) i j k (by omega) hi).1 hm)⟩
  · intro j' he; subst he; exact prev_hgood_y cf ps hs i j' k hh
  · intro _ hw
    exact interior_hgood cf ps hs _ _ _ ⟨hi, by omega, hk, fun q hq hm =>
      hout q hq ((wrap_y cf q (hs.geo q hq) hw i (cf.ny - 1) j k (by omega) hj).1 hm)⟩
  · intro k' he; subst he; exact prev_hgood_z cf ps hs i j k' hh
  · intro _ hw
    exact interior_hgood cf ps hs _ _ _ ⟨hi, hj, by omega, fun q hq hm =>
      hout q hq ((wrap_z cf q (hs.geo q hq) hw i j (cf.nz - 1) k (by omega) hk).1 hm)⟩

/-! ### restoring the interfaces, resetting the layers -/

theorem onIface_iff (ps : List (Pml K)) (i j k : Nat) : onIface ps i j k = true ↔ OnIf ps i j k := by
  simp [onIface, OnIf, Pml.iface, List.any_eq_true]

theorem inPml_iff (ps : List (Pml K)) (i j k : Nat) : inPml ps i j k = true ↔ ∃ q ∈ ps, q.box.mem i j k := by
  simp [inPml, List.any_eq_true]

/-- after `add_boundary_interfaces` the field equals the recorded field on interface layers, and is untouched elsewhere;
so if it agreed with the recorded field on the interior, it now agrees on all known cells -/
theorem restore_known (cf : Cfg K) (ps : List (Pml K)) (R F : V3 K)
    (hag : ∀ i j k, Interior cf ps i j k → agree F R i j k) (i j k : Nat) (hk : Known cf ps i j k) :
    agree (restore ps R F) R i j k := by
  unfold restore selV agree
  by_cases hon : onIface ps i j k = true
  · simp [hon]
  · rcases hk with hint | hif
    · have := hag i j k hint
      simp only [hon]
      exact this
    · exact absurd ((onIface_iff ps i j k).2 hif) hon

theorem resetP_interior (cf : Cfg K) (ps : List (Pml K)) (F : V3 K) (i j k : Nat) (h : Interior cf ps i j k) :
    agree (resetP ps F) F i j k := by
  have hn : ¬ inPml ps i j k = true := by
    rw [inPml_iff]; rintro ⟨q, hq, hm⟩; exact h.2.2.2 q hq hm
  unfold resetP selV agree
  simp [hn]

/-! ### local inverses of the two half steps -/

/-- at one cell: if the reverse H update is fed the forward result and the same curl, it returns the old H -/
theorem revH_cell (cf : Cfg K) (m : Mat K) (jH cuF cuB H H1 : V3 K) (i j k : Nat) (hf : FactorOK cf m)
    (hwx : pmcMask cf 0 i j k = true → H.x i j k = 0) (hwy : pmcMask cf 1 i j k = true → H.y i j k = 0)
    (hwz : pmcMask cf 2 i j k = true → H.z i j k = 0)
    (hcu : agree cuB cuF i j k) (h1 : agree H1 (updHwith cf m jH cuF H) i j k) :
    agree (revHwith cf m jH cuB H1) H i j k := by
  obtain ⟨c1, c2, c3⟩ := hcu
  obtain ⟨a1, a2, a3⟩ := h1
  refine ⟨?_, ?_, ?_⟩
  · by_cases hmk : pmcMask cf 0 i j k = true
    · simp [revHwith, projH, maskV, hmk, hwx hmk]
    · simp only [revHwith, projH, maskV, subV, hmk, Bool.false_eq_true, if_false, a1, c1, updHwith, addV]
      exact revH1_updH1 _ _ _ _ _ _ _ (hf.hx i j k)
  · by_cases hmk : pmcMask cf 1 i j k = true
    · simp [revHwith, projH, maskV, hmk, hwy hmk]
    · simp only [revHwith, projH, maskV, subV, hmk, Bool.false_eq_true, if_false, a2, c2, updHwith, addV]
      exact revH1_updH1 _ _ _ _ _ _ _ (hf.hy i j k)
  · by_cases hmk : pmcMask cf 2 i j k = true
    · simp [revHwith, projH, maskV, hmk, hwz hmk]
    · simp only [revHwith, projH, maskV, subV, hmk, Bool.false_eq_true, if_false, a3, c3, updHwith, addV]
      exact revH1_updH1 _ _ _ _ _ _ _ (hf.hz i j k)

theorem revE_cell (cf : Cfg K) (m : Mat K) (jE cuF cuB E E1 : V3 K) (i j k : Nat) (hf : FactorOK cf m)
    (hwx : pecMask cf 0 i j k = true → E.x i j k = 0) (hwy : pecMask cf 1 i j k = true → E.y i j k = 0)
    (hwz : pecMask cf 2 i j k = true → E.z i j k = 0)
    (hcu : agree cuB cuF i j k) (h1 : agree E1 (updEwith cf m jE cuF E) i j k) :
    agree (revEwith cf m jE cuB E1) E i j k := by
  obtain ⟨c1, c2, c3⟩ := hcu
  obtain ⟨a1, a2, a3⟩ := h1
  refine ⟨?_, ?_, ?_⟩
  · by_cases hmk : pecMask cf 0 i j k = true
    · simp [revEwith, projE, maskV, hmk, hwx hmk]
    · simp only [revEwith, projE, maskV, subV, hmk, Bool.false_eq_true, if_false, a1, c1, updEwith, addV]
      exact revE1_updE1 _ _ _ _ _ _ _ (hf.ex i j k)
  · by_cases hmk : pecMask cf 1 i j k = true
    · simp [revEwith, projE, maskV, hmk, hwy hmk]
    · simp only [revEwith, projE, maskV, subV, hmk, Bool.false_eq_true, if_false, a2, c2, updEwith, addV]
      exact revE1_updE1 _ _ _ _ _ _ _ (hf.ey i j k)
  · by_cases hmk : pecMask cf 2 i j k = true
    · simp [revEwith, projE, maskV, hmk, hwz hmk]
    · simp only [revEwith, projE, maskV, subV, hmk, Bool.false_eq_true, if_false, a3, c3, updEwith, addV]
      exact revE1_updE1 _ _ _ _ _ _ _ (hf.ez i j k)

/-! ### the reverse step -/

/-- **C03_reverse_step**.  `(E,H,pmls)` is the forward state at step t (satisfying the walls), `(E1,H1,_)` the forward
state at t+1.  `(Eh,Hh)` is ANY reconstructed state that agrees with `(E1,H1)` on the interior; `pmlsB` are the PMLs
with ANY auxiliary fields that vanish on the interface layers (in the code: those of the end of the forward run).
Then one `backward` — interface slices overwritten by the recorded `(E1,H1)`, reverse H, reverse E, optional reset of
the PML boxes — agrees with `(E,H)` on the interior. -/
theorem C03_reverse_step (cf : Cfg K) (m : Mat K) (jE jH : V3 K) (sim reset : Bool) (ps : List (Pml K))
    (pmls pmlsB : List (PmlSt K)) (E H Eh Hh : V3 K)
    (hf : FactorOK cf m) (hw : WallOK cf E H) (hs : StaticOK cf ps)
    (hl : ListOK cf ps pmls) (hlB : ListOK cf ps pmlsB)
    (hag : ∀ i j k, Interior cf ps i j k →
      agree Eh (forwardP cf m jE jH sim pmls E H).1 i j k ∧ agree Hh (forwardP cf m jE jH sim pmls E H).2.1 i j k) :
    ∀ i j k, Interior cf ps i j k →
      agree (backwardP cf m jE jH pmlsB (forwardP cf m jE jH sim pmls E H).1 (forwardP cf m jE jH sim pmls E H).2.1
        reset Eh Hh).1 E i j k ∧
      agree (backwardP cf m jE jH pmlsB (forwardP cf m jE jH sim pmls E H).1 (forwardP cf m jE jH sim pmls E H).2.1
        reset Eh Hh).2 H i j k := by
  -- names for the pieces of the forward step
  set E1 := updEwith cf m jE (curlHp cf sim pmls H) E with hE1
  set pm1 := pmls.map (updPsiE cf sim H) with hpm1
  set H1 := updHwith cf m jH (curlEp cf sim pm1 E1) H with hH1
  have hF1 : (forwardP cf m jE jH sim pmls E H).1 = E1 := rfl
  have hF2 : (forwardP cf m jE jH sim pmls E H).2.1 = H1 := rfl
  rw [hF1, hF2] at hag ⊢
  have hl1 : ListOK cf ps pm1 := listOK_mapE cf ps pmls sim H hs hl
  -- pieces of the backward step
  have hps : pmlsB.map (·.p) = ps := hlB.stat
  set Er := restore ps E1 Eh with hEr
  set Hr := restore ps H1 Hh with hHr
  set Hb := revHwith cf m jH (curlEp cf false pmlsB Er) Hr with hHb
  set Eb := revEwith cf m jE (curlHp cf false pmlsB Hb) Er with hEb
  have hB : backwardP cf m jE jH pmlsB E1 H1 reset Eh Hh
      = if reset then (resetP ps Eb, resetP ps Hb) else (Eb, Hb) := by
    simp only [backwardP, hps, hEr, hHr, hHb, hEb]
  have hErk : ∀ i j k, Known cf ps i j k → agree Er E1 i j k :=
    restore_known cf ps E1 Eh (fun i j k h => (hag i j k h).1)
  have hHrk : ∀ i j k, Known cf ps i j k → agree Hr H1 i j k :=
    restore_known cf ps H1 Hh (fun i j k h => (hag i j k h).2)
  -- (1) the reversed H equals the old H on every HGood cell
  have hHgood : ∀ i j k, HGood cf ps i j k → agree Hb H i j k := by
    intro i j k hg
    obtain ⟨hsoft, hn⟩ := hg
    have hcu : agree (curlEp cf false pmlsB Er) (curlEp cf sim pm1 E1) i j k :=
      stencil_footprint_E cf false sim ps pmlsB pm1 Er E1 i j k hs hlB hl1 hsoft (hn.mono hErk)
    exact revH_cell cf m jH _ _ H Hr i j k hf (hw.hx i j k) (hw.hy i j k) (hw.hz i j k) hcu (hHrk i j k hn.c)
  -- (2) the reversed E equals the old E on the interior
  have hEint : ∀ i j k, Interior cf ps i j k → agree Eb E i j k := by
    intro i j k hint
    have hbn : BwdN cf (agree Hb H) i j k := by
      have g := geometry_footprint_bwd cf ps hs i j k hint
      exact ⟨hHgood _ _ _ g.c, fun a b => hHgood _ _ _ (g.x1 a b), fun a b => hHgood _ _ _ (g.x0 a b),
        fun a b => hHgood _ _ _ (g.y1 a b), fun a b => hHgood _ _ _ (g.y0 a b),
        fun a b => hHgood _ _ _ (g.z1 a b), fun a b => hHgood _ _ _ (g.z0 a b)⟩
    have hcu : agree (curlHp cf false pmlsB Hb) (curlHp cf sim pmls H) i j k :=
      stencil_footprint_H cf false sim ps pmlsB pmls Hb H i j k hs hlB hl (interior_soft cf ps i j k hint) hbn
    exact revE_cell cf m jE _ _ E Er i j k hf (hw.ex i j k) (hw.ey i j k) (hw.ez i j k) hcu
      (hErk i j k (Or.inl hint))
  intro i j k hint
  have hHint := hHgood i j k (interior_hgood cf ps hs i j k hint)
  have hEi := hEint i j k hint
  rw [hB]
  cases reset
  · exact ⟨hEi, hHint⟩
  · obtain ⟨r1, r2, r3⟩ := resetP_interior cf ps Eb i j k hint
    obtain ⟨s1, s2, s3⟩ := resetP_interior cf ps Hb i j k hint
    exact ⟨⟨by rw [show (if true = true then (resetP ps Eb, resetP ps Hb) else (Eb, Hb)).1 = resetP ps Eb from rfl, r1]; exact hEi.1,
            by rw [show (if true = true then (resetP ps Eb, resetP ps Hb) else (Eb, Hb)).1 = resetP ps Eb from rfl, r2]; exact hEi.2.1,
            by rw [show (if true = true then (resetP ps Eb, resetP ps Hb) else (Eb, Hb)).1 = resetP ps Eb from rfl, r3]; exact hEi.2.2⟩,
           ⟨by rw [show (if true = true then (resetP ps Eb, resetP ps Hb) else (Eb, Hb)).2 = resetP ps Hb from rfl, s1]; exact hHint.1,
            by rw [show (if true = true then (resetP ps Eb, resetP ps Hb) else (Eb, Hb)).2 = resetP ps Hb from rfl, s2]; exact hHint.2.1,
            by rw [show (if true = true then (resetP ps Eb, resetP ps Hb) else (Eb, Hb)).2 = resetP ps Hb from rfl, s3]; exact hHint.2.2⟩⟩

/-! ### the whole sweep -/

/-- forward run with step-indexed source terms: state `(E, H, pmls)` after `n` steps -/
def fwdRun (cf : Cfg K) (m : Mat K) (jE jH : Nat → V3 K) (sim : Bool) (s0 : V3 K × V3 K × List (PmlSt K)) :
    Nat → V3 K × V3 K × List (PmlSt K)
  | 0 => s0
  | n + 1 =>
    let s := fwdRun cf m jE jH sim s0 n
    forwardP cf m (jE n) (jH n) sim s.2.2 s.1 s.2.1

/-- reverse sweep from the final state of a `T`-step run: `(E, H)` after `n` backward steps (i.e. at time `T - n`).
Each step restores the interface slices from the recording of the forward state it undoes and uses the auxiliary
fields of the END of the forward run (they are not reversed by the code). -/
def bwdRun (cf : Cfg K) (m : Mat K) (jE jH : Nat → V3 K) (sim reset : Bool) (s0 : V3 K × V3 K × List (PmlSt K))
    (T : Nat) : Nat → V3 K × V3 K
  | 0 => ((fwdRun cf m jE jH sim s0 T).1, (fwdRun cf m jE jH sim s0 T).2.1)
  | n + 1 =>
    let b := bwdRun cf m jE jH sim reset s0 T n
    let t := T - (n + 1)
    let R := fwdRun cf m jE jH sim s0 (t + 1)
    backwardP cf m (jE t) (jH t) (fwdRun cf m jE jH sim s0 T).2.2 R.1 R.2.1 reset b.1 b.2

/-- **psi_zero_at_interface**: with a clean inner face, the auxiliary fields of every PML vanish on its interface layer
after any number of forward steps (induction over the steps), and the static data never change. -/
theorem psi_zero_at_interface (cf : Cfg K) (m : Mat K) (jE jH : Nat → V3 K) (sim : Bool) (ps : List (Pml K))
    (s0 : V3 K × V3 K × List (PmlSt K)) (hs : StaticOK cf ps) (hl : ListOK cf ps s0.2.2) (n : Nat) :
    ListOK cf ps (fwdRun cf m jE jH sim s0 n).2.2 := by
  induction n with
  | zero => exact hl
  | succ n ih => exact listOK_forwardP cf m _ _ sim ps _ _ _ hs ih

theorem wallOK_forwardP (cf : Cfg K) (m : Mat K) (jE jH : V3 K) (sim : Bool) (pmls : List (PmlSt K)) (E H : V3 K) :
    WallOK cf (forwardP cf m jE jH sim pmls E H).1 (forwardP cf m jE jH sim pmls E H).2.1 := by
  constructor <;> intro i j k hmk <;> simp [forwardP, updEwith, updHwith, projE, projH, maskV, hmk]

theorem wallOK_fwdRun (cf : Cfg K) (m : Mat K) (jE jH : Nat → V3 K) (sim : Bool) (s0 : V3 K × V3 K × List (PmlSt K))
    (hw : WallOK cf s0.1 s0.2.1) (n : Nat) :
    WallOK cf (fwdRun cf m jE jH sim s0 n).1 (fwdRun cf m jE jH sim s0 n).2.1 := by
  cases n with
  | zero => exact hw
  | succ n => exact wallOK_forwardP cf m _ _ sim _ _ _

/-- **C03_full_backward**: at EVERY step of the reverse sweep (`n` backward steps from the final state of a `T`-step run,
`n ≤ T`) the reconstructed E and H equal the forward-run E and H of time `T - n` on every cell outside the absorbing
layers — any shape, PML on any subset of faces with any thicknesses, any other faces, any sources, with or without
the reset of the PML regions. -/
theorem C03_full_backward (cf : Cfg K) (m : Mat K) (jE jH : Nat → V3 K) (sim reset : Bool) (ps : List (Pml K))
    (s0 : V3 K × V3 K × List (PmlSt K)) (hf : FactorOK cf m) (hw : WallOK cf s0.1 s0.2.1) (hs : StaticOK cf ps)
    (hl : ListOK cf ps s0.2.2) (T n : Nat) (hn : n ≤ T) :
    ∀ i j k, Interior cf ps i j k →
      agree (bwdRun cf m jE jH sim reset s0 T n).1 (fwdRun cf m jE jH sim s0 (T - n)).1 i j k ∧
      agree (bwdRun cf m jE jH sim reset s0 T n).2 (fwdRun cf m jE jH sim s0 (T - n)).2.1 i j k := by
  induction n with
  | zero => intro i j k _; exact ⟨⟨rfl, rfl, rfl⟩, ⟨rfl, rfl, rfl⟩⟩
  | succ n ih =>
    have ih' := ih (by omega)
    have ht : T - n = (T - (n + 1)) + 1 := by omega
    rw [ht] at ih'
    exact C03_reverse_step cf m (jE (T - (n + 1))) (jH (T - (n + 1))) sim reset ps
      (fwdRun cf m jE jH sim s0 (T - (n + 1))).2.2 (fwdRun cf m jE jH sim s0 T).2.2
      (fwdRun cf m jE jH sim s0 (T - (n + 1))).1 (fwdRun cf m jE jH sim s0 (T - (n + 1))).2.1
      (bwdRun cf m jE jH sim reset s0 T n).1 (bwdRun cf m jE jH sim reset s0 T n).2
      hf (wallOK_fwdRun cf m jE jH sim s0 hw _) hs
      (psi_zero_at_interface cf m jE jH sim ps s0 hs hl _) (psi_zero_at_interface cf m jE jH sim ps s0 hs hl _) ih'

/-- in particular the initial state is recovered on the interior -/
theorem C03_full_backward_initial (cf : Cfg K) (m : Mat K) (jE jH : Nat → V3 K) (sim reset : Bool) (ps : List (Pml K))
    (s0 : V3 K × V3 K × List (PmlSt K)) (hf : FactorOK cf m) (hw : WallOK cf s0.1 s0.2.1) (hs : StaticOK cf ps)
    (hl : ListOK cf ps s0.2.2) (T : Nat) :
    ∀ i j k, Interior cf ps i j k →
      agree (bwdRun cf m jE jH sim reset s0 T T).1 s0.1 i j k ∧ agree (bwdRun cf m jE jH sim reset s0 T T).2 s0.2.1 i j k := by
  have h := C03_full_backward cf m jE jH sim reset ps s0 hf hw hs hl T T le_rfl
  simpa [fwdRun] using h

end

/-! ### non-vacuity: a concrete 5×4×4 volume, PML of thickness 2 at min x and 1 at max y (overlapping along an edge),
PEC at max x; coefficient arrays with a clean inner face; the hypotheses are met and an interior cell exists -/

def exCf : Cfg ℚ :=
  { nx := 5, ny := 4, nz := 4,
    bx := ⟨false, 1, 1, false, true, false, false⟩, by_ := ⟨false, 1, 1, false, false, false, false⟩,
    bz := ⟨true, 1, 1, false, false, false, false⟩,
    sfx := fun _ => 1, sfy := fun _ => 1, sfz := fun _ => 1, sbx := fun _ => 1, sby := fun _ => 1, sbz := fun _ => 1,
    c := 1 / 2, eta0 := 1 }

/-- min-x layer, thickness 2: offsets 0 (outer), 1 (interface) -/
def exP1 : Pml ℚ :=
  { axis := 0, plus := false, box := faceBox 5 4 4 0 false 2, kappaDefault := true,
    aE := fun o => if o = 1 then 0 else -1 / 3, bE := fun _ => 1 / 2, ikE := fun _ => 1,
    aH := fun o => if o = 1 then 0 else -1 / 4, bH := fun _ => 1 / 2, ikH := fun _ => 1 }

/-- max-y layer, thickness 1, κ branch on with 1/κ = 1 at the (only) cell -/
def exP2 : Pml ℚ :=
  { axis := 1, plus := true, box := faceBox 5 4 4 1 true 1, kappaDefault := false,
    aE := fun _ => 0, bE := fun _ => 1 / 2, ikE := fun _ => 1, aH := fun _ => 0, bH := fun _ => 1 / 2, ikH := fun _ => 1 }

example : StaticOK exCf [exP1, exP2] := by
  constructor
  · intro q hq
    simp only [List.mem_cons, List.mem_nil_iff, or_false] at hq
    rcases hq with rfl | rfl
    · exact ⟨by decide, rfl, 2, by decide, by decide, rfl⟩
    · exact ⟨by decide, rfl, 1, by decide, by decide, rfl⟩
  · intro q hq
    simp only [List.mem_cons, List.mem_nil_iff, or_false] at hq
    rcases hq with rfl | rfl
    · refine ⟨?_, ?_, Or.inl rfl⟩ <;> simp [exP1, Pml.ifOff, faceBox, Box.hi, Box.lo]
    · refine ⟨rfl, rfl, Or.inr ⟨rfl, rfl⟩⟩

example : ListOK exCf [exP1, exP2] [⟨exP1, constV 0 |>.x, constV 0 |>.x, constV 0 |>.x, constV 0 |>.x⟩,
    ⟨exP2, constV 0 |>.x, constV 0 |>.x, constV 0 |>.x, constV 0 |>.x⟩] := by
  constructor
  · rfl
  · intro st hst i j k _
    simp only [List.mem_cons, List.mem_nil_iff, or_false] at hst
    rcases hst with rfl | rfl <;> simp [constV]

example : Interior exCf [exP1, exP2] 2 1 3 := by
  refine ⟨by decide, by decide, by decide, ?_⟩
  intro q hq
  simp only [List.mem_cons, List.mem_nil_iff, or_false] at hq
  rcases hq with rfl | rfl <;> simp [exP1, exP2, faceBox, Box.mem]

/-- the interface cell (1,1,3) next to it is not interior but `HGood`: its reverse H update is exact -/
example : ¬ Interior exCf [exP1, exP2] 1 1 3 := by
  intro h
  exact h.2.2.2 exP1 (by simp) (by simp [exP1, faceBox, Box.mem])

end Fdtdx.C03
