/-
C12 — Absorbing layers absorb.  PARTIAL BY NATURE: the quantitative clauses of the property (residual energy below
1e-6 of the peak; less than 1e-4 relative energy difference to a much larger reference domain) are statements about
the reflection of a graded discrete CPML over all angles and are NOT proved here; they are evaluated on the real code
by the check (harness/c12.py, scenario oracle).  What is algebraic is proved, about `FdtdxModel/Cpml.lean`
(`profile`, `coefB`, `coefA`, `coefArrays`, `depthsUniform`, `depthsEdges`, `stepCpml1`, `curlEp`, `curlHp`), over any
ordered field, with `exp` and `pow` abstract functions satisfying only what is stated:

  C12_b_range             0 < b ≤ 1           (0 ≤ dt, 0 < eps0, 0 ≤ σ, 0 < κ, 0 ≤ α;  0 < exp x, exp x ≤ 1 for x ≤ 0)
  C12_a_nonpos            a ≤ 0               (b ≤ 1, 0 ≤ σ, 0 < κ, 0 ≤ α)
  C12_a_zero_iff          a = 0 ⇔ σ = 0       (b ≠ 1, κ ≠ 0, σ + ακ ≠ 0);   b ≠ 1 from strict exp: C12_b_lt_one
  C12_profile_monotone    the graded profile is monotone in the depth (start ≤ end, pow monotone)
  C12_depths_monotone     depths of the uniform grid grow toward the outer face, for both directions, E and H samples
  C12_inner_face_depth    the depth of the interface cell is 0 (uniform and non-uniform grids, E and H samples)
  C12_default_inner_face  default grading (σ_start = 0, κ_start = 1) ⇒ a = 0 and 1/κ = 1 at the inner face, i.e. the
                          hypothesis `IfaceCoef` of C03 holds for the arrays `place_on_grid` computes
  C12_kappa_default       κ_start = κ_end = 1 ⇒ 1/κ = 1 everywhere
  C12_zero_profile_cell   a cell whose PMLs all have zero profile there and ψ = 0: corrected curl = plain curl, ψ stays 0,
                          and the E update equals the plain Yee update
  C12_psi_contraction     |ψ'| ≤ b|ψ| + |a||d|   (0 ≤ b)
-/
import FdtdxProps.C03
import Mathlib.Algebra.Order.Field.Basic
import Mathlib.Algebra.Order.AbsoluteValue.Basic
import Mathlib.Tactic.Positivity
import Mathlib.Tactic.FieldSimp

namespace Fdtdx.C12
open Fdtdx Fdtdx.Yee Fdtdx.Cpml Fdtdx.C03

section field
variable {K : Type} [Field K]

/-- `b` is just `exp` of the argument (the `expm1 + 1` detour cancels) -/
theorem coefB_eq (exp : K → K) (dt eps0 sigma kappa alpha : K) :
    coefB exp dt eps0 sigma kappa alpha = exp ((0 - dt) / eps0 * (sigma / kappa + alpha)) := by
  unfold coefB; ring

/-- σ = 0 ⇒ a = 0 (also when the denominator vanishes: the code's 0/0 → nan → 0) -/
theorem coefA_sigma_zero (b kappa alpha : K) : coefA id b 0 kappa alpha = 0 := by
  simp [coefA]

/-- **C12_a_zero_iff** -/
theorem C12_a_zero_iff (b sigma kappa alpha : K) (hb : b ≠ 1) (hk : kappa ≠ 0) (hd : sigma + alpha * kappa ≠ 0) :
    coefA id b sigma kappa alpha = 0 ↔ sigma = 0 := by
  constructor
  · intro h
    simp only [coefA, id, div_eq_zero_iff, mul_eq_zero, sub_eq_zero] at h
    rcases h with ((h | h) | h) | h
    · exact absurd h hb
    · exact h
    · exact absurd h hd
    · exact absurd h hk
  · rintro rfl; exact coefA_sigma_zero b kappa alpha

/-- the graded profile at depth 0 is its start value -/
theorem profile_zero (pow : K → K → K) (vs ve order norm : K) (hp : pow 0 order = 0) :
    profile pow vs ve order norm 0 = vs := by
  simp [profile, hp]

/-- **C12_kappa_default**: with `kappa_start = kappa_end = 1` the profile is 1 at every depth -/
theorem C12_kappa_default (pow : K → K → K) (order norm d : K) : profile pow 1 1 order norm d = 1 := by
  simp [profile]

/-- **C12_inner_face_depth** (uniform grid): both depth arrays vanish at the interface offset
(`0` for "+", `L-1` for "-") -/
theorem C12_inner_face_depth_uniform (cast : Nat → K) (half : K) (hc : cast 0 = 0) (plus : Bool) (L : Nat) (hL : 1 ≤ L) :
    (depthsUniform cast half plus L).1 (if plus then 0 else L - 1) = 0 ∧
    (depthsUniform cast half plus L).2.1 (if plus then 0 else L - 1) = 0 := by
  cases plus
  · have h1 : L - 1 - (L - 1) = 0 := by omega
    have h2 : L - 1 + 1 = L := by omega
    simp [depthsUniform, h2, hc]
  · simp [depthsUniform, hc]

/-- **C12_inner_face_depth** (non-uniform grid, depths from the physical edges) -/
theorem C12_inner_face_depth_edges (e : Nat → K) (plus : Bool) (L : Nat) (hL : 1 ≤ L) :
    (depthsEdges e plus L).1 (if plus then 0 else L - 1) = 0 ∧
    (depthsEdges e plus L).2.1 (if plus then 0 else L - 1) = 0 := by
  cases plus
  · have h2 : L - 1 + 1 = L := by omega
    simp [depthsEdges, h2]
  · simp [depthsEdges]

/-- **C12_default_inner_face**: whenever the depth of the interface cell is 0 for both sample sets (previous two
theorems), `sigma_start = 0`, `kappa_start = 1` and `pow 0 order = 0` give `a_E = a_H = 0` and
`1/κ_E = 1/κ_H = 1` there — for any `exp`, any end values and orders, any α. -/
theorem C12_default_inner_face (exp : K → K) (pow : K → K → K) (g : Grading K) (dt eps0 : K)
    (dp : (Nat → K) × (Nat → K) × K) (o : Nat) (hdE : dp.1 o = 0) (hdH : dp.2.1 o = 0)
    (hs : g.sigS = 0) (hk : g.kapS = 1) (hps : pow 0 g.sigO = 0) (hpk : pow 0 g.kapO = 0) :
    let c := coefArrays exp pow id g dt eps0 dp
    c.1 o = 0 ∧ c.2.2.1 o = 1 ∧ c.2.2.2.1 o = 0 ∧ c.2.2.2.2.2 o = 1 := by
  intro c
  refine ⟨?_, ?_, ?_, ?_⟩ <;>
    simp [c, coefArrays, hdE, hdH, profile_zero pow _ _ _ _ hps, profile_zero pow _ _ _ _ hpk, hs, hk, coefA_sigma_zero]

/-- the C03 hypothesis for a PML whose arrays come from `coefArrays` with the default inner face -/
theorem C12_default_ifaceCoef (exp : K → K) (pow : K → K → K) (g : Grading K) (dt eps0 : K)
    (dp : (Nat → K) × (Nat → K) × K) (q : Pml K) (hdE : dp.1 q.ifOff = 0) (hdH : dp.2.1 q.ifOff = 0)
    (hs : g.sigS = 0) (hk : g.kapS = 1) (hps : pow 0 g.sigO = 0) (hpk : pow 0 g.kapO = 0)
    (hq : (q.aE, q.bE, q.ikE, q.aH, q.bH, q.ikH) = coefArrays exp pow id g dt eps0 dp) : IfaceCoef q := by
  obtain ⟨h1, h2, h3, h4⟩ := C12_default_inner_face exp pow g dt eps0 dp q.ifOff hdE hdH hs hk hps hpk
  have e1 : q.aE = (coefArrays exp pow id g dt eps0 dp).1 := congrArg (·.1) hq
  have e3 : q.ikE = (coefArrays exp pow id g dt eps0 dp).2.2.1 := congrArg (·.2.2.1) hq
  have e4 : q.aH = (coefArrays exp pow id g dt eps0 dp).2.2.2.1 := congrArg (·.2.2.2.1) hq
  have e6 : q.ikH = (coefArrays exp pow id g dt eps0 dp).2.2.2.2.2 := congrArg (·.2.2.2.2.2) hq
  refine ⟨by rw [e1]; exact h1, by rw [e4]; exact h3, Or.inr ⟨by rw [e3]; exact h2, by rw [e6]; exact h4⟩⟩

/-- **C12_zero_profile_cell** (curl of E): at a cell where every PML containing it has zero profile and ψ_H = 0, the
corrected curl is the plain curl and ψ_H stays 0 -/
theorem C12_zero_profile_curlE (cf : Cfg K) (sim : Bool) (pmls : List (PmlSt K)) (E : V3 K) (i j k : Nat)
    (h : ∀ st ∈ pmls, st.p.box.mem i j k → CleanAt st.p (st.p.off i j k) ∧ st.h1 i j k = 0 ∧ st.h2 i j k = 0) :
    agree (curlEp cf sim pmls E) (curlE cf E) i j k ∧
    ∀ st ∈ pmls, st.p.box.mem i j k → (updPsiH cf sim E st).h1 i j k = 0 ∧ (updPsiH cf sim E st).h2 i j k = 0 := by
  have one : ∀ comp acc, ∀ st ∈ pmls, applyE cf sim E comp i j k acc st = acc := by
    intro comp acc st hst
    unfold applyE
    by_cases hm : st.p.box.mem i j k
    · obtain ⟨hc, z1, z2⟩ := h st hst hm
      simp only [hm, if_true, z1, z2, stepCpml1_clean _ _ _ _ _ hc]
      split_ifs <;> simp
    · simp [hm]
  refine ⟨⟨foldl_fixed _ _ _ (one 0 _), foldl_fixed _ _ _ (one 1 _), foldl_fixed _ _ _ (one 2 _)⟩, ?_⟩
  intro st hst hm
  obtain ⟨hc, z1, z2⟩ := h st hst hm
  simp only [updPsiH, hm, if_true, z1, z2, stepCpml1_clean _ _ _ _ _ hc, and_self]

/-- **C12_zero_profile_cell** (curl of H and the E update): with zero profile and ψ_E = 0 the E update of the cell is
exactly the plain Yee update `Yee.stepE`, and ψ_E stays 0 -/
theorem C12_zero_profile_stepE (cf : Cfg K) (m : Mat K) (jE : V3 K) (sim : Bool) (pmls : List (PmlSt K)) (E H : V3 K)
    (i j k : Nat)
    (h : ∀ st ∈ pmls, st.p.box.mem i j k → CleanAt st.p (st.p.off i j k) ∧ st.e1 i j k = 0 ∧ st.e2 i j k = 0) :
    agree (forwardP cf m jE (constV 0) sim pmls E H).1 (stepE cf m jE E H) i j k ∧
    ∀ st ∈ pmls, st.p.box.mem i j k → (updPsiE cf sim H st).e1 i j k = 0 ∧ (updPsiE cf sim H st).e2 i j k = 0 := by
  have one : ∀ comp acc, ∀ st ∈ pmls, applyH cf sim H comp i j k acc st = acc := by
    intro comp acc st hst
    unfold applyH
    by_cases hm : st.p.box.mem i j k
    · obtain ⟨hc, z1, z2⟩ := h st hst hm
      simp only [hm, if_true, z1, z2, stepCpml1_clean _ _ _ _ _ hc]
      split_ifs <;> simp
    · simp [hm]
  have hcu : agree (curlHp cf sim pmls H) (curlH cf H) i j k :=
    ⟨foldl_fixed _ _ _ (one 0 _), foldl_fixed _ _ _ (one 1 _), foldl_fixed _ _ _ (one 2 _)⟩
  obtain ⟨c1, c2, c3⟩ := hcu
  refine ⟨⟨?_, ?_, ?_⟩, ?_⟩
  · simp only [forwardP, updEwith, stepE, projE, maskV, addV, c1]
  · simp only [forwardP, updEwith, stepE, projE, maskV, addV, c2]
  · simp only [forwardP, updEwith, stepE, projE, maskV, addV, c3]
  · intro st hst hm
    obtain ⟨hc, z1, z2⟩ := h st hst hm
    simp only [updPsiE, hm, if_true, z1, z2, stepCpml1_clean _ _ _ _ _ hc, and_self]

/-- the ψ recursion of `step_cpml` with `simulate_boundaries = True` -/
theorem stepCpml1_psi (p : Pml K) (isE : Bool) (o : Nat) (d psi : K) :
    (stepCpml1 p isE true o d psi).2
      = (if isE then p.bH o else p.bE o) * psi + (if isE then p.aH o else p.aE o) * d := by
  simp [stepCpml1]

/-- with `simulate_boundaries = False` ψ is frozen -/
theorem stepCpml1_frozen (p : Pml K) (isE : Bool) (o : Nat) (d psi : K) : (stepCpml1 p isE false o d psi).2 = psi := by
  simp [stepCpml1]

end field

section ordered
variable {K : Type} [Field K] [LinearOrder K] [IsStrictOrderedRing K]

/-- sign of the exponent -/
theorem expArg_nonpos (dt eps0 sigma kappa alpha : K) (hdt : 0 ≤ dt) (he : 0 < eps0) (hs : 0 ≤ sigma) (hk : 0 < kappa)
    (ha : 0 ≤ alpha) : (0 - dt) / eps0 * (sigma / kappa + alpha) ≤ 0 := by
  have h1 : (0 - dt) / eps0 ≤ 0 := by
    apply div_nonpos_of_nonpos_of_nonneg <;> linarith
  have h2 : 0 ≤ sigma / kappa + alpha := by positivity
  exact mul_nonpos_of_nonpos_of_nonneg h1 h2

/-- **C12_b_range**: `0 < b ≤ 1` -/
theorem C12_b_range (exp : K → K) (hpos : ∀ x, 0 < exp x) (hle : ∀ x, x ≤ 0 → exp x ≤ 1)
    (dt eps0 sigma kappa alpha : K) (hdt : 0 ≤ dt) (he : 0 < eps0) (hs : 0 ≤ sigma) (hk : 0 < kappa) (ha : 0 ≤ alpha) :
    0 < coefB exp dt eps0 sigma kappa alpha ∧ coefB exp dt eps0 sigma kappa alpha ≤ 1 := by
  rw [coefB_eq]
  exact ⟨hpos _, hle _ (expArg_nonpos dt eps0 sigma kappa alpha hdt he hs hk ha)⟩

/-- `b < 1` strictly inside a lossy layer (strictly decreasing `exp`), which is the `b ≠ 1` of `C12_a_zero_iff` -/
theorem C12_b_lt_one (exp : K → K) (hlt : ∀ x, x < 0 → exp x < 1)
    (dt eps0 sigma kappa alpha : K) (hdt : 0 < dt) (he : 0 < eps0) (hs : 0 ≤ sigma) (hk : 0 < kappa) (ha : 0 ≤ alpha)
    (hpos : 0 < sigma ∨ 0 < alpha) : coefB exp dt eps0 sigma kappa alpha < 1 := by
  rw [coefB_eq]
  apply hlt
  have h1 : (0 - dt) / eps0 < 0 := by
    apply div_neg_of_neg_of_pos <;> linarith
  have h2 : 0 < sigma / kappa + alpha := by
    rcases hpos with h | h
    · have : 0 < sigma / kappa := div_pos h hk
      linarith
    · have : 0 ≤ sigma / kappa := div_nonneg hs hk.le
      linarith
  exact mul_neg_of_neg_of_pos h1 h2

/-- **C12_a_nonpos**: `a ≤ 0` -/
theorem C12_a_nonpos (b sigma kappa alpha : K) (hb : b ≤ 1) (hs : 0 ≤ sigma) (hk : 0 < kappa) (ha : 0 ≤ alpha) :
    coefA id b sigma kappa alpha ≤ 0 := by
  unfold coefA
  simp only [id]
  have h1 : (b - 1) * sigma ≤ 0 := mul_nonpos_of_nonpos_of_nonneg (by linarith) hs
  have h2 : 0 ≤ sigma + alpha * kappa := by positivity
  exact div_nonpos_of_nonpos_of_nonneg (div_nonpos_of_nonpos_of_nonneg h1 h2) hk.le

/-- **C12_profile_monotone**: deeper cells have larger profile values (start ≤ end, `pow · order` monotone on `[0, ∞)`) -/
theorem C12_profile_monotone (pow : K → K → K) (vs ve order norm d1 d2 : K)
    (hmono : ∀ x y, 0 ≤ x → x ≤ y → pow x order ≤ pow y order) (hv : vs ≤ ve) (hn : 0 < norm) (h0 : 0 ≤ d1)
    (h12 : d1 ≤ d2) : profile pow vs ve order norm d1 ≤ profile pow vs ve order norm d2 := by
  unfold profile
  have hx : d1 / norm ≤ d2 / norm := div_le_div_of_nonneg_right h12 hn.le
  have h1 : pow (d1 / norm) order ≤ pow (d2 / norm) order := hmono _ _ (div_nonneg h0 hn.le) hx
  have h2 : 0 ≤ ve - vs := by linarith
  nlinarith [mul_le_mul_of_nonneg_left h1 h2]

/-- **C12_depths_monotone** (uniform grid, `cast = Nat.cast`, `half = 1/2`): for "+" the depths of both sample sets
are non-decreasing in the cell index, for "-" non-increasing (cells inside the layer), and all depths are ≥ 0 -/
theorem C12_depths_monotone (plus : Bool) (L i i' : Nat) (hi : i ≤ i') (hL : i' < L) :
    let dp := depthsUniform (fun n : Nat => (n : K)) (1 / 2) plus L
    (if plus then dp.1 i ≤ dp.1 i' ∧ dp.2.1 i ≤ dp.2.1 i' else dp.1 i' ≤ dp.1 i ∧ dp.2.1 i' ≤ dp.2.1 i)
      ∧ 0 ≤ dp.1 i ∧ 0 ≤ dp.2.1 i := by
  have hhalf : (0 : K) ≤ 1 / 2 := by positivity
  cases plus
  · -- "-"
    simp only [depthsUniform, Bool.false_eq_true, if_false]
    have c1 : ((L - 1 - i' : Nat) : K) ≤ ((L - 1 - i : Nat) : K) := Nat.cast_le.2 (by omega)
    refine ⟨⟨c1, ?_⟩, Nat.cast_nonneg _, ?_⟩
    · by_cases e' : i' + 1 = L
      · by_cases e : i + 1 = L
        · simp [e, e']
        · simp only [e', e, if_true, if_false]
          have : (0 : K) ≤ ((L - 2 - i : Nat) : K) := Nat.cast_nonneg _
          linarith
      · have e : ¬ i + 1 = L := by omega
        simp only [e', e, if_false]
        have c2 : ((L - 2 - i' : Nat) : K) ≤ ((L - 2 - i : Nat) : K) := Nat.cast_le.2 (by omega)
        linarith
    · by_cases e : i + 1 = L
      · simp [e]
      · simp only [e, if_false]
        have : (0 : K) ≤ ((L - 2 - i : Nat) : K) := Nat.cast_nonneg _
        linarith
  · -- "+"
    simp only [depthsUniform, if_true]
    have c1 : ((i : Nat) : K) ≤ ((i' : Nat) : K) := Nat.cast_le.2 hi
    refine ⟨⟨?_, c1⟩, ?_, Nat.cast_nonneg _⟩
    · by_cases e : i = 0
      · by_cases e' : i' = 0
        · simp [e, e']
        · simp only [e, e', if_true, if_false]
          have : (0 : K) ≤ ((i' - 1 : Nat) : K) := Nat.cast_nonneg _
          linarith
      · have e' : ¬ i' = 0 := by omega
        simp only [e, e', if_false]
        have c2 : ((i - 1 : Nat) : K) ≤ ((i' - 1 : Nat) : K) := Nat.cast_le.2 (by omega)
        linarith
    · by_cases e : i = 0
      · simp [e]
      · simp only [e, if_false]
        have : (0 : K) ≤ ((i - 1 : Nat) : K) := Nat.cast_nonneg _
        linarith

/-- **C12_psi_contraction**: one ψ update is a contraction up to the forcing term: `|ψ'| ≤ b·|ψ| + |a|·|d|` -/
theorem C12_psi_contraction (p : Pml K) (isE : Bool) (o : Nat) (d psi : K)
    (hb : 0 ≤ (if isE then p.bH o else p.bE o)) :
    |(stepCpml1 p isE true o d psi).2|
      ≤ (if isE then p.bH o else p.bE o) * |psi| + |(if isE then p.aH o else p.aE o)| * |d| := by
  rw [stepCpml1_psi]
  calc |(if isE then p.bH o else p.bE o) * psi + (if isE then p.aH o else p.aE o) * d|
      ≤ |(if isE then p.bH o else p.bE o) * psi| + |(if isE then p.aH o else p.aE o) * d| := abs_add_le _ _
    _ = (if isE then p.bH o else p.bE o) * |psi| + |(if isE then p.aH o else p.aE o)| * |d| := by
        rw [abs_mul, abs_mul, abs_of_nonneg hb]

/-- with `b ≤ 1` and no forcing (`d = 0`, or `a = 0`) ψ does not grow -/
theorem C12_psi_nonexpansive (p : Pml K) (isE : Bool) (o : Nat) (psi : K)
    (hb0 : 0 ≤ (if isE then p.bH o else p.bE o)) (hb1 : (if isE then p.bH o else p.bE o) ≤ 1) :
    |(stepCpml1 p isE true o 0 psi).2| ≤ |psi| := by
  have h := C12_psi_contraction p isE o 0 psi hb0
  simp only [abs_zero, mul_zero, add_zero] at h
  have : (if isE then p.bH o else p.bE o) * |psi| ≤ 1 * |psi| := mul_le_mul_of_nonneg_right hb1 (abs_nonneg _)
  linarith

/-- **C12_absorbs_partial**.
FULL STATEMENT (NOT proved — not an algebraic fact; evaluated on the real code by the scenario oracle of the check):
  "with layers of ≥ 8 cells on every face and a zero-net-charge pulsed source, the energy left in the domain after the
   pulse has left is < 1e-6 of its peak, and the interior record differs from that of a much larger reference domain by
   < 1e-4 in relative energy, for every polarisation and face".
PROVED PART: every coefficient `place_on_grid` computes for a layer whose graded σ, κ, α are sign-correct
(σ ≥ 0, κ > 0, α ≥ 0 at every sample depth) is dissipative: `0 < b ≤ 1` and `a ≤ 0` for the E and for the H arrays, so
each ψ recursion is a contraction (`C12_psi_contraction`) driven with a non-positive gain. What is missing is the
reflection analysis of the graded discrete layer (all angles, evanescent waves, corner regions). -/
theorem C12_absorbs_partial (exp : K → K) (pow : K → K → K) (hpos : ∀ x, 0 < exp x) (hle : ∀ x, x ≤ 0 → exp x ≤ 1)
    (g : Grading K) (dt eps0 : K) (hdt : 0 ≤ dt) (he : 0 < eps0) (dp : (Nat → K) × (Nat → K) × K)
    (hs : ∀ d, 0 ≤ profile pow g.sigS g.sigE g.sigO dp.2.2 d) (hk : ∀ d, 0 < profile pow g.kapS g.kapE g.kapO dp.2.2 d)
    (ha : ∀ d, 0 ≤ profile pow g.alS g.alE g.alO dp.2.2 d) (i : Nat) :
    let c := coefArrays exp pow id g dt eps0 dp
    (0 < c.2.1 i ∧ c.2.1 i ≤ 1 ∧ c.1 i ≤ 0) ∧ (0 < c.2.2.2.2.1 i ∧ c.2.2.2.2.1 i ≤ 1 ∧ c.2.2.2.1 i ≤ 0) := by
  intro c
  have key : ∀ d : K,
      0 < coefB exp dt eps0 (profile pow g.sigS g.sigE g.sigO dp.2.2 d) (profile pow g.kapS g.kapE g.kapO dp.2.2 d)
        (profile pow g.alS g.alE g.alO dp.2.2 d) ∧
      coefB exp dt eps0 (profile pow g.sigS g.sigE g.sigO dp.2.2 d) (profile pow g.kapS g.kapE g.kapO dp.2.2 d)
        (profile pow g.alS g.alE g.alO dp.2.2 d) ≤ 1 ∧
      coefA id (coefB exp dt eps0 (profile pow g.sigS g.sigE g.sigO dp.2.2 d)
        (profile pow g.kapS g.kapE g.kapO dp.2.2 d) (profile pow g.alS g.alE g.alO dp.2.2 d))
        (profile pow g.sigS g.sigE g.sigO dp.2.2 d) (profile pow g.kapS g.kapE g.kapO dp.2.2 d)
        (profile pow g.alS g.alE g.alO dp.2.2 d) ≤ 0 := by
    intro d
    obtain ⟨b0, b1⟩ := C12_b_range exp hpos hle dt eps0 _ _ _ hdt he (hs d) (hk d) (ha d)
    exact ⟨b0, b1, C12_a_nonpos _ _ _ _ b1 (hs d) (hk d) (ha d)⟩
  exact ⟨key (dp.1 i), key (dp.2.1 i)⟩

end ordered


/-! ### non-vacuity -/

/-- the sign hypotheses of `C12_b_range` / `C12_a_nonpos` are met by concrete numbers, with `exp x = 1 / (1 - x)` on
`x ≤ 0` standing in for a function with `0 < exp x ≤ 1` there -/
example : 0 < coefB (fun x : ℚ => if x ≤ 0 then 1 / (1 - x) else 1) 1 2 3 1 (1 / 2)
    ∧ coefB (fun x : ℚ => if x ≤ 0 then 1 / (1 - x) else 1) 1 2 3 1 (1 / 2) ≤ 1 := by
  norm_num [coefB]

example : coefA id (4 / 11 : ℚ) 3 1 (1 / 2) ≤ 0 ∧ coefA id (4 / 11 : ℚ) 3 1 (1 / 2) ≠ 0 := by
  norm_num [coefA]

/-- default-grading arrays of a 3-cell "-" layer on a uniform grid: clean inner face (offset 2) -/
def exArrays : (Nat → ℚ) × (Nat → ℚ) × (Nat → ℚ) × (Nat → ℚ) × (Nat → ℚ) × (Nat → ℚ) :=
  coefArrays (fun x : ℚ => 1 / (1 - x)) (fun x _ => x * x * x) id ⟨0, 5, 3, 1, 1, 3, 1 / 100, 0, 1⟩ 1 2
    (depthsUniform (fun n => (n : ℚ)) (1 / 2) false 3)

example : exArrays.1 2 = 0 ∧ exArrays.2.2.1 2 = 1 ∧ exArrays.2.2.2.1 2 = 0 ∧ exArrays.2.2.2.2.2 2 = 1
    ∧ exArrays.1 0 ≠ 0 := by
  norm_num [exArrays, coefArrays, coefA, coefB, profile, depthsUniform]

end Fdtdx.C12
