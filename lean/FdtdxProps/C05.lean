/-
C05 — Forward results do not depend on the gradient strategy; the reversible slice boundaries partition the run.

Theorems about `FdtdxModel/C05.lean` (every total step count T, every slice count k, every step function
`body`, every container — nothing is bounded):

  C05_partition                 1 ≤ k ≤ T: k+1 boundaries, first 0, last T, strictly increasing (so all k
                                slices are non-empty), as indices and as the Python list
  C05_partition_zero            the edge case T = 0, k = 1 accepted by `reversible_fdtd`: boundaries [0, 0]
  C05_boundaries_weak           every k ≥ 1 (also k > T): first 0, last T, weakly increasing
  C05_segmented_eq_iterate      `segmented_forward` = `forward` iterated T times from step 0, for every k ≥ 1
  C05_checkpoints               its i-th checkpoint is the state after exactly s_{i+1} steps
  C05_checkpointed_eq_iterate   the TimeStepCondition while loop = `forward` iterated T times
  C05_iterate_eq_foldl          "iterated T times" = steps 0,1,…,T-1 applied once each, in this order
  C05_strategy_independent      run_fdtd under None / checkpointed(n) / reversible(c) (c = 0 or c+1 ≤ T) returns
                                the same (final step count, arrays), the step count being T
  C05_reversible_rejects        c > 0 ∧ c + 1 > T is the error branch (no result to compare)
  C05_recording_invisible       strategies whose step functions differ only in state that the fields/detectors
                                never read (boundary recording: `record_boundaries = invertible_optimization`)
                                give the same observable result

Hypothesis of the model (not of the theorems): Python's binary64 `i*T/k` followed by `round` equals
half-to-even rounding of the exact rational; K checks this exhaustively for T ≤ 40 (thorough 200), all k.
-/
import FdtdxLemmas.C05

namespace Fdtdx.C05

/-! ### the slice boundaries -/

theorem boundary_zero (T k : Nat) (hk : 1 ≤ k) : boundary T k 0 = 0 := by
  unfold boundary; rw [Nat.zero_mul]; exact roundHalfEven_zero k hk

theorem boundary_last (T k : Nat) (hk : 1 ≤ k) : boundary T k k = T := by
  unfold boundary; exact roundHalfEven_mul T k hk

theorem boundary_mono_step (T k i : Nat) (hk : 1 ≤ k) : boundary T k i ≤ boundary T k (i + 1) := by
  unfold boundary
  exact roundHalfEven_mono _ _ k hk (Nat.mul_le_mul_right T (Nat.le_succ i))

/-- consecutive boundaries differ by at least one when there are at most as many slices as steps -/
theorem boundary_strict_step (T k i : Nat) (hk : 1 ≤ k) (hkT : k ≤ T) :
    boundary T k i < boundary T k (i + 1) := by
  unfold boundary
  have hb1 := (roundHalfEven_bounds (i * T) k hk).1
  have hb2 := (roundHalfEven_bounds ((i + 1) * T) k hk).2
  have hexp : (i + 1) * T = i * T + T := by ring
  rcases Nat.eq_or_lt_of_le hkT with heq | hlt
  · -- T = k: both quotients are exact
    subst heq
    rw [Nat.mul_comm i k, Nat.mul_comm (i + 1) k, roundHalfEven_mul _ _ hk, roundHalfEven_mul _ _ hk]
    exact Nat.lt_succ_self i
  · -- T > k: the two roundings are more than 0 apart
    rw [hexp] at hb2 ⊢
    have : 2 * (k * roundHalfEven (i * T) k) < 2 * (k * roundHalfEven (i * T + T) k) := by omega
    exact Nat.lt_of_mul_lt_mul_left (Nat.lt_of_mul_lt_mul_left this)

theorem boundary_strictMono (T k : Nat) (hk : 1 ≤ k) (hkT : k ≤ T) (i j : Nat) (hij : i < j) :
    boundary T k i < boundary T k j := by
  induction j with
  | zero => omega
  | succ j ih =>
    rcases Nat.eq_or_lt_of_le (Nat.le_of_lt_succ hij) with h | h
    · subst h; exact boundary_strict_step T k i hk hkT
    · exact Nat.lt_trans (ih h) (boundary_strict_step T k j hk hkT)

theorem boundary_mono (T k : Nat) (hk : 1 ≤ k) (i j : Nat) (hij : i ≤ j) :
    boundary T k i ≤ boundary T k j := by
  induction j with
  | zero => have : i = 0 := by omega
            subst this; exact Nat.le_refl _
  | succ j ih =>
    rcases Nat.eq_or_lt_of_le hij with h | h
    · subst h; exact Nat.le_refl _
    · exact Nat.le_trans (ih (by omega)) (boundary_mono_step T k j hk)

theorem sliceBoundaries_length (T k : Nat) : (sliceBoundaries T k).length = k + 1 := by
  simp [sliceBoundaries]

theorem sliceBoundaries_get (T k i : Nat) (hi : i < (sliceBoundaries T k).length) :
    (sliceBoundaries T k)[i] = boundary T k i := by
  simp [sliceBoundaries]

/-- **C05 (partition)**: for `1 ≤ k ≤ T` the list returned by `_reversible_slice_boundaries(T, k)` has `k+1`
entries, starts at 0, ends at T and is strictly increasing — the k slices are non-empty and tile `[0, T]`. -/
theorem C05_partition (T k : Nat) (hk : 1 ≤ k) (hkT : k ≤ T) :
    (sliceBoundaries T k).length = k + 1
    ∧ (sliceBoundaries T k).head? = some 0
    ∧ (sliceBoundaries T k).getLast? = some T
    ∧ List.Pairwise (· < ·) (sliceBoundaries T k)
    ∧ (∀ i, i < k → boundary T k i < boundary T k (i + 1)) := by
  refine ⟨sliceBoundaries_length T k, ?_, ?_, ?_, fun i _ => boundary_strict_step T k i hk hkT⟩
  · simp [sliceBoundaries, List.range_succ_eq_map, boundary_zero T k hk]
  · simp [sliceBoundaries, List.range_succ, boundary_last T k hk]
  · unfold sliceBoundaries
    rw [List.pairwise_map]
    have hr := List.pairwise_lt_range (n := k + 1)
    exact hr.imp (fun {a b} hab => boundary_strictMono T k hk hkT a b hab)

/-- the only other input `reversible_fdtd` accepts: no interior checkpoint and an empty run -/
theorem C05_partition_zero : sliceBoundaries 0 1 = [0, 0] := by decide

/-- for every slice count (also the rejected `k > T`): first 0, last T, weakly increasing -/
theorem C05_boundaries_weak (T k : Nat) (hk : 1 ≤ k) :
    boundary T k 0 = 0 ∧ boundary T k k = T ∧ ∀ i j, i ≤ j → boundary T k i ≤ boundary T k j :=
  ⟨boundary_zero T k hk, boundary_last T k hk, boundary_mono T k hk⟩

/-! ### the segmented loop -/

section loops
variable {σ : Type}

/-- state after the first `seg` slices = `forward` iterated `s_seg` times -/
theorem segState_eq (b : Nat → Nat) (hb0 : b 0 = 0) (hmono : ∀ i, b i ≤ b (i + 1))
    (body : Nat → σ → σ) (a : σ) (seg : Nat) :
    segState b body (0, a) seg = (step body)^[b seg] (0, a) := by
  induction seg with
  | zero => rw [hb0]; rfl
  | succ seg ih =>
    unfold segState
    rw [ih]
    have hfst : ((step body)^[b seg] (0, a)).1 = b seg := by rw [step_iterate_fst]; simp
    rw [whileLoop_until body (b (seg + 1)) _ _ (by rw [hfst]), hfst, ← Function.iterate_add_apply]
    congr 1
    have := hmono seg; omega

/-- **C05 (segmented forward)**: for every T and every slice count k ≥ 1, `segmented_forward` returns exactly
`forward` iterated T times from (0, arrays). -/
theorem C05_segmented_eq_iterate (T k : Nat) (hk : 1 ≤ k) (body : Nat → σ → σ) (a : σ) :
    (segmentedForward T k body a).1 = (step body)^[T] (0, a) := by
  unfold segmentedForward
  simp only
  rw [segState_eq (boundary T k) (boundary_zero T k hk) (fun i => boundary_mono_step T k i hk), boundary_last T k hk]

/-- the checkpoints are the arrays after exactly `s_1, …, s_{k-1}` steps -/
theorem C05_checkpoints (T k : Nat) (hk : 1 ≤ k) (body : Nat → σ → σ) (a : σ) :
    (segmentedForward T k body a).2
      = (List.range (k - 1)).map (fun i => ((step body)^[boundary T k (i + 1)] (0, a)).2) := by
  unfold segmentedForward checkpointsOf
  simp only
  apply List.map_congr_left
  intro i _
  rw [segState_eq (boundary T k) (boundary_zero T k hk) (fun i => boundary_mono_step T k i hk)]

/-- **C05 (checkpointed / no gradient)**: the while loop with TimeStepCondition and `max_steps = T` is
`forward` iterated T times. -/
theorem C05_checkpointed_eq_iterate (T : Nat) (reset : σ → σ) (body : Nat → σ → σ) (a : σ) :
    checkpointedRun T (timeStepCond T) reset body a = (step body)^[T] (0, reset a) := by
  unfold checkpointedRun
  have := whileLoop_until body T T (0, reset a) (by simp)
  have hc : timeStepCond (σ := σ) T = fun s => decide (T > s.1) := rfl
  rw [hc, this]
  rfl

/-- "iterated T times from step 0" means: steps 0, 1, …, T-1, once each, in this order; the counter ends at T -/
theorem C05_iterate_eq_foldl (body : Nat → σ → σ) (a : σ) (T : Nat) :
    (step body)^[T] (0, a) = (T, (List.range T).foldl (fun acc t => body t acc) a) := by
  induction T with
  | zero => rfl
  | succ T ih =>
    rw [Function.iterate_succ_apply', ih, List.range_succ, List.foldl_append]
    rfl

/-- inputs that `run_fdtd` accepts without a custom stopping condition -/
def validGrad (T : Nat) : Grad → Prop
  | .none => True
  | .checkpointed _ => True
  | .reversible c => c = 0 ∨ c + 1 ≤ T

/-- **C05 (strategy independence)**: for every gradient configuration that `run_fdtd` accepts (any number of
checkpoints; any number c of reversible checkpoints with c = 0 or c + 1 ≤ T) the returned step count is T and
the returned arrays are the reset container advanced by steps 0 … T-1 — the same value for all of them. -/
theorem C05_strategy_independent (T : Nat) (g : Grad) (hg : validGrad T g)
    (reset : σ → σ) (body : Nat → σ → σ) (a : σ) :
    runFdtd T g none false reset body a
      = .ok (T, (List.range T).foldl (fun acc t => body t acc) (reset a)) := by
  rw [← C05_iterate_eq_foldl]
  cases g with
  | none => simp [runFdtd, C05_checkpointed_eq_iterate]
  | checkpointed n => simp [runFdtd, C05_checkpointed_eq_iterate]
  | reversible c =>
    have hv : ¬ (c > 0 ∧ c + 1 > T) := by
      unfold validGrad at hg; omega
    simp only [runFdtd, reversibleRun, Bool.false_eq_true, if_false, if_neg hv]
    rw [C05_segmented_eq_iterate T (c + 1) (by omega)]

/-- two accepted configurations give equal results (the property as stated: pairwise equality) -/
theorem C05_strategy_pairwise (T : Nat) (g g' : Grad) (hg : validGrad T g) (hg' : validGrad T g')
    (reset : σ → σ) (body : Nat → σ → σ) (a : σ) :
    runFdtd T g none false reset body a = runFdtd T g' none false reset body a := by
  rw [C05_strategy_independent T g hg, C05_strategy_independent T g' hg']

/-- the rejected reversible configurations are exactly `c > 0 ∧ c + 1 > T` -/
theorem C05_reversible_rejects (T c : Nat) (reset : σ → σ) (body : Nat → σ → σ) (a : σ) :
    (∃ e, runFdtd T (.reversible c) none false reset body a = .error e) ↔ (c > 0 ∧ c + 1 > T) := by
  constructor
  · rintro ⟨e, he⟩
    by_contra hv
    have hg : validGrad T (.reversible c) := by unfold validGrad; omega
    rw [C05_strategy_independent T _ hg] at he
    cases he
  · intro hv
    exact ⟨"num_checkpoints_reversible", by simp [runFdtd, reversibleRun, hv]⟩

/-- a custom stopping condition together with a gradient configuration is rejected -/
theorem C05_stopping_with_gradient_rejected (T n : Nat) (c : Nat × σ → Bool)
    (reset : σ → σ) (body : Nat → σ → σ) (a : σ) :
    runFdtd T (.checkpointed n) (some c) false reset body a = .error "NotImplementedError"
    ∧ runFdtd T (.reversible n) (some c) false reset body a = .error "NotImplementedError" := by
  constructor <;> rfl

/-- **C05 (write-only state)**: the step functions of two strategies may differ in state that is never read
back (`record_boundaries = config.invertible_optimization` writes the recording buffers).  If `obs` (fields,
detector states) of the next state depends only on `obs` of the current one, the observable results agree after
any number of steps. -/
theorem C05_recording_invisible {O : Type} (obs : σ → O) (body body' : Nat → σ → σ)
    (h : ∀ t a a', obs a = obs a' → obs (body t a) = obs (body' t a')) (a a' : σ) (ha : obs a = obs a') (T : Nat) :
    ((step body)^[T] (0, a)).1 = ((step body')^[T] (0, a')).1
    ∧ obs ((step body)^[T] (0, a)).2 = obs ((step body')^[T] (0, a')).2 := by
  rw [C05_iterate_eq_foldl, C05_iterate_eq_foldl]
  refine ⟨rfl, ?_⟩
  simp only
  induction T with
  | zero => exact ha
  | succ T ih =>
    rw [List.range_succ, List.foldl_append, List.foldl_append]
    exact h _ _ _ ih

end loops

/-! ### non-vacuity and samples -/

example : 1 ≤ 4 ∧ 4 ≤ 10 ∧ sliceBoundaries 10 4 = [0, 2, 5, 8, 10] := by decide   -- 2.5 → 2, 7.5 → 8
example : sliceBoundaries 7 7 = [0, 1, 2, 3, 4, 5, 6, 7] := by decide
example : validGrad 10 (.reversible 9) ∧ validGrad 0 (.reversible 0) ∧ ¬ validGrad 3 (.reversible 3) := by
  unfold validGrad; omega
-- the loop really runs: a logging body sees 0..4 under every strategy
example : runFdtd 5 (.reversible 2) none false (fun _ => []) logBody [9] = .ok (5, [0, 1, 2, 3, 4]) := by decide
example : runFdtd 5 (.checkpointed 3) none false (fun _ => []) logBody [9] = .ok (5, [0, 1, 2, 3, 4]) := by decide
-- k > T would give empty slices (and is rejected): the strictness hypothesis k ≤ T is needed
example : sliceBoundaries 2 3 = [0, 1, 1, 2] := by decide

end Fdtdx.C05
