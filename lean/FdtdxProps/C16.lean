/-
C16 — Detector reductions are consistent with their spatial records.

Property theorems about `FdtdxModel/C16.lean`, for every region shape (finite sums over any `n0 × n1 × n2`), every
field, every weight array (uniform or not), over any field `K`:

  C16_field_reduced_is_weighted_mean     reduced FieldDetector record = volume-weighted mean of the spatial record
  C16_wmean_const                        … and that mean is normalised (constant ↦ the constant when Σvol ≠ 0)
  C16_energy_reduced_is_sum              reduced EnergyDetector record = Σ energy density · cell volume
  C16_phasor_reduced_is_weighted_mean    after ANY sequence of accumulation steps (forward or inverse time, any phasor
                                         factors) the reduced phasor state = volume-weighted mean of the spatial state
  C16_poynting_reduced_is_area_sum       reduced Poynting record = Σ spatial flux · face area (per component)
  C16_poynting_minus_negates(_spatial)   direction "-" = − direction "+"
  C16_poynting_single_is_component(_spatial)   single-component output = propagation component of the all-component one
  C16_closed_is_signed_sum_of_faces      closed-surface net flux = Σ over the active axes of the readings of a
                                         single-plane reduced detector on the max face (direction +) and on the min
                                         face (direction −); C16_closed_inward_negates
  C16_inverse_undoes_forward, C16_inverse_subtracts_what_forward_adds   phasor accumulation in inverse time
  C16_face_is_restriction                a stored face of the closed-surface phasor detector accumulates exactly the
                                         restriction of the PhasorDetector increment to that face
  C16_closed_phasor_is_signed_sum_of_faces   compute_net_flux = signed sum of the single-plane phasor fluxes of its faces
-/
import FdtdxModel.C16
import Mathlib.Tactic.Ring
import Mathlib.Tactic.FieldSimp
import Mathlib.Tactic.Linarith
import Mathlib.Algebra.Field.Basic

set_option linter.unusedSectionVars false

namespace Fdtdx.C16

variable {K : Type} [Field K]

/-! ### finite sums -/

theorem sumN_add (n : Nat) (f g : Nat → K) : sumN n (fun i => f i + g i) = sumN n f + sumN n g := by
  induction n with
  | zero => simp [sumN]
  | succ n ih => simp only [sumN, ih]; ring

theorem sumN_neg (n : Nat) (f : Nat → K) : sumN n (fun i => -f i) = -sumN n f := by
  induction n with
  | zero => simp [sumN]
  | succ n ih => simp only [sumN, ih]; ring

theorem sumN_sub (n : Nat) (f g : Nat → K) : sumN n (fun i => f i - g i) = sumN n f - sumN n g := by
  induction n with
  | zero => simp [sumN]
  | succ n ih => simp only [sumN, ih]; ring

theorem sumN_mul_right (n : Nat) (f : Nat → K) (c : K) : sumN n (fun i => f i * c) = sumN n f * c := by
  induction n with
  | zero => simp [sumN]
  | succ n ih => simp only [sumN, ih]; ring

theorem sumN_congr (n : Nat) (f g : Nat → K) (h : ∀ i, i < n → f i = g i) : sumN n f = sumN n g := by
  induction n with
  | zero => simp [sumN]
  | succ n ih =>
    simp only [sumN]
    rw [ih (fun i hi => h i (by omega)), h n (by omega)]

theorem sumN_one (f : Nat → K) : sumN 1 f = f 0 := by simp [sumN]

theorem sum3_add (n : Shape) (f g : G3 K) : sum3 n (fun i j k => f i j k + g i j k) = sum3 n f + sum3 n g := by
  simp only [sum3, sumN_add]

theorem sum3_neg (n : Shape) (f : G3 K) : sum3 n (fun i j k => -f i j k) = -sum3 n f := by
  simp only [sum3, sumN_neg]

theorem sum3_sub (n : Shape) (f g : G3 K) : sum3 n (fun i j k => f i j k - g i j k) = sum3 n f - sum3 n g := by
  simp only [sum3, sumN_sub]

theorem sum3_mul_right (n : Shape) (f : G3 K) (c : K) : sum3 n (fun i j k => f i j k * c) = sum3 n f * c := by
  simp only [sum3, sumN_mul_right]

/-! ### weighted mean -/

theorem wmean_add (n : Shape) (vol x y : G3 K) :
    wmean n vol (fun i j k => x i j k + y i j k) = wmean n vol x + wmean n vol y := by
  simp only [wmean]
  rw [← add_div, ← sum3_add]
  congr 2; funext i j k; ring

theorem wmean_sub (n : Shape) (vol x y : G3 K) :
    wmean n vol (fun i j k => x i j k - y i j k) = wmean n vol x - wmean n vol y := by
  simp only [wmean]
  rw [← sub_div, ← sum3_sub]
  congr 2; funext i j k; ring

theorem wmean_mul_right (n : Shape) (vol x : G3 K) (c : K) :
    wmean n vol (fun i j k => x i j k * c) = wmean n vol x * c := by
  simp only [wmean]
  rw [div_mul_eq_mul_div, ← sum3_mul_right]
  congr 2; funext i j k; ring

/-- C16_wmean_const: the weighted mean is normalised. -/
theorem C16_wmean_const (n : Shape) (vol : G3 K) (c : K) (h : sum3 n vol ≠ 0) :
    wmean n vol (fun _ _ _ => c) = c := by
  simp only [wmean]
  have : sum3 n (fun i j k => c * vol i j k) = sum3 n vol * c := by
    rw [← sum3_mul_right]; congr 1; funext i j k; ring
  rw [this]; field_simp

example : sum3 (2, 1, 2) (fun i _ k => ((i + 2 * k + 1 : Nat) : ℚ)) ≠ 0 := by
  simp [sum3, sumN]; norm_num

/-! ### Field / Energy -/

/-- C16_field_reduced_is_weighted_mean: slot by slot, the reduced record is the volume-weighted mean of the spatial
record of the same component selection (same canonical order). -/
theorem C16_field_reduced_is_weighted_mean (n : Shape) (vol : G3 K) (mask : List Bool) (E H : Nat → G3 K) :
    fieldReduced n vol mask E H = (fieldSpatial mask E H).map (fun x => sum3 n (fun i j k => x i j k * vol i j k) / sum3 n vol)
    ∧ (fieldSpatial mask E H).length = (selected mask).length := by
  constructor
  · rfl
  · simp [fieldSpatial]

/-- the canonical stacking order does not depend on the order in which components were requested -/
example : selected [false, true, false, false, false, true] = [1, 5] ∧ selected [true, true, true, true, true, true] = [0, 1, 2, 3, 4, 5] := by
  decide

/-- C16_energy_reduced_is_sum -/
theorem C16_energy_reduced_is_sum (n : Shape) (vol : G3 K) (E H ie im : Nat → G3 K) :
    energyReduced n vol E H ie im = sum3 n (fun i j k => energyDensity E H ie im i j k * vol i j k) := rfl

/-- with equal cell volumes `v` the reduced energy is `v · Σ density` -/
theorem C16_energy_reduced_uniform (n : Shape) (v : K) (E H ie im : Nat → G3 K) :
    energyReduced n (fun _ _ _ => v) E H ie im = sum3 n (energyDensity E H ie im) * v := by
  rw [C16_energy_reduced_is_sum, sum3_mul_right]

/-! ### Phasor: reduced state = weighted mean of the spatial state, after any history -/

/-- one recorded step: time direction, fields, phasor factors -/
structure Step (K : Type) where
  inverse : Bool
  E : Nat → G3 K
  H : Nat → G3 K
  ph : Nat → Cx K

def spatialRun (sel : List Nat) (s : Nat → Nat → G3 (Cx K)) : List (Step K) → (Nat → Nat → G3 (Cx K))
  | [] => s
  | st :: rest => spatialRun sel (phasorSpatialStep st.inverse sel st.E st.H st.ph s) rest

def reducedRun (n : Shape) (vol : G3 K) (sel : List Nat) (s : Nat → Nat → Cx K) : List (Step K) → (Nat → Nat → Cx K)
  | [] => s
  | st :: rest => reducedRun n vol sel (phasorReducedStep n vol st.inverse sel st.E st.H st.ph s) rest

/-- the reduced state is the weighted mean (real and imaginary part) of the spatial state -/
def MeanOf (n : Shape) (vol : G3 K) (r : Nat → Nat → Cx K) (s : Nat → Nat → G3 (Cx K)) : Prop :=
  ∀ f q, (r f q).re = wmean n vol (fun i j k => (s f q i j k).re) ∧ (r f q).im = wmean n vol (fun i j k => (s f q i j k).im)

theorem meanOf_step (n : Shape) (vol : G3 K) (sel : List Nat) (st : Step K) (r : Nat → Nat → Cx K)
    (s : Nat → Nat → G3 (Cx K)) (h : MeanOf n vol r s) :
    MeanOf n vol (phasorReducedStep n vol st.inverse sel st.E st.H st.ph r) (phasorSpatialStep st.inverse sel st.E st.H st.ph s) := by
  intro f q
  obtain ⟨h1, h2⟩ := h f q
  unfold phasorReducedStep phasorSpatialStep cstep
  cases st.inverse
  · simp only [Bool.false_eq_true, if_false]
    rw [wmean_add, wmean_add, h1, h2]
    exact ⟨rfl, rfl⟩
  · simp only [if_true]
    rw [wmean_sub, wmean_sub, h1, h2]
    exact ⟨rfl, rfl⟩

/-- C16_phasor_reduced_is_weighted_mean: for any history of forward / inverse accumulation steps, any frequencies and
any component selection, starting from related states (e.g. both zero). -/
theorem C16_phasor_reduced_is_weighted_mean (n : Shape) (vol : G3 K) (sel : List Nat) (steps : List (Step K))
    (r : Nat → Nat → Cx K) (s : Nat → Nat → G3 (Cx K)) (h : MeanOf n vol r s) :
    MeanOf n vol (reducedRun n vol sel r steps) (spatialRun sel s steps) := by
  induction steps generalizing r s with
  | nil => exact h
  | cons st rest ih => exact ih _ _ (meanOf_step n vol sel st r s h)

/-- the zero states are related (whatever the weights) -/
theorem meanOf_zero (n : Shape) (vol : G3 K) : MeanOf n vol (fun _ _ => ⟨0, 0⟩) (fun _ _ _ _ _ => ⟨0, 0⟩) := by
  intro f q
  have : wmean n vol (fun _ _ _ => (0 : K)) = 0 := by
    have := wmean_sub n vol (fun _ _ _ => (0 : K)) (fun _ _ _ => 0)
    simpa using this
  exact ⟨this.symm, this.symm⟩

/-- C16_inverse_subtracts_what_forward_adds -/
theorem C16_inverse_subtracts_what_forward_adds (s : Cx K) (x : K) (ph : Cx K) :
    (cstep false s x ph).re = s.re + x * ph.re ∧ (cstep false s x ph).im = s.im + x * ph.im
    ∧ (cstep true s x ph).re = s.re - x * ph.re ∧ (cstep true s x ph).im = s.im - x * ph.im := by
  simp [cstep]

/-- C16_inverse_undoes_forward: an inverse-time accumulation of the same sample restores the state (both orders),
cell by cell for the spatial detector. -/
theorem C16_inverse_undoes_forward (sel : List Nat) (E H : Nat → G3 K) (ph : Nat → Cx K) (s : Nat → Nat → G3 (Cx K)) :
    phasorSpatialStep true sel E H ph (phasorSpatialStep false sel E H ph s) = s
    ∧ phasorSpatialStep false sel E H ph (phasorSpatialStep true sel E H ph s) = s := by
  constructor <;> (funext f q i j k; simp [phasorSpatialStep, cstep])

theorem C16_inverse_undoes_forward_reduced (n : Shape) (vol : G3 K) (sel : List Nat) (E H : Nat → G3 K) (ph : Nat → Cx K)
    (s : Nat → Nat → Cx K) :
    phasorReducedStep n vol true sel E H ph (phasorReducedStep n vol false sel E H ph s) = s := by
  funext f q; simp [phasorReducedStep]

/-! ### Poynting -/

/-- C16_poynting_reduced_is_area_sum: component by component, reduced = Σ spatial · area. -/
theorem C16_poynting_reduced_is_area_sum (n : Shape) (area : Nat → G3 K) (minus : Bool) (axis : Nat) (E H : Nat → G3 K) :
    poyntingReduced n area minus true axis E H
      = (List.range 3).map (fun c => sum3 n (fun i j k => ((poyntingSpatial minus true axis E H).getD c (fun _ _ _ => 0)) i j k * area c i j k))
    ∧ poyntingReduced n area minus false axis E H
      = [sum3 n (fun i j k => ((poyntingSpatial minus false axis E H).getD 0 (fun _ _ _ => 0)) i j k * area axis i j k)] := by
  constructor
  · simp [poyntingReduced, poyntingSpatial, List.range, List.range.loop]
  · simp [poyntingReduced, poyntingSpatial]

/-- C16_poynting_minus_negates: reduced records. -/
theorem C16_poynting_minus_negates (n : Shape) (area : Nat → G3 K) (keepAll : Bool) (axis : Nat) (E H : Nat → G3 K) :
    poyntingReduced n area true keepAll axis E H = (poyntingReduced n area false keepAll axis E H).map (fun x => -x) := by
  have key : ∀ c, sum3 n (fun i j k => sgn true (cross E H c i j k) * area c i j k)
      = -sum3 n (fun i j k => sgn false (cross E H c i j k) * area c i j k) := by
    intro c
    rw [← sum3_neg]; congr 1; funext i j k; simp [sgn]
  cases keepAll <;> simp [poyntingReduced, key]

/-- C16_poynting_minus_negates_spatial: every cell of every component. -/
theorem C16_poynting_minus_negates_spatial (keepAll : Bool) (axis : Nat) (E H : Nat → G3 K) :
    poyntingSpatial true keepAll axis E H = (poyntingSpatial false keepAll axis E H).map (fun g => fun i j k => -g i j k) := by
  cases keepAll <;> simp [poyntingSpatial, sgn]

/-- C16_poynting_single_is_component: reduced. -/
theorem C16_poynting_single_is_component (n : Shape) (area : Nat → G3 K) (minus : Bool) (axis : Nat) (h : axis < 3)
    (E H : Nat → G3 K) :
    poyntingReduced n area minus false axis E H = [(poyntingReduced n area minus true axis E H).getD axis 0] := by
  have h' : axis = 0 ∨ axis = 1 ∨ axis = 2 := by omega
  rcases h' with rfl | rfl | rfl <;> simp [poyntingReduced, List.range, List.range.loop]

/-- C16_poynting_single_is_component_spatial -/
theorem C16_poynting_single_is_component_spatial (minus : Bool) (axis : Nat) (h : axis < 3) (E H : Nat → G3 K) :
    poyntingSpatial minus false axis E H = [(poyntingSpatial minus true axis E H).getD axis (fun _ _ _ => 0)] := by
  have h' : axis = 0 ∨ axis = 1 ∨ axis = 2 := by omega
  rcases h' with rfl | rfl | rfl <;> simp [poyntingSpatial]

/-! ### closed surface -/

/-- restriction of a 3-component field to the plane `index a = idx` -/
def restrict (a idx : Nat) (F : Nat → G3 K) : Nat → G3 K := fun c => fixAx a idx (F c)

/-- reading of a reduced single-plane PoyntingFluxDetector (propagation axis `a`, given direction) sitting on the plane
`index a = idx` of the box, fed with the fields and face areas of that plane -/
def planeFlux (n : Shape) (area : Nat → G3 K) (a idx : Nat) (minus : Bool) (E H : Nat → G3 K) : K :=
  (poyntingReduced (shape1 n a) (restrict a idx area) minus false a (restrict a idx E) (restrict a idx H)).getD 0 0

theorem cross_restrict (a idx : Nat) (E H : Nat → G3 K) (c : Nat) :
    cross (restrict a idx E) (restrict a idx H) c = fixAx a idx (cross E H c) := by
  funext i j k
  rcases c with _ | _ | c <;> rcases a with _ | _ | a <;> simp [cross, restrict, fixAx]

theorem planeFlux_plus (n : Shape) (area : Nat → G3 K) (a idx : Nat) (E H : Nat → G3 K) :
    planeFlux n area a idx false E H = faceSum n a idx (fun i j k => cross E H a i j k * area a i j k) := by
  simp only [planeFlux, poyntingReduced, Bool.false_eq_true, if_false, List.getD_cons_zero, sgn, faceSum, cross_restrict]
  congr 1; funext i j k
  rcases a with _ | _ | a <;> simp [restrict, fixAx]

theorem planeFlux_minus (n : Shape) (area : Nat → G3 K) (a idx : Nat) (E H : Nat → G3 K) :
    planeFlux n area a idx true E H = -faceSum n a idx (fun i j k => cross E H a i j k * area a i j k) := by
  rw [← planeFlux_plus]
  have := C16_poynting_minus_negates (shape1 n a) (restrict a idx area) false a (restrict a idx E) (restrict a idx H)
  simp only [planeFlux, this]
  simp [poyntingReduced]

/-- C16_closed_is_signed_sum_of_faces: the outward net flux is the sum, over the active axes, of the max-face plane
detector with direction "+" and the min-face plane detector with direction "-" (six faces in 3-D). -/
theorem C16_closed_is_signed_sum_of_faces (n : Shape) (area : Nat → G3 K) (axes : List Nat) (E H : Nat → G3 K) :
    closedNet n area axes false E H
      = axes.foldl (fun acc a => acc + planeFlux n area a (axisLen n a - 1) false E H + planeFlux n area a 0 true E H) 0 := by
  simp only [closedNet, sgn, Bool.false_eq_true, if_false]
  congr 1
  funext acc a
  rw [planeFlux_plus, planeFlux_minus]; ring

/-- C16_closed_inward_negates -/
theorem C16_closed_inward_negates (n : Shape) (area : Nat → G3 K) (axes : List Nat) (E H : Nat → G3 K) :
    closedNet n area axes true E H = -closedNet n area axes false E H := by
  simp [closedNet, sgn]

/-- an axis of one cell contributes nothing (its two faces coincide) -/
theorem closed_singleton_axis_cancels (n : Shape) (area : Nat → G3 K) (a : Nat) (h : axisLen n a = 1) (E H : Nat → G3 K) :
    closedNet n area [a] false E H = 0 := by
  simp [closedNet, sgn, h]

/-! ### closed-surface phasor detector -/

/-- C16_face_is_restriction: the stored face accumulates the restriction to the face of what a PhasorDetector over the
box (all six components) accumulates. -/
theorem C16_face_is_restriction (n : Shape) (inverse : Bool) (a : Nat) (maxSide : Bool) (E H : Nat → G3 K) (ph : Cx K)
    (s : Nat → G3 (Cx K)) (q : Nat) (h6 : q < 6) :
    let idx := if maxSide then axisLen n a - 1 else 0
    faceStep n inverse a maxSide E H ph (fun q => fixAx a idx (s q)) q
      = fixAx a idx (phasorSpatialStep inverse [0, 1, 2, 3, 4, 5] E H (fun _ => ph) (fun _ => s) 0 q) := by
  have hq : [0, 1, 2, 3, 4, 5].getD q 0 = q := by
    have : q = 0 ∨ q = 1 ∨ q = 2 ∨ q = 3 ∨ q = 4 ∨ q = 5 := by omega
    rcases this with rfl | rfl | rfl | rfl | rfl | rfl <;> rfl
  intro idx
  funext i j k
  rcases a with _ | _ | a <;> simp only [faceStep, fixAx, idx] <;> unfold phasorSpatialStep <;> rw [hq]


/-- reading of a single-plane PhasorPoyntingFluxDetector (propagation axis `a`) whose state is the face phasor stack `p`
(already a plane: index 0 along `a`) with the face areas of axis `a` -/
def planePhasorFlux (n : Shape) (area : Nat → G3 K) (a : Nat) (minus continuous : Bool) (p : Nat → G3 (Cx K)) : K :=
  (phasorFlux (shape1 n a) (fun c => fixAx a 0 (area c)) minus false continuous a p).getD 0 0

theorem foldl_add_init (g : Nat → K) (l : List Nat) (x : K) :
    l.foldl (fun acc a => acc + g a) x = x + l.foldl (fun acc a => acc + g a) 0 := by
  induction l generalizing x with
  | nil => simp
  | cons a l ih => simp only [List.foldl_cons]; rw [ih (x + g a), ih (0 + g a)]; ring

theorem foldl_mul (c : K) (g : Nat → K) (l : List Nat) :
    c * l.foldl (fun acc a => acc + g a) 0 = l.foldl (fun acc a => acc + c * g a) 0 := by
  induction l with
  | nil => simp
  | cons a l ih =>
    simp only [List.foldl_cons]
    rw [foldl_add_init g l (0 + g a), foldl_add_init (fun a => c * g a) l (0 + c * g a), ← ih]; ring

/-- C16_closed_phasor_is_signed_sum_of_faces: compute_net_flux (outward) is the sum over the active axes of the
single-plane phasor flux of the max face (direction +) and of the min face (direction −), same scaling mode. -/
theorem C16_closed_phasor_is_signed_sum_of_faces (n : Shape) (area : Nat → G3 K) (axes : List Nat) (continuous : Bool)
    (face : Nat → Bool → Nat → G3 (Cx K)) :
    closedPhasorNet n area axes false continuous face
      = axes.foldl (fun acc a => acc + (planePhasorFlux n area a false continuous (face a true)
                                        + planePhasorFlux n area a true continuous (face a false))) 0 := by
  have neg : ∀ a (p : Nat → G3 (Cx K)),
      sum3 (shape1 n a) (fun i j k => sgn true (phasorCross p a i j k) * fixAx a 0 (area a) i j k)
        = -sum3 (shape1 n a) (fun i j k => phasorCross p a i j k * fixAx a 0 (area a) i j k) := by
    intro a p; rw [← sum3_neg]; congr 1; funext i j k; simp [sgn]
  have body : ∀ (acc : K) (a : Nat),
      acc + sum3 (shape1 n a) (fun i j k => phasorCross (face a true) a i j k * fixAx a 0 (area a) i j k)
          - sum3 (shape1 n a) (fun i j k => phasorCross (face a false) a i j k * fixAx a 0 (area a) i j k)
        = acc + (sum3 (shape1 n a) (fun i j k => phasorCross (face a true) a i j k * fixAx a 0 (area a) i j k)
          + -sum3 (shape1 n a) (fun i j k => phasorCross (face a false) a i j k * fixAx a 0 (area a) i j k)) := by
    intro acc a; ring
  have pos : ∀ x : K, sgn false x = x := by intro x; simp [sgn]
  cases continuous
  · simp only [closedPhasorNet, planePhasorFlux, phasorFlux, pos, Bool.false_eq_true, if_false, if_true,
      List.getD_cons_zero, neg, body]
  · simp only [closedPhasorNet, planePhasorFlux, phasorFlux, pos, Bool.false_eq_true, if_false, if_true,
      List.map_cons, List.map_nil, List.getD_cons_zero, neg, body]
    rw [foldl_mul]
    congr 1; funext acc a; ring

end Fdtdx.C16
