/-
C10 — Fields are linear in sources and initial state.

Theorems about the shared Yee model (`FdtdxModel/Yee.lean`) over ANY field `K` (ℝ, ℚ, ℂ …), for EVERY grid shape,
halo rule (zero / periodic / Bloch ghost multipliers), PEC/PMC walls, metric (non-uniform widths), isotropic or
diagonal ε⁻¹, μ⁻¹, with or without electric and magnetic conductivity (no side condition: the lossy update divides
by a field-independent divisor), any source terms:

  C10_affine              forward (a•j₁ + b•j₂) (a•s₁ + b•s₂) = a•forward j₁ s₁ + b•forward j₂ s₂
  C10_affine_steps        the same after n steps with step-indexed source terms (any switch / temporal profile)
  C10_scale               common factor a on sources and initial state ⇒ factor a on the state after n steps
  C10_sources_superpose   zero initial fields, two sources with amplitude factors f₁, f₂ ⇒ f₁•(run 1) + f₂•(run 2)
  C10_initial_superpose   no sources: the n-step map is linear in the initial state
  C10_cpml_linear         one cell of the CPML update (psi, curl correction) is linear in (psi, derivative)
  C10_wmean_linear, C10_phasor_linear     volume-mean / phasor records are linear functionals of the observed values
  C10_field_record_linear, C10_phasor_record_linear   … hence linear in (sources, initial state) at every cell and step
  C10_energy_quadratic, C10_poynting_quadratic        q(a•s) = a²·q(s) for the energy density and E×H
  C10_energy_record_scales, C10_poynting_record_scales   … hence the records of a run scale with a² (common factor a)
-/
import FdtdxProps.C02
import FdtdxModel.C10
import Mathlib.Tactic.Ring
import Mathlib.Tactic.FieldSimp

namespace Fdtdx.C10
open Fdtdx Fdtdx.Yee Fdtdx.C02

section
variable {K : Type} [Field K]

@[simp] theorem linV_x (a b : K) (A B : V3 K) (i j k : Nat) : (linV a b A B).x i j k = a * A.x i j k + b * B.x i j k := rfl
@[simp] theorem linV_y (a b : K) (A B : V3 K) (i j k : Nat) : (linV a b A B).y i j k = a * A.y i j k + b * B.y i j k := rfl
@[simp] theorem linV_z (a b : K) (A B : V3 K) (i j k : Nat) : (linV a b A B).z i j k = a * A.z i j k + b * B.z i j k := rfl

/-- the padded neighbour value (zero, periodic or Bloch halo) is linear in the line -/
theorem next1_lin (n : Nat) (bc : AxisBC K) (a b : K) (f g : Nat → K) (t : Nat) :
    next1 n bc (fun u => a * f u + b * g u) t = a * next1 n bc f t + b * next1 n bc g t := by
  unfold next1; split_ifs <;> ring

theorem prev1_lin (n : Nat) (bc : AxisBC K) (a b : K) (f g : Nat → K) (t : Nat) :
    prev1 n bc (fun u => a * f u + b * g u) t = a * prev1 n bc f t + b * prev1 n bc g t := by
  unfold prev1; split_ifs <;> ring

theorem curlE_lin (cf : Cfg K) (a b : K) (A B : V3 K) :
    curlE cf (linV a b A B) = linV a b (curlE cf A) (curlE cf B) := by
  apply V3.ext' <;> intro i j k <;> simp only [curlE, linV_x, linV_y, linV_z, next1_lin] <;> ring

theorem curlH_lin (cf : Cfg K) (a b : K) (A B : V3 K) :
    curlH cf (linV a b A B) = linV a b (curlH cf A) (curlH cf B) := by
  apply V3.ext' <;> intro i j k <;> simp only [curlH, linV_x, linV_y, linV_z, prev1_lin] <;> ring

/-- the (possibly lossy) cell update is linear in (field, curl): the divisor does not depend on the fields -/
theorem updE1_lin (c eta0 a b e1 e2 cu1 cu2 ie : K) (sig : Option K) :
    updE1 c eta0 (a * e1 + b * e2) (a * cu1 + b * cu2) ie sig
      = a * updE1 c eta0 e1 cu1 ie sig + b * updE1 c eta0 e2 cu2 ie sig := by
  cases sig with
  | none => simp only [updE1]; ring
  | some s => simp only [updE1, div_eq_mul_inv]; ring

theorem updH1_lin (c eta0 a b h1 h2 cu1 cu2 im : K) (sig : Option K) :
    updH1 c eta0 (a * h1 + b * h2) (a * cu1 + b * cu2) im sig
      = a * updH1 c eta0 h1 cu1 im sig + b * updH1 c eta0 h2 cu2 im sig := by
  cases sig with
  | none => simp only [updH1]; ring
  | some s => simp only [updH1, div_eq_mul_inv]; ring

theorem stepE_lin (cf : Cfg K) (m : Mat K) (a b : K) (jE1 jE2 E1 E2 H1 H2 : V3 K) :
    stepE cf m (linV a b jE1 jE2) (linV a b E1 E2) (linV a b H1 H2)
      = linV a b (stepE cf m jE1 E1 H1) (stepE cf m jE2 E2 H2) := by
  apply V3.ext' <;> intro i j k <;>
    simp only [stepE, projE, maskV, addV, curlH_lin, linV_x, linV_y, linV_z, updE1_lin] <;>
    split_ifs <;> ring

theorem stepH_lin (cf : Cfg K) (m : Mat K) (a b : K) (jH1 jH2 E1 E2 H1 H2 : V3 K) :
    stepH cf m (linV a b jH1 jH2) (linV a b E1 E2) (linV a b H1 H2)
      = linV a b (stepH cf m jH1 E1 H1) (stepH cf m jH2 E2 H2) := by
  apply V3.ext' <;> intro i j k <;>
    simp only [stepH, projH, maskV, addV, curlE_lin, linV_x, linV_y, linV_z, updH1_lin] <;>
    split_ifs <;> ring

/-- **C10_affine**: one time step maps a linear combination of (sources, state) to the same combination of the
results — any shape, halo, walls, metric, diagonal materials, conductivities; any scalars `a b`. -/
theorem C10_affine (cf : Cfg K) (m : Mat K) (a b : K) (jE1 jE2 jH1 jH2 E1 E2 H1 H2 : V3 K) :
    forward cf m (linV a b jE1 jE2) (linV a b jH1 jH2) (linV a b E1 E2) (linV a b H1 H2)
      = (linV a b (forward cf m jE1 jH1 E1 H1).1 (forward cf m jE2 jH2 E2 H2).1,
         linV a b (forward cf m jE1 jH1 E1 H1).2 (forward cf m jE2 jH2 E2 H2).2) := by
  simp only [forward]
  rw [stepE_lin, stepH_lin]

/-- **C10_affine_steps**: n steps, source terms indexed by the time step (any temporal profile and on/off switch) -/
theorem C10_affine_steps (cf : Cfg K) (m : Mat K) (a b : K) (jE1 jE2 jH1 jH2 : Nat → V3 K) (t n : Nat)
    (E1 E2 H1 H2 : V3 K) :
    fwdN cf m (fun s => linV a b (jE1 s) (jE2 s)) (fun s => linV a b (jH1 s) (jH2 s)) t n
        (linV a b E1 E2, linV a b H1 H2)
      = (linV a b (fwdN cf m jE1 jH1 t n (E1, H1)).1 (fwdN cf m jE2 jH2 t n (E2, H2)).1,
         linV a b (fwdN cf m jE1 jH1 t n (E1, H1)).2 (fwdN cf m jE2 jH2 t n (E2, H2)).2) := by
  induction n with
  | zero => rfl
  | succ n ih =>
    simp only [fwdN]
    rw [ih]
    exact C10_affine cf m a b _ _ _ _ _ _ _ _

def zeroV : V3 K := constV 0

theorem linV_zero_right (a : K) (A B : V3 K) : linV a 0 A B = smulV a A := by
  apply V3.ext' <;> intro i j k <;> simp [linV, addV, smulV]

theorem linV_one_one (A B : V3 K) : linV 1 1 A B = addV A B := by
  apply V3.ext' <;> intro i j k <;> simp [linV, addV, smulV]

theorem linV_zeroV (a b : K) : linV a b (zeroV : V3 K) zeroV = zeroV := by
  apply V3.ext' <;> intro i j k <;> simp [linV, addV, smulV, zeroV, constV]

/-- **C10_scale**: a common factor on every source term and on the initial state is a factor on the result. -/
theorem C10_scale (cf : Cfg K) (m : Mat K) (a : K) (jE jH : Nat → V3 K) (t n : Nat) (E H : V3 K) :
    fwdN cf m (fun s => smulV a (jE s)) (fun s => smulV a (jH s)) t n (smulV a E, smulV a H)
      = (smulV a (fwdN cf m jE jH t n (E, H)).1, smulV a (fwdN cf m jE jH t n (E, H)).2) := by
  have h := C10_affine_steps cf m a 0 jE jE jH jH t n E E H H
  simpa only [linV_zero_right] using h

/-- **C10_sources_superpose**: starting from zero fields, a run with two sources whose unit terms are `u₁, u₂`
and whose amplitude factors are `f₁, f₂` equals `f₁•(run with u₁ alone) + f₂•(run with u₂ alone)`. -/
theorem C10_sources_superpose (cf : Cfg K) (m : Mat K) (f1 f2 : K) (uE1 uE2 uH1 uH2 : Nat → V3 K) (t n : Nat) :
    fwdN cf m (fun s => linV f1 f2 (uE1 s) (uE2 s)) (fun s => linV f1 f2 (uH1 s) (uH2 s)) t n (zeroV, zeroV)
      = (linV f1 f2 (fwdN cf m uE1 uH1 t n (zeroV, zeroV)).1 (fwdN cf m uE2 uH2 t n (zeroV, zeroV)).1,
         linV f1 f2 (fwdN cf m uE1 uH1 t n (zeroV, zeroV)).2 (fwdN cf m uE2 uH2 t n (zeroV, zeroV)).2) := by
  have h := C10_affine_steps cf m f1 f2 uE1 uE2 uH1 uH2 t n zeroV zeroV zeroV zeroV
  simpa only [linV_zeroV] using h

/-- **C10_initial_superpose**: without sources the n-step map is linear in the initial state. -/
theorem C10_initial_superpose (cf : Cfg K) (m : Mat K) (a b : K) (t n : Nat) (E1 E2 H1 H2 : V3 K) :
    fwdN cf m (fun _ => zeroV) (fun _ => zeroV) t n (linV a b E1 E2, linV a b H1 H2)
      = (linV a b (fwdN cf m (fun _ => zeroV) (fun _ => zeroV) t n (E1, H1)).1
            (fwdN cf m (fun _ => zeroV) (fun _ => zeroV) t n (E2, H2)).1,
         linV a b (fwdN cf m (fun _ => zeroV) (fun _ => zeroV) t n (E1, H1)).2
            (fwdN cf m (fun _ => zeroV) (fun _ => zeroV) t n (E2, H2)).2) := by
  have h := C10_affine_steps cf m a b (fun _ => zeroV) (fun _ => zeroV) (fun _ => zeroV) (fun _ => zeroV) t n E1 E2 H1 H2
  simpa only [linV_zeroV] using h

/-- **C10_cpml_linear**: the CPML auxiliary update and its curl correction (`step_cpml`) are linear in
(psi, derivative) — the absorbing layers do not break superposition. -/
theorem C10_cpml_linear (a b ik x y psi1 psi2 d1 d2 : K) (sim kappaOne : Bool) :
    cpmlStep a b ik (x * psi1 + y * psi2) (x * d1 + y * d2) sim kappaOne
      = (x * (cpmlStep a b ik psi1 d1 sim kappaOne).1 + y * (cpmlStep a b ik psi2 d2 sim kappaOne).1,
         x * (cpmlStep a b ik psi1 d1 sim kappaOne).2 + y * (cpmlStep a b ik psi2 d2 sim kappaOne).2) := by
  cases sim <;> cases kappaOne <;> simp only [cpmlStep, if_true, if_false, Bool.false_eq_true, Prod.mk.injEq] <;>
    constructor <;> first | trivial | ring

/-! ### records -/

theorem sumTo_lin (n : Nat) (a b : K) (f g : Nat → K) :
    sumTo n (fun t => a * f t + b * g t) = a * sumTo n f + b * sumTo n g := by
  induction n with
  | zero => simp [sumTo]
  | succ n ih => simp only [sumTo, ih]; ring

/-- **C10_wmean_linear**: the volume-weighted mean of a reduced FieldDetector is linear in the cell values -/
theorem C10_wmean_linear (n : Nat) (w v1 v2 : Nat → K) (a b : K) :
    wmean n w (fun t => a * v1 t + b * v2 t) = a * wmean n w v1 + b * wmean n w v2 := by
  have h : (fun t => (a * v1 t + b * v2 t) * w t) = fun t => a * (v1 t * w t) + b * (v2 t * w t) := by
    funext t; ring
  simp only [wmean, h, sumTo_lin, div_eq_mul_inv]; ring

/-- **C10_phasor_linear**: the phasor accumulator is linear in the observed time series -/
theorem C10_phasor_linear (ph o1 o2 : Nat → K) (a b : K) (n : Nat) :
    phasorAcc ph (fun t => a * o1 t + b * o2 t) n = a * phasorAcc ph o1 n + b * phasorAcc ph o2 n := by
  have h : (fun t => (a * o1 t + b * o2 t) * ph t) = fun t => a * (o1 t * ph t) + b * (o2 t * ph t) := by
    funext t; ring
  simp only [phasorAcc, h, sumTo_lin]

/-- **C10_field_record_linear**: what a FieldDetector stores at step `t+n` (any component, any cell) for the
combined run is the combination of what it stores for the two runs. -/
theorem C10_field_record_linear (cf : Cfg K) (m : Mat K) (a b : K) (jE1 jE2 jH1 jH2 : Nat → V3 K) (t n : Nat)
    (E1 E2 H1 H2 : V3 K) (i j k : Nat) :
    let S := fwdN cf m (fun s => linV a b (jE1 s) (jE2 s)) (fun s => linV a b (jH1 s) (jH2 s)) t n
        (linV a b E1 E2, linV a b H1 H2)
    let S1 := fwdN cf m jE1 jH1 t n (E1, H1)
    let S2 := fwdN cf m jE2 jH2 t n (E2, H2)
    S.1.x i j k = a * S1.1.x i j k + b * S2.1.x i j k ∧ S.1.y i j k = a * S1.1.y i j k + b * S2.1.y i j k
    ∧ S.1.z i j k = a * S1.1.z i j k + b * S2.1.z i j k ∧ S.2.x i j k = a * S1.2.x i j k + b * S2.2.x i j k
    ∧ S.2.y i j k = a * S1.2.y i j k + b * S2.2.y i j k ∧ S.2.z i j k = a * S1.2.z i j k + b * S2.2.z i j k := by
  intro S S1 S2
  have h : S = _ := C10_affine_steps cf m a b jE1 jE2 jH1 jH2 t n E1 E2 H1 H2
  rw [h]
  exact ⟨rfl, rfl, rfl, rfl, rfl, rfl⟩

/-- **C10_phasor_record_linear**: the phasor of (say) E_x at a cell, accumulated over the first `n` steps of the
combined run, is the combination of the two runs' phasors (other components: same proof). -/
theorem C10_phasor_record_linear (cf : Cfg K) (m : Mat K) (a b : K) (jE1 jE2 jH1 jH2 : Nat → V3 K)
    (E1 E2 H1 H2 : V3 K) (ph : Nat → K) (i j k n : Nat) :
    phasorAcc ph (fun s => (fwdN cf m (fun s => linV a b (jE1 s) (jE2 s)) (fun s => linV a b (jH1 s) (jH2 s)) 0 (s + 1)
        (linV a b E1 E2, linV a b H1 H2)).1.x i j k) n
      = a * phasorAcc ph (fun s => (fwdN cf m jE1 jH1 0 (s + 1) (E1, H1)).1.x i j k) n
        + b * phasorAcc ph (fun s => (fwdN cf m jE2 jH2 0 (s + 1) (E2, H2)).1.x i j k) n := by
  rw [← C10_phasor_linear]
  congr 1
  funext s
  exact (C10_field_record_linear cf m a b jE1 jE2 jH1 jH2 0 (s + 1) E1 E2 H1 H2 i j k).1

/-- **C10_energy_quadratic**: the energy density of the EnergyDetector is homogeneous of degree 2 -/
theorem C10_energy_quadratic (a : K) (ie im E H : V3 K) (i j k : Nat) :
    detEnergy ie im (smulV a E) (smulV a H) i j k = a ^ 2 * detEnergy ie im E H i j k := by
  simp only [detEnergy, smulV]; ring

/-- **C10_poynting_quadratic**: E × H is homogeneous of degree 2 -/
theorem C10_poynting_quadratic (a : K) (E H : V3 K) :
    poynting (smulV a E) (smulV a H) = smulV (a ^ 2) (poynting E H) := by
  apply V3.ext' <;> intro i j k <;> simp only [poynting, smulV] <;> ring

/-- **C10_energy_record_scales**: with a common factor `a` on all sources and the initial state the energy
record at every step and cell is multiplied by `a²`. -/
theorem C10_energy_record_scales (cf : Cfg K) (m : Mat K) (a : K) (jE jH : Nat → V3 K) (t n : Nat) (E H : V3 K)
    (ie im : V3 K) (i j k : Nat) :
    detEnergy ie im (fwdN cf m (fun s => smulV a (jE s)) (fun s => smulV a (jH s)) t n (smulV a E, smulV a H)).1
        (fwdN cf m (fun s => smulV a (jE s)) (fun s => smulV a (jH s)) t n (smulV a E, smulV a H)).2 i j k
      = a ^ 2 * detEnergy ie im (fwdN cf m jE jH t n (E, H)).1 (fwdN cf m jE jH t n (E, H)).2 i j k := by
  rw [C10_scale]
  exact C10_energy_quadratic a ie im _ _ i j k

theorem C10_poynting_record_scales (cf : Cfg K) (m : Mat K) (a : K) (jE jH : Nat → V3 K) (t n : Nat) (E H : V3 K) :
    poynting (fwdN cf m (fun s => smulV a (jE s)) (fun s => smulV a (jH s)) t n (smulV a E, smulV a H)).1
        (fwdN cf m (fun s => smulV a (jE s)) (fun s => smulV a (jH s)) t n (smulV a E, smulV a H)).2
      = smulV (a ^ 2) (poynting (fwdN cf m jE jH t n (E, H)).1 (fwdN cf m jE jH t n (E, H)).2) := by
  rw [C10_scale]
  exact C10_poynting_quadratic a _ _

end

/-! ### non-vacuity: the statements have no hypotheses; a concrete lossy, walled, periodic instance over ℚ shows
that the step is not the zero map (the identities are not 0 = 0). -/
section nonvacuous
open Fdtdx.C01 in
example : (forward exCfg ⟨constV 2, constV 1, some (constV (1 / 3)), none⟩ (constV 0) (constV 0) exE exH).1.x 1 1 1 ≠ 0 := by
  simp [forward, stepE, projE, maskV, addV, curlH, prev1, updE1, optAt, pecMask, onWall, exCfg, exBC, exE, exH, constV]
  norm_num
end nonvacuous

end Fdtdx.C10
