/-
C01 (Bloch faces) — energy conservation with Bloch-periodic boundaries (complex fields).

Over a field with a star operation (ℂ), ghost multipliers with `star pm = pp` (the code sets pp = exp(i k L),
pm = conj pp), real widths / metric scales / materials / Courant number, the sesquilinear energy

  Q(E,H) = Σ wE ε star(E)·E + Σ wH μ star(H)·H + (c/2)·(⟨H, curlE E⟩ + star ⟨H, curlE E⟩),  ⟨A,B⟩ = Σ wH star(A)·B

is unchanged by the lossless source-free step (`C01_bloch_energy_conserved`) and by any number of steps
(`C01_bloch_energy_steps`), for every shape, every mix of zero / periodic / Bloch halos and PEC/PMC walls, every
metric and diagonal ε, μ.  For real fields and pp = pm = 1 this is the statement of `C01_energy_conserved`.

With a real per-component loss factor `a` (the semi-implicit electric-conductivity update, `1 + a ≠ 0`) the same
computation gives the exact balance  Q(E',H') = Q(E,H) − ⟨a·ε·(E'+E), E'+E⟩  (`bloch_energy_balance`,
`C01_bloch_lossy_decrement`); the sign of the dissipation term and the many-step statement are in
`FdtdxProps/C01BlochLossy.lean`.
-/
import FdtdxProps.C01
import FdtdxLemmas.CurlAdjointStar
import Mathlib.Data.Complex.Basic

open Finset
namespace Fdtdx.C01
open Fdtdx Fdtdx.Yee

section
variable {K : Type} [Field K] [StarRing K] [CharZero K]

/-- everything that is real in the code is fixed by `star` -/
structure RealData (cf : Cfg K) (W : Widths K) (m : Mat K) (eps mu : V3 K) : Prop where
  c : star cf.c = cf.c
  wx : ∀ i, star (W.wx i) = W.wx i
  wy : ∀ i, star (W.wy i) = W.wy i
  wz : ∀ i, star (W.wz i) = W.wz i
  dx : ∀ i, star (W.dx i) = W.dx i
  dy : ∀ i, star (W.dy i) = W.dy i
  dz : ∀ i, star (W.dz i) = W.dz i
  ex : ∀ i j k, star (eps.x i j k) = eps.x i j k ∧ star (m.invEps.x i j k) = m.invEps.x i j k
  ey : ∀ i j k, star (eps.y i j k) = eps.y i j k ∧ star (m.invEps.y i j k) = m.invEps.y i j k
  ez : ∀ i j k, star (eps.z i j k) = eps.z i j k ∧ star (m.invEps.z i j k) = m.invEps.z i j k
  mx : ∀ i j k, star (mu.x i j k) = mu.x i j k ∧ star (m.invMu.x i j k) = m.invMu.x i j k
  my : ∀ i j k, star (mu.y i j k) = mu.y i j k ∧ star (m.invMu.y i j k) = m.invMu.y i j k
  mz : ∀ i j k, star (mu.z i j k) = mu.z i j k ∧ star (m.invMu.z i j k) = m.invMu.z i j k

/-- sesquilinear energy -/
def energyC (cf : Cfg K) (W : Widths K) (eps mu : V3 K) (E H : V3 K) : K :=
  pairEs cf W (mulV eps E) E + pairHs cf W (mulV mu H) H
    + cf.c / 2 * (pairHs cf W H (curlE cf E) + star (pairHs cf W H (curlE cf E)))

theorem star_sum3 (nx ny nz : Nat) (f : F3 K) : star (sum3 nx ny nz f) = sum3 nx ny nz (fun i j k => star (f i j k)) := by
  simp only [sum3_eq, star_sum]

/-- conjugate symmetry of the pairings for real weights -/
theorem pairHs_star (cf : Cfg K) (W : Widths K) (m : Mat K) (eps mu : V3 K) (hr : RealData cf W m eps mu)
    (A B : V3 K) : star (pairHs cf W A B) = pairHs cf W B A := by
  unfold pairHs
  rw [star_sum3]
  apply sum3_congr; intro i j k _ _ _
  simp only [star_add, star_mul', star_star, hr.wx i, hr.wy j, hr.wz k, hr.dx i, hr.dy j, hr.dz k]
  ring

theorem pairEs_star (cf : Cfg K) (W : Widths K) (m : Mat K) (eps mu : V3 K) (hr : RealData cf W m eps mu)
    (A B : V3 K) : star (pairEs cf W A B) = pairEs cf W B A := by
  unfold pairEs
  rw [star_sum3]
  apply sum3_congr; intro i j k _ _ _
  simp only [star_add, star_mul', star_star, hr.wx i, hr.wy j, hr.wz k, hr.dx i, hr.dy j, hr.dz k]
  ring

/-- pointwise magnetic identity -/
private theorem ptA (mu nu c h x sh sx : K) (hmn : mu * nu = 1) :
    mu * (sh - c * sx * nu) * (h - c * x * nu) + c / 2 * ((sh - c * sx * nu) * x + sx * (h - c * x * nu))
      = mu * sh * h - c / 2 * (sh * x + sx * h) := by
  linear_combination (-c * (sh * x + sx * h) + c ^ 2 * nu * (sx * x)) * hmn

/-- every entry of a vector field is fixed by `star` (a real array of the code) -/
structure RealV (A : V3 K) : Prop where
  x : ∀ i j k, star (A.x i j k) = A.x i j k
  y : ∀ i j k, star (A.y i j k) = A.y i j k
  z : ∀ i j k, star (A.z i j k) = A.z i j k

/-- pointwise electric identity of the semi-implicit update `(1+a)·e' = (1−a)·e + c·y·ν` (and its conjugate) -/
private theorem ptB (eps nu c a e y se sy e' se' : K) (hen : eps * nu = 1)
    (h1 : (1 + a) * e' = (1 - a) * e + c * y * nu) (h2 : (1 + a) * se' = (1 - a) * se + c * sy * nu) :
    eps * se' * e' - eps * se * e
      = c / 2 * (sy * (e' + e) + (se' + se) * y) - a * eps * (se' + se) * (e' + e) := by
  linear_combination (eps / 2 * (e' + e)) * h2 + (eps / 2 * (se' + se)) * h1
    + (c / 2 * (sy * (e' + e) + (se' + se) * y)) * hen

/-- one component of the electric balance: a masked (PEC) component stays 0, the others follow the semi-implicit
update with real `c`, `ν = ε⁻¹`, `a` -/
private theorem compB (eps nu c a e y e' : K) (msk : Bool) (hen : eps * nu = 1)
    (hc : star c = c) (hnu : star nu = nu) (ha : star a = a) (hne : 1 + a ≠ 0)
    (hwall : msk = true → e = 0)
    (hv : e' = if msk then 0 else ((1 - a) * e + c * y * nu) / (1 + a)) :
    eps * star e' * e' - eps * star e * e
      = c / 2 * (star y * (e' + e) + star (e' + e) * y) - a * eps * star (e' + e) * (e' + e) := by
  cases msk with
  | true =>
    simp only [if_true] at hv
    rw [hv, hwall rfl]; simp
  | false =>
    simp only [Bool.false_eq_true, if_false] at hv
    have h1 : (1 + a) * e' = (1 - a) * e + c * y * nu := by rw [hv]; field_simp
    have h2 : (1 + a) * star e' = (1 - a) * star e + c * star y * nu := by
      have := congrArg star h1
      simpa only [star_add, star_sub, star_mul', star_one, hc, hnu, ha] using this
    rw [star_add]
    exact ptB eps nu c a e y (star e) (star y) e' (star e') hen h1 h2

/-- **bloch_energy_balance** (covers the lossless case with `a = 0`): exact sesquilinear energy balance of one
source-free step.  `aE` is the real loss factor `c·σ·η₀·ε⁻¹/2` per component (0 where there is no conductivity). -/
theorem bloch_energy_balance (cf : Cfg K) (W : Widths K) (ref : K) (m : Mat K) (eps mu : V3 K) (E H : V3 K)
    (hm : MetricOK cf W ref) (hh : HalosBloch cf) (hs : ScalesReal cf) (hr : RealData cf W m eps mu)
    (hmat : MatOK m eps mu) (hw : WallOK cf E H) (hsH : m.sigH = none)
    (aE : V3 K) (haR : RealV aE)
    (hax : ∀ i j k, (1 + aE.x i j k) ≠ 0 ∧ (stepE cf m zeroV E H).x i j k
        = if pecMask cf 0 i j k then 0 else
          ((1 - aE.x i j k) * E.x i j k + cf.c * (curlH cf H).x i j k * m.invEps.x i j k) / (1 + aE.x i j k))
    (hay : ∀ i j k, (1 + aE.y i j k) ≠ 0 ∧ (stepE cf m zeroV E H).y i j k
        = if pecMask cf 1 i j k then 0 else
          ((1 - aE.y i j k) * E.y i j k + cf.c * (curlH cf H).y i j k * m.invEps.y i j k) / (1 + aE.y i j k))
    (haz : ∀ i j k, (1 + aE.z i j k) ≠ 0 ∧ (stepE cf m zeroV E H).z i j k
        = if pecMask cf 2 i j k then 0 else
          ((1 - aE.z i j k) * E.z i j k + cf.c * (curlH cf H).z i j k * m.invEps.z i j k) / (1 + aE.z i j k)) :
    energyC cf W eps mu (forward cf m zeroV zeroV E H).1 (forward cf m zeroV zeroV E H).2
      = energyC cf W eps mu E H
        - pairEs cf W (mulV (mulV aE eps) (addV (forward cf m zeroV zeroV E H).1 E))
            (addV (forward cf m zeroV zeroV E H).1 E) := by
  set E' := (forward cf m zeroV zeroV E H).1 with hE'd
  set H' := (forward cf m zeroV zeroV E H).2 with hH'd
  set G := addV E' E with hG
  have hE' : E' = stepE cf m zeroV E H := rfl
  have hH' : H' = stepH cf m zeroV E' H := rfl
  have symH := pairHs_star cf W m eps mu hr
  have symE := pairEs_star cf W m eps mu hr
  -- Step A
  have stepA : pairHs cf W (mulV mu H') H' + cf.c / 2 * (pairHs cf W H' (curlE cf E') + pairHs cf W (curlE cf E') H')
      = pairHs cf W (mulV mu H) H - cf.c / 2 * (pairHs cf W H (curlE cf E') + pairHs cf W (curlE cf E') H) := by
    unfold pairHs
    rw [← sum3_add, ← sum3_mul_left, ← sum3_add, ← sum3_add, ← sum3_mul_left, ← sum3_sub]
    apply sum3_congr
    intro i j k _ _ _
    have px : H'.x i j k = if pmcMask cf 0 i j k then 0 else H.x i j k - cf.c * (curlE cf E').x i j k * m.invMu.x i j k := by
      rw [hH']; simp [stepH, projH, maskV, addV, zeroV, constV, hsH, optAt, updH1]
    have py : H'.y i j k = if pmcMask cf 1 i j k then 0 else H.y i j k - cf.c * (curlE cf E').y i j k * m.invMu.y i j k := by
      rw [hH']; simp [stepH, projH, maskV, addV, zeroV, constV, hsH, optAt, updH1]
    have pz : H'.z i j k = if pmcMask cf 2 i j k then 0 else H.z i j k - cf.c * (curlE cf E').z i j k * m.invMu.z i j k := by
      rw [hH']; simp [stepH, projH, maskV, addV, zeroV, constV, hsH, optAt, updH1]
    have cx : mu.x i j k * star (H'.x i j k) * H'.x i j k
          + cf.c / 2 * (star (H'.x i j k) * (curlE cf E').x i j k + star ((curlE cf E').x i j k) * H'.x i j k)
        = mu.x i j k * star (H.x i j k) * H.x i j k
          - cf.c / 2 * (star (H.x i j k) * (curlE cf E').x i j k + star ((curlE cf E').x i j k) * H.x i j k) := by
      rw [px]; split_ifs with hmk
      · rw [hw.hx i j k hmk]; simp
      · simp only [star_sub, star_mul', hr.c, (hr.mx i j k).2]
        exact ptA _ _ _ _ _ _ _ (hmat.mx i j k)
    have cy : mu.y i j k * star (H'.y i j k) * H'.y i j k
          + cf.c / 2 * (star (H'.y i j k) * (curlE cf E').y i j k + star ((curlE cf E').y i j k) * H'.y i j k)
        = mu.y i j k * star (H.y i j k) * H.y i j k
          - cf.c / 2 * (star (H.y i j k) * (curlE cf E').y i j k + star ((curlE cf E').y i j k) * H.y i j k) := by
      rw [py]; split_ifs with hmk
      · rw [hw.hy i j k hmk]; simp
      · simp only [star_sub, star_mul', hr.c, (hr.my i j k).2]
        exact ptA _ _ _ _ _ _ _ (hmat.my i j k)
    have cz : mu.z i j k * star (H'.z i j k) * H'.z i j k
          + cf.c / 2 * (star (H'.z i j k) * (curlE cf E').z i j k + star ((curlE cf E').z i j k) * H'.z i j k)
        = mu.z i j k * star (H.z i j k) * H.z i j k
          - cf.c / 2 * (star (H.z i j k) * (curlE cf E').z i j k + star ((curlE cf E').z i j k) * H.z i j k) := by
      rw [pz]; split_ifs with hmk
      · rw [hw.hz i j k hmk]; simp
      · simp only [star_sub, star_mul', hr.c, (hr.mz i j k).2]
        exact ptA _ _ _ _ _ _ _ (hmat.mz i j k)
    simp only [mulV, star_mul', (hr.mx i j k).1, (hr.my i j k).1, (hr.mz i j k).1]
    linear_combination (W.dx i * W.wy j * W.wz k) * cx + (W.wx i * W.dy j * W.wz k) * cy
      + (W.wx i * W.wy j * W.dz k) * cz
  -- Step B
  have stepB : pairEs cf W (mulV eps E') E' - pairEs cf W (mulV eps E) E
      = cf.c / 2 * (pairEs cf W (curlH cf H) G + pairEs cf W G (curlH cf H))
        - pairEs cf W (mulV (mulV aE eps) G) G := by
    unfold pairEs
    rw [← sum3_add, ← sum3_mul_left, ← sum3_sub, ← sum3_sub]
    apply sum3_congr
    intro i j k _ _ _
    have bx : eps.x i j k * star (E'.x i j k) * E'.x i j k - eps.x i j k * star (E.x i j k) * E.x i j k
        = cf.c / 2 * (star ((curlH cf H).x i j k) * G.x i j k + star (G.x i j k) * (curlH cf H).x i j k)
          - aE.x i j k * eps.x i j k * star (G.x i j k) * G.x i j k :=
      compB _ _ _ _ _ _ _ (pecMask cf 0 i j k) (hmat.ex i j k) hr.c (hr.ex i j k).2 (haR.x i j k)
        (hax i j k).1 (hw.ex i j k) (hax i j k).2
    have by_ : eps.y i j k * star (E'.y i j k) * E'.y i j k - eps.y i j k * star (E.y i j k) * E.y i j k
        = cf.c / 2 * (star ((curlH cf H).y i j k) * G.y i j k + star (G.y i j k) * (curlH cf H).y i j k)
          - aE.y i j k * eps.y i j k * star (G.y i j k) * G.y i j k :=
      compB _ _ _ _ _ _ _ (pecMask cf 1 i j k) (hmat.ey i j k) hr.c (hr.ey i j k).2 (haR.y i j k)
        (hay i j k).1 (hw.ey i j k) (hay i j k).2
    have bz : eps.z i j k * star (E'.z i j k) * E'.z i j k - eps.z i j k * star (E.z i j k) * E.z i j k
        = cf.c / 2 * (star ((curlH cf H).z i j k) * G.z i j k + star (G.z i j k) * (curlH cf H).z i j k)
          - aE.z i j k * eps.z i j k * star (G.z i j k) * G.z i j k :=
      compB _ _ _ _ _ _ _ (pecMask cf 2 i j k) (hmat.ez i j k) hr.c (hr.ez i j k).2 (haR.z i j k)
        (haz i j k).1 (hw.ez i j k) (haz i j k).2
    simp only [mulV, star_mul', (hr.ex i j k).1, (hr.ey i j k).1, (hr.ez i j k).1, haR.x i j k, haR.y i j k,
      haR.z i j k]
    linear_combination (W.wx i * W.dy j * W.dz k) * bx + (W.dx i * W.wy j * W.dz k) * by_
      + (W.dx i * W.dy j * W.wz k) * bz
  -- Step C: additivity of curlE inside the pairing
  have stepC : pairHs cf W H (curlE cf E') + pairHs cf W H (curlE cf E) = pairHs cf W H (curlE cf G) := by
    unfold pairHs
    rw [← sum3_add]
    apply sum3_congr
    intro i j k _ _ _
    obtain ⟨a1, a2, a3⟩ := curlE_add cf E' E i j k
    rw [hG, a1, a2, a3]; ring
  have stepC' : pairHs cf W (curlE cf E') H + pairHs cf W (curlE cf E) H = pairHs cf W (curlE cf G) H := by
    have := congrArg star stepC
    simpa only [star_add, symH] using this
  -- Step D: adjointness and its conjugate
  have stepD := curl_adjoint_star cf W ref hm hh hs H G
  have stepD' : pairHs cf W (curlE cf G) H = pairEs cf W G (curlH cf H) := by
    have := congrArg star stepD
    simpa only [symH, symE] using this
  unfold energyC
  rw [symH, symH]
  linear_combination stepA + stepB - cf.c / 2 * stepC - cf.c / 2 * stepC' - cf.c / 2 * stepD - cf.c / 2 * stepD'

/-- **C01_bloch_energy_conserved**: lossless, source-free step (the balance with `a = 0`). -/
theorem C01_bloch_energy_conserved (cf : Cfg K) (W : Widths K) (ref : K) (m : Mat K) (eps mu : V3 K) (E H : V3 K)
    (hm : MetricOK cf W ref) (hh : HalosBloch cf) (hs : ScalesReal cf) (hr : RealData cf W m eps mu)
    (hmat : MatOK m eps mu) (hw : WallOK cf E H) (hsE : m.sigE = none) (hsH : m.sigH = none) :
    energyC cf W eps mu (forward cf m zeroV zeroV E H).1 (forward cf m zeroV zeroV E H).2
      = energyC cf W eps mu E H := by
  have hb := bloch_energy_balance cf W ref m eps mu E H hm hh hs hr hmat hw hsH (constV 0)
    ⟨fun _ _ _ => by simp [constV], fun _ _ _ => by simp [constV], fun _ _ _ => by simp [constV]⟩
    (fun i j k => ⟨by simp [constV], by simp [stepE, projE, maskV, addV, zeroV, constV, hsE, optAt, updE1]⟩)
    (fun i j k => ⟨by simp [constV], by simp [stepE, projE, maskV, addV, zeroV, constV, hsE, optAt, updE1]⟩)
    (fun i j k => ⟨by simp [constV], by simp [stepE, projE, maskV, addV, zeroV, constV, hsE, optAt, updE1]⟩)
  rw [hb]
  have : pairEs cf W (mulV (mulV (constV 0) eps) (addV (forward cf m zeroV zeroV E H).1 E))
      (addV (forward cf m zeroV zeroV E H).1 E) = 0 := by
    unfold pairEs
    rw [sum3_congr cf.nx cf.ny cf.nz _ (fun _ _ _ => (0 : K)) (fun i j k _ _ _ => by simp [mulV, constV])]
    exact sum3_zero _ _ _
  rw [this, sub_zero]

/-- the loss factor `c·σ·η₀·ε⁻¹/2` of real `c`, `σ`, `η₀`, `ε⁻¹` is real -/
theorem lossFactor_real (cf : Cfg K) (W : Widths K) (m : Mat K) (eps mu : V3 K) (sig : V3 K)
    (hr : RealData cf W m eps mu) (heta : star cf.eta0 = cf.eta0) (hsig : RealV sig) :
    RealV (lossFactor cf m sig) := by
  constructor <;> intro i j k
  · simp only [lossFactor, star_div₀, star_mul', star_ofNat, hr.c, heta, hsig.x i j k, (hr.ex i j k).2]
  · simp only [lossFactor, star_div₀, star_mul', star_ofNat, hr.c, heta, hsig.y i j k, (hr.ey i j k).2]
  · simp only [lossFactor, star_div₀, star_mul', star_ofNat, hr.c, heta, hsig.z i j k, (hr.ez i j k).2]

/-- **C01_bloch_lossy_decrement**: with a real electric conductivity σ (and real η₀) the sesquilinear energy changes
by exactly `− ⟨a·ε·(E'+E), E'+E⟩`, `a = c·σ·η₀·ε⁻¹/2`, provided the update's divisor `1 + a` is non-zero —
Bloch / periodic / zero halos, PEC / PMC walls, complex fields. -/
theorem C01_bloch_lossy_decrement (cf : Cfg K) (W : Widths K) (ref : K) (m : Mat K) (eps mu : V3 K) (E H : V3 K)
    (sig : V3 K)
    (hm : MetricOK cf W ref) (hh : HalosBloch cf) (hs : ScalesReal cf) (hr : RealData cf W m eps mu)
    (hmat : MatOK m eps mu) (hw : WallOK cf E H)
    (hsE : m.sigE = some sig) (hsH : m.sigH = none)
    (heta : star cf.eta0 = cf.eta0) (hsig : RealV sig)
    (hdiv : ∀ i j k, 1 + (lossFactor cf m sig).x i j k ≠ 0 ∧ 1 + (lossFactor cf m sig).y i j k ≠ 0
      ∧ 1 + (lossFactor cf m sig).z i j k ≠ 0) :
    energyC cf W eps mu (forward cf m zeroV zeroV E H).1 (forward cf m zeroV zeroV E H).2
      = energyC cf W eps mu E H
        - pairEs cf W (mulV (mulV (lossFactor cf m sig) eps) (addV (forward cf m zeroV zeroV E H).1 E))
            (addV (forward cf m zeroV zeroV E H).1 E) :=
  bloch_energy_balance cf W ref m eps mu E H hm hh hs hr hmat hw hsH (lossFactor cf m sig)
    (lossFactor_real cf W m eps mu sig hr heta hsig)
    (fun i j k => ⟨(hdiv i j k).1, by simp [stepE, projE, maskV, addV, zeroV, constV, hsE, optAt, updE1, lossFactor]⟩)
    (fun i j k => ⟨(hdiv i j k).2.1, by simp [stepE, projE, maskV, addV, zeroV, constV, hsE, optAt, updE1, lossFactor]⟩)
    (fun i j k => ⟨(hdiv i j k).2.2, by simp [stepE, projE, maskV, addV, zeroV, constV, hsE, optAt, updE1, lossFactor]⟩)

/-- **C01_bloch_energy_steps**: any number of steps. -/
theorem C01_bloch_energy_steps (cf : Cfg K) (W : Widths K) (ref : K) (m : Mat K) (eps mu : V3 K) (E H : V3 K)
    (hm : MetricOK cf W ref) (hh : HalosBloch cf) (hs : ScalesReal cf) (hr : RealData cf W m eps mu)
    (hmat : MatOK m eps mu) (hw : WallOK cf E H) (hsE : m.sigE = none) (hsH : m.sigH = none) (n : Nat) :
    energyC cf W eps mu (run cf m n (E, H)).1 (run cf m n (E, H)).2 = energyC cf W eps mu E H
      ∧ WallOK cf (run cf m n (E, H)).1 (run cf m n (E, H)).2 := by
  induction n with
  | zero => exact ⟨rfl, hw⟩
  | succ n ih =>
    obtain ⟨he, hwn⟩ := ih
    refine ⟨?_, C01_walls_preserved cf m zeroV zeroV _ _⟩
    show energyC cf W eps mu (forward cf m zeroV zeroV (run cf m n (E, H)).1 (run cf m n (E, H)).2).1
      (forward cf m zeroV zeroV (run cf m n (E, H)).1 (run cf m n (E, H)).2).2 = _
    rw [C01_bloch_energy_conserved cf W ref m eps mu _ _ hm hh hs hr hmat hwn hsE hsH, he]

end

/-! ### non-vacuity over ℂ: Bloch phase i on the x axis -/
section nonvacuous
open Complex
noncomputable def bxBC : AxisBC ℂ := ⟨true, I, -I, false, false, false, false⟩
noncomputable def bzero : AxisBC ℂ := ⟨false, 1, 1, true, false, false, false⟩
noncomputable def bCfg : Cfg ℂ :=
  { nx := 2, ny := 3, nz := 2, bx := bxBC, by_ := bzero, bz := bzero,
    sfx := fun _ => 1, sfy := fun _ => 1, sfz := fun _ => 1, sbx := fun _ => 1, sby := fun _ => 1, sbz := fun _ => 1,
    c := 1 / 2, eta0 := 1 }
example : HalosBloch bCfg := by
  constructor <;> intro _ <;> simp [bCfg, bxBC, bzero]
example : ScalesReal bCfg := by constructor <;> intro _ <;> simp [bCfg]
example : bxBC.pp ≠ 1 := by
  simp only [bxBC]; intro h; have := congrArg Complex.im h; simp at this
end nonvacuous

end Fdtdx.C01
