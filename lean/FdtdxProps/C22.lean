/-
C22 — Gaussian smoothing preserves constants and stays within the input range.

Theorems about `FdtdxModel/C22.lean`, for every design size `nx × ny ≥ 1 × 1`, kernel half-width `p`, every
present/absent pattern of the four padding vectors and every design:

for an arbitrary kernel table `k` (hypotheses as needed: `0 ≤ k`, `Σ k = 1`, mirror symmetry)
  C22_affine            smooth (t·x + (1−t)·x') = t·smooth x + (1−t)·smooth x'    (same paddings; any field)
  C22_linear_default    without padding vectors (edge replication): smooth (s·x + t·x') = s·smooth x + t·smooth x'
  C22_const             constant design, paddings absent or equal to the constant → output = the constant
  C22_range             lo ≤ design, paddings ≤ hi → lo ≤ output ≤ hi    (ordered field; convex combination)
  C22_mirror0/_mirror1  mirrored design with swapped / reversed paddings gives the mirrored output
and for the concrete normalised Gaussian table of the code (any `exp` with `exp > 0`, e.g. `Real.exp`)
  normKernel_nonneg, normKernel_sum_one, normKernel_symm0/1   discharge those hypotheses
  C22_gaussian          all of the above for `smooth Real.exp` with `std_discrete = σ ≥ 1`

`σ ≥ 1` is carried as a hypothesis in `C22_gaussian` although the algebra does not use it: for σ = 0 the code
computes `0/0` (NaN) whereas Lean's field division gives `0`, so the theorem would not be about the code.
-/
import FdtdxModel.C22
import FdtdxLemmas.C22
import Mathlib.Analysis.SpecialFunctions.Exp
import Mathlib.Tactic.Ring
import Mathlib.Tactic.Linarith
import Mathlib.Tactic.Positivity

namespace Fdtdx.C22
open Finset

/-! ### the padded array, point-wise -/

section field
variable {K : Type} [Field K]

/-- affine combinations pass through the padding (same padding vectors on both sides) -/
theorem padded_affine (p nx ny : Nat) (x y : Nat → Nat → K) (P : Pads K) (t : K) (r c : Nat) :
    padded p nx ny (fun i j => t * x i j + (1 - t) * y i j) P r c =
      t * padded p nx ny x P r c + (1 - t) * padded p nx ny y P r c := by
  obtain ⟨lo0, hi0, lo1, hi1⟩ := P
  unfold padded padRows
  cases lo0 <;> cases hi0 <;> cases lo1 <;> cases hi1 <;> simp only <;> split_ifs <;> ring

/-- with all four options `None` the padding is linear in the design -/
theorem padded_linear_default (p nx ny : Nat) (x y : Nat → Nat → K) (s t : K) (r c : Nat) :
    padded p nx ny (fun i j => s * x i j + t * y i j) ⟨none, none, none, none⟩ r c =
      s * padded p nx ny x ⟨none, none, none, none⟩ r c + t * padded p nx ny y ⟨none, none, none, none⟩ r c := by
  unfold padded padRows
  simp only
  split_ifs <;> rfl

/-- the paddings "match" the constant `v`: each is absent or constantly `v` -/
def PadsConst (P : Pads K) (v : K) : Prop :=
  (∀ f, P.lo0 = some f → ∀ i, f i = v) ∧ (∀ f, P.hi0 = some f → ∀ i, f i = v) ∧
  (∀ f, P.lo1 = some f → ∀ i, f i = v) ∧ (∀ f, P.hi1 = some f → ∀ i, f i = v)

theorem padded_const (p nx ny : Nat) (v : K) (P : Pads K) (hP : PadsConst P v) (r c : Nat) :
    padded p nx ny (fun _ _ => v) P r c = v := by
  obtain ⟨lo0, hi0, lo1, hi1⟩ := P
  obtain ⟨h0, h1, h2, h3⟩ := hP
  unfold padded padRows
  cases lo0 <;> cases hi0 <;> cases lo1 <;> cases hi1 <;> simp only <;> split_ifs <;>
    first | rfl | exact h0 _ rfl _ | exact h1 _ rfl _ | exact h2 _ rfl _ | exact h3 _ rfl _

/-- mirrored paddings for a flip of axis 0: low/high of axis 0 swapped, axis-1 vectors reversed -/
def Pads.mirror0 (nx : Nat) (P : Pads K) : Pads K :=
  ⟨P.hi0, P.lo0, P.lo1.map (fun f i => f (nx - 1 - i)), P.hi1.map (fun f i => f (nx - 1 - i))⟩

/-- … and of axis 1 -/
def Pads.mirror1 (ny : Nat) (P : Pads K) : Pads K :=
  ⟨P.lo0.map (fun f j => f (ny - 1 - j)), P.hi0.map (fun f j => f (ny - 1 - j)), P.hi1, P.lo1⟩

theorem extIdx_mirror (p nx r : Nat) (hnx : 0 < nx) (hr : r < nx + 2 * p) :
    nx - 1 - extIdx p nx r = extIdx p nx (nx + 2 * p - 1 - r) := by
  unfold extIdx
  split_ifs <;> omega

theorem padRows_mirror0 (p nx : Nat) (x : Nat → Nat → K) (P : Pads K) (hnx : 0 < nx) (r c : Nat)
    (hr : r < nx + 2 * p) :
    padRows p nx (fun i j => x (nx - 1 - i) j) (P.mirror0 nx) r c = padRows p nx x P (nx + 2 * p - 1 - r) c := by
  obtain ⟨lo0, hi0, lo1, hi1⟩ := P
  unfold padRows Pads.mirror0
  by_cases h1 : r < p
  · rw [if_pos h1, if_neg (by omega), if_neg (by omega)]
    cases hi0 <;> simp
  · by_cases h2 : r < p + nx
    · rw [if_neg h1, if_pos h2, if_neg (by omega), if_pos (by omega)]
      have e : nx - 1 - (r - p) = nx + 2 * p - 1 - r - p := by omega
      show x (nx - 1 - (r - p)) c = _
      rw [e]
    · rw [if_neg h1, if_neg h2, if_pos (by omega)]
      cases lo0 <;> simp

theorem padded_mirror0 (p nx ny : Nat) (x : Nat → Nat → K) (P : Pads K) (hnx : 0 < nx) (r c : Nat)
    (hr : r < nx + 2 * p) :
    padded p nx ny (fun i j => x (nx - 1 - i) j) (P.mirror0 nx) r c = padded p nx ny x P (nx + 2 * p - 1 - r) c := by
  have hrows := padRows_mirror0 p nx x P hnx r
  obtain ⟨lo0, hi0, lo1, hi1⟩ := P
  unfold padded
  have hm : (Pads.mirror0 nx ⟨lo0, hi0, lo1, hi1⟩ : Pads K) =
      ⟨hi0, lo0, lo1.map (fun f i => f (nx - 1 - i)), hi1.map (fun f i => f (nx - 1 - i))⟩ := rfl
  split_ifs
  · cases lo1 with
    | none => simpa [hm] using hrows 0 hr
    | some f => simp [hm, extIdx_mirror p nx r hnx hr]
  · exact hrows _ hr
  · cases hi1 with
    | none => simpa [hm] using hrows (ny - 1) hr
    | some f => simp [hm, extIdx_mirror p nx r hnx hr]

theorem padRows_mirror1 (p nx ny : Nat) (x : Nat → Nat → K) (P : Pads K) (r c : Nat) (_hc : c < ny) :
    padRows p nx (fun i j => x i (ny - 1 - j)) (P.mirror1 ny) r c = padRows p nx x P r (ny - 1 - c) := by
  obtain ⟨lo0, hi0, lo1, hi1⟩ := P
  unfold padRows Pads.mirror1
  split_ifs
  · cases lo0 <;> simp
  · rfl
  · cases hi0 <;> simp

theorem padded_mirror1 (p nx ny : Nat) (x : Nat → Nat → K) (P : Pads K) (hny : 0 < ny) (r c : Nat)
    (hc : c < ny + 2 * p) :
    padded p nx ny (fun i j => x i (ny - 1 - j)) (P.mirror1 ny) r c = padded p nx ny x P r (ny + 2 * p - 1 - c) := by
  have hrows := padRows_mirror1 p nx ny x P r
  obtain ⟨lo0, hi0, lo1, hi1⟩ := P
  have hm : (Pads.mirror1 ny ⟨lo0, hi0, lo1, hi1⟩ : Pads K) =
      ⟨lo0.map (fun f j => f (ny - 1 - j)), hi0.map (fun f j => f (ny - 1 - j)), hi1, lo1⟩ := rfl
  unfold padded
  by_cases h1 : c < p
  · rw [if_pos h1, if_neg (by omega), if_neg (by omega)]
    cases hi1 with
    | none =>
      have := hrows 0 hny
      simp only [hm] at this ⊢
      rw [this]; congr 1
    | some f => simp [hm]
  · by_cases h2 : c < p + ny
    · rw [if_neg h1, if_pos h2, if_neg (by omega), if_pos (by omega)]
      have := hrows (c - p) (by omega)
      rw [this]; congr 1; omega
    · rw [if_neg h1, if_neg h2, if_pos (by omega)]
      cases lo1 with
      | none =>
        have := hrows (ny - 1) (by omega)
        simp only [hm] at this ⊢
        rw [this]; congr 1; omega
      | some f => simp [hm]

end field

/-! ### property theorems for an arbitrary kernel table -/

section kernel
variable {K : Type} [Field K]
variable (p : Nat) (k : Nat → Nat → K) (nx ny : Nat)

/-- C22_affine: affine combinations of designs (same padding vectors) are preserved. -/
theorem C22_affine (x y : Nat → Nat → K) (P : Pads K) (t : K) (i j : Nat) :
    smoothWith p k nx ny (fun a b => t * x a b + (1 - t) * y a b) P i j =
      t * smoothWith p k nx ny x P i j + (1 - t) * smoothWith p k nx ny y P i j := by
  unfold smoothWith
  rw [← conv_comb]
  congr 1
  funext r c
  exact padded_affine p nx ny x y P t r c

/-- C22_linear_default: with edge-replicated (default) padding the smoothing is linear. -/
theorem C22_linear_default (x y : Nat → Nat → K) (s t : K) (i j : Nat) :
    smoothWith p k nx ny (fun a b => s * x a b + t * y a b) ⟨none, none, none, none⟩ i j =
      s * smoothWith p k nx ny x ⟨none, none, none, none⟩ i j +
        t * smoothWith p k nx ny y ⟨none, none, none, none⟩ i j := by
  unfold smoothWith
  rw [← conv_comb]
  congr 1
  funext r c
  exact padded_linear_default p nx ny x y s t r c

/-- C22_const: a constant design with default or matching padding is unchanged (kernel sums to one). -/
theorem C22_const (hsum : ∑ a ∈ range (2 * p + 1), ∑ b ∈ range (2 * p + 1), k a b = 1)
    (v : K) (P : Pads K) (hP : PadsConst P v) (i j : Nat) :
    smoothWith p k nx ny (fun _ _ => v) P i j = v := by
  unfold smoothWith
  have : padded p nx ny (fun _ _ => v) P = fun _ _ => v := by
    funext r c; exact padded_const p nx ny v P hP r c
  rw [this]
  exact conv_const p k v hsum i j

/-- C22_mirror0: flipping the design along axis 0, with the axis-0 paddings swapped and the axis-1 paddings
reversed, flips the output (kernel symmetric along axis 0). -/
theorem C22_mirror0 (hk : ∀ a b, a ≤ 2 * p → k (2 * p - a) b = k a b) (hnx : 0 < nx)
    (x : Nat → Nat → K) (P : Pads K) {i : Nat} (hi : i < nx) (j : Nat) :
    smoothWith p k nx ny (fun a b => x (nx - 1 - a) b) (P.mirror0 nx) i j = smoothWith p k nx ny x P (nx - 1 - i) j := by
  unfold smoothWith
  exact conv_mirror0 p nx k _ _ hk (fun r c hr => padded_mirror0 p nx ny x P hnx r c hr) hi j

/-- C22_mirror1: the same along axis 1. -/
theorem C22_mirror1 (hk : ∀ a b, b ≤ 2 * p → k a (2 * p - b) = k a b) (hny : 0 < ny)
    (x : Nat → Nat → K) (P : Pads K) (i : Nat) {j : Nat} (hj : j < ny) :
    smoothWith p k nx ny (fun a b => x a (ny - 1 - b)) (P.mirror1 ny) i j = smoothWith p k nx ny x P i (ny - 1 - j) := by
  unfold smoothWith
  exact conv_mirror1 p ny k _ _ hk (fun r c hc => padded_mirror1 p nx ny x P hny r c hc) i hj

end kernel

section ordered
variable {K : Type} [Field K] [LinearOrder K] [IsStrictOrderedRing K]

/-- all design entries and all entries of the present padding vectors lie in `[lo, hi]` -/
def InRange (nx ny : Nat) (x : Nat → Nat → K) (P : Pads K) (lo hi : K) : Prop :=
  (∀ i j, i < nx → j < ny → lo ≤ x i j ∧ x i j ≤ hi) ∧
  (∀ f, P.lo0 = some f → ∀ j, j < ny → lo ≤ f j ∧ f j ≤ hi) ∧
  (∀ f, P.hi0 = some f → ∀ j, j < ny → lo ≤ f j ∧ f j ≤ hi) ∧
  (∀ f, P.lo1 = some f → ∀ i, i < nx → lo ≤ f i ∧ f i ≤ hi) ∧
  (∀ f, P.hi1 = some f → ∀ i, i < nx → lo ≤ f i ∧ f i ≤ hi)

theorem padRows_mem {p nx ny : Nat} {x : Nat → Nat → K} {P : Pads K} {lo hi : K} (hnx : 0 < nx)
    (h : InRange nx ny x P lo hi) (r c : Nat) (hc : c < ny) :
    lo ≤ padRows p nx x P r c ∧ padRows p nx x P r c ≤ hi := by
  obtain ⟨hx, h0, h1, _, _⟩ := h
  unfold padRows
  split_ifs
  · cases hP : P.lo0 with
    | none => exact hx 0 c hnx hc
    | some f => exact h0 f hP c hc
  · exact hx _ c (by omega) hc
  · cases hP : P.hi0 with
    | none => exact hx _ c (by omega) hc
    | some f => exact h1 f hP c hc

theorem padded_mem {p nx ny : Nat} {x : Nat → Nat → K} {P : Pads K} {lo hi : K} (hnx : 0 < nx) (hny : 0 < ny)
    (h : InRange nx ny x P lo hi) (r c : Nat) :
    lo ≤ padded p nx ny x P r c ∧ padded p nx ny x P r c ≤ hi := by
  have hrows := fun r c hc => padRows_mem (p := p) hnx h r c hc
  obtain ⟨_, _, _, h2, h3⟩ := h
  have hext : extIdx p nx r < nx := by unfold extIdx; split_ifs <;> omega
  unfold padded
  split_ifs
  · cases hP : P.lo1 with
    | none => exact hrows r 0 hny
    | some f => exact h2 f hP _ hext
  · exact hrows r _ (by omega)
  · cases hP : P.hi1 with
    | none => exact hrows r _ (by omega)
    | some f => exact h3 f hP _ hext

/-- C22_range: every output value lies between bounds of the design and of the padding values
(non-negative kernel summing to one). -/
theorem C22_range (p : Nat) (k : Nat → Nat → K) (hk : ∀ a b, 0 ≤ k a b)
    (hsum : ∑ a ∈ range (2 * p + 1), ∑ b ∈ range (2 * p + 1), k a b = 1)
    {nx ny : Nat} (hnx : 0 < nx) (hny : 0 < ny) {x : Nat → Nat → K} {P : Pads K} {lo hi : K}
    (h : InRange nx ny x P lo hi) (i j : Nat) :
    lo ≤ smoothWith p k nx ny x P i j ∧ smoothWith p k nx ny x P i j ≤ hi := by
  unfold smoothWith
  exact conv_bounds p k _ lo hi hk hsum (fun r c => padded_mem hnx hny h r c) i j

end ordered

/-! ### the concrete kernel of the code -/

section gauss
variable {K : Type} [Field K] [LinearOrder K] [IsStrictOrderedRing K]
variable (ex : K → K) (hex : ∀ t, 0 < ex t) (cast : Nat → K) (σ : Nat)

include hex in
theorem rawKernel_pos (a b : Nat) : 0 < rawKernel ex cast σ a b := hex _

include hex in
theorem kernelTotal_pos : 0 < kernelTotal ex cast σ := by
  unfold kernelTotal
  rw [sumRange_eq_sum]
  apply sum_pos
  · intro a _
    rw [sumRange_eq_sum]
    exact sum_pos (fun b _ => rawKernel_pos ex hex cast σ a b) (by simp)
  · simp

include hex in
/-- normalising a positive table gives non-negative entries … -/
theorem normKernel_nonneg (a b : Nat) : 0 ≤ normKernel ex cast σ a b :=
  div_nonneg (rawKernel_pos ex hex cast σ a b).le (kernelTotal_pos ex hex cast σ).le

include hex in
/-- … that sum to one -/
theorem normKernel_sum_one :
    ∑ a ∈ range (2 * (3 * σ) + 1), ∑ b ∈ range (2 * (3 * σ) + 1), normKernel ex cast σ a b = 1 := by
  have e : 2 * (3 * σ) + 1 = 6 * σ + 1 := by ring
  rw [e]
  unfold normKernel
  simp only [← sum_div]
  have : ∑ a ∈ range (6 * σ + 1), ∑ b ∈ range (6 * σ + 1), rawKernel ex cast σ a b = kernelTotal ex cast σ := by
    unfold kernelTotal
    rw [sumRange_eq_sum]
    exact sum_congr rfl fun a _ => (sumRange_eq_sum _ _).symm
  rw [this]
  exact div_self (kernelTotal_pos ex hex cast σ).ne'

theorem dist2_symm0 (p a b : Nat) (ha : a ≤ 2 * p) : dist2 p (2 * p - a) b = dist2 p a b := by
  unfold dist2
  have : ((↑(2 * p - a) : Int) - ↑p).natAbs = ((↑a : Int) - ↑p).natAbs := by omega
  rw [this]

theorem dist2_symm1 (p a b : Nat) (hb : b ≤ 2 * p) : dist2 p a (2 * p - b) = dist2 p a b := by
  unfold dist2
  have : ((↑(2 * p - b) : Int) - ↑p).natAbs = ((↑b : Int) - ↑p).natAbs := by omega
  rw [this]

theorem normKernel_symm0 (a b : Nat) (ha : a ≤ 2 * (3 * σ)) :
    normKernel ex cast σ (2 * (3 * σ) - a) b = normKernel ex cast σ a b := by
  unfold normKernel rawKernel
  rw [dist2_symm0 _ _ _ ha]

theorem normKernel_symm1 (a b : Nat) (hb : b ≤ 2 * (3 * σ)) :
    normKernel ex cast σ a (2 * (3 * σ) - b) = normKernel ex cast σ a b := by
  unfold normKernel rawKernel
  rw [dist2_symm1 _ _ _ hb]

end gauss

/-- C22_gaussian: the four clauses of the property for `GaussianSmoothing2D` itself, with `Real.exp`, every
`std_discrete = σ ≥ 1`, every design size ≥ 1 × 1 and every padding pattern. -/
theorem C22_gaussian (σ : Nat) (_hσ : 1 ≤ σ) (nx ny : Nat) (hnx : 0 < nx) (hny : 0 < ny)
    (x y : Nat → Nat → ℝ) (P : Pads ℝ) :
    let S := smooth Real.exp (fun n => (n : ℝ)) σ nx ny
    -- affine
    (∀ t i j, S (fun a b => t * x a b + (1 - t) * y a b) P i j = t * S x P i j + (1 - t) * S y P i j) ∧
    -- linear with default padding
    (∀ s t i j, S (fun a b => s * x a b + t * y a b) ⟨none, none, none, none⟩ i j =
        s * S x ⟨none, none, none, none⟩ i j + t * S y ⟨none, none, none, none⟩ i j) ∧
    -- constants
    (∀ v, PadsConst P v → ∀ i j, S (fun _ _ => v) P i j = v) ∧
    -- range
    (∀ lo hi, InRange nx ny x P lo hi → ∀ i j, lo ≤ S x P i j ∧ S x P i j ≤ hi) ∧
    -- mirroring
    (∀ i j, i < nx → S (fun a b => x (nx - 1 - a) b) (P.mirror0 nx) i j = S x P (nx - 1 - i) j) ∧
    (∀ i j, j < ny → S (fun a b => x a (ny - 1 - b)) (P.mirror1 ny) i j = S x P i (ny - 1 - j)) := by
  intro S
  have hex : ∀ t : ℝ, 0 < Real.exp t := Real.exp_pos
  refine ⟨fun t i j => C22_affine _ _ nx ny x y P t i j, fun s t i j => C22_linear_default _ _ nx ny x y s t i j,
    fun v hP i j => C22_const _ _ nx ny (normKernel_sum_one Real.exp hex _ σ) v P hP i j,
    fun lo hi h i j => C22_range _ _ (normKernel_nonneg Real.exp hex _ σ) (normKernel_sum_one Real.exp hex _ σ) hnx hny h i j,
    fun i j hi => C22_mirror0 _ _ nx ny (fun a b ha => normKernel_symm0 Real.exp _ σ a b ha) hnx x P hi j,
    fun i j hj => C22_mirror1 _ _ nx ny (fun a b hb => normKernel_symm1 Real.exp _ σ a b hb) hny x P i hj⟩

-- non-vacuity: hypotheses are satisfiable by concrete non-trivial data
example : InRange 2 2 (fun i j => ((i + 2 * j : Nat) : ℚ)) ⟨some (fun _ => 1), none, none, some (fun i => (i : ℚ))⟩ 0 3 := by
  refine ⟨fun i j hi hj => ?_, fun f hf j hj => ?_, fun f hf => by simp at hf, fun f hf => by simp at hf,
    fun f hf i hi => ?_⟩
  · have : i + 2 * j ≤ 3 := by omega
    show (0 : ℚ) ≤ ((i + 2 * j : Nat) : ℚ) ∧ ((i + 2 * j : Nat) : ℚ) ≤ 3
    constructor
    · positivity
    · exact_mod_cast this
  · simp only [Option.some.injEq] at hf; subst hf; norm_num
  · simp only [Option.some.injEq] at hf; subst hf
    have : i ≤ 3 := by omega
    show (0 : ℚ) ≤ (i : ℚ) ∧ (i : ℚ) ≤ 3
    constructor
    · positivity
    · exact_mod_cast this
example : PadsConst (⟨some (fun _ => (5 : ℚ)), none, none, some (fun _ => 5)⟩ : Pads ℚ) 5 := by
  refine ⟨?_, ?_, ?_, ?_⟩ <;> intro f hf <;> simp at hf <;> (try subst hf) <;> simp
example : dist2 3 0 5 = 13 ∧ dist2 3 (2 * 3 - 0) 5 = 13 := by decide

end Fdtdx.C22
