/-
C29 — Sources and detectors see the device materials after parameters are applied.

Property theorems about `FdtdxModel/C29.lean` (all boxes with integer coordinates, any number of objects and
devices, any state type, any `apply`):

  C29_checkOverlap_iff       check_overlap a b  ↔  the closed index ranges intersect on every axis
                             (= the closed boxes have a common point); touching counts, as the unit tests fix
  C29_checkOverlap_symm      check_overlap a b = check_overlap b a
  C29_sharesCell_overlap     two boxes that share a grid cell (half-open cell ranges) overlap
  C29_reapplied              every object that shares a cell with a device is re-applied by the object loop of
                             apply_params: its state is `apply post-device-arrays obj`, its box is unchanged
  C29_untouched_elsewhere    objects the predicate rejects for every device are left exactly as they were
  C29_all_objects_current    place_objects step 11 followed by apply_params: EVERY object carries the state
                             `apply post obj`, provided `apply` reads the arrays only inside the object's box and
                             the parameters change the arrays only inside device boxes
  C29_loops_partition        each object is applied by exactly one of the two loops
  C29_decision               for EVERY object of the list, whatever its kind: re-applied by apply_params (and deferred
                             at placement) ⇔ check_overlap holds with some Device of the list
  C29_decision_box_only      the decision depends on the object's box only (never on its class or state)

Refutation of the full statement for the tree as found (before the `fix:` commit): `asFound_*` at the end.
-/
import FdtdxModel.C29
import Mathlib.Tactic.Linarith

namespace Fdtdx.C29

/-! ### the predicate -/

/-- the closed index ranges `[a.1, a.2]` and `[b.1, b.2]` have a common point -/
def closedMeet (a b : Iv) : Prop := ∃ t : Int, a.1 ≤ t ∧ t ≤ a.2 ∧ b.1 ≤ t ∧ t ≤ b.2

/-- a point of the closed box -/
def inClosedBox (p : Int × Int × Int) (b : Box) : Prop :=
  b.x.1 ≤ p.1 ∧ p.1 ≤ b.x.2 ∧ b.y.1 ≤ p.2.1 ∧ p.2.1 ≤ b.y.2 ∧ b.z.1 ≤ p.2.2 ∧ p.2.2 ≤ b.z.2

/-- a grid cell of the box (`grid_slice` = `slice(start, end)` on each axis) -/
def inBox (c : Int × Int × Int) (b : Box) : Prop :=
  b.x.1 ≤ c.1 ∧ c.1 < b.x.2 ∧ b.y.1 ≤ c.2.1 ∧ c.2.1 < b.y.2 ∧ b.z.1 ≤ c.2.2 ∧ c.2.2 < b.z.2

/-- the two boxes have a grid cell in common -/
def sharesCell (a b : Box) : Prop := ∃ c, inBox c a ∧ inBox c b

/-- what `place_on_grid` guarantees: `start < end` on every axis (it raises otherwise) -/
def Box.wf (b : Box) : Prop := b.x.1 < b.x.2 ∧ b.y.1 < b.y.2 ∧ b.z.1 < b.z.2

instance (c : Int × Int × Int) (b : Box) : Decidable (inBox c b) := by unfold inBox; infer_instance
instance (b : Box) : Decidable b.wf := by unfold Box.wf; infer_instance

theorem meetAxis_iff_le (a b : Iv) : meetAxis a b = true ↔ a.1 ≤ b.2 ∧ b.1 ≤ a.2 := by
  simp only [meetAxis, Bool.not_eq_true', Bool.or_eq_false_iff, decide_eq_false_iff_not]
  omega

theorem meetAxis_iff (a b : Iv) (ha : a.1 ≤ a.2) (hb : b.1 ≤ b.2) : meetAxis a b = true ↔ closedMeet a b := by
  rw [meetAxis_iff_le]
  constructor
  · rintro ⟨h1, h2⟩
    by_cases h : a.1 ≤ b.1
    · exact ⟨b.1, h, h2, le_refl _, hb⟩
    · exact ⟨a.1, le_refl _, ha, by omega, h1⟩
  · rintro ⟨t, h1, h2, h3, h4⟩
    omega

theorem checkOverlap_iff_le (a b : Box) :
    checkOverlap a b = true ↔
      (a.x.1 ≤ b.x.2 ∧ b.x.1 ≤ a.x.2) ∧ (a.y.1 ≤ b.y.2 ∧ b.y.1 ≤ a.y.2) ∧ (a.z.1 ≤ b.z.2 ∧ b.z.1 ≤ a.z.2) := by
  simp only [checkOverlap, Bool.and_eq_true, meetAxis_iff_le, and_assoc]

/-- **C29 (predicate)**: for placed boxes, `check_overlap` holds exactly when the closed index ranges intersect
on every axis. -/
theorem C29_checkOverlap_iff (a b : Box) (ha : a.wf) (hb : b.wf) :
    checkOverlap a b = true ↔ closedMeet a.x b.x ∧ closedMeet a.y b.y ∧ closedMeet a.z b.z := by
  obtain ⟨a1, a2, a3⟩ := ha
  obtain ⟨b1, b2, b3⟩ := hb
  simp only [checkOverlap, Bool.and_eq_true, and_assoc]
  rw [meetAxis_iff _ _ (by omega) (by omega), meetAxis_iff _ _ (by omega) (by omega),
    meetAxis_iff _ _ (by omega) (by omega)]

/-- the same as one statement about boxes: the closed boxes have a common point -/
theorem C29_checkOverlap_iff_common_point (a b : Box) (ha : a.wf) (hb : b.wf) :
    checkOverlap a b = true ↔ ∃ p, inClosedBox p a ∧ inClosedBox p b := by
  rw [C29_checkOverlap_iff a b ha hb]
  constructor
  · rintro ⟨⟨tx, hx⟩, ⟨ty, hy⟩, ⟨tz, hz⟩⟩
    exact ⟨(tx, ty, tz), ⟨hx.1, hx.2.1, hy.1, hy.2.1, hz.1, hz.2.1⟩, ⟨hx.2.2.1, hx.2.2.2, hy.2.2.1, hy.2.2.2, hz.2.2.1, hz.2.2.2⟩⟩
  · rintro ⟨p, ⟨h1, h2, h3, h4, h5, h6⟩, ⟨g1, g2, g3, g4, g5, g6⟩⟩
    exact ⟨⟨p.1, h1, h2, g1, g2⟩, ⟨p.2.1, h3, h4, g3, g4⟩, ⟨p.2.2, h5, h6, g5, g6⟩⟩

/-- **C29 (symmetry)** -/
theorem C29_checkOverlap_symm (a b : Box) : checkOverlap a b = checkOverlap b a := by
  rw [Bool.eq_iff_iff, checkOverlap_iff_le, checkOverlap_iff_le]
  omega

/-- **C29 (no miss)**: boxes that share a grid cell overlap — whatever their relation on each axis
(containment in either direction, partial overlap, equality). -/
theorem C29_sharesCell_overlap (a b : Box) (h : sharesCell a b) : checkOverlap a b = true := by
  obtain ⟨c, ⟨h1, h2, h3, h4, h5, h6⟩, ⟨g1, g2, g3, g4, g5, g6⟩⟩ := h
  rw [checkOverlap_iff_le]
  omega

/-- the only boxes accepted without a common cell are those that touch: on some axis one ends exactly where
the other starts -/
theorem overlap_without_cell_touches (a b : Box) (ha : a.wf) (hb : b.wf)
    (h : checkOverlap a b = true) (hn : ¬ sharesCell a b) :
    a.x.2 = b.x.1 ∨ b.x.2 = a.x.1 ∨ a.y.2 = b.y.1 ∨ b.y.2 = a.y.1 ∨ a.z.2 = b.z.1 ∨ b.z.2 = a.z.1 := by
  rw [checkOverlap_iff_le] at h
  obtain ⟨a1, a2, a3⟩ := ha
  obtain ⟨b1, b2, b3⟩ := hb
  by_contra hc
  apply hn
  refine ⟨(max a.x.1 b.x.1, max a.y.1 b.y.1, max a.z.1 b.z.1), ?_, ?_⟩ <;>
    simp only [inBox] <;> omega

/-! ### the two object loops -/

section loops
variable {σ A : Type}

theorem overlapsDeviceWith_eq_any (ov : Box → Box → Bool) (objs : List (Obj σ)) (o : Obj σ) :
    overlapsDeviceWith ov objs o = objs.any (fun d => d.isDevice && ov d.box o.box) := by
  simp [overlapsDeviceWith, List.any_filter]

theorem overlapsDeviceWith_true_iff (ov : Box → Box → Bool) (objs : List (Obj σ)) (o : Obj σ) :
    overlapsDeviceWith ov objs o = true ↔ ∃ d ∈ objs, d.isDevice = true ∧ ov d.box o.box = true := by
  simp [overlapsDeviceWith_eq_any, List.any_eq_true]

/-- the device test looks at the box of the object only -/
theorem overlapsDeviceWith_st (ov : Box → Box → Bool) (objs : List (Obj σ)) (o : Obj σ) (s : σ) :
    overlapsDeviceWith ov objs { o with st := s } = overlapsDeviceWith ov objs o := rfl

/-- a map that keeps boxes and device flags does not change the device test (apply never moves an object) -/
theorem overlapsDeviceWith_map (ov : Box → Box → Bool) (f : Obj σ → Obj σ)
    (hb : ∀ o, (f o).box = o.box) (hd : ∀ o, (f o).isDevice = o.isDevice) (objs : List (Obj σ)) (o : Obj σ) :
    overlapsDeviceWith ov (objs.map f) o = overlapsDeviceWith ov objs o := by
  rw [overlapsDeviceWith_eq_any, overlapsDeviceWith_eq_any, List.any_map]
  congr 1
  funext d
  simp [hb, hd]

@[simp] theorem placeLoopWith_length (ov) (apply : A → Obj σ → σ) (arr : A) (objs : List (Obj σ)) :
    (placeLoopWith ov apply arr objs).length = objs.length := by simp [placeLoopWith]

@[simp] theorem paramsLoopWith_length (ov) (apply : A → Obj σ → σ) (arr : A) (objs : List (Obj σ)) :
    (paramsLoopWith ov apply arr objs).length = objs.length := by simp [paramsLoopWith]

/-- **C29 (corollary, apply_params)**: an object that shares a grid cell with some device of the scene is
re-applied against the arrays handed to the loop (the post-device materials); it keeps its box. -/
theorem C29_reapplied (apply : A → Obj σ → σ) (post : A) (objs : List (Obj σ)) (i : Nat) (hi : i < objs.length)
    (d : Obj σ) (hd : d ∈ objs) (hdev : d.isDevice = true) (hshare : sharesCell d.box objs[i].box) :
    ((paramsLoop apply post objs)[i]'(by simpa [paramsLoop] using hi)).st = apply post objs[i]
      ∧ ((paramsLoop apply post objs)[i]'(by simpa [paramsLoop] using hi)).box = objs[i].box := by
  have hov : overlapsDeviceWith checkOverlap objs objs[i] = true :=
    (overlapsDeviceWith_true_iff _ _ _).mpr ⟨d, hd, hdev, C29_sharesCell_overlap _ _ hshare⟩
  simp [paramsLoop, paramsLoopWith, hov]

/-- objects rejected for every device pass through `apply_params` untouched -/
theorem C29_untouched_elsewhere (apply : A → Obj σ → σ) (post : A) (objs : List (Obj σ)) (i : Nat)
    (hi : i < objs.length) (hno : ∀ d ∈ objs, d.isDevice = true → checkOverlap d.box objs[i].box = false) :
    (paramsLoop apply post objs)[i]'(by simpa [paramsLoop] using hi) = objs[i] := by
  have hov : overlapsDeviceWith checkOverlap objs objs[i] = false := by
    rw [Bool.eq_false_iff]
    intro h
    obtain ⟨d, hd, hdev, ho⟩ := (overlapsDeviceWith_true_iff _ _ _).mp h
    rw [hno d hd hdev] at ho
    exact Bool.noConfusion ho
  simp [paramsLoop, paramsLoopWith, hov]

/-- each object is applied by exactly one of the two loops (tagging the two `apply`s) -/
theorem C29_loops_partition (objs : List (Obj Bool)) (i : Nat) (hi : i < objs.length) :
    ((paramsLoop (fun (_ : Unit) _ => true) () (placeLoop (fun (_ : Unit) _ => false) () objs))[i]'(by
        simpa [paramsLoop, placeLoop] using hi)).st = overlapsDevice objs objs[i] := by
  have hmap : ∀ o : Obj Bool, overlapsDeviceWith checkOverlap
      (List.map (fun o => if overlapsDeviceWith checkOverlap objs o = true then o else { o with st := false }) objs) o
      = overlapsDeviceWith checkOverlap objs o := by
    intro o
    apply overlapsDeviceWith_map <;> intro o' <;> split <;> rfl
  simp only [paramsLoop, paramsLoopWith, placeLoop, placeLoopWith, List.getElem_map, hmap, overlapsDevice]
  by_cases h : overlapsDeviceWith checkOverlap objs objs[i] = true
  · simp [h]
  · simp [h, overlapsDeviceWith_st]

/-- **C29 (decision, every object of the list, whatever its kind)**: an object is deferred by `place_objects` and
re-applied by `apply_params` exactly when `check_overlap` holds for it and some Device of the list; otherwise it is
applied at placement and left alone afterwards.  `Obj` has no kind field: sources, detectors (incl. mode-overlap
detectors), the volume, static objects and the devices themselves all obey the same rule. -/
theorem C29_decision (objs : List (Obj Bool)) (i : Nat) (hi : i < objs.length) :
    ((paramsLoop (fun (_ : Unit) _ => true) () (placeLoop (fun (_ : Unit) _ => false) () objs))[i]'(by
        simpa [paramsLoop, placeLoop] using hi)).st = true ↔
      ∃ d ∈ objs, d.isDevice = true ∧ checkOverlap d.box objs[i].box = true := by
  rw [C29_loops_partition objs i hi, overlapsDevice, overlapsDeviceWith_true_iff]

/-- the decision reads nothing but the box of the object: two list entries with the same box (a source and a
detector, say) get the same decision, whatever their state or class -/
theorem C29_decision_box_only (objs : List (Obj σ)) (o o' : Obj σ) (h : o.box = o'.box) :
    overlapsDevice objs o = overlapsDevice objs o' := by
  simp only [overlapsDevice, overlapsDeviceWith, h]

/-- **C29 (whole pipeline)**: arrays are functions of the grid cell.  If `apply` reads the arrays only inside
the object's own box and the parameters change the arrays only
inside device boxes, then after `place_objects` (arrays `pre`) and `apply_params` (arrays `post`) EVERY object
— inside a device, partially overlapping, touching, or far away — carries the state it would get from being set
up against the post-device materials. -/
theorem C29_all_objects_current {V : Type} (apply : (Int × Int × Int → V) → Obj σ → σ)
    (pre post : Int × Int × Int → V) (objs : List (Obj σ))
    (hlocal : ∀ (o : Obj σ) (a a' : Int × Int × Int → V), (∀ c, inBox c o.box → a c = a' c) → apply a o = apply a' o)
    (hdev : ∀ c, (∀ d ∈ objs, d.isDevice = true → ¬ inBox c d.box) → post c = pre c)
    (i : Nat) (hi : i < objs.length) :
    ((paramsLoop apply post (placeLoop apply pre objs))[i]'(by simpa [paramsLoop, placeLoop] using hi)).st
      = apply post objs[i] := by
  have hmap : ∀ o : Obj σ, overlapsDeviceWith checkOverlap
      (List.map (fun o => if overlapsDeviceWith checkOverlap objs o = true then o else { o with st := apply pre o }) objs) o
      = overlapsDeviceWith checkOverlap objs o := by
    intro o
    apply overlapsDeviceWith_map <;> intro o' <;> split <;> rfl
  simp only [paramsLoop, paramsLoopWith, placeLoop, placeLoopWith, List.getElem_map, hmap]
  by_cases h : overlapsDeviceWith checkOverlap objs objs[i] = true
  · simp [h]
  · simp only [h, Bool.false_eq_true, if_false]
    -- not re-applied: the state is `apply pre o`, and `post` agrees with `pre` on the object's cells
    have hpre : apply pre objs[i] = apply post objs[i] := by
      apply hlocal
      intro c hc
      symm
      apply hdev
      intro d hd hdd hcd
      apply h
      exact (overlapsDeviceWith_true_iff _ _ _).mpr ⟨d, hd, hdd, C29_sharesCell_overlap _ _ ⟨c, hcd, hc⟩⟩
    simpa [overlapsDeviceWith_st, h] using hpre

end loops

/-! ### non-vacuity: concrete boxes meeting the hypotheses -/

def dev : Box := ⟨(1, 7), (1, 7), (1, 7)⟩
def inner : Box := ⟨(3, 4), (3, 4), (3, 4)⟩
def touching : Box := ⟨(7, 8), (0, 8), (0, 8)⟩
def apart : Box := ⟨(0, 1), (2, 3), (5, 6)⟩
def far : Box := ⟨(9, 10), (2, 3), (2, 3)⟩

example : dev.wf ∧ inner.wf ∧ touching.wf := by decide
example : sharesCell dev inner := ⟨(3, 3, 3), by decide, by decide⟩
example : checkOverlap dev inner = true ∧ checkOverlap inner dev = true := by decide
-- touching is accepted (as `test_touching_objects_reported_as_overlapping` demands) although no cell is shared
example : checkOverlap dev touching = true := by decide
example : ¬ sharesCell dev touching := by
  rintro ⟨c, ⟨_, h2, _⟩, ⟨g1, _⟩⟩
  simp only [dev, touching] at h2 g1
  omega
example : checkOverlap dev far = false := by decide
-- the unit tests of the repository
example : checkOverlap ⟨(0, 10), (0, 10), (0, 10)⟩ ⟨(5, 15), (5, 15), (5, 15)⟩ = true
    ∧ checkOverlap ⟨(0, 5), (0, 5), (0, 5)⟩ ⟨(10, 15), (10, 15), (10, 15)⟩ = false
    ∧ checkOverlap ⟨(0, 5), (0, 5), (0, 5)⟩ ⟨(5, 10), (0, 5), (0, 5)⟩ = true := by decide
-- hypotheses of C29_all_objects_current are satisfiable: apply = value of the array at the object's low corner,
-- pre = 1 everywhere, post = 4 inside the device
example :
    let apply := fun (a : Int × Int × Int → Nat) (o : Obj Nat) => a (o.box.x.1, o.box.y.1, o.box.z.1)
    let post := fun (c : Int × Int × Int) => if 1 ≤ c.1 ∧ c.1 < 7 ∧ 1 ≤ c.2.1 ∧ c.2.1 < 7 ∧ 1 ≤ c.2.2 ∧ c.2.2 < 7 then 4 else 1
    ((paramsLoop apply post (placeLoop apply (fun _ => 1) [⟨dev, true, 0⟩, ⟨inner, false, 0⟩, ⟨far, false, 0⟩])).map (·.st))
      = [4, 4, 1] := by decide

/-! ### refutation of the full statement for the tree as found (before the `fix:` commit) -/

/-- as found: a source strictly inside the device on all three axes is not seen by the device … -/
example : AsFound.checkOverlap dev inner = false ∧ sharesCell dev inner :=
  ⟨by decide, ⟨(3, 3, 3), by decide, by decide⟩⟩
/-- … the predicate is not symmetric … -/
example : AsFound.checkOverlap inner dev = true ∧ AsFound.checkOverlap dev inner = false := by decide
/-- … it accepts boxes that are disjoint (one common axis range suffices) … -/
example : AsFound.checkOverlap dev ⟨(20, 30), (0, 9), (40, 50)⟩ = true := by decide
/-- … and the source keeps the state computed from the pre-device materials (1) instead of the post-device
ones (4): the pipeline of `C29_all_objects_current`, with the as-found predicate. -/
example :
    let apply := fun (a : Int × Int × Int → Nat) (o : Obj Nat) => a (o.box.x.1, o.box.y.1, o.box.z.1)
    let post := fun (c : Int × Int × Int) => if 1 ≤ c.1 ∧ c.1 < 7 ∧ 1 ≤ c.2.1 ∧ c.2.1 < 7 ∧ 1 ≤ c.2.2 ∧ c.2.2 < 7 then 4 else 1
    ((paramsLoopWith AsFound.checkOverlap apply post
        (placeLoopWith AsFound.checkOverlap apply (fun _ => 1) [⟨dev, true, 0⟩, ⟨inner, false, 0⟩])).map (·.st))
      = [4, 1] := by decide

end Fdtdx.C29
