/-
C09 — periodic / Bloch supercells, any-tier step (`FdtdxModel/YeeAniso.lean`, in particular full 3×3 tensors).

Same setting as `FdtdxProps/C09.lean` (x is a wrap axis of n ≥ 1 cells without walls, per-copy factors `w` compatible with
the ghost multipliers: `AxisOK`, `PhaseOK`), materials of any tier tiled along x, lossy or lossless:

  C09_aniso_avg_tile      the neighbour averages (uniform and spacing-weighted; two-axis halo access incl. corner ghosts) of a
                          tiled array are the tiled averages
  C09_aniso_tile_step     forwardA(supercell, tile s) = tile(forwardA(base, s)) on every cell of the supercell
  C09_aniso_tile_steps    … after any number of steps (step-indexed tiled sources)
  C09_aniso_tile_bloch    the Bloch instance w q = u^q

All statements are "relational": inputs that agree with a tiling on the cells of the supercell give outputs that agree with
the tiled outputs (this contains locality of the step).  For the spacing-weighted averages the x widths of the supercell
are the tiled widths and `WidthsTileOK` asks that their edge-replicated predecessor is tiled too, which holds for
seam-symmetric widths (`widthsTileOK_of_seam`) — `get_anisotropic_averaging_widths` pads w[-1] := w[0] instead of wrapping,
the same as-found convention as `_metric_scale` (known finding of C09); witness `AsFound.wPrev_not_tiled`.
-/
import FdtdxModel.C09Aniso
import FdtdxProps.C09
import FdtdxProps.C02Aniso
import Mathlib.Tactic.Ring
import Mathlib.Tactic.NormNum

namespace Fdtdx.C09
open Fdtdx Fdtdx.Yee Fdtdx.YeeAniso Fdtdx.C02
set_option linter.unusedSectionVars false

section
variable {K : Type} [Field K]

/-- agreement of two arrays on the cells `i < N` -/
def AgreeF (N : Nat) (A B : F3 K) : Prop := ∀ i j k, i < N → A i j k = B i j k

theorem AgreeF.trans {N : Nat} {A B C : F3 K} (h1 : AgreeF N A B) (h2 : AgreeF N B C) : AgreeF N A C :=
  fun i j k hi => (h1 i j k hi).trans (h2 i j k hi)

theorem nextAx_congr (cf : Cfg K) (ax : Nat) (A B : F3 K) (hN : 0 < cf.nx) (h : AgreeF cf.nx A B) :
    AgreeF cf.nx (nextAx cf ax A) (nextAx cf ax B) := by
  intro i j k hi
  match ax with
  | 0 => exact next1_congr cf.nx cf.bx _ _ i hN (fun t ht => h t j k ht)
  | 1 =>
    show next1 cf.ny cf.by_ (fun j' => A i j' k) j = next1 cf.ny cf.by_ (fun j' => B i j' k) j
    rw [show (fun j' => A i j' k) = (fun j' => B i j' k) from funext fun j' => h i j' k hi]
  | n + 2 =>
    show next1 cf.nz cf.bz (fun k' => A i j k') k = next1 cf.nz cf.bz (fun k' => B i j k') k
    rw [show (fun k' => A i j k') = (fun k' => B i j k') from funext fun k' => h i j k' hi]

theorem prevAx_congr (cf : Cfg K) (ax : Nat) (A B : F3 K) (h : AgreeF cf.nx A B) :
    AgreeF cf.nx (prevAx cf ax A) (prevAx cf ax B) := by
  intro i j k hi
  match ax with
  | 0 => exact prev1_congr cf.nx cf.bx _ _ i hi (fun t ht => h t j k ht)
  | 1 =>
    show prev1 cf.ny cf.by_ (fun j' => A i j' k) j = prev1 cf.ny cf.by_ (fun j' => B i j' k) j
    rw [show (fun j' => A i j' k) = (fun j' => B i j' k) from funext fun j' => h i j' k hi]
  | n + 2 =>
    show prev1 cf.nz cf.bz (fun k' => A i j k') k = prev1 cf.nz cf.bz (fun k' => B i j k') k
    rw [show (fun k' => A i j k') = (fun k' => B i j k') from funext fun k' => h i j k' hi]

variable (cf : Cfg K) (m : Nat) (w : Nat → K) (P Q : K)

theorem nextAx_tile (hax : AxisOK cf) (hp : PhaseOK m w cf.bx.pp cf.bx.pm P Q) (ax : Nat) (S : F3 K) :
    AgreeF (m * cf.nx) (nextAx (tileCfgX m P Q cf) ax (tileF cf.nx w S)) (tileF cf.nx w (nextAx cf ax S)) := by
  intro i j k hi
  match ax with
  | 0 => exact next1_tile cf.nx m cf.bx _ w (fun t => S t j k) i hax.pos hi hax.wrap hax.wrap hp.up hp.outerR
  | 1 => exact next1_mul_right cf.ny cf.by_ (fun j' => S (i % cf.nx) j' k) (w (i / cf.nx)) j
  | n + 2 => exact next1_mul_right cf.nz cf.bz (fun k' => S (i % cf.nx) j k') (w (i / cf.nx)) k

theorem prevAx_tile (hax : AxisOK cf) (hp : PhaseOK m w cf.bx.pp cf.bx.pm P Q) (ax : Nat) (S : F3 K) :
    AgreeF (m * cf.nx) (prevAx (tileCfgX m P Q cf) ax (tileF cf.nx w S)) (tileF cf.nx w (prevAx cf ax S)) := by
  intro i j k hi
  match ax with
  | 0 => exact prev1_tile cf.nx m cf.bx _ w (fun t => S t j k) i hax.pos hi hax.wrap hax.wrap hp.down hp.outerL
  | 1 => exact prev1_mul_right cf.ny cf.by_ (fun j' => S (i % cf.nx) j' k) (w (i / cf.nx)) j
  | n + 2 => exact prev1_mul_right cf.nz cf.bz (fun k' => S (i % cf.nx) j k') (w (i / cf.nx)) k

/-- relational form: an array that agrees with a tiling has a shifted array that agrees with the tiled shifted array -/
theorem nextAx_rel (hax : AxisOK cf) (hp : PhaseOK m w cf.bx.pp cf.bx.pm P Q) (hm : 0 < m) (ax : Nat) (A S : F3 K)
    (h : AgreeF (m * cf.nx) A (tileF cf.nx w S)) :
    AgreeF (m * cf.nx) (nextAx (tileCfgX m P Q cf) ax A) (tileF cf.nx w (nextAx cf ax S)) :=
  (nextAx_congr (tileCfgX m P Q cf) ax A _ (Nat.mul_pos hm hax.pos) h).trans (nextAx_tile cf m w P Q hax hp ax S)

theorem prevAx_rel (hax : AxisOK cf) (hp : PhaseOK m w cf.bx.pp cf.bx.pm P Q) (ax : Nat) (A S : F3 K)
    (h : AgreeF (m * cf.nx) A (tileF cf.nx w S)) :
    AgreeF (m * cf.nx) (prevAx (tileCfgX m P Q cf) ax A) (tileF cf.nx w (prevAx cf ax S)) :=
  (prevAx_congr (tileCfgX m P Q cf) ax A _ h).trans (prevAx_tile cf m w P Q hax hp ax S)

/-- the edge-replicated predecessor of the tiled x widths is the tiled predecessor -/
def WidthsTileOK (n : Nat) (aw : Option (AW K)) : Prop :=
  ∀ wv, aw = some wv → ∀ i, wPrev (fun t => wv.wx (t % n)) i = wPrev wv.wx (i % n)

theorem awAx_tile (n : Nat) (wv : AW K) (ax i j k : Nat) :
    (tileAWX n wv).ax ax (idxAx ax i j k) = wv.ax ax (idxAx ax (i % n) j k) := by
  match ax with
  | 0 => rfl
  | 1 => rfl
  | n + 2 => rfl

theorem wPrev_tile (n : Nat) (wv : AW K) (h : ∀ i, wPrev (fun t => wv.wx (t % n)) i = wPrev wv.wx (i % n)) (ax i j k : Nat) :
    wPrev ((tileAWX n wv).ax ax) (idxAx ax i j k) = wPrev (wv.ax ax) (idxAx ax (i % n) j k) := by
  match ax with
  | 0 => exact h i
  | 1 => rfl
  | n + 2 => rfl

/-- **C09_aniso_avg_tile** (E-type average) -/
theorem avgE_rel (hax : AxisOK cf) (hp : PhaseOK m w cf.bx.pp cf.bx.pm P Q) (hm : 0 < m) (aw : Option (AW K))
    (hW : WidthsTileOK cf.nx aw) (c l : Nat) (A S : F3 K) (h : AgreeF (m * cf.nx) A (tileF cf.nx w S)) :
    AgreeF (m * cf.nx) (avgE (tileCfgX m P Q cf) (aw.map (tileAWX cf.nx)) c l A) (tileF cf.nx w (avgE cf aw c l S)) := by
  cases aw with
  | none =>
    intro i j k hi
    have a0 := h i j k hi
    have a1 := nextAx_rel cf m w P Q hax hp hm l A S h i j k hi
    have hpv := prevAx_rel cf m w P Q hax hp c A S h
    have a2 := hpv i j k hi
    have a3 := nextAx_rel cf m w P Q hax hp hm l _ _ hpv i j k hi
    simp only [avgE, Option.map_none, a0, a1, a2, a3]
    simp only [tileF]
    ring
  | some wv =>
    have hcen : AgreeF (m * cf.nx) (fun i j k => (1 / 2 : K) * (A i j k + nextAx (tileCfgX m P Q cf) l A i j k))
        (tileF cf.nx w (fun i j k => (1 / 2 : K) * (S i j k + nextAx cf l S i j k))) := by
      intro i j k hi
      have a0 := h i j k hi
      have a1 := nextAx_rel cf m w P Q hax hp hm l A S h i j k hi
      simp only [a0, a1, tileF]
      ring
    have hpc := prevAx_rel cf m w P Q hax hp c _ _ hcen
    intro i j k hi
    have b0 := hcen i j k hi
    have b1 := hpc i j k hi
    have hw1 := awAx_tile cf.nx wv c i j k
    have hw2 := wPrev_tile cf.nx wv (hW wv rfl) c i j k
    simp only [avgE, Option.map_some] at b0 b1 ⊢
    rw [b0, b1, hw1, hw2]
    simp only [tileF]
    ring

/-- **C09_aniso_avg_tile** (H-type average) -/
theorem avgH_rel (hax : AxisOK cf) (hp : PhaseOK m w cf.bx.pp cf.bx.pm P Q) (hm : 0 < m) (aw : Option (AW K))
    (hW : WidthsTileOK cf.nx aw) (c l : Nat) (A S : F3 K) (h : AgreeF (m * cf.nx) A (tileF cf.nx w S)) :
    AgreeF (m * cf.nx) (avgH (tileCfgX m P Q cf) (aw.map (tileAWX cf.nx)) c l A) (tileF cf.nx w (avgH cf aw c l S)) := by
  cases aw with
  | none =>
    intro i j k hi
    have a0 := h i j k hi
    have a1 := prevAx_rel cf m w P Q hax hp l A S h i j k hi
    have hnx := nextAx_rel cf m w P Q hax hp hm c A S h
    have a2 := hnx i j k hi
    have a3 := prevAx_rel cf m w P Q hax hp l _ _ hnx i j k hi
    simp only [avgH, Option.map_none, a0, a1, a2, a3]
    simp only [tileF]
    ring
  | some wv =>
    have hon : AgreeF (m * cf.nx)
        (fun i j k => (A i j k * wPrev ((tileAWX cf.nx wv).ax l) (idxAx l i j k)
            + prevAx (tileCfgX m P Q cf) l A i j k * (tileAWX cf.nx wv).ax l (idxAx l i j k))
          / ((tileAWX cf.nx wv).ax l (idxAx l i j k) + wPrev ((tileAWX cf.nx wv).ax l) (idxAx l i j k)))
        (tileF cf.nx w (fun i j k => (S i j k * wPrev (wv.ax l) (idxAx l i j k) + prevAx cf l S i j k * wv.ax l (idxAx l i j k))
          / (wv.ax l (idxAx l i j k) + wPrev (wv.ax l) (idxAx l i j k)))) := by
      intro i j k hi
      have a0 := h i j k hi
      have a1 := prevAx_rel cf m w P Q hax hp l A S h i j k hi
      have hw1 := awAx_tile cf.nx wv l i j k
      have hw2 := wPrev_tile cf.nx wv (hW wv rfl) l i j k
      simp only [a0, a1, hw1, hw2, tileF]
      ring
    have hnx := nextAx_rel cf m w P Q hax hp hm c _ _ hon
    intro i j k hi
    have b0 := hon i j k hi
    have b1 := hnx i j k hi
    simp only [avgH, Option.map_some] at b0 b1 ⊢
    rw [b0, b1]
    simp only [tileF]
    ring

/-! ### rows, sums, walls -/

theorem agreeX_iff (N : Nat) (A B : V3 K) :
    AgreeX N A B ↔ AgreeF N A.x B.x ∧ AgreeF N A.y B.y ∧ AgreeF N A.z B.z :=
  ⟨fun h => ⟨fun i j k hi => (h i j k hi).1, fun i j k hi => (h i j k hi).2.1, fun i j k hi => (h i j k hi).2.2⟩,
   fun h i j k hi => ⟨h.1 i j k hi, h.2.1 i j k hi, h.2.2 i j k hi⟩⟩

theorem rowsApply_rel (avgT avg : Nat → Nat → F3 K → F3 K) (N n : Nat)
    (havg : ∀ c l A S, AgreeF N A (tileF n w S) → AgreeF N (avgT c l A) (tileF n w (avg c l S)))
    (TT T : F3 (M3 K)) (hT : ∀ i j k, TT i j k = T (i % n) j k) (A V : V3 K) (h : AgreeX N A (tileX n w V)) :
    AgreeX N (rowsApply avgT TT A) (tileX n w (rowsApply avg T V)) := by
  obtain ⟨hx, hy, hz⟩ := (agreeX_iff N A _).1 h
  intro i j k hi
  have e1 := havg 1 0 A.y V.y hy i j k hi
  have e2 := havg 2 0 A.z V.z hz i j k hi
  have e3 := havg 0 1 A.x V.x hx i j k hi
  have e4 := havg 2 1 A.z V.z hz i j k hi
  have e5 := havg 0 2 A.x V.x hx i j k hi
  have e6 := havg 1 2 A.y V.y hy i j k hi
  have d1 := hx i j k hi
  have d2 := hy i j k hi
  have d3 := hz i j k hi
  simp only [tileX, tileF] at e1 e2 e3 e4 e5 e6 d1 d2 d3 ⊢
  simp only [rowsApply, hT, e1, e2, e3, e4, e5, e6, d1, d2, d3]
  refine ⟨by ring, by ring, by ring⟩

theorem addV_rel (N n : Nat) (A B V U : V3 K) (h1 : AgreeX N A (tileX n w V)) (h2 : AgreeX N B (tileX n w U)) :
    AgreeX N (addV A B) (tileX n w (addV V U)) := by
  intro i j k hi
  obtain ⟨a1, a2, a3⟩ := h1 i j k hi
  obtain ⟨b1, b2, b3⟩ := h2 i j k hi
  simp only [tileX] at a1 a2 a3 b1 b2 b3 ⊢
  simp only [addV, a1, a2, a3, b1, b2, b3]
  refine ⟨by ring, by ring, by ring⟩

theorem subV_rel (N n : Nat) (A B V U : V3 K) (h1 : AgreeX N A (tileX n w V)) (h2 : AgreeX N B (tileX n w U)) :
    AgreeX N (subV A B) (tileX n w (subV V U)) := by
  intro i j k hi
  obtain ⟨a1, a2, a3⟩ := h1 i j k hi
  obtain ⟨b1, b2, b3⟩ := h2 i j k hi
  simp only [tileX] at a1 a2 a3 b1 b2 b3 ⊢
  simp only [subV, a1, a2, a3, b1, b2, b3]
  refine ⟨by ring, by ring, by ring⟩

theorem projE_rel (hax : AxisOK cf) (A V : V3 K) (h : AgreeX (m * cf.nx) A (tileX cf.nx w V)) :
    AgreeX (m * cf.nx) (projE (tileCfgX m P Q cf) A) (tileX cf.nx w (projE cf V)) := by
  intro i j k hi
  obtain ⟨a1, a2, a3⟩ := h i j k hi
  simp only [tileX] at a1 a2 a3 ⊢
  simp only [projE, maskV, pecMask_tile cf m P Q hax, a1, a2, a3]
  refine ⟨?_, ?_, ?_⟩ <;> split_ifs <;> ring

theorem projH_rel (hax : AxisOK cf) (A V : V3 K) (h : AgreeX (m * cf.nx) A (tileX cf.nx w V)) :
    AgreeX (m * cf.nx) (projH (tileCfgX m P Q cf) A) (tileX cf.nx w (projH cf V)) := by
  intro i j k hi
  obtain ⟨a1, a2, a3⟩ := h i j k hi
  simp only [tileX] at a1 a2 a3 ⊢
  simp only [projH, maskV, pmcMask_tile cf m P Q hax, a1, a2, a3]
  refine ⟨?_, ?_, ?_⟩ <;> split_ifs <;> ring

theorem agreeX_refl (N : Nat) (A : V3 K) : AgreeX N A A := fun _ _ _ _ => ⟨rfl, rfl, rfl⟩

theorem curlH_rel (hax : AxisOK cf) (hp : PhaseOK m w cf.bx.pp cf.bx.pm P Q) (A V : V3 K)
    (h : AgreeX (m * cf.nx) A (tileX cf.nx w V)) :
    AgreeX (m * cf.nx) (curlH (tileCfgX m P Q cf) A) (tileX cf.nx w (curlH cf V)) :=
  (curlH_congr (tileCfgX m P Q cf) A _ h).trans (curlH_tile cf m w P Q hax hp V)

theorem curlE_rel (hax : AxisOK cf) (hp : PhaseOK m w cf.bx.pp cf.bx.pm P Q) (hm : 0 < m) (A V : V3 K)
    (h : AgreeX (m * cf.nx) A (tileX cf.nx w V)) :
    AgreeX (m * cf.nx) (curlE (tileCfgX m P Q cf) A) (tileX cf.nx w (curlE cf V)) :=
  (curlE_congr (tileCfgX m P Q cf) A _ (Nat.mul_pos hm hax.pos) h).trans (curlE_tile cf m w P Q hax hp V)

/-! ### the full-tensor half steps -/

theorem sigAt_tile (n : Nat) (sig : Option (F3 (M3 K))) (i j k : Nat) :
    sigAt (sig.map (retileT n)) i j k = sigAt sig (i % n) j k := by
  cases sig <;> rfl

theorem stepEFull_rel (hax : AxisOK cf) (hp : PhaseOK m w cf.bx.pp cf.bx.pm P Q) (hm : 0 < m) (aw : Option (AW K))
    (hW : WidthsTileOK cf.nx aw) (inv : F3 (M3 K)) (sig : Option (F3 (M3 K))) (jE ET HT E H : V3 K)
    (hE : AgreeX (m * cf.nx) ET (tileX cf.nx w E)) (hH : AgreeX (m * cf.nx) HT (tileX cf.nx w H)) :
    AgreeX (m * cf.nx)
      (stepEFull (tileCfgX m P Q cf) (aw.map (tileAWX cf.nx)) (retileT cf.nx inv) (sig.map (retileT cf.nx)) (tileX cf.nx w jE) ET HT)
      (tileX cf.nx w (stepEFull cf aw inv sig jE E H)) := by
  have havg := fun c l A S => avgE_rel cf m w P Q hax hp hm aw hW c l A S
  have hcu := curlH_rel cf m w P Q hax hp HT H hH
  have hA := rowsApply_rel w _ _ (m * cf.nx) cf.nx havg
    (fun i j k => (updMats cf.c cf.eta0 (retileT cf.nx inv i j k) (sigAt (sig.map (retileT cf.nx)) i j k)).1)
    (fun i j k => (updMats cf.c cf.eta0 (inv i j k) (sigAt sig i j k)).1)
    (fun i j k => by simp only [retileT, sigAt_tile]) ET E hE
  have hB := rowsApply_rel w _ _ (m * cf.nx) cf.nx havg
    (fun i j k => (updMats cf.c cf.eta0 (retileT cf.nx inv i j k) (sigAt (sig.map (retileT cf.nx)) i j k)).2)
    (fun i j k => (updMats cf.c cf.eta0 (inv i j k) (sigAt sig i j k)).2)
    (fun i j k => by simp only [retileT, sigAt_tile]) _ _ hcu
  exact projE_rel cf m w P Q hax _ _ (addV_rel w _ _ _ _ _ _ (addV_rel w _ _ _ _ _ _ hA hB) (agreeX_refl _ _))

theorem stepHFull_rel (hax : AxisOK cf) (hp : PhaseOK m w cf.bx.pp cf.bx.pm P Q) (hm : 0 < m) (aw : Option (AW K))
    (hW : WidthsTileOK cf.nx aw) (inv : F3 (M3 K)) (sig : Option (F3 (M3 K))) (jH ET HT E H : V3 K)
    (hE : AgreeX (m * cf.nx) ET (tileX cf.nx w E)) (hH : AgreeX (m * cf.nx) HT (tileX cf.nx w H)) :
    AgreeX (m * cf.nx)
      (stepHFull (tileCfgX m P Q cf) (aw.map (tileAWX cf.nx)) (retileT cf.nx inv) (sig.map (retileT cf.nx)) (tileX cf.nx w jH) ET HT)
      (tileX cf.nx w (stepHFull cf aw inv sig jH E H)) := by
  have havg := fun c l A S => avgH_rel cf m w P Q hax hp hm aw hW c l A S
  have hcu := curlE_rel cf m w P Q hax hp hm ET E hE
  have hA := rowsApply_rel w _ _ (m * cf.nx) cf.nx havg
    (fun i j k => (updMats cf.c (1 / cf.eta0) (retileT cf.nx inv i j k) (sigAt (sig.map (retileT cf.nx)) i j k)).1)
    (fun i j k => (updMats cf.c (1 / cf.eta0) (inv i j k) (sigAt sig i j k)).1)
    (fun i j k => by simp only [retileT, sigAt_tile]) HT H hH
  have hB := rowsApply_rel w _ _ (m * cf.nx) cf.nx havg
    (fun i j k => (updMats cf.c (1 / cf.eta0) (retileT cf.nx inv i j k) (sigAt (sig.map (retileT cf.nx)) i j k)).2)
    (fun i j k => (updMats cf.c (1 / cf.eta0) (inv i j k) (sigAt sig i j k)).2)
    (fun i j k => by simp only [retileT, sigAt_tile]) _ _ hcu
  exact projH_rel cf m w P Q hax _ _ (addV_rel w _ _ _ _ _ _ (subV_rel w _ _ _ _ _ _ hA hB) (agreeX_refl _ _))

/-! ### tier dispatch -/

theorem tileTens_isFull (n : Nat) (t : Tens K) : (tileTens n t).isFull = t.isFull := by cases t <;> rfl
theorem tileTens_expand (n : Nat) (t : Tens K) : (tileTens n t).expand = retileT n t.expand := by cases t <;> rfl
theorem tileTens_toV3 (n : Nat) (t : Tens K) : (tileTens n t).toV3 = retileX n t.toV3 := by cases t <;> rfl

theorem tileMatAX_full (n : Nat) (mt : MatA K) : (tileMatAX n mt).fullE = mt.fullE ∧ (tileMatAX n mt).fullH = mt.fullH := by
  obtain ⟨ie, im, sE, sH⟩ := mt
  constructor
  · cases sE <;> simp [MatA.fullE, tileMatAX, optFull, tileTens_isFull]
  · cases sH <;> simp [MatA.fullH, tileMatAX, optFull, tileTens_isFull]

theorem tileMatAX_diagMat (n : Nat) (mt : MatA K) : (tileMatAX n mt).diagMat = tileMatX n mt.diagMat := by
  obtain ⟨ie, im, sE, sH⟩ := mt
  cases sE <;> cases sH <;> simp [MatA.diagMat, tileMatAX, tileMatX, tileTens_toV3]

theorem optExpand_tile (n : Nat) (s : Option (Tens K)) :
    (s.map (tileTens n)).map Tens.expand = (s.map Tens.expand).map (retileT n) := by
  cases s with
  | none => rfl
  | some t => simp [tileTens_expand]

theorem stepEA_rel (hax : AxisOK cf) (hp : PhaseOK m w cf.bx.pp cf.bx.pm P Q) (hm : 0 < m) (aw : Option (AW K))
    (hW : WidthsTileOK cf.nx aw) (mt : MatA K) (jE ET HT E H : V3 K)
    (hE : AgreeX (m * cf.nx) ET (tileX cf.nx w E)) (hH : AgreeX (m * cf.nx) HT (tileX cf.nx w H)) :
    AgreeX (m * cf.nx)
      (stepEA (tileCfgX m P Q cf) (aw.map (tileAWX cf.nx)) (tileMatAX cf.nx mt) (tileX cf.nx w jE) ET HT)
      (tileX cf.nx w (stepEA cf aw mt jE E H)) := by
  unfold stepEA
  rw [(tileMatAX_full cf.nx mt).1, tileMatAX_diagMat]
  cases mt.fullE with
  | true =>
    simp only [if_true]
    show AgreeX _ (stepEFull _ _ (tileTens cf.nx mt.invEps).expand ((mt.sigE.map (tileTens cf.nx)).map Tens.expand) _ _ _) _
    rw [tileTens_expand, optExpand_tile]
    exact stepEFull_rel cf m w P Q hax hp hm aw hW _ _ jE ET HT E H hE hH
  | false =>
    simp only [Bool.false_eq_true, if_false]
    exact (stepE_congr (tileCfgX m P Q cf) _ _ ET _ HT _ hE hH).trans (stepE_tile cf m w P Q hax hp mt.diagMat jE E H)

theorem stepHA_rel (hax : AxisOK cf) (hp : PhaseOK m w cf.bx.pp cf.bx.pm P Q) (hm : 0 < m) (aw : Option (AW K))
    (hW : WidthsTileOK cf.nx aw) (mt : MatA K) (jH ET HT E H : V3 K)
    (hE : AgreeX (m * cf.nx) ET (tileX cf.nx w E)) (hH : AgreeX (m * cf.nx) HT (tileX cf.nx w H)) :
    AgreeX (m * cf.nx)
      (stepHA (tileCfgX m P Q cf) (aw.map (tileAWX cf.nx)) (tileMatAX cf.nx mt) (tileX cf.nx w jH) ET HT)
      (tileX cf.nx w (stepHA cf aw mt jH E H)) := by
  unfold stepHA
  rw [(tileMatAX_full cf.nx mt).2, tileMatAX_diagMat]
  cases mt.fullH with
  | true =>
    simp only [if_true]
    show AgreeX _ (stepHFull _ _ (tileTens cf.nx mt.invMu).expand ((mt.sigH.map (tileTens cf.nx)).map Tens.expand) _ _ _) _
    rw [tileTens_expand, optExpand_tile]
    exact stepHFull_rel cf m w P Q hax hp hm aw hW _ _ jH ET HT E H hE hH
  | false =>
    simp only [Bool.false_eq_true, if_false]
    exact (stepH_congr2 (tileCfgX m P Q cf) _ _ ET _ HT _ (Nat.mul_pos hm hax.pos) hE hH).trans
      (stepH_tile cf m w P Q hax hp mt.diagMat jH E H)

/-- relational form of the step: inputs agreeing with a tiling give outputs agreeing with the tiled outputs -/
theorem forwardA_rel (hax : AxisOK cf) (hp : PhaseOK m w cf.bx.pp cf.bx.pm P Q) (hm : 0 < m) (aw : Option (AW K))
    (hW : WidthsTileOK cf.nx aw) (mt : MatA K) (jE jH ET HT E H : V3 K)
    (hE : AgreeX (m * cf.nx) ET (tileX cf.nx w E)) (hH : AgreeX (m * cf.nx) HT (tileX cf.nx w H)) :
    AgreeX (m * cf.nx)
        (forwardA (tileCfgX m P Q cf) (aw.map (tileAWX cf.nx)) (tileMatAX cf.nx mt) (tileX cf.nx w jE) (tileX cf.nx w jH) ET HT).1
        (tileX cf.nx w (forwardA cf aw mt jE jH E H).1)
    ∧ AgreeX (m * cf.nx)
        (forwardA (tileCfgX m P Q cf) (aw.map (tileAWX cf.nx)) (tileMatAX cf.nx mt) (tileX cf.nx w jE) (tileX cf.nx w jH) ET HT).2
        (tileX cf.nx w (forwardA cf aw mt jE jH E H).2) := by
  have h1 := stepEA_rel cf m w P Q hax hp hm aw hW mt jE ET HT E H hE hH
  exact ⟨h1, stepHA_rel cf m w P Q hax hp hm aw hW mt jH _ HT _ H h1 hH⟩

/-- **C09_aniso_tile_step**: one any-tier time step of the supercell started from the tiled state (tiled materials of any
tier incl. full 3×3 tensors and conductivities, tiled sources, per-copy factors `w`) is the tiled time step of the base
cell, on every cell of the supercell. -/
theorem C09_aniso_tile_step (hax : AxisOK cf) (hp : PhaseOK m w cf.bx.pp cf.bx.pm P Q) (hm : 0 < m) (aw : Option (AW K))
    (hW : WidthsTileOK cf.nx aw) (mt : MatA K) (jE jH E H : V3 K) :
    AgreeX (m * cf.nx)
        (forwardA (tileCfgX m P Q cf) (aw.map (tileAWX cf.nx)) (tileMatAX cf.nx mt) (tileX cf.nx w jE) (tileX cf.nx w jH)
          (tileX cf.nx w E) (tileX cf.nx w H)).1
        (tileX cf.nx w (forwardA cf aw mt jE jH E H).1)
    ∧ AgreeX (m * cf.nx)
        (forwardA (tileCfgX m P Q cf) (aw.map (tileAWX cf.nx)) (tileMatAX cf.nx mt) (tileX cf.nx w jE) (tileX cf.nx w jH)
          (tileX cf.nx w E) (tileX cf.nx w H)).2
        (tileX cf.nx w (forwardA cf aw mt jE jH E H).2) :=
  forwardA_rel cf m w P Q hax hp hm aw hW mt jE jH _ _ E H (agreeX_refl _ _) (agreeX_refl _ _)

/-- **C09_aniso_tile_steps**: any number of steps (step-indexed tiled sources) -/
theorem C09_aniso_tile_steps (hax : AxisOK cf) (hp : PhaseOK m w cf.bx.pp cf.bx.pm P Q) (hm : 0 < m) (aw : Option (AW K))
    (hW : WidthsTileOK cf.nx aw) (mt : MatA K) (jE jH : Nat → V3 K) (t s : Nat) (E H : V3 K) :
    AgreeX (m * cf.nx)
        (fwdNA (tileCfgX m P Q cf) (aw.map (tileAWX cf.nx)) (tileMatAX cf.nx mt) (fun u => tileX cf.nx w (jE u))
          (fun u => tileX cf.nx w (jH u)) t s (tileX cf.nx w E, tileX cf.nx w H)).1
        (tileX cf.nx w (fwdNA cf aw mt jE jH t s (E, H)).1)
    ∧ AgreeX (m * cf.nx)
        (fwdNA (tileCfgX m P Q cf) (aw.map (tileAWX cf.nx)) (tileMatAX cf.nx mt) (fun u => tileX cf.nx w (jE u))
          (fun u => tileX cf.nx w (jH u)) t s (tileX cf.nx w E, tileX cf.nx w H)).2
        (tileX cf.nx w (fwdNA cf aw mt jE jH t s (E, H)).2) := by
  induction s with
  | zero => exact ⟨agreeX_refl _ _, agreeX_refl _ _⟩
  | succ s ih =>
    obtain ⟨ihE, ihH⟩ := ih
    exact forwardA_rel cf m w P Q hax hp hm aw hW mt (jE (t + s)) (jH (t + s)) _ _ _ _ ihE ihH

/-- **C09_aniso_tile_bloch**: the Bloch instance (phase `u` per period, supercell multipliers u^m, (u^m)⁻¹) -/
theorem C09_aniso_tile_bloch (hax : AxisOK cf) (u : K) (hu : u ≠ 0) (hpp : cf.bx.pp = u) (hpm : cf.bx.pm = u⁻¹) (hm : 0 < m)
    (aw : Option (AW K)) (hW : WidthsTileOK cf.nx aw) (mt : MatA K) (jE jH : Nat → V3 K) (t s : Nat) (E H : V3 K) :
    let ph : Nat → K := fun q => u ^ q
    AgreeX (m * cf.nx)
        (fwdNA (tileCfgX m (u ^ m) (u ^ m)⁻¹ cf) (aw.map (tileAWX cf.nx)) (tileMatAX cf.nx mt) (fun v => tileX cf.nx ph (jE v))
          (fun v => tileX cf.nx ph (jH v)) t s (tileX cf.nx ph E, tileX cf.nx ph H)).1
        (tileX cf.nx ph (fwdNA cf aw mt jE jH t s (E, H)).1)
    ∧ AgreeX (m * cf.nx)
        (fwdNA (tileCfgX m (u ^ m) (u ^ m)⁻¹ cf) (aw.map (tileAWX cf.nx)) (tileMatAX cf.nx mt) (fun v => tileX cf.nx ph (jE v))
          (fun v => tileX cf.nx ph (jH v)) t s (tileX cf.nx ph E, tileX cf.nx ph H)).2
        (tileX cf.nx ph (fwdNA cf aw mt jE jH t s (E, H)).2) := by
  intro ph
  have hp : PhaseOK m ph cf.bx.pp cf.bx.pm (u ^ m) (u ^ m)⁻¹ := by rw [hpp, hpm]; exact phaseOK_bloch m hm u hu
  exact C09_aniso_tile_steps cf m ph _ _ hax hp hm aw hW mt jE jH t s E H

/-- **C09_aniso_avg_tile**: the averages of a tiled array are the tiled averages, on every cell of the supercell -/
theorem C09_aniso_avg_tile (hax : AxisOK cf) (hp : PhaseOK m w cf.bx.pp cf.bx.pm P Q) (hm : 0 < m) (aw : Option (AW K))
    (hW : WidthsTileOK cf.nx aw) (c l : Nat) (S : F3 K) :
    AgreeF (m * cf.nx) (avgE (tileCfgX m P Q cf) (aw.map (tileAWX cf.nx)) c l (tileF cf.nx w S)) (tileF cf.nx w (avgE cf aw c l S))
    ∧ AgreeF (m * cf.nx) (avgH (tileCfgX m P Q cf) (aw.map (tileAWX cf.nx)) c l (tileF cf.nx w S)) (tileF cf.nx w (avgH cf aw c l S)) :=
  ⟨avgE_rel cf m w P Q hax hp hm aw hW c l _ S (fun _ _ _ _ => rfl),
   avgH_rel cf m w P Q hax hp hm aw hW c l _ S (fun _ _ _ _ => rfl)⟩

/-- a uniform grid has no averaging widths -/
theorem widthsTileOK_none (n : Nat) : WidthsTileOK (K := K) n none := fun _ h => by cases h

/-- seam-symmetric x widths (first = last) tile together with their predecessor -/
theorem widthsTileOK_of_seam (n : Nat) (hn : 0 < n) (wv : AW K) (hs : wv.wx 0 = wv.wx (n - 1)) : WidthsTileOK n (some wv) := by
  intro wv' h i
  cases h
  unfold wPrev
  by_cases hi : i = 0
  · subst hi; simp
  · simp only [hi, if_false]
    by_cases hr : i % n = 0
    · have h1 : (i - 1) % n = n - 1 := by
        obtain ⟨q, hq⟩ : ∃ q, i = n * q := ⟨i / n, by have := Nat.div_add_mod i n; omega⟩
        have hq1 : 1 ≤ q := by
          rcases Nat.eq_zero_or_pos q with h0 | h0
          · subst h0; simp at hq; exact absurd hq hi
          · exact h0
        have h5 : n * q = n * (q - 1) + n := by
          have : q = (q - 1) + 1 := by omega
          calc n * q = n * ((q - 1) + 1) := by rw [← this]
            _ = n * (q - 1) + n := Nat.mul_succ n (q - 1)
        have hl : i - 1 = (n - 1) + n * (q - 1) := by omega
        rw [hl, Nat.add_mul_mod_self_left, Nat.mod_eq_of_lt (by omega)]
      simp only [hr, if_true, h1]
      exact hs.symm
    · have h1 : (i - 1) % n = i % n - 1 := by
        have hd := Nat.div_add_mod i n
        have hlt := Nat.mod_lt i hn
        have hl : i - 1 = (i % n - 1) + n * (i / n) := by omega
        rw [hl, Nat.add_mul_mod_self_left, Nat.mod_eq_of_lt (by omega)]
      simp only [hr, if_false, h1]

end

/-! ### as found: the edge-replicated predecessor of tiled non-symmetric widths is not tiled -/
namespace AsFound
/-- base x widths (1, 2) tiled twice = (1, 2, 1, 2): at the seam cell 2 the predecessor is 2, but the base cell 0 uses
`w[-1] := w[0] = 1` (`get_anisotropic_averaging_widths` pads by edge replication) -/
theorem wPrev_not_tiled :
    wPrev (fun t => (fun i => if i = 0 then (1 : ℚ) else 2) (t % 2)) 2 ≠ wPrev (fun i => if i = 0 then (1 : ℚ) else 2) (2 % 2) := by
  norm_num [wPrev]
end AsFound

/-! ### non-vacuity -/
example : WidthsTileOK (K := ℚ) 3 (some ⟨fun i => if i = 1 then 2 else 1, fun _ => 1, fun _ => 1⟩) :=
  widthsTileOK_of_seam 3 (by decide) _ (by norm_num)
example : AxisOK C01.exCfg := ⟨by decide, rfl, rfl, rfl, rfl, rfl⟩

end Fdtdx.C09
