/-
C09 — Periodic and Bloch domains match their supercells.

Theorems about the shared Yee model (`FdtdxModel/Yee.lean`), tiling operations in `FdtdxModel/C09.lean`.
For a wrap (periodic / Bloch) x axis of `n = cf.nx ≥ 1` cells without PEC/PMC walls, any tiling factor `m`, any per-copy
factors `w q` compatible with the ghost multipliers (`PhaseOK`), any shape / boundaries / metric on the other axes,
any tiled metric on x, isotropic or diagonal tiled materials with or without conductivities, tiled sources:

  C09_tile_step          forward(supercell config, tile s) = tile(forward(base config, s))   on every cell of the supercell
  C09_tile_steps         … after any number of steps
  C09_tile_periodic      the periodic instance: w = 1, all ghost multipliers 1
  C09_tile_bloch         the Bloch instance: w q = u^q, base multipliers u, u⁻¹, supercell multipliers u^m, (u^m)⁻¹  (u ≠ 0)
  AsFound.metricBwd_not_tiled   the backward metric scale of tiled NON-uniform widths is not the tiled metric scale
                         (`_metric_scale` pads w[-1] := w[0] instead of wrapping) — the hypothesis "metric itself tiled"
                         fails on the real code for general non-uniform widths: known finding, see props/C09.findings.json

Only the x axis is treated; the y and z statements are the same with the index roles exchanged (checked on the
implementation for every axis subset by the correspondence harness) — see props/C09.json → not_shown.
-/
import FdtdxProps.C02
import FdtdxModel.C09
import Mathlib.Tactic.Ring
import Mathlib.Tactic.Linarith
import Mathlib.Tactic.FieldSimp
import Mathlib.Tactic.NormNum
import Mathlib.Tactic.IntervalCases

namespace Fdtdx.C09
open Fdtdx Fdtdx.Yee Fdtdx.C02

private theorem divmod (k d : Nat) (hk : 0 < k) :
    ∃ q r, d = k * q + r ∧ r < k ∧ d / k = q ∧ d % k = r :=
  ⟨d / k, d % k, (Nat.div_add_mod d k).symm, Nat.mod_lt _ hk, rfl, rfl⟩

private theorem div_of (k q r : Nat) (hr : r < k) : (k * q + r) / k = q := by
  have hk : 0 < k := by omega
  rw [Nat.add_comm, Nat.add_mul_div_left _ _ hk, Nat.div_eq_of_lt hr]; simp

private theorem mod_of (k q r : Nat) (hr : r < k) : (k * q + r) % k = r := by
  rw [Nat.add_comm, Nat.add_mul_mod_self_left, Nat.mod_eq_of_lt hr]

section
variable {K : Type} [Field K]

/-- compatibility of the per-copy factors `w` with the ghost multipliers of the base cell (`pp`, `pm`) and of the
supercell (`P`, `Q`) -/
structure PhaseOK (m : Nat) (w : Nat → K) (pp pm P Q : K) : Prop where
  up : ∀ q, q + 1 < m → w (q + 1) = pp * w q
  down : ∀ q, q + 1 < m → w q = pm * w (q + 1)
  outerR : P * w 0 = pp * w (m - 1)
  outerL : Q * w (m - 1) = pm * w 0

/-- **core lemma**: the right neighbour in the supercell line is the right neighbour in the base line, times the copy factor -/
theorem next1_tile (n m : Nat) (b bT : AxisBC K) (w g : Nat → K) (i : Nat)
    (hn : 0 < n) (hi : i < m * n) (hwrap : b.wrap = true) (hwrapT : bT.wrap = true)
    (up : ∀ q, q + 1 < m → w (q + 1) = b.pp * w q) (outerR : bT.pp * w 0 = b.pp * w (m - 1)) :
    next1 (m * n) bT (fun t => g (t % n) * w (t / n)) i = next1 n b g (i % n) * w (i / n) := by
  obtain ⟨q, r, hd, hr, hq, hm⟩ := divmod n i hn
  rw [hq, hm]
  have hmn : m * n = n * m := Nat.mul_comm m n
  have hqm : q < m := by
    by_contra h
    have h' : m ≤ q := by omega
    have := Nat.mul_le_mul_left n h'
    omega
  unfold next1
  by_cases h1 : r + 1 < n
  · have h2 := Nat.mul_le_mul_left n (show q + 1 ≤ m by omega)
    have h3 : n * (q + 1) = n * q + n := Nat.mul_succ n q
    have hlt : i + 1 < m * n := by omega
    have e1 : (i + 1) % n = r + 1 := by rw [hd, Nat.add_assoc]; exact mod_of n q (r + 1) h1
    have e2 : (i + 1) / n = q := by rw [hd, Nat.add_assoc]; exact div_of n q (r + 1) h1
    simp only [hlt, h1, if_true, e1, e2]
  · have hrn : r + 1 = n := by omega
    have h3 : n * (q + 1) = n * q + n := Nat.mul_succ n q
    have hi1 : i + 1 = n * (q + 1) + 0 := by omega
    simp only [h1, if_false, hwrap, if_true]
    by_cases hA : q + 1 < m
    · have h2 := Nat.mul_le_mul_left n (show q + 2 ≤ m by omega)
      have h4 : n * (q + 2) = n * q + n + n := by ring
      have hlt : i + 1 < m * n := by omega
      have e1 : (i + 1) % n = 0 := by rw [hi1]; exact mod_of n (q + 1) 0 hn
      have e2 : (i + 1) / n = q + 1 := by rw [hi1]; exact div_of n (q + 1) 0 hn
      simp only [hlt, if_true, e1, e2]
      rw [up q hA]; ring
    · have hqm1 : q + 1 = m := by omega
      have hnlt : ¬ (i + 1 < m * n) := by
        have : n * (q + 1) = n * m := by rw [hqm1]
        omega
      simp only [hnlt, if_false, hwrapT, if_true, Nat.zero_mod, Nat.zero_div]
      have hq1 : q = m - 1 := by omega
      rw [hq1]
      linear_combination (g 0) * outerR

/-- **core lemma**: the left neighbour -/
theorem prev1_tile (n m : Nat) (b bT : AxisBC K) (w g : Nat → K) (i : Nat)
    (hn : 0 < n) (hi : i < m * n) (hwrap : b.wrap = true) (hwrapT : bT.wrap = true)
    (down : ∀ q, q + 1 < m → w q = b.pm * w (q + 1)) (outerL : bT.pm * w (m - 1) = b.pm * w 0) :
    prev1 (m * n) bT (fun t => g (t % n) * w (t / n)) i = prev1 n b g (i % n) * w (i / n) := by
  obtain ⟨q, r, hd, hr, hq, hm⟩ := divmod n i hn
  rw [hq, hm]
  have hmn : m * n = n * m := Nat.mul_comm m n
  have hqm : q < m := by
    by_contra h
    have h' : m ≤ q := by omega
    have := Nat.mul_le_mul_left n h'
    omega
  unfold prev1
  by_cases hi0 : i = 0
  · have hq0 : q = 0 := by
      rcases Nat.eq_zero_or_pos q with h | h
      · exact h
      · have := Nat.mul_le_mul_left n h; omega
    have hr0 : r = 0 := by subst hq0; omega
    have h5 : n * m = n * (m - 1) + n := by
      have : m = (m - 1) + 1 := by omega
      calc n * m = n * ((m - 1) + 1) := by rw [← this]
        _ = n * (m - 1) + n := Nat.mul_succ n (m - 1)
    have hl : m * n - 1 = n * (m - 1) + (n - 1) := by omega
    have e1 : (m * n - 1) % n = n - 1 := by rw [hl]; exact mod_of n (m - 1) (n - 1) (by omega)
    have e2 : (m * n - 1) / n = m - 1 := by rw [hl]; exact div_of n (m - 1) (n - 1) (by omega)
    simp only [hi0, hr0, hq0, if_true, hwrapT, hwrap, e1, e2]
    linear_combination (g (n - 1)) * outerL
  · simp only [hi0, if_false]
    by_cases hr0 : r = 0
    · have hq1 : 1 ≤ q := by
        rcases Nat.eq_zero_or_pos q with h | h
        · subst h; omega
        · exact h
      have h5 : n * q = n * (q - 1) + n := by
        have : q = (q - 1) + 1 := by omega
        calc n * q = n * ((q - 1) + 1) := by rw [← this]
          _ = n * (q - 1) + n := Nat.mul_succ n (q - 1)
      have hl : i - 1 = n * (q - 1) + (n - 1) := by omega
      have e1 : (i - 1) % n = n - 1 := by rw [hl]; exact mod_of n (q - 1) (n - 1) (by omega)
      have e2 : (i - 1) / n = q - 1 := by rw [hl]; exact div_of n (q - 1) (n - 1) (by omega)
      simp only [hr0, if_true, hwrap, e1, e2]
      have hd' := down (q - 1) (by omega)
      have hqq : q - 1 + 1 = q := by omega
      rw [hqq] at hd'
      rw [hd']; ring
    · have hl : i - 1 = n * q + (r - 1) := by omega
      have e1 : (i - 1) % n = r - 1 := by rw [hl]; exact mod_of n q (r - 1) (by omega)
      have e2 : (i - 1) / n = q := by rw [hl]; exact div_of n q (r - 1) (by omega)
      simp only [hr0, if_false, e1, e2]

theorem next1_mul_right (N : Nat) (b : AxisBC K) (g : Nat → K) (c : K) (i : Nat) :
    next1 N b (fun t => g t * c) i = next1 N b g i * c := by
  unfold next1; split_ifs <;> ring

theorem prev1_mul_right (N : Nat) (b : AxisBC K) (g : Nat → K) (c : K) (i : Nat) :
    prev1 N b (fun t => g t * c) i = prev1 N b g i * c := by
  unfold prev1; split_ifs <;> ring

theorem next1_congr (N : Nat) (b : AxisBC K) (g g' : Nat → K) (i : Nat) (hN : 0 < N) (h : ∀ t, t < N → g t = g' t) :
    next1 N b g i = next1 N b g' i := by
  unfold next1; split_ifs with h1 h2
  · exact h _ h1
  · rw [h 0 hN]
  · rfl

theorem prev1_congr (N : Nat) (b : AxisBC K) (g g' : Nat → K) (i : Nat) (hi : i < N) (h : ∀ t, t < N → g t = g' t) :
    prev1 N b g i = prev1 N b g' i := by
  unfold prev1; split_ifs with h1 h2
  · rw [h (N - 1) (by omega)]
  · rfl
  · exact h _ (by omega)

/-- agreement of two vector fields on the cells `i < N` (all j, k) -/
def AgreeX (N : Nat) (A B : V3 K) : Prop :=
  ∀ i j k, i < N → A.x i j k = B.x i j k ∧ A.y i j k = B.y i j k ∧ A.z i j k = B.z i j k

/-- the hypotheses on the base configuration: x is a wrap axis of n ≥ 1 cells without walls -/
structure AxisOK (cf : Cfg K) : Prop where
  pos : 0 < cf.nx
  wrap : cf.bx.wrap = true
  pecLo : cf.bx.pecLo = false
  pecHi : cf.bx.pecHi = false
  pmcLo : cf.bx.pmcLo = false
  pmcHi : cf.bx.pmcHi = false

variable (cf : Cfg K) (m : Nat) (w : Nat → K) (P Q : K)

theorem curlE_tile (hax : AxisOK cf) (hp : PhaseOK m w cf.bx.pp cf.bx.pm P Q) (V : V3 K) :
    AgreeX (m * cf.nx) (curlE (tileCfgX m P Q cf) (tileX cf.nx w V)) (tileX cf.nx w (curlE cf V)) := by
  intro i j k hi
  have hx : ∀ g : Nat → K, next1 (m * cf.nx) (tileCfgX m P Q cf).bx (fun t => g (t % cf.nx) * w (t / cf.nx)) i
      = next1 cf.nx cf.bx g (i % cf.nx) * w (i / cf.nx) :=
    fun g => next1_tile cf.nx m cf.bx _ w g i hax.pos hi hax.wrap hax.wrap hp.up hp.outerR
  have h1 := hx (fun t => V.z t j k)
  have h2 := hx (fun t => V.y t j k)
  simp only [curlE, tileX, tileCfgX, next1_mul_right] at h1 h2 ⊢
  refine ⟨by ring, ?_, ?_⟩
  · rw [h1]; ring
  · rw [h2]; ring

theorem curlH_tile (hax : AxisOK cf) (hp : PhaseOK m w cf.bx.pp cf.bx.pm P Q) (V : V3 K) :
    AgreeX (m * cf.nx) (curlH (tileCfgX m P Q cf) (tileX cf.nx w V)) (tileX cf.nx w (curlH cf V)) := by
  intro i j k hi
  have hx : ∀ g : Nat → K, prev1 (m * cf.nx) (tileCfgX m P Q cf).bx (fun t => g (t % cf.nx) * w (t / cf.nx)) i
      = prev1 cf.nx cf.bx g (i % cf.nx) * w (i / cf.nx) :=
    fun g => prev1_tile cf.nx m cf.bx _ w g i hax.pos hi hax.wrap hax.wrap hp.down hp.outerL
  have h1 := hx (fun t => V.z t j k)
  have h2 := hx (fun t => V.y t j k)
  simp only [curlH, tileX, tileCfgX, prev1_mul_right] at h1 h2 ⊢
  refine ⟨by ring, ?_, ?_⟩
  · rw [h1]; ring
  · rw [h2]; ring

theorem curlE_congr (cf : Cfg K) (A B : V3 K) (hN : 0 < cf.nx) (h : AgreeX cf.nx A B) :
    AgreeX cf.nx (curlE cf A) (curlE cf B) := by
  intro i j k hi
  have fy : ∀ c : V3 K → F3 K, (∀ i j k, i < cf.nx → c A i j k = c B i j k) →
      (fun j' => c A i j' k) = (fun j' => c B i j' k) := fun c hc => funext fun j' => hc i j' k hi
  have fz : ∀ c : V3 K → F3 K, (∀ i j k, i < cf.nx → c A i j k = c B i j k) →
      (fun k' => c A i j k') = (fun k' => c B i j k') := fun c hc => funext fun k' => hc i j k' hi
  have hxx : ∀ i j k, i < cf.nx → A.x i j k = B.x i j k := fun i j k hi => (h i j k hi).1
  have hyy : ∀ i j k, i < cf.nx → A.y i j k = B.y i j k := fun i j k hi => (h i j k hi).2.1
  have hzz : ∀ i j k, i < cf.nx → A.z i j k = B.z i j k := fun i j k hi => (h i j k hi).2.2
  simp only [curlE]
  rw [fy (·.z) hzz, fy (·.x) hxx, fz (·.y) hyy, fz (·.x) hxx, hxx i j k hi, hyy i j k hi, hzz i j k hi,
    next1_congr cf.nx cf.bx (fun i' => A.z i' j k) (fun i' => B.z i' j k) i hN (fun t ht => hzz t j k ht),
    next1_congr cf.nx cf.bx (fun i' => A.y i' j k) (fun i' => B.y i' j k) i hN (fun t ht => hyy t j k ht)]
  exact ⟨rfl, rfl, rfl⟩

theorem updE1_scale (c eta0 e cu ie s : K) (sig : Option K) :
    updE1 c eta0 (e * s) (cu * s) ie sig = updE1 c eta0 e cu ie sig * s := by
  cases sig <;> simp only [updE1, div_eq_mul_inv] <;> ring

theorem updH1_scale (c eta0 h cu im s : K) (sig : Option K) :
    updH1 c eta0 (h * s) (cu * s) im sig = updH1 c eta0 h cu im sig * s := by
  cases sig <;> simp only [updH1, div_eq_mul_inv] <;> ring

theorem pecMask_tile (hax : AxisOK cf) (comp i j k : Nat) :
    pecMask (tileCfgX m P Q cf) comp i j k = pecMask cf comp (i % cf.nx) j k := by
  simp [pecMask, tileCfgX, onWall, hax.pecLo, hax.pecHi]

theorem pmcMask_tile (hax : AxisOK cf) (comp i j k : Nat) :
    pmcMask (tileCfgX m P Q cf) comp i j k = pmcMask cf comp (i % cf.nx) j k := by
  simp [pmcMask, tileCfgX, onWall, hax.pmcLo, hax.pmcHi]

theorem optAt_tile (n : Nat) (s : Option (V3 K)) (p : V3 K → F3 K)
    (hp : ∀ V i j k, p (retileX n V) i j k = p V (i % n) j k) (i j k : Nat) :
    optAt ((s.map (retileX n)).map p) i j k = optAt (s.map p) (i % n) j k := by
  cases s with
  | none => rfl
  | some V => simp [optAt, hp]

/-- the E half step on the supercell, from tiled inputs, is the tiled E half step -/
theorem stepE_tile (hax : AxisOK cf) (hp : PhaseOK m w cf.bx.pp cf.bx.pm P Q) (mt : Mat K) (jE E H : V3 K) :
    AgreeX (m * cf.nx) (stepE (tileCfgX m P Q cf) (tileMatX cf.nx mt) (tileX cf.nx w jE) (tileX cf.nx w E) (tileX cf.nx w H))
      (tileX cf.nx w (stepE cf mt jE E H)) := by
  intro i j k hi
  obtain ⟨cx, cy, cz⟩ := curlH_tile cf m w P Q hax hp H i j k hi
  have ox := optAt_tile cf.nx mt.sigE (·.x) (fun _ _ _ _ => rfl) i j k
  have oy := optAt_tile cf.nx mt.sigE (·.y) (fun _ _ _ _ => rfl) i j k
  have oz := optAt_tile cf.nx mt.sigE (·.z) (fun _ _ _ _ => rfl) i j k
  have hc : (tileCfgX m P Q cf).c = cf.c := rfl
  have he : (tileCfgX m P Q cf).eta0 = cf.eta0 := rfl
  simp only [stepE, projE, maskV, addV, pecMask_tile cf m P Q hax, tileMatX, cx, cy, cz, ox, oy, oz, hc, he]
  simp only [tileX, retileX, updE1_scale]
  refine ⟨?_, ?_, ?_⟩ <;> split_ifs <;> ring

theorem stepH_tile (hax : AxisOK cf) (hp : PhaseOK m w cf.bx.pp cf.bx.pm P Q) (mt : Mat K) (jH E H : V3 K) :
    AgreeX (m * cf.nx) (stepH (tileCfgX m P Q cf) (tileMatX cf.nx mt) (tileX cf.nx w jH) (tileX cf.nx w E) (tileX cf.nx w H))
      (tileX cf.nx w (stepH cf mt jH E H)) := by
  intro i j k hi
  obtain ⟨cx, cy, cz⟩ := curlE_tile cf m w P Q hax hp E i j k hi
  have ox := optAt_tile cf.nx mt.sigH (·.x) (fun _ _ _ _ => rfl) i j k
  have oy := optAt_tile cf.nx mt.sigH (·.y) (fun _ _ _ _ => rfl) i j k
  have oz := optAt_tile cf.nx mt.sigH (·.z) (fun _ _ _ _ => rfl) i j k
  have hc : (tileCfgX m P Q cf).c = cf.c := rfl
  have he : (tileCfgX m P Q cf).eta0 = cf.eta0 := rfl
  simp only [stepH, projH, maskV, addV, pmcMask_tile cf m P Q hax, tileMatX, cx, cy, cz, ox, oy, oz, hc, he]
  simp only [tileX, retileX, updH1_scale]
  refine ⟨?_, ?_, ?_⟩ <;> split_ifs <;> ring

/-- the H half step only reads its E argument on the cells of the domain -/
theorem stepH_congr (cf : Cfg K) (mt : Mat K) (jH A B H : V3 K) (hN : 0 < cf.nx) (h : AgreeX cf.nx A B) :
    AgreeX cf.nx (stepH cf mt jH A H) (stepH cf mt jH B H) := by
  intro i j k hi
  obtain ⟨cx, cy, cz⟩ := curlE_congr cf A B hN h i j k hi
  simp only [stepH, projH, maskV, addV, cx, cy, cz]
  refine ⟨?_, ?_, ?_⟩ <;> first | rfl | trivial

theorem AgreeX.trans {N : Nat} {A B C : V3 K} (h1 : AgreeX N A B) (h2 : AgreeX N B C) : AgreeX N A C := by
  intro i j k hi
  obtain ⟨a1, a2, a3⟩ := h1 i j k hi
  obtain ⟨b1, b2, b3⟩ := h2 i j k hi
  exact ⟨a1.trans b1, a2.trans b2, a3.trans b3⟩

/-- **C09_tile_step**: one time step of the supercell started from the tiled state (tiled materials, tiled sources,
per-copy factors `w`) is the tiled time step of the base cell, on every cell of the supercell. -/
theorem C09_tile_step (hax : AxisOK cf) (hp : PhaseOK m w cf.bx.pp cf.bx.pm P Q) (hm : 0 < m) (mt : Mat K)
    (jE jH E H : V3 K) :
    AgreeX (m * cf.nx)
        (forward (tileCfgX m P Q cf) (tileMatX cf.nx mt) (tileX cf.nx w jE) (tileX cf.nx w jH) (tileX cf.nx w E) (tileX cf.nx w H)).1
        (tileX cf.nx w (forward cf mt jE jH E H).1)
    ∧ AgreeX (m * cf.nx)
        (forward (tileCfgX m P Q cf) (tileMatX cf.nx mt) (tileX cf.nx w jE) (tileX cf.nx w jH) (tileX cf.nx w E) (tileX cf.nx w H)).2
        (tileX cf.nx w (forward cf mt jE jH E H).2) := by
  have hE := stepE_tile cf m w P Q hax hp mt jE E H
  refine ⟨hE, ?_⟩
  have hpos : 0 < (tileCfgX m P Q cf).nx := Nat.mul_pos hm hax.pos
  have h1 := stepH_congr (tileCfgX m P Q cf) (tileMatX cf.nx mt) (tileX cf.nx w jH) _ _ (tileX cf.nx w H) hpos hE
  exact h1.trans (stepH_tile cf m w P Q hax hp mt jH (stepE cf mt jE E H) H)

theorem curlH_congr (cf : Cfg K) (A B : V3 K) (h : AgreeX cf.nx A B) :
    AgreeX cf.nx (curlH cf A) (curlH cf B) := by
  intro i j k hi
  have fy : ∀ c : V3 K → F3 K, (∀ i j k, i < cf.nx → c A i j k = c B i j k) →
      (fun j' => c A i j' k) = (fun j' => c B i j' k) := fun c hc => funext fun j' => hc i j' k hi
  have fz : ∀ c : V3 K → F3 K, (∀ i j k, i < cf.nx → c A i j k = c B i j k) →
      (fun k' => c A i j k') = (fun k' => c B i j k') := fun c hc => funext fun k' => hc i j k' hi
  have hxx : ∀ i j k, i < cf.nx → A.x i j k = B.x i j k := fun i j k hi => (h i j k hi).1
  have hyy : ∀ i j k, i < cf.nx → A.y i j k = B.y i j k := fun i j k hi => (h i j k hi).2.1
  have hzz : ∀ i j k, i < cf.nx → A.z i j k = B.z i j k := fun i j k hi => (h i j k hi).2.2
  simp only [curlH]
  rw [fy (·.z) hzz, fy (·.x) hxx, fz (·.y) hyy, fz (·.x) hxx, hxx i j k hi, hyy i j k hi, hzz i j k hi,
    prev1_congr cf.nx cf.bx (fun i' => A.z i' j k) (fun i' => B.z i' j k) i hi (fun t ht => hzz t j k ht),
    prev1_congr cf.nx cf.bx (fun i' => A.y i' j k) (fun i' => B.y i' j k) i hi (fun t ht => hyy t j k ht)]
  exact ⟨rfl, rfl, rfl⟩

/-- both half steps (hence `forward`) only read their field arguments on the cells of the domain -/
theorem stepE_congr (cf : Cfg K) (mt : Mat K) (jE E1 E2 H1 H2 : V3 K) (hE : AgreeX cf.nx E1 E2) (hH : AgreeX cf.nx H1 H2) :
    AgreeX cf.nx (stepE cf mt jE E1 H1) (stepE cf mt jE E2 H2) := by
  intro i j k hi
  obtain ⟨cx, cy, cz⟩ := curlH_congr cf H1 H2 hH i j k hi
  obtain ⟨ex, ey, ez⟩ := hE i j k hi
  simp only [stepE, projE, maskV, addV, cx, cy, cz, ex, ey, ez]
  refine ⟨?_, ?_, ?_⟩ <;> first | rfl | trivial

theorem stepH_congr2 (cf : Cfg K) (mt : Mat K) (jH E1 E2 H1 H2 : V3 K) (hN : 0 < cf.nx)
    (hE : AgreeX cf.nx E1 E2) (hH : AgreeX cf.nx H1 H2) :
    AgreeX cf.nx (stepH cf mt jH E1 H1) (stepH cf mt jH E2 H2) := by
  intro i j k hi
  obtain ⟨cx, cy, cz⟩ := curlE_congr cf E1 E2 hN hE i j k hi
  obtain ⟨ex, ey, ez⟩ := hH i j k hi
  simp only [stepH, projH, maskV, addV, cx, cy, cz, ex, ey, ez]
  refine ⟨?_, ?_, ?_⟩ <;> first | rfl | trivial

theorem forward_congr (cf : Cfg K) (mt : Mat K) (jE jH E1 E2 H1 H2 : V3 K) (hN : 0 < cf.nx)
    (hE : AgreeX cf.nx E1 E2) (hH : AgreeX cf.nx H1 H2) :
    AgreeX cf.nx (forward cf mt jE jH E1 H1).1 (forward cf mt jE jH E2 H2).1
    ∧ AgreeX cf.nx (forward cf mt jE jH E1 H1).2 (forward cf mt jE jH E2 H2).2 := by
  have h1 := stepE_congr cf mt jE E1 E2 H1 H2 hE hH
  exact ⟨h1, stepH_congr2 cf mt jH _ _ H1 H2 hN h1 hH⟩

/-- **C09_tile_steps**: any number of steps (step-indexed tiled sources) -/
theorem C09_tile_steps (hax : AxisOK cf) (hp : PhaseOK m w cf.bx.pp cf.bx.pm P Q) (hm : 0 < m) (mt : Mat K)
    (jE jH : Nat → V3 K) (t s : Nat) (E H : V3 K) :
    AgreeX (m * cf.nx)
        (fwdN (tileCfgX m P Q cf) (tileMatX cf.nx mt) (fun u => tileX cf.nx w (jE u)) (fun u => tileX cf.nx w (jH u)) t s
          (tileX cf.nx w E, tileX cf.nx w H)).1
        (tileX cf.nx w (fwdN cf mt jE jH t s (E, H)).1)
    ∧ AgreeX (m * cf.nx)
        (fwdN (tileCfgX m P Q cf) (tileMatX cf.nx mt) (fun u => tileX cf.nx w (jE u)) (fun u => tileX cf.nx w (jH u)) t s
          (tileX cf.nx w E, tileX cf.nx w H)).2
        (tileX cf.nx w (fwdN cf mt jE jH t s (E, H)).2) := by
  induction s with
  | zero => exact ⟨fun _ _ _ _ => ⟨rfl, rfl, rfl⟩, fun _ _ _ _ => ⟨rfl, rfl, rfl⟩⟩
  | succ s ih =>
    have hpos : 0 < (tileCfgX m P Q cf).nx := Nat.mul_pos hm hax.pos
    obtain ⟨ihE, ihH⟩ := ih
    have hc := forward_congr (tileCfgX m P Q cf) (tileMatX cf.nx mt) (tileX cf.nx w (jE (t + s))) (tileX cf.nx w (jH (t + s)))
      _ _ _ _ hpos ihE ihH
    have hs := C09_tile_step cf m w P Q hax hp hm mt (jE (t + s)) (jH (t + s)) (fwdN cf mt jE jH t s (E, H)).1
      (fwdN cf mt jE jH t s (E, H)).2
    exact ⟨hc.1.trans hs.1, hc.2.trans hs.2⟩

theorem phaseOK_periodic (m : Nat) : PhaseOK m (fun _ => (1 : K)) 1 1 1 1 := by
  constructor <;> intros <;> simp

theorem tileX_one (n : Nat) (V : V3 K) : tileX n (fun _ => (1 : K)) V = retileX n V := by
  apply V3.ext' <;> intro i j k <;> simp [tileX, retileX]

/-- **C09_tile_periodic**: a periodic x axis (ghost multipliers 1): the m-fold supercell started from the plainly
tiled state evolves as the plainly tiled base cell — every cell, every number of steps. -/
theorem C09_tile_periodic (hax : AxisOK cf) (hpp : cf.bx.pp = 1) (hpm : cf.bx.pm = 1) (hm : 0 < m) (mt : Mat K)
    (jE jH : Nat → V3 K) (t s : Nat) (E H : V3 K) (i j k : Nat) (hi : i < m * cf.nx) :
    let S := fwdN (tileCfgX m 1 1 cf) (tileMatX cf.nx mt) (fun u => retileX cf.nx (jE u)) (fun u => retileX cf.nx (jH u)) t s
          (retileX cf.nx E, retileX cf.nx H)
    let B := fwdN cf mt jE jH t s (E, H)
    S.1.x i j k = B.1.x (i % cf.nx) j k ∧ S.1.y i j k = B.1.y (i % cf.nx) j k ∧ S.1.z i j k = B.1.z (i % cf.nx) j k
    ∧ S.2.x i j k = B.2.x (i % cf.nx) j k ∧ S.2.y i j k = B.2.y (i % cf.nx) j k ∧ S.2.z i j k = B.2.z (i % cf.nx) j k := by
  intro S B
  have hp : PhaseOK m (fun _ => (1 : K)) cf.bx.pp cf.bx.pm 1 1 := by rw [hpp, hpm]; exact phaseOK_periodic m
  obtain ⟨h1, h2⟩ := C09_tile_steps cf m (fun _ => (1 : K)) 1 1 hax hp hm mt jE jH t s E H
  simp only [tileX_one] at h1 h2
  obtain ⟨a1, a2, a3⟩ := h1 i j k hi
  obtain ⟨b1, b2, b3⟩ := h2 i j k hi
  exact ⟨a1, a2, a3, b1, b2, b3⟩

theorem phaseOK_bloch (m : Nat) (hm : 0 < m) (u : K) (hu : u ≠ 0) :
    PhaseOK m (fun q => u ^ q) u u⁻¹ (u ^ m) (u ^ m)⁻¹ := by
  obtain ⟨p, rfl⟩ : ∃ p, m = p + 1 := ⟨m - 1, by omega⟩
  have hup : u ^ (p + 1) ≠ 0 := pow_ne_zero _ hu
  constructor
  · intro q _; exact pow_succ' u q
  · intro q _; rw [pow_succ]; field_simp
  · simp only [pow_zero, mul_one, Nat.add_sub_cancel]; exact pow_succ' u p
  · simp only [pow_zero, mul_one, Nat.add_sub_cancel]; rw [pow_succ]; field_simp

/-- **C09_tile_bloch**: a Bloch x axis with phase `u` per period (right ghost × u, left ghost × u⁻¹): the m-fold
supercell with ghost multipliers `u^m`, `(u^m)⁻¹`, started from the state whose copy q is the base state times `u^q`,
evolves as that phased tiling of the base cell. -/
theorem C09_tile_bloch (hax : AxisOK cf) (u : K) (hu : u ≠ 0) (hpp : cf.bx.pp = u) (hpm : cf.bx.pm = u⁻¹) (hm : 0 < m)
    (mt : Mat K) (jE jH : Nat → V3 K) (t s : Nat) (E H : V3 K) :
    let ph : Nat → K := fun q => u ^ q
    AgreeX (m * cf.nx)
        (fwdN (tileCfgX m (u ^ m) (u ^ m)⁻¹ cf) (tileMatX cf.nx mt) (fun v => tileX cf.nx ph (jE v)) (fun v => tileX cf.nx ph (jH v)) t s
          (tileX cf.nx ph E, tileX cf.nx ph H)).1
        (tileX cf.nx ph (fwdN cf mt jE jH t s (E, H)).1)
    ∧ AgreeX (m * cf.nx)
        (fwdN (tileCfgX m (u ^ m) (u ^ m)⁻¹ cf) (tileMatX cf.nx mt) (fun v => tileX cf.nx ph (jE v)) (fun v => tileX cf.nx ph (jH v)) t s
          (tileX cf.nx ph E, tileX cf.nx ph H)).2
        (tileX cf.nx ph (fwdN cf mt jE jH t s (E, H)).2) := by
  intro ph
  have hp : PhaseOK m ph cf.bx.pp cf.bx.pm (u ^ m) (u ^ m)⁻¹ := by rw [hpp, hpm]; exact phaseOK_bloch m hm u hu
  exact C09_tile_steps cf m ph _ _ hax hp hm mt jE jH t s E H

end

/-! ### as found: the backward metric scale of tiled non-uniform widths is not tiled -/
namespace AsFound
/-- base widths (1, 2) tiled twice = (1, 2, 1, 2): at the seam cell 2 the dual width is (1 + 2)/2, but the base
cell 0 uses (1 + 1)/2 because `_metric_scale` pads `w[-1] := w[0]` — so `metricBwd` of the tiled widths is not
the tiled `metricBwd`, and the supercell is not equivalent to the base cell on such a grid. -/
theorem metricBwd_not_tiled :
    metricBwd (1 : ℚ) (fun i => if i % 2 = 0 then 1 else 2) 2 ≠ metricBwd (1 : ℚ) (fun i => if i % 2 = 0 then 1 else 2) (2 % 2) := by
  norm_num [metricBwd]

/-- with seam-symmetric widths (w[0] = w[n−1]) the backward scale IS tiled (here n = 3, widths 1,2,1) -/
example : ∀ i < 6, metricBwd (1 : ℚ) (fun i => if i % 3 = 1 then 2 else 1) i
    = metricBwd (1 : ℚ) (fun i => if i % 3 = 1 then 2 else 1) (i % 3) := by
  intro i hi
  interval_cases i <;> norm_num [metricBwd]
end AsFound

/-! ### non-vacuity: C01's concrete configuration is periodic in x without walls, so `AxisOK` and the multiplier
hypotheses are satisfiable; and the Bloch relations hold for the non-trivial phase u = 2 over ℚ. -/
example : AxisOK C01.exCfg ∧ C01.exCfg.bx.pp = 1 ∧ C01.exCfg.bx.pm = 1 := by
  refine ⟨⟨by decide, rfl, rfl, rfl, rfl, rfl⟩, rfl, rfl⟩
example : PhaseOK 3 (fun q => (2 : ℚ) ^ q) 2 2⁻¹ (2 ^ 3) (2 ^ 3)⁻¹ := phaseOK_bloch 3 (by decide) 2 (by norm_num)

end Fdtdx.C09
