/-
C32 — Symmetry unfolding is consistent.

Property theorems about `FdtdxModel/C32.lean` (every array extent, every entry type / scalar, every symmetry
tuple, every detector description):

  one axis (lists of any length, any entries)
    C32_upper_half           upperHalf (unfold a) = a
    C32_doubles              the unfolded extent is 2n (also for a single on-plane sample, after the fix)
    C32_mirror_offplane      full[n-1-i] = p · full[n+i]          (half-cell-offset samples: plain flip)
    C32_mirror_onplane       full[n-j]   = p · full[n+j], 1 ≤ j < n (samples on an electric plane: m ± j)
    C32_edge_fill            on-plane: full[0] = full[1]           (the documented repeated edge sample)
  tables
    C32_parity_table         the documented PEC/PMC parity of every (field kind, component, axis, wall)
    C32_parity_duality       E and H have opposite parity; PEC and PMC have opposite parity
    C32_onplane_table        m ± j pairing exactly for tangential E / normal H across an electric plane
    C32_onplane_is_odd       every component paired about a shared row is odd (it vanishes on the plane)
    C32_poynting_parity      S_i is odd exactly across the plane normal to i, for both wall kinds, and both
                             products E_j·H_k, E_k·H_j of the cross product have that parity
  three axes (nested lists, any shapes)
    C32_unfold3_upper_half   keeping the upper half on every symmetric axis returns the input
    C32_unfold3_self_similar the fully unfolded array is, along EVERY symmetric axis a, the one-axis unfolding of
                             its own upper half with that axis' sign and index map — so the one-axis laws above hold
                             on the final array along every axis (commutative scalars)
    C32_fields_upper_half / C32_fields_component / C32_fields_errors      `unfold_fields`
    C32_array_upper_half                                                  `unfold_array`
  reductions
    C32_sum_unfold3          Σ unfolded = ∏_{touched a}(1 + s_a) · Σ stored          (off-plane index map)
    C32_reduce_factor_sum / C32_reduce_factor_mean   `_reduce_factor` is that product, resp. ∏ (1+s_a)/2
    C32_mean_unfold3         mean of the unfolded record = ∏ (1+s_a)/2 · mean of the stored one
    C32_energy_factor        energy: every sign is +1, the factor is 2^count

Refutation witnesses for the pinned tree before the fix: `asFound_*` at the end.
-/
import FdtdxModel.C32
import FdtdxLemmas.C32
import Mathlib.Tactic.Ring
import Mathlib.Tactic.FieldSimp
import Mathlib.Tactic.Linarith
import Mathlib.Algebra.Field.Basic
import Mathlib.Algebra.BigOperators.Group.List.Basic
import Mathlib.Algebra.BigOperators.Ring.List
import Mathlib.Tactic.NormNum

namespace Fdtdx.C32

/-! ### one axis -/
section OneAxis
variable {β : Type}

/-- C32_upper_half: keeping `arr[n//2:]` of the unfolded line returns the kept line (any length, any map). -/
theorem C32_upper_half (act : β → β) (op : Bool) (a : List β) :
    upperHalf (unfoldList act op a) = a := by
  unfold upperHalf
  rw [unfoldList_length, Nat.mul_div_cancel_left _ (by decide : 0 < 2)]
  unfold unfoldList
  rw [← mirrorLow_length act op a, List.drop_left]

/-- C32_doubles -/
theorem C32_doubles (act : β → β) (op : Bool) (a : List β) :
    (unfoldList act op a).length = 2 * a.length := unfoldList_length act op a

/-- C32_mirror_offplane, stated on the unfolded array alone. -/
theorem C32_mirror_offplane (act : β → β) (a : List β) (i : Nat) (hi : i < a.length) :
    (unfoldList act false a)[a.length - 1 - i]? = ((unfoldList act false a)[a.length + i]?).map act := by
  rw [unfoldList_kept, unfoldList_mirror_off act a i hi]

/-- C32_mirror_onplane, stated on the unfolded array alone. -/
theorem C32_mirror_onplane (act : β → β) (a : List β) (j : Nat) (h1 : 1 ≤ j) (hj : j < a.length) :
    (unfoldList act true a)[a.length - j]? = ((unfoldList act true a)[a.length + j]?).map act := by
  rw [unfoldList_kept, unfoldList_mirror_on act a j h1 hj]

/-- C32_edge_fill -/
theorem C32_edge_fill (act : β → β) (a : List β) (h2 : 2 ≤ a.length) :
    (unfoldList act true a)[0]? = (unfoldList act true a)[1]? := unfoldList_edge_on act a h2

example : unfoldList (fun x : Int => -1 * x) true [10, 20, 30] = [-30, -30, -20, 10, 20, 30] := by decide
example : unfoldList (fun x : Int => -1 * x) false [10, 20, 30] = [-30, -20, -10, 10, 20, 30] := by decide
example : unfoldList (fun x : Int => -1 * x) true [10] = [-10, 10] := by decide

end OneAxis

/-! ### tables -/

/-- C32_parity_table: PEC (-1): tangential E and normal H are odd; PMC (+1): tangential H and normal E. -/
theorem C32_parity_table (ft : FT) (c a : Nat) (w : Int) (hw : w = -1 ∨ w = 1) :
    fieldParity ft c a w =
      some ((if c = a then 1 else -1) * (if ft = FT.E then 1 else -1) * (-w)) := by
  rcases hw with rfl | rfl <;> cases ft <;> by_cases h : c = a <;> simp [fieldParity, h]

theorem C32_parity_errors (ft : FT) (c a : Nat) (w : Int) (hw : w ≠ -1 ∧ w ≠ 1) :
    fieldParity ft c a w = none := by
  simp [fieldParity, hw.1, hw.2]

/-- C32_parity_duality -/
theorem C32_parity_duality (c a : Nat) (w : Int) (hw : w = -1 ∨ w = 1) :
    fieldParity .H c a w = (fieldParity .E c a w).map (fun p => -p) ∧
    ∀ ft, fieldParity ft c a (-w) = (fieldParity ft c a w).map (fun p => -p) := by
  refine ⟨?_, fun ft => ?_⟩
  · rcases hw with rfl | rfl <;> by_cases h : c = a <;> simp [fieldParity, h]
  · rcases hw with rfl | rfl <;> cases ft <;> by_cases h : c = a <;> simp [fieldParity, h]

/-- C32_onplane_table -/
theorem C32_onplane_table (ft : FT) (c a : Nat) (w : Int) :
    pairsOnPlane ft c a w = true ↔ w = -1 ∧ ((ft = FT.E ∧ c ≠ a) ∨ (ft = FT.H ∧ c = a)) := by
  cases ft <;> simp [pairsOnPlane, sitsOnPlane]

/-- C32_onplane_is_odd: a sample that is its own mirror image belongs to an odd component. -/
theorem C32_onplane_is_odd (ft : FT) (c a : Nat) (w : Int) (h : pairsOnPlane ft c a w = true) :
    fieldParity ft c a w = some (-1) := by
  rw [C32_onplane_table] at h
  obtain ⟨rfl, h | h⟩ := h
  · obtain ⟨rfl, hc⟩ := h; simp [fieldParity, hc]
  · obtain ⟨rfl, hc⟩ := h; simp [fieldParity, hc]

/-- C32_poynting_parity -/
theorem C32_poynting_parity (i a : Nat) (hi : i < 3) (ha : a < 3) (w : Int) (hw : w = -1 ∨ w = 1) :
    poyntingParity i a w = some (if i = a then -1 else 1) ∧
    (do let pe ← fieldParity .E (others i).2 a w
        let ph ← fieldParity .H (others i).1 a w
        pure (pe * ph)) = poyntingParity i a w := by
  have hi' : i = 0 ∨ i = 1 ∨ i = 2 := by omega
  have ha' : a = 0 ∨ a = 1 ∨ a = 2 := by omega
  rcases hw with rfl | rfl <;> rcases hi' with rfl | rfl | rfl <;> rcases ha' with rfl | rfl | rfl <;> decide

theorem C32_poynting_errors (i a : Nat) (w : Int) (hw : w ≠ -1 ∧ w ≠ 1) : poyntingParity i a w = none := by
  simp [poyntingParity, C32_parity_errors _ _ _ _ hw]

/-- every parity squares to one: energy density (and any product of a component with itself) is even -/
theorem C32_parity_sq (ft : FT) (c a : Nat) (w : Int) (p : Int) (h : fieldParity ft c a w = some p) :
    p * p = 1 := by
  unfold fieldParity at h
  split_ifs at h <;> cases ft <;> simp at h <;> split_ifs at h <;> subst h <;> rfl

/-! ### three axes -/
section ThreeAxes
variable {α : Type}

/-- keep the upper half on every axis with a non-zero entry (`restrict_to_kept_half`) -/
def restrictKept (w : Nat → Int) (A : A3 α) : A3 α :=
  let A2 := if w 2 = 0 then A else upperAxis 2 A
  let A1 := if w 1 = 0 then A2 else upperAxis 1 A2
  if w 0 = 0 then A1 else upperAxis 0 A1

theorem upperAxis_unfoldAxis [Mul α] (a : Nat) (s : α) (op : Bool) (A : A3 α) :
    upperAxis a (unfoldAxis a s op A) = A := by
  match a with
  | 0 => exact C32_upper_half _ _ _
  | 1 =>
    simp only [upperAxis, unfoldAxis, List.map_map]
    conv_rhs => rw [← List.map_id A]
    apply List.map_congr_left; intro P _; exact C32_upper_half _ _ _
  | (n + 2) =>
    simp only [upperAxis, unfoldAxis, List.map_map]
    conv_rhs => rw [← List.map_id A]
    apply List.map_congr_left; intro P _
    simp only [Function.comp, List.map_map, id]
    conv_rhs => rw [← List.map_id P]
    apply List.map_congr_left; intro r _; exact C32_upper_half _ _ _

/-- C32_unfold3_upper_half -/
theorem C32_unfold3_upper_half [Mul α] (w : Nat → Int) (s : Nat → α) (op : Nat → Bool) (A : A3 α) :
    restrictKept w (unfold3 w s op A) = A := by
  unfold restrictKept unfold3 stage
  by_cases h0 : w 0 = 0 <;> by_cases h1 : w 1 = 0 <;> by_cases h2 : w 2 = 0 <;>
    simp only [h0, h1, h2, if_true, if_false, upperAxis_unfoldAxis]

end ThreeAxes

section Commute
variable {α : Type} [CommSemigroup α]

/-- scaling a line commutes with unfolding it -/
theorem unfoldList_scale (s t : α) (op : Bool) (r : List α) :
    (unfoldList (fun x => s * x) op r).map (fun x => t * x) =
      unfoldList (fun x => s * x) op (r.map (fun x => t * x)) :=
  unfoldList_natural _ _ _ (fun b => mul_left_comm t s b) op r

/-- scaling the lines of a plane commutes with unfolding the plane along its first axis -/
theorem unfoldList_scale_plane (s t : α) (op : Bool) (P : List (List α)) :
    (unfoldList (fun r => r.map (fun x => s * x)) op P).map (fun r => r.map (fun x => t * x)) =
      unfoldList (fun r => r.map (fun x => s * x)) op (P.map (fun r => r.map (fun x => t * x))) := by
  apply unfoldList_natural
  intro r
  simp only [List.map_map]
  apply List.map_congr_left; intro x _; exact mul_left_comm t s x

theorem unfoldAxis_comm_01 (s t : α) (o p : Bool) (A : A3 α) :
    unfoldAxis 1 t p (unfoldAxis 0 s o A) = unfoldAxis 0 s o (unfoldAxis 1 t p A) := by
  simp only [unfoldAxis]
  apply unfoldList_natural
  intro P
  exact (unfoldList_scale_plane t s p P).symm

theorem unfoldAxis_comm_02 (s t : α) (o p : Bool) (A : A3 α) :
    unfoldAxis 2 t p (unfoldAxis 0 s o A) = unfoldAxis 0 s o (unfoldAxis 2 t p A) := by
  simp only [unfoldAxis]
  apply unfoldList_natural
  intro P
  simp only [List.map_map]
  apply List.map_congr_left; intro r _
  exact (unfoldList_scale t s p r).symm

theorem unfoldAxis_comm_12 (s t : α) (o p : Bool) (A : A3 α) :
    unfoldAxis 2 t p (unfoldAxis 1 s o A) = unfoldAxis 1 s o (unfoldAxis 2 t p A) := by
  simp only [unfoldAxis, List.map_map]
  apply List.map_congr_left; intro P _
  simp only [Function.comp]
  exact unfoldList_natural _ _ _ (fun r => (unfoldList_scale t s p r).symm) o P

theorem stage_comm_01 (w v : Int) (s t : α) (o p : Bool) (A : A3 α) :
    stage v 1 t p (stage w 0 s o A) = stage w 0 s o (stage v 1 t p A) := by
  unfold stage; split_ifs <;> first | rfl | exact unfoldAxis_comm_01 s t o p A

theorem stage_comm_02 (w v : Int) (s t : α) (o p : Bool) (A : A3 α) :
    stage v 2 t p (stage w 0 s o A) = stage w 0 s o (stage v 2 t p A) := by
  unfold stage; split_ifs <;> first | rfl | exact unfoldAxis_comm_02 s t o p A

theorem stage_comm_12 (w v : Int) (s t : α) (o p : Bool) (A : A3 α) :
    stage v 2 t p (stage w 1 s o A) = stage w 1 s o (stage v 2 t p A) := by
  unfold stage; split_ifs <;> first | rfl | exact unfoldAxis_comm_12 s t o p A

/-- C32_unfold3_self_similar: along every symmetric axis `a < 3` the final array is the one-axis unfolding of its
    own upper half, with the sign and index map of that axis. -/
theorem C32_unfold3_self_similar (w : Nat → Int) (s : Nat → α) (op : Nat → Bool) (A : A3 α)
    (a : Nat) (ha : a < 3) (hw : w a ≠ 0) :
    unfold3 w s op A = unfoldAxis a (s a) (op a) (upperAxis a (unfold3 w s op A)) := by
  have ha' : a = 0 ∨ a = 1 ∨ a = 2 := by omega
  rcases ha' with rfl | rfl | rfl
  · have h : unfold3 w s op A =
        unfoldAxis 0 (s 0) (op 0) (stage (w 2) 2 (s 2) (op 2) (stage (w 1) 1 (s 1) (op 1) A)) := by
      unfold unfold3
      rw [stage_comm_01, stage_comm_02]
      simp [stage, hw]
    rw [h, upperAxis_unfoldAxis]
  · have h : unfold3 w s op A =
        unfoldAxis 1 (s 1) (op 1) (stage (w 2) 2 (s 2) (op 2) (stage (w 0) 0 (s 0) (op 0) A)) := by
      unfold unfold3
      rw [stage_comm_12]
      simp [stage, hw]
    rw [h, upperAxis_unfoldAxis]
  · have h : unfold3 w s op A =
        unfoldAxis 2 (s 2) (op 2) (stage (w 1) 1 (s 1) (op 1) (stage (w 0) 0 (s 0) (op 0) A)) := by
      unfold unfold3
      simp [stage, hw]
    rw [h, upperAxis_unfoldAxis]

end Commute

/-! ### `unfold_fields` and `unfold_array` -/
section Fields
variable {α : Type} [Mul α]

theorem unfoldFields_eq (cast : Int → α) (ft : FT) (sym : Nat → Int) (F : List (A3 α))
    (h1 : noSym sym = false) (h2 : validSym sym = true) :
    unfoldFields cast ft sym F = some (F.mapIdx (fun c A =>
      unfold3 sym (fun a => cast (parityD ft c a (sym a))) (fun a => pairsOnPlane ft c a (sym a)) A)) := by
  simp [unfoldFields, h1, h2]

/-- C32_fields_errors: `unfold_fields` fails exactly for no symmetry / an entry outside {-1,0,1}. -/
theorem C32_fields_errors (cast : Int → α) (ft : FT) (sym : Nat → Int) (F : List (A3 α)) :
    unfoldFields cast ft sym F = none ↔ (noSym sym = true ∨ validSym sym = false) := by
  unfold unfoldFields
  by_cases h1 : noSym sym = true <;> by_cases h2 : validSym sym = true <;> simp [h1, h2]

/-- under `validSym` the parity used is the table's -/
theorem parityD_spec (ft : FT) (c a : Nat) (w : Int) (hw : w = -1 ∨ w = 1) :
    fieldParity ft c a w = some (parityD ft c a w) := by
  unfold parityD; rw [C32_parity_table ft c a w hw]; rfl

/-- C32_fields_component: component `c` of the result is the three-pass unfolding of component `c` with the
    table's parity and index map on each axis. -/
theorem C32_fields_component (cast : Int → α) (ft : FT) (sym : Nat → Int) (F G : List (A3 α))
    (h : unfoldFields cast ft sym F = some G) (c : Nat) (hc : c < F.length) :
    G[c]? = some (unfold3 sym (fun a => cast (parityD ft c a (sym a)))
      (fun a => pairsOnPlane ft c a (sym a)) F[c]) := by
  unfold unfoldFields at h
  split_ifs at h
  simp only [Option.some.injEq] at h
  subst h
  simp [hc]

/-- C32_fields_upper_half: restricting every component of the unfolded field to the kept half returns the
    reduced field (all shapes, all valid symmetry tuples, both field kinds). -/
theorem C32_fields_upper_half (cast : Int → α) (ft : FT) (sym : Nat → Int) (F G : List (A3 α))
    (h : unfoldFields cast ft sym F = some G) : G.map (restrictKept sym) = F := by
  unfold unfoldFields at h
  split_ifs at h
  simp only [Option.some.injEq] at h
  subst h
  apply List.ext_getElem?
  intro c
  simp only [List.getElem?_map, List.getElem?_mapIdx]
  cases hF : F[c]? with
  | none => simp
  | some A => simp [C32_unfold3_upper_half]

/-- C32_array_upper_half: the same for `unfold_array` on every record layout (outer, component, x, y, z). -/
theorem C32_array_upper_half (sym : Nat → Int) (signs : Nat → Nat → α) (on : List Nat) (R S : A5 α)
    (h : unfoldArray sym signs on R = some S) :
    S.map (fun comps => comps.map (restrictKept sym)) = R := by
  unfold unfoldArray at h
  split_ifs at h
  simp only [Option.some.injEq] at h
  subst h
  rw [List.map_map]
  conv_rhs => rw [← List.map_id R]
  apply List.map_congr_left; intro comps _
  simp only [Function.comp, id]
  apply List.ext_getElem?
  intro c
  simp only [List.getElem?_map, List.getElem?_mapIdx]
  cases hF : comps[c]? with
  | none => simp
  | some A => simp [C32_unfold3_upper_half]

example : unfoldFields (fun p : Int => p) .E (sym3 (-1) 0 0) [[[[1]], [[2]]], [[[3]], [[4]]], [[[5]], [[6]]]]
    = some [[[[2]], [[1]], [[1]], [[2]]], [[[-4]], [[-4]], [[3]], [[4]]], [[[-6]], [[-6]], [[5]], [[6]]]] := by
  decide

end Fields

/-! ### reductions -/
section Reduce
variable {K : Type}

/-- total of a 3-D record -/
def sum3 [AddMonoid K] (A : A3 K) : K := (A.map (fun P => (P.map List.sum).sum)).sum

/-- number of samples of a 3-D record -/
def size3 {α : Type} (A : A3 α) : Nat := (A.map (fun P => (P.map List.length).sum)).sum

private theorem sum_map_scale [CommRing K] (s : K) (r : List K) : (r.map (fun x => s * x)).sum = s * r.sum := by
  have := List.sum_map_mul_left (l := r) (f := id) (r := s)
  simpa using this

private theorem sum_plane_scale [CommRing K] (s : K) (P : List (List K)) :
    ((P.map (fun r => r.map (fun x => s * x))).map List.sum).sum = s * (P.map List.sum).sum := by
  rw [List.map_map]
  have : (List.sum ∘ fun r : List K => r.map (fun x => s * x)) = fun r => s * r.sum := by
    funext r; exact sum_map_scale s r
  rw [this]
  exact List.sum_map_mul_left (l := P) (f := List.sum) (r := s)

/-- one axis, plain flip: the total is multiplied by `1 + s` -/
theorem sum3_unfoldAxis [CommRing K] (a : Nat) (s : K) (A : A3 K) :
    sum3 (unfoldAxis a s false A) = (1 + s) * sum3 A := by
  match a with
  | 0 =>
    simp only [sum3, unfoldAxis, unfoldList, mirrorLow_off, List.map_append, List.sum_append,
      List.map_reverse, List.sum_reverse, List.map_map]
    have : ((fun P : List (List K) => (P.map List.sum).sum) ∘ fun P : List (List K) => P.map (fun r => r.map (fun x => s * x)))
        = fun P => s * (P.map List.sum).sum := by
      funext P; exact sum_plane_scale s P
    rw [this, List.sum_map_mul_left]
    ring
  | 1 =>
    simp only [sum3, unfoldAxis, List.map_map]
    have : ((fun P : List (List K) => (P.map List.sum).sum) ∘
        unfoldList (fun r => r.map (fun x => s * x)) false) = fun P => (1 + s) * (P.map List.sum).sum := by
      funext P
      simp only [Function.comp, unfoldList, mirrorLow_off, List.map_append, List.sum_append,
        List.map_reverse, List.sum_reverse]
      rw [sum_plane_scale]; ring
    rw [this, List.sum_map_mul_left]
  | (n + 2) =>
    simp only [sum3, unfoldAxis, List.map_map]
    have : ((fun P : List (List K) => (P.map List.sum).sum) ∘
        fun P : List (List K) => P.map (unfoldList (fun x => s * x) false)) = fun P => (1 + s) * (P.map List.sum).sum := by
      funext P
      simp only [Function.comp, List.map_map]
      have : (List.sum ∘ unfoldList (fun x => s * x) false) = fun r : List K => (1 + s) * r.sum := by
        funext r; exact sum_unfoldList_off s r
      rw [this, List.sum_map_mul_left]
    rw [this, List.sum_map_mul_left]

/-- the factor one pass contributes to a sum -/
def passFactor [Add K] [One K] (w : Int) (s : K) : K := if w = 0 then 1 else 1 + s

/-- C32_sum_unfold3: the total of the unfolded spatial record is `∏ (1 + s_a)` over the touched axes times the
    stored total, when every touched axis uses the plain flip. -/
theorem C32_sum_unfold3 [CommRing K] (w : Nat → Int) (s : Nat → K) (A : A3 K) :
    sum3 (unfold3 w s (fun _ => false) A) =
      passFactor (w 0) (s 0) * passFactor (w 1) (s 1) * passFactor (w 2) (s 2) * sum3 A := by
  unfold unfold3 stage passFactor
  by_cases h0 : w 0 = 0 <;> by_cases h1 : w 1 = 0 <;> by_cases h2 : w 2 = 0 <;>
    simp only [h0, h1, h2, if_true, if_false, sum3_unfoldAxis] <;> ring

/-- `_reduce_factor` for a sum is the product of `(1 + p)` -/
theorem C32_reduce_factor_sum [Field K] (cast : Int → K) (h1 : cast 1 = 1) (ps : List Int) :
    reduceFactor cast false ps = (ps.map (fun p => cast (1 + p))).prod := by
  unfold reduceFactor
  rw [h1]
  have : ∀ (init : K), List.foldl (fun f p => f * reduceTerm cast false p) init ps
      = init * (ps.map (fun p => cast (1 + p))).prod := by
    induction ps with
    | nil => intro init; simp
    | cons p t ih =>
      intro init
      simp only [List.foldl_cons, List.map_cons, List.prod_cons]
      rw [ih]
      simp [reduceTerm, mul_assoc]
  rw [this, one_mul]

/-- `_reduce_factor` for a mean is the product of `(1 + p) / 2` -/
theorem C32_reduce_factor_mean [Field K] (cast : Int → K) (h1 : cast 1 = 1) (ps : List Int) :
    reduceFactor cast true ps = (ps.map (fun p => cast (1 + p) / cast 2)).prod := by
  unfold reduceFactor
  rw [h1]
  have : ∀ (init : K), List.foldl (fun f p => f * reduceTerm cast true p) init ps
      = init * (ps.map (fun p => cast (1 + p) / cast 2)).prod := by
    induction ps with
    | nil => intro init; simp
    | cons p t ih =>
      intro init
      simp only [List.foldl_cons, List.map_cons, List.prod_cons]
      rw [ih]
      simp [reduceTerm, mul_assoc]
  rw [this, one_mul]

/-- the touched-axis product of `_reduce_factor` equals the per-pass product of `C32_sum_unfold3` -/
theorem C32_reduce_factor_matches [Field K] (cast : Int → K) (h1 : cast 1 = 1)
    (hadd : ∀ p : Int, cast (1 + p) = 1 + cast p) (w : Nat → Int) (p : Nat → Int) :
    reduceFactor cast false ((touchedAxes w).map p) =
      passFactor (w 0) (cast (p 0)) * passFactor (w 1) (cast (p 1)) * passFactor (w 2) (cast (p 2)) := by
  rw [C32_reduce_factor_sum cast h1]
  unfold touchedAxes passFactor
  by_cases h0 : w 0 = 0 <;> by_cases h1' : w 1 = 0 <;> by_cases h2 : w 2 = 0 <;>
    simp [h0, h1', h2, hadd, mul_assoc]

private theorem len_plane_scale {α : Type} [Mul α] (s : α) (P : List (List α)) :
    ((P.map (fun r => r.map (fun x => s * x))).map List.length).sum = (P.map List.length).sum := by
  simp [List.map_map, Function.comp_def]

/-- plain flip: the number of samples doubles -/
theorem size3_unfoldAxis {α : Type} [Mul α] (a : Nat) (s : α) (A : A3 α) :
    size3 (unfoldAxis a s false A) = 2 * size3 A := by
  match a with
  | 0 =>
    simp only [size3, unfoldAxis, unfoldList, mirrorLow_off, List.map_append, List.sum_append,
      List.map_reverse, List.sum_reverse, List.map_map]
    have : ((fun P : List (List α) => (P.map List.length).sum) ∘ fun P : List (List α) => P.map (fun r => r.map (fun x => s * x)))
        = fun P => (P.map List.length).sum := by
      funext P; exact len_plane_scale s P
    rw [this]; omega
  | 1 =>
    simp only [size3, unfoldAxis, List.map_map]
    have : ((fun P : List (List α) => (P.map List.length).sum) ∘
        unfoldList (fun r => r.map (fun x => s * x)) false) = fun P => 2 * (P.map List.length).sum := by
      funext P
      simp only [Function.comp, unfoldList, mirrorLow_off, List.map_append, List.sum_append,
        List.map_reverse, List.sum_reverse]
      rw [len_plane_scale]; omega
    rw [this, List.sum_map_mul_left]
  | (n + 2) =>
    simp only [size3, unfoldAxis, List.map_map]
    have : ((fun P : List (List α) => (P.map List.length).sum) ∘
        fun P : List (List α) => P.map (unfoldList (fun x => s * x) false)) = fun P => 2 * (P.map List.length).sum := by
      funext P
      simp only [Function.comp, List.map_map]
      have : (List.length ∘ unfoldList (fun x => s * x) false) = fun r : List α => 2 * r.length := by
        funext r; exact unfoldList_length _ _ r
      rw [this, List.sum_map_mul_left]
    rw [this, List.sum_map_mul_left]

/-- the factor one pass contributes to a mean -/
def passFactorMean [Field K] (w : Int) (s : K) : K := if w = 0 then 1 else (1 + s) / 2

private theorem mean_step [Field K] (a : Nat) (s : K) (A : A3 K) :
    sum3 (unfoldAxis a s false A) / (size3 (unfoldAxis a s false A) : K) =
      (1 + s) / 2 * (sum3 A / (size3 A : K)) := by
  rw [sum3_unfoldAxis, size3_unfoldAxis, Nat.cast_mul, Nat.cast_ofNat, mul_div_mul_comm]

/-- C32_mean_unfold3: the mean of the unfolded spatial record is `∏ (1 + s_a)/2` over the touched axes times the
    stored mean (plain flip on every touched axis). -/
theorem C32_mean_unfold3 [Field K] (w : Nat → Int) (s : Nat → K) (A : A3 K) :
    sum3 (unfold3 w s (fun _ => false) A) / (size3 (unfold3 w s (fun _ => false) A) : K) =
      passFactorMean (w 0) (s 0) * passFactorMean (w 1) (s 1) * passFactorMean (w 2) (s 2) *
        (sum3 A / (size3 A : K)) := by
  unfold unfold3 stage passFactorMean
  by_cases h0 : w 0 = 0 <;> by_cases h1 : w 1 = 0 <;> by_cases h2 : w 2 = 0 <;>
    simp only [h0, h1, h2, if_true, if_false, mean_step] <;> ring

/-- the touched-axis product of `_reduce_factor(mean=True)` equals the per-pass product of `C32_mean_unfold3` -/
theorem C32_reduce_factor_mean_matches [Field K] (cast : Int → K) (h1 : cast 1 = 1) (h2 : cast 2 = 2)
    (hadd : ∀ p : Int, cast (1 + p) = 1 + cast p) (w : Nat → Int) (p : Nat → Int) :
    reduceFactor cast true ((touchedAxes w).map p) =
      passFactorMean (w 0) (cast (p 0)) * passFactorMean (w 1) (cast (p 1)) *
        passFactorMean (w 2) (cast (p 2)) := by
  rw [C32_reduce_factor_mean cast h1]
  unfold touchedAxes passFactorMean
  by_cases h0 : w 0 = 0 <;> by_cases h1' : w 1 = 0 <;> by_cases h2' : w 2 = 0 <;>
    simp [h0, h1', h2', hadd, h2, mul_assoc]

/-- C32_energy_factor: with every sign +1 the sum factor is `2 ^ count` (`state * 2**count`). -/
theorem C32_energy_factor [Field K] (cast : Int → K) (h1 : cast 1 = 1)
    (hadd : ∀ p : Int, cast (1 + p) = 1 + cast p) (w : Nat → Int) :
    reduceFactor cast false ((touchedAxes w).map (fun _ => 1)) = 2 ^ (touchedAxes w).length := by
  rw [C32_reduce_factor_sum cast h1]
  simp only [hadd, List.map_const', List.map_replicate, List.prod_replicate, h1]
  norm_num

/-- C32_energy_count_is_straddled: the `2 ** count` of a reduce_volume EnergyDetector counts the planes THIS detector
    crosses (symmetric axis AND negative unclipped start), not the symmetric axes of the configuration. -/
theorem C32_energy_count_is_straddled {α : Type} [Mul α] [Div α] (cast : Int → α) (d : Det)
    (hk : d.kind = Kind.energy) (sym start : Nat → Int) :
    detFactors cast d (fun a => touchedOf (sym a) (start a)) =
      some [cast ((2 : Int) ^ ([0, 1, 2].filter (fun a => decide (sym a ≠ 0 ∧ start a < 0))).length)] := by
  have hf : touchedAxes (fun a => touchedOf (sym a) (start a)) =
      [0, 1, 2].filter (fun a => decide (sym a ≠ 0 ∧ start a < 0)) := by
    unfold touchedAxes
    apply List.filter_congr
    intro a _
    unfold touchedOf
    by_cases h : start a < 0 <;> by_cases h0 : sym a = 0 <;> simp [h, h0]
  unfold detFactors perComponent
  simp only [hk, compParities]
  rw [hf]
  generalize ([0, 1, 2].filter (fun a => decide (sym a ≠ 0 ∧ start a < 0))) = l
  have hm : ∀ t : List Nat, (t.mapM (fun _ => (some [1] : Option (List Int)))) = some (t.map (fun _ => [1])) := by
    intro t
    induction t with
    | nil => simp
    | cons a t ih => simp [List.mapM_cons, ih]
  simp [hm]

/-- a detector inside the upper x half of an (x, y)-symmetric domain that crosses only the y plane: factor 2, not 4 -/
example : detFactors (fun p : Int => p)
    { kind := .energy, comps := [], reduceVolume := true, exact := false, asSlices := false, keepAll := false, propAxis := 0 }
    (fun a => touchedOf (sym3 1 1 0 a) (sym3 1 (-4) 0 a)) = some [2] := by decide

/-- non-vacuity: a 1×1×2 record, touched by an x- and a z-plane, odd along z -/
example : sum3 (unfold3 (sym3 (-1) 0 1) (fun a => if a = 2 then (-1 : Int) else 1) (fun _ => false) [[[3, 5]]]) = 0
    ∧ sum3 (unfold3 (sym3 (-1) 0 1) (fun _ => (1 : Int)) (fun _ => false) [[[3, 5]]]) = 4 * 8 := by decide

end Reduce

/-! ### the pinned tree before the fix: refutation witnesses -/

/-- a single on-plane sample produced an EMPTY low block: the extent was not doubled … -/
example : (AsFound.unfoldList (fun x : Int => -1 * x) true [7]).length = 1 := by decide
/-- … so in `unfold_fields` the tangential (on-plane) and normal (flipped) components of a reduced field with one
    cell on an electric axis got different extents (1 vs 2) and the component concatenation raised. -/
example : (AsFound.unfoldList (fun x : Int => -1 * x) true [7]).length ≠
    (AsFound.unfoldList (fun x : Int => 1 * x) false [7]).length := by decide

end Fdtdx.C32
