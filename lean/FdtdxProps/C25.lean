/-
C25 — Brush-constrained designs are unions of brush placements  (PARTIAL by design: termination is not proved).

Theorems about `FdtdxModel/C25.lean`, any design size, any point-symmetric odd-sized brush, any design values:

  C25_output_is_union        the array returned by the generator, `dilate(touches_solid)`, is the union of the in-domain
                             parts of the brush footprints of the solid touches (at any time, not only on exit)
  C25_touches_grow           no iteration removes a touch
  C25_single_solid_preserves / C25_single_void_preserves / C25_free_preserves
                             adding one valid touch (cases 2, 3) or all free touches (case 1) keeps
                             solid pixels ∩ void pixels = ∅            (uses the symmetry of the brush)
  C25_step_preserves         one loop iteration whose choice is good (`goodChoice`) preserves the invariant
  C25_run_invariant          the whole loop: if every iteration made a good choice, the final state has solid ∩ void = ∅,
                             and if the loop ended because every pixel is covered (`status = "done"`) then …
  C25_circularBrush_sym / _centre   `circular_brush(p/q)` is odd-sized, point-symmetric and contains its centre (any rational diameter)
  C25_generator_partial      … the output is binary by construction, its solid region is ⋃ brush(touch_s) ∩ domain, its
                             void region is ⋃ brush(touch_v) ∩ domain, so every pixel of either region lies in a brush
                             footprint whose in-domain part is inside that region.

FULL STATEMENT (not proved): `BrushConstraint2D` terminates on every design and the conclusion above holds.
Missing: (a) termination — needs "an uncovered pixel always admits a valid touch" (case 3 otherwise selects flat index
0 whatever it is) and a progress measure; (b) that the touch selected by `argmax` in cases 2/3 is a valid one whenever one
exists (true by inspection: `-inf` entries never win against a finite one; not formalised). Both are the hypothesis
"every iteration made a good choice and the loop ended", which the model evaluates on EVERY run of K (`status`, `allGood`)
next to the real code.
-/
import FdtdxLemmas.C25Basic

namespace Fdtdx.C25

/-- solid pixels and void pixels of a state never overlap -/
def Disjoint (d : Dims) (b : Brush) (st : State) : Prop :=
  ∀ i j, ¬ (look (dil d b st.s) i j = true ∧ look (dil d b st.v) i j = true)

/-- **the output is a union of in-domain brush footprints of the solid touches** -/
theorem C25_output_is_union (d : Dims) (b : Brush) (st : State) (pi pj : Nat) :
    look (dil d b st.s) pi pj = true ↔ inb d pi pj = true ∧ ∃ ti tj, look st.s ti tj = true ∧ Cov b ti tj pi pj :=
  look_dil d b st.s pi pj

/-! ### touches only grow -/

theorem C25_touches_grow (d : Dims) (st : State) (ch : Choice) (i j : Nat) (hin : inb d i j = true) :
    (look st.s i j = true → look (apply d st ch).s i j = true) ∧
    (look st.v i j = true → look (apply d st ch).v i j = true) := by
  cases ch with
  | free fv fs =>
    simp only [apply, look_orT, hin, Bool.true_and, Bool.or_eq_true]
    exact ⟨Or.inl, Or.inl⟩
  | single solid idx k =>
    cases solid
    · simp only [apply, look_setIdx, hin, Bool.true_and, Bool.or_eq_true]
      exact ⟨id, Or.inl⟩
    · simp only [apply, look_setIdx, hin, Bool.true_and, Bool.or_eq_true]
      exact ⟨Or.inl, id⟩

/-! ### valid touches keep solid ∩ void = ∅ -/

theorem flat_inj {w i j ti tj : Nat} (hj : j < w) (htj : tj < w) (h : i * w + j = ti * w + tj) : i = ti ∧ j = tj := by
  have hi : i = ti := by
    rcases Nat.lt_trichotomy i ti with hlt | heq | hgt
    · have : (i + 1) * w ≤ ti * w := Nat.mul_le_mul_right w hlt
      rw [Nat.add_mul] at this; omega
    · exact heq
    · have : (ti + 1) * w ≤ i * w := Nat.mul_le_mul_right w hgt
      rw [Nat.add_mul] at this; omega
  subst hi
  exact ⟨rfl, by omega⟩

/-- unfolding of `touch_valid_solid` -/
theorem validS_iff (d : Dims) (b : Brush) (st : State) (i j : Nat) :
    look (derive d b st).validS i j = true ↔
      inb d i j = true ∧ look (dil d b (dil d b st.v)) i j = false ∧ look st.s i j = false := by
  simp only [derive, look_andT, look_notT, Bool.and_eq_true, Bool.not_eq_true']
  constructor
  · rintro ⟨h, ⟨_, h1⟩, ⟨_, h2⟩⟩; exact ⟨h, h1, h2⟩
  · rintro ⟨h, h1, h2⟩; exact ⟨h, ⟨h, h1⟩, ⟨h, h2⟩⟩

theorem validV_iff (d : Dims) (b : Brush) (st : State) (i j : Nat) :
    look (derive d b st).validV i j = true ↔
      inb d i j = true ∧ look (dil d b (dil d b st.s)) i j = false ∧ look st.v i j = false := by
  simp only [derive, look_andT, look_notT, Bool.and_eq_true, Bool.not_eq_true']
  constructor
  · rintro ⟨h, ⟨_, h1⟩, ⟨_, h2⟩⟩; exact ⟨h, h1, h2⟩
  · rintro ⟨h, h1, h2⟩; exact ⟨h, ⟨h, h1⟩, ⟨h, h2⟩⟩

/-- a touch that is not "impossible" covers no pixel of the other polarity -/
theorem valid_covers_none {d : Dims} {b : Brush} (hs : Sym b) {other : Tab} {ti tj pi pj : Nat}
    (hin : inb d ti tj = true) (hv : look (dil d b (dil d b other)) ti tj = false)
    (hc : Cov b ti tj pi pj) : look (dil d b other) pi pj = false := by
  by_contra hp
  have hp' : look (dil d b other) pi pj = true := by simpa using hp
  have : look (dil d b (dil d b other)) ti tj = true :=
    (look_dil d b _ ti tj).mpr ⟨hin, pi, pj, hp', cov_symm hs hc⟩
  rw [hv] at this; exact absurd this (by simp)

theorem C25_single_solid_preserves (d : Dims) (b : Brush) (hs : Sym b) (st : State) (ti tj k : Nat)
    (hd : Disjoint d b st) (hv : look (derive d b st).validS ti tj = true) :
    Disjoint d b (apply d st (.single true (ti * d.w + tj) k)) := by
  obtain ⟨hin, himp, _⟩ := (validS_iff d b st ti tj).mp hv
  intro pi pj ⟨h1, h2⟩
  simp only [apply] at h1 h2
  obtain ⟨hpin, t1, t2, ht, hc⟩ := (look_dil d b _ pi pj).mp h1
  rw [look_setIdx] at ht
  simp only [Bool.and_eq_true, Bool.or_eq_true, decide_eq_true_eq] at ht
  rcases ht.2 with hold | hnew
  · exact hd pi pj ⟨(look_dil d b _ pi pj).mpr ⟨hpin, t1, t2, hold, hc⟩, h2⟩
  · have hb1 := ht.1
    simp only [inb, Bool.and_eq_true, decide_eq_true_eq] at hb1 hin
    obtain ⟨e1, e2⟩ := flat_inj hb1.2 hin.2 hnew
    subst e1; subst e2
    have := valid_covers_none hs (by simp [inb, hin.1, hin.2]) himp hc
    rw [this] at h2; exact absurd h2 (by simp)

theorem C25_single_void_preserves (d : Dims) (b : Brush) (hs : Sym b) (st : State) (ti tj k : Nat)
    (hd : Disjoint d b st) (hv : look (derive d b st).validV ti tj = true) :
    Disjoint d b (apply d st (.single false (ti * d.w + tj) k)) := by
  obtain ⟨hin, himp, _⟩ := (validV_iff d b st ti tj).mp hv
  intro pi pj ⟨h1, h2⟩
  simp only [apply] at h1 h2
  obtain ⟨hpin, t1, t2, ht, hc⟩ := (look_dil d b _ pi pj).mp h2
  rw [look_setIdx] at ht
  simp only [Bool.and_eq_true, Bool.or_eq_true, decide_eq_true_eq] at ht
  rcases ht.2 with hold | hnew
  · exact hd pi pj ⟨h1, (look_dil d b _ pi pj).mpr ⟨hpin, t1, t2, hold, hc⟩⟩
  · have hb1 := ht.1
    simp only [inb, Bool.and_eq_true, decide_eq_true_eq] at hb1 hin
    obtain ⟨e1, e2⟩ := flat_inj hb1.2 hin.2 hnew
    subst e1; subst e2
    have := valid_covers_none hs (by simp [inb, hin.1, hin.2]) himp hc
    rw [this] at h1; exact absurd h1 (by simp)

/-- unfolding of `touch_free_solid`: valid, and its footprint meets no pixel that is or may still become void -/
theorem freeS_iff (d : Dims) (b : Brush) (st : State) (i j : Nat) :
    look (derive d b st).freeS i j = true ↔
      look (derive d b st).validS i j = true ∧
      look (dil d b (orT d (dil d b (orT d st.v (derive d b st).validV)) (dil d b st.v))) i j = false := by
  have hinb : look (derive d b st).validS i j = true → inb d i j = true := fun h => ((validS_iff d b st i j).mp h).1
  constructor
  · intro h
    simp only [derive, look_andT, look_notT, Bool.and_eq_true, Bool.not_eq_true'] at h
    refine ⟨?_, h.2.1.2⟩
    simp only [derive, look_andT, look_notT, Bool.and_eq_true, Bool.not_eq_true']
    exact h.2.2
  · rintro ⟨hv, hf⟩
    have hin := hinb hv
    simp only [derive, look_andT, look_notT, Bool.and_eq_true, Bool.not_eq_true'] at hv ⊢
    exact ⟨hin, ⟨hin, hf⟩, hv⟩

theorem freeV_iff (d : Dims) (b : Brush) (st : State) (i j : Nat) :
    look (derive d b st).freeV i j = true ↔
      look (derive d b st).validV i j = true ∧
      look (dil d b (orT d (dil d b (orT d st.s (derive d b st).validS)) (dil d b st.s))) i j = false := by
  have hinb : look (derive d b st).validV i j = true → inb d i j = true := fun h => ((validV_iff d b st i j).mp h).1
  constructor
  · intro h
    simp only [derive, look_andT, look_notT, Bool.and_eq_true, Bool.not_eq_true'] at h
    refine ⟨?_, h.2.1.2⟩
    simp only [derive, look_andT, look_notT, Bool.and_eq_true, Bool.not_eq_true']
    exact h.2.2
  · rintro ⟨hv, hf⟩
    have hin := hinb hv
    simp only [derive, look_andT, look_notT, Bool.and_eq_true, Bool.not_eq_true'] at hv ⊢
    exact ⟨hin, ⟨hin, hf⟩, hv⟩

/-- a touch whose dilation test over a pixel set is false covers no pixel of that set -/
theorem not_dil_covers_none {d : Dims} {b : Brush} (hs : Sym b) {pix : Tab} {ti tj pi pj : Nat}
    (hin : inb d ti tj = true) (hv : look (dil d b pix) ti tj = false) (hc : Cov b ti tj pi pj) :
    look pix pi pj = false := by
  by_contra hp
  have : look (dil d b pix) ti tj = true :=
    (look_dil d b _ ti tj).mpr ⟨hin, pi, pj, by simpa using hp, cov_symm hs hc⟩
  rw [hv] at this; exact absurd this (by simp)

/-- case 1: adding all free touches of both polarities at once keeps solid ∩ void = ∅ -/
theorem C25_free_preserves (d : Dims) (b : Brush) (hs : Sym b) (st : State) (hd : Disjoint d b st) :
    Disjoint d b (apply d st (.free (derive d b st).freeV (derive d b st).freeS)) := by
  intro pi pj ⟨h1, h2⟩
  simp only [apply] at h1 h2
  obtain ⟨hpin, t1, t2, ht, hc⟩ := (look_dil d b _ pi pj).mp h1
  obtain ⟨_, u1, u2, hu, hcu⟩ := (look_dil d b _ pi pj).mp h2
  rw [look_orT] at ht hu
  simp only [Bool.and_eq_true, Bool.or_eq_true] at ht hu
  -- the pixel is void-or-possibly-void / solid-or-possibly-solid
  have pv_of : (look st.v u1 u2 = true ∨ look (derive d b st).freeV u1 u2 = true) →
      look (orT d (dil d b (orT d st.v (derive d b st).validV)) (dil d b st.v)) pi pj = true := by
    intro h
    rw [look_orT]; simp only [hpin, Bool.true_and, Bool.or_eq_true]
    rcases h with h | h
    · exact Or.inr ((look_dil d b _ pi pj).mpr ⟨hpin, u1, u2, h, hcu⟩)
    · left
      refine (look_dil d b _ pi pj).mpr ⟨hpin, u1, u2, ?_, hcu⟩
      rw [look_orT]; simp [hu.1, ((freeV_iff d b st u1 u2).mp h).1]
  have ps_of : (look st.s t1 t2 = true ∨ look (derive d b st).freeS t1 t2 = true) →
      look (orT d (dil d b (orT d st.s (derive d b st).validS)) (dil d b st.s)) pi pj = true := by
    intro h
    rw [look_orT]; simp only [hpin, Bool.true_and, Bool.or_eq_true]
    rcases h with h | h
    · exact Or.inr ((look_dil d b _ pi pj).mpr ⟨hpin, t1, t2, h, hc⟩)
    · left
      refine (look_dil d b _ pi pj).mpr ⟨hpin, t1, t2, ?_, hc⟩
      rw [look_orT]; simp [ht.1, ((freeS_iff d b st t1 t2).mp h).1]
  rcases ht.2 with hts | htf
  · rcases hu.2 with huv | huf
    · exact hd pi pj ⟨(look_dil d b _ pi pj).mpr ⟨hpin, t1, t2, hts, hc⟩, (look_dil d b _ pi pj).mpr ⟨hpin, u1, u2, huv, hcu⟩⟩
    · have := not_dil_covers_none hs hu.1 ((freeV_iff d b st u1 u2).mp huf).2 hcu
      rw [ps_of (Or.inl hts)] at this; exact absurd this (by simp)
  · have := not_dil_covers_none hs ht.1 ((freeS_iff d b st t1 t2).mp htf).2 hc
    rw [pv_of hu.2] at this; exact absurd this (by simp)

/-! ### one iteration, the whole loop -/

theorem eqT'_iff (d : Dims) (x y : Tab) :
    goodChoice.eqT' d x y = true ↔ ∀ i j, inb d i j = true → look x i j = look y i j := by
  unfold goodChoice.eqT'
  rw [Bool.not_eq_true', ← Bool.not_eq_true, anyCells_iff]
  constructor
  · intro h i j hin
    by_contra hne
    exact h ⟨i, j, hin, by simpa using hne⟩
  · rintro h ⟨i, j, hin, hne⟩
    have := h i j hin
    simp [this] at hne

theorem dil_congr (d : Dims) (b : Brush) {x y : Tab} (h : look x = look y) : dil d b x = dil d b y := by
  unfold dil; rw [h]

theorem orT_congr (d : Dims) (x : Tab) {y z : Tab} (h : ∀ i j, inb d i j = true → look y i j = look z i j) :
    look (orT d x y) = look (orT d x z) := by
  funext i j
  rw [look_orT, look_orT]
  by_cases hin : inb d i j = true
  · rw [h i j hin]
  · simp [hin]

/-- **one iteration with a good choice preserves solid ∩ void = ∅** -/
theorem C25_step_preserves (d : Dims) (b : Brush) (hs : Sym b) (st : State) (ch : Choice)
    (hg : goodChoice d (derive d b st) ch = true) (hd : Disjoint d b st) : Disjoint d b (apply d st ch) := by
  cases ch with
  | free fv fs =>
    simp only [goodChoice, Bool.and_eq_true, eqT'_iff] at hg
    have := C25_free_preserves d b hs st hd
    unfold Disjoint at this ⊢
    simp only [apply] at this ⊢
    rw [dil_congr d b (orT_congr d st.s hg.2), dil_congr d b (orT_congr d st.v hg.1)]
    exact this
  | single solid idx k =>
    cases solid
    · simp only [goodChoice, anyCells_iff, Bool.and_eq_true, decide_eq_true_eq] at hg
      obtain ⟨i, j, _, hidx, hv⟩ := hg
      rw [← hidx]; exact C25_single_void_preserves d b hs st i j k hd hv
    · simp only [goodChoice, anyCells_iff, Bool.and_eq_true, decide_eq_true_eq] at hg
      obtain ⟨i, j, _, hidx, hv⟩ := hg
      rw [← hidx]; exact C25_single_solid_preserves d b hs st i j k hd hv

section loop
variable {α : Type} [LT α] [DecidableRel (α := α) (· < ·)]

/-- **the loop**: if every iteration made a good choice (`allGood`), the invariant holds in the final state, and when
the loop ended through its exit condition every pixel is covered. -/
theorem C25_run_invariant (d : Dims) (b : Brush) (hs : Sym b) (neg : α → α) (arr : Nat → α) :
    ∀ (fuel : Nat) (st : State) (n : Nat) (cs : List Nat) (g : Bool), Disjoint d b st →
      (run d b neg arr fuel st n cs g).allGood = true →
      g = true ∧ Disjoint d b (run d b neg arr fuel st n cs g).st ∧
        ((run d b neg arr fuel st n cs g).status = "done" → uncovered d b (run d b neg arr fuel st n cs g).st = false) := by
  intro fuel
  induction fuel with
  | zero =>
    intro st n cs g hd hg
    simp only [run] at hg ⊢
    exact ⟨hg, hd, fun h => absurd h (by decide)⟩
  | succ fuel ih =>
    intro st n cs g hd hg
    simp only [run] at hg ⊢
    by_cases hu : uncovered d b st = true
    · simp only [hu, Bool.not_true, Bool.false_eq_true, if_false] at hg ⊢
      split at hg
      · rename_i hstuck
        simp only [hstuck, if_true] at ⊢
        simp only [Bool.and_eq_true] at hg
        exact ⟨hg.1, C25_step_preserves d b hs st _ hg.2 hd, fun h => absurd h (by decide)⟩
      · rename_i hstuck
        simp only [hstuck] at ⊢
        have hg' := hg
        -- first learn that the accumulated flag was true at this iteration
        have key : (g && goodChoice d (derive d b st) (choose d neg arr (derive d b st))) = true := by
          by_contra hne
          have hf : (g && goodChoice d (derive d b st) (choose d neg arr (derive d b st))) = false := by simpa using hne
          rw [hf] at hg'
          -- with a false flag the result's flag stays false: contradiction via the first component on any state
          have : ∀ (fuel : Nat) (st : State) (n : Nat) (cs : List Nat),
              (run d b neg arr fuel st n cs false).allGood = false := by
            intro fuel
            induction fuel with
            | zero => intro st n cs; simp [run]
            | succ f ihf =>
              intro st n cs
              simp only [run]
              split
              · rfl
              · split
                · simp
                · simpa using ihf _ _ _
          rw [this] at hg'; exact absurd hg' (by simp)
        simp only [Bool.and_eq_true] at key
        have hd' := C25_step_preserves d b hs st _ key.2 hd
        have hall : (g && goodChoice d (derive d b st) (choose d neg arr (derive d b st))) = true := by
          simp [key.1, key.2]
        rw [hall] at hg ⊢
        obtain ⟨_, h2, h3⟩ := ih _ (n + 1) _ true hd' hg
        exact ⟨key.1, h2, h3⟩
    · have hu' : uncovered d b st = false := by simpa using hu
      simp only [hu', Bool.not_false, if_true] at hg ⊢
      exact ⟨hg, hd, fun _ => trivial⟩

/-- **C25, partial**: if the generator loop ends (`status = "done"`) and every iteration added valid touches only, the
output's solid region is the union of the in-domain footprints of the solid touches and its void region the union of the
in-domain footprints of the void touches.  In particular every solid (void) pixel lies in a brush placement whose
in-domain part is entirely solid (void): no feature is smaller than the brush. -/
theorem C25_generator_partial (d : Dims) (b : Brush) (hs : Sym b) (neg : α → α) (arr : Nat → α)
    (hgood : (generator d b neg arr).1.allGood = true) (hdone : (generator d b neg arr).1.status = "done")
    (pi pj : Nat) (hin : inb d pi pj = true) :
    let o := (generator d b neg arr).1
    let out := (generator d b neg arr).2
    (look out pi pj = true ↔ ∃ ti tj, look o.st.s ti tj = true ∧ Cov b ti tj pi pj) ∧
    (look out pi pj = false ↔ ∃ ti tj, look o.st.v ti tj = true ∧ Cov b ti tj pi pj) ∧
    (∀ ti tj, look o.st.s ti tj = true → ∀ qi qj, inb d qi qj = true → Cov b ti tj qi qj → look out qi qj = true) ∧
    (∀ ti tj, look o.st.v ti tj = true → ∀ qi qj, inb d qi qj = true → Cov b ti tj qi qj → look out qi qj = false) := by
  intro o out
  have hz : Disjoint d b ⟨tab d fun _ _ => false, tab d fun _ _ => false⟩ := by
    intro i j ⟨h1, _⟩
    obtain ⟨_, t1, t2, ht, _⟩ := (look_dil d b _ i j).mp h1
    rw [look_tab] at ht; simp at ht
  obtain ⟨_, hdis0, hcov0⟩ := C25_run_invariant d b hs neg arr _ _ 0 [] true hz hgood
  have hdis : Disjoint d b o.st := hdis0
  have hcov' : uncovered d b o.st = false := hcov0 hdone
  have hcover : ∀ qi qj, inb d qi qj = true → look (dil d b o.st.s) qi qj = true ∨ look (dil d b o.st.v) qi qj = true := by
    intro qi qj hq
    by_contra hne
    have : uncovered d b o.st = true := by
      unfold uncovered
      rw [anyCells_iff]
      refine ⟨qi, qj, hq, ?_⟩
      simp only [not_or, Bool.not_eq_true] at hne
      simp [hne.1, hne.2]
    rw [hcov'] at this; exact absurd this (by simp)
  have hvoid : ∀ qi qj, inb d qi qj = true →
      (look (dil d b o.st.s) qi qj = false ↔ ∃ ti tj, look o.st.v ti tj = true ∧ Cov b ti tj qi qj) := by
    intro qi qj hq
    constructor
    · intro hf
      rcases hcover qi qj hq with h | h
      · rw [hf] at h; exact absurd h (by simp)
      · exact ((look_dil d b _ qi qj).mp h).2
    · rintro ⟨ti, tj, ht, hc⟩
      by_contra hne
      exact hdis qi qj ⟨by simpa using hne, (look_dil d b _ qi qj).mpr ⟨hq, ti, tj, ht, hc⟩⟩
  refine ⟨?_, hvoid pi pj hin, ?_, ?_⟩
  · show look (dil d b o.st.s) pi pj = true ↔ _
    rw [look_dil]; simp [hin]
  · intro ti tj ht qi qj hq hc
    exact (look_dil d b _ qi qj).mpr ⟨hq, ti, tj, ht, hc⟩
  · intro ti tj ht qi qj hq hc
    exact (hvoid qi qj hq).mpr ⟨ti, tj, ht, hc⟩

end loop

/-! ### circular_brush meets the hypotheses on the brush -/

theorem sqd_reflect (a c : Nat) (h : a ≤ 2 * c) : sqd (2 * c - a) c = sqd a c := by
  unfold sqd
  have e1 : 2 * c - a - c = c - a := by omega
  have e2 : c - (2 * c - a) = a - c := by omega
  rw [e1, e2, Nat.add_comm]

/-- **`circular_brush(p/q)` is odd-sized (by construction: size = 2c+1), point-symmetric and contains its centre**, for
every rational diameter — the hypotheses `Sym` and "odd size" of the theorems above are met by the brushes users build. -/
theorem C25_circularBrush_sym (p q : Nat) : Sym (circularBrush p q) := by
  intro a bb ha hb
  simp only [circularBrush, Brush.size] at ha hb ⊢
  rw [look_tab, look_tab]
  have hi1 : inb ⟨2 * ((((if (p + q - 1) / q % 2 = 0 then (p + q - 1) / q + 1 else (p + q - 1) / q)) - 1) / 2) + 1,
      2 * ((((if (p + q - 1) / q % 2 = 0 then (p + q - 1) / q + 1 else (p + q - 1) / q)) - 1) / 2) + 1⟩ a bb = true := by
    simp [inb, ha, hb]
  generalize ((if (p + q - 1) / q % 2 = 0 then (p + q - 1) / q + 1 else (p + q - 1) / q) - 1) / 2 = c at *
  have hi2 : inb ⟨2 * c + 1, 2 * c + 1⟩ (2 * c - a) (2 * c - bb) = true := by
    simp only [inb, Bool.and_eq_true, decide_eq_true_eq]; omega
  rw [hi1, hi2, sqd_reflect a c (by omega), sqd_reflect bb c (by omega)]

theorem C25_circularBrush_centre (p q : Nat) :
    look (circularBrush p q).cells (circularBrush p q).c (circularBrush p q).c = true := by
  simp only [circularBrush]
  generalize ((if (p + q - 1) / q % 2 = 0 then (p + q - 1) / q + 1 else (p + q - 1) / q) - 1) / 2 = c
  rw [look_tab]
  have : c < 2 * c + 1 := by omega
  simp [inb, sqd, this]

/-! ### non-vacuity -/

/-- the 3×3 full brush (`circular_brush(3)`) is point-symmetric -/
def brush3 : Brush := ⟨1, tab ⟨3, 3⟩ fun _ _ => true⟩

example : Sym brush3 := by
  intro a bb ha hb
  simp only [brush3, Brush.size] at ha hb ⊢
  have h1 : a = 0 ∨ a = 1 ∨ a = 2 := by omega
  have h2 : bb = 0 ∨ bb = 1 ∨ bb = 2 := by omega
  rcases h1 with rfl | rfl | rfl <;> rcases h2 with rfl | rfl | rfl <;> decide

/-- a 3×5 design, +9 on the left two columns and -5 on the right: the loop ends after 6 iterations, every choice was
good, and the output is solid on three columns (the hypotheses of `C25_generator_partial` are satisfiable) -/
example :
    let g := generator (α := Int) ⟨3, 5⟩ brush3 (fun x => -x) (fun n => if n % 5 < 2 then 9 else -5)
    g.1.allGood = true ∧ g.1.status = "done" ∧ g.1.iters = 6 ∧
      look g.2 1 2 = true ∧ look g.2 1 3 = false := by decide +kernel

end Fdtdx.C25
