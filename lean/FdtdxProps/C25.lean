/-
C25 — Brush-constrained designs are unions of brush placements (termination included).

Theorems about `FdtdxModel/C25.lean`, any design size, any point-symmetric odd-sized brush, any design values:

  C25_output_is_union        the array returned by the generator, `dilate(touches_solid)`, is the union of the in-domain
                             parts of the brush footprints of the solid touches (at any time, not only on exit)
  C25_touches_grow           no iteration removes a touch
  C25_single_solid_preserves / C25_single_void_preserves / C25_free_preserves
                             adding one valid touch (cases 2, 3) or all free touches (case 1) keeps
                             solid pixels ∩ void pixels = ∅            (uses the symmetry of the brush)
  C25_step_preserves         one loop iteration whose choice is good (`goodChoice`) preserves the invariant
  C25_run_invariant          the whole loop: if every iteration made a good choice, the final state has solid ∩ void = ∅,
                             and if the loop ended because every pixel is covered (`status = "done"`) then …
  C25_circularBrush_sym / _centre   `circular_brush(p/q)` is odd-sized, point-symmetric and contains its centre (any rational diameter)
  C25_generator_partial      … the output is binary by construction, its solid region is ⋃ brush(touch_s) ∩ domain, its
                             void region is ⋃ brush(touch_v) ∩ domain, so every pixel of either region lies in a brush
                             footprint whose in-domain part is inside that region.

  C25_step_inv               one iteration from a state satisfying the invariant `Inv` (touches in the domain; solid ∩ void = ∅;
                             every pixel still possible for one polarity; required pixels of at most one polarity) with an
                             uncovered pixel left: the selected touches are valid (the `argmax` of `where(mask, ±arr, -inf)` lands
                             in the mask; in case 3 a valid touch EXISTS), a new touch is added, `Inv` holds again
  C25_run_terminates         hence the loop ends through its exit condition after at most 2·h·w iterations (measure: number of
                             touches), never stuck, never selecting flat index 0 by default
  C25_generator_terminates / C25_circular_generator_terminates / C25_generator_spec
                             termination and the full conclusion of the property with no hypothesis beyond "odd, point-symmetric
                             brush containing its centre" — which `circular_brush(p/q)` satisfies for every rational diameter.

Why termination holds (not in the paper's text, found while proving): required pixels of the two polarities never coexist.
A solid touch only shrinks the set of possible void pixels, so it can only create required-SOLID pixels; while those exist
case 2 keeps picking solid resolving touches; free touches (case 1) change neither set of possible pixels.  Without this
invariant the step "a resolving touch of one polarity does not make a required pixel of the other polarity impossible" is
false (a 7-element abstract cover relation refutes it), but such states are unreachable.
-/
import FdtdxLemmas.C25Term
import Mathlib.Data.Finset.Card
import Mathlib.Data.Finset.Prod

namespace Fdtdx.C25

/-- solid pixels and void pixels of a state never overlap -/
def Disjoint (d : Dims) (b : Brush) (st : State) : Prop :=
  ∀ i j, ¬ (look (dil d b st.s) i j = true ∧ look (dil d b st.v) i j = true)

/-- **the output is a union of in-domain brush footprints of the solid touches** -/
theorem C25_output_is_union (d : Dims) (b : Brush) (st : State) (pi pj : Nat) :
    look (dil d b st.s) pi pj = true ↔ inb d pi pj = true ∧ ∃ ti tj, look st.s ti tj = true ∧ Cov b ti tj pi pj :=
  look_dil d b st.s pi pj

/-! ### touches only grow -/

theorem C25_touches_grow (d : Dims) (st : State) (ch : Choice) (i j : Nat) (hin : inb d i j = true) :
    (look st.s i j = true → look (apply d st ch).s i j = true) ∧
    (look st.v i j = true → look (apply d st ch).v i j = true) := by
  cases ch with
  | free fv fs =>
    simp only [apply, look_orT, hin, Bool.true_and, Bool.or_eq_true]
    exact ⟨Or.inl, Or.inl⟩
  | single solid idx k =>
    cases solid
    · simp only [apply, look_setIdx, hin, Bool.true_and, Bool.or_eq_true]
      exact ⟨id, Or.inl⟩
    · simp only [apply, look_setIdx, hin, Bool.true_and, Bool.or_eq_true]
      exact ⟨Or.inl, id⟩

/-! ### valid touches keep solid ∩ void = ∅ -/

theorem flat_inj {w i j ti tj : Nat} (hj : j < w) (htj : tj < w) (h : i * w + j = ti * w + tj) : i = ti ∧ j = tj := by
  have hi : i = ti := by
    rcases Nat.lt_trichotomy i ti with hlt | heq | hgt
    · have : (i + 1) * w ≤ ti * w := Nat.mul_le_mul_right w hlt
      rw [Nat.add_mul] at this; omega
    · exact heq
    · have : (ti + 1) * w ≤ i * w := Nat.mul_le_mul_right w hgt
      rw [Nat.add_mul] at this; omega
  subst hi
  exact ⟨rfl, by omega⟩

/-- unfolding of `touch_valid_solid` -/
theorem validS_iff (d : Dims) (b : Brush) (st : State) (i j : Nat) :
    look (derive d b st).validS i j = true ↔
      inb d i j = true ∧ look (dil d b (dil d b st.v)) i j = false ∧ look st.s i j = false := by
  simp only [derive, look_andT, look_notT, Bool.and_eq_true, Bool.not_eq_true']
  constructor
  · rintro ⟨h, ⟨_, h1⟩, ⟨_, h2⟩⟩; exact ⟨h, h1, h2⟩
  · rintro ⟨h, h1, h2⟩; exact ⟨h, ⟨h, h1⟩, ⟨h, h2⟩⟩

theorem validV_iff (d : Dims) (b : Brush) (st : State) (i j : Nat) :
    look (derive d b st).validV i j = true ↔
      inb d i j = true ∧ look (dil d b (dil d b st.s)) i j = false ∧ look st.v i j = false := by
  simp only [derive, look_andT, look_notT, Bool.and_eq_true, Bool.not_eq_true']
  constructor
  · rintro ⟨h, ⟨_, h1⟩, ⟨_, h2⟩⟩; exact ⟨h, h1, h2⟩
  · rintro ⟨h, h1, h2⟩; exact ⟨h, ⟨h, h1⟩, ⟨h, h2⟩⟩

/-- a touch that is not "impossible" covers no pixel of the other polarity -/
theorem valid_covers_none {d : Dims} {b : Brush} (hs : Sym b) {other : Tab} {ti tj pi pj : Nat}
    (hin : inb d ti tj = true) (hv : look (dil d b (dil d b other)) ti tj = false)
    (hc : Cov b ti tj pi pj) : look (dil d b other) pi pj = false := by
  by_contra hp
  have hp' : look (dil d b other) pi pj = true := by simpa using hp
  have : look (dil d b (dil d b other)) ti tj = true :=
    (look_dil d b _ ti tj).mpr ⟨hin, pi, pj, hp', cov_symm hs hc⟩
  rw [hv] at this; exact absurd this (by simp)

theorem C25_single_solid_preserves (d : Dims) (b : Brush) (hs : Sym b) (st : State) (ti tj k : Nat)
    (hd : Disjoint d b st) (hv : look (derive d b st).validS ti tj = true) :
    Disjoint d b (apply d st (.single true (ti * d.w + tj) k)) := by
  obtain ⟨hin, himp, _⟩ := (validS_iff d b st ti tj).mp hv
  intro pi pj ⟨h1, h2⟩
  simp only [apply] at h1 h2
  obtain ⟨hpin, t1, t2, ht, hc⟩ := (look_dil d b _ pi pj).mp h1
  rw [look_setIdx] at ht
  simp only [Bool.and_eq_true, Bool.or_eq_true, decide_eq_true_eq] at ht
  rcases ht.2 with hold | hnew
  · exact hd pi pj ⟨(look_dil d b _ pi pj).mpr ⟨hpin, t1, t2, hold, hc⟩, h2⟩
  · have hb1 := ht.1
    simp only [inb, Bool.and_eq_true, decide_eq_true_eq] at hb1 hin
    obtain ⟨e1, e2⟩ := flat_inj hb1.2 hin.2 hnew
    subst e1; subst e2
    have := valid_covers_none hs (by simp [inb, hin.1, hin.2]) himp hc
    rw [this] at h2; exact absurd h2 (by simp)

theorem C25_single_void_preserves (d : Dims) (b : Brush) (hs : Sym b) (st : State) (ti tj k : Nat)
    (hd : Disjoint d b st) (hv : look (derive d b st).validV ti tj = true) :
    Disjoint d b (apply d st (.single false (ti * d.w + tj) k)) := by
  obtain ⟨hin, himp, _⟩ := (validV_iff d b st ti tj).mp hv
  intro pi pj ⟨h1, h2⟩
  simp only [apply] at h1 h2
  obtain ⟨hpin, t1, t2, ht, hc⟩ := (look_dil d b _ pi pj).mp h2
  rw [look_setIdx] at ht
  simp only [Bool.and_eq_true, Bool.or_eq_true, decide_eq_true_eq] at ht
  rcases ht.2 with hold | hnew
  · exact hd pi pj ⟨h1, (look_dil d b _ pi pj).mpr ⟨hpin, t1, t2, hold, hc⟩⟩
  · have hb1 := ht.1
    simp only [inb, Bool.and_eq_true, decide_eq_true_eq] at hb1 hin
    obtain ⟨e1, e2⟩ := flat_inj hb1.2 hin.2 hnew
    subst e1; subst e2
    have := valid_covers_none hs (by simp [inb, hin.1, hin.2]) himp hc
    rw [this] at h1; exact absurd h1 (by simp)

/-- unfolding of `touch_free_solid`: valid, and its footprint meets no pixel that is or may still become void -/
theorem freeS_iff (d : Dims) (b : Brush) (st : State) (i j : Nat) :
    look (derive d b st).freeS i j = true ↔
      look (derive d b st).validS i j = true ∧
      look (dil d b (orT d (dil d b (orT d st.v (derive d b st).validV)) (dil d b st.v))) i j = false := by
  have hinb : look (derive d b st).validS i j = true → inb d i j = true := fun h => ((validS_iff d b st i j).mp h).1
  constructor
  · intro h
    simp only [derive, look_andT, look_notT, Bool.and_eq_true, Bool.not_eq_true'] at h
    refine ⟨?_, h.2.1.2⟩
    simp only [derive, look_andT, look_notT, Bool.and_eq_true, Bool.not_eq_true']
    exact h.2.2
  · rintro ⟨hv, hf⟩
    have hin := hinb hv
    simp only [derive, look_andT, look_notT, Bool.and_eq_true, Bool.not_eq_true'] at hv ⊢
    exact ⟨hin, ⟨hin, hf⟩, hv⟩

theorem freeV_iff (d : Dims) (b : Brush) (st : State) (i j : Nat) :
    look (derive d b st).freeV i j = true ↔
      look (derive d b st).validV i j = true ∧
      look (dil d b (orT d (dil d b (orT d st.s (derive d b st).validS)) (dil d b st.s))) i j = false := by
  have hinb : look (derive d b st).validV i j = true → inb d i j = true := fun h => ((validV_iff d b st i j).mp h).1
  constructor
  · intro h
    simp only [derive, look_andT, look_notT, Bool.and_eq_true, Bool.not_eq_true'] at h
    refine ⟨?_, h.2.1.2⟩
    simp only [derive, look_andT, look_notT, Bool.and_eq_true, Bool.not_eq_true']
    exact h.2.2
  · rintro ⟨hv, hf⟩
    have hin := hinb hv
    simp only [derive, look_andT, look_notT, Bool.and_eq_true, Bool.not_eq_true'] at hv ⊢
    exact ⟨hin, ⟨hin, hf⟩, hv⟩

/-- a touch whose dilation test over a pixel set is false covers no pixel of that set -/
theorem not_dil_covers_none {d : Dims} {b : Brush} (hs : Sym b) {pix : Tab} {ti tj pi pj : Nat}
    (hin : inb d ti tj = true) (hv : look (dil d b pix) ti tj = false) (hc : Cov b ti tj pi pj) :
    look pix pi pj = false := by
  by_contra hp
  have : look (dil d b pix) ti tj = true :=
    (look_dil d b _ ti tj).mpr ⟨hin, pi, pj, by simpa using hp, cov_symm hs hc⟩
  rw [hv] at this; exact absurd this (by simp)

/-- case 1: adding all free touches of both polarities at once keeps solid ∩ void = ∅ -/
theorem C25_free_preserves (d : Dims) (b : Brush) (hs : Sym b) (st : State) (hd : Disjoint d b st) :
    Disjoint d b (apply d st (.free (derive d b st).freeV (derive d b st).freeS)) := by
  intro pi pj ⟨h1, h2⟩
  simp only [apply] at h1 h2
  obtain ⟨hpin, t1, t2, ht, hc⟩ := (look_dil d b _ pi pj).mp h1
  obtain ⟨_, u1, u2, hu, hcu⟩ := (look_dil d b _ pi pj).mp h2
  rw [look_orT] at ht hu
  simp only [Bool.and_eq_true, Bool.or_eq_true] at ht hu
  -- the pixel is void-or-possibly-void / solid-or-possibly-solid
  have pv_of : (look st.v u1 u2 = true ∨ look (derive d b st).freeV u1 u2 = true) →
      look (orT d (dil d b (orT d st.v (derive d b st).validV)) (dil d b st.v)) pi pj = true := by
    intro h
    rw [look_orT]; simp only [hpin, Bool.true_and, Bool.or_eq_true]
    rcases h with h | h
    · exact Or.inr ((look_dil d b _ pi pj).mpr ⟨hpin, u1, u2, h, hcu⟩)
    · left
      refine (look_dil d b _ pi pj).mpr ⟨hpin, u1, u2, ?_, hcu⟩
      rw [look_orT]; simp [hu.1, ((freeV_iff d b st u1 u2).mp h).1]
  have ps_of : (look st.s t1 t2 = true ∨ look (derive d b st).freeS t1 t2 = true) →
      look (orT d (dil d b (orT d st.s (derive d b st).validS)) (dil d b st.s)) pi pj = true := by
    intro h
    rw [look_orT]; simp only [hpin, Bool.true_and, Bool.or_eq_true]
    rcases h with h | h
    · exact Or.inr ((look_dil d b _ pi pj).mpr ⟨hpin, t1, t2, h, hc⟩)
    · left
      refine (look_dil d b _ pi pj).mpr ⟨hpin, t1, t2, ?_, hc⟩
      rw [look_orT]; simp [ht.1, ((freeS_iff d b st t1 t2).mp h).1]
  rcases ht.2 with hts | htf
  · rcases hu.2 with huv | huf
    · exact hd pi pj ⟨(look_dil d b _ pi pj).mpr ⟨hpin, t1, t2, hts, hc⟩, (look_dil d b _ pi pj).mpr ⟨hpin, u1, u2, huv, hcu⟩⟩
    · have := not_dil_covers_none hs hu.1 ((freeV_iff d b st u1 u2).mp huf).2 hcu
      rw [ps_of (Or.inl hts)] at this; exact absurd this (by simp)
  · have := not_dil_covers_none hs ht.1 ((freeS_iff d b st t1 t2).mp htf).2 hc
    rw [pv_of hu.2] at this; exact absurd this (by simp)

/-! ### one iteration, the whole loop -/

theorem eqT'_iff (d : Dims) (x y : Tab) :
    goodChoice.eqT' d x y = true ↔ ∀ i j, inb d i j = true → look x i j = look y i j := by
  unfold goodChoice.eqT'
  rw [Bool.not_eq_true', ← Bool.not_eq_true, anyCells_iff]
  constructor
  · intro h i j hin
    by_contra hne
    exact h ⟨i, j, hin, by simpa using hne⟩
  · rintro h ⟨i, j, hin, hne⟩
    have := h i j hin
    simp [this] at hne

theorem dil_congr (d : Dims) (b : Brush) {x y : Tab} (h : look x = look y) : dil d b x = dil d b y := by
  unfold dil; rw [h]

theorem orT_congr (d : Dims) (x : Tab) {y z : Tab} (h : ∀ i j, inb d i j = true → look y i j = look z i j) :
    look (orT d x y) = look (orT d x z) := by
  funext i j
  rw [look_orT, look_orT]
  by_cases hin : inb d i j = true
  · rw [h i j hin]
  · simp [hin]

/-- **one iteration with a good choice preserves solid ∩ void = ∅** -/
theorem C25_step_preserves (d : Dims) (b : Brush) (hs : Sym b) (st : State) (ch : Choice)
    (hg : goodChoice d (derive d b st) ch = true) (hd : Disjoint d b st) : Disjoint d b (apply d st ch) := by
  cases ch with
  | free fv fs =>
    simp only [goodChoice, Bool.and_eq_true, eqT'_iff] at hg
    have := C25_free_preserves d b hs st hd
    unfold Disjoint at this ⊢
    simp only [apply] at this ⊢
    rw [dil_congr d b (orT_congr d st.s hg.2), dil_congr d b (orT_congr d st.v hg.1)]
    exact this
  | single solid idx k =>
    cases solid
    · simp only [goodChoice, anyCells_iff, Bool.and_eq_true, decide_eq_true_eq] at hg
      obtain ⟨i, j, _, hidx, hv⟩ := hg
      rw [← hidx]; exact C25_single_void_preserves d b hs st i j k hd hv
    · simp only [goodChoice, anyCells_iff, Bool.and_eq_true, decide_eq_true_eq] at hg
      obtain ⟨i, j, _, hidx, hv⟩ := hg
      rw [← hidx]; exact C25_single_solid_preserves d b hs st i j k hd hv

section loop
variable {α : Type} [LT α] [DecidableRel (α := α) (· < ·)]

/-- **the loop**: if every iteration made a good choice (`allGood`), the invariant holds in the final state, and when
the loop ended through its exit condition every pixel is covered. -/
theorem C25_run_invariant (d : Dims) (b : Brush) (hs : Sym b) (neg : α → α) (arr : Nat → α) :
    ∀ (fuel : Nat) (st : State) (n : Nat) (cs : List Nat) (g : Bool), Disjoint d b st →
      (run d b neg arr fuel st n cs g).allGood = true →
      g = true ∧ Disjoint d b (run d b neg arr fuel st n cs g).st ∧
        ((run d b neg arr fuel st n cs g).status = "done" → uncovered d b (run d b neg arr fuel st n cs g).st = false) := by
  intro fuel
  induction fuel with
  | zero =>
    intro st n cs g hd hg
    simp only [run] at hg ⊢
    exact ⟨hg, hd, fun h => absurd h (by decide)⟩
  | succ fuel ih =>
    intro st n cs g hd hg
    simp only [run] at hg ⊢
    by_cases hu : uncovered d b st = true
    · simp only [hu, Bool.not_true, Bool.false_eq_true, if_false] at hg ⊢
      split at hg
      · rename_i hstuck
        simp only [hstuck, if_true] at ⊢
        simp only [Bool.and_eq_true] at hg
        exact ⟨hg.1, C25_step_preserves d b hs st _ hg.2 hd, fun h => absurd h (by decide)⟩
      · rename_i hstuck
        simp only [hstuck] at ⊢
        have hg' := hg
        -- first learn that the accumulated flag was true at this iteration
        have key : (g && goodChoice d (derive d b st) (choose d neg arr (derive d b st))) = true := by
          by_contra hne
          have hf : (g && goodChoice d (derive d b st) (choose d neg arr (derive d b st))) = false := by simpa using hne
          rw [hf] at hg'
          -- with a false flag the result's flag stays false: contradiction via the first component on any state
          have : ∀ (fuel : Nat) (st : State) (n : Nat) (cs : List Nat),
              (run d b neg arr fuel st n cs false).allGood = false := by
            intro fuel
            induction fuel with
            | zero => intro st n cs; simp [run]
            | succ f ihf =>
              intro st n cs
              simp only [run]
              split
              · rfl
              · split
                · simp
                · simpa using ihf _ _ _
          rw [this] at hg'; exact absurd hg' (by simp)
        simp only [Bool.and_eq_true] at key
        have hd' := C25_step_preserves d b hs st _ key.2 hd
        have hall : (g && goodChoice d (derive d b st) (choose d neg arr (derive d b st))) = true := by
          simp [key.1, key.2]
        rw [hall] at hg ⊢
        obtain ⟨_, h2, h3⟩ := ih _ (n + 1) _ true hd' hg
        exact ⟨key.1, h2, h3⟩
    · have hu' : uncovered d b st = false := by simpa using hu
      simp only [hu', Bool.not_false, if_true] at hg ⊢
      exact ⟨hg, hd, fun _ => trivial⟩

/-- **C25, partial**: if the generator loop ends (`status = "done"`) and every iteration added valid touches only, the
output's solid region is the union of the in-domain footprints of the solid touches and its void region the union of the
in-domain footprints of the void touches.  In particular every solid (void) pixel lies in a brush placement whose
in-domain part is entirely solid (void): no feature is smaller than the brush. -/
theorem C25_generator_partial (d : Dims) (b : Brush) (hs : Sym b) (neg : α → α) (arr : Nat → α)
    (hgood : (generator d b neg arr).1.allGood = true) (hdone : (generator d b neg arr).1.status = "done")
    (pi pj : Nat) (hin : inb d pi pj = true) :
    let o := (generator d b neg arr).1
    let out := (generator d b neg arr).2
    (look out pi pj = true ↔ ∃ ti tj, look o.st.s ti tj = true ∧ Cov b ti tj pi pj) ∧
    (look out pi pj = false ↔ ∃ ti tj, look o.st.v ti tj = true ∧ Cov b ti tj pi pj) ∧
    (∀ ti tj, look o.st.s ti tj = true → ∀ qi qj, inb d qi qj = true → Cov b ti tj qi qj → look out qi qj = true) ∧
    (∀ ti tj, look o.st.v ti tj = true → ∀ qi qj, inb d qi qj = true → Cov b ti tj qi qj → look out qi qj = false) := by
  intro o out
  have hz : Disjoint d b ⟨tab d fun _ _ => false, tab d fun _ _ => false⟩ := by
    intro i j ⟨h1, _⟩
    obtain ⟨_, t1, t2, ht, _⟩ := (look_dil d b _ i j).mp h1
    rw [look_tab] at ht; simp at ht
  obtain ⟨_, hdis0, hcov0⟩ := C25_run_invariant d b hs neg arr _ _ 0 [] true hz hgood
  have hdis : Disjoint d b o.st := hdis0
  have hcov' : uncovered d b o.st = false := hcov0 hdone
  have hcover : ∀ qi qj, inb d qi qj = true → look (dil d b o.st.s) qi qj = true ∨ look (dil d b o.st.v) qi qj = true := by
    intro qi qj hq
    by_contra hne
    have : uncovered d b o.st = true := by
      unfold uncovered
      rw [anyCells_iff]
      refine ⟨qi, qj, hq, ?_⟩
      simp only [not_or, Bool.not_eq_true] at hne
      simp [hne.1, hne.2]
    rw [hcov'] at this; exact absurd this (by simp)
  have hvoid : ∀ qi qj, inb d qi qj = true →
      (look (dil d b o.st.s) qi qj = false ↔ ∃ ti tj, look o.st.v ti tj = true ∧ Cov b ti tj qi qj) := by
    intro qi qj hq
    constructor
    · intro hf
      rcases hcover qi qj hq with h | h
      · rw [hf] at h; exact absurd h (by simp)
      · exact ((look_dil d b _ qi qj).mp h).2
    · rintro ⟨ti, tj, ht, hc⟩
      by_contra hne
      exact hdis qi qj ⟨by simpa using hne, (look_dil d b _ qi qj).mpr ⟨hq, ti, tj, ht, hc⟩⟩
  refine ⟨?_, hvoid pi pj hin, ?_, ?_⟩
  · show look (dil d b o.st.s) pi pj = true ↔ _
    rw [look_dil]; simp [hin]
  · intro ti tj ht qi qj hq hc
    exact (look_dil d b _ qi qj).mpr ⟨hq, ti, tj, ht, hc⟩
  · intro ti tj ht qi qj hq hc
    exact (hvoid qi qj hq).mpr ⟨ti, tj, ht, hc⟩

end loop

/-! ### termination -/

/-- the loop invariant: touches in the domain, solid ∩ void = ∅, every pixel still possible for one polarity, required
pixels of at most one polarity -/
def Inv (d : Dims) (b : Brush) (st : State) : Prop := Bnd d st ∧ Disjoint d b st ∧ Jinv d b st ∧ Iinv d b st

/-- the iteration added a touch -/
def Progress (d : Dims) (st st' : State) : Prop :=
  ∃ i j, inb d i j = true ∧ ((look st'.s i j = true ∧ look st.s i j = false) ∨ (look st'.v i j = true ∧ look st.v i j = false))

theorem bnd_apply (d : Dims) (st : State) (hb : Bnd d st) (ch : Choice) : Bnd d (apply d st ch) := by
  cases ch with
  | free fv fs =>
    constructor <;> intro i j h <;> simp only [apply] at h <;> rw [look_orT] at h <;>
      simp only [Bool.and_eq_true] at h <;> exact h.1
  | single solid idx k =>
    cases solid
    · refine ⟨?_, ?_⟩
      · intro i j h; simp only [apply] at h; exact hb.1 i j h
      · intro i j h; simp only [apply] at h; rw [look_setIdx] at h; simp only [Bool.and_eq_true] at h; exact h.1
    · refine ⟨?_, ?_⟩
      · intro i j h; simp only [apply] at h; rw [look_setIdx] at h; simp only [Bool.and_eq_true] at h; exact h.1
      · intro i j h; simp only [apply] at h; exact hb.2 i j h

section stepinv
variable {α : Type} [LT α] [DecidableRel (α := α) (· < ·)]

/-- **one iteration from a state satisfying the invariant, with an uncovered pixel left**: the touches selected are valid
ones, a new touch is added, and the invariant holds again. -/
theorem C25_step_inv (d : Dims) (b : Brush) (hs : Sym b) (neg : α → α) (arr : Nat → α) (st : State)
    (hinv : Inv d b st) (hu : uncovered d b st = true) :
    goodChoice d (derive d b st) (choose d neg arr (derive d b st)) = true ∧
    Inv d b (apply d st (choose d neg arr (derive d b st))) ∧
    Progress d st (apply d st (choose d neg arr (derive d b st))) := by
  obtain ⟨hbnd, hdis, hJ, hI⟩ := hinv
  -- what a solid / void single choice gives
  have solidCase : ∀ (i j c : Nat), inb d i j = true → look (derive d b st).validS i j = true →
      (∀ x y, look (reqV d b st) x y = false) →
      goodChoice d (derive d b st) (.single true (i * d.w + j) c) = true ∧
      Inv d b (apply d st (.single true (i * d.w + j) c)) ∧ Progress d st (apply d st (.single true (i * d.w + j) c)) := by
    intro i j c hin hv hnr
    have hns := ((vS_iff d b st i j).mp hv).2.2
    refine ⟨?_, ⟨bnd_apply d st hbnd _, C25_single_solid_preserves d b hs st i j c hdis hv, ?_⟩, ?_⟩
    · simp only [goodChoice]
      rw [anyCells_iff]; exact ⟨i, j, hin, by simp [hv]⟩
    · exact inv_addS d b st i j hbnd hv hJ hnr
    · refine ⟨i, j, hin, Or.inl ⟨?_, hns⟩⟩
      simp only [apply]; rw [look_setIdx]; simp [hin]
  have voidCase : ∀ (i j c : Nat), inb d i j = true → look (derive d b st).validV i j = true →
      (∀ x y, look (reqS d b st) x y = false) →
      goodChoice d (derive d b st) (.single false (i * d.w + j) c) = true ∧
      Inv d b (apply d st (.single false (i * d.w + j) c)) ∧ Progress d st (apply d st (.single false (i * d.w + j) c)) := by
    intro i j c hin hv hnr
    have hns := ((vV_iff d b st i j).mp hv).2.2
    refine ⟨?_, ⟨bnd_apply d st hbnd _, C25_single_void_preserves d b hs st i j c hdis hv, ?_⟩, ?_⟩
    · simp only [goodChoice]
      rw [anyCells_iff]; exact ⟨i, j, hin, by simp [hv]⟩
    · exact inv_addV d b st i j hbnd hv hJ hnr
    · refine ⟨i, j, hin, Or.inr ⟨?_, hns⟩⟩
      simp only [apply]; rw [look_setIdx]; simp [hin]
  unfold choose
  by_cases hfree : anyCells d (fun i j => look (derive d b st).freeS i j || look (derive d b st).freeV i j) = true
  · -- case 1
    rw [if_pos hfree]
    refine ⟨?_, ⟨bnd_apply d st hbnd _, C25_free_preserves d b hs st hdis, ?_⟩, ?_⟩
    · simp only [goodChoice, Bool.and_eq_true]
      exact ⟨(eqT'_iff d _ _).mpr (fun _ _ _ => rfl), (eqT'_iff d _ _).mpr (fun _ _ _ => rfl)⟩
    · exact inv_addFree d b hs st hbnd hJ hI
    · rw [anyCells_iff] at hfree
      obtain ⟨i, j, hin, hf⟩ := hfree
      simp only [Bool.or_eq_true] at hf
      refine ⟨i, j, hin, ?_⟩
      rcases hf with hf | hf
      · have hv := ((fS_iff d b st i j).mp hf).1
        refine Or.inl ⟨?_, ((vS_iff d b st i j).mp hv).2.2⟩
        simp only [apply]; rw [look_orT]; simp [hin, hf]
      · have hv := ((fV_iff d b st i j).mp hf).1
        refine Or.inr ⟨?_, ((vV_iff d b st i j).mp hv).2.2⟩
        simp only [apply]; rw [look_orT]; simp [hin, hf]
  · rw [if_neg hfree]
    by_cases hres : anyCells d (fun i j => look (derive d b st).resS i j || look (derive d b st).resV i j) = true
    · -- case 2: the polarity of the resolving touch is the only one with required pixels
      rw [if_pos hres]
      rw [anyCells_iff] at hres
      obtain ⟨i0, j0, hin0, h0⟩ := hres
      simp only [Bool.or_eq_true] at h0
      rcases best_spec d neg arr (derive d b st).resS (derive d b st).resV 2 ⟨i0, j0, hin0, h0⟩ with
        ⟨i, j, hin, hm, he⟩ | ⟨i, j, hin, hm, he⟩
      · rw [he]
        rw [derive_resS, look_andT] at hm
        simp only [Bool.and_eq_true] at hm
        obtain ⟨_, pi, pj, hreq, _⟩ := (look_dil d b _ i j).mp hm.2.1
        apply solidCase i j 2 hin hm.2.2
        rcases hI with h | h
        · rw [h pi pj] at hreq; exact absurd hreq (by simp)
        · exact h
      · rw [he]
        rw [derive_resV, look_andT] at hm
        simp only [Bool.and_eq_true] at hm
        obtain ⟨_, pi, pj, hreq, _⟩ := (look_dil d b _ i j).mp hm.2.1
        apply voidCase i j 2 hin hm.2.2
        rcases hI with h | h
        · exact h
        · rw [h pi pj] at hreq; exact absurd hreq (by simp)
    · -- case 3: no pixel is required at all
      rw [if_neg hres]
      have hnoS : ∀ x y, look (reqS d b st) x y = false := by
        intro x y
        by_contra hc
        obtain ⟨i, j, hin, hr⟩ := exists_res_of_reqS d b hs st hJ (by simpa using hc)
        exact hres ((anyCells_iff d _).mpr ⟨i, j, hin, by simp [hr]⟩)
      have hnoV : ∀ x y, look (reqV d b st) x y = false := by
        intro x y
        by_contra hc
        obtain ⟨i, j, hin, hr⟩ := exists_res_of_reqV d b hs st hJ (by simpa using hc)
        exact hres ((anyCells_iff d _).mpr ⟨i, j, hin, by simp [hr]⟩)
      rcases best_spec d neg arr (derive d b st).validS (derive d b st).validV 3 (exists_valid_of_J d b st hJ hu) with
        ⟨i, j, hin, hm, he⟩ | ⟨i, j, hin, hm, he⟩
      · rw [he]; exact solidCase i j 3 hin hm hnoV
      · rw [he]; exact voidCase i j 3 hin hm hnoS

end stepinv

/-! ### the measure: number of touches -/

def tbox (d : Dims) : Finset (Nat × Nat) := Finset.range d.h ×ˢ Finset.range d.w
def tcount (d : Dims) (t : Tab) : Nat := ((tbox d).filter fun c => look t c.1 c.2 = true).card
/-- touches of both polarities -/
def cnt (d : Dims) (st : State) : Nat := tcount d st.s + tcount d st.v

theorem mem_tbox (d : Dims) (c : Nat × Nat) : c ∈ tbox d ↔ inb d c.1 c.2 = true := by
  simp [tbox, inb]

theorem tcount_le (d : Dims) (t : Tab) : tcount d t ≤ d.h * d.w := by
  unfold tcount
  refine (Finset.card_filter_le _ _).trans ?_
  simp [tbox]

theorem tcount_mono (d : Dims) {x y : Tab} (h : ∀ i j, inb d i j = true → look x i j = true → look y i j = true) :
    tcount d x ≤ tcount d y := by
  unfold tcount
  apply Finset.card_le_card
  intro c hc
  simp only [Finset.mem_filter] at hc ⊢
  exact ⟨hc.1, h _ _ ((mem_tbox d c).mp hc.1) hc.2⟩

theorem tcount_lt (d : Dims) {x y : Tab} (h : ∀ i j, inb d i j = true → look x i j = true → look y i j = true)
    {i j : Nat} (hin : inb d i j = true) (hy : look y i j = true) (hx : look x i j = false) : tcount d x < tcount d y := by
  unfold tcount
  apply Finset.card_lt_card
  rw [Finset.ssubset_iff_of_subset]
  · refine ⟨(i, j), ?_, ?_⟩
    · simp only [Finset.mem_filter]; exact ⟨(mem_tbox d (i, j)).mpr hin, hy⟩
    · simp only [Finset.mem_filter, not_and]; intro _; simp [hx]
  · intro c hc
    simp only [Finset.mem_filter] at hc ⊢
    exact ⟨hc.1, h _ _ ((mem_tbox d c).mp hc.1) hc.2⟩

theorem cnt_le (d : Dims) (st : State) : cnt d st ≤ 2 * d.h * d.w := by
  unfold cnt
  have := tcount_le d st.s
  have := tcount_le d st.v
  rw [Nat.mul_assoc]; omega

theorem cnt_lt_of_progress (d : Dims) (st : State) (ch : Choice) (hp : Progress d st (apply d st ch)) :
    cnt d st < cnt d (apply d st ch) := by
  obtain ⟨i, j, hin, h⟩ := hp
  have gs : ∀ a c, inb d a c = true → look st.s a c = true → look (apply d st ch).s a c = true :=
    fun a c hac => (C25_touches_grow d st ch a c hac).1
  have gv : ∀ a c, inb d a c = true → look st.v a c = true → look (apply d st ch).v a c = true :=
    fun a c hac => (C25_touches_grow d st ch a c hac).2
  unfold cnt
  rcases h with ⟨h1, h2⟩ | ⟨h1, h2⟩
  · have := tcount_lt d gs hin h1 h2
    have := tcount_mono d gv
    omega
  · have := tcount_lt d gv hin h1 h2
    have := tcount_mono d gs
    omega

theorem eqT_iff' (d : Dims) (x y : Tab) : eqT d x y = true ↔ ∀ i j, inb d i j = true → look x i j = look y i j := by
  unfold eqT
  rw [Bool.not_eq_true', ← Bool.not_eq_true, anyCells_iff]
  constructor
  · intro h i j hin
    by_contra hne
    exact h ⟨i, j, hin, by simpa using hne⟩
  · rintro h ⟨i, j, hin, hne⟩
    have := h i j hin
    simp [this] at hne

section termination
variable {α : Type} [LT α] [DecidableRel (α := α) (· < ·)]

/-- **the loop terminates**: from a state satisfying the invariant, with fuel exceeding the number of touches that can
still be added, the fuelled loop of the model ends through its exit condition (never "stuck", never out of fuel), and
every iteration selected valid touches. -/
theorem C25_run_terminates (d : Dims) (b : Brush) (hs : Sym b) (neg : α → α) (arr : Nat → α) :
    ∀ (fuel : Nat) (st : State) (n : Nat) (cs : List Nat), Inv d b st → 2 * d.h * d.w < fuel + cnt d st →
      (run d b neg arr fuel st n cs true).status = "done" ∧ (run d b neg arr fuel st n cs true).allGood = true := by
  intro fuel
  induction fuel with
  | zero =>
    intro st n cs _ hf
    have := cnt_le d st
    omega
  | succ fuel ih =>
    intro st n cs hinv hf
    simp only [run]
    by_cases hu : uncovered d b st = true
    · simp only [hu, Bool.not_true, Bool.false_eq_true, if_false]
      obtain ⟨hgood, hinv', hprog⟩ := C25_step_inv d b hs neg arr st hinv hu
      have hlt := cnt_lt_of_progress d st _ hprog
      have hnotstuck : ¬ ((eqT d st.v (apply d st (choose d neg arr (derive d b st))).v &&
          eqT d st.s (apply d st (choose d neg arr (derive d b st))).s) = true) := by
        intro hc
        simp only [Bool.and_eq_true, eqT_iff'] at hc
        obtain ⟨i, j, hin, h⟩ := hprog
        rcases h with ⟨h1, h2⟩ | ⟨h1, h2⟩
        · rw [← hc.2 i j hin, h2] at h1; exact absurd h1 (by simp)
        · rw [← hc.1 i j hin, h2] at h1; exact absurd h1 (by simp)
      rw [if_neg hnotstuck]
      simp only [hgood, Bool.and_true]
      exact ih _ (n + 1) _ hinv' (by omega)
    · have hu' : uncovered d b st = false := by simpa using hu
      simp [hu']

theorem cov_self (b : Brush) (hc : look b.cells b.c b.c = true) (i j : Nat) : Cov b i j i j :=
  ⟨b.c, b.c, by unfold Brush.size; omega, by unfold Brush.size; omega, hc, rfl, rfl⟩

/-- the empty state satisfies the invariant when the brush contains its centre -/
theorem inv_empty (d : Dims) (b : Brush) (hc : look b.cells b.c b.c = true) :
    Inv d b ⟨tab d fun _ _ => false, tab d fun _ _ => false⟩ := by
  have hz : ∀ i j, look (tab d fun _ _ => false) i j = false := by intro i j; rw [look_tab]; simp
  have hdz : ∀ i j, look (dil d b (tab d fun _ _ => false)) i j = false := by
    intro i j
    by_contra h
    obtain ⟨_, ti, tj, ht, _⟩ := (look_dil d b _ i j).mp (by simpa using h)
    rw [hz] at ht; exact absurd ht (by simp)
  have hddz : ∀ i j, look (dil d b (dil d b (tab d fun _ _ => false))) i j = false := by
    intro i j
    by_contra h
    obtain ⟨_, ti, tj, ht, _⟩ := (look_dil d b _ i j).mp (by simpa using h)
    rw [hdz] at ht; exact absurd ht (by simp)
  have hpS : ∀ i j, inb d i j = true → look (possS d b ⟨tab d fun _ _ => false, tab d fun _ _ => false⟩) i j = true := by
    intro i j hin
    exact (possS_iff d b _ i j).mpr ⟨hin, i, j, hin, Or.inr ((vS_iff d b _ i j).mpr ⟨hin, hddz i j, hz i j⟩), cov_self b hc i j⟩
  have hpV : ∀ i j, inb d i j = true → look (possV d b ⟨tab d fun _ _ => false, tab d fun _ _ => false⟩) i j = true := by
    intro i j hin
    exact (possV_iff d b _ i j).mpr ⟨hin, i, j, hin, Or.inr ((vV_iff d b _ i j).mpr ⟨hin, hddz i j, hz i j⟩), cov_self b hc i j⟩
  refine ⟨⟨fun i j h => by rw [hz] at h; exact absurd h (by simp), fun i j h => by rw [hz] at h; exact absurd h (by simp)⟩,
    ?_, fun i j hin => Or.inl (hpS i j hin), Or.inl ?_⟩
  · intro i j ⟨h1, _⟩
    rw [hdz] at h1; exact absurd h1 (by simp)
  · intro i j
    by_contra h
    obtain ⟨hin, _, h2⟩ := (reqS_iff d b _ i j).mp (by simpa using h)
    rw [hpV i j hin] at h2; exact absurd h2 (by simp)

/-- **BrushConstraint2D's generator terminates on every design** (any design size, any values, any point-symmetric odd
brush containing its centre): the model's loop ends through its exit condition within its fuel `2·h·w + 2` — at most one
iteration per touch that can be added — and every iteration selected valid touches. -/
theorem C25_generator_terminates (d : Dims) (b : Brush) (hs : Sym b) (hc : look b.cells b.c b.c = true)
    (neg : α → α) (arr : Nat → α) :
    (generator d b neg arr).1.status = "done" ∧ (generator d b neg arr).1.allGood = true := by
  have := C25_run_terminates d b hs neg arr (2 * d.h * d.w + 2) _ 0 [] (inv_empty d b hc) (by omega)
  exact this

/-- **C25, full statement for the model**: the generator terminates and returns a binary design whose solid region is the
union of the in-domain brush footprints of the solid touches and whose void region is the union of the in-domain footprints
of the void touches — every pixel of either region lies in a brush placement whose in-domain part is inside that region. -/
theorem C25_generator_spec (d : Dims) (b : Brush) (hs : Sym b) (hc : look b.cells b.c b.c = true)
    (neg : α → α) (arr : Nat → α) (pi pj : Nat) (hin : inb d pi pj = true) :
    let o := (generator d b neg arr).1
    let out := (generator d b neg arr).2
    o.status = "done" ∧
    (look out pi pj = true ↔ ∃ ti tj, look o.st.s ti tj = true ∧ Cov b ti tj pi pj) ∧
    (look out pi pj = false ↔ ∃ ti tj, look o.st.v ti tj = true ∧ Cov b ti tj pi pj) ∧
    (∀ ti tj, look o.st.s ti tj = true → ∀ qi qj, inb d qi qj = true → Cov b ti tj qi qj → look out qi qj = true) ∧
    (∀ ti tj, look o.st.v ti tj = true → ∀ qi qj, inb d qi qj = true → Cov b ti tj qi qj → look out qi qj = false) := by
  obtain ⟨hdone, hgood⟩ := C25_generator_terminates d b hs hc neg arr
  exact ⟨hdone, C25_generator_partial d b hs neg arr hgood hdone pi pj hin⟩

end termination

/-! ### circular_brush meets the hypotheses on the brush -/

theorem sqd_reflect (a c : Nat) (h : a ≤ 2 * c) : sqd (2 * c - a) c = sqd a c := by
  unfold sqd
  have e1 : 2 * c - a - c = c - a := by omega
  have e2 : c - (2 * c - a) = a - c := by omega
  rw [e1, e2, Nat.add_comm]

/-- **`circular_brush(p/q)` is odd-sized (by construction: size = 2c+1), point-symmetric and contains its centre**, for
every rational diameter — the hypotheses `Sym` and "odd size" of the theorems above are met by the brushes users build. -/
theorem C25_circularBrush_sym (p q : Nat) : Sym (circularBrush p q) := by
  intro a bb ha hb
  simp only [circularBrush, Brush.size] at ha hb ⊢
  rw [look_tab, look_tab]
  have hi1 : inb ⟨2 * ((((if (p + q - 1) / q % 2 = 0 then (p + q - 1) / q + 1 else (p + q - 1) / q)) - 1) / 2) + 1,
      2 * ((((if (p + q - 1) / q % 2 = 0 then (p + q - 1) / q + 1 else (p + q - 1) / q)) - 1) / 2) + 1⟩ a bb = true := by
    simp [inb, ha, hb]
  generalize ((if (p + q - 1) / q % 2 = 0 then (p + q - 1) / q + 1 else (p + q - 1) / q) - 1) / 2 = c at *
  have hi2 : inb ⟨2 * c + 1, 2 * c + 1⟩ (2 * c - a) (2 * c - bb) = true := by
    simp only [inb, Bool.and_eq_true, decide_eq_true_eq]; omega
  rw [hi1, hi2, sqd_reflect a c (by omega), sqd_reflect bb c (by omega)]

theorem C25_circularBrush_centre (p q : Nat) :
    look (circularBrush p q).cells (circularBrush p q).c (circularBrush p q).c = true := by
  simp only [circularBrush]
  generalize ((if (p + q - 1) / q % 2 = 0 then (p + q - 1) / q + 1 else (p + q - 1) / q) - 1) / 2 = c
  rw [look_tab]
  have : c < 2 * c + 1 := by omega
  simp [inb, sqd, this]

/-! ### non-vacuity -/

/-- the 3×3 full brush (`circular_brush(3)`) is point-symmetric -/
def brush3 : Brush := ⟨1, tab ⟨3, 3⟩ fun _ _ => true⟩

theorem brush3_sym : Sym brush3 := by
  intro a bb ha hb
  simp only [brush3, Brush.size] at ha hb ⊢
  have h1 : a = 0 ∨ a = 1 ∨ a = 2 := by omega
  have h2 : bb = 0 ∨ bb = 1 ∨ bb = 2 := by omega
  rcases h1 with rfl | rfl | rfl <;> rcases h2 with rfl | rfl | rfl <;> decide

/-- the hypotheses of `C25_generator_terminates` / `C25_generator_spec` are met by every `circular_brush`: corollary for
the brushes users actually build (any rational diameter p/q) -/
theorem C25_circular_generator_terminates {α : Type} [LT α] [DecidableRel (α := α) (· < ·)] (d : Dims) (p q : Nat)
    (neg : α → α) (arr : Nat → α) :
    (generator d (circularBrush p q) neg arr).1.status = "done" ∧
      (generator d (circularBrush p q) neg arr).1.allGood = true :=
  C25_generator_terminates d _ (C25_circularBrush_sym p q) (C25_circularBrush_centre p q) neg arr

/-- the invariant is satisfiable (empty state) and the termination theorem applies to a concrete run -/
example : Inv ⟨3, 5⟩ brush3 ⟨tab ⟨3, 5⟩ fun _ _ => false, tab ⟨3, 5⟩ fun _ _ => false⟩ := inv_empty _ _ (by decide)
example : (generator (α := Int) ⟨3, 5⟩ brush3 (fun x => -x) (fun n => if n % 5 < 2 then 9 else -5)).1.status = "done" :=
  (C25_generator_terminates _ _ brush3_sym (by decide) _ _).1

/-- a 3×5 design, +9 on the left two columns and -5 on the right: the loop ends after 6 iterations, every choice was
good, and the output is solid on three columns (the hypotheses of `C25_generator_partial` are satisfiable) -/
example :
    let g := generator (α := Int) ⟨3, 5⟩ brush3 (fun x => -x) (fun n => if n % 5 < 2 then 9 else -5)
    g.1.allGood = true ∧ g.1.status = "done" ∧ g.1.iters = 6 ∧
      look g.2 1 2 = true ∧ look g.2 1 3 = false := by decide +kernel

end Fdtdx.C25
