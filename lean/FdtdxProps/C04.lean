/-
C04 — Time-reversal gradients equal exact autodiff gradients.

Theorems about `FdtdxModel/C04.lean` (the custom-VJP loop of `reversible_fdtd` after the `fix:` commit), for every
number of time steps `T`, every abstract system (state, parameter and cotangent types, step `f`, reverse step `g`,
per-step VJP halves Aᵀ = `vjpS`, Bᵀ = `vjpP`), every incoming cotangent and every list of checkpoints:

  reverse_schedule        the per-step VJP is taken at the time steps [T-1, …, 0], in this order, and the loop stops
                          because its condition is false (never because the model's fuel ran out)
  C04_vjp_equal_on        general form: w.r.t. an agreement relation on states (reconstructed ≈ true) and a projection
                          π of parameter cotangents (cells at which the gradient is claimed) satisfying `Hyp`, the
                          reversible gradient equals the exact reverse-mode gradient under π.   `agree` = "fields agree
                          outside the absorbing layers", π = "restrict to cells outside the absorbing layers" is the
                          PML reading of the property (the hypotheses are then C03's reverse-step lemma and locality
                          of Bᵀ; they are NOT discharged here for the concrete Yee/CPML step — see props/C04.json)
  C04_vjp_equal           `g` an exact inverse of `f` on states ⇒ reversible gradient = exact gradient (all T, any checkpoints)
  C04_vjp_equal_fields    the form that matches the code: `backward(record_detectors=False)` reconstructs only the
                          `fields` member, the VJP data depend on the state only through `fields`
  fdtdFwd_spec, C04_end_to_end(_on)   the whole `jax.grad` path: `_reversible_slice_boundaries` (Python half-to-even
                          `round`), `segmented_forward` with its checkpoints, then the reverse loop, for every number of
                          slices k ≥ 1
  asFound_schedule, asFound_phantom_step    the pinned tree before the fix: steps visited = [T-1, …, 0, −1] for every T,
                          and its result is the correct loop's result followed by one more body execution at t = −1
Refutation witnesses for the as-found loop and non-vacuity examples are at the end.
-/
import FdtdxModel.C04
import FdtdxLemmas.C04
import Mathlib.Tactic.Ring
import Mathlib.Tactic.Linarith

namespace Fdtdx.C04

variable {S F P CS CP CP' : Type}

/-- the carry handed to the reverse loop by `fdtd_bwd`: final time step, final state, incoming cotangent -/
def initCarry (T : Nat) (sT : S) (cs : CS) (cp0 : CP) : Carry S CS CP :=
  { t := (T : Int), s := sT, cs := cs, cp := cp0, log := [] }

/-- **reverse_schedule** — for every `T`, system and checkpoint list, the reverse loop takes the per-step VJP
exactly at the time steps `T-1, …, 0` and exits with its condition false. -/
theorem reverse_schedule (sys : Sys S F P CS CP) (p : P) (cks : List (Int × F)) (T : Nat) (sT : S) (cs : CS) (cp0 : CP) :
    stepsVisited (fdtdBwd sys p cks (initCarry T sT cs cp0)) = countdown T ∧
    condFixed (fdtdBwd sys p cks (initCarry T sT cs cp0)) = false := by
  have h := schedule_fixed sys p cks T ((T : Int) + 2).toNat (initCarry T sT cs cp0) (by omega) rfl
  simpa [fdtdBwd, fdtdBwdWith, initCarry, stepsVisited] using And.intro h.1 h.2.1

theorem countdown_length (T : Nat) : (countdown T).length = T := by
  induction T with
  | zero => rfl
  | succ n ih => simp [countdown, ih]

theorem mem_countdown (T : Nat) (t : Int) : t ∈ countdown T ↔ 0 ≤ t ∧ t < T := by
  induction T with
  | zero => simp only [countdown, List.not_mem_nil, false_iff]; omega
  | succ n ih => simp only [countdown, List.mem_cons, ih]; omega

/-- **C04_vjp_equal_on** (general form). -/
theorem C04_vjp_equal_on {sys : Sys S F P CS CP} {p : P} {agree : S → S → Prop} {π : CP → CP'}
    {addP' : CP' → CP' → CP'} (h : Hyp sys p agree π addP') (s0 : S) (cks : List (Int × F))
    (hck : CksOK sys p s0 cks) (T : Nat) (sT : S) (hT : agree sT (traj sys p s0 T)) (cs : CS) (cp0 : CP) :
    π (fdtdBwd sys p cks (initCarry T sT cs cp0)).cp = π (gradExact sys p s0 T cs cp0) := by
  have := loop_invariant h s0 cks hck T ((T : Int) + 2).toNat (initCarry T sT cs cp0) (cs, cp0) (by omega) rfl hT rfl rfl
  exact this.2.2.1

/-- **C04_vjp_equal** — if the reverse step is an exact inverse of the forward step (`∀ n s, g n (f n s p) p = s`)
then, for every `T`, every checkpoint list holding true fields, every incoming cotangent, the gradient of the
reversible method equals the exact reverse-mode gradient. -/
theorem C04_vjp_equal (sys : Sys S F P CS CP) (p : P) (s0 : S)
    (hinv : ∀ (n : Nat) (s : S), sys.g n (sys.f n s p) p = s)
    (hlens : ∀ s : S, sys.setF s (sys.getF s) = s)
    (cks : List (Int × F)) (hck : CksOK sys p s0 cks) (T : Nat) (cs : CS) (cp0 : CP) :
    (fdtdBwd sys p cks (initCarry T (traj sys p s0 T) cs cp0)).cp = gradExact sys p s0 T cs cp0 := by
  have h : Hyp sys p (fun a b => a = b) (fun c : CP => c) sys.addP :=
    { vjpS_agree := fun _ _ _ _ e => by rw [e]
      vjpP_agree := fun _ _ _ _ e => by rw [e]
      g_agree := fun n ŝ s e => by rw [e]; exact hinv n s
      setF_agree := fun ŝ s e => by rw [e]; exact hlens s
      π_add := fun _ _ => rfl }
  exact C04_vjp_equal_on h s0 cks hck T _ rfl cs cp0

/-- **C04_vjp_equal_fields** — the form matching the code: only the `fields` member is reconstructed by the reverse
step (detector states are not un-recorded), checkpoints replace only `fields`, and the per-step VJP depends on the
state only through `fields` (detector updates are affine in the detector state). -/
theorem C04_vjp_equal_fields (sys : Sys S F P CS CP) (p : P) (s0 : S)
    (hvS : ∀ (n : Nat) ŝ s c, sys.getF ŝ = sys.getF s → sys.vjpS n ŝ p c = sys.vjpS n s p c)
    (hvP : ∀ (n : Nat) ŝ s c, sys.getF ŝ = sys.getF s → sys.vjpP n ŝ p c = sys.vjpP n s p c)
    (hinv : ∀ (n : Nat) ŝ s, sys.getF ŝ = sys.getF (sys.f n s p) → sys.getF (sys.g n ŝ p) = sys.getF s)
    (hlens : ∀ (s : S) (f : F), sys.getF (sys.setF s f) = f)
    (cks : List (Int × F)) (hck : CksOK sys p s0 cks) (T : Nat) (sT : S)
    (hT : sys.getF sT = sys.getF (traj sys p s0 T)) (cs : CS) (cp0 : CP) :
    (fdtdBwd sys p cks (initCarry T sT cs cp0)).cp = gradExact sys p s0 T cs cp0 := by
  have h : Hyp sys p (fun a b => sys.getF a = sys.getF b) (fun c : CP => c) sys.addP :=
    { vjpS_agree := hvS
      vjpP_agree := hvP
      g_agree := hinv
      setF_agree := fun ŝ s _ => hlens _ _
      π_add := fun _ _ => rfl }
  exact C04_vjp_equal_on h s0 cks hck T sT hT cs cp0

/-! ### the whole `jax.grad` path: slice boundaries, forward pass with checkpoints, reverse loop -/

/-- the forward pass of `fdtd_fwd` ends at time step `T` in the true state and its checkpoints are the true fields at
the interior slice boundaries, for every `T` and every number of slices `k ≥ 1` -/
theorem fdtdFwd_spec (sys : Sys S F P CS CP) (p : P) (s0 : S) (T k : Nat) (hk : 1 ≤ k) :
    segmentedForward sys p (sliceBoundaries T k) s0 =
      (((T : Int), traj sys p s0 T), (checkpointTimes T k).map (fun n => sys.getF (traj sys p s0 n))) := by
  have h := segmentedForward_spec sys p s0 (sliceBoundaries T k) k (sliceBoundaries_length T k)
    (by rw [sliceBoundaries_getD T k 0 (by omega)]; simpa using roundDiv_zero k (by omega))
    (fun i hi => by
      rw [sliceBoundaries_getD T k i (by omega), sliceBoundaries_getD T k (i + 1) (by omega)]
      exact roundDiv_mono k (by omega) _ _ (Nat.mul_le_mul_right T (by omega)))
  rw [h, sliceBoundaries_getD T k k (le_refl _), roundDiv_mul k T (by omega)]
  rfl

/-- **C04_end_to_end_on** — `gradReversible` (boundaries, segmented forward pass, checkpoints, reverse loop) equals the
exact gradient under π, for every `T`, every number of slices `k ≥ 1`, every cotangent. -/
theorem C04_end_to_end_on {sys : Sys S F P CS CP} {p : P} {agree : S → S → Prop} {π : CP → CP'}
    {addP' : CP' → CP' → CP'} (h : Hyp sys p agree π addP') (hrefl : ∀ s, agree s s) (s0 : S) (T k : Nat) (hk : 1 ≤ k)
    (cs : CS) (cp0 : CP) :
    π (gradReversible sys p s0 T k cs cp0) = π (gradExact sys p s0 T cs cp0) := by
  unfold gradReversible gradReversibleWith
  simp only [fdtdFwd_spec sys p s0 T k hk]
  exact C04_vjp_equal_on h s0 _ (cksOK_zip sys p s0 (checkpointTimes T k)) T _ (hrefl _) cs cp0

/-- **C04_end_to_end** — the form matching the code (reverse step reconstructs the `fields` member). -/
theorem C04_end_to_end (sys : Sys S F P CS CP) (p : P) (s0 : S)
    (hvS : ∀ (n : Nat) ŝ s c, sys.getF ŝ = sys.getF s → sys.vjpS n ŝ p c = sys.vjpS n s p c)
    (hvP : ∀ (n : Nat) ŝ s c, sys.getF ŝ = sys.getF s → sys.vjpP n ŝ p c = sys.vjpP n s p c)
    (hinv : ∀ (n : Nat) ŝ s, sys.getF ŝ = sys.getF (sys.f n s p) → sys.getF (sys.g n ŝ p) = sys.getF s)
    (hlens : ∀ (s : S) (f : F), sys.getF (sys.setF s f) = f)
    (T k : Nat) (hk : 1 ≤ k) (cs : CS) (cp0 : CP) :
    gradReversible sys p s0 T k cs cp0 = gradExact sys p s0 T cs cp0 := by
  have h : Hyp sys p (fun a b => sys.getF a = sys.getF b) (fun c : CP => c) sys.addP :=
    { vjpS_agree := hvS
      vjpP_agree := hvP
      g_agree := hinv
      setF_agree := fun ŝ s _ => hlens _ _
      π_add := fun _ _ => rfl }
  exact C04_end_to_end_on h (fun _ => rfl) s0 T k hk cs cp0

/-! ### the same under trajectory-relative hypotheses (used by the concrete Yee / CPML instantiations, C04Yee.lean) -/

/-- **C04_vjp_equal_traj** — like `C04_vjp_equal_on`, but every hypothesis is only required at the states of the true
forward trajectory of this `T`-step run (`HypTraj`). -/
theorem C04_vjp_equal_traj {sys : Sys S F P CS CP} {p : P} {s0 : S} {T : Nat} {agree : S → S → Prop} {π : CP → CP'}
    {addP' : CP' → CP' → CP'} (h : HypTraj sys p s0 T agree π addP') (cks : List (Int × F))
    (hck : CksOK sys p s0 cks) (sT : S) (hT : agree sT (traj sys p s0 T)) (cs : CS) (cp0 : CP) :
    π (fdtdBwd sys p cks (initCarry T sT cs cp0)).cp = π (gradExact sys p s0 T cs cp0) := by
  have := loop_invariant_traj h cks hck T ((T : Int) + 2).toNat (initCarry T sT cs cp0) (cs, cp0) le_rfl (by omega)
    rfl hT rfl rfl
  exact this.2.2.1

/-- **C04_end_to_end_traj** — slice boundaries, forward pass with checkpoints and reverse loop, every `k ≥ 1`. -/
theorem C04_end_to_end_traj {sys : Sys S F P CS CP} {p : P} {s0 : S} {T : Nat} {agree : S → S → Prop} {π : CP → CP'}
    {addP' : CP' → CP' → CP'} (h : HypTraj sys p s0 T agree π addP') (hrefl : agree (traj sys p s0 T) (traj sys p s0 T))
    (k : Nat) (hk : 1 ≤ k) (cs : CS) (cp0 : CP) :
    π (gradReversible sys p s0 T k cs cp0) = π (gradExact sys p s0 T cs cp0) := by
  unfold gradReversible gradReversibleWith
  simp only [fdtdFwd_spec sys p s0 T k hk]
  exact C04_vjp_equal_traj h _ (cksOK_zip sys p s0 (checkpointTimes T k)) _ hrefl cs cp0

/-! ### the pinned tree before the fix -/

/-- **asFound_phantom_step** — the as-found loop returns the correct loop's carry pushed through one more body
execution: a reverse step to t = −1 and the VJP of a forward step at t = −1. -/
theorem asFound_phantom_step (sys : Sys S F P CS CP) (p : P) (cks : List (Int × F)) (T : Nat) (sT : S) (cs : CS) (cp0 : CP) :
    AsFound.fdtdBwd sys p cks (initCarry T sT cs cp0) =
      reverseBody sys p cks (fdtdBwd sys p cks (initCarry T sT cs cp0)) := by
  have h := asFound_eq_fixed_then_body sys p cks T (T + 1) (initCarry T sT cs cp0) (by omega) rfl
  have e1 : ((initCarry T sT cs cp0).t + 2).toNat = T + 1 + 1 := by simp [initCarry]; omega
  have hx := (schedule_fixed sys p cks T (T + 1) (initCarry T sT cs cp0) (by omega) rfl).2
  -- one more unit of fuel does not change the fixed loop
  have e2 : whileFuel condFixed (reverseBody sys p cks) (T + 1 + 1) (initCarry T sT cs cp0) =
      whileFuel condFixed (reverseBody sys p cks) (T + 1) (initCarry T sT cs cp0) := by
    have : ∀ (n fuel : Nat) (c : Carry S CS CP), n ≤ fuel → c.t = (n : Int) →
        whileFuel condFixed (reverseBody sys p cks) (fuel + 1) c = whileFuel condFixed (reverseBody sys p cks) fuel c := by
      intro n
      induction n with
      | zero =>
        intro fuel c _ ht
        have hc : condFixed c = false := by simp [condFixed, ht]
        rw [whileFuel_false _ _ _ _ hc, whileFuel_false _ _ _ _ hc]
      | succ n ih =>
        intro fuel c hf ht
        obtain ⟨fuel', rfl⟩ : ∃ f', fuel = f' + 1 := ⟨fuel - 1, by omega⟩
        have hc : condFixed c = true := by simp [condFixed, ht]
        rw [whileFuel_true _ _ _ _ hc, whileFuel_true _ _ _ _ hc]
        exact ih fuel' _ (by omega) (by rw [reverseBody_t, ht]; push_cast; ring)
    exact this T (T + 1) _ (by omega) rfl
  unfold AsFound.fdtdBwd fdtdBwd fdtdBwdWith
  rw [e1, h, e2]

/-- **asFound_schedule** — before the fix the per-step VJP was taken at `T-1, …, 0` and then once more at `−1`, for every `T`. -/
theorem asFound_schedule (sys : Sys S F P CS CP) (p : P) (cks : List (Int × F)) (T : Nat) (sT : S) (cs : CS) (cp0 : CP) :
    stepsVisited (AsFound.fdtdBwd sys p cks (initCarry T sT cs cp0)) = countdown T ++ [-1] := by
  have ht := (schedule_fixed sys p cks T ((T : Int) + 2).toNat (initCarry T sT cs cp0) (by omega) rfl).2.2
  have ht' : (fdtdBwd sys p cks (initCarry T sT cs cp0)).t = 0 := by
    simpa [fdtdBwd, fdtdBwdWith, initCarry] using ht
  rw [asFound_phantom_step, stepsVisited_reverseBody, (reverse_schedule sys p cks T sT cs cp0).1, ht']
  rfl

/-! ### refutation witnesses for the as-found loop, non-vacuity of the hypotheses -/

/-- machine-checked witness: the as-found reverse loop for T = 3 takes a VJP at t = −1 -/
example : stepsVisited (fdtdBwd_asFound 3) = [2, 1, 0, -1] := by decide
example : stepsVisited (fdtdBwd_fixed 3) = [2, 1, 0] := by decide
example : (fdtdBwd_asFound 0).log = [Ev.bwd 0, Ev.vjp (-1)] := by decide

/-- a two-component integer leapfrog cell with a source scaled by the parameter:
`e' = e + p h + p (t+2)`, `h' = h + e'`; exact inverse; hand-written VJP halves -/
def intSys : Sys (Int × Int) (Int × Int) Int (Int × Int) Int :=
  { f := fun t s p => let e' := s.1 + p * s.2 + p * (t + 2); (e', s.2 + e')
    g := fun t s p => let h := s.2 - s.1; (s.1 - p * h - p * (t + 2), h)
    vjpS := fun _ _ p c => let eh := c.1 + c.2; (eh, c.2 + p * eh)
    vjpP := fun t s _ c => (c.1 + c.2) * (s.2 + (t + 2))
    addP := fun a b => a + b
    getF := fun s => s
    setF := fun _ f => f }

/-- the same cell with a detector accumulator `d' = d + e'` that the reverse step does not undo -/
def detSys : Sys ((Int × Int) × Int) (Int × Int) Int ((Int × Int) × Int) Int :=
  { f := fun t s p => (intSys.f t s.1 p, s.2 + (intSys.f t s.1 p).1)
    g := fun t s p => (intSys.g t s.1 p, s.2)
    vjpS := fun _ _ p c => let eh := c.1.1 + c.1.2 + c.2; ((eh, c.1.2 + p * eh), c.2)
    vjpP := fun t s _ c => (c.1.1 + c.1.2 + c.2) * (s.1.2 + (t + 2))
    addP := fun a b => a + b
    getF := fun s => s.1
    setF := fun s f => (f, s.2) }

/-- the hypotheses of `C04_vjp_equal` are satisfiable (non-trivially: Bᵀ depends on the state) -/
example (p : Int) : (∀ (n : Nat) (s : Int × Int), intSys.g n (intSys.f n s p) p = s) ∧
    (∀ s : Int × Int, intSys.setF s (intSys.getF s) = s) := by
  refine ⟨fun n s => ?_, fun s => rfl⟩
  obtain ⟨e, h⟩ := s
  simp only [intSys]
  ext <;> simp <;> ring

/-- the hypotheses of `C04_vjp_equal_fields` are satisfiable by a system whose reverse step is NOT an inverse on
the whole state (the detector accumulator is not restored) -/
example (p : Int) :
    (∀ (n : Nat) ŝ s c, detSys.getF ŝ = detSys.getF s → detSys.vjpS n ŝ p c = detSys.vjpS n s p c) ∧
    (∀ (n : Nat) ŝ s c, detSys.getF ŝ = detSys.getF s → detSys.vjpP n ŝ p c = detSys.vjpP n s p c) ∧
    (∀ (n : Nat) ŝ s, detSys.getF ŝ = detSys.getF (detSys.f n s p) → detSys.getF (detSys.g n ŝ p) = detSys.getF s) ∧
    (∀ (s : (Int × Int) × Int) (f : Int × Int), detSys.getF (detSys.setF s f) = f) ∧
    detSys.g 0 (detSys.f 0 ((0, 0), 0) 1) 1 ≠ ((0, 0), 0) := by
  refine ⟨fun _ _ _ _ _ => rfl, fun n ŝ s c e => ?_, fun n ŝ s e => ?_, fun _ _ => rfl, by decide⟩
  · simp only [detSys] at e ⊢; rw [e]
  · obtain ⟨⟨e1, h1⟩, d⟩ := s
    simp only [detSys, intSys] at e ⊢
    rw [e]
    ext <;> simp <;> ring

/-- numbers: T = 3, one slice, cotangent (1,0): the fixed loop gives the exact gradient, the as-found loop does not -/
example : gradReversible intSys 1 (0, 0) 3 1 (1, 0) 0 = gradExact intSys 1 (0, 0) 3 (1, 0) 0 := by decide
example : AsFound.gradReversible intSys 1 (0, 0) 3 1 (1, 0) 0 ≠ gradExact intSys 1 (0, 0) 3 (1, 0) 0 := by decide
example : gradReversible detSys 2 ((0, 0), 0) 4 2 ((1, -1), 3) 0 = gradExact detSys 2 ((0, 0), 0) 4 ((1, -1), 3) 0 := by decide
example : AsFound.gradReversible detSys 2 ((0, 0), 0) 4 2 ((1, -1), 3) 0 ≠ gradExact detSys 2 ((0, 0), 0) 4 ((1, -1), 3) 0 := by
  decide

end Fdtdx.C04
