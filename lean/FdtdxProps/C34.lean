/-
C34 — Symmetric placement keeps the upper half and clips objects consistently.

Property theorems about `FdtdxModel/C34.lean`; all sizes / coordinates are arbitrary integers.

  C34_even_required     a symmetric axis is accepted iff its cell count is even and ≥ 2
  C34_nonsym_untouched  an axis without symmetry is never rejected, shifted or clipped
  C34_kept_upper_half   the plane sits at v0 + n/2, the reduced volume is [0, n/2) and reduced cell x is full cell
                        x + plane, i.e. the kept cells are exactly the upper half [v0 + n/2, v1)
  C34_clip_cells        a full-domain cell x lies in the clipped slice (shifted by the plane index) iff it lies in
                        the object AND in the upper half
  C34_drop_iff          an object is dropped on an axis iff it has no cell in the upper half; for a non-empty box
                        inside the volume: iff its stop is ≤ the plane index (touching the plane from below is dropped,
                        starting on the plane is kept whole)
  C34_kept_inside       a surviving clipped slice is non-empty and inside the reduced volume
  C34_unclipped_shift   the recorded extent is the full slice shifted by the plane index, contains the clipped slice,
                        and its start is negative iff the object reaches below the plane
  C34_symmetric_half    a box symmetric about the plane keeps exactly half of its cells
  C34_reduce_spec       `reduceSlices` assembles exactly these per-axis quantities for every object (and fails iff
                        some symmetric axis is rejected)
  C34_walls_electric    a wall is created on axis a iff sym[a] = -1 (never for +1 or 0); its slice is one cell thick at
                        the reduced min edge and spans the reduced volume on the other axes
  C34_wall_name_fresh   the generated wall name is not in use (no hypothesis: the decimal suffix rendering is proved
                        injective, `wallCandidate_injective`)
  explicit non-uniform grids (`RectilinearGrid.reduce_symmetric`, any ordered field / any scalars):
  C34_grid_nonsym, C34_grid_kept_edges   the reduced edges are exactly the upper-half edges e[n/2 + i]
  C34_grid_cells_agree  the grid is rejected for its cell count exactly when the integer-slice reduction rejects the
                        axis, and the reduced cell count is that of `reducedVol`
  C34_grid_accept_spec  what is required of the widths: |w[i] - w[n-1-i]| ≤ rtol·|w[n-1-i]| for every i
  C34_grid_roundtrip    mirror-symmetric widths: mirroring the reduced widths reproduces the full widths
  C34_grid_roundtrip_rtol0 / C34_grid_roundtrip_tol   … for a grid accepted with rtol = 0 exactly; with rtol > 0 every
                        reconstructed width is within rtol (relative) of the original one
-/
import FdtdxModel.C34
import Mathlib.Tactic.Linarith
import Mathlib.Tactic.Ring
import Mathlib.Data.List.Nodup
import Mathlib.Data.List.Perm.Subperm
import Mathlib.Algebra.Order.Field.Basic
import Mathlib.Algebra.Order.AbsoluteValue.Basic

namespace Fdtdx.C34

/-- C34_even_required -/
theorem C34_even_required (sym : Int) (hs : sym ≠ 0) (vol : Sl) :
    planeIndex sym vol = none ↔ (vol.2 - vol.1 < 2 ∨ (vol.2 - vol.1) % 2 ≠ 0) := by
  simp only [planeIndex, hs, ne_eq, not_false_eq_true, if_true, badCells]
  by_cases h1 : vol.2 - vol.1 < 2 <;> by_cases h2 : (vol.2 - vol.1) % 2 = 0 <;> simp [h1, h2]

/-- C34_nonsym_untouched -/
theorem C34_nonsym_untouched (vol s : Sl) (m volHi : Int) :
    planeIndex 0 vol = some vol.1 ∧ reducedVol 0 vol m = vol ∧ volUnreduced 0 vol m = vol ∧
    clipAxis 0 volHi m s = s ∧ unclippedAxis 0 m s = s ∧ dropAxis 0 volHi m s = false := by
  simp [planeIndex, reducedVol, volUnreduced, clipAxis, unclippedAxis, dropAxis]

/-- C34_kept_upper_half -/
theorem C34_kept_upper_half (sym : Int) (hs : sym ≠ 0) (vol : Sl) (m : Int)
    (h : planeIndex sym vol = some m) :
    let n := vol.2 - vol.1
    n % 2 = 0 ∧ 2 ≤ n ∧ m = vol.1 + n / 2 ∧
    reducedVol sym vol m = (0, n / 2) ∧ 2 * (n / 2) = n ∧
    volUnreduced sym vol m = (-(n / 2), n / 2) ∧
    (∀ x : Int, (0 ≤ x ∧ x < (reducedVol sym vol m).2) ↔ (vol.1 + n / 2 ≤ x + m ∧ x + m < vol.2)) := by
  intro n
  have hne := (C34_even_required sym hs vol).not.mp (by rw [h]; simp)
  have h2 : 2 ≤ vol.2 - vol.1 := by omega
  have he : (vol.2 - vol.1) % 2 = 0 := by omega
  have hb : badCells (vol.2 - vol.1) = false := by simp [badCells]; omega
  simp only [planeIndex, hs, ne_eq, not_false_eq_true, if_true, hb, Bool.false_eq_true, if_false,
    Option.some.injEq] at h
  subst h
  have hn : n = vol.2 - vol.1 := rfl
  refine ⟨he, h2, rfl, ?_, by omega, ?_, ?_⟩
  · simp only [reducedVol, hs, ne_eq, not_false_eq_true, if_true, Prod.mk.injEq, true_and]; omega
  · simp only [volUnreduced, hs, ne_eq, not_false_eq_true, if_true, Prod.mk.injEq]; omega
  · intro x
    simp only [reducedVol, hs, ne_eq, not_false_eq_true, if_true]
    omega

example : planeIndex (-1) (0, 6) = some 3 ∧ reducedVol (-1) (0, 6) 3 = (0, 3) := by decide
example : planeIndex 1 (0, 5) = none ∧ planeIndex 1 (0, 0) = none ∧ planeIndex 1 (4, 6) = some 5 := by decide

/-- C34_clip_cells: cell `x` of the full domain (reduced index `x - m`). -/
theorem C34_clip_cells (sym : Int) (hs : sym ≠ 0) (volHi m : Int) (s : Sl) (x : Int) :
    ((clipAxis sym volHi m s).1 ≤ x - m ∧ x - m < (clipAxis sym volHi m s).2) ↔
      ((s.1 ≤ x ∧ x < s.2) ∧ (m ≤ x ∧ x < volHi)) := by
  simp only [clipAxis, hs, ne_eq, not_false_eq_true, if_true]
  omega

/-- C34_drop_iff -/
theorem C34_drop_iff (sym : Int) (hs : sym ≠ 0) (volHi m : Int) (s : Sl) :
    (dropAxis sym volHi m s = true ↔ ¬ ∃ x : Int, (s.1 ≤ x ∧ x < s.2) ∧ (m ≤ x ∧ x < volHi)) ∧
    (s.1 < s.2 → s.2 ≤ volHi → m < volHi → (dropAxis sym volHi m s = true ↔ s.2 ≤ m)) := by
  constructor
  · simp only [dropAxis, clipAxis, hs, ne_eq, not_false_eq_true, if_true, decide_true, Bool.true_and,
      decide_eq_true_eq]
    constructor
    · rintro h ⟨x, hx⟩; omega
    · intro h
      by_contra hc
      exact h ⟨max s.1 m, by omega⟩
  · intro h1 h2 h3
    simp only [dropAxis, clipAxis, hs, ne_eq, not_false_eq_true, if_true, decide_true, Bool.true_and,
      decide_eq_true_eq]
    omega

/-- touching the plane from below is dropped, starting on the plane is kept whole and does not straddle -/
example : dropAxis (-1) 6 3 (1, 3) = true ∧ dropAxis (-1) 6 3 (3, 5) = false ∧
    clipAxis (-1) 6 3 (3, 5) = (0, 2) ∧ straddles (unclippedAxis (-1) 3 (3, 5)).1 = false ∧
    clipAxis 1 6 3 (1, 5) = (0, 2) ∧ unclippedAxis 1 3 (1, 5) = (-2, 2) := by decide

/-- C34_kept_inside -/
theorem C34_kept_inside (sym : Int) (hs : sym ≠ 0) (volHi m : Int) (s : Sl)
    (hk : dropAxis sym volHi m s = false) :
    0 ≤ (clipAxis sym volHi m s).1 ∧ (clipAxis sym volHi m s).1 < (clipAxis sym volHi m s).2 ∧
    (clipAxis sym volHi m s).2 ≤ volHi - m := by
  simp only [dropAxis, clipAxis, hs, ne_eq, not_false_eq_true, if_true, decide_true, Bool.true_and,
    decide_eq_false_iff_not, not_le] at hk ⊢
  omega

/-- C34_unclipped_shift -/
theorem C34_unclipped_shift (sym : Int) (hs : sym ≠ 0) (volHi m : Int) (s : Sl) :
    unclippedAxis sym m s = (s.1 - m, s.2 - m) ∧
    (unclippedAxis sym m s).1 ≤ (clipAxis sym volHi m s).1 ∧
    (s.2 ≤ volHi → (clipAxis sym volHi m s).2 = (unclippedAxis sym m s).2) ∧
    (straddles (unclippedAxis sym m s).1 = true ↔ s.1 < m) ∧
    (s.1 ≥ m → s.2 ≤ volHi → clipAxis sym volHi m s = unclippedAxis sym m s) := by
  simp only [unclippedAxis, clipAxis, straddles, hs, ne_eq, not_false_eq_true, if_true, decide_eq_true_eq,
    Prod.mk.injEq, true_and]
  refine ⟨by omega, fun h => by omega, by omega, fun h1 h2 => by omega⟩

/-- C34_symmetric_half: a box symmetric about the plane (no warning branch) keeps half of its extent. -/
theorem C34_symmetric_half (sym : Int) (hs : sym ≠ 0) (volHi m : Int) (s : Sl)
    (hsym : s.1 + s.2 = 2 * m) (hlt : s.1 < s.2) (hin : s.2 ≤ volHi) :
    2 * ((clipAxis sym volHi m s).2 - (clipAxis sym volHi m s).1) = s.2 - s.1 ∧
    (clipAxis sym volHi m s).1 = 0 := by
  simp only [clipAxis, hs, ne_eq, not_false_eq_true, if_true]
  omega

/-! ### the assembled function -/

private theorem mapM_range3 {β : Type} (f : Nat → Option β) :
    (List.range 3).mapM f = (do let a ← f 0; let b ← f 1; let c ← f 2; pure [a, b, c]) := by
  have : List.range 3 = [0, 1, 2] := by decide
  rw [this]
  cases h0 : f 0 <;> cases h1 : f 1 <;> cases h2 : f 2 <;> simp [List.mapM_cons, h0, h1, h2]

/-- C34_reduce_spec: for three-axis inputs `reduceSlices` fails iff some axis is rejected, and otherwise every
    object is dropped iff some axis drops it, else carries the per-axis clipped / unclipped slices. -/
theorem C34_reduce_spec (s0 s1 s2 : Int) (v0 v1 v2 : Sl) (objs : List (List Sl)) :
    (reduceSlices [s0, s1, s2] [v0, v1, v2] objs = none ↔
      (planeIndex s0 v0 = none ∨ planeIndex s1 v1 = none ∨ planeIndex s2 v2 = none)) ∧
    ∀ m0 m1 m2, planeIndex s0 v0 = some m0 → planeIndex s1 v1 = some m1 → planeIndex s2 v2 = some m2 →
      ∃ r, reduceSlices [s0, s1, s2] [v0, v1, v2] objs = some r ∧
        r.vol = [reducedVol s0 v0 m0, reducedVol s1 v1 m1, reducedVol s2 v2 m2] ∧
        r.volUn = [volUnreduced s0 v0 m0, volUnreduced s1 v1 m1, volUnreduced s2 v2 m2] ∧
        r.objs = objs.map (fun o =>
          if dropAxis s0 v0.2 m0 (o.getD 0 (0, 0)) || (dropAxis s1 v1.2 m1 (o.getD 1 (0, 0)) ||
              dropAxis s2 v2.2 m2 (o.getD 2 (0, 0))) then none
          else some ([clipAxis s0 v0.2 m0 (o.getD 0 (0, 0)), clipAxis s1 v1.2 m1 (o.getD 1 (0, 0)),
                      clipAxis s2 v2.2 m2 (o.getD 2 (0, 0))],
                     [unclippedAxis s0 m0 (o.getD 0 (0, 0)), unclippedAxis s1 m1 (o.getD 1 (0, 0)),
                      unclippedAxis s2 m2 (o.getD 2 (0, 0))])) := by
  have hr : List.range 3 = [0, 1, 2] := by decide
  constructor
  · unfold reduceSlices
    rw [mapM_range3]
    cases h0 : planeIndex s0 v0 <;> cases h1 : planeIndex s1 v1 <;> cases h2 : planeIndex s2 v2 <;>
      simp [h0, h1, h2]
  · intro m0 m1 m2 h0 h1 h2
    unfold reduceSlices
    rw [mapM_range3]
    simp [h0, h1, h2, hr]

/-! ### walls -/

/-- C34_walls_electric -/
theorem C34_walls_electric (s0 s1 s2 : Int) (a : Nat) :
    a ∈ wallAxes [s0, s1, s2] ↔ (a < 3 ∧ [s0, s1, s2].getD a 0 = -1) := by
  have hr : List.range 3 = [0, 1, 2] := by decide
  simp only [wallAxes, List.mem_filter, List.mem_range, beq_iff_eq]

theorem C34_no_wall_for_magnetic (s0 s1 s2 : Int) (a : Nat) (h : [s0, s1, s2].getD a 0 = 1 ∨ [s0, s1, s2].getD a 0 = 0) :
    a ∉ wallAxes [s0, s1, s2] := by
  rw [C34_walls_electric]; rintro ⟨_, h'⟩; omega

/-- the wall is one cell thick at the reduced min edge and spans the reduced volume elsewhere -/
theorem C34_wall_slice (n0 n1 n2 : Int) (a : Nat) (ha : a < 3) :
    (wallSlice [n0, n1, n2] a).getD a (7, 7) = (0, 1) ∧
    ∀ b, b < 3 → b ≠ a → (wallSlice [n0, n1, n2] a).getD b (7, 7) = (0, [n0, n1, n2].getD b 0) := by
  have ha' : a = 0 ∨ a = 1 ∨ a = 2 := by omega
  constructor
  · rcases ha' with rfl | rfl | rfl <;> simp [wallSlice, List.range, List.range.loop]
  · intro b hb hne
    have hb' : b = 0 ∨ b = 1 ∨ b = 2 := by omega
    rcases ha' with rfl | rfl | rfl <;> rcases hb' with rfl | rfl | rfl <;>
      simp_all [wallSlice, List.range, List.range.loop]

example : wallAxes [-1, 1, -1] = [0, 2] ∧ wallAxes [1, 0, 1] = [] := by decide

/-- decimal rendering of the counter is injective -/
theorem natToString_inj (i j : Nat) (h : toString i = toString j) : i = j := by
  have h' : i.repr = j.repr := by simpa [Nat.toString_eq_repr] using h
  have h2 : Nat.toDigits 10 i = Nat.toDigits 10 j := by
    rw [← Nat.toList_repr, ← Nat.toList_repr, h']
  have := congrArg (fun l => Nat.ofDigitChars 10 l 0) h2
  simpa [Nat.ofDigitChars_ten_toDigits] using this

private theorem str_append_left_cancel (b s t : String) (h : b ++ s = b ++ t) : s = t := by
  have := congrArg String.toList h
  simp only [String.toList_append] at this
  exact String.toList_inj.mp (List.append_cancel_left this)

/-- the candidate names `_sym_wall_x`, `_sym_wall_x_1`, `_sym_wall_x_2`, … are pairwise distinct -/
theorem wallCandidate_injective (a i j : Nat) (h : wallCandidate a i = wallCandidate a j) : i = j := by
  unfold wallCandidate at h
  have h' := str_append_left_cancel _ _ _ h
  by_cases hi : i = 0 <;> by_cases hj : j = 0
  · omega
  · exfalso
    simp only [hi, hj, if_true, if_false] at h'
    have := congrArg String.toList h'
    simp [String.toList_append] at this
  · exfalso
    simp only [hi, hj, if_true, if_false] at h'
    have := congrArg String.toList h'
    simp [String.toList_append] at this
  · simp only [hi, hj, if_false] at h'
    exact natToString_inj i j (str_append_left_cancel _ _ _ h')

/-- C34_wall_name_fresh: the name chosen by the `while name in used` loop is never in use. -/
theorem C34_wall_name_fresh (used : List String) (a : Nat) : wallName used a ∉ used := by
  unfold wallName
  split
  · rename_i k hk
    have := List.find?_some hk
    simpa using this
  · rename_i hnone
    exfalso
    -- pigeonhole: used.length + 1 distinct candidates cannot all be in `used`
    rw [List.find?_eq_none] at hnone
    have hall : ∀ k, k < used.length + 1 → wallCandidate a k ∈ used := by
      intro k hk
      have := hnone k (List.mem_range.mpr hk)
      simpa using this
    have hnodup : ((List.range (used.length + 1)).map (wallCandidate a)).Nodup :=
      List.Nodup.map (fun i j h => wallCandidate_injective a i j h) List.nodup_range
    have hsub : ((List.range (used.length + 1)).map (wallCandidate a)) ⊆ used := by
      intro x hx
      simp only [List.mem_map, List.mem_range] at hx
      obtain ⟨k, hk, rfl⟩ := hx
      exact hall k hk
    have := (List.subperm_of_subset hnodup hsub).length_le
    simp at this

example : wallNames ["vol", "_sym_wall_x", "_sym_wall_x_1"] [0, 2] = ["_sym_wall_x_2", "_sym_wall_z"] := by decide

/-! ### explicit non-uniform grids -/
section Grid

/-- C34_grid_nonsym -/
theorem C34_grid_nonsym {α : Type} [Sub α] [Mul α] [Neg α] [OfNat α 0] (le : α → α → Bool) (rtol : α)
    (e : List α) : reduceEdges le rtol 0 e = .ok e := by
  simp [reduceEdges]

/-- C34_grid_kept_edges: an accepted symmetric axis keeps exactly the upper-half edges. -/
theorem C34_grid_kept_edges {α : Type} [Sub α] [Mul α] [Neg α] [OfNat α 0] (le : α → α → Bool) (rtol : α)
    (sym : Int) (hs : sym ≠ 0) (e r : List α) (h : reduceEdges le rtol sym e = .ok r) :
    (e.length - 1) % 2 = 0 ∧ 2 ≤ e.length - 1 ∧ r = e.drop ((e.length - 1) / 2) ∧
    r.length = (e.length - 1) / 2 + 1 ∧ ∀ i, r[i]? = e[(e.length - 1) / 2 + i]? := by
  unfold reduceEdges at h
  rw [if_neg hs] at h
  simp only at h
  split_ifs at h with hb hm
  simp only [Except.ok.injEq] at h
  have hb' : ¬ (((e.length : Int) - 1 < 2) ∨ ((e.length : Int) - 1) % 2 ≠ 0) := by
    intro hc; apply hb; simp only [badCells, Bool.or_eq_true, decide_eq_true_eq, bne_iff_ne]; exact hc
  have h2 : 2 ≤ e.length - 1 := by omega
  have he : (e.length - 1) % 2 = 0 := by omega
  subst h
  refine ⟨he, h2, rfl, ?_, ?_⟩
  · rw [List.length_drop]; omega
  · intro i; rw [List.getElem?_drop]

/-- C34_grid_cells_agree: same acceptance of the cell count and same reduced cell count as the integer-slice
    reduction of a volume `[0, n)` on this axis. -/
theorem C34_grid_cells_agree {α : Type} [Sub α] [Mul α] [Neg α] [OfNat α 0] (le : α → α → Bool) (rtol : α)
    (sym : Int) (hs : sym ≠ 0) (e : List α) (he : 1 ≤ e.length) :
    let n : Int := (e.length : Int) - 1
    (reduceEdges le rtol sym e = .error .cells ↔ planeIndex sym (0, n) = none) ∧
    ∀ r, reduceEdges le rtol sym e = .ok r →
      planeIndex sym (0, n) = some (n / 2) ∧
      ((r.length : Int) - 1) = (reducedVol sym (0, n) (n / 2)).2 - (reducedVol sym (0, n) (n / 2)).1 := by
  intro n
  constructor
  · unfold reduceEdges planeIndex
    rw [if_neg hs, if_pos hs]
    by_cases hb : badCells ((e.length : Int) - 1) = true
    · simp [hb, n]
    · simp only [hb, n, Bool.false_eq_true, if_false, sub_zero]
      split_ifs <;> simp
  · intro r hr
    obtain ⟨h1, h2, _, h4, _⟩ := C34_grid_kept_edges le rtol sym hs e r hr
    have hn : n = ((e.length - 1 : Nat) : Int) := by omega
    constructor
    · have hb : badCells n = false := by
        simp only [badCells, Bool.or_eq_false_iff, decide_eq_false_iff_not, not_lt]
        constructor
        · omega
        · simp only [bne_eq_false_iff_eq]; omega
      simp [planeIndex, hs, hb]
    · simp only [reducedVol, hs, ne_eq, not_false_eq_true, if_true]
      rw [h4]; omega

variable {K : Type} [Field K] [LinearOrder K] [IsStrictOrderedRing K]

/-- the comparison used in the theorems -/
def leK (a b : K) : Bool := decide (a ≤ b)

theorem absv_leK (x : K) : absv leK x = |x| := by
  unfold absv leK
  by_cases h : (0 : K) ≤ x
  · simp [h, abs_of_nonneg h]
  · simp [h, abs_of_neg (lt_of_not_ge h)]

theorem closeTo_leK (rtol a b : K) : closeTo leK rtol a b = true ↔ |a - b| ≤ rtol * |b| := by
  unfold closeTo
  rw [absv_leK, absv_leK]
  simp [leK]

/-- what `allclose(w, w[::-1], rtol, 0)` requires -/
theorem mirrorSymmetric_iff (rtol : K) (w : List K) :
    mirrorSymmetric leK rtol w = true ↔
      ∀ i (hi : i < w.length), |w[i] - w[w.length - 1 - i]| ≤ rtol * |w[w.length - 1 - i]| := by
  unfold mirrorSymmetric
  rw [List.all_eq_true]
  constructor
  · intro h i hi
    have hmem : closeTo leK rtol w[i] w[w.length - 1 - i] ∈ List.zipWith (closeTo leK rtol) w w.reverse := by
      rw [List.mem_iff_getElem]
      refine ⟨i, by simp [hi], ?_⟩
      simp [List.getElem_zipWith, List.getElem_reverse]
    have := h _ hmem
    simpa [closeTo_leK] using this
  · intro h x hx
    rw [List.mem_iff_getElem] at hx
    obtain ⟨i, hi, rfl⟩ := hx
    have hi' : i < w.length := by simpa using hi
    simp only [List.getElem_zipWith, List.getElem_reverse, id]
    rw [closeTo_leK]
    exact h i hi'

/-- C34_grid_accept_spec: a symmetric axis is accepted iff its cell count is even, ≥ 2, and every width is within
    `rtol` (relative to its partner) of its mirror partner. -/
theorem C34_grid_accept_spec (rtol : K) (sym : Int) (hs : sym ≠ 0) (e : List K) :
    (∃ r, reduceEdges leK rtol sym e = .ok r) ↔
      (¬ badCells ((e.length : Int) - 1) = true ∧
        ∀ i (hi : i < (widths e).length),
          |(widths e)[i] - (widths e)[(widths e).length - 1 - i]| ≤ rtol * |(widths e)[(widths e).length - 1 - i]|) := by
  unfold reduceEdges
  rw [if_neg hs]
  simp only
  by_cases hb : badCells ((e.length : Int) - 1) = true
  · simp [hb]
  · by_cases hm : mirrorSymmetric leK rtol (widths e) = true
    · have := (mirrorSymmetric_iff rtol (widths e)).mp hm
      simp [hb, hm, this]
    · have hm' := hm
      rw [mirrorSymmetric_iff] at hm'
      simp [hb, hm, hm']

end Grid

section RoundTrip
variable {α : Type}

theorem widths_drop [Sub α] (e : List α) (k : Nat) : widths (e.drop k) = (widths e).drop k := by
  unfold widths
  rw [List.drop_zipWith, List.drop_drop, List.drop_drop, Nat.add_comm]

theorem widths_length [Sub α] (e : List α) : (widths e).length = e.length - 1 := by
  unfold widths; simp

/-- a palindrome of even length is the mirror of its upper half -/
theorem mirror_upper_of_palindrome (w : List α) (m : Nat) (hl : w.length = 2 * m) (hp : w.reverse = w) :
    mirrorWidths (w.drop m) = w := by
  unfold mirrorWidths
  have hsplit : w = w.take m ++ w.drop m := (List.take_append_drop m w).symm
  have hrev : w.reverse = (w.drop m).reverse ++ (w.take m).reverse := by
    conv_lhs => rw [hsplit]
    rw [List.reverse_append]
  have heq : (w.drop m).reverse ++ (w.take m).reverse = w.take m ++ w.drop m := by
    rw [← hrev, hp]; exact hsplit
  have hlen : ((w.drop m).reverse).length = (w.take m).length := by
    simp [List.length_take, List.length_drop]; omega
  have := (List.append_inj heq hlen).1
  rw [this]; exact hsplit.symm

/-- C34_grid_roundtrip: if the widths of the full axis are mirror-symmetric about the centre, mirroring the widths of
    the reduced axis reproduces the widths of the full axis. -/
theorem C34_grid_roundtrip [Sub α] [Mul α] [Neg α] [OfNat α 0] (le : α → α → Bool) (rtol : α)
    (sym : Int) (hs : sym ≠ 0) (e r : List α) (h : reduceEdges le rtol sym e = .ok r)
    (hp : (widths e).reverse = widths e) :
    mirrorWidths (widths r) = widths e := by
  obtain ⟨h1, h2, h3, _, _⟩ := C34_grid_kept_edges le rtol sym hs e r h
  subst h3
  rw [widths_drop]
  apply mirror_upper_of_palindrome _ _ _ hp
  rw [widths_length]; omega

end RoundTrip

section RoundTripField
variable {K : Type} [Field K] [LinearOrder K] [IsStrictOrderedRing K]

/-- with `rtol = 0` acceptance means exact mirror symmetry -/
theorem palindrome_of_rtol_zero (w : List K) (h : mirrorSymmetric leK 0 w = true) : w.reverse = w := by
  rw [mirrorSymmetric_iff] at h
  apply List.ext_getElem (by simp)
  intro i h1 h2
  rw [List.getElem_reverse]
  have := h i h2
  rw [zero_mul] at this
  have h0 : w[i] - w[w.length - 1 - i] = 0 := abs_eq_zero.mp (le_antisymm this (abs_nonneg _))
  exact (sub_eq_zero.mp h0).symm

/-- C34_grid_roundtrip_rtol0: a grid accepted with zero tolerance is reproduced exactly by mirroring. -/
theorem C34_grid_roundtrip_rtol0 (sym : Int) (hs : sym ≠ 0) (e r : List K)
    (h : reduceEdges leK 0 sym e = .ok r) : mirrorWidths (widths r) = widths e := by
  apply C34_grid_roundtrip leK 0 sym hs e r h
  apply palindrome_of_rtol_zero
  unfold reduceEdges at h
  rw [if_neg hs] at h
  simp only at h
  split_ifs at h with hb hm
  simpa using hm

/-- entries of the mirrored upper half: the partner below the centre, the entry itself above -/
theorem mirror_getElem? {α : Type} (w : List α) (m : Nat) (hl : w.length = 2 * m) (i : Nat) (hi : i < w.length) :
    (mirrorWidths (w.drop m))[i]? = if i < m then w[w.length - 1 - i]? else w[i]? := by
  unfold mirrorWidths
  have hd : (w.drop m).length = m := by rw [List.length_drop]; omega
  by_cases hlow : i < m
  · rw [if_pos hlow, List.getElem?_append_left (by rw [List.length_reverse, hd]; exact hlow),
      List.getElem?_reverse (by rw [hd]; exact hlow), List.getElem?_drop, hd]
    congr 1; omega
  · rw [if_neg hlow, List.getElem?_append_right (by rw [List.length_reverse, hd]; omega),
      List.length_reverse, hd, List.getElem?_drop]
    congr 1; omega

/-- C34_grid_roundtrip_tol: for an accepted grid every reconstructed width is within `rtol` (relative) of the
    original width at the same position (and equal to it in the kept half). -/
theorem C34_grid_roundtrip_tol (rtol : K) (sym : Int) (hs : sym ≠ 0) (e r : List K)
    (h : reduceEdges leK rtol sym e = .ok r) (i : Nat) (hi : i < (widths e).length) :
    ∃ x, (mirrorWidths (widths r))[i]? = some x ∧
      (|x - (widths e)[i]| ≤ rtol * |(widths e)[i]| ∨ x = (widths e)[i]) := by
  obtain ⟨h1, h2, h3, _, _⟩ := C34_grid_kept_edges leK rtol sym hs e r h
  have hacc := ((C34_grid_accept_spec rtol sym hs e).mp ⟨r, h⟩).2
  subst h3
  have hwl := widths_length e
  rw [widths_drop, mirror_getElem? (widths e) ((e.length - 1) / 2) (by omega) i hi]
  by_cases hlow : i < (e.length - 1) / 2
  · rw [if_pos hlow]
    have hj : (widths e).length - 1 - i < (widths e).length := by omega
    refine ⟨(widths e)[(widths e).length - 1 - i], by simp [hj], Or.inl ?_⟩
    have key := hacc ((widths e).length - 1 - i) hj
    have hback : (widths e).length - 1 - ((widths e).length - 1 - i) = i := by omega
    simpa [hback] using key
  · rw [if_neg hlow]
    exact ⟨(widths e)[i], by simp [hi], Or.inr rfl⟩

/-- non-vacuity: edges 0,1,3,5,6 (widths 1,2,2,1) over ℚ are accepted, keep 3,5,6 and round-trip -/
example : reduceEdges (leK (K := ℚ)) 0 (-1) [0, 1, 3, 5, 6] = .ok [3, 5, 6] ∧
    mirrorWidths (widths ([3, 5, 6] : List ℚ)) = widths [0, 1, 3, 5, 6] := by
  constructor
  · decide +kernel
  · decide +kernel
/-- … 0,1,3,4 (three cells) is rejected for its cell count, 0,1,3,6,7 for its widths -/
example : reduceEdges (leK (K := ℚ)) 0 1 [0, 1, 3, 4] = .error .cells ∧
    reduceEdges (leK (K := ℚ)) (1 / 10000) 1 [0, 1, 3, 6, 7] = .error .widths := by
  constructor <;> decide +kernel

end RoundTripField

end Fdtdx.C34
