/-
C34 — Symmetric placement keeps the upper half and clips objects consistently.

Property theorems about `FdtdxModel/C34.lean`; all sizes / coordinates are arbitrary integers.

  C34_even_required     a symmetric axis is accepted iff its cell count is even and ≥ 2
  C34_nonsym_untouched  an axis without symmetry is never rejected, shifted or clipped
  C34_kept_upper_half   the plane sits at v0 + n/2, the reduced volume is [0, n/2) and reduced cell x is full cell
                        x + plane, i.e. the kept cells are exactly the upper half [v0 + n/2, v1)
  C34_clip_cells        a full-domain cell x lies in the clipped slice (shifted by the plane index) iff it lies in
                        the object AND in the upper half
  C34_drop_iff          an object is dropped on an axis iff it has no cell in the upper half; for a non-empty box
                        inside the volume: iff its stop is ≤ the plane index (touching the plane from below is dropped,
                        starting on the plane is kept whole)
  C34_kept_inside       a surviving clipped slice is non-empty and inside the reduced volume
  C34_unclipped_shift   the recorded extent is the full slice shifted by the plane index, contains the clipped slice,
                        and its start is negative iff the object reaches below the plane
  C34_symmetric_half    a box symmetric about the plane keeps exactly half of its cells
  C34_reduce_spec       `reduceSlices` assembles exactly these per-axis quantities for every object (and fails iff
                        some symmetric axis is rejected)
  C34_walls_electric    a wall is created on axis a iff sym[a] = -1 (never for +1 or 0); its slice is one cell thick at
                        the reduced min edge and spans the reduced volume on the other axes
  C34_wall_name_fresh   the generated wall name is not in use
-/
import FdtdxModel.C34
import Mathlib.Tactic.Linarith
import Mathlib.Tactic.Ring
import Mathlib.Data.List.Nodup
import Mathlib.Data.List.Perm.Subperm

namespace Fdtdx.C34

/-- C34_even_required -/
theorem C34_even_required (sym : Int) (hs : sym ≠ 0) (vol : Sl) :
    planeIndex sym vol = none ↔ (vol.2 - vol.1 < 2 ∨ (vol.2 - vol.1) % 2 ≠ 0) := by
  simp only [planeIndex, hs, ne_eq, not_false_eq_true, if_true, badCells]
  by_cases h1 : vol.2 - vol.1 < 2 <;> by_cases h2 : (vol.2 - vol.1) % 2 = 0 <;> simp [h1, h2]

/-- C34_nonsym_untouched -/
theorem C34_nonsym_untouched (vol s : Sl) (m volHi : Int) :
    planeIndex 0 vol = some vol.1 ∧ reducedVol 0 vol m = vol ∧ volUnreduced 0 vol m = vol ∧
    clipAxis 0 volHi m s = s ∧ unclippedAxis 0 m s = s ∧ dropAxis 0 volHi m s = false := by
  simp [planeIndex, reducedVol, volUnreduced, clipAxis, unclippedAxis, dropAxis]

/-- C34_kept_upper_half -/
theorem C34_kept_upper_half (sym : Int) (hs : sym ≠ 0) (vol : Sl) (m : Int)
    (h : planeIndex sym vol = some m) :
    let n := vol.2 - vol.1
    n % 2 = 0 ∧ 2 ≤ n ∧ m = vol.1 + n / 2 ∧
    reducedVol sym vol m = (0, n / 2) ∧ 2 * (n / 2) = n ∧
    volUnreduced sym vol m = (-(n / 2), n / 2) ∧
    (∀ x : Int, (0 ≤ x ∧ x < (reducedVol sym vol m).2) ↔ (vol.1 + n / 2 ≤ x + m ∧ x + m < vol.2)) := by
  intro n
  have hne := (C34_even_required sym hs vol).not.mp (by rw [h]; simp)
  have h2 : 2 ≤ vol.2 - vol.1 := by omega
  have he : (vol.2 - vol.1) % 2 = 0 := by omega
  have hb : badCells (vol.2 - vol.1) = false := by simp [badCells]; omega
  simp only [planeIndex, hs, ne_eq, not_false_eq_true, if_true, hb, Bool.false_eq_true, if_false,
    Option.some.injEq] at h
  subst h
  have hn : n = vol.2 - vol.1 := rfl
  refine ⟨he, h2, rfl, ?_, by omega, ?_, ?_⟩
  · simp only [reducedVol, hs, ne_eq, not_false_eq_true, if_true, Prod.mk.injEq, true_and]; omega
  · simp only [volUnreduced, hs, ne_eq, not_false_eq_true, if_true, Prod.mk.injEq]; omega
  · intro x
    simp only [reducedVol, hs, ne_eq, not_false_eq_true, if_true]
    omega

example : planeIndex (-1) (0, 6) = some 3 ∧ reducedVol (-1) (0, 6) 3 = (0, 3) := by decide
example : planeIndex 1 (0, 5) = none ∧ planeIndex 1 (0, 0) = none ∧ planeIndex 1 (4, 6) = some 5 := by decide

/-- C34_clip_cells: cell `x` of the full domain (reduced index `x - m`). -/
theorem C34_clip_cells (sym : Int) (hs : sym ≠ 0) (volHi m : Int) (s : Sl) (x : Int) :
    ((clipAxis sym volHi m s).1 ≤ x - m ∧ x - m < (clipAxis sym volHi m s).2) ↔
      ((s.1 ≤ x ∧ x < s.2) ∧ (m ≤ x ∧ x < volHi)) := by
  simp only [clipAxis, hs, ne_eq, not_false_eq_true, if_true]
  omega

/-- C34_drop_iff -/
theorem C34_drop_iff (sym : Int) (hs : sym ≠ 0) (volHi m : Int) (s : Sl) :
    (dropAxis sym volHi m s = true ↔ ¬ ∃ x : Int, (s.1 ≤ x ∧ x < s.2) ∧ (m ≤ x ∧ x < volHi)) ∧
    (s.1 < s.2 → s.2 ≤ volHi → m < volHi → (dropAxis sym volHi m s = true ↔ s.2 ≤ m)) := by
  constructor
  · simp only [dropAxis, clipAxis, hs, ne_eq, not_false_eq_true, if_true, decide_true, Bool.true_and,
      decide_eq_true_eq]
    constructor
    · rintro h ⟨x, hx⟩; omega
    · intro h
      by_contra hc
      exact h ⟨max s.1 m, by omega⟩
  · intro h1 h2 h3
    simp only [dropAxis, clipAxis, hs, ne_eq, not_false_eq_true, if_true, decide_true, Bool.true_and,
      decide_eq_true_eq]
    omega

/-- touching the plane from below is dropped, starting on the plane is kept whole and does not straddle -/
example : dropAxis (-1) 6 3 (1, 3) = true ∧ dropAxis (-1) 6 3 (3, 5) = false ∧
    clipAxis (-1) 6 3 (3, 5) = (0, 2) ∧ straddles (unclippedAxis (-1) 3 (3, 5)).1 = false ∧
    clipAxis 1 6 3 (1, 5) = (0, 2) ∧ unclippedAxis 1 3 (1, 5) = (-2, 2) := by decide

/-- C34_kept_inside -/
theorem C34_kept_inside (sym : Int) (hs : sym ≠ 0) (volHi m : Int) (s : Sl)
    (hk : dropAxis sym volHi m s = false) :
    0 ≤ (clipAxis sym volHi m s).1 ∧ (clipAxis sym volHi m s).1 < (clipAxis sym volHi m s).2 ∧
    (clipAxis sym volHi m s).2 ≤ volHi - m := by
  simp only [dropAxis, clipAxis, hs, ne_eq, not_false_eq_true, if_true, decide_true, Bool.true_and,
    decide_eq_false_iff_not, not_le] at hk ⊢
  omega

/-- C34_unclipped_shift -/
theorem C34_unclipped_shift (sym : Int) (hs : sym ≠ 0) (volHi m : Int) (s : Sl) :
    unclippedAxis sym m s = (s.1 - m, s.2 - m) ∧
    (unclippedAxis sym m s).1 ≤ (clipAxis sym volHi m s).1 ∧
    (s.2 ≤ volHi → (clipAxis sym volHi m s).2 = (unclippedAxis sym m s).2) ∧
    (straddles (unclippedAxis sym m s).1 = true ↔ s.1 < m) ∧
    (s.1 ≥ m → s.2 ≤ volHi → clipAxis sym volHi m s = unclippedAxis sym m s) := by
  simp only [unclippedAxis, clipAxis, straddles, hs, ne_eq, not_false_eq_true, if_true, decide_eq_true_eq,
    Prod.mk.injEq, true_and]
  refine ⟨by omega, fun h => by omega, by omega, fun h1 h2 => by omega⟩

/-- C34_symmetric_half: a box symmetric about the plane (no warning branch) keeps half of its extent. -/
theorem C34_symmetric_half (sym : Int) (hs : sym ≠ 0) (volHi m : Int) (s : Sl)
    (hsym : s.1 + s.2 = 2 * m) (hlt : s.1 < s.2) (hin : s.2 ≤ volHi) :
    2 * ((clipAxis sym volHi m s).2 - (clipAxis sym volHi m s).1) = s.2 - s.1 ∧
    (clipAxis sym volHi m s).1 = 0 := by
  simp only [clipAxis, hs, ne_eq, not_false_eq_true, if_true]
  omega

/-! ### the assembled function -/

private theorem mapM_range3 {β : Type} (f : Nat → Option β) :
    (List.range 3).mapM f = (do let a ← f 0; let b ← f 1; let c ← f 2; pure [a, b, c]) := by
  have : List.range 3 = [0, 1, 2] := by decide
  rw [this]
  cases h0 : f 0 <;> cases h1 : f 1 <;> cases h2 : f 2 <;> simp [List.mapM_cons, h0, h1, h2]

/-- C34_reduce_spec: for three-axis inputs `reduceSlices` fails iff some axis is rejected, and otherwise every
    object is dropped iff some axis drops it, else carries the per-axis clipped / unclipped slices. -/
theorem C34_reduce_spec (s0 s1 s2 : Int) (v0 v1 v2 : Sl) (objs : List (List Sl)) :
    (reduceSlices [s0, s1, s2] [v0, v1, v2] objs = none ↔
      (planeIndex s0 v0 = none ∨ planeIndex s1 v1 = none ∨ planeIndex s2 v2 = none)) ∧
    ∀ m0 m1 m2, planeIndex s0 v0 = some m0 → planeIndex s1 v1 = some m1 → planeIndex s2 v2 = some m2 →
      ∃ r, reduceSlices [s0, s1, s2] [v0, v1, v2] objs = some r ∧
        r.vol = [reducedVol s0 v0 m0, reducedVol s1 v1 m1, reducedVol s2 v2 m2] ∧
        r.volUn = [volUnreduced s0 v0 m0, volUnreduced s1 v1 m1, volUnreduced s2 v2 m2] ∧
        r.objs = objs.map (fun o =>
          if dropAxis s0 v0.2 m0 (o.getD 0 (0, 0)) || (dropAxis s1 v1.2 m1 (o.getD 1 (0, 0)) ||
              dropAxis s2 v2.2 m2 (o.getD 2 (0, 0))) then none
          else some ([clipAxis s0 v0.2 m0 (o.getD 0 (0, 0)), clipAxis s1 v1.2 m1 (o.getD 1 (0, 0)),
                      clipAxis s2 v2.2 m2 (o.getD 2 (0, 0))],
                     [unclippedAxis s0 m0 (o.getD 0 (0, 0)), unclippedAxis s1 m1 (o.getD 1 (0, 0)),
                      unclippedAxis s2 m2 (o.getD 2 (0, 0))])) := by
  have hr : List.range 3 = [0, 1, 2] := by decide
  constructor
  · unfold reduceSlices
    rw [mapM_range3]
    cases h0 : planeIndex s0 v0 <;> cases h1 : planeIndex s1 v1 <;> cases h2 : planeIndex s2 v2 <;>
      simp [h0, h1, h2]
  · intro m0 m1 m2 h0 h1 h2
    unfold reduceSlices
    rw [mapM_range3]
    simp [h0, h1, h2, hr]

/-! ### walls -/

/-- C34_walls_electric -/
theorem C34_walls_electric (s0 s1 s2 : Int) (a : Nat) :
    a ∈ wallAxes [s0, s1, s2] ↔ (a < 3 ∧ [s0, s1, s2].getD a 0 = -1) := by
  have hr : List.range 3 = [0, 1, 2] := by decide
  simp only [wallAxes, List.mem_filter, List.mem_range, beq_iff_eq]

theorem C34_no_wall_for_magnetic (s0 s1 s2 : Int) (a : Nat) (h : [s0, s1, s2].getD a 0 = 1 ∨ [s0, s1, s2].getD a 0 = 0) :
    a ∉ wallAxes [s0, s1, s2] := by
  rw [C34_walls_electric]; rintro ⟨_, h'⟩; omega

/-- the wall is one cell thick at the reduced min edge and spans the reduced volume elsewhere -/
theorem C34_wall_slice (n0 n1 n2 : Int) (a : Nat) (ha : a < 3) :
    (wallSlice [n0, n1, n2] a).getD a (7, 7) = (0, 1) ∧
    ∀ b, b < 3 → b ≠ a → (wallSlice [n0, n1, n2] a).getD b (7, 7) = (0, [n0, n1, n2].getD b 0) := by
  have ha' : a = 0 ∨ a = 1 ∨ a = 2 := by omega
  constructor
  · rcases ha' with rfl | rfl | rfl <;> simp [wallSlice, List.range, List.range.loop]
  · intro b hb hne
    have hb' : b = 0 ∨ b = 1 ∨ b = 2 := by omega
    rcases ha' with rfl | rfl | rfl <;> rcases hb' with rfl | rfl | rfl <;>
      simp_all [wallSlice, List.range, List.range.loop]

example : wallAxes [-1, 1, -1] = [0, 2] ∧ wallAxes [1, 0, 1] = [] := by decide

/-- C34_wall_name_fresh -/
theorem C34_wall_name_fresh (used : List String) (a : Nat)
    (hinj : ∀ i j, wallCandidate a i = wallCandidate a j → i = j) :
    wallName used a ∉ used := by
  unfold wallName
  split
  · rename_i k hk
    have := List.find?_some hk
    simpa using this
  · rename_i hnone
    exfalso
    -- pigeonhole: used.length + 1 distinct candidates cannot all be in `used`
    rw [List.find?_eq_none] at hnone
    have hall : ∀ k, k < used.length + 1 → wallCandidate a k ∈ used := by
      intro k hk
      have := hnone k (List.mem_range.mpr hk)
      simpa using this
    have hnodup : ((List.range (used.length + 1)).map (wallCandidate a)).Nodup := by
      exact List.Nodup.map (fun i j h => hinj i j h) List.nodup_range
    have hsub : ((List.range (used.length + 1)).map (wallCandidate a)) ⊆ used := by
      intro x hx
      simp only [List.mem_map, List.mem_range] at hx
      obtain ⟨k, hk, rfl⟩ := hx
      exact hall k hk
    have := (List.subperm_of_subset hnodup hsub).length_le
    simp at this

end Fdtdx.C34
