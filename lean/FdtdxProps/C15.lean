/-
C15 — Detectors record the co-located fields of their region.

Property theorems about `FdtdxModel/C15.lean` (all grid shapes, all box positions and sizes, all fields,
uniform and non-uniform widths; no bound on sizes):

  C15_record_eq_full_E / _H   what `update_detector_states` hands to `Detector.update` for an exact detector is the
                              restriction of the full-domain interpolation to the box, for EVERY valid box — whether
                              the `is_interior` fast path (haloed block + `region_slice` weights) or the full-domain
                              fallback is taken.  Holds for any scalar type with bare operations (no algebra needed).
  C15_nonexact_raw_E / _H     without exact interpolation the record is the raw slice (raw H, not time-centred)
  C15_H_time_centred          the exact H record is the co-location of (H_prev + H)/2, and of nothing else
  C15_stencil_E / C15_stencil_H   explicit stencil per component on a uniform grid, in terms of the padded arrays
  C15_bea_nonuniform, C15_bea_affine, C15_bea_equal_widths   the weighted edge average is linear interpolation in
                              physical coordinates: exact on affine data, arithmetic mean on equal widths
  C15_halo_inside / _zero_low / _zero_high / _wrap_low / _wrap_high / C15_mirror_halo
                              the halo rule: identity inside, zero, periodic wrap, and on an electric symmetry plane
                              parity × mirror partner (2nd cell for components sampled on the plane, 1st otherwise)
  C15_plane_row_records_full_domain   consequence: with the mirror halo the plane row of the reduced domain records
                              what the unreduced, mirror-symmetric domain would record there
-/
import FdtdxModel.C15
import Mathlib.Tactic.Ring
import Mathlib.Tactic.FieldSimp
import Mathlib.Tactic.Linarith
import Mathlib.Algebra.Field.Basic

set_option linter.unusedSectionVars false

namespace Fdtdx.C15

/-! ### the halo rule -/

section halo
variable {α : Type} [Neg α] [OfNat α 0]

theorem resolve_inside (ax : Ax) (ft : Ft) (c a : Nat) (i : Int) (h0 : 0 ≤ i) (h1 : i < ax.n) :
    resolve ax ft c a i = .at false i := by
  simp [resolve, h0, h1]

/-- C15_halo_inside: inside the domain the padded array is the array. -/
theorem C15_halo_inside (cfg : Cfg) (ft : Ft) (c : Nat) (f : F3 α) (i j k : Int)
    (hi : 0 ≤ i ∧ i < cfg.1.n) (hj : 0 ≤ j ∧ j < cfg.2.1.n) (hk : 0 ≤ k ∧ k < cfg.2.2.n) :
    padded cfg ft c f i j k = f i j k := by
  simp [padded, resolve_inside, hi.1, hi.2, hj.1, hj.2, hk.1, hk.2, sgn]

/-- C15_halo_zero_low: no wrap and no electric plane on axis 0 → the low halo is zero (also: magnetic plane). -/
theorem C15_halo_zero_low (cfg : Cfg) (ft : Ft) (c : Nat) (f : F3 α) (j k : Int)
    (h : cfg.1.sym ≠ -1) (hz : cfg.1.wrap = false ∨ cfg.1.sym ≠ 0) :
    padded cfg ft c f (-1) j k = 0 := by
  have : resolve cfg.1 ft c 0 (-1) = .zero := by
    unfold resolve
    rcases hz with hz | hz <;> simp [h, hz]
  simp [padded, this]

/-- C15_halo_zero_high: no wrap on axis 0 → the high halo is zero. -/
theorem C15_halo_zero_high (cfg : Cfg) (ft : Ft) (c : Nat) (f : F3 α) (j k : Int) (hw : cfg.1.wrap = false) :
    padded cfg ft c f cfg.1.n j k = 0 := by
  have : resolve cfg.1 ft c 0 cfg.1.n = .zero := by simp [resolve, resHigh, hw]
  simp [padded, this]

/-- C15_halo_wrap_low: periodic axis 0 without symmetry → the low halo is the last cell. -/
theorem C15_halo_wrap_low (cfg : Cfg) (ft : Ft) (c : Nat) (f : F3 α) (j k : Int)
    (hw : cfg.1.wrap = true) (hs : cfg.1.sym = 0)
    (hj : 0 ≤ j ∧ j < cfg.2.1.n) (hk : 0 ≤ k ∧ k < cfg.2.2.n) :
    padded cfg ft c f (-1) j k = f ((cfg.1.n : Int) - 1) j k := by
  have : resolve cfg.1 ft c 0 (-1) = .at false ((cfg.1.n : Int) - 1) := by
    simp [resolve, hw, hs]; omega
  simp [padded, this, resolve_inside, hj.1, hj.2, hk.1, hk.2, sgn]

/-- C15_halo_wrap_high: periodic axis 0 → the high halo is the first cell. -/
theorem C15_halo_wrap_high (cfg : Cfg) (ft : Ft) (c : Nat) (f : F3 α) (j k : Int)
    (hw : cfg.1.wrap = true) (hj : 0 ≤ j ∧ j < cfg.2.1.n) (hk : 0 ≤ k ∧ k < cfg.2.2.n) :
    padded cfg ft c f cfg.1.n j k = f 0 j k := by
  have : resolve cfg.1 ft c 0 cfg.1.n = .at false 0 := by simp [resolve, resHigh, hw]
  simp [padded, this, resolve_inside, hj.1, hj.2, hk.1, hk.2, sgn]

/-- mirror partner of the cell behind an electric plane: 2nd cell for on-plane components, 1st otherwise -/
def partner (ft : Ft) (c a : Nat) : Int := if onPlane ft c a then 1 else 0

/-- C15_mirror_halo (axis 0): on an electric symmetry plane the halo is parity × mirror partner. -/
theorem C15_mirror_halo (cfg : Cfg) (ft : Ft) (c : Nat) (f : F3 α) (j k : Int)
    (hs : cfg.1.sym = -1) (hn : 2 ≤ cfg.1.n)
    (hj : 0 ≤ j ∧ j < cfg.2.1.n) (hk : 0 ≤ k ∧ k < cfg.2.2.n) :
    padded cfg ft c f (-1) j k = sgn (oddPEC ft c 0) (f (partner ft c 0) j k) := by
  have : resolve cfg.1 ft c 0 (-1) = .at (oddPEC ft c 0) (partner ft c 0) := by
    unfold resolve partner
    by_cases hp : onPlane ft c 0 = true
    · have h1 : (1 : Int) < cfg.1.n := by omega
      simp [hs, hp, h1]
    · have h0 : 0 < cfg.1.n := by omega
      simp [hs, hp, h0]
  simp [padded, this, resolve_inside, hj.1, hj.2, hk.1, hk.2]

/-- the same on axes 1 and 2 -/
theorem C15_mirror_halo_y (cfg : Cfg) (ft : Ft) (c : Nat) (f : F3 α) (i k : Int)
    (hs : cfg.2.1.sym = -1) (hn : 2 ≤ cfg.2.1.n)
    (hi : 0 ≤ i ∧ i < cfg.1.n) (hk : 0 ≤ k ∧ k < cfg.2.2.n) :
    padded cfg ft c f i (-1) k = sgn (oddPEC ft c 1) (f i (partner ft c 1) k) := by
  have : resolve cfg.2.1 ft c 1 (-1) = .at (oddPEC ft c 1) (partner ft c 1) := by
    unfold resolve partner
    by_cases hp : onPlane ft c 1 = true
    · have h1 : (1 : Int) < cfg.2.1.n := by omega
      simp [hs, hp, h1]
    · have h0 : 0 < cfg.2.1.n := by omega
      simp [hs, hp, h0]
  simp [padded, this, resolve_inside, hi.1, hi.2, hk.1, hk.2]

theorem C15_mirror_halo_z (cfg : Cfg) (ft : Ft) (c : Nat) (f : F3 α) (i j : Int)
    (hs : cfg.2.2.sym = -1) (hn : 2 ≤ cfg.2.2.n)
    (hi : 0 ≤ i ∧ i < cfg.1.n) (hj : 0 ≤ j ∧ j < cfg.2.1.n) :
    padded cfg ft c f i j (-1) = sgn (oddPEC ft c 2) (f i j (partner ft c 2)) := by
  have : resolve cfg.2.2 ft c 2 (-1) = .at (oddPEC ft c 2) (partner ft c 2) := by
    unfold resolve partner
    by_cases hp : onPlane ft c 2 = true
    · have h1 : (1 : Int) < cfg.2.2.n := by omega
      simp [hs, hp, h1]
    · have h0 : 0 < cfg.2.2.n := by omega
      simp [hs, hp, h0]
  simp [padded, this, resolve_inside, hi.1, hi.2, hj.1, hj.2]

/-- the parity table of an electric wall: tangential E and normal H are odd, and exactly the odd components are
the ones sampled on the plane -/
theorem oddPEC_eq_onPlane (ft : Ft) (c a : Nat) : oddPEC ft c a = onPlane ft c a := by
  cases ft <;> rfl

example : oddPEC .E 1 0 = true ∧ oddPEC .E 0 0 = false ∧ oddPEC .H 0 0 = true ∧ oddPEC .H 2 0 = false := by decide

end halo

/-! ### interior fast path = restriction of the full-domain interpolation -/

section dispatch
variable {α : Type} [Add α] [Mul α] [Div α] [Neg α] [OfNat α 0] [OfNat α 2]

/-- `interpolate_fields` only reads its inputs at the stencil points -/
theorem interpE_congr (nu : Bool) (W W' : Wts α) (P Q : Nat → F3 α) (c : Nat) (i j k i' j' k' : Int)
    (hcx : W.cx i = W'.cx i') (hpx : W.px i = W'.px i') (hcy : W.cy j = W'.cy j') (hpy : W.py j = W'.py j')
    (h : ∀ c (a b d : Int), (a = 0 ∨ a = 1) → (b = 0 ∨ b = 1) → (d = 1 ∨ d = 2) →
      P c (i + a) (j + b) (k + d) = Q c (i' + a) (j' + b) (k' + d)) :
    interpE nu W P c i j k = interpE nu W' Q c i' j' k' := by
  have e := fun c a b d ha hb hd => h c a b d ha hb hd
  have z : ∀ x : Int, x + 0 = x := Int.add_zero
  unfold interpE
  simp only [hcx, hpx, hcy, hpy]
  rcases c with _ | _ | c
  · simp only
    rw [e 0 1 1 1 (.inr rfl) (.inr rfl) (.inl rfl), e 0 1 1 2 (.inr rfl) (.inr rfl) (.inr rfl)]
    have := e 0 0 1 1 (.inl rfl) (.inr rfl) (.inl rfl)
    have := e 0 0 1 2 (.inl rfl) (.inr rfl) (.inr rfl)
    simp only [z] at *
    simp only [*]
  · simp only
    rw [e 1 1 1 1 (.inr rfl) (.inr rfl) (.inl rfl), e 1 1 1 2 (.inr rfl) (.inr rfl) (.inr rfl)]
    have := e 1 1 0 1 (.inr rfl) (.inl rfl) (.inl rfl)
    have := e 1 1 0 2 (.inr rfl) (.inl rfl) (.inr rfl)
    simp only [z] at *
    simp only [*]
  · simp only
    exact e 2 1 1 1 (.inr rfl) (.inr rfl) (.inl rfl)

theorem interpH_congr (nu : Bool) (W W' : Wts α) (P Q : Nat → F3 α) (c : Nat) (i j k i' j' k' : Int)
    (hcx : W.cx i = W'.cx i') (hpx : W.px i = W'.px i') (hcy : W.cy j = W'.cy j') (hpy : W.py j = W'.py j')
    (h : ∀ c (a b d : Int), (a = 0 ∨ a = 1) → (b = 0 ∨ b = 1) → (d = 1 ∨ d = 2) →
      P c (i + a) (j + b) (k + d) = Q c (i' + a) (j' + b) (k' + d)) :
    interpH nu W P c i j k = interpH nu W' Q c i' j' k' := by
  have e := fun c a b d ha hb hd => h c a b d ha hb hd
  have z : ∀ x : Int, x + 0 = x := Int.add_zero
  unfold interpH
  simp only [hcx, hpx, hcy, hpy]
  rcases c with _ | _ | c
  · simp only
    rw [e 0 1 1 1 (.inr rfl) (.inr rfl) (.inl rfl)]
    have := e 0 1 0 1 (.inr rfl) (.inl rfl) (.inl rfl)
    simp only [z] at *
    simp only [*]
  · simp only
    rw [e 1 1 1 1 (.inr rfl) (.inr rfl) (.inl rfl)]
    have := e 1 0 1 1 (.inl rfl) (.inr rfl) (.inl rfl)
    simp only [z] at *
    simp only [*]
  · simp only
    rw [e 2 1 1 1 (.inr rfl) (.inr rfl) (.inl rfl), e 2 1 1 2 (.inr rfl) (.inr rfl) (.inr rfl)]
    have := e 2 0 1 1 (.inl rfl) (.inr rfl) (.inl rfl)
    have := e 2 1 0 1 (.inr rfl) (.inl rfl) (.inl rfl)
    have := e 2 0 0 1 (.inl rfl) (.inl rfl) (.inl rfl)
    have := e 2 0 1 2 (.inl rfl) (.inr rfl) (.inr rfl)
    have := e 2 1 0 2 (.inr rfl) (.inl rfl) (.inr rfl)
    have := e 2 0 0 2 (.inl rfl) (.inl rfl) (.inr rfl)
    simp only [z] at *
    simp only [*]

theorem interior_iff (b : Box) (cfg : Cfg) :
    b.interior cfg = true ↔ (1 ≤ b.s0 ∧ b.e0 ≤ (cfg.1.n : Int) - 1) ∧ (1 ≤ b.s1 ∧ b.e1 ≤ (cfg.2.1.n : Int) - 1)
      ∧ (1 ≤ b.s2 ∧ b.e2 ≤ (cfg.2.2.n : Int) - 1) := by
  simp [Box.interior, and_assoc]

/-- C15_record_eq_full_E: for every box inside the domain — interior or touching any face, edge or corner — the
E record of an exact detector is the full-domain interpolation restricted to the box. -/
theorem C15_record_eq_full_E (cfg : Cfg) (nu : Bool) (w : Widths α) (b : Box) (E : Nat → F3 α) (c : Nat)
    (i j k : Int) (hi : 0 ≤ i ∧ i < b.e0 - b.s0) (hj : 0 ≤ j ∧ j < b.e1 - b.s1) (hk : 0 ≤ k ∧ k < b.e2 - b.s2) :
    recE cfg nu w true b E c i j k = fullE cfg nu w E c (b.s0 + i) (b.s1 + j) (b.s2 + k) := by
  unfold recE
  by_cases hin : b.interior cfg = true
  · simp only [Bool.not_true, Bool.false_eq_true, if_false, hin, if_true]
    obtain ⟨⟨a0, a1⟩, ⟨b0, b1⟩, ⟨c0, c1⟩⟩ := (interior_iff b cfg).1 hin
    unfold blockE fullE
    apply interpE_congr <;> try rfl
    intro c a b' d ha hb hd
    rw [C15_halo_inside]
    · congr 1 <;> omega
    · omega
    · omega
    · omega
  · simp [hin]

/-- C15_record_eq_full_H: the same for the H record. -/
theorem C15_record_eq_full_H (cfg : Cfg) (nu : Bool) (w : Widths α) (b : Box) (H Hprev : Nat → F3 α) (c : Nat)
    (i j k : Int) (hi : 0 ≤ i ∧ i < b.e0 - b.s0) (hj : 0 ≤ j ∧ j < b.e1 - b.s1) (hk : 0 ≤ k ∧ k < b.e2 - b.s2) :
    recH cfg nu w true b H Hprev c i j k = fullH cfg nu w H Hprev c (b.s0 + i) (b.s1 + j) (b.s2 + k) := by
  unfold recH
  by_cases hin : b.interior cfg = true
  · simp only [Bool.not_true, Bool.false_eq_true, if_false, hin, if_true]
    obtain ⟨⟨a0, a1⟩, ⟨b0, b1⟩, ⟨c0, c1⟩⟩ := (interior_iff b cfg).1 hin
    unfold blockH fullH
    apply interpH_congr <;> try rfl
    intro c a b' d ha hb hd
    rw [C15_halo_inside]
    · congr 1 <;> omega
    · omega
    · omega
    · omega
  · simp [hin]

/-- both dispatch branches are inhabited: an interior box and a corner box of a 5×4×6 domain -/
example : (Box.mk 1 3 1 2 2 5).interior (⟨5, true, 0⟩, ⟨4, false, 0⟩, ⟨6, false, -1⟩) = true
    ∧ (Box.mk 0 3 1 4 2 6).interior (⟨5, true, 0⟩, ⟨4, false, 0⟩, ⟨6, false, -1⟩) = false
    ∧ (Box.mk 0 3 1 4 2 6).valid (⟨5, true, 0⟩, ⟨4, false, 0⟩, ⟨6, false, -1⟩) = true := by decide

/-- C15_nonexact_raw: without exact interpolation the detector sees the raw components of its region. -/
theorem C15_nonexact_raw_E (cfg : Cfg) (nu : Bool) (w : Widths α) (b : Box) (E : Nat → F3 α) (c : Nat) (i j k : Int) :
    recE cfg nu w false b E c i j k = E c (b.s0 + i) (b.s1 + j) (b.s2 + k) := by
  simp [recE]

theorem C15_nonexact_raw_H (cfg : Cfg) (nu : Bool) (w : Widths α) (b : Box) (H Hprev : Nat → F3 α) (c : Nat)
    (i j k : Int) : recH cfg nu w false b H Hprev c i j k = H c (b.s0 + i) (b.s1 + j) (b.s2 + k) := by
  simp [recH]

end dispatch

/-! ### stencil formulas (over a field of characteristic ≠ 2) -/

section stencil
variable {K : Type} [Field K]

/-- C15_H_time_centred: the exact H record is the co-location of A = (H_prev + H)/2 — it depends on the two adjacent
half-steps only through their average, and a field with H_prev = H = A records the same. -/
theorem C15_H_time_centred (h2 : (2 : K) ≠ 0) (cfg : Cfg) (nu : Bool) (w : Widths K) (b : Box) (H Hprev : Nat → F3 K) :
    recH cfg nu w true b H Hprev = recH cfg nu w true b (havg H Hprev) (havg H Hprev) := by
  have : havg (havg H Hprev) (havg H Hprev) = havg H Hprev := by
    funext c i j k
    simp only [havg]
    field_simp
    ring
  funext c i j k
  simp [recH, blockH, fullH, this]

/-- C15_bea_nonuniform: the weighted edge average in closed form. -/
theorem C15_bea_nonuniform (h2 : (2 : K) ≠ 0) (wc wp cur prev : K) (hw : wc + wp ≠ 0) :
    bea true wc wp cur prev = (wp * cur + wc * prev) / (wc + wp) := by
  simp only [bea, if_true]
  have : wc / 2 + wp / 2 ≠ 0 := by
    have e : wc / 2 + wp / 2 = (wc + wp) / 2 := by ring
    rw [e]; exact div_ne_zero hw h2
  rw [div_eq_div_iff this hw]
  field_simp

/-- C15_bea_affine: the weighted average is linear interpolation in physical coordinates: for samples of an affine
function at the two cell centres (x + wc/2 and x - wp/2) it returns the function at the edge x. -/
theorem C15_bea_affine (h2 : (2 : K) ≠ 0) (wc wp a b x : K) (hw : wc + wp ≠ 0) :
    bea true wc wp (a * (x + wc / 2) + b) (a * (x - wp / 2) + b) = a * x + b := by
  rw [C15_bea_nonuniform h2 _ _ _ _ hw]
  field_simp
  ring

/-- C15_bea_equal_widths: on equal widths the weighted average is the arithmetic mean of the uniform branch. -/
theorem C15_bea_equal_widths (h2 : (2 : K) ≠ 0) (wd cur prev : K) (hw : wd ≠ 0) :
    bea true wd wd cur prev = bea false wd wd cur prev := by
  have : wd + wd ≠ 0 := by
    intro h; apply hw
    have : (2 : K) * wd = 0 := by rw [two_mul]; exact h
    rcases mul_eq_zero.1 this with h | h
    · exact absurd h h2
    · exact h
  rw [C15_bea_nonuniform h2 _ _ _ _ this]
  simp only [bea, Bool.false_eq_true, if_false]
  rw [div_eq_div_iff this h2]
  ring

example : (1 : ℚ) + 3 ≠ 0 := by norm_num

/-- C15_stencil_E: on a uniform grid, in terms of the padded components `P c = padded cfg .E c (E c)`:
Ex ← 4-point mean over (i-1..i) × (k..k+1), Ey ← 4-point mean over (j-1..j) × (k..k+1), Ez ← itself. -/
theorem C15_stencil_E (h2 : (2 : K) ≠ 0) (cfg : Cfg) (w : Widths K) (E : Nat → F3 K) (i j k : Int) :
    let P := fun c => padded cfg .E c (E c)
    fullE cfg false w E 0 i j k = (P 0 i j k + P 0 (i - 1) j k + P 0 i j (k + 1) + P 0 (i - 1) j (k + 1)) / 4
    ∧ fullE cfg false w E 1 i j k = (P 1 i j k + P 1 i (j - 1) k + P 1 i j (k + 1) + P 1 i (j - 1) (k + 1)) / 4
    ∧ fullE cfg false w E 2 i j k = P 2 i j k := by
  have h4 : (4 : K) = 2 * 2 := by norm_num
  have s1 : ∀ x : Int, x + 1 - 1 = x := by intro x; omega
  have s2 : ∀ x : Int, x + 2 - 1 = x + 1 := by intro x; omega
  refine ⟨?_, ?_, ?_⟩ <;> simp only [fullE, interpE, bea, Bool.false_eq_true, if_false, s1, s2]
  · rw [h4]; field_simp; ring
  · rw [h4]; field_simp; ring

/-- C15_stencil_H: Hx ← 2-point mean over (j-1..j), Hy ← 2-point mean over (i-1..i),
Hz ← 8-point mean over (i-1..i) × (j-1..j) × (k..k+1); all of the time-centred A = (H_prev + H)/2. -/
theorem C15_stencil_H (h2 : (2 : K) ≠ 0) (cfg : Cfg) (w : Widths K) (H Hprev : Nat → F3 K) (i j k : Int) :
    let P := fun c => padded cfg .H c (havg H Hprev c)
    fullH cfg false w H Hprev 0 i j k = (P 0 i j k + P 0 i (j - 1) k) / 2
    ∧ fullH cfg false w H Hprev 1 i j k = (P 1 i j k + P 1 (i - 1) j k) / 2
    ∧ fullH cfg false w H Hprev 2 i j k =
        (P 2 i j k + P 2 (i - 1) j k + P 2 i (j - 1) k + P 2 (i - 1) (j - 1) k
          + P 2 i j (k + 1) + P 2 (i - 1) j (k + 1) + P 2 i (j - 1) (k + 1) + P 2 (i - 1) (j - 1) (k + 1)) / 8 := by
  have h8 : (8 : K) = 2 * 2 * 2 := by norm_num
  have s1 : ∀ x : Int, x + 1 - 1 = x := by intro x; omega
  have s2 : ∀ x : Int, x + 2 - 1 = x + 1 := by intro x; omega
  refine ⟨?_, ?_, ?_⟩ <;> simp only [fullH, interpH, bea, Bool.false_eq_true, if_false, s1, s2]
  · rw [h8]; field_simp; ring

/-- C15_plane_row_records_full_domain (axis 0, uniform grid): let `G` be a field on the UNREDUCED domain that has
the mirror symmetry of an electric plane through the node row 0 (`G c (-1) = parity · G c partner`, the instance of
the symmetry the stencil needs) and let the reduced run hold its kept half.  Then the Ex/Ey/Ez values recorded on the
plane row `i = 0` are the co-location of `G` itself — the halo supplies exactly the discarded neighbour. -/
theorem C15_plane_row_records_full_domain (cfg : Cfg) (w : Widths K) (G : Nat → F3 K) (c : Nat) (j k : Int)
    (hs : cfg.1.sym = -1) (hn : 2 ≤ cfg.1.n)
    (hj : 1 ≤ j ∧ j < cfg.2.1.n) (hk : 0 ≤ k ∧ k + 1 < cfg.2.2.n)
    (hsym : ∀ c j k, G c (-1) j k = sgn (oddPEC .E c 0) (G c (partner .E c 0) j k)) :
    fullE cfg false w G c 0 j k = interpE false (fullW w) (fun c p q r => G c (p - 1) (q - 1) (r - 1)) c 0 j k := by
  unfold fullE
  apply interpE_congr <;> try rfl
  intro c a b d ha hb hd
  rcases ha with rfl | rfl
  · have e : (0 : Int) + 0 - 1 = -1 := by norm_num
    rw [e, C15_mirror_halo cfg .E c (G c) _ _ hs hn (by omega) (by omega), hsym]
  · rw [C15_halo_inside] <;> omega

/-- the symmetry hypothesis is satisfiable by a non-zero field: Ex even and constant, Ey/Ez odd and linear in i -/
example : ∃ G : Nat → F3 ℚ, (∀ c j k, G c (-1) j k = sgn (oddPEC .E c 0) (G c (partner .E c 0) j k)) ∧ G 1 1 0 0 ≠ 0 := by
  refine ⟨fun c i _ _ => if c = 0 then 1 else (i : ℚ), ?_, by norm_num⟩
  intro c j k
  by_cases hc : c = 0
  · subst hc; simp [oddPEC, partner, onPlane, sgn]
  · simp [oddPEC, partner, onPlane, sgn, hc]

end stencil

end Fdtdx.C15
