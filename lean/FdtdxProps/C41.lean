/-
C41 — Wave descriptions and temporal profiles are self-consistent.

Theorems about `FdtdxModel/C41.lean` over an arbitrary (linearly ordered) field; the transcendental functions are
abstract with exactly the hypotheses used, and instantiated with `Real.cos` / `Real.exp` at the end.

  C41_wave_valid_iff          a description is accepted iff exactly one of period / wavelength / frequency is given
  C41_period_mul_frequency    period · frequency = 1, whichever one was given (non-zero, c ≠ 0)
  C41_wavelength_eq           wavelength = c · period, whichever one was given
  C41_wave_given              the given quantity is returned unchanged
  C41_ramp_range / C41_ramp_before / C41_ramp_inside / C41_ramp_after / C41_ramp_mono
                              the CW ramp is 0 up to t = 0, t/D on [0, D], 1 afterwards, monotone, within [0,1]
  C41_cw_bound                |SingleFrequencyProfile amplitude| ≤ 1 for all inputs (even a zero ramp duration, in the field)
  C41_cw_zero_before_start, C41_cw_after_ramp   amplitude 0 for t ≤ 0 and = carrier after the ramp
  C41_envelope_range, C41_envelope_peak        0 < Gaussian envelope ≤ 1, = 1 at its centre
  C41_gauss_bound             |GaussianPulseProfile amplitude| ≤ envelope ≤ 1
  C41_custom_at_sample        custom signal returns sample k at t = start + k·dt (0 ≤ k < n)
  C41_custom_linear           and (1-f)·s[k] + f·s[k+1] at t = start + (k+f)·dt, 0 ≤ f < 1, k+1 < n  (linear mode)
  C41_custom_outside          `outside_value` before the first and from n·dt after the start
  C41_cw_bound_real / C41_gauss_bound_real   the two bounds for `Real.cos`, `Real.exp`
-/
import FdtdxModel.C41
import Mathlib.Tactic.Ring
import Mathlib.Tactic.FieldSimp
import Mathlib.Tactic.Linarith
import Mathlib.Algebra.Order.Field.Basic
import Mathlib.Algebra.Order.Floor.Ring
import Mathlib.Analysis.Complex.Trigonometric
import Mathlib.Analysis.Complex.Exponential

namespace Fdtdx.C41

/-! ### WaveCharacter -/
section wave
variable {K : Type} [Field K]

theorem C41_wave_valid_iff (w : Wave K) :
    w.valid = true ↔
      (w.period.isSome ∧ w.wavelength.isNone ∧ w.frequency.isNone) ∨
      (w.period.isNone ∧ w.wavelength.isSome ∧ w.frequency.isNone) ∨
      (w.period.isNone ∧ w.wavelength.isNone ∧ w.frequency.isSome) := by
  obtain ⟨p, l, f⟩ := w
  cases p <;> cases l <;> cases f <;> simp [Wave.valid]

/-- the three valid descriptions -/
inductive Given (K : Type) where
  | period (x : K) | wavelength (x : K) | frequency (x : K)

def Given.wave : Given K → Wave K
  | .period x => ⟨some x, none, none⟩
  | .wavelength x => ⟨none, some x, none⟩
  | .frequency x => ⟨none, none, some x⟩

def Given.value : Given K → K
  | .period x => x | .wavelength x => x | .frequency x => x

theorem given_valid (g : Given K) : g.wave.valid = true := by cases g <;> rfl

/-- C41_period_mul_frequency: period · frequency = 1 whichever quantity was given. -/
theorem C41_period_mul_frequency (c : K) (hc : c ≠ 0) (g : Given K) (hx : g.value ≠ 0) :
    ∃ p f, getPeriod c g.wave = some p ∧ getFrequency c g.wave = some f ∧ p * f = 1 := by
  cases g with
  | period x => exact ⟨x, 1 / x, rfl, rfl, by simp only [Given.value] at hx; field_simp⟩
  | wavelength x => exact ⟨x / c, c / x, rfl, rfl, by simp only [Given.value] at hx; field_simp⟩
  | frequency x => exact ⟨1 / x, x, rfl, rfl, by simp only [Given.value] at hx; field_simp⟩

/-- C41_wavelength_eq: free-space wavelength = c · period whichever quantity was given. -/
theorem C41_wavelength_eq (c : K) (hc : c ≠ 0) (g : Given K) (hx : g.value ≠ 0) :
    ∃ p l, getPeriod c g.wave = some p ∧ getWavelength c g.wave = some l ∧ l = c * p := by
  cases g with
  | period x => exact ⟨x, x * c, rfl, rfl, by ring⟩
  | wavelength x => exact ⟨x / c, x, rfl, rfl, by field_simp⟩
  | frequency x => exact ⟨1 / x, c / x, rfl, rfl, by simp only [Given.value] at hx; field_simp⟩

/-- C41_wave_given: the quantity that was given is returned as is. -/
theorem C41_wave_given (c x : K) :
    getPeriod c (Given.period x).wave = some x ∧ getWavelength c (Given.wavelength x).wave = some x ∧
    getFrequency c (Given.frequency x).wave = some x := ⟨rfl, rfl, rfl⟩

example : (Given.wavelength (3 / 2 : ℚ)).value ≠ 0 ∧ ((Given.wavelength (3 / 2 : ℚ)).wave).valid = true := by
  constructor
  · norm_num [Given.value]
  · rfl

end wave

/-! ### ramp, CW profile, Gaussian pulse -/
section profiles
variable {K : Type} [Field K] [LinearOrder K] [IsStrictOrderedRing K]

theorem clip01 (x : K) : clip x 0 1 = min (max x 0) 1 := by
  unfold clip
  by_cases h : x < 0
  · simp only [h, if_true]
    rw [max_eq_right (le_of_lt h), if_neg (by norm_num), min_eq_left (by norm_num)]
  · simp only [h, if_false]
    rw [max_eq_left (not_lt.mp h)]
    by_cases h1 : (1 : K) < x
    · rw [if_pos h1, min_eq_right (le_of_lt h1)]
    · rw [if_neg h1, min_eq_left (not_lt.mp h1)]

/-- C41_ramp_range: the ramp factor lies in [0, 1] for every time and every duration (also 0 or negative). -/
theorem C41_ramp_range (t d : K) : 0 ≤ rampup t d ∧ rampup t d ≤ 1 := by
  unfold rampup
  rw [clip01]
  exact ⟨le_min (le_max_right _ _) zero_le_one, min_le_right _ _⟩

/-- C41_ramp_before: nothing is emitted up to t = 0. -/
theorem C41_ramp_before (t d : K) (hd : 0 < d) (ht : t ≤ 0) : rampup t d = 0 := by
  unfold rampup
  rw [clip01]
  have : t / d ≤ 0 := div_nonpos_of_nonpos_of_nonneg ht (le_of_lt hd)
  rw [max_eq_right this, min_eq_left zero_le_one]

/-- C41_ramp_inside: linear on [0, D]. -/
theorem C41_ramp_inside (t d : K) (hd : 0 < d) (h0 : 0 ≤ t) (h1 : t ≤ d) : rampup t d = t / d := by
  unfold rampup
  rw [clip01]
  have a : 0 ≤ t / d := div_nonneg h0 (le_of_lt hd)
  have b : t / d ≤ 1 := (div_le_one hd).mpr h1
  rw [max_eq_left a, min_eq_left b]

/-- C41_ramp_after: full amplitude from t = D on. -/
theorem C41_ramp_after (t d : K) (hd : 0 < d) (h1 : d ≤ t) : rampup t d = 1 := by
  unfold rampup
  rw [clip01]
  have b : 1 ≤ t / d := (one_le_div hd).mpr h1
  rw [max_eq_left (le_trans zero_le_one b), min_eq_right b]

/-- C41_ramp_mono: the ramp never decreases in time. -/
theorem C41_ramp_mono (s t d : K) (hd : 0 < d) (hst : s ≤ t) : rampup s d ≤ rampup t d := by
  unfold rampup
  rw [clip01, clip01]
  have : s / d ≤ t / d := div_le_div_of_nonneg_right hst (le_of_lt hd)
  exact min_le_min (max_le_max this le_rfl) le_rfl

/-- C41_cw_bound: |ramp · carrier| ≤ 1 whenever the carrier is bounded by 1. -/
theorem C41_cw_bound (cosf : K → K) (hcos : ∀ x, |cosf x| ≤ 1) (twoPi ns sp period phase t : K) :
    |cwAmplitude cosf twoPi ns sp period phase t| ≤ 1 := by
  unfold cwAmplitude
  obtain ⟨h0, h1⟩ := C41_ramp_range t (ns * period)
  rw [abs_mul, abs_of_nonneg h0]
  calc rampup t (ns * period) * |cosf _| ≤ 1 * 1 := mul_le_mul h1 (hcos _) (abs_nonneg _) zero_le_one
    _ = 1 := one_mul 1

theorem C41_cw_zero_before_start (cosf : K → K) (twoPi ns sp period phase t : K) (hd : 0 < ns * period) (ht : t ≤ 0) :
    cwAmplitude cosf twoPi ns sp period phase t = 0 := by
  unfold cwAmplitude
  rw [C41_ramp_before t _ hd ht, zero_mul]

theorem C41_cw_after_ramp (cosf : K → K) (twoPi ns sp period phase t : K) (hd : 0 < ns * period) (ht : ns * period ≤ t) :
    cwAmplitude cosf twoPi ns sp period phase t = cosf (twoPi * t / period + phase + sp) := by
  unfold cwAmplitude
  rw [C41_ramp_after t _ hd ht, one_mul]

/-- the exponent of the Gaussian envelope is never positive (for any sigma, also 0) -/
theorem envelope_arg_nonpos (t center sigma : K) : -((t - center) * (t - center)) / (2 * (sigma * sigma)) ≤ 0 := by
  apply div_nonpos_of_nonpos_of_nonneg
  · exact neg_nonpos.mpr (mul_self_nonneg _)
  · exact mul_nonneg zero_le_two (mul_self_nonneg _)

/-- C41_envelope_range: 0 < envelope ≤ 1. -/
theorem C41_envelope_range (expf : K → K) (hpos : ∀ x, 0 < expf x) (hle : ∀ x, x ≤ 0 → expf x ≤ 1) (t center sigma : K) :
    0 < gaussEnvelope expf 2 t center sigma ∧ gaussEnvelope expf 2 t center sigma ≤ 1 :=
  ⟨hpos _, hle _ (envelope_arg_nonpos t center sigma)⟩

/-- C41_envelope_peak: the envelope is 1 at its centre. -/
theorem C41_envelope_peak (expf : K → K) (h0 : expf 0 = 1) (center sigma : K) :
    gaussEnvelope expf 2 center center sigma = 1 := by
  unfold gaussEnvelope
  rw [sub_self, mul_zero, neg_zero, zero_div, h0]

/-- C41_gauss_bound: |envelope · carrier| ≤ envelope ≤ 1. -/
theorem C41_gauss_bound (cosf expf : K → K) (hcos : ∀ x, |cosf x| ≤ 1) (hpos : ∀ x, 0 < expf x)
    (hle : ∀ x, x ≤ 0 → expf x ≤ 1) (twoPi sw fc cp phase t : K) :
    |gaussAmplitude cosf expf 2 6 twoPi sw fc cp phase t| ≤
        gaussEnvelope expf 2 t (6 * (1 / (twoPi * sw))) (1 / (twoPi * sw)) ∧
    |gaussAmplitude cosf expf 2 6 twoPi sw fc cp phase t| ≤ 1 := by
  unfold gaussAmplitude
  simp only
  obtain ⟨h0, h1⟩ := C41_envelope_range expf hpos hle t (6 * (1 / (twoPi * sw))) (1 / (twoPi * sw))
  rw [abs_mul, abs_of_pos h0]
  have hb : gaussEnvelope expf 2 t (6 * (1 / (twoPi * sw))) (1 / (twoPi * sw)) * |cosf (twoPi * fc * t + phase + cp)| ≤
      gaussEnvelope expf 2 t (6 * (1 / (twoPi * sw))) (1 / (twoPi * sw)) := by
    calc _ ≤ gaussEnvelope expf 2 t (6 * (1 / (twoPi * sw))) (1 / (twoPi * sw)) * 1 :=
          mul_le_mul_of_nonneg_left (hcos _) (le_of_lt h0)
      _ = _ := mul_one _
  exact ⟨hb, le_trans hb h1⟩

end profiles

/-! ### custom sampled signal -/
section custom
variable {K : Type} [Field K] [LinearOrder K] [IsStrictOrderedRing K] [FloorRing K]

/-- value of the model at a time whose fractional sample index is `k + f`, `0 ≤ k < n`, `0 ≤ f < 1` (linear mode) -/
theorem custom_eval (signal : List K) (start dt outside : K) (hdt : dt ≠ 0) (k : Nat) (hk : k < signal.length)
    (f : K) (hf0 : 0 ≤ f) (hf1 : f < 1) :
    customAmplitude Int.floor (fun z : Int => (z : K)) (1 / 2) signal start dt outside 0 (start + ((k : K) + f) * dt) =
      (1 - f) * signal.getD k 0 + f * signal.getD (min (k + 1) (signal.length - 1)) 0 := by
  have hidx : (start + ((k : K) + f) * dt - start) / dt = (k : K) + f := by field_simp; ring
  have hfl : Int.floor ((k : K) + f) = (k : Int) := by
    rw [Int.floor_eq_iff]
    constructor
    · push_cast; linarith
    · push_cast; linarith
  unfold customAmplitude
  simp only [hidx, hfl]
  have h1 : (0 : Int) ≤ (k : Int) := Int.natCast_nonneg k
  have h2 : (k : Int) < (signal.length : Int) := by exact_mod_cast hk
  have hi0 : (if (k : Int) < 0 then (0 : Int) else if (signal.length : Int) - 1 < k then (signal.length : Int) - 1 else k) = k := by
    rw [if_neg (by omega), if_neg (by omega)]
  simp only [hi0, h1, h2, decide_true, Bool.and_self, if_true, Int.toNat_natCast]
  have hfrac : (k : K) + f - ((k : Int) : K) = f := by push_cast; ring
  rw [hfrac]
  have hi1 : (if (signal.length : Int) - 1 < (k : Int) + 1 then (signal.length : Int) - 1 else (k : Int) + 1).toNat =
      min (k + 1) (signal.length - 1) := by
    split <;> omega
  rw [hi1]
  simp

/-- C41_custom_at_sample: at its sample times the profile returns the stored samples exactly. -/
theorem C41_custom_at_sample (signal : List K) (start dt outside : K) (hdt : dt ≠ 0) (k : Nat) (hk : k < signal.length) :
    customAmplitude Int.floor (fun z : Int => (z : K)) (1 / 2) signal start dt outside 0 (start + (k : K) * dt) =
      signal.getD k 0 := by
  have := custom_eval signal start dt outside hdt k hk 0 le_rfl zero_lt_one
  simp only [add_zero, sub_zero, one_mul, zero_mul] at this
  exact this

/-- C41_custom_linear: between two neighbouring samples the profile is their linear interpolant. -/
theorem C41_custom_linear (signal : List K) (start dt outside : K) (hdt : dt ≠ 0) (k : Nat) (hk : k + 1 < signal.length)
    (f : K) (hf0 : 0 ≤ f) (hf1 : f < 1) :
    customAmplitude Int.floor (fun z : Int => (z : K)) (1 / 2) signal start dt outside 0 (start + ((k : K) + f) * dt) =
      signal.getD k 0 + f * (signal.getD (k + 1) 0 - signal.getD k 0) := by
  rw [custom_eval signal start dt outside hdt k (by omega) f hf0 hf1]
  have : min (k + 1) (signal.length - 1) = k + 1 := by omega
  rw [this]; ring

/-- C41_custom_outside: outside the sampled window `[start, start + n·dt)` the profile returns `outside_value`. -/
theorem C41_custom_outside (signal : List K) (start dt outside : K) (hdt : 0 < dt) (interp : Nat) (t : K)
    (ht : t < start ∨ start + (signal.length : K) * dt ≤ t) :
    customAmplitude Int.floor (fun z : Int => (z : K)) (1 / 2) signal start dt outside interp t = outside := by
  unfold customAmplitude
  simp only
  have hv : (decide (0 ≤ Int.floor ((t - start) / dt)) && decide (Int.floor ((t - start) / dt) < (signal.length : Int))) = false := by
    rcases ht with h | h
    · have : (t - start) / dt < 0 := div_neg_of_neg_of_pos (by linarith) hdt
      have : Int.floor ((t - start) / dt) < 0 := by
        rw [Int.floor_lt]; exact_mod_cast this
      simp; omega
    · have : (signal.length : K) ≤ (t - start) / dt := by
        rw [le_div_iff₀ hdt]; linarith
      have : (signal.length : Int) ≤ Int.floor ((t - start) / dt) := by
        rw [Int.le_floor]; exact_mod_cast this
      simp; omega
  rw [hv]; simp

example : customAmplitude Int.floor (fun z : Int => (z : ℚ)) (1 / 2) [1, 3, 2] 0 (1 / 2) 0 0 (3 / 4) = 5 / 2 := by
  have := C41_custom_linear ([1, 3, 2] : List ℚ) 0 (1 / 2) 0 (by norm_num) 1 (by simp) (1 / 2) (by norm_num) (by norm_num)
  norm_num at this ⊢
  convert this using 2

end custom

/-! ### instantiation with the real cosine and exponential -/

theorem C41_cw_bound_real (twoPi ns sp period phase t : ℝ) :
    |cwAmplitude Real.cos twoPi ns sp period phase t| ≤ 1 :=
  C41_cw_bound Real.cos Real.abs_cos_le_one twoPi ns sp period phase t

theorem C41_gauss_bound_real (twoPi sw fc cp phase t : ℝ) :
    |gaussAmplitude Real.cos Real.exp 2 6 twoPi sw fc cp phase t| ≤ 1 :=
  (C41_gauss_bound Real.cos Real.exp Real.abs_cos_le_one Real.exp_pos (fun _ h => Real.exp_le_one_iff.mpr h)
    twoPi sw fc cp phase t).2

theorem C41_envelope_range_real (t center sigma : ℝ) :
    0 < gaussEnvelope Real.exp 2 t center sigma ∧ gaussEnvelope Real.exp 2 t center sigma ≤ 1 :=
  C41_envelope_range Real.exp Real.exp_pos (fun _ h => Real.exp_le_one_iff.mpr h) t center sigma

end Fdtdx.C41
