/-
C04 (instantiation, full-tensor tier) — the abstract gradient-equality theorems of `FdtdxProps/C04.lean` for the any-tier
Yee step of `FdtdxModel/YeeAniso.lean` (no absorbing layers).

`anisoSys` — state = `(E, H)`, parameters = the material arrays `MatA K` of ANY tier (scalar / 1 / 3 / 9 leading components;
in particular a full, not necessarily symmetric 3×3 inverse permittivity and / or inverse permeability tensor per cell),
forward step = `YeeAniso.forwardA` (uniform or spacing-weighted neighbour averages `aw`) with the additive source terms
`jE t m`, `jH t m` of step `t`, reverse step = `YeeAniso.backwardA` with the same terms.  The invertibility hypothesis of
the abstract theorem is DISCHARGED for lossless materials (σ_E = σ_H = none) by `C02_aniso_lossless_roundtrip`
(walls preserved by `forwardA_walls`):

  C04Aniso_vjp_equal / C04Aniso_end_to_end   for every grid shape, halo mix (zero / periodic / Bloch multipliers), PEC / PMC
      walls, metric, averaging widths, lossless materials of any tier, every source family, every number of steps T, every
      number of slices k ≥ 1 / every valid checkpoint list, every per-step reverse-mode rule and every incoming cotangent,
      the time-reversed accumulation equals the stored-trajectory accumulation.  No invertibility hypothesis is left.
  C04Aniso_reconstruction                    the reverse loop ends in the initial state (= `C02_aniso_lossless_roundtrip_steps`).

Scope.  (1) PML-free: the known finding of C04 about a full inverse-permittivity tensor next to absorbing layers concerns the
CPML step and is outside this instantiation.  (2) LOSSY full tensors are excluded on purpose: the reverse step is then not
an inverse (`C02.aniso_lossy_roundtrip_fails`); what it does reconstruct is stated in `C02.aniso_lossy_reconstructs_local`
(FdtdxProps/C02AnisoLossy.lean).  (3) As in `C04Yee`, the rule is ANY family of functions of step index, state and
materials; it is not constructed as the transpose of `forwardA`.
-/
import FdtdxProps.C04
import FdtdxProps.C02Aniso

namespace Fdtdx.C04Aniso
open Fdtdx Fdtdx.Yee Fdtdx.YeeAniso Fdtdx.C01 Fdtdx.C02 Fdtdx.C04

section
variable {K : Type} [Field K] {CS CP : Type}

/-- reverse-mode data of one any-tier time step (cf. `C04Yee.Rule`; the parameters are `MatA K`) -/
structure RuleA (K : Type) (CS CP : Type) where
  aT : Nat → V3 K × V3 K → MatA K → CS → CS
  bT : Nat → V3 K × V3 K → MatA K → CS → CP
  add : CP → CP → CP

/-- the abstract system of `FdtdxModel/C04.lean` instantiated with the any-tier Yee step -/
def anisoSys (cf : Cfg K) (aw : Option (AW K)) (jE jH : Nat → MatA K → V3 K) (r : RuleA K CS CP) :
    Sys (V3 K × V3 K) (V3 K × V3 K) (MatA K) CS CP :=
  { f := fun t s m => forwardA cf aw m (jE t.toNat m) (jH t.toNat m) s.1 s.2
    g := fun t s m => backwardA cf aw m (jE t.toNat m) (jH t.toNat m) s.1 s.2
    vjpS := fun t s m c => r.aT t.toNat s m c
    vjpP := fun t s m c => r.bT t.toNat s m c
    addP := r.add
    getF := fun s => s
    setF := fun _ f => f }

/-- the trajectory of `anisoSys` is C02Aniso's `fwdNA` from step 0 -/
theorem aniso_traj (cf : Cfg K) (aw : Option (AW K)) (jE jH : Nat → MatA K → V3 K) (r : RuleA K CS CP) (m : MatA K)
    (s0 : V3 K × V3 K) (n : Nat) :
    traj (anisoSys cf aw jE jH r) m s0 n = fwdNA cf aw m (fun t => jE t m) (fun t => jH t m) 0 n s0 := by
  induction n with
  | zero => rfl
  | succ n ih => simp [traj, fwdNA, anisoSys, ← ih]

theorem aniso_traj_walls (cf : Cfg K) (aw : Option (AW K)) (jE jH : Nat → MatA K → V3 K) (r : RuleA K CS CP) (m : MatA K)
    (s0 : V3 K × V3 K) (hw : WallOK cf s0.1 s0.2) (n : Nat) :
    WallOK cf (traj (anisoSys cf aw jE jH r) m s0 n).1 (traj (anisoSys cf aw jE jH r) m s0 n).2 := by
  rw [aniso_traj]
  exact fwdNA_walls cf aw m _ _ 0 n s0.1 s0.2 hw

/-- the hypotheses of the abstract theorem hold for the lossless any-tier step: exact reconstruction along the run -/
theorem aniso_hyp (cf : Cfg K) (aw : Option (AW K)) (jE jH : Nat → MatA K → V3 K) (r : RuleA K CS CP) (m : MatA K)
    (s0 : V3 K × V3 K) (hE : m.sigE = none) (hH : m.sigH = none) (hw : WallOK cf s0.1 s0.2) (T : Nat) :
    HypTraj (anisoSys cf aw jE jH r) m s0 T (fun a b => a = b) (fun c : CP => c) r.add :=
  { vjpS_agree := fun _ _ _ _ e => by rw [e]
    vjpP_agree := fun _ _ _ _ e => by rw [e]
    g_agree := fun n _ ŝ e => by
      rw [e]
      have hwn := aniso_traj_walls cf aw jE jH r m s0 hw n
      have := C02_aniso_lossless_roundtrip cf aw m (jE n m) (jH n m) _ _ hE hH hwn
      simpa [traj, anisoSys] using this
    setF_agree := fun _ _ _ _ => rfl
    π_add := fun _ _ => rfl }

/-- **C04Aniso_vjp_equal** — reverse loop of `fdtd_bwd` over the lossless any-tier step, any valid checkpoint list. -/
theorem C04Aniso_vjp_equal (cf : Cfg K) (aw : Option (AW K)) (jE jH : Nat → MatA K → V3 K) (r : RuleA K CS CP) (m : MatA K)
    (s0 : V3 K × V3 K) (hE : m.sigE = none) (hH : m.sigH = none) (hw : WallOK cf s0.1 s0.2) (T : Nat)
    (cks : List (Int × (V3 K × V3 K))) (hck : CksOK (anisoSys cf aw jE jH r) m s0 cks) (cs : CS) (cp0 : CP) :
    (fdtdBwd (anisoSys cf aw jE jH r) m cks (initCarry T (traj (anisoSys cf aw jE jH r) m s0 T) cs cp0)).cp
      = gradExact (anisoSys cf aw jE jH r) m s0 T cs cp0 :=
  C04_vjp_equal_traj (aniso_hyp cf aw jE jH r m s0 hE hH hw T) cks hck _ rfl cs cp0

/-- **C04Aniso_end_to_end** — for every configuration, every lossless material of any tier (full 3×3 tensors included),
every source family, every `T`, every number of slices `k ≥ 1`, every rule and every incoming cotangent: the gradient
accumulated by the time-reversed method equals the gradient accumulated over the stored forward trajectory. -/
theorem C04Aniso_end_to_end (cf : Cfg K) (aw : Option (AW K)) (jE jH : Nat → MatA K → V3 K) (r : RuleA K CS CP) (m : MatA K)
    (s0 : V3 K × V3 K) (hE : m.sigE = none) (hH : m.sigH = none) (hw : WallOK cf s0.1 s0.2) (T k : Nat) (hk : 1 ≤ k)
    (cs : CS) (cp0 : CP) :
    gradReversible (anisoSys cf aw jE jH r) m s0 T k cs cp0 = gradExact (anisoSys cf aw jE jH r) m s0 T cs cp0 :=
  C04_end_to_end_traj (aniso_hyp cf aw jE jH r m s0 hE hH hw T) rfl k hk cs cp0

/-- **C04Aniso_reconstruction** — the state the reverse loop ends with is the initial state; the n-step identity is
`C02_aniso_lossless_roundtrip_steps`. -/
theorem C04Aniso_reconstruction (cf : Cfg K) (aw : Option (AW K)) (jE jH : Nat → MatA K → V3 K) (r : RuleA K CS CP)
    (m : MatA K) (s0 : V3 K × V3 K) (hE : m.sigE = none) (hH : m.sigH = none) (hw : WallOK cf s0.1 s0.2) (T : Nat)
    (cks : List (Int × (V3 K × V3 K))) (hck : CksOK (anisoSys cf aw jE jH r) m s0 cks) (cs : CS) (cp0 : CP) :
    (fdtdBwd (anisoSys cf aw jE jH r) m cks (initCarry T (traj (anisoSys cf aw jE jH r) m s0 T) cs cp0)).s = s0 ∧
    bwdNA cf aw m (fun t => jE t m) (fun t => jH t m) 0 T (traj (anisoSys cf aw jE jH r) m s0 T) = s0 := by
  constructor
  · have := loop_invariant_traj (aniso_hyp cf aw jE jH r m s0 hE hH hw T) cks hck T ((T : Int) + 2).toNat
      (initCarry T (traj (anisoSys cf aw jE jH r) m s0 T) cs cp0) (cs, cp0) le_rfl (by omega) rfl rfl rfl rfl
    exact this.2.2.2
  · rw [aniso_traj]
    exact C02_aniso_lossless_roundtrip_steps cf aw m _ _ 0 T s0.1 s0.2 hE hH hw

end

/-! ### non-vacuity: C01's 2×3×2 domain (periodic x, PEC y) with the full non-symmetric tensor `exMatA` of C02Aniso -/

/-- probe rule: the sensitivity of `E'_x(1,1,1)` to the xz entry of the inverse-permittivity tensor at that cell,
c · avg(curl_H(H)_z at the x location) — it reads the AVERAGED curl of the current H, so it matters at which state it is
evaluated -/
def exRuleA : RuleA ℚ ℚ ℚ :=
  { aT := fun _ _ _ c => c
    bT := fun _ s _ c => c * exCfg.c * avgE exCfg none 2 0 (curlH exCfg s.2).z 1 1 1
    add := fun a b => a + b }

def exSrcEA : Nat → MatA ℚ → V3 ℚ := fun t m => ⟨fun i j k => (t + 1) * (m.invEps.expand i j k).xy, fun _ _ _ => 0, fun _ _ _ => 0⟩
def exSrcHA : Nat → MatA ℚ → V3 ℚ := fun _ _ => constV 0

theorem exWallA : WallOK exCfg exE exH := by
  constructor <;> intro i j k h <;> first | simp [exE, projE, maskV, h] | (simp [pmcMask, exCfg, exBC, onWall] at h)

/-- the material is a genuine full tensor (update_E takes the 9-component branch) and lossless -/
example : exMatA.fullE = true ∧ exMatA.sigE = none ∧ exMatA.sigH = none := by decide

/-- the probe rule is state dependent -/
example : exRuleA.bT 0 (exE, exH) exMatA 1 ≠ exRuleA.bT 0 (exE, constV 0) exMatA 1 := by
  decide +kernel

/-- the theorem applied: all `T`, all `k ≥ 1`, all cotangents, on the concrete full-tensor configuration -/
example (T k : Nat) (hk : 1 ≤ k) (cs cp0 : ℚ) :
    gradReversible (anisoSys exCfg none exSrcEA exSrcHA exRuleA) exMatA (exE, exH) T k cs cp0
      = gradExact (anisoSys exCfg none exSrcEA exSrcHA exRuleA) exMatA (exE, exH) T cs cp0 :=
  C04Aniso_end_to_end exCfg none exSrcEA exSrcHA exRuleA exMatA (exE, exH) rfl rfl exWallA T k hk cs cp0

end Fdtdx.C04Aniso
