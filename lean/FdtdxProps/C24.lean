/-
C24 — Median filter and pillar discretization match their definitions.

Property theorems about `FdtdxModel/C24.lean` (all array shapes, kernel sizes, padding configs, material counts,
column heights — no bound):

  C24_round_is_threshold     round-half-even(s / K) = [2·s > K] for 0 ≤ s ≤ K (ties 2·s = K go to 0; none exist for odd K)
  C24_odd_no_tie             for odd K there is no tie
  C24_median_is_box_majority every output voxel of `binary_median_filter` = [2 · (number of ones in its kx×ky×kz box of
                             the padded array, zero beyond it) > kx·ky·kz]; the three separable passes with
                             materialisation in between equal one box sum
  C24_padded_dims / C24_voxel_inside   with six edges the padded shape is shape + widths and the shifted voxel is inside
  C24_majority_odd           for an odd volume this is "ones outnumber the other cells of the box"
  C24_argmin_spec            `argmin` returns the FIRST index of a minimal distance (any linear order)
  C24_nearest_minimises      the chosen column is one of the allowed columns and no allowed column is closer in the
                             configured distance
  C24_product_spec           `itertools.product(vals, repeat=n)` = all lists of length n over vals
  C24_enumCols_sound_complete        (multi-material columns) enumerated ⇔ a block of one fill index on top of
                             non-fill materials
  C24_enumCols_single_sound_complete (single_polymer_columns) … and the part below the fill block uses one material
-/
import FdtdxLemmas.C24Basic

namespace Fdtdx.C24

/-! ### rounding -/

theorem C24_round_is_threshold (s K : Nat) (hK : 0 < K) (hs : s ≤ K) :
    roundHE s K = if K < 2 * s then 1 else 0 := by
  unfold roundHE
  rcases Nat.lt_or_ge s K with h | h
  · have hq : s / K = 0 := Nat.div_eq_of_lt h
    have hr : s % K = s := Nat.mod_eq_of_lt h
    simp only [hq, hr]
    by_cases h1 : 2 * s < K
    · simp [h1]; omega
    · by_cases h2 : K < 2 * s
      · simp [h1, h2]
      · simp [h1, h2]
  · have : s = K := by omega
    subst this
    simp [Nat.div_self hK, hK]

theorem C24_odd_no_tie (s K : Nat) (hodd : K % 2 = 1) : 2 * s ≠ K := by omega

/-! ### median filter = box majority -/

/-- 0/1 indicator of the padded array, zero outside it -/
def ind (pd : Dims) (p : Tab Bool) (x y z : Nat) : Nat := if inb pd x y z && look false p x y z then 1 else 0

/-- number of ones in the box of voxel (i,j,k) (coordinates of the padded array): the window along an axis with
kernel size k = 2h+1 is i-h … i+h; for even k = 2h it is i-h … i+h-1, as `convolve(mode="same")` does -/
def boxOnes (pd : Dims) (p : Tab Bool) (c : MedCfg) (i j k : Nat) : Nat := boxSum (ind pd p) c.kx c.ky c.kz i j k

theorem boxOnes_le (pd : Dims) (p : Tab Bool) (c : MedCfg) (i j k : Nat) : boxOnes pd p c i j k ≤ c.kx * c.ky * c.kz := by
  apply boxSum_le
  intro a b cc; unfold ind; split <;> simp

theorem look_boxCounts (pd : Dims) (p : Tab Bool) (c : MedCfg) (i j k : Nat) :
    look 0 (boxCounts pd p c) i j k = if inb pd i j k = true then boxOnes pd p c i j k else 0 := by
  unfold boxCounts
  by_cases hin : inb pd i j k = true
  · simp only [hin, if_true]
    rw [look_passes pd c.kx c.ky c.kz _ i j k hin (fun ii jj kk h => look_oob 0 pd _ ii jj kk h)]
    unfold boxOnes
    congr 1
    funext x y z
    rw [look_tab]; unfold ind
    by_cases hx : inb pd x y z = true <;> simp [hx]
  · simp only [hin]
    unfold passZ
    exact look_oob 0 pd _ i j k (by simpa using hin)

/-- **binary_median_filter = box majority under the padding model**: with `(pd, p)` the padded array, every output
voxel is 1 exactly when more than half of the kx·ky·kz cells of its box hold a one (cells beyond the padded array
count as zero). -/
theorem C24_median_is_box_majority (d : Dims) (a : Tab Bool) (c : MedCfg) (hK : 0 < c.kx * c.ky * c.kz) (i j k : Nat) :
    look false (median d a c) i j k =
      (inb d i j k && (inb (padded d a c).1 (i + lowW c 0) (j + lowW c 1) (k + lowW c 2) &&
        decide (c.kx * c.ky * c.kz <
          2 * boxOnes (padded d a c).1 (padded d a c).2 c (i + lowW c 0) (j + lowW c 1) (k + lowW c 2)))) := by
  unfold median
  generalize padded d a c = pp
  obtain ⟨pd, p⟩ := pp
  simp only []
  rw [look_tab]
  by_cases hin : inb d i j k = true
  · simp only [hin, if_true, Bool.true_and]
    rw [look_boxCounts]
    by_cases hp : inb pd (i + lowW c 0) (j + lowW c 1) (k + lowW c 2) = true
    · simp only [hp, if_true, Bool.true_and]
      rw [C24_round_is_threshold _ _ hK (boxOnes_le pd p c _ _ _)]
      by_cases h : c.kx * c.ky * c.kz < 2 * boxOnes pd p c (i + lowW c 0) (j + lowW c 1) (k + lowW c 2) <;> simp [h]
    · simp only [hp]
      simp [roundHE, Nat.zero_div, hK]
  · simp [hin]

/-- for an odd kernel volume "more than half" is "ones outnumber all other cells of the box" and its negation is
"the others outnumber the ones": a strict majority always exists -/
theorem C24_majority_odd (K n : Nat) (hodd : K % 2 = 1) (hn : n ≤ K) :
    (K < 2 * n ↔ K - n < n) ∧ (¬ K < 2 * n ↔ n < K - n) := by
  constructor <;> constructor <;> intro h <;> omega

/-! ### the padded array always contains the shifted voxel -/

theorem C24_padded_dims (d : Dims) (a : Tab Bool) (kx ky kz : Nat) (e0 e1 e2 e3 e4 e5 : Edge) :
    (padded d a ⟨kx, ky, kz, [e0, e1, e2, e3, e4, e5]⟩).1 =
      ⟨d.nx + e0.w + e1.w, d.ny + e2.w + e3.w, d.nz + e4.w + e5.w⟩ := by
  simp [padded, padAll, padEdge, List.zipIdx, Dims.get, Dims.set]

/-- with six edges every voxel of the original array lies inside the padded array at the shifted position, so the
in-bounds conjunct of `C24_median_is_box_majority` is always true -/
theorem C24_voxel_inside (d : Dims) (a : Tab Bool) (kx ky kz : Nat) (e0 e1 e2 e3 e4 e5 : Edge) (i j k : Nat)
    (h : inb d i j k = true) :
    let c : MedCfg := ⟨kx, ky, kz, [e0, e1, e2, e3, e4, e5]⟩
    inb (padded d a c).1 (i + lowW c 0) (j + lowW c 1) (k + lowW c 2) = true := by
  intro c
  rw [C24_padded_dims]
  simp only [inb, Bool.and_eq_true, decide_eq_true_eq] at h ⊢
  simp only [lowW, c, List.getD_cons_zero, Nat.mul_zero, Nat.mul_one]
  refine ⟨⟨by omega, ?_⟩, ?_⟩
  · show j + ([e0, e1, e2, e3, e4, e5].getD 2 ⟨0, .edge⟩).w < _
    simp; omega
  · show k + ([e0, e1, e2, e3, e4, e5].getD 4 ⟨0, .edge⟩).w < _
    simp; omega
/-! ### argmin -/

section argmin
variable {α : Type} [LinearOrder α]

theorem go_spec : ∀ (ys pre : List α) (best : α) (bi : Nat),
    pre[bi]? = some best → (∀ (j : Nat) (v : α), pre[j]? = some v → best ≤ v) → (∀ (j : Nat) (v : α), j < bi → pre[j]? = some v → best < v) →
    ∃ b, (pre ++ ys)[argminFirst.go best bi pre.length ys]? = some b ∧
      (∀ (j : Nat) (v : α), (pre ++ ys)[j]? = some v → b ≤ v) ∧
      (∀ (j : Nat) (v : α), j < argminFirst.go best bi pre.length ys → (pre ++ ys)[j]? = some v → b < v) := by
  intro ys
  induction ys with
  | nil =>
    intro pre best bi h1 h2 h3
    simp only [argminFirst.go, List.append_nil]
    exact ⟨best, h1, h2, h3⟩
  | cons y ys ih =>
    intro pre best bi h1 h2 h3
    have hlen : (pre ++ [y]).length = pre.length + 1 := by simp
    have happ : pre ++ y :: ys = (pre ++ [y]) ++ ys := by simp
    have hbi : bi < pre.length := by
      by_contra hc
      rw [List.getElem?_eq_none (by omega)] at h1; exact absurd h1 (by simp)
    simp only [argminFirst.go]
    by_cases hy : y < best
    · rw [if_pos hy, happ, ← hlen]
      apply ih (pre ++ [y]) y pre.length
      · simp
      · intro j v hj
        rcases Nat.lt_or_ge j pre.length with hlt | hge
        · rw [List.getElem?_append_left hlt] at hj
          exact le_of_lt (lt_of_lt_of_le hy (h2 j v hj))
        · rw [List.getElem?_append_right hge] at hj
          have : j - pre.length = 0 := by
            by_contra hne
            rw [List.getElem?_eq_none (by simp; omega)] at hj; exact absurd hj (by simp)
          rw [this] at hj; simp at hj; rw [hj]
      · intro j v hlt hj
        rw [List.getElem?_append_left hlt] at hj
        exact lt_of_lt_of_le hy (h2 j v hj)
    · rw [if_neg hy, happ, ← hlen]
      apply ih (pre ++ [y]) best bi
      · rw [List.getElem?_append_left hbi]; exact h1
      · intro j v hj
        rcases Nat.lt_or_ge j pre.length with hlt | hge
        · rw [List.getElem?_append_left hlt] at hj; exact h2 j v hj
        · rw [List.getElem?_append_right hge] at hj
          have : j - pre.length = 0 := by
            by_contra hne
            rw [List.getElem?_eq_none (by simp; omega)] at hj; exact absurd hj (by simp)
          rw [this] at hj; simp at hj; rw [← hj]; exact not_lt.mp hy
      · intro j v hlt hj
        rw [List.getElem?_append_left (by omega)] at hj
        exact h3 j v hlt hj

/-- **argmin**: for a non-empty list the index returned holds a minimal entry, and every entry before it is
strictly larger (first minimum, the tie rule of `jnp.argmin`). -/
theorem C24_argmin_spec (l : List α) (hl : l ≠ []) :
    ∃ b, l[argminFirst l]? = some b ∧ (∀ (j : Nat) (v : α), l[j]? = some v → b ≤ v) ∧
      (∀ (j : Nat) (v : α), j < argminFirst l → l[j]? = some v → b < v) := by
  cases l with
  | nil => exact absurd rfl hl
  | cons x xs =>
    have := go_spec xs [x] x 0 (by simp)
      (by intro j v hj; cases j with
          | zero => simp at hj; rw [hj]
          | succ n => simp at hj)
      (by intro j v hj; omega)
    simpa [argminFirst] using this

end argmin

/-- **the chosen column is allowed and closest**: with `dist` any distance of an input column to an allowed column
(the Euclidean one or the permittivity-difference one), the column selected by `nearest_index` + the gather in
`PillarDiscretization.__call__` is a member of the allowed list and no allowed column is strictly closer. -/
theorem C24_nearest_minimises {α : Type} [LinearOrder α] (cols : List (List Nat)) (dist : List Nat → α)
    (hc : cols ≠ []) :
    ∃ col, cols[argminFirst (cols.map dist)]? = some col ∧ col ∈ cols ∧ ∀ c ∈ cols, dist col ≤ dist c := by
  have hne : cols.map dist ≠ [] := by simpa using hc
  obtain ⟨b, hb, hmin, _⟩ := C24_argmin_spec (cols.map dist) hne
  rw [List.getElem?_map] at hb
  cases hcol : cols[argminFirst (cols.map dist)]? with
  | none => rw [hcol] at hb; simp at hb
  | some col =>
    rw [hcol] at hb; simp at hb
    refine ⟨col, rfl, List.mem_of_getElem? hcol, ?_⟩
    intro c hcmem
    obtain ⟨j, hj⟩ := List.getElem?_of_mem hcmem
    have := hmin j (dist c) (by rw [List.getElem?_map, hj]; rfl)
    rw [hb]; exact this

/-! ### allowed columns -/

/-- `itertools.product(vals, repeat = n)` enumerates exactly the lists of length n over vals -/
theorem C24_product_spec (vals : List Nat) : ∀ (n : Nat) (l : List Nat),
    l ∈ product vals n ↔ l.length = n ∧ ∀ x ∈ l, x ∈ vals := by
  intro n
  induction n with
  | zero =>
    intro l
    simp only [product, List.mem_singleton]
    constructor
    · rintro rfl; simp
    · rintro ⟨h, _⟩; exact List.length_eq_zero_iff.mp h
  | succ n ih =>
    intro l
    simp only [product, List.mem_flatMap, List.mem_map]
    constructor
    · rintro ⟨v, hv, rest, hr, rfl⟩
      obtain ⟨h1, h2⟩ := (ih rest).mp hr
      refine ⟨by simp [h1], ?_⟩
      intro x hx
      simp only [List.mem_cons] at hx
      rcases hx with rfl | hx
      · exact hv
      · exact h2 x hx
    · rintro ⟨hl, hm⟩
      cases l with
      | nil => simp at hl
      | cons v rest =>
        refine ⟨v, hm v (by simp), rest, (ih rest).mpr ⟨by simpa using hl, fun x hx => hm x (by simp [hx])⟩, rfl⟩

/-- column predicate: a block of `i` copies of one fill (background) index at the top end (high index) of the
column, below it only materials that are not fill indices -/
def ColOK (L : Nat) (indices fills : List Nat) (col : List Nat) : Prop :=
  ∃ f ∈ fills, ∃ i, i ≤ L ∧ ∃ low : List Nat, low.length = L - i ∧ (∀ x ∈ low, x ∈ indices ∧ x ∉ fills) ∧
    col = low ++ List.replicate i f

/-- … and a single non-background material below the block -/
def ColOKSingle (L : Nat) (indices fills : List Nat) (col : List Nat) : Prop :=
  ∃ f ∈ fills, ∃ i, i ≤ L ∧ ∃ low : List Nat, low.length = L - i ∧ (∀ x ∈ low, x ∈ indices ∧ x ∉ fills) ∧
    (∀ x ∈ low, ∀ y ∈ low, x = y) ∧ col = low ++ List.replicate i f

theorem mem_valid (indices fills : List Nat) (x : Nat) :
    x ∈ indices.filter (fun x => !fills.contains x) ↔ x ∈ indices ∧ x ∉ fills := by
  simp

/-- **multi-material columns: sound and complete** (needs one non-fill material, as `itertools.product` over an
empty list yields nothing) -/
theorem C24_enumCols_sound_complete (L : Nat) (indices fills : List Nat) (hv : ∃ v ∈ indices, v ∉ fills)
    (col : List Nat) : col ∈ enumCols false L indices fills ↔ ColOK L indices fills col := by
  unfold enumCols ColOK
  simp only [Bool.false_and, Bool.false_eq_true, if_false, List.mem_flatMap, List.mem_filterMap, List.mem_range,
    Option.some.injEq]
  constructor
  · rintro ⟨perm, hp, f, hf, i, hi, rfl⟩
    obtain ⟨hl, hm⟩ := (C24_product_spec _ L perm).mp hp
    refine ⟨f, hf, i, by omega, perm.take (L - i), by simp [hl], ?_, rfl⟩
    intro x hx
    exact (mem_valid indices fills x).mp (hm x (List.mem_of_mem_take hx))
  · rintro ⟨f, hf, i, hi, low, hl, hm, rfl⟩
    obtain ⟨v, hv1, hv2⟩ := hv
    refine ⟨low ++ List.replicate i v, ?_, f, hf, i, by omega, ?_⟩
    · apply (C24_product_spec _ L _).mpr
      refine ⟨by simp [hl]; omega, ?_⟩
      intro x hx
      simp only [List.mem_append, List.mem_replicate] at hx
      rcases hx with hx | ⟨_, rfl⟩
      · exact (mem_valid indices fills x).mpr (hm x hx)
      · exact (mem_valid indices fills x).mpr ⟨hv1, hv2⟩
    · rw [← hl, List.take_left']
      rfl

theorem eraseDups_eq_nil (l : List Nat) : l.eraseDups = [] ↔ l = [] := by
  cases l with
  | nil => simp
  | cons a t => simp [List.eraseDups_cons]

theorem distinct_le_one (l : List Nat) : distinctCount l ≤ 1 ↔ ∀ x ∈ l, ∀ y ∈ l, x = y := by
  unfold distinctCount
  cases l with
  | nil => simp
  | cons a t =>
    rw [List.eraseDups_cons]
    have hxa : (∀ z ∈ t, z = a) → ∀ z ∈ a :: t, z = a := by
      intro h z hz
      simp only [List.mem_cons] at hz
      rcases hz with rfl | hz
      · rfl
      · exact h z hz
    constructor
    · intro h
      have h0 : (List.filter (fun b => !b == a) t).eraseDups = [] :=
        List.length_eq_zero_iff.mp (by simp only [List.length_cons] at h; omega)
      rw [eraseDups_eq_nil, List.filter_eq_nil_iff] at h0
      have hall := hxa (fun z hz => by simpa using h0 z hz)
      intro x hx y hy
      rw [hall x hx, hall y hy]
    · intro h
      have : List.filter (fun b => !b == a) t = [] := by
        apply List.filter_eq_nil_iff.mpr
        intro z hz
        have := h z (by simp [hz]) a (by simp)
        simp [this]
      rw [this]; simp

/-- **single_polymer_columns: sound and complete** -/
theorem C24_enumCols_single_sound_complete (L : Nat) (indices fills : List Nat) (hv : ∃ v ∈ indices, v ∉ fills)
    (hf : fills ≠ []) (col : List Nat) :
    col ∈ enumCols true L indices fills ↔ ColOKSingle L indices fills col := by
  unfold enumCols ColOKSingle
  have hemp : fills.isEmpty = false := by cases fills <;> simp at hf ⊢
  simp only [Bool.true_and, hemp, Bool.false_eq_true, if_false, if_true, List.mem_flatMap, List.mem_filterMap,
    List.mem_range]
  -- the filter condition, for a column of the enumerated form
  have key : ∀ (low : List Nat) (i f : Nat), f ∈ fills → (∀ x ∈ low, x ∈ indices ∧ x ∉ fills) →
      ((distinctCount (low ++ List.replicate i f) = 1 ||
        decide (distinctCount ((low ++ List.replicate i f).filter fun x => !fills.contains x) ≤ 1)) = true
        ↔ ∀ x ∈ low, ∀ y ∈ low, x = y) := by
    intro low i f hfm hlow
    have hfil : (low ++ List.replicate i f).filter (fun x => !fills.contains x) = low := by
      rw [List.filter_append]
      have h1 : low.filter (fun x => !fills.contains x) = low := by
        apply List.filter_eq_self.mpr
        intro x hx; simpa using (hlow x hx).2
      have h2 : (List.replicate i f).filter (fun x => !fills.contains x) = [] := by
        apply List.filter_eq_nil_iff.mpr
        intro x hx
        rw [List.mem_replicate] at hx
        simp [hx.2, hfm]
      rw [h1, h2, List.append_nil]
    rw [hfil]
    simp only [Bool.or_eq_true, decide_eq_true_eq]
    constructor
    · rintro (h | h)
      · have : distinctCount (low ++ List.replicate i f) ≤ 1 := by omega
        rw [distinct_le_one] at this
        intro x hx y hy
        exact this x (by simp [hx]) y (by simp [hy])
      · exact (distinct_le_one low).mp h
    · intro h
      exact Or.inr ((distinct_le_one low).mpr h)
  constructor
  · rintro ⟨perm, hp, f, hfm, i, hi, hcol⟩
    obtain ⟨hl, hm⟩ := (C24_product_spec _ L perm).mp hp
    have hlow : ∀ x ∈ perm.take (L - i), x ∈ indices ∧ x ∉ fills := fun x hx =>
      (mem_valid indices fills x).mp (hm x (List.mem_of_mem_take hx))
    split at hcol
    · rename_i hc
      simp only [Option.some.injEq] at hcol
      subst hcol
      exact ⟨f, hfm, i, by omega, perm.take (L - i), by simp [hl], hlow, (key _ i f hfm hlow).mp hc, rfl⟩
    · exact absurd hcol (by simp)
  · rintro ⟨f, hfm, i, hi, low, hl, hm, hsame, rfl⟩
    obtain ⟨v, hv1, hv2⟩ := hv
    refine ⟨low ++ List.replicate i v, ?_, f, hfm, i, by omega, ?_⟩
    · apply (C24_product_spec _ L _).mpr
      refine ⟨by simp [hl]; omega, ?_⟩
      intro x hx
      simp only [List.mem_append, List.mem_replicate] at hx
      rcases hx with hx | ⟨_, rfl⟩
      · exact (mem_valid indices fills x).mpr (hm x hx)
      · exact (mem_valid indices fills x).mpr ⟨hv1, hv2⟩
    · rw [← hl, List.take_left' rfl]
      rw [if_pos ((key low i f hfm hm).mpr hsame)]

/-! ### non-vacuity -/

-- the hypotheses of the enumeration theorems hold for the way PillarDiscretization calls them (materials 0..n-1,
-- one background index), and the enumeration is what one expects on a small case
example : (∃ v ∈ [0, 1, 2], v ∉ [0]) ∧ ([0] : List Nat) ≠ [] := ⟨⟨1, by simp, by simp⟩, by simp⟩
example : enumCols false 2 [0, 1, 2] [0] = [[1, 1], [1, 0], [0, 0], [1, 2], [1, 0], [0, 0], [2, 1], [2, 0], [0, 0], [2, 2], [2, 0], [0, 0]] := by decide
example : (enumCols true 3 [0, 1, 2] [0]).eraseDups =
    [[1, 1, 1], [1, 1, 0], [1, 0, 0], [0, 0, 0], [2, 0, 0], [2, 2, 0], [2, 2, 2]] := by decide +kernel
example : ColOKSingle 3 [0, 1, 2] [0] [2, 2, 0] := ⟨0, by simp, 1, by omega, [2, 2], rfl, by simp, by simp, rfl⟩
-- rounding: a tie exists only for even volumes and goes to 0 (half-to-even)
example : roundHE 2 4 = 0 ∧ roundHE 3 4 = 1 ∧ roundHE 13 27 = 0 ∧ roundHE 14 27 = 1 := by decide
-- argmin picks the first of two equal minima
example : argminFirst [3, 1, 2, 1] = 1 := by decide
-- a 3×1×1 volume 1,0,1 with kernel 3 and constant-1 padding of width 1: box counts 3·… → all ones after filtering
example : toBits ⟨3, 1, 1⟩ (median ⟨3, 1, 1⟩ (ofBits ⟨3, 1, 1⟩ #[true, false, true])
    ⟨3, 1, 1, [⟨1, .constant true⟩, ⟨1, .constant true⟩, ⟨0, .edge⟩, ⟨0, .edge⟩, ⟨0, .edge⟩, ⟨0, .edge⟩]⟩) = "111" := by decide +kernel

end Fdtdx.C24
