/-
C13 — Plane sources radiate only in their stated direction (partial by nature).

What is proved (over any commutative ring, for every line length, plane position, metric, media along the propagation
axis, both polarisation pairs q = ±1, any Courant number): the TFSF injection of `FdtdxModel/C13.lean` is EXACT in the
1-D reduction of the Yee step to transversally uniform (periodic) fields:

  C13_tfsf_exact_1d            direction "+": if the incident pair (einc t, hinc t) satisfies the discrete 1-D Yee update
                               equations on the total-field side, and the state equals the incident wave on the
                               total-field side (E_k for k > k0, H_k for k ≥ k0) and is zero on the scattered side
                               (E_k for k ≤ k0, H_k for k < k0), then the same holds after the step
  C13_tfsf_exact_1d_steps      … hence after any number of steps: the field behind the source is identically zero —
                               the source radiates only forward (backward power exactly 0)
  C13_tfsf_exact_1d_minus / _minus_steps   the mirror statement for direction "-"
  C13_sign_*, C13_inject_*     the face injection selects the oriented transverse axes, the signs of both directions and
                               of the inverse update as the 1-D reduction requires (ties `injectE/injectH` to `lineJE/lineJH`)

NOT proved (→ partial): the sampled analytic profile (`temporal_profile.get_amplitude` at the Yee time offsets) satisfies
the discrete equations only up to numerical dispersion; that is where the 1e-3 (and the 10 % for a Gaussian beam, which is
not transversally uniform) of the property come from. Those numbers are evaluated on the real code by the oracle of
harness/c13.py with the thresholds of the property.
-/
import FdtdxModel.C13
import Mathlib.Tactic.Ring
import Mathlib.Algebra.Field.Basic
import Mathlib.Tactic.LinearCombination
import Mathlib.Tactic.NormNum

namespace Fdtdx.C13
open Fdtdx Fdtdx.Yee

section
variable {K : Type} [CommRing K]

/-- the incident pair satisfies the discrete 1-D Yee equations (the same halo, metric and media as the line) at the cells
selected by `pe` (E equation) and `ph` (H equation) -/
structure Incident (n : Nat) (q c : K) (sf sb ie im : Nat → K) (einc hinc : Nat → Nat → K)
    (pe ph : Nat → Prop) : Prop where
  eqE : ∀ t k, pe k → einc (t + 1) k
      = lineStepE n q c sb ie (fun _ => 0) (einc t) (hinc t) k
  eqH : ∀ t k, ph k → hinc (t + 1) k
      = lineStepH n q c sf im (fun _ => 0) (einc (t + 1)) (hinc t) k

/-- state of a "+" source: total field in front of the plane, nothing behind -/
def plusState (k0 : Nat) (e h : Nat → K) : (Nat → K) × (Nat → K) :=
  (fun k => if k0 < k then e k else 0, fun k => if k0 ≤ k then h k else 0)

/-- state of a "-" source -/
def minusState (k0 : Nat) (e h : Nat → K) : (Nat → K) × (Nat → K) :=
  (fun k => if k ≤ k0 then e k else 0, fun k => if k < k0 then h k else 0)

private theorem prev1_zero (n : Nat) (g : Nat → K) (k : Nat) :
    prev1 n (zeroBC : AxisBC K) g k = if k = 0 then 0 else g (k - 1) := by
  simp [prev1, zeroBC]

private theorem next1_zero (n : Nat) (g : Nat → K) (k : Nat) :
    next1 n (zeroBC : AxisBC K) g k = if k + 1 < n then g (k + 1) else 0 := by
  simp [next1, zeroBC]

/-- **C13_tfsf_exact_1d** (direction "+", sign s = 1). -/
theorem C13_tfsf_exact_1d (n k0 : Nat) (q c : K) (sf sb ie im : Nat → K)
    (einc hinc : Nat → Nat → K)
    (hi : Incident n q c sf sb ie im einc hinc (fun k => k0 < k) (fun k => k0 ≤ k)) (t : Nat) :
    lineStep n k0 q 1 c sf sb ie im (hinc t k0) (einc (t + 1) k0)
        (plusState k0 (einc t) (hinc t)).1 (plusState k0 (einc t) (hinc t)).2
      = plusState k0 (einc (t + 1)) (hinc (t + 1)) := by
  have hE : lineStepE n q c sb ie (lineJE k0 q 1 c sb ie (hinc t k0))
      (plusState k0 (einc t) (hinc t)).1 (plusState k0 (einc t) (hinc t)).2
      = (plusState k0 (einc (t + 1)) (hinc (t + 1))).1 := by
    funext k
    simp only [plusState, lineStepE, lineJE, prev1_zero]
    rcases Nat.lt_trichotomy k k0 with hk | hk | hk
    · have h1 : ¬ k0 < k := by omega
      have h2 : ¬ k0 ≤ k := by omega
      have h3 : ¬ k0 ≤ k - 1 := by omega
      have h4 : k ≠ k0 := by omega
      simp only [h1, h2, h3, h4, if_false]
      split_ifs <;> ring
    · subst hk
      have h1 : ¬ k < k := by omega
      have h3 : ¬ k ≤ k - 1 ∨ k = 0 := by omega
      simp only [h1, le_refl, if_true, if_false]
      by_cases h0 : k = 0
      · simp only [h0, if_true]
        ring
      · have h5 : ¬ k ≤ k - 1 := by omega
        simp only [h0, h5, if_false]
        ring
    · have h1 : k0 < k := hk
      have h2 : k0 ≤ k := by omega
      have h3 : k0 ≤ k - 1 := by omega
      have h4 : k ≠ k0 := by omega
      have h0 : k ≠ 0 := by omega
      simp only [h1, h2, h3, h4, h0, if_true, if_false]
      rw [hi.eqE t k hk]
      simp only [lineStepE, prev1_zero, h0, if_false]
  unfold lineStep
  simp only []
  rw [hE]
  refine Prod.ext rfl ?_
  funext k
  simp only [plusState, lineStepH, lineJH, next1_zero]
  rcases Nat.lt_trichotomy k k0 with hk | hk | hk
  · have h1 : ¬ k0 < k := by omega
    have h2 : ¬ k0 ≤ k := by omega
    have h3 : ¬ k0 < k + 1 := by omega
    have h4 : k ≠ k0 := by omega
    simp only [h1, h2, h3, h4, if_false]
    split_ifs <;> ring
  · subst hk
    have h1 : ¬ k < k := by omega
    have h3 : k < k + 1 := by omega
    simp only [h1, h3, le_refl, if_true, if_false]
    rw [hi.eqH t k (le_refl k)]
    simp only [lineStepH, next1_zero]
    split_ifs <;> ring
  · have h1 : k0 < k := hk
    have h2 : k0 ≤ k := by omega
    have h3 : k0 < k + 1 := by omega
    have h4 : k ≠ k0 := by omega
    simp only [h1, h2, h3, h4, if_true, if_false]
    rw [hi.eqH t k h2]
    simp only [lineStepH, next1_zero]

/-- **C13_tfsf_exact_1d_minus** (direction "-", sign s = −1): total field below the plane, nothing above. -/
theorem C13_tfsf_exact_1d_minus (n k0 : Nat) (q c : K) (sf sb ie im : Nat → K)
    (einc hinc : Nat → Nat → K)
    (hi : Incident n q c sf sb ie im einc hinc (fun k => k ≤ k0) (fun k => k < k0)) (t : Nat) :
    lineStep n k0 q (-1) c sf sb ie im (hinc t k0) (einc (t + 1) k0)
        (minusState k0 (einc t) (hinc t)).1 (minusState k0 (einc t) (hinc t)).2
      = minusState k0 (einc (t + 1)) (hinc (t + 1)) := by
  have hE : lineStepE n q c sb ie (lineJE k0 q (-1) c sb ie (hinc t k0))
      (minusState k0 (einc t) (hinc t)).1 (minusState k0 (einc t) (hinc t)).2
      = (minusState k0 (einc (t + 1)) (hinc (t + 1))).1 := by
    funext k
    simp only [minusState, lineStepE, lineJE, prev1_zero]
    rcases Nat.lt_trichotomy k k0 with hk | hk | hk
    · have h1 : k ≤ k0 := by omega
      have h2 : k < k0 := hk
      have h3 : k - 1 < k0 := by omega
      have h4 : k ≠ k0 := by omega
      simp only [h1, h2, h3, h4, if_true, if_false]
      rw [hi.eqE t k h1]
      simp only [lineStepE, prev1_zero]
    · subst hk
      have h1 : ¬ k < k := by omega
      simp only [h1, le_refl, if_true, if_false]
      rw [hi.eqE t k (le_refl k)]
      simp only [lineStepE, prev1_zero]
      by_cases h0 : k = 0
      · simp only [h0, if_true]; ring
      · have h5 : k - 1 < k := by omega
        simp only [h0, h5, if_true, if_false]; ring
    · have h1 : ¬ k ≤ k0 := by omega
      have h2 : ¬ k < k0 := by omega
      have h3 : ¬ k - 1 < k0 := by omega
      have h4 : k ≠ k0 := by omega
      simp only [h1, h2, h3, h4, if_false]
      split_ifs <;> ring
  unfold lineStep
  simp only []
  rw [hE]
  refine Prod.ext rfl ?_
  funext k
  simp only [minusState, lineStepH, lineJH, next1_zero]
  rcases Nat.lt_trichotomy k k0 with hk | hk | hk
  · have h1 : k ≤ k0 := by omega
    have h2 : k < k0 := hk
    have h3 : k + 1 ≤ k0 := by omega
    have h4 : k ≠ k0 := by omega
    simp only [h1, h2, h3, h4, if_true, if_false]
    rw [hi.eqH t k h2]
    simp only [lineStepH, next1_zero]
  · subst hk
    have h1 : ¬ k < k := by omega
    have h3 : ¬ k + 1 ≤ k := by omega
    simp only [h1, h3, le_refl, if_true, if_false]
    split_ifs <;> ring
  · have h1 : ¬ k ≤ k0 := by omega
    have h2 : ¬ k < k0 := by omega
    have h3 : ¬ k + 1 ≤ k0 := by omega
    have h4 : k ≠ k0 := by omega
    simp only [h1, h2, h3, h4, if_false]
    split_ifs <;> ring

/-- a run of the line: step `u` injects the incident H of the plane's cell at step `u` and the incident E at step `u+1` -/
def lineRun (n k0 : Nat) (q s c : K) (sf sb ie im : Nat → K) (einc hinc : Nat → Nat → K) :
    Nat → (Nat → K) × (Nat → K) → (Nat → K) × (Nat → K)
  | 0, st => st
  | t + 1, st =>
    let st' := lineRun n k0 q s c sf sb ie im einc hinc t st
    lineStep n k0 q s c sf sb ie im (hinc t k0) (einc (t + 1) k0) st'.1 st'.2

/-- **C13_tfsf_exact_1d_steps**: after any number of steps the line carries exactly the incident wave in front of a "+"
source and NOTHING behind it. -/
theorem C13_tfsf_exact_1d_steps (n k0 : Nat) (q c : K) (sf sb ie im : Nat → K) (einc hinc : Nat → Nat → K)
    (hi : Incident n q c sf sb ie im einc hinc (fun k => k0 < k) (fun k => k0 ≤ k)) (t : Nat) :
    lineRun n k0 q 1 c sf sb ie im einc hinc t (plusState k0 (einc 0) (hinc 0)) = plusState k0 (einc t) (hinc t) := by
  induction t with
  | zero => rfl
  | succ t ih =>
    simp only [lineRun, ih]
    exact C13_tfsf_exact_1d n k0 q c sf sb ie im einc hinc hi t

/-- the scattered-field side of a "+" source is identically zero at every step: no backward radiation -/
theorem C13_no_backward_field (n k0 : Nat) (q c : K) (sf sb ie im : Nat → K) (einc hinc : Nat → Nat → K)
    (hi : Incident n q c sf sb ie im einc hinc (fun k => k0 < k) (fun k => k0 ≤ k)) (t k : Nat) :
    (k ≤ k0 → (lineRun n k0 q 1 c sf sb ie im einc hinc t (plusState k0 (einc 0) (hinc 0))).1 k = 0)
    ∧ (k < k0 → (lineRun n k0 q 1 c sf sb ie im einc hinc t (plusState k0 (einc 0) (hinc 0))).2 k = 0) := by
  rw [C13_tfsf_exact_1d_steps n k0 q c sf sb ie im einc hinc hi t]
  constructor
  · intro h; have : ¬ k0 < k := by omega
    simp [plusState, this]
  · intro h; have : ¬ k0 ≤ k := by omega
    simp [plusState, this]

/-- **C13_tfsf_exact_1d_minus_steps** -/
theorem C13_tfsf_exact_1d_minus_steps (n k0 : Nat) (q c : K) (sf sb ie im : Nat → K) (einc hinc : Nat → Nat → K)
    (hi : Incident n q c sf sb ie im einc hinc (fun k => k ≤ k0) (fun k => k < k0)) (t : Nat) :
    lineRun n k0 q (-1) c sf sb ie im einc hinc t (minusState k0 (einc 0) (hinc 0))
      = minusState k0 (einc t) (hinc t) := by
  induction t with
  | zero => rfl
  | succ t ih =>
    simp only [lineRun, ih]
    exact C13_tfsf_exact_1d_minus n k0 q c sf sb ie im einc hinc hi t

/-! ### the face injection of the code is the line injection, for every axis, direction and polarisation pair -/

/-- sign convention of `update_E/update_H` -/
theorem C13_sign (dirPlus inverse : Bool) :
    (planeSign dirPlus inverse : K) = (if dirPlus then 1 else -1) * (if inverse then -1 else 1) := by
  cases dirPlus <;> cases inverse <;> simp [planeSign]

/-- the oriented transverse axes are the cyclic successors: (y,z), (z,x), (x,y) -/
theorem C13_oriented_axes : orientedAxes 0 = (1, 2) ∧ orientedAxes 1 = (2, 0) ∧ orientedAxes 2 = (0, 1) := by decide

/-- **C13_inject_is_line**: for every normal axis the increments of `_tfsf_inject_E_face/_H_face` at a cell of the plane
are the 1-D source terms: the pair (E_a, H_b) with q = +1 and the pair (E_b, H_a) with q = −1, and nothing on the
normal component. (`c·sb`, `c·sf` are what `update_E/update_H` pass as `c`.) -/
theorem C13_inject_is_line (normal : Nat) (hn : normal < 3) (s c : K) (incE incH ampE ampH ie im : Nat → K)
    (k0 : Nat) (sf sb : Nat → K) :
    let a := (orientedAxes normal).1
    let b := (orientedAxes normal).2
    injectE normal s incH ampH ie (c * sb k0) a = lineJE k0 1 s c sb (fun _ => ie a) (incH b * ampH b) k0
    ∧ injectH normal s incE ampE im (c * sf k0) b = lineJH k0 1 s c sf (fun _ => im b) (incE a * ampE a) k0
    ∧ injectE normal s incH ampH ie (c * sb k0) b = lineJE k0 (-1) s c sb (fun _ => ie b) (incH a * ampH a) k0
    ∧ injectH normal s incE ampE im (c * sf k0) a = lineJH k0 (-1) s c sf (fun _ => im a) (incE b * ampE b) k0
    ∧ injectE normal s incH ampH ie (c * sb k0) normal = 0
    ∧ injectH normal s incE ampE im (c * sf k0) normal = 0 := by
  have h : normal = 0 ∨ normal = 1 ∨ normal = 2 := by omega
  rcases h with h | h | h <;> subst h <;>
    simp [injectE, injectH, lineJE, lineJH, orientedAxes]

end

/-! ### 3-D reduction: transversally uniform fields of the shared Yee model evolve by the line model -/
section reduction
variable {K : Type} [Field K]

/-- a vector field that is constant along x and y, with no z component -/
def lift (fx fy : Nat → K) : V3 K := ⟨fun _ _ k => fx k, fun _ _ k => fy k, fun _ _ _ => 0⟩

/-- the scene of the property, propagation along z: periodic in x and y (wrap halo, ghost multipliers 1), constant
(zero) halo along z (none / PML faces), no PEC/PMC walls -/
structure Periodic2D (cf : Cfg K) : Prop where
  xw : cf.bx.wrap = true
  xp : cf.bx.pp = 1
  xm : cf.bx.pm = 1
  yw : cf.by_.wrap = true
  yp : cf.by_.pp = 1
  ym : cf.by_.pm = 1
  zw : cf.bz.wrap = false
  x1 : cf.bx.pecLo = false
  x2 : cf.bx.pecHi = false
  x3 : cf.bx.pmcLo = false
  x4 : cf.bx.pmcHi = false
  y1 : cf.by_.pecLo = false
  y2 : cf.by_.pecHi = false
  y3 : cf.by_.pmcLo = false
  y4 : cf.by_.pmcHi = false
  z1 : cf.bz.pecLo = false
  z2 : cf.bz.pecHi = false
  z3 : cf.bz.pmcLo = false
  z4 : cf.bz.pmcHi = false

private theorem next1_const (n : Nat) (b : AxisBC K) (hw : b.wrap = true) (hp : b.pp = 1) (v : K) (i : Nat) :
    next1 n b (fun _ => v) i = v := by
  unfold next1; split_ifs <;> simp [hp]

private theorem prev1_const (n : Nat) (b : AxisBC K) (hw : b.wrap = true) (hp : b.pm = 1) (v : K) (i : Nat) :
    prev1 n b (fun _ => v) i = v := by
  unfold prev1; split_ifs <;> simp [hp]

private theorem next1_nowrap (n : Nat) (b : AxisBC K) (hw : b.wrap = false) (g : Nat → K) (i : Nat) :
    next1 n b g i = next1 n (zeroBC : AxisBC K) g i := by
  simp [next1, zeroBC, hw]

private theorem prev1_nowrap (n : Nat) (b : AxisBC K) (hw : b.wrap = false) (g : Nat → K) (i : Nat) :
    prev1 n b g i = prev1 n (zeroBC : AxisBC K) g i := by
  simp [prev1, zeroBC, hw]

private theorem pecMask_off (cf : Cfg K) (h : Periodic2D cf) (comp i j k : Nat) : pecMask cf comp i j k = false := by
  simp [pecMask, onWall, h.x1, h.x2, h.y1, h.y2, h.z1, h.z2]

private theorem pmcMask_off (cf : Cfg K) (h : Periodic2D cf) (comp i j k : Nat) : pmcMask cf comp i j k = false := by
  simp [pmcMask, onWall, h.x3, h.x4, h.y3, h.y4, h.z3, h.z4]

/-- the E half step: uniform fields stay uniform, the pair (E_x, H_y) evolves by the line model with q = +1, the pair
(E_y, H_x) with q = −1, E_z stays 0 -/
theorem stepE_lift (cf : Cfg K) (h : Periodic2D cf) (iex iey : Nat → K) (iez : F3 K) (invMu : V3 K)
    (jex jey ex ey hx hy : Nat → K) :
    stepE cf ⟨⟨fun _ _ k => iex k, fun _ _ k => iey k, iez⟩, invMu, none, none⟩ (lift jex jey) (lift ex ey) (lift hx hy)
      = lift (lineStepE cf.nz 1 cf.c cf.sbz iex jex ex hy) (lineStepE cf.nz (-1) cf.c cf.sbz iey jey ey hx) := by
  unfold stepE projE maskV
  simp only [pecMask_off cf h, Bool.false_eq_true, if_false, addV, lift, curlH, updE1, optAt, Option.map_none,
    prev1_const _ _ h.xw h.xm, prev1_const _ _ h.yw h.ym, prev1_nowrap _ _ h.zw, lineStepE]
  congr 1 <;> funext i j k <;> ring

theorem stepH_lift (cf : Cfg K) (h : Periodic2D cf) (invEps : V3 K) (imx imy : Nat → K) (imz : F3 K)
    (jhx jhy ex ey hx hy : Nat → K) :
    stepH cf ⟨invEps, ⟨fun _ _ k => imx k, fun _ _ k => imy k, imz⟩, none, none⟩ (lift jhx jhy) (lift ex ey) (lift hx hy)
      = lift (lineStepH cf.nz (-1) cf.c cf.sfz imx jhx ey hx) (lineStepH cf.nz 1 cf.c cf.sfz imy jhy ex hy) := by
  unfold stepH projH maskV
  simp only [pmcMask_off cf h, Bool.false_eq_true, if_false, addV, lift, curlE, updH1, optAt, Option.map_none,
    next1_const _ _ h.xw h.xp, next1_const _ _ h.yw h.yp, next1_nowrap _ _ h.zw, lineStepH]
  congr 1 <;> funext i j k <;> ring

/-- **C13_yee_reduces_to_line**: in the transversally periodic scene, fields that are constant along the two transverse
axes (and have no normal component) stay so under `forward` of the shared 3-D Yee model, and their two polarisation
pairs evolve by the 1-D line model of the exactness theorem — with any media profile along the axis, any metric, any
transversally uniform source terms (in particular the TFSF terms of a uniform plane source). -/
theorem C13_yee_reduces_to_line (cf : Cfg K) (h : Periodic2D cf) (iex iey imx imy : Nat → K) (iez imz : F3 K)
    (jex jey jhx jhy ex ey hx hy : Nat → K) :
    let ex' := lineStepE cf.nz 1 cf.c cf.sbz iex jex ex hy
    let ey' := lineStepE cf.nz (-1) cf.c cf.sbz iey jey ey hx
    forward cf ⟨⟨fun _ _ k => iex k, fun _ _ k => iey k, iez⟩, ⟨fun _ _ k => imx k, fun _ _ k => imy k, imz⟩, none, none⟩
        (lift jex jey) (lift jhx jhy) (lift ex ey) (lift hx hy)
      = (lift ex' ey',
         lift (lineStepH cf.nz (-1) cf.c cf.sfz imx jhx ey' hx) (lineStepH cf.nz 1 cf.c cf.sfz imy jhy ex' hy)) := by
  intro ex' ey'
  unfold forward
  simp only []
  rw [stepE_lift cf h, stepH_lift cf h]

/-- **C13_tfsf_exact_3d**: the exactness statement on the shared 3-D Yee model itself (propagation along z, direction
"+"; the other axes follow from the C08 equivariance of the model): transversally periodic scene, both polarisation
pairs driven by the TFSF terms of the plane at cell k0. If the two incident pairs satisfy the discrete 1-D equations, one
`forward` step maps "incident wave in front of the plane, zero behind" to the same state one step later. -/
theorem C13_tfsf_exact_3d (cf : Cfg K) (h : Periodic2D cf) (k0 : Nat) (iex iey imx imy : Nat → K) (iez imz : F3 K)
    (e1 h1 e2 h2 : Nat → Nat → K)
    (hi1 : Incident cf.nz 1 cf.c cf.sfz cf.sbz iex imy e1 h1 (fun k => k0 < k) (fun k => k0 ≤ k))
    (hi2 : Incident cf.nz (-1) cf.c cf.sfz cf.sbz iey imx e2 h2 (fun k => k0 < k) (fun k => k0 ≤ k)) (t : Nat) :
    forward cf ⟨⟨fun _ _ k => iex k, fun _ _ k => iey k, iez⟩, ⟨fun _ _ k => imx k, fun _ _ k => imy k, imz⟩, none, none⟩
        (lift (lineJE k0 1 1 cf.c cf.sbz iex (h1 t k0)) (lineJE k0 (-1) 1 cf.c cf.sbz iey (h2 t k0)))
        (lift (lineJH k0 (-1) 1 cf.c cf.sfz imx (e2 (t + 1) k0)) (lineJH k0 1 1 cf.c cf.sfz imy (e1 (t + 1) k0)))
        (lift (plusState k0 (e1 t) (h1 t)).1 (plusState k0 (e2 t) (h2 t)).1)
        (lift (plusState k0 (e2 t) (h2 t)).2 (plusState k0 (e1 t) (h1 t)).2)
      = (lift (plusState k0 (e1 (t + 1)) (h1 (t + 1))).1 (plusState k0 (e2 (t + 1)) (h2 (t + 1))).1,
         lift (plusState k0 (e2 (t + 1)) (h2 (t + 1))).2 (plusState k0 (e1 (t + 1)) (h1 (t + 1))).2) := by
  have A := C13_tfsf_exact_1d cf.nz k0 1 cf.c cf.sfz cf.sbz iex imy e1 h1 hi1 t
  have B := C13_tfsf_exact_1d cf.nz k0 (-1) cf.c cf.sfz cf.sbz iey imx e2 h2 hi2 t
  unfold lineStep at A B
  simp only [Prod.ext_iff] at A B
  have R := C13_yee_reduces_to_line cf h iex iey imx imy iez imz
    (lineJE k0 1 1 cf.c cf.sbz iex (h1 t k0)) (lineJE k0 (-1) 1 cf.c cf.sbz iey (h2 t k0))
    (lineJH k0 (-1) 1 cf.c cf.sfz imx (e2 (t + 1) k0)) (lineJH k0 1 1 cf.c cf.sfz imy (e1 (t + 1) k0))
    (plusState k0 (e1 t) (h1 t)).1 (plusState k0 (e2 t) (h2 t)).1
    (plusState k0 (e2 t) (h2 t)).2 (plusState k0 (e1 t) (h1 t)).2
  simp only [] at R
  rw [R, A.1, B.1]
  rw [A.1] at A
  rw [B.1] at B
  rw [A.2, B.2]

/-- non-vacuity of `Periodic2D`: a 3×4×9 box, periodic in x and y, zero halo along z, non-uniform metric along z -/
example : Periodic2D (K := ℚ)
    ⟨3, 4, 9, ⟨true, 1, 1, false, false, false, false⟩, ⟨true, 1, 1, false, false, false, false⟩,
      ⟨false, 1, 1, false, false, false, false⟩, fun _ => 1, fun _ => 1, fun k => 1 / (k + 1), fun _ => 1, fun _ => 1,
      fun k => 2 / (2 * k + 1), 1 / 2, 377⟩ := by
  constructor <;> rfl

end reduction

/-! ### non-vacuity -/

/-- every initial pair generates an incident wave satisfying the discrete equations everywhere: run the source-free line -/
def genInc (n : Nat) (q c : ℚ) (sf sb ie im : Nat → ℚ) (e0 h0 : Nat → ℚ) : Nat → (Nat → ℚ) × (Nat → ℚ)
  | 0 => (e0, h0)
  | t + 1 =>
    let st := genInc n q c sf sb ie im e0 h0 t
    let e' := lineStepE n q c sb ie (fun _ => 0) st.1 st.2
    (e', lineStepH n q c sf im (fun _ => 0) e' st.2)

example (n : Nat) (q c : ℚ) (sf sb ie im e0 h0 : Nat → ℚ) (pe ph : Nat → Prop) :
    Incident n q c sf sb ie im (fun t => (genInc n q c sf sb ie im e0 h0 t).1)
      (fun t => (genInc n q c sf sb ie im e0 h0 t).2) pe ph :=
  ⟨fun _ _ _ => rfl, fun _ _ _ => rfl⟩

/-- a concrete non-zero instance: 6 cells, plane at cell 2, a pulse sitting in front of the plane moves; behind the
plane the line stays empty while in front of it the field is not zero -/
example :
    let inc := genInc 6 1 (1 / 2) (fun _ => 1) (fun _ => 1) (fun _ => 1) (fun _ => 1)
      (fun k => if k = 3 then 1 else 0) (fun k => if k = 3 then 1 else 0)
    let st := lineRun 6 2 (1 : ℚ) 1 (1 / 2) (fun _ => 1) (fun _ => 1) (fun _ => 1) (fun _ => 1)
      (fun t => (inc t).1) (fun t => (inc t).2) 3 (plusState 2 (inc 0).1 (inc 0).2)
    st.1 0 = 0 ∧ st.1 1 = 0 ∧ st.1 2 = 0 ∧ st.2 0 = 0 ∧ st.2 1 = 0 ∧ st.2 2 ≠ 0 ∧ st.1 3 ≠ 0 := by
  simp only [lineRun, lineStep, lineStepE, lineStepH, lineJE, lineJH, genInc, plusState, prev1, next1, zeroBC]
  norm_num

end Fdtdx.C13
