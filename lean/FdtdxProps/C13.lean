/-
C13 — Plane sources radiate only in their stated direction (partial by nature).

What is proved (over any commutative ring, for every line length, plane position, metric, media along the propagation
axis, both polarisation pairs q = ±1, any Courant number): the TFSF injection of `FdtdxModel/C13.lean` is EXACT in the
1-D reduction of the Yee step to transversally uniform (periodic) fields:

  C13_tfsf_exact_1d            direction "+": if the incident pair (einc t, hinc t) satisfies the discrete 1-D Yee update
                               equations on the total-field side, and the state equals the incident wave on the
                               total-field side (E_k for k > k0, H_k for k ≥ k0) and is zero on the scattered side
                               (E_k for k ≤ k0, H_k for k < k0), then the same holds after the step
  C13_tfsf_exact_1d_steps      … hence after any number of steps: the field behind the source is identically zero —
                               the source radiates only forward (backward power exactly 0)
  C13_tfsf_exact_1d_minus / _minus_steps   the mirror statement for direction "-"
  C13_sign_*, C13_inject_*     the face injection selects the oriented transverse axes, the signs of both directions and
                               of the inverse update as the 1-D reduction requires (ties `injectE/injectH` to `lineJE/lineJH`)

NOT proved (→ partial): the sampled analytic profile (`temporal_profile.get_amplitude` at the Yee time offsets) satisfies
the discrete equations only up to numerical dispersion; that is where the 1e-3 (and the 10 % for a Gaussian beam, which is
not transversally uniform) of the property come from. Those numbers are evaluated on the real code by the oracle of
harness/c13.py with the thresholds of the property.
-/
import FdtdxModel.C13
import Mathlib.Tactic.Ring
import Mathlib.Tactic.LinearCombination
import Mathlib.Tactic.NormNum

namespace Fdtdx.C13
open Fdtdx Fdtdx.Yee

section
variable {K : Type} [CommRing K]

/-- the incident pair satisfies the discrete 1-D Yee equations (the same halo, metric and media as the line) at the cells
selected by `pe` (E equation) and `ph` (H equation) -/
structure Incident (n : Nat) (q c : K) (sf sb ie im : Nat → K) (einc hinc : Nat → Nat → K)
    (pe ph : Nat → Prop) : Prop where
  eqE : ∀ t k, pe k → einc (t + 1) k
      = lineStepE n q c sb ie (fun _ => 0) (einc t) (hinc t) k
  eqH : ∀ t k, ph k → hinc (t + 1) k
      = lineStepH n q c sf im (fun _ => 0) (einc (t + 1)) (hinc t) k

/-- state of a "+" source: total field in front of the plane, nothing behind -/
def plusState (k0 : Nat) (e h : Nat → K) : (Nat → K) × (Nat → K) :=
  (fun k => if k0 < k then e k else 0, fun k => if k0 ≤ k then h k else 0)

/-- state of a "-" source -/
def minusState (k0 : Nat) (e h : Nat → K) : (Nat → K) × (Nat → K) :=
  (fun k => if k ≤ k0 then e k else 0, fun k => if k < k0 then h k else 0)

private theorem prev1_zero (n : Nat) (g : Nat → K) (k : Nat) :
    prev1 n (zeroBC : AxisBC K) g k = if k = 0 then 0 else g (k - 1) := by
  simp [prev1, zeroBC]

private theorem next1_zero (n : Nat) (g : Nat → K) (k : Nat) :
    next1 n (zeroBC : AxisBC K) g k = if k + 1 < n then g (k + 1) else 0 := by
  simp [next1, zeroBC]

/-- **C13_tfsf_exact_1d** (direction "+", sign s = 1). -/
theorem C13_tfsf_exact_1d (n k0 : Nat) (q c : K) (sf sb ie im : Nat → K)
    (einc hinc : Nat → Nat → K)
    (hi : Incident n q c sf sb ie im einc hinc (fun k => k0 < k) (fun k => k0 ≤ k)) (t : Nat) :
    lineStep n k0 q 1 c sf sb ie im (hinc t k0) (einc (t + 1) k0)
        (plusState k0 (einc t) (hinc t)).1 (plusState k0 (einc t) (hinc t)).2
      = plusState k0 (einc (t + 1)) (hinc (t + 1)) := by
  have hE : lineStepE n q c sb ie (lineJE k0 q 1 c sb ie (hinc t k0))
      (plusState k0 (einc t) (hinc t)).1 (plusState k0 (einc t) (hinc t)).2
      = (plusState k0 (einc (t + 1)) (hinc (t + 1))).1 := by
    funext k
    simp only [plusState, lineStepE, lineJE, prev1_zero]
    rcases Nat.lt_trichotomy k k0 with hk | hk | hk
    · have h1 : ¬ k0 < k := by omega
      have h2 : ¬ k0 ≤ k := by omega
      have h3 : ¬ k0 ≤ k - 1 := by omega
      have h4 : k ≠ k0 := by omega
      simp only [h1, h2, h3, h4, if_false]
      split_ifs <;> ring
    · subst hk
      have h1 : ¬ k < k := by omega
      have h3 : ¬ k ≤ k - 1 ∨ k = 0 := by omega
      simp only [h1, le_refl, if_true, if_false]
      by_cases h0 : k = 0
      · simp only [h0, if_true]
        ring
      · have h5 : ¬ k ≤ k - 1 := by omega
        simp only [h0, h5, if_false]
        ring
    · have h1 : k0 < k := hk
      have h2 : k0 ≤ k := by omega
      have h3 : k0 ≤ k - 1 := by omega
      have h4 : k ≠ k0 := by omega
      have h0 : k ≠ 0 := by omega
      simp only [h1, h2, h3, h4, h0, if_true, if_false]
      rw [hi.eqE t k hk]
      simp only [lineStepE, prev1_zero, h0, if_false]
  unfold lineStep
  simp only []
  rw [hE]
  refine Prod.ext rfl ?_
  funext k
  simp only [plusState, lineStepH, lineJH, next1_zero]
  rcases Nat.lt_trichotomy k k0 with hk | hk | hk
  · have h1 : ¬ k0 < k := by omega
    have h2 : ¬ k0 ≤ k := by omega
    have h3 : ¬ k0 < k + 1 := by omega
    have h4 : k ≠ k0 := by omega
    simp only [h1, h2, h3, h4, if_false]
    split_ifs <;> ring
  · subst hk
    have h1 : ¬ k < k := by omega
    have h3 : k < k + 1 := by omega
    simp only [h1, h3, le_refl, if_true, if_false]
    rw [hi.eqH t k (le_refl k)]
    simp only [lineStepH, next1_zero]
    split_ifs <;> ring
  · have h1 : k0 < k := hk
    have h2 : k0 ≤ k := by omega
    have h3 : k0 < k + 1 := by omega
    have h4 : k ≠ k0 := by omega
    simp only [h1, h2, h3, h4, if_true, if_false]
    rw [hi.eqH t k h2]
    simp only [lineStepH, next1_zero]

/-- **C13_tfsf_exact_1d_minus** (direction "-", sign s = −1): total field below the plane, nothing above. -/
theorem C13_tfsf_exact_1d_minus (n k0 : Nat) (q c : K) (sf sb ie im : Nat → K)
    (einc hinc : Nat → Nat → K)
    (hi : Incident n q c sf sb ie im einc hinc (fun k => k ≤ k0) (fun k => k < k0)) (t : Nat) :
    lineStep n k0 q (-1) c sf sb ie im (hinc t k0) (einc (t + 1) k0)
        (minusState k0 (einc t) (hinc t)).1 (minusState k0 (einc t) (hinc t)).2
      = minusState k0 (einc (t + 1)) (hinc (t + 1)) := by
  have hE : lineStepE n q c sb ie (lineJE k0 q (-1) c sb ie (hinc t k0))
      (minusState k0 (einc t) (hinc t)).1 (minusState k0 (einc t) (hinc t)).2
      = (minusState k0 (einc (t + 1)) (hinc (t + 1))).1 := by
    funext k
    simp only [minusState, lineStepE, lineJE, prev1_zero]
    rcases Nat.lt_trichotomy k k0 with hk | hk | hk
    · have h1 : k ≤ k0 := by omega
      have h2 : k < k0 := hk
      have h3 : k - 1 < k0 := by omega
      have h4 : k ≠ k0 := by omega
      simp only [h1, h2, h3, h4, if_true, if_false]
      rw [hi.eqE t k h1]
      simp only [lineStepE, prev1_zero]
    · subst hk
      have h1 : ¬ k < k := by omega
      simp only [h1, le_refl, if_true, if_false]
      rw [hi.eqE t k (le_refl k)]
      simp only [lineStepE, prev1_zero]
      by_cases h0 : k = 0
      · simp only [h0, if_true]; ring
      · have h5 : k - 1 < k := by omega
        simp only [h0, h5, if_true, if_false]; ring
    · have h1 : ¬ k ≤ k0 := by omega
      have h2 : ¬ k < k0 := by omega
      have h3 : ¬ k - 1 < k0 := by omega
      have h4 : k ≠ k0 := by omega
      simp only [h1, h2, h3, h4, if_false]
      split_ifs <;> ring
  unfold lineStep
  simp only []
  rw [hE]
  refine Prod.ext rfl ?_
  funext k
  simp only [minusState, lineStepH, lineJH, next1_zero]
  rcases Nat.lt_trichotomy k k0 with hk | hk | hk
  · have h1 : k ≤ k0 := by omega
    have h2 : k < k0 := hk
    have h3 : k + 1 ≤ k0 := by omega
    have h4 : k ≠ k0 := by omega
    simp only [h1, h2, h3, h4, if_true, if_false]
    rw [hi.eqH t k h2]
    simp only [lineStepH, next1_zero]
  · subst hk
    have h1 : ¬ k < k := by omega
    have h3 : ¬ k + 1 ≤ k := by omega
    simp only [h1, h3, le_refl, if_true, if_false]
    split_ifs <;> ring
  · have h1 : ¬ k ≤ k0 := by omega
    have h2 : ¬ k < k0 := by omega
    have h3 : ¬ k + 1 ≤ k0 := by omega
    have h4 : k ≠ k0 := by omega
    simp only [h1, h2, h3, h4, if_false]
    split_ifs <;> ring

/-- a run of the line: step `u` injects the incident H of the plane's cell at step `u` and the incident E at step `u+1` -/
def lineRun (n k0 : Nat) (q s c : K) (sf sb ie im : Nat → K) (einc hinc : Nat → Nat → K) :
    Nat → (Nat → K) × (Nat → K) → (Nat → K) × (Nat → K)
  | 0, st => st
  | t + 1, st =>
    let st' := lineRun n k0 q s c sf sb ie im einc hinc t st
    lineStep n k0 q s c sf sb ie im (hinc t k0) (einc (t + 1) k0) st'.1 st'.2

/-- **C13_tfsf_exact_1d_steps**: after any number of steps the line carries exactly the incident wave in front of a "+"
source and NOTHING behind it. -/
theorem C13_tfsf_exact_1d_steps (n k0 : Nat) (q c : K) (sf sb ie im : Nat → K) (einc hinc : Nat → Nat → K)
    (hi : Incident n q c sf sb ie im einc hinc (fun k => k0 < k) (fun k => k0 ≤ k)) (t : Nat) :
    lineRun n k0 q 1 c sf sb ie im einc hinc t (plusState k0 (einc 0) (hinc 0)) = plusState k0 (einc t) (hinc t) := by
  induction t with
  | zero => rfl
  | succ t ih =>
    simp only [lineRun, ih]
    exact C13_tfsf_exact_1d n k0 q c sf sb ie im einc hinc hi t

/-- the scattered-field side of a "+" source is identically zero at every step: no backward radiation -/
theorem C13_no_backward_field (n k0 : Nat) (q c : K) (sf sb ie im : Nat → K) (einc hinc : Nat → Nat → K)
    (hi : Incident n q c sf sb ie im einc hinc (fun k => k0 < k) (fun k => k0 ≤ k)) (t k : Nat) :
    (k ≤ k0 → (lineRun n k0 q 1 c sf sb ie im einc hinc t (plusState k0 (einc 0) (hinc 0))).1 k = 0)
    ∧ (k < k0 → (lineRun n k0 q 1 c sf sb ie im einc hinc t (plusState k0 (einc 0) (hinc 0))).2 k = 0) := by
  rw [C13_tfsf_exact_1d_steps n k0 q c sf sb ie im einc hinc hi t]
  constructor
  · intro h; have : ¬ k0 < k := by omega
    simp [plusState, this]
  · intro h; have : ¬ k0 ≤ k := by omega
    simp [plusState, this]

/-- **C13_tfsf_exact_1d_minus_steps** -/
theorem C13_tfsf_exact_1d_minus_steps (n k0 : Nat) (q c : K) (sf sb ie im : Nat → K) (einc hinc : Nat → Nat → K)
    (hi : Incident n q c sf sb ie im einc hinc (fun k => k ≤ k0) (fun k => k < k0)) (t : Nat) :
    lineRun n k0 q (-1) c sf sb ie im einc hinc t (minusState k0 (einc 0) (hinc 0))
      = minusState k0 (einc t) (hinc t) := by
  induction t with
  | zero => rfl
  | succ t ih =>
    simp only [lineRun, ih]
    exact C13_tfsf_exact_1d_minus n k0 q c sf sb ie im einc hinc hi t

/-! ### the face injection of the code is the line injection, for every axis, direction and polarisation pair -/

/-- sign convention of `update_E/update_H` -/
theorem C13_sign (dirPlus inverse : Bool) :
    (planeSign dirPlus inverse : K) = (if dirPlus then 1 else -1) * (if inverse then -1 else 1) := by
  cases dirPlus <;> cases inverse <;> simp [planeSign]

/-- the oriented transverse axes are the cyclic successors: (y,z), (z,x), (x,y) -/
theorem C13_oriented_axes : orientedAxes 0 = (1, 2) ∧ orientedAxes 1 = (2, 0) ∧ orientedAxes 2 = (0, 1) := by decide

/-- **C13_inject_is_line**: for every normal axis the increments of `_tfsf_inject_E_face/_H_face` at a cell of the plane
are the 1-D source terms: the pair (E_a, H_b) with q = +1 and the pair (E_b, H_a) with q = −1, and nothing on the
normal component. (`c·sb`, `c·sf` are what `update_E/update_H` pass as `c`.) -/
theorem C13_inject_is_line (normal : Nat) (hn : normal < 3) (s c : K) (incE incH ampE ampH ie im : Nat → K)
    (k0 : Nat) (sf sb : Nat → K) :
    let a := (orientedAxes normal).1
    let b := (orientedAxes normal).2
    injectE normal s incH ampH ie (c * sb k0) a = lineJE k0 1 s c sb (fun _ => ie a) (incH b * ampH b) k0
    ∧ injectH normal s incE ampE im (c * sf k0) b = lineJH k0 1 s c sf (fun _ => im b) (incE a * ampE a) k0
    ∧ injectE normal s incH ampH ie (c * sb k0) b = lineJE k0 (-1) s c sb (fun _ => ie b) (incH a * ampH a) k0
    ∧ injectH normal s incE ampE im (c * sf k0) a = lineJH k0 (-1) s c sf (fun _ => im a) (incE b * ampE b) k0
    ∧ injectE normal s incH ampH ie (c * sb k0) normal = 0
    ∧ injectH normal s incE ampE im (c * sf k0) normal = 0 := by
  have h : normal = 0 ∨ normal = 1 ∨ normal = 2 := by omega
  rcases h with h | h | h <;> subst h <;>
    simp [injectE, injectH, lineJE, lineJH, orientedAxes]

end

/-! ### non-vacuity -/

/-- every initial pair generates an incident wave satisfying the discrete equations everywhere: run the source-free line -/
def genInc (n : Nat) (q c : ℚ) (sf sb ie im : Nat → ℚ) (e0 h0 : Nat → ℚ) : Nat → (Nat → ℚ) × (Nat → ℚ)
  | 0 => (e0, h0)
  | t + 1 =>
    let st := genInc n q c sf sb ie im e0 h0 t
    let e' := lineStepE n q c sb ie (fun _ => 0) st.1 st.2
    (e', lineStepH n q c sf im (fun _ => 0) e' st.2)

example (n : Nat) (q c : ℚ) (sf sb ie im e0 h0 : Nat → ℚ) (pe ph : Nat → Prop) :
    Incident n q c sf sb ie im (fun t => (genInc n q c sf sb ie im e0 h0 t).1)
      (fun t => (genInc n q c sf sb ie im e0 h0 t).2) pe ph :=
  ⟨fun _ _ _ => rfl, fun _ _ _ => rfl⟩

/-- a concrete non-zero instance: 6 cells, plane at cell 2, a pulse sitting in front of the plane moves; behind the
plane the line stays empty while in front of it the field is not zero -/
example :
    let inc := genInc 6 1 (1 / 2) (fun _ => 1) (fun _ => 1) (fun _ => 1) (fun _ => 1)
      (fun k => if k = 3 then 1 else 0) (fun k => if k = 3 then 1 else 0)
    let st := lineRun 6 2 (1 : ℚ) 1 (1 / 2) (fun _ => 1) (fun _ => 1) (fun _ => 1) (fun _ => 1)
      (fun t => (inc t).1) (fun t => (inc t).2) 3 (plusState 2 (inc 0).1 (inc 0).2)
    st.1 0 = 0 ∧ st.1 1 = 0 ∧ st.1 2 = 0 ∧ st.2 0 = 0 ∧ st.2 1 = 0 ∧ st.2 2 ≠ 0 ∧ st.1 3 ≠ 0 := by
  simp only [lineRun, lineStep, lineStepE, lineStepH, lineJE, lineJH, genInc, plusState, prev1, next1, zeroBC]
  norm_num

end Fdtdx.C13
