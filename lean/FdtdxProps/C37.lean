/-
C37 — Grid geometry helpers are exact.

Property theorems about `FdtdxModel/C37.lean`, for edge lists of ANY length over any linearly ordered field `K`
(`Sorted e` = strictly increasing, which the constructor enforces: `sorted_of_validEdges`).

  snapping      C37_nearest_spec (closest edge, first one on ties), C37_nearest_between / _tie / _below / _above,
                C37_lower_char (largest index with e_j ≤ c, −1 below the grid) + corollaries,
                C37_upper_char (smallest index with c ≤ e_j, n+1 above the grid) + corollaries
  intervals     C37_bounds_center_spec / C37_bounds_anchor_spec (size preserving, inside the axis, distance minimising
                among ALL size-preserving intervals, first one on ties), C37_bounds_errors (size ≤ 0, size > n),
                C37_anchor_ends / C37_anchor_mid / C37_anchor_inside
  measures      C37_extent_telescopes, C37_area_sum, C37_volume_sum, C37_width_pos, C37_center_inside
  CFL           C37_cfl_bound (dt·c·√(Σ 1/Δmin²) ≤ courant factor, both branches), C37_cfl_general_eq,
                AsFound.cfl_violated (the pinned tree exceeded the bound on a near-uniform grid)
  uniformity    C37_axisUniform_iff, C37_uniform_of_equal_widths, C37_nonuniform_detected, C37_uniform_widths_close
  symmetry      C37_reduce_ok_iff (accepted ⇔ even count ≥ 2 and widths mirror within the tolerance; result = edges[n/2:]),
                C37_reduce_rejects_odd, C37_reduce_accepts_mirror, C37_reduce_rejects_asym, C37_reduce_identity
-/
import FdtdxLemmas.C37Basic
import Mathlib.Algebra.BigOperators.Intervals
import Mathlib.Algebra.BigOperators.Ring.Finset
import Mathlib.Algebra.Order.BigOperators.Group.Finset
import Mathlib.Analysis.Real.Sqrt

set_option linter.unusedSectionVars false
set_option linter.unusedVariables false

namespace Fdtdx.C37

variable {K : Type} [Field K] [LinearOrder K] [IsStrictOrderedRing K]

/-! ## coord_to_index -/

/-- distance table used by `nearest` -/
theorem nearest_table (e : List K) (c : K) (j : Nat) (hj : j < e.length) :
    (e.map fun x => absv (x - c)).getD j 0 = |edge e j - c| := by
  simp [edge, hj, absv_eq_abs]

/-- **nearest**: the returned edge is a closest one, and the first among equally close ones. -/
theorem C37_nearest_spec (e : List K) (he : e ≠ []) (c : K) :
    nearest e c < e.length ∧
    (∀ j, j < e.length → |edge e (nearest e c) - c| ≤ |edge e j - c|) ∧
    (∀ j, j < nearest e c → |edge e (nearest e c) - c| < |edge e j - c|) := by
  have hne : (e.map fun x => absv (x - c)) ≠ [] := by simpa using he
  obtain ⟨h1, h2, h3⟩ := argmin_isFirstMin _ hne
  have hlen : (e.map fun x => absv (x - c)).length = e.length := by simp
  rw [hlen] at h1 h2
  refine ⟨h1, ?_, ?_⟩
  · intro j hj
    have := h2 j hj
    rwa [nearest_table e c _ h1, nearest_table e c _ hj] at this
  · intro j hj
    have := h3 j hj
    rwa [nearest_table e c _ h1, nearest_table e c _ (lt_trans hj h1)] at this

/-- any index with the two defining properties IS the answer -/
theorem nearest_eq_of (e : List K) (c : K) (i : Nat) (hi : i < e.length)
    (hmin : ∀ j, j < e.length → |edge e i - c| ≤ |edge e j - c|)
    (hfirst : ∀ j, j < i → |edge e i - c| < |edge e j - c|) : nearest e c = i := by
  have hne : (e.map fun x => absv (x - c)) ≠ [] := by
    intro h; have := congrArg List.length h; simp at this; rw [this] at hi; simp at hi
  apply (argmin_eq_iff _ hne i).mpr
  have hlen : (e.map fun x => absv (x - c)).length = e.length := by simp
  refine ⟨by rw [hlen]; exact hi, ?_, ?_⟩
  · intro j hj
    rw [hlen] at hj
    rw [nearest_table e c _ hi, nearest_table e c _ hj]; exact hmin j hj
  · intro j hj
    rw [nearest_table e c _ hi, nearest_table e c _ (lt_trans hj hi)]; exact hfirst j hj

/-- a coordinate in cell `i` not farther from the lower edge snaps to `i` (ties go DOWN) -/
theorem C37_nearest_between_lower (e : List K) (hs : Sorted e) (c : K) (i : Nat) (hi : i + 1 < e.length)
    (h1 : edge e i ≤ c) (h2 : c ≤ edge e (i + 1)) (hd : c - edge e i ≤ edge e (i + 1) - c) :
    nearest e c = i := by
  apply nearest_eq_of e c i (by omega)
  · intro j hj
    rw [abs_of_nonpos (by linarith)]
    rcases Nat.lt_or_ge i j with hij | hij
    · have := hs.le (show i + 1 ≤ j by omega) hj
      rw [abs_of_nonneg (by linarith)]; linarith
    · have := hs.le hij (show i < e.length by omega)
      rw [abs_of_nonpos (by linarith)]; linarith
  · intro j hj
    have := hs j i hj (by omega)
    rw [abs_of_nonpos (by linarith), abs_of_nonpos (by linarith)]; linarith

/-- a coordinate in cell `i` strictly closer to the upper edge snaps to `i + 1` -/
theorem C37_nearest_between_upper (e : List K) (hs : Sorted e) (c : K) (i : Nat) (hi : i + 1 < e.length)
    (h1 : edge e i ≤ c) (h2 : c ≤ edge e (i + 1)) (hd : edge e (i + 1) - c < c - edge e i) :
    nearest e c = i + 1 := by
  apply nearest_eq_of e c (i + 1) hi
  · intro j hj
    rw [abs_of_nonneg (by linarith)]
    rcases Nat.lt_or_ge i j with hij | hij
    · have := hs.le (show i + 1 ≤ j by omega) hj
      rw [abs_of_nonneg (by linarith)]; linarith
    · have := hs.le hij (show i < e.length by omega)
      rw [abs_of_nonpos (by linarith)]; linarith
  · intro j hj
    have := hs.le (show j ≤ i by omega) (show i < e.length by omega)
    rw [abs_of_nonneg (by linarith), abs_of_nonpos (by linarith)]; linarith

/-- exact tie (cell midpoint): the LOWER edge wins, as `np.argmin` returns the first minimum -/
theorem C37_nearest_tie (e : List K) (hs : Sorted e) (i : Nat) (hi : i + 1 < e.length) :
    nearest e ((edge e i + edge e (i + 1)) / 2) = i := by
  have hlt := hs i (i + 1) (by omega) hi
  apply C37_nearest_between_lower e hs _ i hi <;> linarith

/-- out of range below: edge 0 -/
theorem C37_nearest_below (e : List K) (hs : Sorted e) (he : 0 < e.length) (c : K) (hc : c ≤ edge e 0) :
    nearest e c = 0 := by
  apply nearest_eq_of e c 0 he
  · intro j hj
    have := hs.le (Nat.zero_le j) hj
    rw [abs_of_nonneg (by linarith), abs_of_nonneg (by linarith)]; linarith
  · intro j hj; omega

/-- out of range above: the last edge -/
theorem C37_nearest_above (e : List K) (hs : Sorted e) (he : 0 < e.length) (c : K)
    (hc : edge e (e.length - 1) ≤ c) : nearest e c = e.length - 1 := by
  apply nearest_eq_of e c (e.length - 1) (by omega)
  · intro j hj
    have := hs.le (show j ≤ e.length - 1 by omega) (by omega)
    rw [abs_of_nonpos (by linarith), abs_of_nonpos (by linarith)]; linarith
  · intro j hj
    have := hs j (e.length - 1) hj (by omega)
    rw [abs_of_nonpos (by linarith), abs_of_nonpos (by linarith)]; linarith

/-- **lower**: `lowerIdx` is the largest index whose edge is ≤ c (−1 when there is none). -/
theorem C37_lower_char (e : List K) (hs : Sorted e) (c : K) :
    -1 ≤ lowerIdx e c ∧ lowerIdx e c < e.length ∧
    ∀ j, j < e.length → ((j : Int) ≤ lowerIdx e c ↔ edge e j ≤ c) := by
  obtain ⟨h1, h2⟩ := countLE_spec e hs c
  unfold lowerIdx
  refine ⟨by omega, by omega, ?_⟩
  intro j hj
  rw [← h2 j hj]; omega

theorem C37_lower_below (e : List K) (hs : Sorted e) (he : 0 < e.length) (c : K) (hc : c < edge e 0) :
    lowerIdx e c = -1 := by
  obtain ⟨h1, h2, h3⟩ := C37_lower_char e hs c
  have := (h3 0 he).not.mpr (not_le.mpr hc)
  omega

/-- inside cell `i` (lower edge included, also exactly ON an edge): index `i` -/
theorem C37_lower_interior (e : List K) (hs : Sorted e) (c : K) (i : Nat) (hi : i < e.length)
    (h1 : edge e i ≤ c) (h2 : i + 1 < e.length → c < edge e (i + 1)) : lowerIdx e c = i := by
  obtain ⟨_, hb, h3⟩ := C37_lower_char e hs c
  have ha := (h3 i hi).mpr h1
  by_contra hne
  have hlt : (i : Int) + 1 ≤ lowerIdx e c := by omega
  have hi1 : i + 1 < e.length := by omega
  have := (h3 (i + 1) hi1).mp (by exact_mod_cast hlt)
  exact absurd (h2 hi1) (not_lt.mpr this)

theorem C37_lower_at_edge (e : List K) (hs : Sorted e) (i : Nat) (hi : i < e.length) :
    lowerIdx e (edge e i) = i :=
  C37_lower_interior e hs _ i hi le_rfl (fun h => hs i (i + 1) (by omega) h)

theorem C37_lower_above (e : List K) (hs : Sorted e) (he : 0 < e.length) (c : K)
    (hc : edge e (e.length - 1) ≤ c) : lowerIdx e c = (e.length - 1 : Nat) :=
  C37_lower_interior e hs c (e.length - 1) (by omega) hc (fun h => by omega)

/-- **upper**: `upperIdx` is the smallest index whose edge is ≥ c (`length`, one past the last edge, when none). -/
theorem C37_upper_char (e : List K) (hs : Sorted e) (c : K) :
    upperIdx e c ≤ e.length ∧ ∀ j, j < e.length → (upperIdx e c ≤ j ↔ c ≤ edge e j) := by
  obtain ⟨h1, h2⟩ := countLT_spec e hs c
  unfold upperIdx
  refine ⟨h1, ?_⟩
  intro j hj
  rw [← not_lt, h2 j hj, not_lt]

theorem C37_upper_below (e : List K) (hs : Sorted e) (he : 0 < e.length) (c : K) (hc : c ≤ edge e 0) :
    upperIdx e c = 0 := by
  have := ((C37_upper_char e hs c).2 0 he).mpr hc
  omega

theorem C37_upper_interior (e : List K) (hs : Sorted e) (c : K) (i : Nat) (hi : i + 1 < e.length)
    (h1 : edge e i < c) (h2 : c ≤ edge e (i + 1)) : upperIdx e c = i + 1 := by
  obtain ⟨hb, h3⟩ := C37_upper_char e hs c
  have ha := (h3 (i + 1) hi).mpr h2
  have hn := (h3 i (by omega)).not.mpr (not_le.mpr h1)
  omega

theorem C37_upper_at_edge (e : List K) (hs : Sorted e) (i : Nat) (hi : i < e.length) :
    upperIdx e (edge e i) = i := by
  obtain ⟨hb, h3⟩ := C37_upper_char e hs (edge e i)
  have ha := (h3 i hi).mpr le_rfl
  by_contra hne
  have hlt : upperIdx e (edge e i) < i := by omega
  have := (h3 (upperIdx e (edge e i)) (by omega)).mp le_rfl
  exact absurd (hs _ i hlt hi) (not_lt.mpr this)

/-- above the grid: one past the last edge index (the code returns an index that is not an edge) -/
theorem C37_upper_above (e : List K) (hs : Sorted e) (he : 0 < e.length) (c : K)
    (hc : edge e (e.length - 1) < c) : upperIdx e c = e.length := by
  obtain ⟨hb, h3⟩ := C37_upper_char e hs c
  by_contra hne
  have hlt : upperIdx e c < e.length := by omega
  have h4 := (h3 (upperIdx e c) hlt).mp le_rfl
  have h5 := hs.le (show upperIdx e c ≤ e.length - 1 by omega) (by omega)
  exact absurd (lt_of_lt_of_le hc h4) (not_lt.mpr h5)

/-! ## bounds_for_center / bounds_for_anchor / anchor_coordinate -/

theorem candidates_ok (e : List K) (s : Nat) (hs : 0 < s) (hfit : s + 1 ≤ e.length) :
    candidates e (s : Int) = .ok (s, e.length - s) := by
  unfold candidates
  rw [if_neg (by omega), if_neg (by omega)]
  simp

/-- error branches, exactly as the code has them -/
theorem C37_bounds_errors (e : List K) (size : Int) (x p : K) :
    (size ≤ 0 → boundsForCenter e size x = .error "err-size" ∧ boundsForAnchor e size x p = .error "err-size") ∧
    (0 < size → (e.length : Int) - 1 < size →
      boundsForCenter e size x = .error "err-fit" ∧ boundsForAnchor e size x p = .error "err-fit") := by
  constructor
  · intro h
    have : candidates e size = .error "err-size" := by unfold candidates; rw [if_pos h]
    simp [boundsForCenter, boundsForAnchor, this]
  · intro h1 h2
    have : candidates e size = .error "err-fit" := by
      unfold candidates; rw [if_neg (by omega), if_pos (by omega)]
    simp [boundsForCenter, boundsForAnchor, this]

/-- **bounds_for_center**: for 1 ≤ size ≤ n the result is a size-preserving interval inside the axis whose
physical centre is closest to `center` among ALL such intervals (first one on ties). -/
theorem C37_bounds_center_spec (e : List K) (s : Nat) (hs : 0 < s) (hfit : s + 1 ≤ e.length) (x : K) :
    ∃ lo, boundsForCenter e (s : Int) x = .ok (lo, lo + s) ∧ lo + s < e.length ∧
      (∀ l, l + s < e.length → |intervalCenter e s lo - x| ≤ |intervalCenter e s l - x|) ∧
      (∀ l, l < lo → |intervalCenter e s lo - x| < |intervalCenter e s l - x|) := by
  have hc := candidates_ok e s hs hfit
  obtain ⟨h1, h2, h3⟩ := argmin_map_range (e.length - s) (by omega) (fun l => absv (intervalCenter e s l - x))
  refine ⟨argmin ((List.range (e.length - s)).map fun l => absv (intervalCenter e s l - x)),
    by simp only [boundsForCenter, hc], by omega, ?_, ?_⟩
  · intro l hl
    have := h2 l (by omega)
    simpa [absv_eq_abs] using this
  · intro l hl
    have := h3 l hl
    simpa [absv_eq_abs] using this

/-- **bounds_for_anchor**: same, the distance being measured from the object's anchor point
`anchor_coordinate(bounds, position)` to `anchor`. -/
theorem C37_bounds_anchor_spec (e : List K) (s : Nat) (hs : 0 < s) (hfit : s + 1 ≤ e.length) (x p : K) :
    ∃ lo, boundsForAnchor e (s : Int) x p = .ok (lo, lo + s) ∧ lo + s < e.length ∧
      (∀ l, l + s < e.length →
        |anchorCoordinate e lo (lo + s) p - x| ≤ |anchorCoordinate e l (l + s) p - x|) ∧
      (∀ l, l < lo → |anchorCoordinate e lo (lo + s) p - x| < |anchorCoordinate e l (l + s) p - x|) := by
  have hc := candidates_ok e s hs hfit
  obtain ⟨h1, h2, h3⟩ :=
    argmin_map_range (e.length - s) (by omega) (fun l => absv (anchorCoordinate e l (l + s) p - x))
  refine ⟨argmin ((List.range (e.length - s)).map fun l => absv (anchorCoordinate e l (l + s) p - x)),
    by simp only [boundsForAnchor, hc], by omega, ?_, ?_⟩
  · intro l hl
    have := h2 l (by omega)
    simpa [absv_eq_abs] using this
  · intro l hl
    have := h3 l hl
    simpa [absv_eq_abs] using this

theorem half_eq : (half : K) = 1 / 2 := rfl

/-- position −1 is the lower edge, +1 the upper edge -/
theorem C37_anchor_ends (e : List K) (lo up : Nat) :
    anchorCoordinate e lo up (-1) = edge e lo ∧ anchorCoordinate e lo up 1 = edge e up := by
  unfold anchorCoordinate
  rw [half_eq]
  constructor <;> ring

/-- position 0 is the interval centre used by `bounds_for_center` -/
theorem C37_anchor_mid (e : List K) (lo s : Nat) :
    anchorCoordinate e lo (lo + s) 0 = intervalCenter e s lo := by
  unfold anchorCoordinate intervalCenter
  rw [half_eq]; ring

/-- positions in [−1, 1] stay inside the interval -/
theorem C37_anchor_inside (e : List K) (lo up : Nat) (p : K) (hle : edge e lo ≤ edge e up)
    (h1 : -1 ≤ p) (h2 : p ≤ 1) :
    edge e lo ≤ anchorCoordinate e lo up p ∧ anchorCoordinate e lo up p ≤ edge e up := by
  unfold anchorCoordinate
  rw [half_eq]
  constructor <;> nlinarith

/-! ## extents, face areas, cell volumes -/

/-- widths are positive and centres lie strictly inside their cell -/
theorem C37_width_pos (e : List K) (hs : Sorted e) (i : Nat) (hi : i + 1 < e.length) : 0 < width e i := by
  have := hs i (i + 1) (by omega) hi
  unfold width; linarith

theorem C37_center_inside (e : List K) (hs : Sorted e) (i : Nat) (hi : i + 1 < e.length) :
    edge e i < center e i ∧ center e i < edge e (i + 1) := by
  have := hs i (i + 1) (by omega) hi
  unfold center; rw [half_eq]
  constructor <;> linarith

/-- **extent**: the widths of the cells of an index interval sum to the distance of its edges -/
theorem C37_extent_telescopes (e : List K) (lo up : Nat) (h : lo ≤ up) :
    ∑ i ∈ Finset.Ico lo up, width e i = extent e lo up := by
  induction up, h using Nat.le_induction with
  | base => simp [extent]
  | succ up hle ih =>
    rw [Finset.sum_Ico_succ_top hle, ih]
    unfold extent width; ring

/-- **face areas** of a slice sum to the product of the two transverse extents -/
theorem C37_area_sum (ea eb : List K) (la ua lb ub : Nat) (ha : la ≤ ua) (hb : lb ≤ ub) :
    ∑ i ∈ Finset.Ico la ua, ∑ j ∈ Finset.Ico lb ub, faceAreaAt ea eb i j = extent ea la ua * extent eb lb ub := by
  rw [← C37_extent_telescopes ea la ua ha, ← C37_extent_telescopes eb lb ub hb, Finset.sum_mul_sum]
  rfl

/-- **cell volumes** of a slice sum to the product of the three extents -/
theorem C37_volume_sum (ex ey ez : List K) (x0 x1 y0 y1 z0 z1 : Nat) (hx : x0 ≤ x1) (hy : y0 ≤ y1) (hz : z0 ≤ z1) :
    ∑ i ∈ Finset.Ico x0 x1, ∑ j ∈ Finset.Ico y0 y1, ∑ k ∈ Finset.Ico z0 z1, cellVolumeAt ex ey ez i j k
      = extent ex x0 x1 * extent ey y0 y1 * extent ez z0 z1 := by
  rw [← C37_extent_telescopes ex x0 x1 hx, ← C37_extent_telescopes ey y0 y1 hy,
    ← C37_extent_telescopes ez z0 z1 hz, Finset.sum_mul_sum, Finset.sum_mul]
  apply Finset.sum_congr rfl
  intro i _
  rw [Finset.sum_mul]
  apply Finset.sum_congr rfl
  intro j _
  rw [Finset.mul_sum]
  rfl

/-- a cell volume is the face area times the width along the normal -/
theorem C37_volume_eq_area_mul (ex ey ez : List K) (i j k : Nat) :
    cellVolumeAt ex ey ez i j k = faceAreaAt ex ey i j * width ez k := rfl

theorem mem_widths' (e : List K) (w : K) : w ∈ widths e ↔ ∃ i, i + 1 < e.length ∧ w = width e i := by
  unfold widths
  simp only [List.mem_map, List.mem_range]
  constructor
  · rintro ⟨i, hi, rfl⟩; exact ⟨i, by omega, rfl⟩
  · rintro ⟨i, hi, rfl⟩; exact ⟨i, by omega, rfl⟩

theorem widths_length' (e : List K) : (widths e).length = e.length - 1 := by simp [widths]

/-! ## CFL -/

/-- the only facts used about the square root -/
def SqrtSpec (sqrt : K → K) : Prop := ∀ x, 0 ≤ x → 0 ≤ sqrt x ∧ sqrt x * sqrt x = x

/-- Σ 1/Δ² -/
def invMetric (mx my mz : K) : K := 1 / (mx * mx) + 1 / (my * my) + 1 / (mz * mz)

theorem invMetric_pos (mx my mz : K) (hx : 0 < mx) (hy : 0 < my) (hz : 0 < mz) : 0 < invMetric mx my mz := by
  unfold invMetric; positivity

theorem sqrt_pos_of (sqrt : K → K) (hq : SqrtSpec sqrt) (x : K) (hx : 0 < x) : 0 < sqrt x := by
  obtain ⟨h1, h2⟩ := hq x (le_of_lt hx)
  rcases lt_or_eq_of_le h1 with h | h
  · exact h
  · rw [← h] at h2; simp at h2; linarith

/-- general branch: the step sits exactly ON the CFL limit scaled by the courant factor -/
theorem C37_cfl_general_eq (sqrt : K → K) (hq : SqrtSpec sqrt) (cf c mx my mz : K) (hc : 0 < c)
    (hx : 0 < mx) (hy : 0 < my) (hz : 0 < mz) :
    cflGeneral sqrt cf c mx my mz * c * sqrt (invMetric mx my mz) = cf := by
  have hR := sqrt_pos_of sqrt hq _ (invMetric_pos mx my mz hx hy hz)
  unfold cflGeneral
  rw [show (1 / (mx * mx) + 1 / (my * my) + 1 / (mz * mz)) = invMetric mx my mz from rfl]
  field_simp

theorem minOf3_le (a b c : K) : minOf3 a b c ≤ a ∧ minOf3 a b c ≤ b ∧ minOf3 a b c ≤ c := by
  unfold minOf3
  exact ⟨minList_le _ _ (by simp), minList_le _ _ (by simp), minList_le _ _ (by simp)⟩

/-- R ≤ √3 / m when every minimum width is ≥ m > 0 -/
theorem sqrt_invMetric_le (sqrt : K → K) (hq : SqrtSpec sqrt) (m mx my mz : K) (hm : 0 < m)
    (hx : m ≤ mx) (hy : m ≤ my) (hz : m ≤ mz) :
    sqrt (invMetric mx my mz) * m ≤ sqrt 3 := by
  have hI := invMetric_pos mx my mz (by linarith) (by linarith) (by linarith)
  obtain ⟨hR0, hR⟩ := hq _ (le_of_lt hI)
  obtain ⟨h30, h3⟩ := hq 3 (by norm_num)
  have hb : ∀ w, m ≤ w → 1 / (w * w) ≤ 1 / (m * m) := by
    intro w hw
    apply one_div_le_one_div_of_le (by positivity)
    nlinarith
  have hsum : invMetric mx my mz * (m * m) ≤ 3 := by
    unfold invMetric
    have h1 := hb mx hx
    have h2 := hb my hy
    have h3' := hb mz hz
    have hmm : 0 < m * m := by positivity
    have : (1 / (m * m) + 1 / (m * m) + 1 / (m * m)) * (m * m) = 3 := by field_simp; norm_num
    nlinarith
  -- (R m)² ≤ (√3)²  and both are ≥ 0
  have hsq : (sqrt (invMetric mx my mz) * m) * (sqrt (invMetric mx my mz) * m) ≤ sqrt 3 * sqrt 3 := by
    rw [h3]; calc _ = (sqrt (invMetric mx my mz) * sqrt (invMetric mx my mz)) * (m * m) := by ring
      _ = invMetric mx my mz * (m * m) := by rw [hR]
      _ ≤ 3 := hsum
  exact (mul_self_le_mul_self_iff (mul_nonneg hR0 (le_of_lt hm)) h30).mpr hsq

/-- **CFL**: with the configured safety factor `cf ≥ 0`, `dt·c·√(1/Δx_min² + 1/Δy_min² + 1/Δz_min²) ≤ cf`
in both branches of `cfl_time_step` (uniform: whatever the recorded nominal spacing `s` is). -/
theorem C37_cfl_bound (sqrt : K → K) (hq : SqrtSpec sqrt) (cf c : K) (hcf : 0 ≤ cf) (hc : 0 < c)
    (uni : Option K) (mx my mz : K) (hx : 0 < mx) (hy : 0 < my) (hz : 0 < mz) :
    cflTimeStep sqrt cf c uni mx my mz * c * sqrt (invMetric mx my mz) ≤ cf := by
  cases uni with
  | none => exact le_of_eq (C37_cfl_general_eq sqrt hq cf c mx my mz hc hx hy hz)
  | some s =>
    obtain ⟨hm1, hm2, hm3⟩ := minOf3_le mx my mz
    have hR := sqrt_pos_of sqrt hq _ (invMetric_pos mx my mz hx hy hz)
    have h3 := sqrt_pos_of sqrt hq 3 (by norm_num)
    show (cf / sqrt 3) * (if minOf3 mx my mz < s then minOf3 mx my mz else s) / c * c
        * sqrt (invMetric mx my mz) ≤ cf
    set sp := (if minOf3 mx my mz < s then minOf3 mx my mz else s) with hsp
    have hsple : sp ≤ minOf3 mx my mz := by
      rw [hsp]; split_ifs with h
      · exact le_rfl
      · exact not_lt.mp h
    have e1 : (cf / sqrt 3) * sp / c * c * sqrt (invMetric mx my mz)
        = cf * (sqrt (invMetric mx my mz) * sp) / sqrt 3 := by field_simp
    rw [e1, div_le_iff₀ h3]
    apply mul_le_mul_of_nonneg_left _ hcf
    rcases le_or_gt sp 0 with hneg | hpos
    · have : sqrt (invMetric mx my mz) * sp ≤ 0 := mul_nonpos_of_nonneg_of_nonpos (le_of_lt hR) hneg
      linarith
    · exact sqrt_invMetric_le sqrt hq sp mx my mz hpos (by linarith) (by linarith) (by linarith)


/-! ### the bound for the grid the constructor builds, and in every cell -/

theorem minSpacing_spec (e : List K) (hs : Sorted e) (h2 : 2 ≤ e.length) :
    0 < minSpacing e ∧ ∀ i, i + 1 < e.length → minSpacing e ≤ width e i := by
  have hne : widths e ≠ [] := by
    intro h; have := congrArg List.length h; rw [widths_length'] at this; simp at this; omega
  constructor
  · obtain ⟨i, hi, hw⟩ := (mem_widths' e _).mp (minList_mem (widths e) hne)
    unfold minSpacing; rw [hw]
    have := hs i (i + 1) (by omega) hi
    unfold width; linarith
  · intro i hi
    exact minList_le _ _ ((mem_widths' e _).mpr ⟨i, hi, rfl⟩)

theorem sqrt_mono_of (sqrt : K → K) (hq : SqrtSpec sqrt) (a b : K) (ha : 0 ≤ a) (hab : a ≤ b) : sqrt a ≤ sqrt b := by
  obtain ⟨ha0, ha2⟩ := hq a ha
  obtain ⟨hb0, hb2⟩ := hq b (le_trans ha hab)
  exact (mul_self_le_mul_self_iff ha0 hb0).mpr (by rw [ha2, hb2]; exact hab)

theorem invMetric_anti (mx my mz wx wy wz : K) (hx : 0 < mx) (hy : 0 < my) (hz : 0 < mz)
    (h1 : mx ≤ wx) (h2 : my ≤ wy) (h3 : mz ≤ wz) : invMetric wx wy wz ≤ invMetric mx my mz := by
  have hb : ∀ m w : K, 0 < m → m ≤ w → 1 / (w * w) ≤ 1 / (m * m) := by
    intro m w hm hw
    apply one_div_le_one_div_of_le (by positivity)
    nlinarith
  unfold invMetric
  have := hb mx wx hx h1
  have := hb my wy hy h2
  have := hb mz wz hz h3
  linarith

/-- **CFL for the grid as constructed**: for valid (strictly increasing) edges, whatever the uniformity verdict,
the rounding of the nominal spacing and the tolerances are, the step computed from the grid's own minimum widths
satisfies the bound — and therefore the local Courant condition holds in EVERY cell `(i, j, k)`. -/
theorem C37_cfl_every_cell (sqrt : K → K) (hq : SqrtSpec sqrt) (cf c : K) (hcf : 0 ≤ cf) (hc : 0 < c)
    (rnd : K → K) (tol eps8 : K) (ex ey ez : List K)
    (vx : validEdges ex = true) (vy : validEdges ey = true) (vz : validEdges ez = true)
    (i j k : Nat) (hi : i + 1 < ex.length) (hj : j + 1 < ey.length) (hk : k + 1 < ez.length) :
    let dt := cflTimeStep sqrt cf c (uniformSpacing rnd tol eps8 ex ey ez) (minSpacing ex) (minSpacing ey) (minSpacing ez)
    dt * c * sqrt (invMetric (minSpacing ex) (minSpacing ey) (minSpacing ez)) ≤ cf ∧
    dt * c * sqrt (invMetric (width ex i) (width ey j) (width ez k)) ≤ cf := by
  obtain ⟨sx, lx⟩ := sorted_of_validEdges ex vx
  obtain ⟨sy, ly⟩ := sorted_of_validEdges ey vy
  obtain ⟨sz, lz⟩ := sorted_of_validEdges ez vz
  obtain ⟨px, mx⟩ := minSpacing_spec ex sx lx
  obtain ⟨py, my⟩ := minSpacing_spec ey sy ly
  obtain ⟨pz, mz⟩ := minSpacing_spec ez sz lz
  intro dt
  have hmain := C37_cfl_bound sqrt hq cf c hcf hc (uniformSpacing rnd tol eps8 ex ey ez) _ _ _ px py pz
  refine ⟨hmain, ?_⟩
  have hloc : 0 < invMetric (width ex i) (width ey j) (width ez k) :=
    invMetric_pos _ _ _ (lt_of_lt_of_le px (mx i hi)) (lt_of_lt_of_le py (my j hj)) (lt_of_lt_of_le pz (mz k hk))
  have hmono := sqrt_mono_of sqrt hq _ _ (le_of_lt hloc)
    (invMetric_anti _ _ _ _ _ _ px py pz (mx i hi) (my j hj) (mz k hk))
  have hRloc := (hq _ (le_of_lt hloc)).1
  rcases le_or_gt 0 (dt * c) with hpos | hneg
  · exact le_trans (mul_le_mul_of_nonneg_left hmono hpos) hmain
  · exact le_trans (mul_nonpos_of_nonpos_of_nonneg (le_of_lt hneg) hRloc) hcf

/-- **a grid accepted as uniform still respects its smallest cell**: when the verdict is "uniform" (recorded spacing
`rnd (nominal)`, whatever the rounding does), the step satisfies the CFL bound built from the minimum widths. -/
theorem C37_cfl_uniform_accepted (sqrt : K → K) (hq : SqrtSpec sqrt) (cf c : K) (hcf : 0 ≤ cf) (hc : 0 < c)
    (rnd : K → K) (tol eps8 : K) (ex ey ez : List K)
    (vx : validEdges ex = true) (vy : validEdges ey = true) (vz : validEdges ez = true)
    (hu : isUniform tol eps8 ex ey ez = true) :
    uniformSpacing rnd tol eps8 ex ey ez = some (rnd (nominal ex)) ∧
    cflTimeStep sqrt cf c (some (rnd (nominal ex))) (minSpacing ex) (minSpacing ey) (minSpacing ez) * c
      * sqrt (invMetric (minSpacing ex) (minSpacing ey) (minSpacing ez)) ≤ cf := by
  obtain ⟨sx, lx⟩ := sorted_of_validEdges ex vx
  obtain ⟨sy, ly⟩ := sorted_of_validEdges ey vy
  obtain ⟨sz, lz⟩ := sorted_of_validEdges ez vz
  refine ⟨by unfold uniformSpacing; rw [if_pos hu], ?_⟩
  exact C37_cfl_bound sqrt hq cf c hcf hc _ _ _ _ (minSpacing_spec ex sx lx).1 (minSpacing_spec ey sy ly).1
    (minSpacing_spec ez sz lz).1

namespace AsFound

/-- **Refutation witness for the pinned tree**: x edges `[0, 1, 1.99995]`, y = z edges `[0, 1, 2]` are detected as
uniform (`as_found_grid_is_uniform`), the recorded spacing is 1, the smallest x width is 0.99995 — and the as-found
step exceeds the CFL limit for courant factor 1: `dt·c·√(Σ 1/Δmin²) > 1`.  (Replayed on the real code in K/S.) -/
theorem cfl_violated (sqrt : K → K) (hq : SqrtSpec sqrt) :
    1 < AsFound.cflTimeStep sqrt 1 1 (some 1) (99995 / 100000 : K) 1 1
          * 1 * sqrt (invMetric (99995 / 100000 : K) 1 1) := by
  have hI : (3 : K) < invMetric (99995 / 100000 : K) 1 1 := by unfold invMetric; norm_num
  have hR := sqrt_pos_of sqrt hq _ (lt_trans (by norm_num) hI)
  have h3 := sqrt_pos_of sqrt hq 3 (by norm_num)
  obtain ⟨_, hR2⟩ := hq (invMetric (99995 / 100000 : K) 1 1) (by linarith)
  obtain ⟨_, h32⟩ := hq 3 (by norm_num)
  show 1 < (1 / sqrt 3) * 1 / 1 * 1 * sqrt (invMetric (99995 / 100000 : K) 1 1)
  have : sqrt 3 < sqrt (invMetric (99995 / 100000 : K) 1 1) := by
    by_contra h
    have h' := not_lt.mp h
    have := mul_le_mul h' h' (le_of_lt hR) (le_of_lt h3)
    rw [hR2, h32] at this; linarith
  rw [show (1 / sqrt 3) * 1 / 1 * 1 * sqrt (invMetric (99995 / 100000 : K) 1 1)
      = sqrt (invMetric (99995 / 100000 : K) 1 1) / sqrt 3 by ring, lt_div_iff₀ h3]
  linarith

end AsFound

/-! ## uniformity rule -/

theorem mem_widths (e : List K) (w : K) : w ∈ widths e ↔ ∃ i, i + 1 < e.length ∧ w = width e i := by
  unfold widths
  simp only [List.mem_map, List.mem_range]
  constructor
  · rintro ⟨i, hi, rfl⟩; exact ⟨i, by omega, rfl⟩
  · rintro ⟨i, hi, rfl⟩; exact ⟨i, by omega, rfl⟩

/-- the per-axis rule as a statement about every cell -/
theorem C37_axisUniform_iff (tol eps8 s : K) (htol : 0 ≤ tol) (heps : 0 ≤ eps8) (e : List K) :
    axisUniform tol eps8 s e = true ↔
      ∀ i, i + 1 < e.length → |width e i - s| ≤ tol * |s| + eps8 * maxAbs e := by
  unfold axisUniform
  simp only [Bool.not_eq_true', decide_eq_false_iff_not, not_lt, absv_eq_abs]
  rw [maxAbs_le_iff]
  have hb : 0 ≤ tol * |s| + eps8 * maxAbs e :=
    add_nonneg (mul_nonneg htol (abs_nonneg s)) (mul_nonneg heps (maxAbs_nonneg e))
  constructor
  · rintro ⟨_, h⟩ i hi
    exact h _ (List.mem_map.mpr ⟨width e i, (mem_widths e _).mpr ⟨i, hi, rfl⟩, rfl⟩)
  · intro h
    refine ⟨hb, ?_⟩
    intro x hx
    obtain ⟨w, hw, rfl⟩ := List.mem_map.mp hx
    obtain ⟨i, hi, rfl⟩ := (mem_widths e w).mp hw
    exact h i hi

/-- **documented consequence 1**: a grid whose widths are all EQUAL is uniform, for every cell count, every
scale and every origin (the round-off floor only helps). -/
theorem C37_uniform_of_equal_widths (tol eps8 : K) (htol : 0 ≤ tol) (heps : 0 ≤ eps8) (ex ey ez : List K)
    (h : K) (hx : ∀ i, i + 1 < ex.length → width ex i = h) (hy : ∀ i, i + 1 < ey.length → width ey i = h)
    (hz : ∀ i, i + 1 < ez.length → width ez i = h) (hnx : 2 ≤ ex.length) :
    isUniform tol eps8 ex ey ez = true ∧ ∀ rnd : K → K, uniformSpacing rnd tol eps8 ex ey ez = some (rnd h) := by
  have hnom : nominal ex = h := hx 0 (by omega)
  have key : ∀ e : List K, (∀ i, i + 1 < e.length → width e i = h) → axisUniform tol eps8 h e = true := by
    intro e he
    rw [C37_axisUniform_iff tol eps8 h htol heps]
    intro i hi
    rw [he i hi, sub_self, abs_zero]
    exact add_nonneg (mul_nonneg htol (abs_nonneg h)) (mul_nonneg heps (maxAbs_nonneg e))
  have hu : isUniform tol eps8 ex ey ez = true := by
    unfold isUniform; rw [hnom, key ex hx, key ey hy, key ez hz]; rfl
  refine ⟨hu, fun rnd => ?_⟩
  unfold uniformSpacing; rw [if_pos hu, hnom]

/-- **documented consequence 2**: a cell whose width differs from the nominal spacing by more than the relative
tolerance plus the round-off floor of its axis makes the grid non-uniform. -/
theorem C37_nonuniform_detected (tol eps8 : K) (htol : 0 ≤ tol) (heps : 0 ≤ eps8) (ex ey ez : List K)
    (h : (∃ i, i + 1 < ex.length ∧ tol * |nominal ex| + eps8 * maxAbs ex < |width ex i - nominal ex|) ∨
         (∃ i, i + 1 < ey.length ∧ tol * |nominal ex| + eps8 * maxAbs ey < |width ey i - nominal ex|) ∨
         (∃ i, i + 1 < ez.length ∧ tol * |nominal ex| + eps8 * maxAbs ez < |width ez i - nominal ex|)) :
    isUniform tol eps8 ex ey ez = false ∧ ∀ rnd : K → K, uniformSpacing rnd tol eps8 ex ey ez = none := by
  have key : ∀ e : List K, (∃ i, i + 1 < e.length ∧ tol * |nominal ex| + eps8 * maxAbs e < |width e i - nominal ex|) →
      axisUniform tol eps8 (nominal ex) e = false := by
    rintro e ⟨i, hi, hlt⟩
    by_contra hne
    have ht : axisUniform tol eps8 (nominal ex) e = true := by simpa using hne
    have := (C37_axisUniform_iff tol eps8 _ htol heps e).mp ht i hi
    exact absurd hlt (not_lt.mpr this)
  have hu : isUniform tol eps8 ex ey ez = false := by
    unfold isUniform
    rcases h with h | h | h
    · rw [key ex h]; rfl
    · rw [key ey h]; simp
    · rw [key ez h]; simp
  refine ⟨hu, fun rnd => ?_⟩
  unfold uniformSpacing; rw [if_neg (by simp [hu])]

/-- a grid accepted as uniform has every width within the tolerance of the nominal spacing -/
theorem C37_uniform_widths_close (tol eps8 : K) (htol : 0 ≤ tol) (heps : 0 ≤ eps8) (ex ey ez : List K)
    (hu : isUniform tol eps8 ex ey ez = true) :
    (∀ i, i + 1 < ex.length → |width ex i - nominal ex| ≤ tol * |nominal ex| + eps8 * maxAbs ex) ∧
    (∀ i, i + 1 < ey.length → |width ey i - nominal ex| ≤ tol * |nominal ex| + eps8 * maxAbs ey) ∧
    (∀ i, i + 1 < ez.length → |width ez i - nominal ex| ≤ tol * |nominal ex| + eps8 * maxAbs ez) := by
  unfold isUniform at hu
  simp only [Bool.and_eq_true] at hu
  exact ⟨(C37_axisUniform_iff tol eps8 _ htol heps ex).mp hu.1.1,
    (C37_axisUniform_iff tol eps8 _ htol heps ey).mp hu.1.2,
    (C37_axisUniform_iff tol eps8 _ htol heps ez).mp hu.2⟩

/-- **two-sided**: the rule is symmetric in the sign of the deviation — a cell counts whether it is NARROWER or WIDER
than the nominal spacing (the code takes `max |w − s|`, not `|max (w − s)|`) -/
theorem C37_axisUniform_two_sided (tol eps8 s : K) (htol : 0 ≤ tol) (heps : 0 ≤ eps8) (e : List K) :
    axisUniform tol eps8 s e = true ↔
      ∀ i, i + 1 < e.length →
        s - (tol * |s| + eps8 * maxAbs e) ≤ width e i ∧ width e i ≤ s + (tol * |s| + eps8 * maxAbs e) := by
  rw [C37_axisUniform_iff tol eps8 s htol heps]
  constructor
  · intro h i hi
    have := abs_le.mp (h i hi)
    constructor <;> linarith [this.1, this.2]
  · intro h i hi
    obtain ⟨h1, h2⟩ := h i hi
    exact abs_le.mpr ⟨by linarith, by linarith⟩

/-- one cell narrower than the nominal spacing by more than the bound — on any axis — makes the grid non-uniform,
exactly like one wider cell does -/
theorem C37_narrow_or_wide_cell_detected (tol eps8 : K) (htol : 0 ≤ tol) (heps : 0 ≤ eps8) (ex ey ez : List K)
    (h : (∃ i, i + 1 < ex.length ∧ (width ex i < nominal ex - (tol * |nominal ex| + eps8 * maxAbs ex) ∨
                                     nominal ex + (tol * |nominal ex| + eps8 * maxAbs ex) < width ex i)) ∨
         (∃ i, i + 1 < ey.length ∧ (width ey i < nominal ex - (tol * |nominal ex| + eps8 * maxAbs ey) ∨
                                     nominal ex + (tol * |nominal ex| + eps8 * maxAbs ey) < width ey i)) ∨
         (∃ i, i + 1 < ez.length ∧ (width ez i < nominal ex - (tol * |nominal ex| + eps8 * maxAbs ez) ∨
                                     nominal ex + (tol * |nominal ex| + eps8 * maxAbs ez) < width ez i))) :
    isUniform tol eps8 ex ey ez = false ∧ ∀ rnd : K → K, uniformSpacing rnd tol eps8 ex ey ez = none := by
  apply C37_nonuniform_detected tol eps8 htol heps
  have key : ∀ (w b : K), (w < nominal ex - b ∨ nominal ex + b < w) → b < |w - nominal ex| := by
    intro w b hw
    rcases hw with hw | hw
    · exact lt_abs.mpr (Or.inr (by linarith))
    · exact lt_abs.mpr (Or.inl (by linarith))
  rcases h with ⟨i, hi, hw⟩ | ⟨i, hi, hw⟩ | ⟨i, hi, hw⟩
  · exact Or.inl ⟨i, hi, key _ _ hw⟩
  · exact Or.inr (Or.inl ⟨i, hi, key _ _ hw⟩)
  · exact Or.inr (Or.inr ⟨i, hi, key _ _ hw⟩)

/-- **"at any scale"**: multiplying every edge by `a > 0` (a change of length unit) does not change the verdict —
the rule is purely relative, including its round-off floor. -/
theorem maxAbs_scale (l : List K) (a : K) (ha : 0 ≤ a) : maxAbs (l.map (a * ·)) = a * maxAbs l := by
  apply le_antisymm
  · rw [maxAbs_le_iff]
    refine ⟨mul_nonneg ha (maxAbs_nonneg l), ?_⟩
    intro x hx
    obtain ⟨y, hy, rfl⟩ := List.mem_map.mp hx
    rw [abs_mul, abs_of_nonneg ha]
    exact mul_le_mul_of_nonneg_left (abs_le_maxAbs l y hy) ha
  · rcases eq_or_lt_of_le ha with h0 | hpos
    · rw [← h0, zero_mul]; exact maxAbs_nonneg _
    · rw [← le_div_iff₀' hpos, maxAbs_le_iff]
      refine ⟨div_nonneg (maxAbs_nonneg _) ha, ?_⟩
      intro y hy
      rw [le_div_iff₀' hpos]
      have := abs_le_maxAbs (l.map (a * ·)) (a * y) (List.mem_map.mpr ⟨y, hy, rfl⟩)
      rwa [abs_mul, abs_of_nonneg ha] at this

theorem edge_scale (e : List K) (a : K) (i : Nat) : edge (e.map (a * ·)) i = a * edge e i := by
  unfold edge
  rw [List.getD_eq_getElem?_getD, List.getD_eq_getElem?_getD, List.getElem?_map]
  cases e[i]? <;> simp

theorem width_scale (e : List K) (a : K) (i : Nat) : width (e.map (a * ·)) i = a * width e i := by
  unfold width; rw [edge_scale, edge_scale]; ring

theorem axisUniform_scale (tol eps8 s a : K) (htol : 0 ≤ tol) (heps : 0 ≤ eps8) (ha : 0 < a) (e : List K) :
    axisUniform tol eps8 (a * s) (e.map (a * ·)) = axisUniform tol eps8 s e := by
  rw [Bool.eq_iff_iff, C37_axisUniform_iff tol eps8 _ htol heps, C37_axisUniform_iff tol eps8 _ htol heps]
  simp only [List.length_map, width_scale, maxAbs_scale e a (le_of_lt ha)]
  have key : ∀ w : K, |a * w - a * s| ≤ tol * |a * s| + eps8 * (a * maxAbs e) ↔
      |w - s| ≤ tol * |s| + eps8 * maxAbs e := by
    intro w
    rw [← mul_sub, abs_mul, abs_mul, abs_of_pos ha,
      show tol * (a * |s|) + eps8 * (a * maxAbs e) = a * (tol * |s| + eps8 * maxAbs e) by ring]
    exact mul_le_mul_iff_right₀ ha
  constructor
  · intro h i hi; exact (key _).mp (h i hi)
  · intro h i hi; exact (key _).mpr (h i hi)

theorem C37_uniform_scale_invariant (tol eps8 a : K) (htol : 0 ≤ tol) (heps : 0 ≤ eps8) (ha : 0 < a)
    (ex ey ez : List K) :
    isUniform tol eps8 (ex.map (a * ·)) (ey.map (a * ·)) (ez.map (a * ·)) = isUniform tol eps8 ex ey ez := by
  unfold isUniform
  have hn : nominal (ex.map (a * ·)) = a * nominal ex := width_scale ex a 0
  rw [hn, axisUniform_scale tol eps8 _ a htol heps ha, axisUniform_scale tol eps8 _ a htol heps ha,
    axisUniform_scale tol eps8 _ a htol heps ha]

/-! ## reduce_symmetric -/

theorem widths_length (e : List K) : (widths e).length = e.length - 1 := by simp [widths]

theorem widths_getD (e : List K) (i : Nat) (hi : i + 1 < e.length) : (widths e).getD i 0 = width e i := by
  unfold widths
  have : i < e.length - 1 := by omega
  simp [this]

/-- `allclose(w, reverse w, rtol, 0)` cell by cell -/
theorem mirrorOK_iff (tol : K) (w : List K) :
    mirrorOK tol w = true ↔
      ∀ i, i < w.length → |w.getD i 0 - w.getD (w.length - 1 - i) 0| ≤ tol * |w.getD (w.length - 1 - i) 0| := by
  unfold mirrorOK
  rw [List.all_eq_true]
  constructor
  · intro h i hi
    have hz : i < (w.zip w.reverse).length := by simp; exact hi
    have hmem : (w.zip w.reverse)[i] ∈ w.zip w.reverse := List.getElem_mem hz
    have := h _ hmem
    simp only [List.getElem_zip, List.getElem_reverse, Bool.not_eq_true', decide_eq_false_iff_not, not_lt,
      absv_eq_abs] at this
    have hi2 : w.length - 1 - i < w.length := by omega
    simpa [hi, hi2] using this
  · intro h p hp
    obtain ⟨i, hi, rfl⟩ := List.mem_iff_getElem.mp hp
    have hi' : i < w.length := by simp at hi; exact hi
    have hi2 : w.length - 1 - i < w.length := by omega
    have := h i hi'
    simp only [List.getElem_zip, List.getElem_reverse, Bool.not_eq_true', decide_eq_false_iff_not, not_lt,
      absv_eq_abs]
    simpa [hi', hi2] using this

/-- the mirror condition of `reduce_symmetric` on an axis with `n = length − 1` cells -/
def MirrorWithin (tol : K) (e : List K) : Prop :=
  ∀ i, i + 1 < e.length → |width e i - width e (e.length - 2 - i)| ≤ tol * |width e (e.length - 2 - i)|

theorem mirrorOK_widths_iff (tol : K) (e : List K) : mirrorOK tol (widths e) = true ↔ MirrorWithin tol e := by
  rw [mirrorOK_iff, widths_length]
  constructor
  · intro h i hi
    have := h i (by omega)
    rw [widths_getD e i hi, show e.length - 1 - 1 - i = e.length - 2 - i by omega,
      widths_getD e _ (by omega)] at this
    exact this
  · intro h i hi
    have := h i (by omega)
    rw [widths_getD e i (by omega), show e.length - 1 - 1 - i = e.length - 2 - i by omega,
      widths_getD e _ (by omega)]
    exact this

theorem C37_reduce_identity (tol : K) (e : List K) : reduceAxis tol false e = .ok e := by
  simp [reduceAxis]

/-- **reduce_symmetric, one symmetric axis**: accepted exactly when the cell count is even and ≥ 2 and the widths
mirror within the tolerance; the result is then `edges[n/2:]` (n/2 + 1 edges, i.e. the upper half). -/
theorem C37_reduce_ok_iff (tol : K) (e r : List K) :
    reduceAxis tol true e = .ok r ↔
      (2 ≤ e.length - 1 ∧ (e.length - 1) % 2 = 0 ∧ MirrorWithin tol e ∧ r = e.drop ((e.length - 1) / 2)) := by
  unfold reduceAxis
  simp only [Bool.not_true, Bool.false_eq_true, if_false]
  by_cases hodd : e.length - 1 < 2 ∨ (e.length - 1) % 2 ≠ 0
  · rw [if_pos hodd]
    constructor
    · intro h; cases h
    · rintro ⟨h1, h2, _⟩; omega
  · rw [if_neg hodd]
    by_cases hm : mirrorOK tol (widths e) = true
    · rw [if_neg (by simp [hm])]
      constructor
      · intro h
        injection h with h
        exact ⟨by omega, by omega, (mirrorOK_widths_iff tol e).mp hm, h.symm⟩
      · rintro ⟨_, _, _, rfl⟩; rfl
    · rw [if_pos (by simpa using hm)]
      constructor
      · intro h; cases h
      · rintro ⟨_, _, h3, _⟩
        exact absurd ((mirrorOK_widths_iff tol e).mpr h3) hm

theorem C37_reduce_keeps_upper_half (tol : K) (e r : List K) (h : reduceAxis tol true e = .ok r) :
    r.length = (e.length - 1) / 2 + 1 ∧ ∀ i, edge r i = edge e ((e.length - 1) / 2 + i) := by
  obtain ⟨h1, h2, _, rfl⟩ := (C37_reduce_ok_iff tol e r).mp h
  refine ⟨by simp; omega, fun i => ?_⟩
  simp [edge, List.getD_eq_getElem?_getD]

/-- odd (or < 2) cell counts are rejected -/
theorem C37_reduce_rejects_odd (tol : K) (e : List K) (h : e.length - 1 < 2 ∨ (e.length - 1) % 2 = 1) :
    reduceAxis tol true e = .error "err-odd" := by
  unfold reduceAxis
  simp only [Bool.not_true, Bool.false_eq_true, if_false]
  rw [if_pos (by omega)]

/-- exactly mirror-symmetric widths on an even axis are accepted (any tolerance ≥ 0) -/
theorem C37_reduce_accepts_mirror (tol : K) (htol : 0 ≤ tol) (e : List K) (h2 : 2 ≤ e.length - 1)
    (hev : (e.length - 1) % 2 = 0) (hm : ∀ i, i + 1 < e.length → width e i = width e (e.length - 2 - i)) :
    reduceAxis tol true e = .ok (e.drop ((e.length - 1) / 2)) := by
  rw [C37_reduce_ok_iff]
  refine ⟨h2, hev, ?_, rfl⟩
  intro i hi
  rw [hm i hi, sub_self, abs_zero]
  exact mul_nonneg htol (abs_nonneg _)

/-- widths that are not mirror images beyond the tolerance are rejected -/
theorem C37_reduce_rejects_asym (tol : K) (e : List K) (h2 : 2 ≤ e.length - 1) (hev : (e.length - 1) % 2 = 0)
    (i : Nat) (hi : i + 1 < e.length)
    (hbad : tol * |width e (e.length - 2 - i)| < |width e i - width e (e.length - 2 - i)|) :
    reduceAxis tol true e = .error "err-mirror" := by
  unfold reduceAxis
  simp only [Bool.not_true, Bool.false_eq_true, if_false]
  rw [if_neg (by omega)]
  have : ¬ mirrorOK tol (widths e) = true := by
    rw [mirrorOK_widths_iff]
    intro h
    exact absurd hbad (not_lt.mpr (h i hi))
  rw [if_pos (by simpa using this)]

/-! ## non-vacuity: the hypotheses are met by concrete grids (K = ℚ) -/

section examples

/-- a non-uniform sorted axis -/
def exEdges : List ℚ := [0, 1, 3, 4, 8]

example : validEdges exEdges = true := by decide +kernel
example : Sorted exEdges := (sorted_of_validEdges exEdges (by decide)).1
example : nearest exEdges 2 = 1 := by decide +kernel            -- tie between edges 1 and 3: the lower one
example : nearest exEdges (-5) = 0 ∧ nearest exEdges 100 = 4 := by decide +kernel
example : lowerIdx exEdges (-1) = -1 ∧ lowerIdx exEdges 3 = 2 ∧ lowerIdx exEdges 9 = 4 := by decide +kernel
example : upperIdx exEdges (-1) = 0 ∧ upperIdx exEdges 3 = 2 ∧ upperIdx exEdges 9 = 5 := by decide +kernel
example : boundsForCenter exEdges 2 (5 / 2) = .ok (1, 3) := by decide +kernel
example : boundsForCenter exEdges 2 2 = .ok (0, 2) := by decide +kernel      -- tie between [0,3] and [1,4]: the first
example : boundsForAnchor exEdges 2 3 (-1) = .ok (2, 4) := by decide +kernel
example : boundsForCenter exEdges 5 0 = .error "err-fit" ∧ boundsForCenter exEdges 0 0 = .error "err-size" := by
  decide +kernel
/-- mirror-symmetric axis accepted, asymmetric rejected, odd rejected -/
example : reduceAxis (1 / 10000 : ℚ) true [0, 1, 3, 5, 6] = .ok [3, 5, 6] := by decide +kernel
example : reduceAxis (1 / 10000 : ℚ) true exEdges = .error "err-mirror" := by decide +kernel
example : reduceAxis (1 / 10000 : ℚ) true [0, 1, 2, 3] = .error "err-odd" := by decide +kernel
/-- the as-found CFL witness grid IS detected as uniform with recorded spacing 1 and smallest x width 0.99995 -/
example : uniformSpacing (α := ℚ) id (1 / 10000) 0 [0, 1, 199995 / 100000] [0, 1, 2] [0, 1, 2] = some 1 := by decide +kernel
example : minSpacing (α := ℚ) [0, 1, 199995 / 100000] = 99995 / 100000 := by decide +kernel
/-- a coarse rim with a refined centre (only NARROWER cells than the first x cell) is not uniform, nor is one thin end cell -/
example : uniformSpacing (α := ℚ) id (1 / 10000) 0 [0, 1, 3 / 2, 2, 3] [0, 1, 2] [0, 1, 2] = none := by decide +kernel
example : uniformSpacing (α := ℚ) id (1 / 10000) 0 [0, 1, 2] [0, 1, 2] [0, 1, 2, 5 / 2] = none := by decide +kernel
/-- a genuinely stretched grid is not -/
example : uniformSpacing (α := ℚ) id (1 / 10000) 0 [0, 1, 2] [0, 1, 2] exEdges = none := by decide +kernel

/-- the square-root hypothesis is met by the real square root -/
example : SqrtSpec Real.sqrt := fun x hx => ⟨Real.sqrt_nonneg x, Real.mul_self_sqrt hx⟩
/-- so the CFL theorem applies to a concrete stretched grid over ℝ -/
example : validEdges ([0, 1, 3, 4, 8] : List ℚ) = true ∧ validEdges ([0, 1 / 2, 1] : List ℚ) = true := by decide +kernel

end examples

end Fdtdx.C37
