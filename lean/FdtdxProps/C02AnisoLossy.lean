/-
C02 — LOSSY full 3×3 tensors: what the reverse step does reconstruct.

With σ ≠ none the full-tensor reverse update is not an inverse of the forward update (`aniso_lossy_roundtrip_fails`, kept
below as the witness): the off-diagonal entries of A and A_rev act on neighbour AVERAGES.  Precisely what survives:

  aniso_lossy_cell_local_H             H-form of the cell-local identity: A_rev·(A·h − B·k) + B_rev·k = h
  aniso_lossy_reconstructs_local_E     at every cell that is on no PEC wall layer, whose 3×3 systems are regular (`LossOK`)
                                       and at which the six neighbour averages return the value of the cell itself for the
                                       three arrays the two half steps average — the field E, the curl of H, and the updated
                                       field minus its source term — the reverse E update returns E at that cell (all three
                                       components), for any halo rule, metric, widths, sources and any state elsewhere.
  aniso_lossy_reconstructs_local_H     the same for the H half step (PMC layers, curl of E).
  aniso_lossy_reconstructs_const       instance: homogeneous medium, every axis periodic (ghost multipliers 1) without walls,
                                       spatially constant E and H, uniform averaging, 2 ≠ 0 in the field: the hypotheses hold
                                       at every cell, so backwardA (forwardA s) = s for such states although the medium is lossy.

The hypothesis "averages return the cell value" (`AvgFixed`) is exactly what fails in the witness (the zero halo makes the
average of E_x a quarter of its value).  The implementation-side oracle `lossy_local_fails` of harness/c02.py evaluates
these instances on the real code.
-/
import FdtdxProps.C02Aniso

namespace Fdtdx.C02
open Fdtdx Fdtdx.Yee Fdtdx.YeeAniso Fdtdx.C01

section
variable {K : Type} [Field K]

theorem M3.vec_add (a : M3 K) (u v : K × K × K) : M3.vec a (u + v) = M3.vec a u + M3.vec a v := by
  simp only [M3.vec, Prod.fst_add, Prod.snd_add, Prod.mk_add_mk, Prod.mk.injEq]
  refine ⟨?_, ?_, ?_⟩ <;> ring

theorem M3.vec_sub (a : M3 K) (u v : K × K × K) : M3.vec a (u - v) = M3.vec a u - M3.vec a v := by
  simp only [M3.vec, Prod.fst_sub, Prod.snd_sub, Prod.mk_sub_mk, Prod.mk.injEq]
  refine ⟨?_, ?_, ?_⟩ <;> ring

/-- **aniso_lossy_cell_local_H**: the H form (forward subtracts, reverse adds the curl term) -/
theorem aniso_lossy_cell_local_H (c etaF : K) (inv : M3 K) (sig : Option (M3 K)) (h : LossOK c etaF inv sig)
    (e k : K × K × K) :
    M3.vec (updMatsRev c etaF inv sig).1 (M3.vec (updMats c etaF inv sig).1 e - M3.vec (updMats c etaF inv sig).2 k)
      + M3.vec (updMatsRev c etaF inv sig).2 k = e := by
  have hA := aniso_Arev_Afwd c etaF inv sig h
  have hB := aniso_Brev c etaF inv sig h
  have e1 : M3.vec (updMatsRev c etaF inv sig).1 (M3.vec (updMats c etaF inv sig).1 e) = e := by
    rw [← M3.vec_mul, hA, M3.vec_one]
  have e2 : M3.vec (updMatsRev c etaF inv sig).2 k
      = M3.vec (updMatsRev c etaF inv sig).1 (M3.vec (updMats c etaF inv sig).2 k) := by
    rw [← M3.vec_mul, ← hB]
  rw [M3.vec_sub, e1, e2]
  simp

/-- the six neighbour averages used by the rows of a full-tensor update return, at the cell, the value of the cell -/
structure AvgFixed (avg : Nat → Nat → F3 K → F3 K) (V : V3 K) (i j k : Nat) : Prop where
  yx : avg 1 0 V.y i j k = V.y i j k
  zx : avg 2 0 V.z i j k = V.z i j k
  xy : avg 0 1 V.x i j k = V.x i j k
  zy : avg 2 1 V.z i j k = V.z i j k
  xz : avg 0 2 V.x i j k = V.x i j k
  yz : avg 1 2 V.y i j k = V.y i j k

/-- at such a cell the rows of `T` applied to `V` are the plain matrix–vector product -/
theorem rowsApply_fixed (avg : Nat → Nat → F3 K → F3 K) (T : F3 (M3 K)) (V : V3 K) (i j k : Nat)
    (h : AvgFixed avg V i j k) :
    ((rowsApply avg T V).x i j k, (rowsApply avg T V).y i j k, (rowsApply avg T V).z i j k)
      = M3.vec (T i j k) (V.x i j k, V.y i j k, V.z i j k) := by
  simp only [rowsApply, M3.vec, h.yx, h.zx, h.xy, h.zy, h.xz, h.yz]

/-- **aniso_lossy_reconstructs_local_E** -/
theorem aniso_lossy_reconstructs_local_E (cf : Cfg K) (aw : Option (AW K)) (inv : F3 (M3 K)) (sig : Option (F3 (M3 K)))
    (jE E H : V3 K) (i j k : Nat)
    (hm0 : pecMask cf 0 i j k = false) (hm1 : pecMask cf 1 i j k = false) (hm2 : pecMask cf 2 i j k = false)
    (hl : LossOK cf.c cf.eta0 (inv i j k) (sigAt sig i j k))
    (hE : AvgFixed (avgE cf aw) E i j k) (hK : AvgFixed (avgE cf aw) (curlH cf H) i j k)
    (hE' : AvgFixed (avgE cf aw) (subV (stepEFull cf aw inv sig jE E H) jE) i j k) :
    (revStepEFull cf aw inv sig jE (stepEFull cf aw inv sig jE E H) H).x i j k = E.x i j k
    ∧ (revStepEFull cf aw inv sig jE (stepEFull cf aw inv sig jE E H) H).y i j k = E.y i j k
    ∧ (revStepEFull cf aw inv sig jE (stepEFull cf aw inv sig jE E H) H).z i j k = E.z i j k := by
  -- the updated field minus its source term, at the cell: A·e + B·k
  have hfw : ((subV (stepEFull cf aw inv sig jE E H) jE).x i j k, (subV (stepEFull cf aw inv sig jE E H) jE).y i j k,
      (subV (stepEFull cf aw inv sig jE E H) jE).z i j k)
      = M3.vec (updMats cf.c cf.eta0 (inv i j k) (sigAt sig i j k)).1 (E.x i j k, E.y i j k, E.z i j k)
        + M3.vec (updMats cf.c cf.eta0 (inv i j k) (sigAt sig i j k)).2
            ((curlH cf H).x i j k, (curlH cf H).y i j k, (curlH cf H).z i j k) := by
    have r1 := rowsApply_fixed (avgE cf aw) (fun i j k => (updMats cf.c cf.eta0 (inv i j k) (sigAt sig i j k)).1) E i j k hE
    have r2 := rowsApply_fixed (avgE cf aw) (fun i j k => (updMats cf.c cf.eta0 (inv i j k) (sigAt sig i j k)).2)
      (curlH cf H) i j k hK
    rw [← r1, ← r2]
    simp [subV, stepEFull, projE, maskV, addV, hm0, hm1, hm2]
  -- the reverse update at the cell: A_rev·(that) − B_rev·k
  have hrv : ((revStepEFull cf aw inv sig jE (stepEFull cf aw inv sig jE E H) H).x i j k,
      (revStepEFull cf aw inv sig jE (stepEFull cf aw inv sig jE E H) H).y i j k,
      (revStepEFull cf aw inv sig jE (stepEFull cf aw inv sig jE E H) H).z i j k)
      = M3.vec (updMatsRev cf.c cf.eta0 (inv i j k) (sigAt sig i j k)).1
          ((subV (stepEFull cf aw inv sig jE E H) jE).x i j k, (subV (stepEFull cf aw inv sig jE E H) jE).y i j k,
            (subV (stepEFull cf aw inv sig jE E H) jE).z i j k)
        - M3.vec (updMatsRev cf.c cf.eta0 (inv i j k) (sigAt sig i j k)).2
            ((curlH cf H).x i j k, (curlH cf H).y i j k, (curlH cf H).z i j k) := by
    have r1 := rowsApply_fixed (avgE cf aw) (fun i j k => (updMatsRev cf.c cf.eta0 (inv i j k) (sigAt sig i j k)).1)
      (subV (stepEFull cf aw inv sig jE E H) jE) i j k hE'
    have r2 := rowsApply_fixed (avgE cf aw) (fun i j k => (updMatsRev cf.c cf.eta0 (inv i j k) (sigAt sig i j k)).2)
      (curlH cf H) i j k hK
    rw [← r1, ← r2]
    simp [revStepEFull, projE, maskV, subV, hm0, hm1, hm2]
  have hloc := aniso_lossy_cell_local cf.c cf.eta0 (inv i j k) (sigAt sig i j k) hl (E.x i j k, E.y i j k, E.z i j k)
    ((curlH cf H).x i j k, (curlH cf H).y i j k, (curlH cf H).z i j k)
  rw [← hfw, ← hrv] at hloc
  exact ⟨congrArg Prod.fst hloc, congrArg (fun p => p.2.1) hloc, congrArg (fun p => p.2.2) hloc⟩

/-- **aniso_lossy_reconstructs_local_H** -/
theorem aniso_lossy_reconstructs_local_H (cf : Cfg K) (aw : Option (AW K)) (inv : F3 (M3 K)) (sig : Option (F3 (M3 K)))
    (jH E' H : V3 K) (i j k : Nat)
    (hm0 : pmcMask cf 0 i j k = false) (hm1 : pmcMask cf 1 i j k = false) (hm2 : pmcMask cf 2 i j k = false)
    (hl : LossOK cf.c (1 / cf.eta0) (inv i j k) (sigAt sig i j k))
    (hH : AvgFixed (avgH cf aw) H i j k) (hK : AvgFixed (avgH cf aw) (curlE cf E') i j k)
    (hH' : AvgFixed (avgH cf aw) (subV (stepHFull cf aw inv sig jH E' H) jH) i j k) :
    (revStepHFull cf aw inv sig jH E' (stepHFull cf aw inv sig jH E' H)).x i j k = H.x i j k
    ∧ (revStepHFull cf aw inv sig jH E' (stepHFull cf aw inv sig jH E' H)).y i j k = H.y i j k
    ∧ (revStepHFull cf aw inv sig jH E' (stepHFull cf aw inv sig jH E' H)).z i j k = H.z i j k := by
  have hfw : ((subV (stepHFull cf aw inv sig jH E' H) jH).x i j k, (subV (stepHFull cf aw inv sig jH E' H) jH).y i j k,
      (subV (stepHFull cf aw inv sig jH E' H) jH).z i j k)
      = M3.vec (updMats cf.c (1 / cf.eta0) (inv i j k) (sigAt sig i j k)).1 (H.x i j k, H.y i j k, H.z i j k)
        - M3.vec (updMats cf.c (1 / cf.eta0) (inv i j k) (sigAt sig i j k)).2
            ((curlE cf E').x i j k, (curlE cf E').y i j k, (curlE cf E').z i j k) := by
    have r1 := rowsApply_fixed (avgH cf aw) (fun i j k => (updMats cf.c (1 / cf.eta0) (inv i j k) (sigAt sig i j k)).1) H i j k hH
    have r2 := rowsApply_fixed (avgH cf aw) (fun i j k => (updMats cf.c (1 / cf.eta0) (inv i j k) (sigAt sig i j k)).2)
      (curlE cf E') i j k hK
    rw [← r1, ← r2]
    simp [subV, stepHFull, projH, maskV, addV, hm0, hm1, hm2]
  have hrv : ((revStepHFull cf aw inv sig jH E' (stepHFull cf aw inv sig jH E' H)).x i j k,
      (revStepHFull cf aw inv sig jH E' (stepHFull cf aw inv sig jH E' H)).y i j k,
      (revStepHFull cf aw inv sig jH E' (stepHFull cf aw inv sig jH E' H)).z i j k)
      = M3.vec (updMatsRev cf.c (1 / cf.eta0) (inv i j k) (sigAt sig i j k)).1
          ((subV (stepHFull cf aw inv sig jH E' H) jH).x i j k, (subV (stepHFull cf aw inv sig jH E' H) jH).y i j k,
            (subV (stepHFull cf aw inv sig jH E' H) jH).z i j k)
        + M3.vec (updMatsRev cf.c (1 / cf.eta0) (inv i j k) (sigAt sig i j k)).2
            ((curlE cf E').x i j k, (curlE cf E').y i j k, (curlE cf E').z i j k) := by
    have r1 := rowsApply_fixed (avgH cf aw) (fun i j k => (updMatsRev cf.c (1 / cf.eta0) (inv i j k) (sigAt sig i j k)).1)
      (subV (stepHFull cf aw inv sig jH E' H) jH) i j k hH'
    have r2 := rowsApply_fixed (avgH cf aw) (fun i j k => (updMatsRev cf.c (1 / cf.eta0) (inv i j k) (sigAt sig i j k)).2)
      (curlE cf E') i j k hK
    rw [← r1, ← r2]
    simp [revStepHFull, projH, maskV, subV, addV, hm0, hm1, hm2]
  have hloc := aniso_lossy_cell_local_H cf.c (1 / cf.eta0) (inv i j k) (sigAt sig i j k) hl (H.x i j k, H.y i j k, H.z i j k)
    ((curlE cf E').x i j k, (curlE cf E').y i j k, (curlE cf E').z i j k)
  rw [← hfw, ← hrv] at hloc
  exact ⟨congrArg Prod.fst hloc, congrArg (fun p => p.2.1) hloc, congrArg (fun p => p.2.2) hloc⟩

/-! ### instance: homogeneous lossy medium, fully periodic domain, spatially constant state -/

/-- a spatially constant vector field -/
def cV (v : K × K × K) : V3 K := ⟨fun _ _ _ => v.1, fun _ _ _ => v.2.1, fun _ _ _ => v.2.2⟩

/-- an axis that wraps with ghost multipliers 1 and carries no wall -/
def PerAxis (b : AxisBC K) : Prop :=
  b.wrap = true ∧ b.pp = 1 ∧ b.pm = 1 ∧ b.pecLo = false ∧ b.pecHi = false ∧ b.pmcLo = false ∧ b.pmcHi = false

structure PeriodicAll (cf : Cfg K) : Prop where
  x : PerAxis cf.bx
  y : PerAxis cf.by_
  z : PerAxis cf.bz

theorem next1_const (n : Nat) (b : AxisBC K) (hb : PerAxis b) (c : K) (i : Nat) : next1 n b (fun _ => c) i = c := by
  unfold next1; simp [hb.1, hb.2.1]

theorem prev1_const (n : Nat) (b : AxisBC K) (hb : PerAxis b) (c : K) (i : Nat) : prev1 n b (fun _ => c) i = c := by
  unfold prev1; simp [hb.1, hb.2.2.1]

theorem nextAx_const (cf : Cfg K) (hP : PeriodicAll cf) (ax : Nat) (c : K) :
    nextAx cf ax (fun _ _ _ => c) = fun _ _ _ => c := by
  match ax with
  | 0 => funext i j k; exact next1_const cf.nx cf.bx hP.x c i
  | 1 => funext i j k; exact next1_const cf.ny cf.by_ hP.y c j
  | n + 2 => funext i j k; exact next1_const cf.nz cf.bz hP.z c k

theorem prevAx_const (cf : Cfg K) (hP : PeriodicAll cf) (ax : Nat) (c : K) :
    prevAx cf ax (fun _ _ _ => c) = fun _ _ _ => c := by
  match ax with
  | 0 => funext i j k; exact prev1_const cf.nx cf.bx hP.x c i
  | 1 => funext i j k; exact prev1_const cf.ny cf.by_ hP.y c j
  | n + 2 => funext i j k; exact prev1_const cf.nz cf.bz hP.z c k

theorem avg_const (cf : Cfg K) (hP : PeriodicAll cf) (h2 : (2 : K) ≠ 0) (cp l : Nat) (c : K) :
    avgE cf none cp l (fun _ _ _ => c) = (fun _ _ _ => c) ∧ avgH cf none cp l (fun _ _ _ => c) = (fun _ _ _ => c) := by
  have h4 : (4 : K) ≠ 0 := by
    have : (4 : K) = 2 * 2 := by norm_num
    rw [this]; exact mul_ne_zero h2 h2
  constructor
  · simp only [avgE, nextAx_const cf hP, prevAx_const cf hP]
    funext i j k; field_simp; ring
  · simp only [avgH, nextAx_const cf hP, prevAx_const cf hP]
    funext i j k; field_simp; ring

theorem avgFixed_const (cf : Cfg K) (hP : PeriodicAll cf) (h2 : (2 : K) ≠ 0) (v : K × K × K) (i j k : Nat) :
    AvgFixed (avgE cf none) (cV v) i j k ∧ AvgFixed (avgH cf none) (cV v) i j k := by
  constructor <;> constructor <;> simp only [cV] <;>
    first
    | rw [(avg_const cf hP h2 _ _ _).1]
    | rw [(avg_const cf hP h2 _ _ _).2]

theorem curl_const (cf : Cfg K) (hP : PeriodicAll cf) (v : K × K × K) :
    curlH cf (cV v) = cV (0, 0, 0) ∧ curlE cf (cV v) = cV (0, 0, 0) := by
  constructor
  · apply V3.ext' <;> intro i j k <;>
      simp [curlH, cV, prev1_const _ _ hP.x, prev1_const _ _ hP.y, prev1_const _ _ hP.z]
  · apply V3.ext' <;> intro i j k <;>
      simp [curlE, cV, next1_const _ _ hP.x, next1_const _ _ hP.y, next1_const _ _ hP.z]

theorem masks_false (cf : Cfg K) (hP : PeriodicAll cf) (c i j k : Nat) :
    pecMask cf c i j k = false ∧ pmcMask cf c i j k = false := by
  obtain ⟨⟨_, _, _, a1, a2, a3, a4⟩, ⟨_, _, _, b1, b2, b3, b4⟩, ⟨_, _, _, c1, c2, c3, c4⟩⟩ := hP
  simp [pecMask, pmcMask, onWall, a1, a2, a3, a4, b1, b2, b3, b4, c1, c2, c3, c4]

/-- constant tensor field / optional constant conductivity tensor field -/
def cT (T : M3 K) : F3 (M3 K) := fun _ _ _ => T
def cSig (S : Option (M3 K)) : Option (F3 (M3 K)) := S.map cT

omit [Field K] in
theorem sigAt_cSig (S : Option (M3 K)) (i j k : Nat) : sigAt (cSig S) i j k = S := by
  cases S <;> rfl

/-- the forward half steps map constant states to constant states (curls vanish, averages are identities) -/
theorem stepEFull_const (cf : Cfg K) (hP : PeriodicAll cf) (h2 : (2 : K) ≠ 0) (T : M3 K) (S : Option (M3 K))
    (a e h : K × K × K) :
    stepEFull cf none (cT T) (cSig S) (cV a) (cV e) (cV h)
      = cV (M3.vec (updMats cf.c cf.eta0 T S).1 e + M3.vec (updMats cf.c cf.eta0 T S).2 (0, 0, 0) + a) := by
  apply V3.ext' <;> intro i j k <;>
    simp only [stepEFull, projE, maskV, (masks_false cf hP _ i j k).1, addV, rowsApply, (curl_const cf hP h).1, sigAt_cSig, cT] <;>
    simp only [cV, (avg_const cf hP h2 _ _ _).1, M3.vec, Prod.fst_add, Prod.snd_add] <;> simp

theorem stepHFull_const (cf : Cfg K) (hP : PeriodicAll cf) (h2 : (2 : K) ≠ 0) (T : M3 K) (S : Option (M3 K))
    (b e h : K × K × K) :
    stepHFull cf none (cT T) (cSig S) (cV b) (cV e) (cV h)
      = cV (M3.vec (updMats cf.c (1 / cf.eta0) T S).1 h - M3.vec (updMats cf.c (1 / cf.eta0) T S).2 (0, 0, 0) + b) := by
  apply V3.ext' <;> intro i j k <;>
    simp only [stepHFull, projH, maskV, (masks_false cf hP _ i j k).2, addV, subV, rowsApply, (curl_const cf hP e).2, sigAt_cSig, cT] <;>
    simp only [cV, (avg_const cf hP h2 _ _ _).2, M3.vec, Prod.fst_add, Prod.snd_add, Prod.fst_sub, Prod.snd_sub] <;> simp

theorem subV_const (u v : K × K × K) : subV (cV u) (cV v) = cV (u - v) := rfl

/-- **aniso_lossy_reconstructs_const**: lossy full tensors for both fields (homogeneous), every axis periodic without walls,
uniform grid, constant sources and a spatially constant state: one backward step after one forward step returns the state. -/
theorem aniso_lossy_reconstructs_const (cf : Cfg K) (hP : PeriodicAll cf) (h2 : (2 : K) ≠ 0)
    (T1 T2 : M3 K) (S1 S2 : Option (M3 K))
    (hl1 : LossOK cf.c cf.eta0 T1 S1) (hl2 : LossOK cf.c (1 / cf.eta0) T2 S2) (a b e h : K × K × K) :
    let m : MatA K := ⟨.full (cT T1), .full (cT T2), S1.map (fun s => .full (cT s)), S2.map (fun s => .full (cT s))⟩
    backwardA cf none m (cV a) (cV b) (forwardA cf none m (cV a) (cV b) (cV e) (cV h)).1
        (forwardA cf none m (cV a) (cV b) (cV e) (cV h)).2 = (cV e, cV h) := by
  intro m
  have hfE : m.fullE = true := rfl
  have hfH : m.fullH = true := rfl
  have hsE : m.sigE.map Tens.expand = cSig S1 := by cases S1 <;> rfl
  have hsH : m.sigH.map Tens.expand = cSig S2 := by cases S2 <;> rfl
  have hiE : m.invEps.expand = cT T1 := rfl
  have hiH : m.invMu.expand = cT T2 := rfl
  simp only [backwardA, forwardA, stepEA, stepHA, revStepEA, revStepHA, hfE, hfH, if_true, hsE, hsH, hiE, hiH]
  -- E' and H' are constant
  obtain ⟨e', he'⟩ : ∃ e', stepEFull cf none (cT T1) (cSig S1) (cV a) (cV e) (cV h) = cV e' := ⟨_, stepEFull_const cf hP h2 T1 S1 a e h⟩
  rw [he']
  obtain ⟨h', hh'⟩ : ∃ h', stepHFull cf none (cT T2) (cSig S2) (cV b) (cV e') (cV h) = cV h' := ⟨_, stepHFull_const cf hP h2 T2 S2 b e' h⟩
  have hH : revStepHFull cf none (cT T2) (cSig S2) (cV b) (cV e') (stepHFull cf none (cT T2) (cSig S2) (cV b) (cV e') (cV h)) = cV h := by
    apply V3.ext' <;> intro i j k
    all_goals
      have hx := aniso_lossy_reconstructs_local_H cf none (cT T2) (cSig S2) (cV b) (cV e') (cV h) i j k
        (masks_false cf hP 0 i j k).2 (masks_false cf hP 1 i j k).2 (masks_false cf hP 2 i j k).2
        (by rw [sigAt_cSig]; exact hl2) (avgFixed_const cf hP h2 h i j k).2
        (by rw [(curl_const cf hP e').2]; exact (avgFixed_const cf hP h2 _ i j k).2)
        (by rw [hh', subV_const]; exact (avgFixed_const cf hP h2 _ i j k).2)
    · exact hx.1
    · exact hx.2.1
    · exact hx.2.2
  rw [hH, ← he']
  have hE : revStepEFull cf none (cT T1) (cSig S1) (cV a) (stepEFull cf none (cT T1) (cSig S1) (cV a) (cV e) (cV h)) (cV h) = cV e := by
    apply V3.ext' <;> intro i j k
    all_goals
      have hx := aniso_lossy_reconstructs_local_E cf none (cT T1) (cSig S1) (cV a) (cV e) (cV h) i j k
        (masks_false cf hP 0 i j k).1 (masks_false cf hP 1 i j k).1 (masks_false cf hP 2 i j k).1
        (by rw [sigAt_cSig]; exact hl1) (avgFixed_const cf hP h2 e i j k).1
        (by rw [(curl_const cf hP h).1]; exact (avgFixed_const cf hP h2 _ i j k).1)
        (by rw [he', subV_const]; exact (avgFixed_const cf hP h2 _ i j k).1)
    · exact hx.1
    · exact hx.2.1
    · exact hx.2.2
  rw [hE]

end

/-! ### witness and non-vacuity -/

/-- the refutation witness stays: with a zero halo the averages are NOT fixed (¼ of the value), and the round trip fails -/
example : ¬ AvgFixed (avgE cexCfg none) cexE 0 0 0 := by
  intro h
  have := h.xy
  revert this
  decide +kernel

example :
    let s' := forwardA cexCfg none cexMat cexZero cexZero cexE cexZero
    (backwardA cexCfg none cexMat cexZero cexZero s'.1 s'.2).1.x 0 0 0 ≠ cexE.x 0 0 0 := by
  have h := aniso_lossy_roundtrip_fails
  simp only at h ⊢
  rw [h.1, h.2]; norm_num

/-- the same lossy tensor on a periodic one-cell domain: the hypotheses of `aniso_lossy_reconstructs_const` hold -/
def perBC : AxisBC Rat := ⟨true, 1, 1, false, false, false, false⟩
def perCfg : Cfg Rat := { cexCfg with bx := perBC, by_ := perBC, bz := perBC }
example : PeriodicAll perCfg := ⟨by simp [PerAxis, perCfg, perBC], by simp [PerAxis, perCfg, perBC], by simp [PerAxis, perCfg, perBC]⟩
example : LossOK (K := ℚ) perCfg.c perCfg.eta0 ⟨1, 0, 0, 0, 1, 0, 0, 0, 1⟩ (some ⟨0, 1, 0, 1, 0, 0, 0, 0, 0⟩) := by
  constructor <;> norm_num [perCfg, cexCfg, lossMats, M3.det, M3.add, M3.sub, M3.one, M3.smul, M3.mul]

end Fdtdx.C02
