/-
C21 — Design symmetry transforms produce symmetric designs.

Theorems about `FdtdxModel/C21.lean` for every shape, every array over any field of characteristic ≠ 2 and
every transform/option combination that the code accepts (`resolve … = .ok op`):

  sigma_mem / sigma_invol   each of the 13 index maps sends the index box into itself and is an involution on it
                            (transpositions: under the squareness that `resolve` enforces)
  resolve_valid             a successful `resolve` only returns index maps that are valid for the shape
  C21_invariant             out (σ i) = out i             — exactly invariant under the reflection / rotation / transposition
  C21_fixed                 v ∘ σ = v on the box → out = v  — symmetric inputs unchanged
  C21_idempotent            T (T v) = T v
  C21_sum / C21_mean        Σ out = Σ v, hence equal means
  C21_invariant_iff_fixed   the outputs are exactly the σ-invariant arrays
  resolve_*                 which index map each transform uses for each position of the singleton axis

The generic argument (any involution of a finite index set) is `FdtdxLemmas/C21.lean`.
-/
import FdtdxModel.C21
import FdtdxLemmas.C21
import Mathlib.Data.Finset.Prod
import Mathlib.Tactic.Ring

namespace Fdtdx.C21
open AvgInvol

/-- the index set of an array of shape `s` -/
def box (s : Shape) : Finset Idx := Finset.range s.1 ×ˢ Finset.range s.2.1 ×ˢ Finset.range s.2.2

theorem mem_box {s : Shape} {i : Idx} : i ∈ box s ↔ i.1 < s.1 ∧ i.2.1 < s.2.1 ∧ i.2.2 < s.2.2 := by
  simp [box]

theorem card_box (s : Shape) : (box s).card = s.1 * (s.2.1 * s.2.2) := by simp [box]

theorem sigma_mem {s : Shape} {op : Op} (hv : valid s op = true) {i : Idx} (hi : i ∈ box s) :
    sigma s op i ∈ box s := by
  obtain ⟨n0, n1, n2⟩ := s
  obtain ⟨a, b, c⟩ := i
  rw [mem_box] at hi ⊢
  cases op <;> simp only [sigma, valid, beq_iff_eq] at * <;> omega

theorem sigma_invol {s : Shape} {op : Op} (hv : valid s op = true) {i : Idx} (hi : i ∈ box s) :
    sigma s op (sigma s op i) = i := by
  obtain ⟨n0, n1, n2⟩ := s
  obtain ⟨a, b, c⟩ := i
  rw [mem_box] at hi
  cases op <;> simp only [sigma, valid, beq_iff_eq, Prod.mk.injEq, and_true, true_and] at * <;> omega

theorem apply_eq_avg {K : Type} [Field K] (s : Shape) (op : Op) (v : Idx → K) :
    apply s op v = avg (sigma s op) v := rfl

/-- a successful `resolve` returns an index map that is valid for the shape: square where a transposition is involved -/
theorem resolve_valid {name opt : String} {mm : Bool} {s : Shape} {op : Op}
    (h : resolve name opt mm s = .ok op) : valid s op = true := by
  unfold resolve at h
  split at h
  · split at h
    · rename_i hv; simp only [Except.ok.injEq] at h; rw [← h]; exact hv
    · exact absurd h (by simp)
  · exact absurd h (by simp)

section field
variable {K : Type} [Field K] (h2 : (2 : K) ≠ 0)
variable {s : Shape} {op : Op} (hv : valid s op = true)

include hv in
/-- C21_invariant: the output is exactly invariant under the transform's index map. -/
theorem C21_invariant (v : Idx → K) {i : Idx} (hi : i ∈ box s) :
    apply s op v (sigma s op i) = apply s op v i :=
  avg_invariant (s := box s) (fun _ h => sigma_invol hv h) v hi

include h2 in
/-- C21_fixed: where the input already agrees with its mirror image the output equals the input. -/
theorem C21_fixed {v : Idx → K} {i : Idx} (hsym : v (sigma s op i) = v i) : apply s op v i = v i :=
  avg_fixed h2 hsym

include h2 hv in
/-- C21_idempotent -/
theorem C21_idempotent (v : Idx → K) {i : Idx} (hi : i ∈ box s) :
    apply s op (apply s op v) i = apply s op v i :=
  avg_idem (s := box s) h2 (fun _ h => sigma_invol hv h) v hi

include h2 hv in
/-- C21_sum: the sum over the array is preserved -/
theorem C21_sum (v : Idx → K) : ∑ i ∈ box s, apply s op v i = ∑ i ∈ box s, v i :=
  avg_sum h2 (fun _ h => sigma_mem hv h) (fun _ h => sigma_invol hv h) v

include h2 hv in
/-- C21_mean: … hence the mean -/
theorem C21_mean (v : Idx → K) :
    (∑ i ∈ box s, apply s op v i) / ((box s).card : K) = (∑ i ∈ box s, v i) / ((box s).card : K) := by
  rw [C21_sum h2 hv]

include h2 in
/-- the fixed points of the transform are exactly the arrays invariant under the index map -/
theorem C21_invariant_iff_fixed (v : Idx → K) (i : Idx) : apply s op v i = v i ↔ v (sigma s op i) = v i :=
  invariant_iff_fixed h2 v i

end field

/-- C21_transform: all four facts for every call the implementation accepts. -/
theorem C21_transform {K : Type} [Field K] (h2 : (2 : K) ≠ 0) {name opt : String} {mm : Bool} {s : Shape} {op : Op}
    (h : resolve name opt mm s = .ok op) (v : Idx → K) :
    (∀ i ∈ box s, apply s op v (sigma s op i) = apply s op v i) ∧
    (∀ i ∈ box s, apply s op (apply s op v) i = apply s op v i) ∧
    ((∀ i ∈ box s, v (sigma s op i) = v i) → ∀ i ∈ box s, apply s op v i = v i) ∧
    ∑ i ∈ box s, apply s op v i = ∑ i ∈ box s, v i :=
  have hv := resolve_valid h
  ⟨fun _ hi => C21_invariant hv v hi, fun _ hi => C21_idempotent h2 hv v hi,
   fun hs i hi => C21_fixed h2 (hs i hi), C21_sum h2 hv v⟩

/-! ### which index map each transform uses (the 2-D ones for every position of the singleton axis) -/

theorem resolve_horizontal2d (n m : Nat) (hn : n ≠ 1) (hm : m ≠ 1) :
    resolve "horizontal2d" "-" true (1, n, m) = .ok .flip1 ∧
    resolve "horizontal2d" "-" true (n, 1, m) = .ok .flip0 ∧
    resolve "horizontal2d" "-" true (n, m, 1) = .ok .flip0 := by
  simp [resolve, pick, verticalAxis, valid, hn, hm]

theorem resolve_vertical2d (n m : Nat) (hn : n ≠ 1) (hm : m ≠ 1) :
    resolve "vertical2d" "-" true (1, n, m) = .ok .flip2 ∧
    resolve "vertical2d" "-" true (n, 1, m) = .ok .flip2 ∧
    resolve "vertical2d" "-" true (n, m, 1) = .ok .flip1 := by
  simp [resolve, pick, verticalAxis, valid, hn, hm]

theorem resolve_point2d (n m : Nat) (hn : n ≠ 1) (hm : m ≠ 1) :
    resolve "point2d" "-" true (1, n, m) = .ok .flip12 ∧
    resolve "point2d" "-" true (n, 1, m) = .ok .flip02 ∧
    resolve "point2d" "-" true (n, m, 1) = .ok .flip01 := by
  simp [resolve, pick, verticalAxis, valid, hn, hm]

theorem resolve_diagonal2d (n : Nat) (hn : n ≠ 1) (mm : Bool) :
    resolve "diagonal2d" "-" mm (1, n, n) = .ok (if mm then .swap12 else .anti12) ∧
    resolve "diagonal2d" "-" mm (n, 1, n) = .ok (if mm then .swap02 else .anti02) ∧
    resolve "diagonal2d" "-" mm (n, n, 1) = .ok (if mm then .swap01 else .anti01) := by
  cases mm <;> simp [resolve, pick, verticalAxis, valid, hn]

theorem resolve_3d (s : Shape) :
    resolve "horizontal3d" "x" true s = .ok .flip0 ∧ resolve "horizontal3d" "y" true s = .ok .flip1 ∧
    resolve "vertical3d" "-" true s = .ok .flip2 ∧ resolve "point3d" "-" true s = .ok .flip012 := by
  simp [resolve, pick, valid]

theorem resolve_diagonal3d (n k : Nat) (mm : Bool) :
    resolve "diagonal3d" "xy" mm (n, n, k) = .ok (if mm then .swap01 else .anti01) ∧
    resolve "diagonal3d" "xz" mm (n, k, n) = .ok (if mm then .swap02 else .anti02) ∧
    resolve "diagonal3d" "yz" mm (k, n, n) = .ok (if mm then .swap12 else .anti12) := by
  cases mm <;> simp [resolve, pick, valid]

/-- a transposition of a non-square pair of axes is refused (the implementation raises on `v + other`) -/
theorem resolve_nonsquare (n m k : Nat) (h : n ≠ m) (mm : Bool) :
    resolve "diagonal3d" "xy" mm (n, m, k) = .error "shape-mismatch" := by
  cases mm <;> simp [resolve, pick, valid, h]

-- non-vacuity: concrete accepted calls, a non-symmetric input, and what the transform does to it
example : resolve "diagonal2d" "-" false (3, 1, 3) = .ok .anti02 := by decide
example : valid (3, 1, 3) .anti02 = true ∧ valid (2, 3, 1) .swap01 = false := by decide
example : sigma (3, 1, 3) .anti02 (0, 0, 1) = (1, 0, 2) := by decide
example : ((0, 0, 1) : Idx) ∈ box (3, 1, 3) := by decide
example : (2 : ℚ) ≠ 0 := by norm_num
example : apply (2, 1, 2) .flip0 (fun i : Idx => ((i.1 + 2 * i.2.2 : Nat) : ℚ)) (0, 0, 1) = 5 / 2 := by
  simp [apply, sigma]; norm_num

end Fdtdx.C21
