/-
C30 — Recorded boundary data decompresses to what was recorded.

Property theorems about `FdtdxModel/C30.lean` (all T, k ≥ 1, start < T, every t with start ≤ t < T,
every value history, any scalar type — no bound on sizes):

  C30_saved_exact      decompress t = rec t                     at saved steps
  C30_between_lerp     decompress t = lerp (rec p) (rec n) ((t-p)/(n-p)) with p < t < n the ENCLOSING saved
                       steps (both saved, nothing saved strictly between)
  C30_enclosing_unique the enclosing pair is unique, so the statement is the property's
  C30_lerp_endpoints   the interpolation formula is the linear interpolant (hits rec p / rec n at the ends)
  C30_widening_saved / C30_widening_between   DtypeConversion with an exact retraction (widening) in the pipeline
  C30_index_roundtrip  saved t → saveTime (arrIdx t) = t   (compress never overwrites another step's record)

Refutation witnesses for the pinned tree before the two fixes: `asFound_*` examples at the end.
-/
import FdtdxModel.C30
import Mathlib.Tactic.Ring
import Mathlib.Tactic.FieldSimp
import Mathlib.Tactic.Linarith
import Mathlib.Algebra.Field.Basic
import Mathlib.Algebra.Order.Field.Basic
import Mathlib.Tactic.IntervalCases

namespace Fdtdx.C30

/-! ### arithmetic of the index maps -/

theorem saved_iff (c : Cfg) (t : Nat) :
    saved c t = true ↔ c.s ≤ t ∧ t < c.T ∧ ((t - c.s) % c.k = 0 ∨ t + 1 = c.T) := by
  simp [saved, and_assoc]

/-- the division facts of a step `t ≥ s`, with `d = t - s = k*q + r` -/
private theorem divmod (k d : Nat) (hk : 0 < k) :
    ∃ q r, d = k * q + r ∧ r < k ∧ d / k = q ∧ d % k = r :=
  ⟨d / k, d % k, (Nat.div_add_mod d k).symm, Nat.mod_lt _ hk, rfl, rfl⟩

private theorem div_of (k q r : Nat) (hr : r < k) : (k * q + r) / k = q := by
  have hk : 0 < k := by omega
  rw [Nat.add_comm, Nat.add_mul_div_left _ _ hk, Nat.div_eq_of_lt hr]; simp

private theorem mod_of (k q r : Nat) (hr : r < k) : (k * q + r) % k = r := by
  rw [Nat.add_comm, Nat.add_mul_mod_self_left, Nat.mod_eq_of_lt hr]

/-- C30_index_roundtrip: the index map is a left inverse of the save-time table on saved steps. -/
theorem C30_index_roundtrip (c : Cfg) (hk : 1 ≤ c.k) (t : Nat) (hs : saved c t = true) :
    saveTime c (arrIdx c t) = t := by
  rw [saved_iff] at hs
  obtain ⟨h1, h2, h3⟩ := hs
  obtain ⟨q, r, hd, hr, hq, hm⟩ := divmod c.k (t - c.s) (by omega)
  unfold saveTime arrIdx
  rw [hq, hm]
  have hqk : q * c.k = c.k * q := Nat.mul_comm _ _
  by_cases hlast : t + 1 = c.T ∧ r ≠ 0
  · rw [if_neg (by omega), if_pos hlast]
    have : (q + 1) * c.k = c.k * q + c.k := by rw [Nat.add_mul, hqk]; simp
    rw [this]; omega
  · rw [if_neg (by omega), if_neg hlast, hqk]
    rcases h3 with h3 | h3
    · rw [hm] at h3; omega
    · have : r = 0 := by
        by_contra h; exact hlast ⟨h3, h⟩
      omega

/-! ### compress: after the run, slot `i` holds the record of `saveTime i` -/

/-- slot `i` is the slot of a saved step -/
def goodSlot (c : Cfg) (i : Nat) : Prop := saved c (saveTime c i) = true ∧ arrIdx c (saveTime c i) = i

instance (c : Cfg) (i : Nat) : Decidable (goodSlot c i) := by unfold goodSlot; infer_instance

theorem compressUpTo_apply {α : Type} (c : Cfg) (hk : 1 ≤ c.k) (rec init : Nat → α) (n i : Nat) :
    compressUpTo c rec init n i = if saveTime c i < n ∧ goodSlot c i then rec (saveTime c i) else init i := by
  induction n with
  | zero => simp [compressUpTo]
  | succ n ih =>
    simp only [compressUpTo, compressStep]
    by_cases hsv : saved c n = true
    · rw [if_pos hsv]
      by_cases hi : i = arrIdx c n
      · have hst : saveTime c i = n := by rw [hi]; exact C30_index_roundtrip c hk n hsv
        have hg : goodSlot c i := ⟨by rw [hst]; exact hsv, by rw [hst]; exact hi.symm⟩
        simp [hi] at hst ⊢
        rw [if_pos ⟨by omega, by simpa [hi] using hg⟩, hst]
      · simp only [if_neg hi, ih]
        by_cases hlt : saveTime c i < n
        · have : saveTime c i < n + 1 := by omega
          simp [hlt, this]
        · have hne : ¬ (saveTime c i < n + 1 ∧ goodSlot c i) := by
            rintro ⟨h1, h2, h3⟩
            have : saveTime c i = n := by omega
            rw [this] at h3; exact hi h3.symm
          rw [if_neg hne, if_neg (fun h => hlt h.1)]
    · rw [if_neg hsv, ih]
      by_cases hlt : saveTime c i < n
      · have : saveTime c i < n + 1 := by omega
        simp [hlt, this]
      · have hne : ¬ (saveTime c i < n + 1 ∧ goodSlot c i) := by
          rintro ⟨h1, h2, _⟩
          have : saveTime c i = n := by omega
          rw [this] at h2; exact hsv h2
        rw [if_neg hne, if_neg (fun h => hlt h.1)]

/-! ### the enclosing saved steps of a step that was not saved -/

/-- `p < t < n` are the saved steps enclosing `t` -/
structure Encloses (c : Cfg) (p t n : Nat) : Prop where
  saved_p : saved c p = true
  saved_n : saved c n = true
  lt_p : p < t
  lt_n : t < n
  none_between : ∀ u, p < u → u < n → saved c u = false

/-- geometry of the slot pair used by `decompress` for an unsaved step -/
theorem slots_enclose (c : Cfg) (hk : 1 ≤ c.k) (t : Nat) (hst : c.s ≤ t) (htT : t < c.T)
    (hns : saved c t = false) :
    Encloses c (saveTime c (arrIdx c t)) t (saveTime c (arrIdx c t + 1))
      ∧ goodSlot c (arrIdx c t) ∧ goodSlot c (arrIdx c t + 1) := by
  have hns' : ¬ (saved c t = true) := by simp [hns]
  rw [saved_iff] at hns'
  obtain ⟨q, r, hd, hr, hq, hm⟩ := divmod c.k (t - c.s) (by omega)
  have hr0 : r ≠ 0 := by
    intro h; apply hns'; refine ⟨hst, htT, Or.inl ?_⟩; rw [hm, h]
  have hlast : t + 1 ≠ c.T := by
    intro h; exact hns' ⟨hst, htT, Or.inr h⟩
  have hidx : arrIdx c t = q := by
    unfold arrIdx; rw [if_neg (by omega), if_neg (by omega), hq]
  have hqk : q * c.k = c.k * q := Nat.mul_comm _ _
  have hq1 : (q + 1) * c.k = c.k * q + c.k := by rw [Nat.add_mul, hqk]; simp
  -- p
  have hp : saveTime c q = c.s + c.k * q := by unfold saveTime; rw [hqk]; omega
  have hpd : c.s + c.k * q - c.s = c.k * q + 0 := by omega
  have hp_saved : saved c (c.s + c.k * q) = true := by
    rw [saved_iff]; refine ⟨by omega, by omega, Or.inl ?_⟩
    rw [hpd, mod_of _ _ _ (by omega)]
  have hp_idx : arrIdx c (c.s + c.k * q) = q := by
    unfold arrIdx; rw [if_neg (by omega), hpd, mod_of _ _ _ (by omega), div_of _ _ _ (by omega)]; simp
  -- n
  by_cases hfit : c.s + c.k * q + c.k ≤ c.T - 1
  · have hn : saveTime c (q + 1) = c.s + c.k * q + c.k := by unfold saveTime; rw [hq1]; omega
    have hnd : c.s + c.k * q + c.k - c.s = c.k * (q + 1) + 0 := by rw [Nat.mul_add]; omega
    have hn_saved : saved c (c.s + c.k * q + c.k) = true := by
      rw [saved_iff]; refine ⟨by omega, by omega, Or.inl ?_⟩
      rw [hnd, mod_of _ _ _ (by omega)]
    have hn_idx : arrIdx c (c.s + c.k * q + c.k) = q + 1 := by
      unfold arrIdx; rw [if_neg (by omega), hnd, mod_of _ _ _ (by omega), div_of _ _ _ (by omega)]; simp
    rw [hidx, hp, hn]
    refine ⟨⟨hp_saved, hn_saved, by omega, by omega, ?_⟩, ⟨by rw [hp]; exact hp_saved, by rw [hp]; exact hp_idx⟩,
      ⟨by rw [hn]; exact hn_saved, by rw [hn]; exact hn_idx⟩⟩
    intro u h1 h2
    obtain ⟨r', hr'1, hr'2⟩ : ∃ r', u - c.s = c.k * q + r' ∧ 0 < r' ∧ r' < c.k := ⟨u - c.s - c.k * q, by omega, by omega⟩
    have : ¬ (saved c u = true) := by
      rw [saved_iff]; rintro ⟨_, _, h | h⟩
      · rw [hr'1, mod_of _ _ _ hr'2.2] at h; omega
      · omega
    simpa using this
  · have hn : saveTime c (q + 1) = c.T - 1 := by unfold saveTime; rw [hq1]; omega
    obtain ⟨r', hr'1, hr'2⟩ : ∃ r', c.T - 1 - c.s = c.k * q + r' ∧ r < r' ∧ r' < c.k :=
      ⟨c.T - 1 - c.s - c.k * q, by omega, by omega, by omega⟩
    have hn_saved : saved c (c.T - 1) = true := by
      rw [saved_iff]; exact ⟨by omega, by omega, Or.inr (by omega)⟩
    have hn_idx : arrIdx c (c.T - 1) = q + 1 := by
      unfold arrIdx
      rw [if_neg (by omega), hr'1, mod_of _ _ _ hr'2.2, div_of _ _ _ hr'2.2, if_pos ⟨by omega, by omega⟩]
    rw [hidx, hp, hn]
    refine ⟨⟨hp_saved, hn_saved, by omega, by omega, ?_⟩, ⟨by rw [hp]; exact hp_saved, by rw [hp]; exact hp_idx⟩,
      ⟨by rw [hn]; exact hn_saved, by rw [hn]; exact hn_idx⟩⟩
    intro u h1 h2
    obtain ⟨r'', hr''1, hr''2⟩ : ∃ r'', u - c.s = c.k * q + r'' ∧ 0 < r'' ∧ r'' < c.k :=
      ⟨u - c.s - c.k * q, by omega, by omega, by omega⟩
    have : ¬ (saved c u = true) := by
      rw [saved_iff]; rintro ⟨_, _, h | h⟩
      · rw [hr''1, mod_of _ _ _ hr''2.2] at h; omega
      · omega
    simpa using this

/-- C30_enclosing_unique: there is only one enclosing pair, so `C30_between_lerp` speaks about "the two
enclosing saved steps" of the property text. -/
theorem C30_enclosing_unique (c : Cfg) (t p n p' n' : Nat)
    (h : Encloses c p t n) (h' : Encloses c p' t n') : p = p' ∧ n = n' := by
  constructor
  · by_contra hne
    rcases Nat.lt_or_gt_of_ne hne with hlt | hgt
    · have := h.none_between p' hlt (by have := h'.lt_p; have := h.lt_n; omega)
      rw [h'.saved_p] at this; exact Bool.noConfusion this
    · have := h'.none_between p hgt (by have := h.lt_p; have := h'.lt_n; omega)
      rw [h.saved_p] at this; exact Bool.noConfusion this
  · by_contra hne
    rcases Nat.lt_or_gt_of_ne hne with hlt | hgt
    · have := h'.none_between n (by have := h.lt_n; have := h'.lt_p; omega) hlt
      rw [h.saved_n] at this; exact Bool.noConfusion this
    · have := h.none_between n' (by have := h'.lt_n; have := h.lt_p; omega) hgt
      rw [h'.saved_n] at this; exact Bool.noConfusion this

/-! ### the property -/

section
variable {α : Type} [Add α] [Sub α] [Mul α] [Div α]

/-- data held by the recorder after a complete run of `T` steps recording `rec u` at step `u` -/
def recorded (c : Cfg) (rec : Nat → α) (init : Nat → α) : Nat → α := compressUpTo c rec init c.T

/-- **C30 (saved steps)**: decompressing a saved step returns exactly what was recorded. -/
theorem C30_saved_exact (cast : Nat → α) (c : Cfg) (hk : 1 ≤ c.k) (rec init : Nat → α) (t : Nat)
    (hsv : saved c t = true) :
    decompress cast c (recorded c rec init) t = rec t := by
  have hrt := C30_index_roundtrip c hk t hsv
  have htT : t < c.T := ((saved_iff c t).mp hsv).2.1
  unfold decompress recorded
  simp only [hsv, if_true]
  rw [compressUpTo_apply c hk, hrt, if_pos]
  exact ⟨htT, by rw [goodSlot, hrt]; exact ⟨hsv, rfl⟩⟩

/-- **C30 (other steps)**: for `start ≤ t < T` not saved, the result is the linear interpolation between the
records of the two enclosing saved steps `p < t < n`, with factor `(t - p)/(n - p)`. -/
theorem C30_between_lerp (cast : Nat → α) (c : Cfg) (hk : 1 ≤ c.k) (rec init : Nat → α) (t : Nat)
    (hst : c.s ≤ t) (htT : t < c.T) (hns : saved c t = false) :
    ∃ p n, Encloses c p t n ∧
      decompress cast c (recorded c rec init) t = lerp (rec p) (rec n) (cast (t - p) / cast (n - p)) := by
  obtain ⟨henc, hg0, hg1⟩ := slots_enclose c hk t hst htT hns
  refine ⟨_, _, henc, ?_⟩
  have hnT : saveTime c (arrIdx c t + 1) < c.T := ((saved_iff c _).mp henc.saved_n).2.1
  have hpT : saveTime c (arrIdx c t) < c.T := ((saved_iff c _).mp henc.saved_p).2.1
  unfold decompress recorded
  simp only [hns, Bool.false_eq_true, if_false]
  rw [compressUpTo_apply c hk, compressUpTo_apply c hk, if_pos ⟨hpT, hg0⟩, if_pos ⟨hnT, hg1⟩]

end

/-- the interpolant is the linear one: exact at both ends, affine in between (any field). -/
theorem C30_lerp_endpoints {K : Type} [Field K] (a b : K) :
    lerp a b 0 = a ∧ lerp a b 1 = b ∧ ∀ f g : K, lerp a b f - lerp a b g = (f - g) * (b - a) := by
  refine ⟨by simp [lerp], by simp [lerp], fun f g => by simp only [lerp]; ring⟩

/-- the factor used lies strictly between 0 and 1 (ordered field, characteristic 0) -/
theorem C30_factor_range {K : Type} [Field K] [LinearOrder K] [IsStrictOrderedRing K]
    (p t n : Nat) (h1 : p < t) (h2 : t < n) :
    0 < ((t - p : Nat) : K) / ((n - p : Nat) : K) ∧ ((t - p : Nat) : K) / ((n - p : Nat) : K) < 1 := by
  have hd : (0 : K) < ((n - p : Nat) : K) := by exact_mod_cast (by omega : 0 < n - p)
  have hn : (0 : K) < ((t - p : Nat) : K) := by exact_mod_cast (by omega : 0 < t - p)
  have hlt : ((t - p : Nat) : K) < ((n - p : Nat) : K) := by exact_mod_cast (by omega : t - p < n - p)
  exact ⟨div_pos hn hd, (div_lt_one hd).mpr hlt⟩

/-! ### DtypeConversion in front of the time filter -/

section
variable {α β : Type} [Add β] [Sub β] [Mul β] [Div β]

/-- widening conversion (`down ∘ up = id`): saved steps round-trip exactly through the whole pipeline -/
theorem C30_widening_saved (cv : Conv α β) (hw : ∀ x, cv.down (cv.up x) = x) (cast : Nat → β)
    (c : Cfg) (hk : 1 ≤ c.k) (rec : Nat → α) (zero : β) (t : Nat) (hsv : saved c t = true) :
    pipelineDecompress cv cast c rec zero t = rec t := by
  unfold pipelineDecompress
  have := C30_saved_exact cast c hk (fun u => cv.up (rec u)) (fun _ => zero) t hsv
  unfold recorded at this
  rw [this, hw]

/-- other steps: the interpolation happens on the converted values, then converts back -/
theorem C30_widening_between (cv : Conv α β) (cast : Nat → β)
    (c : Cfg) (hk : 1 ≤ c.k) (rec : Nat → α) (zero : β) (t : Nat)
    (hst : c.s ≤ t) (htT : t < c.T) (hns : saved c t = false) :
    ∃ p n, Encloses c p t n ∧ pipelineDecompress cv cast c rec zero t
      = cv.down (lerp (cv.up (rec p)) (cv.up (rec n)) (cast (t - p) / cast (n - p))) := by
  obtain ⟨p, n, henc, h⟩ := C30_between_lerp cast c hk (fun u => cv.up (rec u)) (fun _ => zero) t hst htT hns
  exact ⟨p, n, henc, by unfold pipelineDecompress; unfold recorded at h; rw [h]⟩

end

/-! ### non-vacuity: concrete configurations meeting the hypotheses -/

example : saved ⟨12, 3, 2⟩ 5 = true ∧ saved ⟨12, 3, 2⟩ 3 = false ∧ (2 ≤ 3 ∧ 3 < 12) := by decide
example : Encloses ⟨12, 3, 2⟩ 2 3 5 :=
  ⟨by decide, by decide, by decide, by decide, by intro u h1 h2; interval_cases u <;> decide⟩
example : Encloses ⟨8, 3, 0⟩ 6 7 7 → False := fun h => by have := h.lt_n; omega
-- T ≤ k: only steps 0 and T-1 are saved and they get different slots
example : arrIdx ⟨4, 4, 0⟩ 3 = 1 ∧ saveSteps ⟨4, 4, 0⟩ = [0, 3] := by decide

/-! ### refutation of the full statement for the tree as found (before the `fix:` commits) -/

/-- as found, first window after a late start: T=12, k=3, start=2, t=3, records u²+1.
The property demands 5 + (1/3)·(26-5) = 12; the pinned code computed 5 + (3/5)·21 = 88/5. -/
example : AsFound.decompress (fun i : Int => (i : Rat)) ⟨12, 3, 2⟩
      (compressUpTo ⟨12, 3, 2⟩ (fun u => ((u * u + 1 : Nat) : Rat)) (fun _ => 0) 12) 3 = 88 / 5 := by
  decide +kernel
example : decompress (fun i : Nat => (i : Rat)) ⟨12, 3, 2⟩
      (compressUpTo ⟨12, 3, 2⟩ (fun u => ((u * u + 1 : Nat) : Rat)) (fun _ => 0) 12) 3 = 12 := by
  decide +kernel
/-- as found, T ≤ k: the index of the last step was cleared, so it shared slot 0 with step 0 -/
example : AsFound.arrIdx ⟨4, 4, 0⟩ 3 = 0 ∧ saved ⟨4, 4, 0⟩ 3 = true ∧ saved ⟨4, 4, 0⟩ 0 = true
    ∧ AsFound.arrIdx ⟨4, 4, 0⟩ 0 = 0 := by decide

end Fdtdx.C30
