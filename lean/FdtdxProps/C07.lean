/-
C07 — Stopping conditions stop exactly where documented.

Theorems about `FdtdxModel/C07.lean` (the `__call__` predicates after the `fix:` commit) and the loop of
`checkpointed_fdtd` (`C05.checkpointedRun`), for every total step count T, every min/max setting, every trace
(energies / detector readings are arbitrary functions of the step) and every step function:

  C07_stop_first_false        the halt step s satisfies: the condition said "continue" at every step < s, and
                              (s = T or the condition says "stop" at s); s ≤ T
  C07_stop_unique             … and s is the only number with these properties (so it IS "the first step at which the
                              condition reports stop", capped by T)
  C07_stop_le_of_report       if the condition reports stop at step t then the run halts no later than t
  C07_state_eq_plain_run      run_fdtd(stopping_condition = c) returns (s, arrays) with arrays = the reset container
                              advanced by steps 0 … s-1, i.e. the state of a plain run of s steps; s is computed from
                              the reports of c along that plain run
  C07_time                    TimeStepCondition halts at T
  C07_energy_bounds           EnergyThresholdCondition: s ≤ max_steps, s ≤ T, and s ≥ min(min_steps, max_steps, T)
  C07_energy_reason           if it halts before min(max_steps, T) the energy is below the threshold at s and s ≥ min_steps,
                              and the energy was not below the threshold at any step in [min_steps, s)
  C07_detector_bounds / C07_detector_reason   the same for the (fixed) DetectorConvergenceCondition
  C07_detector_window         for min_steps ≤ t ≤ T (validated set-up) the two reading windows are not clipped: they are
                              [t-(p+1)spp, t-spp) and [t-spp, t), inside the recorded part of the array
  C07_setup_defaults          defaults: max_steps = T; min_steps = round(T/10) resp. (p+1)·spp; accepted set-ups satisfy
                              (p+1)·spp ≤ min_steps and (p+1)·spp ≤ T

As found (pinned tree) the DetectorConvergenceCondition never read max_steps: `asFound_ignores_max_steps` is the
machine-checked refutation of `s ≤ max_steps` (max_steps = 30, T = 60, threshold 0 ⇒ halts at 60), replayed on the
implementation by K/S; the fixed predicate halts at 30.
-/
import FdtdxProps.C05
import FdtdxModel.C07

namespace Fdtdx.C07
open Fdtdx.C05

/-! ### the halt step -/

theorem succ_iterate_zero (n : Nat) : (fun x : Nat => x + 1)^[n] 0 = n := by
  induction n with
  | zero => rfl
  | succ n ih => rw [Function.iterate_succ_apply', ih]

theorem stopStep_eq_iterCount (T : Nat) (cont : Nat → Bool) :
    stopStep T cont = iterCount cont (· + 1) T 0 := by
  unfold stopStep
  rw [whileLoop_eq_iterate, succ_iterate_zero]

/-- **C07 (halts at the first reported stop)** -/
theorem C07_stop_first_false (T : Nat) (cont : Nat → Bool) :
    stopStep T cont ≤ T
    ∧ (∀ t, t < stopStep T cont → cont t = true)
    ∧ (stopStep T cont = T ∨ cont (stopStep T cont) = false) := by
  rw [stopStep_eq_iterCount]
  refine ⟨iterCount_le _ _ _ _, ?_, ?_⟩
  · intro t ht
    have := iterCount_cond_true cont (· + 1) T 0 t ht
    rwa [succ_iterate_zero] at this
  · have := iterCount_stop cont (· + 1) T 0
    rwa [succ_iterate_zero] at this

/-- **C07 (… and nowhere else)** -/
theorem C07_stop_unique (T : Nat) (cont : Nat → Bool) (s : Nat) (hs : s ≤ T)
    (htrue : ∀ t, t < s → cont t = true) (hstop : s = T ∨ cont s = false) : stopStep T cont = s := by
  rw [stopStep_eq_iterCount]
  apply iterCount_unique _ _ _ _ s hs
  · intro j hj; rw [succ_iterate_zero]; exact htrue j hj
  · rw [succ_iterate_zero]; exact hstop

/-- a reported stop at step `t` bounds the halt step -/
theorem C07_stop_le_of_report (T : Nat) (cont : Nat → Bool) (t : Nat) (h : cont t = false) : stopStep T cont ≤ t := by
  by_contra hlt
  have := (C07_stop_first_false T cont).2.1 t (by omega)
  rw [h] at this; exact Bool.noConfusion this

/-! ### the state at the halt step -/

section state
variable {σ : Type}

theorem iterCount_trace (cond : Nat × σ → Bool) (f : Nat × σ → Nat × σ) (s : Nat × σ) (m k : Nat) :
    iterCount (fun t => cond (f^[t] s)) (· + 1) m k = iterCount cond f m (f^[k] s) := by
  induction m generalizing k with
  | zero => rfl
  | succ m ih =>
    unfold iterCount
    rw [ih (k + 1), Function.iterate_succ_apply']

/-- **C07 (state at the halt step = plain run of that many steps)**: with `reports t` = what the condition says
on the state a plain run has reached after t steps, `run_fdtd(stopping_condition)` returns the halt step
`s = stopStep T reports` and exactly the state of the plain run after `s` steps. -/
theorem C07_state_eq_plain_run (T : Nat) (cond : Nat × σ → Bool) (reset : σ → σ) (body : Nat → σ → σ) (a : σ) :
    let reports := fun t => cond ((step body)^[t] (0, reset a))
    runFdtd T .none (some cond) false reset body a
      = .ok (stopStep T reports, (List.range (stopStep T reports)).foldl (fun acc t => body t acc) (reset a)) := by
  intro reports
  have h : checkpointedRun T cond reset body a = (step body)^[stopStep T reports] (0, reset a) := by
    unfold checkpointedRun
    rw [whileLoop_eq_iterate, stopStep_eq_iterCount, iterCount_trace cond (step body) (0, reset a) T 0]
    rfl
  simp only [runFdtd, h, C05_iterate_eq_foldl]

/-- the same state as the plain (TimeStepCondition) run of a scene configured with `s` total steps -/
theorem C07_state_eq_shorter_run (T : Nat) (cond : Nat × σ → Bool) (reset : σ → σ) (body : Nat → σ → σ) (a : σ) :
    let s := stopStep T (fun t => cond ((step body)^[t] (0, reset a)))
    runFdtd T .none (some cond) false reset body a = runFdtd s .none none false reset body a := by
  intro s
  have h1 := C07_state_eq_plain_run T cond reset body a
  simp only at h1
  rw [h1, C05_strategy_independent s .none trivial]

end state

/-! ### the three conditions -/

/-- **C07 (TimeStepCondition)** halts at T -/
theorem C07_time (T : Nat) : stopStep T (timeCond T) = T := by
  apply C07_stop_unique T _ T (Nat.le_refl _)
  · intro t ht; simp [timeCond, ht]
  · left; rfl

/-- **C07 (EnergyThresholdCondition, bounds)**: never later than max_steps or T; never before min_steps unless
max_steps or T come first. -/
theorem C07_energy_bounds (T maxS minS : Nat) (below : Nat → Bool) :
    stopStep T (energyCond maxS minS below) ≤ maxS
    ∧ stopStep T (energyCond maxS minS below) ≤ T
    ∧ (minS ≤ stopStep T (energyCond maxS minS below)
        ∨ stopStep T (energyCond maxS minS below) = maxS ∨ stopStep T (energyCond maxS minS below) = T) := by
  obtain ⟨hT, htrue, hstop⟩ := C07_stop_first_false T (energyCond maxS minS below)
  refine ⟨?_, hT, ?_⟩
  · by_contra h
    have := htrue maxS (by omega)
    simp [energyCond] at this
  · rcases hstop with h | h
    · right; right; exact h
    · by_cases hm : stopStep T (energyCond maxS minS below) < maxS
      · left
        by_contra hlt
        simp [energyCond, hm] at h
        omega
      · right; left
        by_contra hne
        have := htrue maxS (by omega)
        simp [energyCond] at this

/-- **C07 (EnergyThresholdCondition, reason)**: halting before `min(max_steps, T)` means the energy is below the
threshold there, at a step ≥ min_steps, and it was not below the threshold at any earlier step ≥ min_steps. -/
theorem C07_energy_reason (T maxS minS : Nat) (below : Nat → Bool)
    (h1 : stopStep T (energyCond maxS minS below) < maxS) (h2 : stopStep T (energyCond maxS minS below) < T) :
    below (stopStep T (energyCond maxS minS below)) = true
    ∧ minS ≤ stopStep T (energyCond maxS minS below)
    ∧ ∀ t, minS ≤ t → t < stopStep T (energyCond maxS minS below) → below t = false := by
  obtain ⟨_, htrue, hstop⟩ := C07_stop_first_false T (energyCond maxS minS below)
  rcases hstop with h | h
  · omega
  · simp [energyCond, h1] at h
    refine ⟨h.2, by omega, ?_⟩
    intro t hmin hlt
    have := htrue t hlt
    simp [energyCond] at this
    rcases this.2 with h' | h'
    · omega
    · exact h'

theorem detCond_eq (maxS minS : Nat) (close : Nat → Bool) (t : Nat) :
    detCond maxS minS close t = energyCond maxS minS close t := by
  unfold detCond energyCond detConverged
  by_cases h : t ≥ minS
  · have : ¬ t < minS := by omega
    simp [h, this]
  · have : t < minS := by omega
    simp [h, this]

/-- **C07 (DetectorConvergenceCondition, bounds)** — the fixed predicate -/
theorem C07_detector_bounds (T maxS minS : Nat) (close : Nat → Bool) :
    stopStep T (detCond maxS minS close) ≤ maxS
    ∧ stopStep T (detCond maxS minS close) ≤ T
    ∧ (minS ≤ stopStep T (detCond maxS minS close)
        ∨ stopStep T (detCond maxS minS close) = maxS ∨ stopStep T (detCond maxS minS close) = T) := by
  have : detCond maxS minS close = energyCond maxS minS close := funext (detCond_eq maxS minS close)
  rw [this]; exact C07_energy_bounds T maxS minS close

/-- **C07 (DetectorConvergenceCondition, reason)** -/
theorem C07_detector_reason (T maxS minS : Nat) (close : Nat → Bool)
    (h1 : stopStep T (detCond maxS minS close) < maxS) (h2 : stopStep T (detCond maxS minS close) < T) :
    close (stopStep T (detCond maxS minS close)) = true
    ∧ minS ≤ stopStep T (detCond maxS minS close)
    ∧ ∀ t, minS ≤ t → t < stopStep T (detCond maxS minS close) → close t = false := by
  have : detCond maxS minS close = energyCond maxS minS close := funext (detCond_eq maxS minS close)
  rw [this] at h1 h2 ⊢; exact C07_energy_reason T maxS minS close h1 h2

/-- **C07 (reading windows)**: in an accepted set-up, at every step the convergence test can run
(`min_steps ≤ t ≤ T`), neither window start is clipped; the windows are `[t-(p+1)spp, t-spp)` and `[t-spp, t)`. -/
theorem C07_detector_window (T spp p t : Nat) (hwin : (p + 1) * spp ≤ t) (ht : t ≤ T) :
    clipInt ((t : Int) - ((p + 1) * spp : Nat)) 0 ((T : Int) - (p * spp : Nat)) = ((t - (p + 1) * spp : Nat) : Int)
    ∧ clipInt ((t : Int) - (spp : Nat)) 0 ((T : Int) - (spp : Nat)) = ((t - spp : Nat) : Int)
    ∧ (t - (p + 1) * spp) + p * spp = t - spp ∧ (t - spp) + spp = t := by
  have hs : (p + 1) * spp = p * spp + spp := Nat.succ_mul p spp
  unfold clipInt
  refine ⟨?_, ?_, ?_, ?_⟩ <;> omega

/-- **C07 (set-up)**: defaults and what validation guarantees -/
theorem C07_setup_defaults (T spp p : Nat) :
    energySetup T true none none = .ok (T, roundTenth T)
    ∧ (∀ mn mx maxS minS, detSetup T spp p true true mn mx = .ok (maxS, minS) →
        (p + 1) * spp ≤ minS ∧ (p + 1) * spp ≤ T ∧ maxS = mx.getD T ∧ minS = mn.getD ((p + 1) * spp)) := by
  refine ⟨rfl, ?_⟩
  intro mn mx maxS minS h
  unfold detSetup at h
  simp only at h
  split at h
  · cases h
  · simp only [Bool.not_true, Bool.false_eq_true, if_false] at h
    split at h
    · cases h
    · simp only [Except.ok.injEq, Prod.mk.injEq] at h
      refine ⟨by omega, by omega, h.1.symm, h.2.symm⟩

/-- **C07 (set-up, explicit values)**: an explicitly passed `min_steps` / `max_steps` - *including 0* - is what the
condition uses; only an unset (`none`) one is replaced by the documented default (seed C07h: `min_steps or default`
turned an explicit 0 into round(T/10)). -/
theorem C07_setup_explicit (T mn mx : Nat) :
    energySetup T true (some mn) (some mx) = .ok (mx, mn)
    ∧ energySetup T true (some mn) none = .ok (T, mn)
    ∧ energySetup T true none (some mx) = .ok (mx, roundTenth T) := ⟨rfl, rfl, rfl⟩

/-- with an explicit `min_steps = 0` a run whose energy is already below the threshold halts at step 0 -/
theorem C07_energy_min_zero (T maxS : Nat) (below : Nat → Bool) (h0 : below 0 = true) :
    stopStep T (energyCond maxS 0 below) = 0 := by
  have h := C07_stop_le_of_report T (energyCond maxS 0 below) 0 (by simp [energyCond, h0])
  omega

/-- the energy default `round(T/10)` never exceeds T (so the default minimum cannot block the run's end) -/
theorem roundTenth_le (T : Nat) : roundTenth T ≤ T := by
  unfold roundTenth roundHalfEven
  split_ifs <;> omega

/-! ### non-vacuity -/

-- a run that halts for each of the three reasons (threshold, max_steps, T)
example : stopStep 12 (energyCond 10 3 (fun t => decide (t ≥ 6))) = 6 := by decide
example : stopStep 12 (energyCond 5 3 (fun t => decide (t ≥ 6))) = 5 := by decide
example : stopStep 4 (energyCond 10 3 (fun t => decide (t ≥ 6))) = 4 := by decide
example : stopStep 12 (energyCond 10 8 (fun _ => true)) = 8 := by decide          -- converged early: waits for min_steps
example : stopStep 12 (energyCond 5 8 (fun _ => true)) = 5 := by decide           -- max_steps < min_steps: max wins
example : (2 + 1) * 3 ≤ 11 ∧ 11 ≤ 20 := by omega                                 -- hypotheses of C07_detector_window
example : detSetup 20 3 2 true true none (some 15) = .ok (15, 9) := by decide
example : detSetup 20 3 2 true true (some 8) none = .error "ValueError min_steps" := by decide
example : detSetup 8 3 2 true true none none = .error "ValueError window" := by decide

/-! ### refutation of `stop ≤ max_steps` for the tree as found -/

/-- as found: max_steps = 30, T = 60, threshold 0 (never converged), min_steps 10: the run halts at 60 -/
example : stopStep 60 (AsFound.detCond 60 10 (fun _ => false)) = 60 := by decide
/-- as found, for EVERY trace and min_steps: if it never converges the halt step is T, whatever max_steps was -/
theorem asFound_ignores_max_steps (T minS : Nat) : stopStep T (AsFound.detCond T minS (fun _ => false)) = T := by
  apply C07_stop_unique T _ T (Nat.le_refl _)
  · intro t ht
    simp [AsFound.detCond, detConverged, ht]
  · left; rfl
/-- the fixed predicate on the same input halts at max_steps -/
example : stopStep 60 (detCond 30 10 (fun _ => false)) = 30 := by decide
/-- as found, below min_steps even T is ignored by the predicate (only the loop bound ends the run) -/
example : AsFound.detCond 60 100 (fun _ => true) 75 = true := by decide

end Fdtdx.C07
