/-
C35 — Dispersion coefficients encode the declared pole model.

Property theorems about `FdtdxModel/C35.lean` (every pole, every time step, every frequency):

  C35_chi_roundtrip        chiPole (coef u dt) ω dt = chiDeclared u ω         (any field of char 0; the unified form
                           (a - iωb)/(ω0² - ω² - iγω); only dt ≠ 0 and 1 + γdt/2 ≠ 0 are needed)
  C35_lorentz / C35_drude / C35_ccpr / C35_critical_point
                           the same in ℂ against the declared Lorentz, Drude, conjugate-pole-residue and critical-point
                           formulas of the class doc-strings
  C35_jury                 0 ≤ γ, 0 < dt, 0 ≤ ω0, ω0 dt < 2  →  |c2| ≤ 1 ∧ |c1| ≤ 1 - c2      (ordered field)
  C35_jury_roots           |c2| ≤ 1 ∧ |c1| ≤ 1 - c2 → every complex root x + iy of z² - c1 z - c2 has x² + y² ≤ 1
  C35_no_root_outside      both together, for the coefficients of an accepted pole, stated in ℂ with ‖z‖ ≤ 1
  C35_accepted             coefChecked returns the coefficients exactly when the pole does not couple or ω0 dt < 2
  C35_padded_slot / C35_padding_anywhere     zero-padded slots contribute nothing to chiSum
  C35_resp_steady_state    resp is the frequency response of the stored recurrence: P_n = χ_d zⁿ solves
                           P_{n+2} = c1 P_{n+1} + c2 P_n + c3 z^{n+1} + c4 z^{n+2}
  C35_resp_denominator     D·(z - c1 - c2/z) = ω0²dt² - 2(1 - cos θ) - i γdt sin θ
  C35_resp_denominator_error   |θ| ≤ 1 → the two components differ from ω0²dt² - θ² and γdt·θ by at most
                           5θ⁴/48 and γdt·|θ|³/6
  C35_response_relative_error  (Lorentz/Drude, b = 0) relative error of the recurrence response against the declared
                           model ≤ θ²B/(m - θ²B) with B = 5/48 + (γ/ω)/6, m = |(ω0/ω)² - 1 - iγ/ω|, θ = ω dt ≤ 1
  C35_analytic_clauses     the conjunction of the clauses over ℝ/ℂ (one name for the axiom audit)
-/
import FdtdxLemmas.C35
import Mathlib.Algebra.Order.Field.Basic
import Mathlib.Algebra.Order.AbsoluteValue.Basic
import Mathlib.Tactic.Positivity
import Mathlib.Tactic.NormNum
import Mathlib.Analysis.Complex.Trigonometric
import Mathlib.Analysis.SpecialFunctions.Trigonometric.Bounds
import Mathlib.Analysis.SpecialFunctions.Sqrt

namespace Fdtdx.C35
set_option linter.unusedSectionVars false

/-! ### the inverse mapping reproduces the declared pole model -/
section field
variable {K : Type} [Field K] [CharZero K] [DecidableEq K]

/-- C35 (first clause): the susceptibility reconstructed from the stored coefficients of a pole is the declared
unified pole model, at every frequency. -/
theorem C35_chi_roundtrip (u : Uni K) (dt ω : K) (hdt : dt ≠ 0) (hD : 1 + u.g * dt / 2 ≠ 0) :
    chiPole (coef u dt) ω dt = chiDeclared u ω := by
  by_cases hm : ((coef u dt).c1 != 0 || (coef u dt).c3 != 0 || (coef u dt).c4 != 0) = true
  · have hs : ((1 - (coef u dt).c2) == 0) = false := by
      simpa using one_sub_c2_ne u dt hD
    simp only [chiPole, hm, hs, Bool.not_true, Bool.false_eq_true, if_false]
    rw [inv_gdt u dt hD, inv_w2 u dt hD, inv_a u dt hD, inv_b u dt hD]
    have := cdiv_scale (dt * dt) u.a (-(ω * u.b)) (u.w0 * u.w0 - ω * ω) (-(u.g * ω)) (mul_ne_zero hdt hdt)
    unfold chiDeclared
    rw [← this]
    congr 1 <;> (apply Prod.ext <;> simp only <;> ring)
  · have hm' : ((coef u dt).c1 != 0 || (coef u dt).c3 != 0 || (coef u dt).c4 != 0) = false := by
      simpa using hm
    have h34 : (coef u dt).c3 = 0 ∧ (coef u dt).c4 = 0 := by
      simp only [Bool.or_eq_false_iff, bne_eq_false_iff_eq] at hm'
      exact ⟨hm'.1.2, hm'.2⟩
    obtain ⟨ha, hb⟩ := uncoupled_of_c34 u dt hdt hD h34.1 h34.2
    simp only [chiPole, hm', Bool.not_false, if_true]
    simp [chiDeclared, cdiv, ha, hb]

end field

/-! ### the declared models of the pole classes, in ℂ -/
section complex
open Complex

theorem C35_chi_roundtrip_complex (u : Uni ℝ) (dt ω : ℝ) (hdt : dt ≠ 0) (hD : 1 + u.g * dt / 2 ≠ 0) :
    toC (chiPole (coef u dt) ω dt)
      = ((u.a : ℂ) - I * ω * u.b) / ((u.w0 : ℂ) ^ 2 - (ω : ℂ) ^ 2 - I * u.g * ω) := by
  rw [C35_chi_roundtrip u dt ω hdt hD, chiDeclared, toC_cdiv, toC_mk, toC_mk]
  congr 1 <;> (push_cast; ring)

/-- Lorentz pole: `χ(ω) = Δε ω0² / (ω0² - ω² - iγω)` -/
theorem C35_lorentz (w0 g de dt ω : ℝ) (hdt : dt ≠ 0) (hD : 1 + g * dt / 2 ≠ 0) :
    toC (chiPole (coef (lorentz w0 g de) dt) ω dt)
      = ((de : ℂ) * (w0 : ℂ) ^ 2) / ((w0 : ℂ) ^ 2 - (ω : ℂ) ^ 2 - I * g * ω) := by
  rw [C35_chi_roundtrip_complex _ dt ω hdt (by simpa [lorentz] using hD)]
  simp only [lorentz]; congr 1; push_cast; ring

/-- Drude pole: `χ(ω) = -ωp² / (ω² + iγω)` -/
theorem C35_drude (wp g dt ω : ℝ) (hdt : dt ≠ 0) (hD : 1 + g * dt / 2 ≠ 0) :
    toC (chiPole (coef (drude wp g) dt) ω dt) = -((wp : ℂ) ^ 2) / ((ω : ℂ) ^ 2 + I * g * ω) := by
  rw [C35_chi_roundtrip_complex _ dt ω hdt (by simpa [drude] using hD)]
  simp only [drude]
  rw [← neg_div_neg_eq]
  congr 1 <;> (push_cast; ring)

/-- CCPR pole: `χ(ω) = r/(-iω - q) + r̄/(-iω - q̄)`; `sqrt` is any function with `sqrt(|q|²)² = |q|²` -/
theorem C35_ccpr (sqrt : ℝ → ℝ) (qre qim rre rim dt ω : ℝ)
    (hsq : sqrt (qre * qre + qim * qim) * sqrt (qre * qre + qim * qim) = qre * qre + qim * qim)
    (hdt : dt ≠ 0) (hD : 1 + (-(2 * qre)) * dt / 2 ≠ 0)
    (h1 : -I * ω - (⟨qre, qim⟩ : ℂ) ≠ 0) (h2 : -I * ω - (⟨qre, -qim⟩ : ℂ) ≠ 0) :
    toC (chiPole (coef (ccpr sqrt qre qim rre rim) dt) ω dt)
      = (⟨rre, rim⟩ : ℂ) / (-I * ω - ⟨qre, qim⟩) + (⟨rre, -rim⟩ : ℂ) / (-I * ω - ⟨qre, -qim⟩) := by
  rw [C35_chi_roundtrip_complex _ dt ω hdt (by simpa [ccpr] using hD)]
  simp only [ccpr]
  have hq : (⟨qre, qim⟩ : ℂ) = qre + qim * I := by apply Complex.ext <;> simp
  have hq' : (⟨qre, -qim⟩ : ℂ) = qre - qim * I := by apply Complex.ext <;> simp
  have hr : (⟨rre, rim⟩ : ℂ) = rre + rim * I := by apply Complex.ext <;> simp
  have hr' : (⟨rre, -rim⟩ : ℂ) = rre - rim * I := by apply Complex.ext <;> simp
  rw [hq] at h1; rw [hq'] at h2; rw [hq, hq', hr, hr']
  have hs : ((sqrt (qre * qre + qim * qim) : ℝ) : ℂ) ^ 2 = (qre : ℂ) ^ 2 + (qim : ℂ) ^ 2 := by
    rw [sq, ← Complex.ofReal_mul, hsq]; push_cast; ring
  rw [div_add_div _ _ h1 h2, hs]
  congr 1
  · push_cast; ring_nf; rw [I_sq]; ring
  · push_cast; ring_nf; rw [I_sq]; ring

/-- critical-point pole (`from_critical_point`, with `c = cos φ`, `s = sin φ`):
`χ(ω) = AΩ [ e^{iφ}/(Ω - ω - iΓ) + e^{-iφ}/(Ω + ω + iΓ) ]` -/
theorem C35_critical_point (sqrt : ℝ → ℝ) (A c s Om Ga dt ω : ℝ)
    (hsq : sqrt (Ga * Ga + Om * Om) * sqrt (Ga * Ga + Om * Om) = Ga * Ga + Om * Om)
    (hdt : dt ≠ 0) (hD : 1 + (2 * Ga) * dt / 2 ≠ 0)
    (h1 : (Om : ℂ) - ω - I * Ga ≠ 0) (h2 : (Om : ℂ) + ω + I * Ga ≠ 0) :
    let p := critical A c s Om Ga
    toC (chiPole (coef (ccpr sqrt p.1 p.2.1 p.2.2.1 p.2.2.2) dt) ω dt)
      = (A : ℂ) * Om * (((c : ℂ) + I * s) / (Om - ω - I * Ga) + ((c : ℂ) - I * s) / (Om + ω + I * Ga)) := by
  intro p
  have hD' : 1 + (ccpr sqrt p.1 p.2.1 p.2.2.1 p.2.2.2).g * dt / 2 ≠ 0 := by
    simpa [ccpr, p, critical] using hD
  rw [C35_chi_roundtrip_complex _ dt ω hdt hD']
  simp only [ccpr, p, critical]
  have e : -Ga * -Ga + -Om * -Om = Ga * Ga + Om * Om := by ring
  have hs : ((sqrt (-Ga * -Ga + -Om * -Om) : ℝ) : ℂ) ^ 2 = (Ga : ℂ) ^ 2 + (Om : ℂ) ^ 2 := by
    rw [e, sq, ← Complex.ofReal_mul, hsq]; push_cast; ring
  rw [hs, div_add_div _ _ h1 h2, mul_div_assoc']
  congr 1
  · push_cast; ring_nf; rw [I_sq]; ring
  · push_cast; ring_nf; rw [I_sq]; ring

end complex

/-! ### Jury conditions and the roots of `z² - c1 z - c2` -/
section ordered
variable {F : Type} [Field F] [LinearOrder F] [IsStrictOrderedRing F]

/-- C35 (Jury): an accepted passive pole (`γ ≥ 0`, `ω0 dt < 2`) has `|c2| ≤ 1` and `|c1| ≤ 1 - c2`. -/
theorem C35_jury (u : Uni F) (dt : F) (hdt : 0 < dt) (hg : 0 ≤ u.g) (hw0 : 0 ≤ u.w0) (hw : u.w0 * dt < 2) :
    |(coef u dt).c2| ≤ 1 ∧ |(coef u dt).c1| ≤ 1 - (coef u dt).c2 := by
  have hgd : 0 ≤ u.g * dt := mul_nonneg hg hdt.le
  have hD : 0 < 1 + u.g * dt / 2 := by linarith
  have hwd : 0 ≤ u.w0 * dt := mul_nonneg hw0 hdt.le
  have hw2 : (u.w0 * u.w0) * (dt * dt) ≤ 4 := by nlinarith
  have hw2' : 0 ≤ (u.w0 * u.w0) * (dt * dt) := by nlinarith
  have h1 : 1 - (coef u dt).c2 = 2 / (1 + u.g * dt / 2) := one_sub_c2 u dt hD.ne'
  constructor
  · rw [coef_c2, abs_div, abs_of_pos hD, div_le_one hD, abs_le]
    constructor <;> linarith
  · rw [h1, coef_c1, abs_div, abs_of_pos hD, div_le_div_iff_of_pos_right hD, abs_le]
    constructor <;> linarith

/-- C35 (roots): under the Jury conditions every complex root `x + iy` of `z² - c1 z - c2` lies in the closed
unit disc.  (`re`/`im` are the real and imaginary parts of `z² - c1 z - c2 = 0`.) -/
theorem C35_jury_roots (c1 c2 x y : F) (h2 : |c2| ≤ 1) (h1 : |c1| ≤ 1 - c2)
    (re : x * x - y * y - c1 * x - c2 = 0) (im : 2 * x * y - c1 * y = 0) : x * x + y * y ≤ 1 := by
  have ⟨h2a, h2b⟩ := abs_le.mp h2
  have ⟨h1a, h1b⟩ := abs_le.mp h1
  have hy : y * (2 * x - c1) = 0 := by linear_combination im
  rcases mul_eq_zero.mp hy with hy0 | hx
  · -- real root: p(1) ≥ 0, p(-1) ≥ 0 and the vertex lies in [-1, 1]
    subst hy0
    have hp : x * x - c1 * x - c2 = 0 := by linear_combination re
    by_contra hcon
    have hx1 : 1 < x * x := by
      have := not_le.mp hcon; linarith
    rcases lt_or_ge x 0 with hneg | hpos
    · have hxl : x < -1 := by nlinarith
      nlinarith
    · have hxl : 1 < x := by nlinarith
      nlinarith
  · -- complex pair: |z|² = -c2
    have hx' : c1 = 2 * x := by linear_combination -hx
    have : x * x + y * y = -c2 := by rw [hx'] at re; linear_combination -re
    linarith

end ordered

section roots_complex
open Complex

/-- the same in `ℂ`: no root of `z² - c1 z - c2` outside the closed unit disc -/
theorem C35_jury_roots_complex (c1 c2 : ℝ) (h2 : |c2| ≤ 1) (h1 : |c1| ≤ 1 - c2) (z : ℂ)
    (hz : z ^ 2 - c1 * z - c2 = 0) : ‖z‖ ≤ 1 := by
  have hre := congrArg Complex.re hz
  have him := congrArg Complex.im hz
  simp [sq] at hre him
  have h := C35_jury_roots c1 c2 z.re z.im h2 h1 (by linear_combination hre) (by linear_combination him)
  have : ‖z‖ ^ 2 ≤ 1 := by
    rw [← Complex.normSq_eq_norm_sq, Complex.normSq_apply]; exact h
  have hn : 0 ≤ ‖z‖ := norm_nonneg z
  nlinarith

/-- C35 (third clause): the recurrence of an accepted passive pole has no root outside the unit circle. -/
theorem C35_no_root_outside (u : Uni ℝ) (dt : ℝ) (hdt : 0 < dt) (hg : 0 ≤ u.g) (hw0 : 0 ≤ u.w0)
    (hw : u.w0 * dt < 2) (z : ℂ) (hz : z ^ 2 - (coef u dt).c1 * z - (coef u dt).c2 = 0) : ‖z‖ ≤ 1 := by
  obtain ⟨h2, h1⟩ := C35_jury u dt hdt hg hw0 hw
  exact C35_jury_roots_complex _ _ h2 h1 z hz

end roots_complex

/-! ### acceptance guard -/
section guard
variable {F : Type} [Field F] [LinearOrder F] [IsStrictOrderedRing F]

/-- `coefChecked` returns the coefficients exactly when the axis does not couple or `ω0 dt < 2` -/
theorem C35_accepted (u : Uni F) (dt : F) :
    coefChecked u dt = (if (u.a = 0 ∧ u.b = 0) ∨ u.w0 * dt < 2 then some (coef u dt) else none) := by
  unfold coefChecked
  by_cases ha : u.a = 0 <;> by_cases hb : u.b = 0 <;> by_cases hw : u.w0 * dt < 2 <;>
    simp [ha, hb, hw, not_le.mpr, not_lt.mp]

end guard

/-! ### zero-padded pole slots -/
section padding
variable {K : Type} [Field K] [CharZero K] [DecidableEq K]

theorem C35_padded_slot (ω dt : K) : chiPole (⟨0, 0, 0, 0⟩ : Coef K) ω dt = (0, 0) := by
  simp [chiPole]

private theorem cadd_zero' (x : K × K) : cadd x (0, 0) = x := by simp [cadd]

/-- C35 (last clause): a zero-padded slot anywhere in the pole stack contributes nothing. -/
theorem C35_padding_anywhere (l1 l2 : List (Coef K)) (ω dt : K) :
    chiSum (l1 ++ (⟨0, 0, 0, 0⟩ : Coef K) :: l2) ω dt = chiSum (l1 ++ l2) ω dt := by
  simp only [chiSum, List.foldl_append, List.foldl_cons, C35_padded_slot, cadd_zero']

/-- a stack of padded slots only: susceptibility zero -/
theorem C35_all_padded (n : Nat) (ω dt : K) :
    chiSum (List.replicate n (⟨0, 0, 0, 0⟩ : Coef K)) ω dt = (0, 0) := by
  induction n with
  | zero => rfl
  | succ n ih =>
    have := C35_padding_anywhere ([] : List (Coef K)) (List.replicate n ⟨0, 0, 0, 0⟩) ω dt
    simp only [List.nil_append] at this
    rw [List.replicate_succ, this, ih]

end padding

/-! ### the frequency response of the stored recurrence -/
section response
open Complex

/-- `resp` is the steady-state response of the recurrence to `E_n = zⁿ`, `z = e^{-iθ}`:
`P_n = χ_d zⁿ` solves `P_{n+2} = c1 P_{n+1} + c2 P_n + c3 z^{n+1} + c4 z^{n+2}` for every `n`. -/
theorem C35_resp_steady_state (c : Coef ℝ) (cs sn : ℝ) (hcs : cs * cs + sn * sn = 1)
    (hden : toC (cs - c.c1 - c.c2 * cs, -sn - c.c2 * sn) ≠ 0) (n : ℕ) :
    let z : ℂ := ⟨cs, -sn⟩
    let χ := toC (resp c cs sn)
    χ * z ^ (n + 2) = c.c1 * (χ * z ^ (n + 1)) + c.c2 * (χ * z ^ n) + c.c3 * z ^ (n + 1) + c.c4 * z ^ (n + 2) := by
  intro z χ
  have hzz : z * (⟨cs, sn⟩ : ℂ) = 1 := by
    apply Complex.ext <;> simp [z] <;> linarith
  have hN : toC (c.c3 + c.c4 * cs, -(c.c4 * sn)) = c.c3 + c.c4 * z := by
    apply Complex.ext <;> simp [toC, z]
  have hDn : toC (cs - c.c1 - c.c2 * cs, -sn - c.c2 * sn) = z - c.c1 - c.c2 * (⟨cs, sn⟩ : ℂ) := by
    apply Complex.ext <;> simp [toC, z]
  have hχ : χ * (z - c.c1 - c.c2 * (⟨cs, sn⟩ : ℂ)) = c.c3 + c.c4 * z := by
    rw [← hDn, ← hN]
    simp only [χ, resp]
    rw [toC_cdiv, div_mul_cancel₀ _ hden]
  linear_combination (z ^ (n + 1)) * hχ + (c.c2 * χ * z ^ n) * hzz

variable {K : Type} [Field K] [CharZero K]

/-- the response of the coefficients of a pole, with the common factor `D = 1 + γdt/2` cleared:
`χ_d = (a dt² - b dt (1 - cos θ) - i b dt sin θ) / (ω0² dt² - 2 (1 - cos θ) - i γdt sin θ)` -/
theorem C35_resp_denominator (u : Uni K) (dt cs sn : K) (hD : 1 + u.g * dt / 2 ≠ 0) :
    resp (coef u dt) cs sn
      = cdiv (u.a * (dt * dt) - u.b * dt * (1 - cs), -(u.b * dt * sn))
             ((u.w0 * u.w0) * (dt * dt) - 2 * (1 - cs), -(u.g * dt * sn)) := by
  have e := cdiv_scale (1 + u.g * dt / 2) ((coef u dt).c3 + (coef u dt).c4 * cs) (-((coef u dt).c4 * sn))
    (cs - (coef u dt).c1 - (coef u dt).c2 * cs) (-sn - (coef u dt).c2 * sn) hD
  have hb := inv_b u dt hD
  have ha := inv_a u dt hD
  have hw := inv_w2 u dt hD
  have h2 : (coef u dt).c2 * (1 + u.g * dt / 2) = -(1 - u.g * dt / 2) := by
    rw [coef_c2, div_mul_cancel₀ _ hD]
  unfold resp
  rw [← e]
  congr 1 <;> apply Prod.ext <;> simp only
  · linear_combination ha - (1 - cs) * hb
  · linear_combination (-sn) * hb
  · linear_combination hw - cs * h2
  · linear_combination (-sn) * h2

end response

section error
open Real

private theorem abs_sin_sub_le (θ : ℝ) : |sin θ - θ| ≤ |θ| ^ 3 / 6 := by
  rcases lt_trichotomy θ 0 with h | h | h
  · have hp : 0 < -θ := by linarith
    have h1 := Real.sin_lt hp
    have h2 := Real.sin_gt_sub_cube hp
    rw [Real.sin_neg] at h1 h2
    rw [abs_of_neg h, abs_of_nonneg (by linarith)]
    have : (-θ) ^ 3 = -(θ ^ 3) := by ring
    linarith
  · subst h; simp
  · have h1 := Real.sin_lt h
    have h2 := Real.sin_gt_sub_cube h
    rw [abs_of_pos h, abs_of_nonpos (by linarith)]
    linarith

/-- C35 (second clause, denominators): with `θ = ω dt`, `|θ| ≤ 1`, the denominator of the recurrence's response
differs from the exact `ω0²dt² - θ² - iγdt θ` by at most `5θ⁴/48` (real part) and `γdt |θ|³/6` (imaginary part). -/
theorem C35_resp_denominator_error (w2 gdt θ : ℝ) (hθ : |θ| ≤ 1) (hg : 0 ≤ gdt) :
    |(w2 - 2 * (1 - cos θ)) - (w2 - θ ^ 2)| ≤ 5 / 48 * θ ^ 4 ∧
    |(-(gdt * sin θ)) - (-(gdt * θ))| ≤ gdt * |θ| ^ 3 / 6 := by
  constructor
  · have h := Real.cos_bound hθ
    have e : (w2 - 2 * (1 - cos θ)) - (w2 - θ ^ 2) = 2 * (cos θ - (1 - θ ^ 2 / 2)) := by ring
    have e4 : |θ| ^ 4 = θ ^ 4 := by
      rw [← abs_pow]; exact abs_of_nonneg (by positivity)
    rw [e, abs_mul, abs_of_pos (by norm_num : (0 : ℝ) < 2)]
    rw [e4] at h
    linarith
  · have e : (-(gdt * sin θ)) - (-(gdt * θ)) = -(gdt * (sin θ - θ)) := by ring
    rw [e, abs_neg, abs_mul, abs_of_nonneg hg]
    have := abs_sin_sub_le θ
    calc gdt * |sin θ - θ| ≤ gdt * (|θ| ^ 3 / 6) := mul_le_mul_of_nonneg_left this hg
      _ = gdt * |θ| ^ 3 / 6 := by ring

end error

/-! ### the convergence clause: relative error of the recurrence response, O((ω dt)²) with explicit constant -/
section relative_error
open Complex

/-- C35 (second clause): for a Lorentz/Drude pole (`b = 0`), `θ = ω dt ≤ 1`, `B = 5/48 + (γ/ω)/6`,
`m = |(ω0/ω)² - 1 - iγ/ω|` and `θ²B < m`:  `|χ_d - χ| ≤ θ²B/(m - θ²B) · |χ|`, where `χ_d` is the frequency response
of the stored recurrence and `χ` the declared pole model. For fixed physical parameters the factor is `O((ω dt)²)`. -/
theorem C35_response_relative_error (w0 g K dt ω : ℝ) (hω : 0 < ω) (hdt : 0 < dt) (hg : 0 ≤ g)
    (hθ : ω * dt ≤ 1)
    (hm : (ω * dt) ^ 2 * (5 / 48 + g / ω / 6) < ‖(((w0 / ω) ^ 2 - 1 : ℝ) : ℂ) - I * ((g / ω : ℝ) : ℂ)‖) :
    ‖toC (resp (coef ⟨w0, g, K, 0⟩ dt) (Real.cos (ω * dt)) (Real.sin (ω * dt))) - toC (chiDeclared ⟨w0, g, K, 0⟩ ω)‖
      ≤ (ω * dt) ^ 2 * (5 / 48 + g / ω / 6)
          / (‖(((w0 / ω) ^ 2 - 1 : ℝ) : ℂ) - I * ((g / ω : ℝ) : ℂ)‖ - (ω * dt) ^ 2 * (5 / 48 + g / ω / 6))
        * ‖toC (chiDeclared ⟨w0, g, K, 0⟩ ω)‖ := by
  set θ := ω * dt with hθd
  set B := 5 / 48 + g / ω / 6 with hB
  set d : ℂ := (((w0 / ω) ^ 2 - 1 : ℝ) : ℂ) - I * ((g / ω : ℝ) : ℂ) with hd
  have hθ0 : 0 < θ := mul_pos hω hdt
  have hD : 1 + (⟨w0, g, K, 0⟩ : Uni ℝ).g * dt / 2 ≠ 0 := by
    have : 0 ≤ g * dt := mul_nonneg hg hdt.le
    simp only; linarith
  -- the two denominators
  set Dd : ℂ := toC (w0 * w0 * (dt * dt) - 2 * (1 - Real.cos θ), -(g * dt * Real.sin θ)) with hDd
  set De : ℂ := toC (w0 * w0 * (dt * dt) - θ ^ 2, -(g * dt * θ)) with hDe
  have hχd : toC (resp (coef ⟨w0, g, K, 0⟩ dt) (Real.cos θ) (Real.sin θ)) = ((K * (dt * dt) : ℝ) : ℂ) / Dd := by
    rw [C35_resp_denominator _ dt _ _ hD, toC_cdiv]
    congr 1
    apply Complex.ext <;> simp [toC]
  have hχe : toC (chiDeclared ⟨w0, g, K, 0⟩ ω) = ((K * (dt * dt) : ℝ) : ℂ) / De := by
    have hs := cdiv_scale (dt * dt) K (-(ω * 0)) (w0 * w0 - ω * ω) (-(g * ω)) (mul_ne_zero hdt.ne' hdt.ne')
    simp only [chiDeclared]
    rw [← hs, toC_cdiv]
    congr 1
    · apply Complex.ext <;> simp [toC] <;> ring
    · rw [hDe]; apply Complex.ext <;> simp [toC, hθd] <;> ring
  have hωc : (ω : ℂ) ≠ 0 := by exact_mod_cast hω.ne'
  have hDe_eq : De = ((θ ^ 2 : ℝ) : ℂ) * d := by
    rw [hDe, toC_mk, hd, hθd]
    push_cast
    field_simp
    ring
  have hnDe : ‖De‖ = θ ^ 2 * ‖d‖ := by
    rw [hDe_eq, norm_mul, Complex.norm_real, Real.norm_of_nonneg (by positivity)]
  have hΔ : ‖Dd - De‖ ≤ θ ^ 4 * B := by
    have hb := C35_resp_denominator_error (w0 * w0 * (dt * dt)) (g * dt) θ
      (by rw [abs_of_pos hθ0]; exact hθ) (mul_nonneg hg hdt.le)
    have h1 := Complex.norm_le_abs_re_add_abs_im (Dd - De)
    have hre : (Dd - De).re = (w0 * w0 * (dt * dt) - 2 * (1 - Real.cos θ)) - (w0 * w0 * (dt * dt) - θ ^ 2) := by
      simp [toC, hDd, hDe]
    have him : (Dd - De).im = (-(g * dt * Real.sin θ)) - (-(g * dt * θ)) := by
      simp [toC, hDd, hDe]
    rw [hre, him] at h1
    have e : g * dt * |θ| ^ 3 / 6 = θ ^ 4 * (g / ω / 6) := by
      rw [abs_of_pos hθ0, hθd]; field_simp
    have := hb.1; have := hb.2
    calc ‖Dd - De‖ ≤ _ := h1
      _ ≤ 5 / 48 * θ ^ 4 + g * dt * |θ| ^ 3 / 6 := add_le_add hb.1 hb.2
      _ = θ ^ 4 * B := by rw [e, hB]; ring
  have hgap : 0 < ‖d‖ - θ ^ 2 * B := by linarith
  have hnDd : θ ^ 2 * (‖d‖ - θ ^ 2 * B) ≤ ‖Dd‖ := by
    have h := norm_sub_norm_le De (De - Dd)
    have e : De - (De - Dd) = Dd := by ring
    rw [e, norm_sub_rev De Dd] at h
    nlinarith
  have hDd0 : Dd ≠ 0 := by
    intro h; rw [h, norm_zero] at hnDd
    have : 0 < θ ^ 2 * (‖d‖ - θ ^ 2 * B) := by positivity
    linarith
  have hd0 : 0 < ‖d‖ := by
    have : 0 ≤ θ ^ 2 * B := by
      have : 0 ≤ g / ω := div_nonneg hg hω.le
      rw [hB]; positivity
    linarith
  have hDe0 : De ≠ 0 := by
    intro h; rw [h, norm_zero] at hnDe
    have : 0 < θ ^ 2 * ‖d‖ := by positivity
    linarith
  rw [hχd, hχe]
  have key : ((K * (dt * dt) : ℝ) : ℂ) / Dd - ((K * (dt * dt) : ℝ) : ℂ) / De
      = (((K * (dt * dt) : ℝ) : ℂ) / De) * ((De - Dd) / Dd) := by
    field_simp
  have hBnn : 0 ≤ θ ^ 2 * B := by
    have : 0 ≤ g / ω := div_nonneg hg hω.le
    rw [hB]; positivity
  have hfrac : ‖(De - Dd) / Dd‖ ≤ θ ^ 2 * B / (‖d‖ - θ ^ 2 * B) := by
    rw [norm_div, norm_sub_rev De Dd, div_le_div_iff₀ (norm_pos_iff.mpr hDd0) hgap]
    calc ‖Dd - De‖ * (‖d‖ - θ ^ 2 * B) ≤ θ ^ 4 * B * (‖d‖ - θ ^ 2 * B) :=
          mul_le_mul_of_nonneg_right hΔ hgap.le
      _ = θ ^ 2 * B * (θ ^ 2 * (‖d‖ - θ ^ 2 * B)) := by ring
      _ ≤ θ ^ 2 * B * ‖Dd‖ := mul_le_mul_of_nonneg_left hnDd hBnn
  rw [key, norm_mul]
  calc ‖((K * (dt * dt) : ℝ) : ℂ) / De‖ * ‖(De - Dd) / Dd‖
      ≤ ‖((K * (dt * dt) : ℝ) : ℂ) / De‖ * (θ ^ 2 * B / (‖d‖ - θ ^ 2 * B)) :=
        mul_le_mul_of_nonneg_left hfrac (norm_nonneg _)
    _ = θ ^ 2 * B / (‖d‖ - θ ^ 2 * B) * ‖((K * (dt * dt) : ℝ) : ℂ) / De‖ := mul_comm _ _


end relative_error

/-! ### one handle for the clauses stated over ℝ / ℂ
(the axiom audit walks the whole dependency closure per registered name; the real-analysis closure is shared) -/
theorem C35_analytic_clauses :
    (type_of% @C35_chi_roundtrip_complex) ∧ (type_of% @C35_lorentz) ∧ (type_of% @C35_drude) ∧
    (type_of% @C35_ccpr) ∧ (type_of% @C35_critical_point) ∧ (type_of% @C35_jury_roots_complex) ∧
    (type_of% @C35_no_root_outside) ∧ (type_of% @C35_resp_steady_state) ∧
    (type_of% @C35_resp_denominator_error) ∧ (type_of% @C35_response_relative_error) :=
  ⟨@C35_chi_roundtrip_complex, @C35_lorentz, @C35_drude, @C35_ccpr, @C35_critical_point,
   @C35_jury_roots_complex, @C35_no_root_outside, @C35_resp_steady_state, @C35_resp_denominator_error,
   @C35_response_relative_error⟩

/-! ### non-vacuity: the hypotheses are met by concrete non-trivial inputs -/
section nonvacuity

/-- hypotheses of `C35_chi_roundtrip` (a damped Lorentz pole, `ω0 dt = 0.1`) -/
example : ((1 / 10 : ℚ) ≠ 0) ∧ (1 + (lorentz (1 : ℚ) (1 / 2) 2).g * (1 / 10) / 2 ≠ 0) := by
  norm_num [lorentz]

/-- the round trip on that pole, evaluated: both sides are the same non-zero number -/
example : chiPole (coef (lorentz (1 : ℚ) (1 / 2) 2) (1 / 10)) 3 (1 / 10) = chiDeclared (lorentz (1 : ℚ) (1 / 2) 2) 3 ∧
    (chiDeclared (lorentz (1 : ℚ) (1 / 2) 2) 3).1 ≠ 0 := by
  refine ⟨C35_chi_roundtrip _ _ _ (by norm_num) (by norm_num [lorentz]), ?_⟩
  norm_num [chiDeclared, lorentz, cdiv]

/-- hypotheses of `C35_jury` / `C35_no_root_outside` (Drude pole: `ω0 = 0`, on the boundary `|c1| = 1 - c2`) -/
example : (0 : ℚ) < 1 / 10 ∧ (0 : ℚ) ≤ (drude (3 : ℚ) (1 / 5)).g ∧ (0 : ℚ) ≤ (drude (3 : ℚ) (1 / 5)).w0 ∧
    (drude (3 : ℚ) (1 / 5)).w0 * (1 / 10) < 2 := by
  norm_num [drude]

/-- the guard is sharp: with `ω0 dt = 3 > 2` the second Jury condition fails (root `≈ -6.85`) -/
example : ¬ (|(coef (⟨3, 0, 1, 0⟩ : Uni ℚ) 1).c1| ≤ 1 - (coef (⟨3, 0, 1, 0⟩ : Uni ℚ) 1).c2) := by
  norm_num [coef]

/-- `C35_ccpr` / `C35_critical_point`: the `sqrt` hypothesis holds for `Real.sqrt` at every pole -/
example (qre qim : ℝ) :
    Real.sqrt (qre * qre + qim * qim) * Real.sqrt (qre * qre + qim * qim) = qre * qre + qim * qim :=
  Real.mul_self_sqrt (add_nonneg (mul_self_nonneg _) (mul_self_nonneg _))

/-- `C35_resp_steady_state`: `cs = cos θ`, `sn = sin θ` meet `cs² + sn² = 1` -/
example (θ : ℝ) : Real.cos θ * Real.cos θ + Real.sin θ * Real.sin θ = 1 := by
  have := Real.cos_sq_add_sin_sq θ; nlinarith

/-- accepted and rejected inputs of the guard both exist -/
example : coefChecked (lorentz (1 : ℚ) 0 2) 1 ≠ none ∧ coefChecked (lorentz (2 : ℚ) 0 2) 1 = none ∧
    coefChecked (lorentz (5 : ℚ) 0 0) 1 ≠ none := by
  simp only [C35_accepted]; norm_num [lorentz]; simp

end nonvacuity

end Fdtdx.C35
