/-
C19 — Discretization picks the nearest allowed material.

Property theorems about `FdtdxModel/C19.lean` (every number of materials n ≥ 1, every input value in a
linearly ordered field, every table, every shape — no bound on sizes):

  C19_round_clip_minimises   for ANY integer r with |r − x| ≤ 1/2 (any nearest-integer rounding, whatever
                             its tie rule): clip(r, 0, n−1) is in range and minimises |k − x| over 0 ≤ k ≤ n−1
  C19_roundHalfEven_nearest  the model's round-half-to-even is such a rounding (and even on ties)
  C19_closestRound_nearest   hence the default branch returns a nearest index in range
  C19_argmin_spec            argmin returns an index in range whose entry is minimal, the FIRST such one
  C19_closestInv_iso_nearest isotropic set: the returned material minimises |x − 1/ε_k|, first on ties
  C19_closestInv_minimises   general rows (diagonal tensors): minimises Σ_c |x − 1/ε_kc|
  C19_shape_preserved        both branches: same shape, same length, voxel-wise
  C19_ste_forward            forward value of the straight-through estimator = discrete value
  C19_ste_derivative         tangent of x − sg x + sg y = tangent of x, whatever the tangent of y (dual numbers)

Refutation witnesses for the pinned tree before the fix: `asFound_*` examples at the end.
-/
import FdtdxModel.C19
import Mathlib.Tactic.Ring
import Mathlib.Tactic.Linarith
import Mathlib.Algebra.Order.Field.Basic
import Mathlib.Algebra.Order.Floor.Ring
import Mathlib.Algebra.Order.AbsoluteValue.Basic
import Mathlib.Tactic.Abel

namespace Fdtdx.C19
set_option linter.unusedSectionVars false

variable {K : Type} [Field K] [LinearOrder K] [IsStrictOrderedRing K]

/-! ### default branch: clip ∘ round -/

theorem clipI_cases (r : ℤ) (n : ℕ) (hn : 0 < n) :
    (r < 0 ∧ clipI r n = 0) ∨ ((n : ℤ) - 1 < r ∧ clipI r n = n - 1) ∨
      (0 ≤ r ∧ r ≤ (n : ℤ) - 1 ∧ clipI r n = r) := by
  unfold clipI; omega

theorem clipI_range (r : ℤ) (n : ℕ) (hn : 0 < n) : 0 ≤ clipI r n ∧ clipI r n < n := by
  unfold clipI; omega

/-- any nearest-integer rounding followed by the clip gives a nearest index in `0 … n-1` -/
theorem C19_round_clip_minimises (x : K) (r : ℤ) (n : ℕ) (hn : 0 < n) (hr : |(r : K) - x| ≤ 1 / 2)
    (k : ℤ) (hk0 : 0 ≤ k) (hk : k < n) :
    (0 ≤ clipI r n ∧ clipI r n < n) ∧ |((clipI r n : ℤ) : K) - x| ≤ |(k : K) - x| := by
  refine ⟨clipI_range r n hn, ?_⟩
  obtain ⟨ha, hb⟩ := abs_le.mp hr
  have h1 := le_abs_self ((k : K) - x)
  have h2 := neg_abs_le ((k : K) - x)
  have hk0' : (0 : K) ≤ k := by exact_mod_cast hk0
  have hk' : (k : K) ≤ (n : K) - 1 := by
    have : k ≤ (n : ℤ) - 1 := by omega
    exact_mod_cast this
  rcases clipI_cases r n hn with ⟨h, hc⟩ | ⟨h, hc⟩ | ⟨h, h', hc⟩
  · have : (r : K) ≤ -1 := by
      have : r ≤ -1 := by omega
      exact_mod_cast this
    rw [hc, abs_le]; push_cast; constructor <;> linarith
  · have : (n : K) ≤ r := by
      have : (n : ℤ) ≤ r := by omega
      exact_mod_cast this
    rw [hc, abs_le]; push_cast; constructor <;> linarith
  · rw [hc]
    rcases lt_trichotomy k r with hlt | heq | hgt
    · have : (k : K) ≤ r - 1 := by
        have : k ≤ r - 1 := by omega
        exact_mod_cast this
      rw [abs_le]; constructor <;> linarith
    · rw [heq]
    · have : (r : K) + 1 ≤ k := by
        have : r + 1 ≤ k := by omega
        exact_mod_cast this
      rw [abs_le]; constructor <;> linarith

example : |((1 : ℤ) : ℚ) - 3 / 2| ≤ 1 / 2 ∧ (0 : ℤ) ≤ 2 ∧ (2 : ℤ) < (3 : ℕ) := by
  refine ⟨?_, by decide, by decide⟩
  rw [abs_le]; constructor <;> norm_num

section floor
variable [FloorRing K]

/-- the model's `jnp.round`: within 1/2 of the input -/
theorem C19_roundHalfEven_nearest (x : K) :
    |((roundHalfEven (fun y : K => ⌊y⌋) (fun i : ℤ => (i : K)) x : ℤ) : K) - x| ≤ 1 / 2 := by
  have h1 := Int.floor_le x
  have h2 := Int.lt_floor_add_one x
  unfold roundHalfEven
  simp only []
  split_ifs with ha hb hc
  · rw [abs_le]; constructor <;> linarith
  · rw [abs_le]; push_cast; constructor <;> linarith
  · rw [abs_le]; constructor <;> linarith
  · rw [abs_le]; push_cast; constructor <;> linarith

/-- … and even when the input is exactly half-way between two integers -/
theorem roundHalfEven_tie_even (x : K) (h : x - (⌊x⌋ : K) = 1 / 2) :
    roundHalfEven (fun y : K => ⌊y⌋) (fun i : ℤ => (i : K)) x % 2 = 0 := by
  unfold roundHalfEven
  simp only []
  rw [h]
  simp only [lt_irrefl, if_false]
  split_ifs with hc
  · exact hc
  · omega

/-- default branch of `ClosestIndex`: the returned index is in range and nearest -/
theorem C19_closestRound_nearest (x : K) (n : ℕ) (hn : 0 < n) (k : ℤ) (hk0 : 0 ≤ k) (hk : k < n) :
    let c := closestRound (fun y : K => ⌊y⌋) (fun i : ℤ => (i : K)) n x
    (0 ≤ c ∧ c < n) ∧ |(c : K) - x| ≤ |(k : K) - x| :=
  C19_round_clip_minimises x _ n hn (C19_roundHalfEven_nearest x) k hk0 hk

end floor

/-! ### argmin -/

theorem argminGo_spec (L : List K) : ∀ (l : List K) (i b : ℕ) (bv : K),
    L.drop i = l → ∀ (hb : b < L.length), b < i → i ≤ L.length → L[b] = bv →
    (∀ j (hj : j < L.length), j < i → bv ≤ L[j]) →
    (∀ j (hj : j < L.length), j < b → bv < L[j]) →
    ∃ (h : argminGo l i b bv < L.length),
      (∀ j (hj : j < L.length), L[argminGo l i b bv] ≤ L[j]) ∧
      (∀ j (hj : j < L.length), j < argminGo l i b bv → L[argminGo l i b bv] < L[j]) := by
  intro l
  induction l with
  | nil =>
    intro i b bv hdrop hb hbi hi hbv hmin hfirst
    have hlen : L.length ≤ i := List.drop_eq_nil_iff.mp hdrop
    refine ⟨by simpa [argminGo] using hb, ?_, ?_⟩
    · intro j hj
      simp only [argminGo]
      rw [hbv]; exact hmin j hj (by omega)
    · intro j hj hjb
      simp only [argminGo] at hjb ⊢
      rw [hbv]; exact hfirst j hj hjb
  | cons d r ih =>
    intro i b bv hdrop hb hbi hi hbv hmin hfirst
    have hilt : i < L.length := by
      by_contra hcon
      have : L.drop i = [] := List.drop_eq_nil_iff.mpr (by omega)
      rw [this] at hdrop; cases hdrop
    rw [List.drop_eq_getElem_cons hilt] at hdrop
    have hd : L[i] = d := (List.cons.inj hdrop).1
    have hr : L.drop (i + 1) = r := (List.cons.inj hdrop).2
    by_cases hlt : d < bv
    · simp only [argminGo, hlt, if_true]
      apply ih (i + 1) i d hr hilt (by omega) (by omega) hd
      · intro j hj hji
        rcases Nat.lt_succ_iff_lt_or_eq.mp hji with h | h
        · exact le_of_lt (lt_of_lt_of_le hlt (hmin j hj h))
        · subst h; exact le_of_eq hd.symm
      · intro j hj hji
        exact lt_of_lt_of_le hlt (hmin j hj hji)
    · simp only [argminGo, hlt, if_false]
      apply ih (i + 1) b bv hr hb (by omega) (by omega) hbv
      · intro j hj hji
        rcases Nat.lt_succ_iff_lt_or_eq.mp hji with h | h
        · exact hmin j hj h
        · subst h; rw [hd]; exact not_lt.mp hlt
      · exact hfirst

/-- `argmin` returns a minimiser, the first one -/
theorem C19_argmin_spec (L : List K) (hne : L ≠ []) :
    ∃ (h : argmin L < L.length),
      (∀ j (hj : j < L.length), L[argmin L] ≤ L[j]) ∧
      (∀ j (hj : j < L.length), j < argmin L → L[argmin L] < L[j]) := by
  cases L with
  | nil => exact absurd rfl hne
  | cons d r =>
    have := argminGo_spec (d :: r) r 1 0 d (by simp) (by simp) (by omega) (by simp) (by simp)
      (by intro j hj hj1; have : j = 0 := by omega
          subst this; simp)
      (by intro j hj hj0; omega)
    simpa [argmin] using this

/-! ### inverse-permittivity branch -/

theorem absDiff_eq (a b : K) : absDiff a b = |a - b| := by
  unfold absDiff
  simp only []
  split_ifs with h
  · exact (abs_of_neg h).symm
  · exact (abs_of_nonneg (not_lt.mp h)).symm

theorem foldl_dist (row : List K) (x acc : K) :
    row.foldl (fun a c => a + absDiff x c) acc = acc + (row.map (fun c => |x - c|)).sum := by
  induction row generalizing acc with
  | nil => simp
  | cons c r ih =>
    simp only [List.foldl_cons, List.map_cons, List.sum_cons]
    rw [ih, absDiff_eq]; ring

theorem dist_eq (row : List K) (x : K) : dist row x = (row.map (fun c => |x - c|)).sum := by
  unfold dist; rw [foldl_dist]; simp

/-- distance of `x` to material `row` (permittivity components): Σ_c |x − 1/ε_c| -/
def invDist (row : List K) (x : K) : K := (row.map (fun e => |x - 1 / e|)).sum

theorem closestInv_eq (eps : List (List K)) (x : K) :
    closestInv eps x = argmin (eps.map (fun row => invDist row x)) := by
  unfold closestInv invTable invDist
  congr 1
  simp only [List.map_map]
  apply List.map_congr_left
  intro row _
  simp [dist_eq, List.map_map, Function.comp_def]

/-- inverse branch, any component count: the returned material minimises the summed distance, first on ties -/
theorem C19_closestInv_minimises (eps : List (List K)) (hne : eps ≠ []) (x : K) :
    ∃ (h : closestInv eps x < eps.length),
      (∀ j (hj : j < eps.length), invDist eps[closestInv eps x] x ≤ invDist eps[j] x) ∧
      (∀ j (hj : j < eps.length), j < closestInv eps x →
        invDist eps[closestInv eps x] x < invDist eps[j] x) := by
  have hne' : eps.map (fun row => invDist row x) ≠ [] := by simpa using hne
  obtain ⟨h, h1, h2⟩ := C19_argmin_spec _ hne'
  simp only [closestInv_eq]
  have hlen : argmin (eps.map (fun row => invDist row x)) < eps.length := by simpa using h
  refine ⟨hlen, ?_, ?_⟩
  · intro j hj
    have := h1 j (by simpa using hj)
    simpa using this
  · intro j hj hjk
    have := h2 j (by simpa using hj) hjk
    simpa using this

/-- isotropic set with permittivities `es` (ordered as the code orders them; all non-zero, as `1/ε` is formed):
the returned index is in range, its inverse permittivity is nearest to `x`, and it is the first such index -/
theorem C19_closestInv_iso_nearest (es : List K) (hne : es ≠ []) (_hnz : ∀ e ∈ es, e ≠ 0) (x : K) :
    ∃ (h : closestInv (es.map fun e => [e]) x < es.length),
      (∀ j (hj : j < es.length),
        |x - 1 / es[closestInv (es.map fun e => [e]) x]| ≤ |x - 1 / es[j]|) ∧
      (∀ j (hj : j < es.length), j < closestInv (es.map fun e => [e]) x →
        |x - 1 / es[closestInv (es.map fun e => [e]) x]| < |x - 1 / es[j]|) := by
  have hne' : (es.map fun e => [e]) ≠ [] := by simpa using hne
  obtain ⟨h, h1, h2⟩ := C19_closestInv_minimises (es.map fun e => [e]) hne' x
  have hlen : closestInv (es.map fun e => [e]) x < es.length := by simpa using h
  refine ⟨hlen, ?_, ?_⟩
  · intro j hj
    have := h1 j (by simpa using hj)
    simpa [invDist] using this
  · intro j hj hjk
    have := h2 j (by simpa using hj) hjk
    simpa [invDist] using this

example : ([1, 2, 4] : List ℚ) ≠ [] ∧ ∀ e ∈ ([1, 2, 4] : List ℚ), e ≠ 0 := by
  refine ⟨by simp, ?_⟩
  intro e he; simp at he; rcases he with rfl | rfl | rfl <;> norm_num

/-! ### shape -/

/-- both branches keep the shape and act voxel-wise -/
theorem C19_shape_preserved (n : ℕ) (eps : List (List K)) (floorI : K → ℤ) (cast : ℤ → K) (a : Arr K) :
    (transformRound floorI cast n a).shape = a.shape ∧
    (transformRound floorI cast n a).data.length = a.data.length ∧
    (transformRound floorI cast n a).wf = a.wf ∧
    (∀ i (hi : i < a.data.length),
      (transformRound floorI cast n a).data[i]'(by simpa [transformRound] using hi)
        = closestRound floorI cast n a.data[i]) ∧
    (transformInv eps a).shape = a.shape ∧
    (transformInv eps a).data.length = a.data.length ∧
    (transformInv eps a).wf = a.wf ∧
    (∀ i (hi : i < a.data.length),
      (transformInv eps a).data[i]'(by simpa [transformInv] using hi) = closestInv eps a.data[i]) := by
  simp [transformRound, transformInv, Arr.wf]

/-! ### straight-through estimator -/

/-- forward pass (`stop_gradient` is the identity on values): the discrete value -/
theorem C19_ste_forward {R : Type} [AddCommGroup R] (x y : R) : ste id x y = y := by
  simp [ste]

/-- derivative: the tangent of the output is the tangent of `x`, whatever `y` depends on; the value is `y` -/
theorem C19_ste_derivative {R : Type} [AddCommGroup R] (x dx y dy : R) :
    ste Dual.sg (⟨x, dx⟩ : Dual R) ⟨y, dy⟩ = ⟨y, dx⟩ := by
  show (⟨x - x + y, dx - 0 + 0⟩ : Dual R) = ⟨y, dx⟩
  congr 1 <;> simp

/-! ### the pinned tree before the fix: machine-checked refutation witnesses -/

/-- two isotropic materials ε = 1, 2 (inverse 1, 1/2), input `[1/10, 9/10]`: the nearest materials are
`[1, 0]`; the pinned tree returned `[0, 0]` (argmin over an axis of length one). -/
example : (transformInv ([[1], [2]] : List (List ℚ)) ⟨[2], [1 / 10, 9 / 10]⟩).data = [1, 0] ∧
    (AsFound.closestInvIso 2 [2]).map (·.data) = some [0, 0] := by
  constructor
  · decide +kernel
  · decide

/-- depth 1: the pinned tree changed the shape `(3,1)` into `(3,2)` -/
example : (AsFound.closestInvIso 2 [3, 1]).map (·.shape) = some [3, 2] := by decide

/-- depth 3 with two materials: the pinned tree raised -/
example : AsFound.closestInvIso 2 [2, 3] = none := by decide

end Fdtdx.C19
