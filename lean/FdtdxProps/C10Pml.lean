/-
C10 — linearity of the WHOLE CPML field loop and of the full-tensor (3×3) anisotropic step.

State of a run with `PerfectlyMatchedLayer` objects = (E, H, auxiliary psi arrays of every layer); the step is
`Cpml.forwardP` (update_E with curl_H + psi_E corrections, update_H with curl_E of the new E + psi_H corrections, both
`simulate_boundaries` branches, both kappa branches, any list of layers on any axes / boxes / coefficient arrays).
Over any field, for every shape, halo rule, walls, metric, diagonal materials with or without conductivities:

  C10_cpml_affine          forwardP (a•(j,s,psi)₁ + b•(j,s,psi)₂) = a•forwardP (…)₁ + b•forwardP (…)₂     (fields AND psi)
  C10_cpml_affine_steps    … after n steps with step-indexed sources (induction; the layers' static data is invariant)
  C10_aniso_affine         the any-tier step `YeeAniso.forwardA` (full 3×3 ε⁻¹, μ⁻¹, σ tensors, uniform or
                           spacing-weighted neighbour averages, tier dispatch) is linear in (sources, E, H)
  C10_aniso_affine_steps   … after n steps
-/
import FdtdxProps.C10
import FdtdxModel.C10Ext
import FdtdxModel.YeeAniso
import Mathlib.Tactic.Ring
import Mathlib.Tactic.NormNum

namespace Fdtdx.C10
open Fdtdx Fdtdx.Yee Fdtdx.C02 Fdtdx.Cpml Fdtdx.YeeAniso
set_option linter.unusedSectionVars false

section
variable {K : Type} [Field K]

/-! ### CPML -/

theorem stepCpml1_lin (p : Pml K) (isE sim : Bool) (o : Nat) (a b d1 d2 q1 q2 : K) :
    stepCpml1 p isE sim o (a * d1 + b * d2) (a * q1 + b * q2)
      = (a * (stepCpml1 p isE sim o d1 q1).1 + b * (stepCpml1 p isE sim o d2 q2).1,
         a * (stepCpml1 p isE sim o d1 q1).2 + b * (stepCpml1 p isE sim o d2 q2).2) := by
  simp only [stepCpml1]
  split_ifs <;> simp only [Prod.mk.injEq] <;> constructor <;> first | trivial | rfl | ring

theorem dFwd_lin (cf : Cfg K) (ax : Nat) (a b : K) (f g : F3 K) (i j k : Nat) :
    dFwd cf ax (linF a b f g) i j k = a * dFwd cf ax f i j k + b * dFwd cf ax g i j k := by
  rcases ax with _ | _ | ax <;> simp only [dFwd, linF, next1_lin] <;> ring

theorem dBwd_lin (cf : Cfg K) (ax : Nat) (a b : K) (f g : F3 K) (i j k : Nat) :
    dBwd cf ax (linF a b f g) i j k = a * dBwd cf ax f i j k + b * dBwd cf ax g i j k := by
  rcases ax with _ | _ | ax <;> simp only [dBwd, linF, prev1_lin] <;> ring

theorem get_lin (a b : K) (A B : V3 K) (c : Nat) : V3.get (linV a b A B) c = linF a b (V3.get A c) (V3.get B c) := by
  rcases c with _ | _ | c <;> rfl

/-- the layers of two runs have the same static data -/
def SameP (l1 l2 : List (PmlSt K)) : Prop := List.Forall₂ (fun s t => t.p = s.p) l1 l2

theorem applyE_lin (cf : Cfg K) (sim : Bool) (a b : K) (E1 E2 : V3 K) (comp i j k : Nat) (x y : K) (s t : PmlSt K)
    (hp : t.p = s.p) :
    applyE cf sim (linV a b E1 E2) comp i j k (a * x + b * y) (linSt a b s t)
      = a * applyE cf sim E1 comp i j k x s + b * applyE cf sim E2 comp i j k y t := by
  simp only [applyE, hp, linSt, get_lin, dFwd_lin, linF, stepCpml1_lin]
  split_ifs <;> ring

theorem applyH_lin (cf : Cfg K) (sim : Bool) (a b : K) (H1 H2 : V3 K) (comp i j k : Nat) (x y : K) (s t : PmlSt K)
    (hp : t.p = s.p) :
    applyH cf sim (linV a b H1 H2) comp i j k (a * x + b * y) (linSt a b s t)
      = a * applyH cf sim H1 comp i j k x s + b * applyH cf sim H2 comp i j k y t := by
  simp only [applyH, hp, linSt, get_lin, dBwd_lin, linF, stepCpml1_lin]
  split_ifs <;> ring

theorem foldE_lin (cf : Cfg K) (sim : Bool) (a b : K) (E1 E2 : V3 K) (comp i j k : Nat) (l1 l2 : List (PmlSt K))
    (h : SameP l1 l2) : ∀ x y : K,
    (linPmls a b l1 l2).foldl (applyE cf sim (linV a b E1 E2) comp i j k) (a * x + b * y)
      = a * l1.foldl (applyE cf sim E1 comp i j k) x + b * l2.foldl (applyE cf sim E2 comp i j k) y := by
  induction h with
  | nil => intro x y; rfl
  | cons hp _ ih =>
    intro x y
    simp only [linPmls, List.zipWith_cons_cons, List.foldl_cons]
    rw [applyE_lin cf sim a b E1 E2 comp i j k x y _ _ hp]
    exact ih _ _

theorem foldH_lin (cf : Cfg K) (sim : Bool) (a b : K) (H1 H2 : V3 K) (comp i j k : Nat) (l1 l2 : List (PmlSt K))
    (h : SameP l1 l2) : ∀ x y : K,
    (linPmls a b l1 l2).foldl (applyH cf sim (linV a b H1 H2) comp i j k) (a * x + b * y)
      = a * l1.foldl (applyH cf sim H1 comp i j k) x + b * l2.foldl (applyH cf sim H2 comp i j k) y := by
  induction h with
  | nil => intro x y; rfl
  | cons hp _ ih =>
    intro x y
    simp only [linPmls, List.zipWith_cons_cons, List.foldl_cons]
    rw [applyH_lin cf sim a b H1 H2 comp i j k x y _ _ hp]
    exact ih _ _

/-- `curl_E` with all its PML corrections is linear in (E, psi_H) -/
theorem curlEp_lin (cf : Cfg K) (sim : Bool) (a b : K) (l1 l2 : List (PmlSt K)) (h : SameP l1 l2) (E1 E2 : V3 K) :
    curlEp cf sim (linPmls a b l1 l2) (linV a b E1 E2) = linV a b (curlEp cf sim l1 E1) (curlEp cf sim l2 E2) := by
  apply V3.ext' <;> intro i j k <;> simp only [curlEp, curlE_lin, linV_x, linV_y, linV_z] <;>
    exact foldE_lin cf sim a b E1 E2 _ i j k l1 l2 h _ _

theorem curlHp_lin (cf : Cfg K) (sim : Bool) (a b : K) (l1 l2 : List (PmlSt K)) (h : SameP l1 l2) (H1 H2 : V3 K) :
    curlHp cf sim (linPmls a b l1 l2) (linV a b H1 H2) = linV a b (curlHp cf sim l1 H1) (curlHp cf sim l2 H2) := by
  apply V3.ext' <;> intro i j k <;> simp only [curlHp, curlH_lin, linV_x, linV_y, linV_z] <;>
    exact foldH_lin cf sim a b H1 H2 _ i j k l1 l2 h _ _

theorem PmlSt.ext' (s t : PmlSt K) (hp : s.p = t.p) (h1 : ∀ i j k, s.e1 i j k = t.e1 i j k)
    (h2 : ∀ i j k, s.e2 i j k = t.e2 i j k) (h3 : ∀ i j k, s.h1 i j k = t.h1 i j k) (h4 : ∀ i j k, s.h2 i j k = t.h2 i j k) :
    s = t := by
  cases s; cases t
  simp only [PmlSt.mk.injEq] at *
  exact ⟨hp, funext fun i => funext fun j => funext fun k => h1 i j k, funext fun i => funext fun j => funext fun k => h2 i j k,
    funext fun i => funext fun j => funext fun k => h3 i j k, funext fun i => funext fun j => funext fun k => h4 i j k⟩

theorem updPsiH_lin (cf : Cfg K) (sim : Bool) (a b : K) (E1 E2 : V3 K) (s t : PmlSt K) (hp : t.p = s.p) :
    updPsiH cf sim (linV a b E1 E2) (linSt a b s t) = linSt a b (updPsiH cf sim E1 s) (updPsiH cf sim E2 t) := by
  apply PmlSt.ext'
  · rfl
  · intro i j k; rfl
  · intro i j k; rfl
  · intro i j k
    simp only [updPsiH, hp, linSt, get_lin, dFwd_lin, linF, stepCpml1_lin]
    split_ifs <;> rfl
  · intro i j k
    simp only [updPsiH, hp, linSt, get_lin, dFwd_lin, linF, stepCpml1_lin]
    split_ifs <;> rfl

theorem updPsiE_lin (cf : Cfg K) (sim : Bool) (a b : K) (H1 H2 : V3 K) (s t : PmlSt K) (hp : t.p = s.p) :
    updPsiE cf sim (linV a b H1 H2) (linSt a b s t) = linSt a b (updPsiE cf sim H1 s) (updPsiE cf sim H2 t) := by
  apply PmlSt.ext'
  · rfl
  · intro i j k
    simp only [updPsiE, hp, linSt, get_lin, dBwd_lin, linF, stepCpml1_lin]
    split_ifs <;> rfl
  · intro i j k
    simp only [updPsiE, hp, linSt, get_lin, dBwd_lin, linF, stepCpml1_lin]
    split_ifs <;> rfl
  · intro i j k; rfl
  · intro i j k; rfl

theorem mapPsiH_lin (cf : Cfg K) (sim : Bool) (a b : K) (E1 E2 : V3 K) (l1 l2 : List (PmlSt K)) (h : SameP l1 l2) :
    (linPmls a b l1 l2).map (updPsiH cf sim (linV a b E1 E2))
      = linPmls a b (l1.map (updPsiH cf sim E1)) (l2.map (updPsiH cf sim E2)) := by
  induction h with
  | nil => rfl
  | cons hp _ ih =>
    simp only [linPmls, List.zipWith_cons_cons, List.map_cons] at ih ⊢
    rw [updPsiH_lin cf sim a b E1 E2 _ _ hp, ih]

theorem mapPsiE_lin (cf : Cfg K) (sim : Bool) (a b : K) (H1 H2 : V3 K) (l1 l2 : List (PmlSt K)) (h : SameP l1 l2) :
    (linPmls a b l1 l2).map (updPsiE cf sim (linV a b H1 H2))
      = linPmls a b (l1.map (updPsiE cf sim H1)) (l2.map (updPsiE cf sim H2)) := by
  induction h with
  | nil => rfl
  | cons hp _ ih =>
    simp only [linPmls, List.zipWith_cons_cons, List.map_cons] at ih ⊢
    rw [updPsiE_lin cf sim a b H1 H2 _ _ hp, ih]

theorem sameP_map (f g : PmlSt K → PmlSt K) (hf : ∀ s, (f s).p = s.p) (hg : ∀ s, (g s).p = s.p) (l1 l2 : List (PmlSt K))
    (h : SameP l1 l2) : SameP (l1.map f) (l2.map g) := by
  induction h with
  | nil => exact List.Forall₂.nil
  | cons hp _ ih => exact List.Forall₂.cons (by rw [hf, hg]; exact hp) ih

theorem updEwith_lin (cf : Cfg K) (m : Mat K) (a b : K) (jE1 jE2 cu1 cu2 E1 E2 : V3 K) :
    updEwith cf m (linV a b jE1 jE2) (linV a b cu1 cu2) (linV a b E1 E2)
      = linV a b (updEwith cf m jE1 cu1 E1) (updEwith cf m jE2 cu2 E2) := by
  apply V3.ext' <;> intro i j k <;>
    simp only [updEwith, projE, maskV, addV, linV_x, linV_y, linV_z, updE1_lin] <;>
    split_ifs <;> ring

theorem updHwith_lin (cf : Cfg K) (m : Mat K) (a b : K) (jH1 jH2 cu1 cu2 H1 H2 : V3 K) :
    updHwith cf m (linV a b jH1 jH2) (linV a b cu1 cu2) (linV a b H1 H2)
      = linV a b (updHwith cf m jH1 cu1 H1) (updHwith cf m jH2 cu2 H2) := by
  apply V3.ext' <;> intro i j k <;>
    simp only [updHwith, projH, maskV, addV, linV_x, linV_y, linV_z, updH1_lin] <;>
    split_ifs <;> ring

/-- **C10_cpml_affine**: one time step with any set of CPML layers is linear in (sources, E, H, all psi arrays). -/
theorem C10_cpml_affine (cf : Cfg K) (m : Mat K) (a b : K) (jE1 jE2 jH1 jH2 : V3 K) (sim : Bool)
    (l1 l2 : List (PmlSt K)) (h : SameP l1 l2) (E1 E2 H1 H2 : V3 K) :
    forwardP cf m (linV a b jE1 jE2) (linV a b jH1 jH2) sim (linPmls a b l1 l2) (linV a b E1 E2) (linV a b H1 H2)
      = (linV a b (forwardP cf m jE1 jH1 sim l1 E1 H1).1 (forwardP cf m jE2 jH2 sim l2 E2 H2).1,
         linV a b (forwardP cf m jE1 jH1 sim l1 E1 H1).2.1 (forwardP cf m jE2 jH2 sim l2 E2 H2).2.1,
         linPmls a b (forwardP cf m jE1 jH1 sim l1 E1 H1).2.2 (forwardP cf m jE2 jH2 sim l2 E2 H2).2.2) := by
  have h1 : SameP (l1.map (updPsiE cf sim H1)) (l2.map (updPsiE cf sim H2)) :=
    sameP_map (updPsiE cf sim H1) (updPsiE cf sim H2) (fun _ => rfl) (fun _ => rfl) l1 l2 h
  simp only [forwardP]
  rw [curlHp_lin cf sim a b l1 l2 h, updEwith_lin, mapPsiE_lin cf sim a b H1 H2 l1 l2 h,
    curlEp_lin cf sim a b _ _ h1, updHwith_lin, mapPsiH_lin cf sim a b _ _ _ _ h1]

/-- the static layer data never changes during a run -/
theorem forwardP_sameP (cf : Cfg K) (m : Mat K) (jE1 jE2 jH1 jH2 : V3 K) (sim : Bool)
    (l1 l2 : List (PmlSt K)) (h : SameP l1 l2) (E1 E2 H1 H2 : V3 K) :
    SameP (forwardP cf m jE1 jH1 sim l1 E1 H1).2.2 (forwardP cf m jE2 jH2 sim l2 E2 H2).2.2 := by
  simp only [forwardP]
  exact sameP_map (updPsiH cf sim _) (updPsiH cf sim _) (fun _ => rfl) (fun _ => rfl) _ _
    (sameP_map (updPsiE cf sim H1) (updPsiE cf sim H2) (fun _ => rfl) (fun _ => rfl) l1 l2 h)

/-- n steps with CPML layers, sources indexed by the step -/
def fwdPN (cf : Cfg K) (m : Mat K) (jE jH : Nat → V3 K) (sim : Bool) (t : Nat) :
    Nat → V3 K × V3 K × List (PmlSt K) → V3 K × V3 K × List (PmlSt K)
  | 0, s => s
  | n + 1, s => let s' := fwdPN cf m jE jH sim t n s; forwardP cf m (jE (t + n)) (jH (t + n)) sim s'.2.2 s'.1 s'.2.1

/-- **C10_cpml_affine_steps**: n steps with CPML layers are linear in (step-indexed sources, E, H, psi). -/
theorem C10_cpml_affine_steps (cf : Cfg K) (m : Mat K) (a b : K) (jE1 jE2 jH1 jH2 : Nat → V3 K) (sim : Bool) (t n : Nat)
    (l1 l2 : List (PmlSt K)) (h : SameP l1 l2) (E1 E2 H1 H2 : V3 K) :
    fwdPN cf m (fun s => linV a b (jE1 s) (jE2 s)) (fun s => linV a b (jH1 s) (jH2 s)) sim t n
        (linV a b E1 E2, linV a b H1 H2, linPmls a b l1 l2)
      = (linV a b (fwdPN cf m jE1 jH1 sim t n (E1, H1, l1)).1 (fwdPN cf m jE2 jH2 sim t n (E2, H2, l2)).1,
         linV a b (fwdPN cf m jE1 jH1 sim t n (E1, H1, l1)).2.1 (fwdPN cf m jE2 jH2 sim t n (E2, H2, l2)).2.1,
         linPmls a b (fwdPN cf m jE1 jH1 sim t n (E1, H1, l1)).2.2 (fwdPN cf m jE2 jH2 sim t n (E2, H2, l2)).2.2)
    ∧ SameP (fwdPN cf m jE1 jH1 sim t n (E1, H1, l1)).2.2 (fwdPN cf m jE2 jH2 sim t n (E2, H2, l2)).2.2 := by
  induction n with
  | zero => exact ⟨rfl, h⟩
  | succ n ih =>
    obtain ⟨ihe, ihs⟩ := ih
    refine ⟨?_, ?_⟩
    · simp only [fwdPN]
      rw [ihe]
      exact C10_cpml_affine cf m a b _ _ _ _ sim _ _ ihs _ _ _ _
    · simp only [fwdPN]
      exact forwardP_sameP cf m _ _ _ _ sim _ _ ihs _ _ _ _

/-! ### full 3×3 tensors -/

theorem nextAx_lin (cf : Cfg K) (ax : Nat) (a b : K) (f g : F3 K) (i j k : Nat) :
    nextAx cf ax (linF a b f g) i j k = a * nextAx cf ax f i j k + b * nextAx cf ax g i j k := by
  rcases ax with _ | _ | ax <;> simp only [nextAx, linF, next1_lin]

theorem prevAx_lin (cf : Cfg K) (ax : Nat) (a b : K) (f g : F3 K) (i j k : Nat) :
    prevAx cf ax (linF a b f g) i j k = a * prevAx cf ax f i j k + b * prevAx cf ax g i j k := by
  rcases ax with _ | _ | ax <;> simp only [prevAx, linF, prev1_lin]

theorem nextAx_linF (cf : Cfg K) (ax : Nat) (a b : K) (f g : F3 K) :
    nextAx cf ax (linF a b f g) = linF a b (nextAx cf ax f) (nextAx cf ax g) := by
  funext i j k; exact nextAx_lin cf ax a b f g i j k

theorem prevAx_linF (cf : Cfg K) (ax : Nat) (a b : K) (f g : F3 K) :
    prevAx cf ax (linF a b f g) = linF a b (prevAx cf ax f) (prevAx cf ax g) := by
  funext i j k; exact prevAx_lin cf ax a b f g i j k

/-- both neighbour averages (uniform four-point mean and the spacing-weighted variant) are linear -/
theorem avgE_lin (cf : Cfg K) (aw : Option (AW K)) (comp loc : Nat) (a b : K) (f g : F3 K) (i j k : Nat) :
    avgE cf aw comp loc (linF a b f g) i j k = a * avgE cf aw comp loc f i j k + b * avgE cf aw comp loc g i j k := by
  cases aw with
  | none =>
    simp only [avgE, nextAx_linF, prevAx_linF]
    simp only [linF, div_eq_mul_inv]; ring
  | some w =>
    have hc : (fun i j k => (1 / 2 : K) * (linF a b f g i j k + nextAx cf loc (linF a b f g) i j k))
        = linF a b (fun i j k => (1 / 2 : K) * (f i j k + nextAx cf loc f i j k))
            (fun i j k => (1 / 2 : K) * (g i j k + nextAx cf loc g i j k)) := by
      funext i j k; simp only [nextAx_linF, linF]; ring
    simp only [avgE]
    rw [hc, prevAx_lin]
    simp only [nextAx_lin, linF, div_eq_mul_inv]; ring

theorem avgH_lin (cf : Cfg K) (aw : Option (AW K)) (comp loc : Nat) (a b : K) (f g : F3 K) (i j k : Nat) :
    avgH cf aw comp loc (linF a b f g) i j k = a * avgH cf aw comp loc f i j k + b * avgH cf aw comp loc g i j k := by
  cases aw with
  | none =>
    simp only [avgH, nextAx_linF, prevAx_linF]
    simp only [linF, div_eq_mul_inv]; ring
  | some w =>
    have hc : (fun i j k => (linF a b f g i j k * wPrev (w.ax loc) (idxAx loc i j k)
          + prevAx cf loc (linF a b f g) i j k * w.ax loc (idxAx loc i j k))
          / (w.ax loc (idxAx loc i j k) + wPrev (w.ax loc) (idxAx loc i j k)))
        = linF a b (fun i j k => (f i j k * wPrev (w.ax loc) (idxAx loc i j k) + prevAx cf loc f i j k * w.ax loc (idxAx loc i j k))
              / (w.ax loc (idxAx loc i j k) + wPrev (w.ax loc) (idxAx loc i j k)))
            (fun i j k => (g i j k * wPrev (w.ax loc) (idxAx loc i j k) + prevAx cf loc g i j k * w.ax loc (idxAx loc i j k))
              / (w.ax loc (idxAx loc i j k) + wPrev (w.ax loc) (idxAx loc i j k))) := by
      funext i j k; simp only [prevAx_linF, linF, div_eq_mul_inv]; ring
    simp only [avgH]
    rw [hc, nextAx_lin]
    simp only [prevAx_lin, linF, div_eq_mul_inv]; ring

theorem rowsApply_lin (avg : Nat → Nat → F3 K → F3 K)
    (hav : ∀ c l (a b : K) (f g : F3 K) i j k, avg c l (linF a b f g) i j k = a * avg c l f i j k + b * avg c l g i j k)
    (T : F3 (M3 K)) (a b : K) (V W : V3 K) :
    rowsApply avg T (linV a b V W) = linV a b (rowsApply avg T V) (rowsApply avg T W) := by
  have hx : (linV a b V W).x = linF a b V.x W.x := rfl
  have hy : (linV a b V W).y = linF a b V.y W.y := rfl
  have hz : (linV a b V W).z = linF a b V.z W.z := rfl
  apply V3.ext' <;> intro i j k <;> simp only [rowsApply, hx, hy, hz, hav, linV_x, linV_y, linV_z] <;>
    (try simp only [linF]) <;> ring

theorem stepEFull_lin (cf : Cfg K) (aw : Option (AW K)) (inv : F3 (M3 K)) (sig : Option (F3 (M3 K))) (a b : K)
    (jE1 jE2 E1 E2 H1 H2 : V3 K) :
    stepEFull cf aw inv sig (linV a b jE1 jE2) (linV a b E1 E2) (linV a b H1 H2)
      = linV a b (stepEFull cf aw inv sig jE1 E1 H1) (stepEFull cf aw inv sig jE2 E2 H2) := by
  simp only [stepEFull, curlH_lin, rowsApply_lin (avgE cf aw) (avgE_lin cf aw)]
  apply V3.ext' <;> intro i j k <;> simp only [projE, maskV, addV, linV_x, linV_y, linV_z] <;> split_ifs <;> ring

theorem stepHFull_lin (cf : Cfg K) (aw : Option (AW K)) (inv : F3 (M3 K)) (sig : Option (F3 (M3 K))) (a b : K)
    (jH1 jH2 E1 E2 H1 H2 : V3 K) :
    stepHFull cf aw inv sig (linV a b jH1 jH2) (linV a b E1 E2) (linV a b H1 H2)
      = linV a b (stepHFull cf aw inv sig jH1 E1 H1) (stepHFull cf aw inv sig jH2 E2 H2) := by
  simp only [stepHFull, curlE_lin, rowsApply_lin (avgH cf aw) (avgH_lin cf aw)]
  apply V3.ext' <;> intro i j k <;> simp only [projH, maskV, addV, subV, linV_x, linV_y, linV_z] <;> split_ifs <;> ring

/-- **C10_aniso_affine**: the time step of ANY material tier (isotropic, diagonal, full 3×3 tensors for ε⁻¹, μ⁻¹ and the
conductivities; uniform or spacing-weighted averaging) is linear in (sources, E, H). -/
theorem C10_aniso_affine (cf : Cfg K) (aw : Option (AW K)) (m : MatA K) (a b : K) (jE1 jE2 jH1 jH2 E1 E2 H1 H2 : V3 K) :
    forwardA cf aw m (linV a b jE1 jE2) (linV a b jH1 jH2) (linV a b E1 E2) (linV a b H1 H2)
      = (linV a b (forwardA cf aw m jE1 jH1 E1 H1).1 (forwardA cf aw m jE2 jH2 E2 H2).1,
         linV a b (forwardA cf aw m jE1 jH1 E1 H1).2 (forwardA cf aw m jE2 jH2 E2 H2).2) := by
  have hE : stepEA cf aw m (linV a b jE1 jE2) (linV a b E1 E2) (linV a b H1 H2)
      = linV a b (stepEA cf aw m jE1 E1 H1) (stepEA cf aw m jE2 E2 H2) := by
    simp only [stepEA]; split_ifs
    · exact stepEFull_lin cf aw _ _ a b _ _ _ _ _ _
    · exact stepE_lin cf _ a b _ _ _ _ _ _
  have hH : ∀ X1 X2 : V3 K, stepHA cf aw m (linV a b jH1 jH2) (linV a b X1 X2) (linV a b H1 H2)
      = linV a b (stepHA cf aw m jH1 X1 H1) (stepHA cf aw m jH2 X2 H2) := by
    intro X1 X2
    simp only [stepHA]; split_ifs
    · exact stepHFull_lin cf aw _ _ a b _ _ _ _ _ _
    · exact stepH_lin cf _ a b _ _ _ _ _ _
  simp only [forwardA]
  rw [hE, hH]

/-- n steps of the any-tier model -/
def fwdAN (cf : Cfg K) (aw : Option (AW K)) (m : MatA K) (jE jH : Nat → V3 K) (t : Nat) : Nat → V3 K × V3 K → V3 K × V3 K
  | 0, s => s
  | n + 1, s => let s' := fwdAN cf aw m jE jH t n s; forwardA cf aw m (jE (t + n)) (jH (t + n)) s'.1 s'.2

/-- **C10_aniso_affine_steps** -/
theorem C10_aniso_affine_steps (cf : Cfg K) (aw : Option (AW K)) (m : MatA K) (a b : K) (jE1 jE2 jH1 jH2 : Nat → V3 K)
    (t n : Nat) (E1 E2 H1 H2 : V3 K) :
    fwdAN cf aw m (fun s => linV a b (jE1 s) (jE2 s)) (fun s => linV a b (jH1 s) (jH2 s)) t n (linV a b E1 E2, linV a b H1 H2)
      = (linV a b (fwdAN cf aw m jE1 jH1 t n (E1, H1)).1 (fwdAN cf aw m jE2 jH2 t n (E2, H2)).1,
         linV a b (fwdAN cf aw m jE1 jH1 t n (E1, H1)).2 (fwdAN cf aw m jE2 jH2 t n (E2, H2)).2) := by
  induction n with
  | zero => rfl
  | succ n ih =>
    simp only [fwdAN]
    rw [ih]
    exact C10_aniso_affine cf aw m a b _ _ _ _ _ _ _ _

end

/-! ### non-vacuity: two different psi states over the same (graded, kappa ≠ 1) layer satisfy `SameP`; the layer's cell
update is not the zero map; a material with an off-diagonal 3×3 tensor takes the full-tensor branch. -/
def exPml : Pml ℚ :=
  ⟨0, false, ⟨0, 1, 0, 3, 0, 2⟩, false, fun _ => 1 / 3, fun _ => 1 / 2, fun _ => 3 / 4, fun _ => 1 / 5, fun _ => 2 / 3, fun _ => 4 / 5⟩
def exSt (c : ℚ) : PmlSt ℚ := ⟨exPml, fun _ _ _ => c, fun _ _ _ => 2 * c, fun _ _ _ => 3 * c, fun _ _ _ => c⟩
example : SameP [exSt 1] [exSt 5] := List.Forall₂.cons rfl List.Forall₂.nil
example : (stepCpml1 exPml true true 0 2 3).1 ≠ 0 ∧ (stepCpml1 exPml true true 0 2 3).2 ≠ 0 := by
  constructor <;> norm_num [stepCpml1, exPml]
example : (⟨.full (fun _ _ _ => ⟨2, 1, 0, 1, 2, 0, 0, 0, 2⟩), .scalar 1, none, none⟩ : MatA ℚ).fullE = true := rfl

end Fdtdx.C10
