/-
C11 — Complex-valued fields reproduce real-valued runs.

The Yee model is generic in the scalar type, so the statement is naturality of the time step under a ring
homomorphism `φ : R →+* K` between fields (every grid shape, halo rule, walls, metric, diagonal materials with or
without conductivities, any source terms, any number of steps):

  C11_natural            map φ (forward cfg s) = forward (map φ cfg) (map φ s)
  C11_natural_steps      … after n steps with step-indexed sources
  C11_complex_run        φ = (ℝ → ℂ): the complex run started from real data has real part = the real run and
                         imaginary part = 0, at every cell, component and step
  C11_energy_record, C11_poynting_record   |·|² / Re(E × conj H) records of the complex run = the real-run records
  C11_quadrature_inert   the TFSF quadrature branch adds nothing for a profile with zero imaginary part

`map φ cfg` keeps the ghost multipliers `pp`, `pm` as φ-images: that is "no non-zero Bloch phase" (periodic axes have
pp = pm = 1, and φ 1 = 1) — a genuinely complex Bloch phase is not in the image of ℝ.
-/
import FdtdxProps.C02
import FdtdxModel.C10
import FdtdxModel.C11
import Mathlib.Data.Complex.Basic
import Mathlib.Tactic.Ring

namespace Fdtdx.C11
open Fdtdx Fdtdx.Yee Fdtdx.C02

section
variable {R K : Type} [Field R] [Field K] (φ : R →+* K)

theorem next1_map (n : Nat) (b : AxisBC R) (g : Nat → R) (i : Nat) :
    φ (next1 n b g i) = next1 n (mapBC φ b) (fun u => φ (g u)) i := by
  unfold next1; simp only [mapBC]; split_ifs <;> simp [*]

theorem prev1_map (n : Nat) (b : AxisBC R) (g : Nat → R) (i : Nat) :
    φ (prev1 n b g i) = prev1 n (mapBC φ b) (fun u => φ (g u)) i := by
  unfold prev1; simp only [mapBC]; split_ifs <;> simp [*]

theorem curlE_map (cf : Cfg R) (E : V3 R) : mapV φ (curlE cf E) = curlE (mapCfg φ cf) (mapV φ E) := by
  apply V3.ext' <;> intro i j k <;> simp only [mapV, curlE, mapCfg, map_sub, map_mul, next1_map]

theorem curlH_map (cf : Cfg R) (H : V3 R) : mapV φ (curlH cf H) = curlH (mapCfg φ cf) (mapV φ H) := by
  apply V3.ext' <;> intro i j k <;> simp only [mapV, curlH, mapCfg, map_sub, map_mul, prev1_map]

theorem updE1_map (c eta0 e cu ie : R) (sig : Option R) :
    φ (updE1 c eta0 e cu ie sig) = updE1 (φ c) (φ eta0) (φ e) (φ cu) (φ ie) (sig.map φ) := by
  cases sig <;> simp [updE1, map_div₀, map_ofNat]

theorem updH1_map (c eta0 h cu im : R) (sig : Option R) :
    φ (updH1 c eta0 h cu im sig) = updH1 (φ c) (φ eta0) (φ h) (φ cu) (φ im) (sig.map φ) := by
  cases sig <;> simp [updH1, map_div₀, map_ofNat]

theorem pecMask_map (cf : Cfg R) (comp i j k : Nat) : pecMask (mapCfg φ cf) comp i j k = pecMask cf comp i j k := rfl
theorem pmcMask_map (cf : Cfg R) (comp i j k : Nat) : pmcMask (mapCfg φ cf) comp i j k = pmcMask cf comp i j k := rfl

theorem optAt_map (s : Option (V3 R)) (p : V3 R → F3 R) (q : V3 K → F3 K)
    (hpq : ∀ V i j k, q (mapV φ V) i j k = φ (p V i j k)) (i j k : Nat) :
    optAt ((s.map (mapV φ)).map q) i j k = (optAt (s.map p) i j k).map φ := by
  cases s with
  | none => rfl
  | some V => simp [optAt, hpq]

theorem stepE_map (cf : Cfg R) (m : Mat R) (jE E H : V3 R) :
    mapV φ (stepE cf m jE E H) = stepE (mapCfg φ cf) (mapMat φ m) (mapV φ jE) (mapV φ E) (mapV φ H) := by
  have hx := optAt_map φ m.sigE (·.x) (·.x) (fun _ _ _ _ => rfl)
  have hy := optAt_map φ m.sigE (·.y) (·.y) (fun _ _ _ _ => rfl)
  have hz := optAt_map φ m.sigE (·.z) (·.z) (fun _ _ _ _ => rfl)
  have hc := curlH_map φ cf H
  apply V3.ext' <;> intro i j k
  · have := congrArg (fun V => V.x i j k) hc
    simp only [mapV] at this
    simp only [stepE, projE, maskV, addV, mapV, mapMat, pecMask_map, hx, ← this]
    split_ifs <;> simp [updE1_map, mapCfg]
  · have := congrArg (fun V => V.y i j k) hc
    simp only [mapV] at this
    simp only [stepE, projE, maskV, addV, mapV, mapMat, pecMask_map, hy, ← this]
    split_ifs <;> simp [updE1_map, mapCfg]
  · have := congrArg (fun V => V.z i j k) hc
    simp only [mapV] at this
    simp only [stepE, projE, maskV, addV, mapV, mapMat, pecMask_map, hz, ← this]
    split_ifs <;> simp [updE1_map, mapCfg]

theorem stepH_map (cf : Cfg R) (m : Mat R) (jH E H : V3 R) :
    mapV φ (stepH cf m jH E H) = stepH (mapCfg φ cf) (mapMat φ m) (mapV φ jH) (mapV φ E) (mapV φ H) := by
  have hx := optAt_map φ m.sigH (·.x) (·.x) (fun _ _ _ _ => rfl)
  have hy := optAt_map φ m.sigH (·.y) (·.y) (fun _ _ _ _ => rfl)
  have hz := optAt_map φ m.sigH (·.z) (·.z) (fun _ _ _ _ => rfl)
  have hc := curlE_map φ cf E
  apply V3.ext' <;> intro i j k
  · have := congrArg (fun V => V.x i j k) hc
    simp only [mapV] at this
    simp only [stepH, projH, maskV, addV, mapV, mapMat, pmcMask_map, hx, ← this]
    split_ifs <;> simp [updH1_map, mapCfg]
  · have := congrArg (fun V => V.y i j k) hc
    simp only [mapV] at this
    simp only [stepH, projH, maskV, addV, mapV, mapMat, pmcMask_map, hy, ← this]
    split_ifs <;> simp [updH1_map, mapCfg]
  · have := congrArg (fun V => V.z i j k) hc
    simp only [mapV] at this
    simp only [stepH, projH, maskV, addV, mapV, mapMat, pmcMask_map, hz, ← this]
    split_ifs <;> simp [updH1_map, mapCfg]

/-- **C11_natural**: the time step commutes with every ring homomorphism between scalar fields. -/
theorem C11_natural (cf : Cfg R) (m : Mat R) (jE jH E H : V3 R) :
    forward (mapCfg φ cf) (mapMat φ m) (mapV φ jE) (mapV φ jH) (mapV φ E) (mapV φ H)
      = (mapV φ (forward cf m jE jH E H).1, mapV φ (forward cf m jE jH E H).2) := by
  simp only [forward]
  rw [stepH_map, stepE_map]

/-- **C11_natural_steps**: n steps with step-indexed sources -/
theorem C11_natural_steps (cf : Cfg R) (m : Mat R) (jE jH : Nat → V3 R) (t n : Nat) (E H : V3 R) :
    fwdN (mapCfg φ cf) (mapMat φ m) (fun s => mapV φ (jE s)) (fun s => mapV φ (jH s)) t n (mapV φ E, mapV φ H)
      = (mapV φ (fwdN cf m jE jH t n (E, H)).1, mapV φ (fwdN cf m jE jH t n (E, H)).2) := by
  induction n with
  | zero => rfl
  | succ n ih =>
    simp only [fwdN]
    rw [ih]
    exact C11_natural φ cf m _ _ _ _

end

/-! ### real → complex -/
section complex
open Complex

/-- the embedding ℝ → ℂ used by `use_complex_fields=True` (real data stored with zero imaginary part) -/
noncomputable def emb : ℝ →+* ℂ := Complex.ofRealHom

/-- **C11_complex_run**: a complex-storage run of a scene without Bloch phase, started from the real data, has at
every step, cell and component real part = the real-storage run and imaginary part = 0. -/
theorem C11_complex_run (cf : Cfg ℝ) (m : Mat ℝ) (jE jH : Nat → V3 ℝ) (t n : Nat) (E H : V3 ℝ) (i j k : Nat) :
    let SC := fwdN (mapCfg emb cf) (mapMat emb m) (fun s => mapV emb (jE s)) (fun s => mapV emb (jH s)) t n
        (mapV emb E, mapV emb H)
    let SR := fwdN cf m jE jH t n (E, H)
    ((SC.1.x i j k).re = SR.1.x i j k ∧ (SC.1.x i j k).im = 0)
    ∧ ((SC.1.y i j k).re = SR.1.y i j k ∧ (SC.1.y i j k).im = 0)
    ∧ ((SC.1.z i j k).re = SR.1.z i j k ∧ (SC.1.z i j k).im = 0)
    ∧ ((SC.2.x i j k).re = SR.2.x i j k ∧ (SC.2.x i j k).im = 0)
    ∧ ((SC.2.y i j k).re = SR.2.y i j k ∧ (SC.2.y i j k).im = 0)
    ∧ ((SC.2.z i j k).re = SR.2.z i j k ∧ (SC.2.z i j k).im = 0) := by
  intro SC SR
  have h : SC = _ := C11_natural_steps emb cf m jE jH t n E H
  rw [h]
  simp [mapV, emb]
  exact ⟨rfl, rfl, rfl, rfl, rfl, rfl⟩

/-- **C11_energy_record**: the EnergyDetector expression on complex storage (|·|²) of an embedded real state equals
the real-storage expression. -/
theorem C11_energy_record (ie im E H : V3 ℝ) (i j k : Nat) :
    detEnergyG Complex.normSq ie im (mapV emb E) (mapV emb H) i j k = C10.detEnergy ie im E H i j k := by
  simp [detEnergyG, C10.detEnergy, mapV, emb, Complex.normSq_ofReal]

/-- **C11_poynting_record**: Re(E × conj H) on complex storage of an embedded real state = E × H -/
theorem C11_poynting_record (E H : V3 ℝ) :
    poyntingG (starRingEnd ℂ) Complex.re (mapV emb E) (mapV emb H) = C10.poynting E H := by
  apply V3.ext' <;> intro i j k <;> simp [poyntingG, C10.poynting, mapV, emb]

end complex

/-- **C11_quadrature_inert**: for an incident profile whose imaginary part is zero the quadrature branch of
`_tfsf_inject_*` injects exactly what the plain branch injects (over any field). -/
theorem C11_quadrature_inert {K : Type} [Field K] (re amp quad : K) :
    incidentComponent true re 0 amp quad = incidentComponent false re 0 amp quad := by
  simp [incidentComponent]

/-! ### non-vacuity: the embedded configuration of C01's example is a genuine complex configuration whose periodic
ghost multipliers are 1, and the quadrature branch is NOT inert for a genuinely complex profile. -/
noncomputable def exCfgR : Cfg ℝ :=
  { nx := 2, ny := 3, nz := 2, bx := ⟨true, 1, 1, false, false, false, false⟩, by_ := ⟨false, 1, 1, true, true, false, false⟩,
    bz := ⟨false, 1, 1, false, false, false, true⟩,
    sfx := fun _ => 1, sfy := fun _ => 1, sfz := fun _ => 1, sbx := fun _ => 1, sby := fun _ => 1, sbz := fun _ => 1,
    c := 1 / 2, eta0 := 1 }
example : (mapCfg emb exCfgR).bx.pp = 1 ∧ (mapCfg emb exCfgR).bx.wrap = true ∧ (mapCfg emb exCfgR).c = 1 / 2 := by
  simp [mapCfg, mapBC, exCfgR, emb]
example : incidentComponent true (1 : ℚ) 2 3 5 ≠ incidentComponent false 1 2 3 5 := by
  simp [incidentComponent]

end Fdtdx.C11
