/-
C08 — The solver is equivariant under cyclic permutation of the axes.

`rotF / rotV / rotC / rotM` (`FdtdxModel/C08.lean`) relabel arrays, vector fields, the configuration (shape, per-axis
halo rule, ghost multipliers, PEC/PMC wall flags, metric scales) and the materials (diagonal tensors, conductivities)
by x → y, y → z, z → x.  Theorems about the shared Yee model, over ANY scalar type with the operations the model uses
(so in particular binary64 itself — nothing but the shape of the formulas is used, no algebraic law):

  C08_curlE_equivariant / C08_curlH_equivariant     curl (rot cf) (rot F) = rot (curl cf F)
  C08_walls_equivariant                             the PEC/PMC masks rotate with comp ↦ comp+1 (mod 3)
  C08_step_equivariant        forward (rot cf) (rot m) (rot jE) (rot jH) (rot E) (rot H) = rot (forward cf m jE jH E H)
  C08_backward_equivariant    the same for `backward`
  C08_steps_equivariant       n steps with step-indexed source terms (any sources, switches, profiles), by induction
  C08_backward_steps_equivariant
  C08_poynting_equivariant    the raw Poynting record E × H rotates like a vector field
  C08_rot_cube                three relabellings are the identity (rot is a genuine relabelling: a bijection)
  C08_hvp_shift               the oriented (horizontal, vertical, propagation) triple shifts cyclically with the axis

Not covered by a theorem (K on the real code only, see props/C08.json → not_shown): CPML layers, full 3×3 tensors,
the construction of the source terms from the source objects (`get_oriented_transverse_axes`, profiles).
-/
import FdtdxModel.C08

namespace Fdtdx.C08
open Fdtdx Fdtdx.Yee
set_option linter.unusedSectionVars false

section
variable {α : Type} [Add α] [Sub α] [Mul α] [Div α] [OfNat α 0] [OfNat α 1] [OfNat α 2]

/-- **C08_curlE_equivariant** -/
theorem C08_curlE_equivariant (cf : Cfg α) (E : V3 α) : curlE (rotC cf) (rotV E) = rotV (curlE cf E) := rfl

/-- **C08_curlH_equivariant** -/
theorem C08_curlH_equivariant (cf : Cfg α) (H : V3 α) : curlH (rotC cf) (rotV H) = rotV (curlH cf H) := rfl

/-- the wall masks rotate with the component index: component `c` of the original scene is component `c+1 mod 3` of the
relabelled one -/
theorem pecMask_rot (cf : Cfg α) (i j k : Nat) :
    pecMask (rotC cf) 1 i j k = pecMask cf 0 j k i ∧ pecMask (rotC cf) 2 i j k = pecMask cf 1 j k i
      ∧ pecMask (rotC cf) 0 i j k = pecMask cf 2 j k i := by
  simp only [pecMask, rotC]
  refine ⟨?_, ?_, ?_⟩ <;>
    cases onWall cf.bx.pecLo cf.bx.pecHi cf.nx j <;> cases onWall cf.by_.pecLo cf.by_.pecHi cf.ny k <;>
      cases onWall cf.bz.pecLo cf.bz.pecHi cf.nz i <;> decide

theorem pmcMask_rot (cf : Cfg α) (i j k : Nat) :
    pmcMask (rotC cf) 1 i j k = pmcMask cf 0 j k i ∧ pmcMask (rotC cf) 2 i j k = pmcMask cf 1 j k i
      ∧ pmcMask (rotC cf) 0 i j k = pmcMask cf 2 j k i := by
  simp only [pmcMask, rotC]
  refine ⟨?_, ?_, ?_⟩ <;>
    cases onWall cf.bx.pmcLo cf.bx.pmcHi cf.nx j <;> cases onWall cf.by_.pmcLo cf.by_.pmcHi cf.ny k <;>
      cases onWall cf.bz.pmcLo cf.bz.pmcHi cf.nz i <;> decide

/-- **C08_walls_equivariant**: PEC / PMC tangential zeroing commutes with the relabelling -/
theorem C08_walls_equivariant (cf : Cfg α) (V : V3 α) :
    projE (rotC cf) (rotV V) = rotV (projE cf V) ∧ projH (rotC cf) (rotV V) = rotV (projH cf V) := by
  constructor
  · simp only [projE, maskV, rotV, rotF]
    congr 1 <;> funext i j k
    · rw [(pecMask_rot cf i j k).2.2]; rfl
    · rw [(pecMask_rot cf i j k).1]; rfl
    · rw [(pecMask_rot cf i j k).2.1]; rfl
  · simp only [projH, maskV, rotV, rotF]
    congr 1 <;> funext i j k
    · rw [(pmcMask_rot cf i j k).2.2]; rfl
    · rw [(pmcMask_rot cf i j k).1]; rfl
    · rw [(pmcMask_rot cf i j k).2.1]; rfl

theorem optAt_rot (s : Option (V3 α)) (i j k : Nat) :
    optAt ((s.map rotV).map (·.x)) i j k = optAt (s.map (·.z)) j k i
      ∧ optAt ((s.map rotV).map (·.y)) i j k = optAt (s.map (·.x)) j k i
      ∧ optAt ((s.map rotV).map (·.z)) i j k = optAt (s.map (·.y)) j k i := by
  cases s <;> exact ⟨rfl, rfl, rfl⟩

theorem stepE_rot (cf : Cfg α) (m : Mat α) (jE E H : V3 α) :
    stepE (rotC cf) (rotM m) (rotV jE) (rotV E) (rotV H) = rotV (stepE cf m jE E H) := by
  obtain ⟨ie, im, sE, sH⟩ := m
  unfold stepE
  simp only [C08_curlH_equivariant]
  rw [← (C08_walls_equivariant cf _).1]
  congr 1
  simp only [addV, rotV, rotF, rotM, rotC]
  congr 1
  all_goals (cases sE <;> rfl)

theorem stepH_rot (cf : Cfg α) (m : Mat α) (jH E H : V3 α) :
    stepH (rotC cf) (rotM m) (rotV jH) (rotV E) (rotV H) = rotV (stepH cf m jH E H) := by
  obtain ⟨ie, im, sE, sH⟩ := m
  unfold stepH
  simp only [C08_curlE_equivariant]
  rw [← (C08_walls_equivariant cf _).2]
  congr 1
  simp only [addV, rotV, rotF, rotM, rotC]
  congr 1
  all_goals (cases sH <;> rfl)

/-- **C08_step_equivariant**: one forward step of the relabelled scene is the relabelled forward step. -/
theorem C08_step_equivariant (cf : Cfg α) (m : Mat α) (jE jH E H : V3 α) :
    forward (rotC cf) (rotM m) (rotV jE) (rotV jH) (rotV E) (rotV H)
      = (rotV (forward cf m jE jH E H).1, rotV (forward cf m jE jH E H).2) := by
  simp only [forward, stepE_rot, stepH_rot]

theorem revStepH_rot (cf : Cfg α) (m : Mat α) (jH E H : V3 α) :
    revStepH (rotC cf) (rotM m) (rotV jH) (rotV E) (rotV H) = rotV (revStepH cf m jH E H) := by
  obtain ⟨ie, im, sE, sH⟩ := m
  unfold revStepH
  simp only [C08_curlE_equivariant]
  rw [← (C08_walls_equivariant cf _).2]
  congr 1
  simp only [subV, rotV, rotF, rotM, rotC]
  congr 1
  all_goals (cases sH <;> rfl)

theorem revStepE_rot (cf : Cfg α) (m : Mat α) (jE E H : V3 α) :
    revStepE (rotC cf) (rotM m) (rotV jE) (rotV E) (rotV H) = rotV (revStepE cf m jE E H) := by
  obtain ⟨ie, im, sE, sH⟩ := m
  unfold revStepE
  simp only [C08_curlH_equivariant]
  rw [← (C08_walls_equivariant cf _).1]
  congr 1
  simp only [subV, rotV, rotF, rotM, rotC]
  congr 1
  all_goals (cases sE <;> rfl)

/-- **C08_backward_equivariant**: one backward (time-reversed) step commutes with the relabelling. -/
theorem C08_backward_equivariant (cf : Cfg α) (m : Mat α) (jE jH E H : V3 α) :
    backward (rotC cf) (rotM m) (rotV jE) (rotV jH) (rotV E) (rotV H)
      = (rotV (backward cf m jE jH E H).1, rotV (backward cf m jE jH E H).2) := by
  simp only [backward, revStepH_rot, revStepE_rot]

/-- relabelling of a state (E, H) -/
def rotS (s : V3 α × V3 α) : V3 α × V3 α := (rotV s.1, rotV s.2)

/-- n forward steps starting at step `t`; the source terms of step `u` are `jE u`, `jH u` (any source set, switch,
temporal profile) -/
def fwdN (cf : Cfg α) (m : Mat α) (jE jH : Nat → V3 α) (t : Nat) : Nat → V3 α × V3 α → V3 α × V3 α
  | 0, s => s
  | n + 1, s => let s' := fwdN cf m jE jH t n s; forward cf m (jE (t + n)) (jH (t + n)) s'.1 s'.2

/-- n backward steps undoing steps t+n-1, …, t -/
def bwdN (cf : Cfg α) (m : Mat α) (jE jH : Nat → V3 α) (t : Nat) : Nat → V3 α × V3 α → V3 α × V3 α
  | 0, s => s
  | n + 1, s => bwdN cf m jE jH t n (backward cf m (jE (t + n)) (jH (t + n)) s.1 s.2)

/-- **C08_steps_equivariant**: a run of any length on the relabelled scene (shape, halo rules, walls, metric, materials,
source terms of every step, initial state) is the relabelled run. -/
theorem C08_steps_equivariant (cf : Cfg α) (m : Mat α) (jE jH : Nat → V3 α) (t n : Nat) (s : V3 α × V3 α) :
    fwdN (rotC cf) (rotM m) (fun u => rotV (jE u)) (fun u => rotV (jH u)) t n (rotS s)
      = rotS (fwdN cf m jE jH t n s) := by
  induction n with
  | zero => rfl
  | succ n ih =>
    simp only [fwdN, ih]
    exact C08_step_equivariant cf m _ _ _ _

/-- **C08_backward_steps_equivariant** -/
theorem C08_backward_steps_equivariant (cf : Cfg α) (m : Mat α) (jE jH : Nat → V3 α) (t n : Nat) (s : V3 α × V3 α) :
    bwdN (rotC cf) (rotM m) (fun u => rotV (jE u)) (fun u => rotV (jH u)) t n (rotS s)
      = rotS (bwdN cf m jE jH t n s) := by
  induction n generalizing s with
  | zero => rfl
  | succ n ih =>
    simp only [bwdN]
    rw [← ih]
    congr 1
    exact C08_backward_equivariant cf m _ _ _ _

/-- **C08_poynting_equivariant**: the raw record of a Poynting-flux detector without co-location (E × H, cell by
cell) is relabelled like a vector field; a raw field record is `rotV` of the fields by definition. -/
theorem C08_poynting_equivariant (E H : V3 α) : crossV (rotV E) (rotV H) = rotV (crossV E H) := rfl

/-- **C08_rot_cube**: relabelling three times is the identity on fields, configurations and materials — `rot` is a
bijective relabelling, so the three orientations of a scene are the full orbit. -/
theorem C08_rot_cube (cf : Cfg α) (m : Mat α) (V : V3 α) :
    rotV (rotV (rotV V)) = V ∧ rotC (rotC (rotC cf)) = cf ∧ rotM (rotM (rotM m)) = m := by
  refine ⟨rfl, rfl, ?_⟩
  obtain ⟨ie, im, sE, sH⟩ := m
  cases sE <;> cases sH <;> rfl

end

/-! ### the oriented-axes helper -/

/-- **C08_hvp_shift**: relabelling the propagation axis cyclically shifts the whole right-handed (horizontal, vertical,
propagation) triple of `get_oriented_transverse_axes` cyclically — so azimuth/elevation rotations, the (horizontal,
vertical) layout of transverse profiles and the TFSF face pair are relabelled consistently. -/
theorem C08_hvp_shift (a : Nat) (ha : a < 3) :
    hvp ((a + 1) % 3) = (((hvp a).1 + 1) % 3, ((hvp a).2.1 + 1) % 3, ((hvp a).2.2 + 1) % 3) := by
  have h : a = 0 ∨ a = 1 ∨ a = 2 := by omega
  rcases h with h | h | h <;> subst h <;> decide

/-- the triple is a right-handed (even) permutation of (0,1,2) for every axis -/
theorem C08_hvp_cyclic (a : Nat) (ha : a < 3) :
    (hvp a = (1, 2, 0)) ∨ (hvp a = (2, 0, 1)) ∨ (hvp a = (0, 1, 2)) := by
  have h : a = 0 ∨ a = 1 ∨ a = 2 := by omega
  rcases h with h | h | h <;> subst h <;> decide

/-- the ascending pair of `get_transverse_axes` does NOT shift with the axis (it is (0,2) instead of (2,0) for y): using it
where an oriented pair is needed breaks the equivariance exactly for propagation along y -/
theorem C08_ascending_not_equivariant :
    (ascendingAxes 0 = ((hvp 0).1, (hvp 0).2.1)) ∧ (ascendingAxes 2 = ((hvp 2).1, (hvp 2).2.1))
      ∧ (ascendingAxes 1 ≠ ((hvp 1).1, (hvp 1).2.1)) := by decide

/-! ### non-vacuity: the relabelling is not the identity, and the equivariance statement is about different scenes -/

/-- a 2×3×4 box, periodic along x, PEC at the low y face, PMC at the high z face -/
def exCfg : Cfg Int :=
  { nx := 2, ny := 3, nz := 4,
    bx := ⟨true, 1, 1, false, false, false, false⟩, by_ := ⟨false, 1, 1, true, false, false, false⟩,
    bz := ⟨false, 1, 1, false, false, false, true⟩,
    sfx := fun _ => 1, sfy := fun _ => 2, sfz := fun _ => 3, sbx := fun _ => 1, sby := fun _ => 2, sbz := fun _ => 3,
    c := 1, eta0 := 1 }

example : (rotC exCfg).nx = 4 ∧ (rotC exCfg).ny = 2 ∧ (rotC exCfg).nz = 3 ∧ (rotC exCfg).by_.wrap = true
    ∧ (rotC exCfg).bz.pecLo = true ∧ (rotC exCfg).bx.pmcHi = true ∧ (rotC exCfg).sfy 0 = 1 := by decide

/-- the x-directed unit field at cell (1,2,3) becomes the y-directed unit field at cell (3,1,2) -/
def exV : V3 Int :=
  { x := fun i j k => if i = 1 ∧ j = 2 ∧ k = 3 then 1 else 0, y := fun _ _ _ => 0, z := fun _ _ _ => 0 }

example : (rotV exV).y 3 1 2 = 1 ∧ (rotV exV).x 3 1 2 = 0 ∧ (rotV exV).y 1 2 3 = 0 := by decide

/-- the PEC wall at the low y face (zeroing E_x, E_z at j = 0) becomes a wall at the low z face of the relabelled scene
(zeroing E_y, E_x at k = 0) -/
example : pecMask exCfg 0 1 0 2 = true ∧ pecMask (rotC exCfg) 1 2 1 0 = true ∧ pecMask (rotC exCfg) 2 2 1 0 = false := by
  decide

end Fdtdx.C08
