/-
C26 — Resolved object placement satisfies every constraint.

Property theorems about `FdtdxModel/C26.lean` (`solve` = `fdtdx.resolve_object_constraints` after the three
`fix:` commits), for EVERY system: any number of objects and constraints, any grid (edge lists), any
`max_iter`, any scalar type.

  C26_set_once          a slot of `slice_dict` / `shape_dict` that is known at some point of the loop keeps its
                        value to the end
  C26_sound             solve = done r []  →  every compiled rule (atom) is stable on r, and verified
                        (premises known, f defined, target = f premises) whenever it talks about existing
                        objects and axes < 3;  every slot of every object is known with size = hi - lo;
                        every non-volume object lies inside the volume with positive size
  C26_grid_coordinate   … hence a GridCoordinateConstraint holds exactly on the final slices (and the grid is uniform)
  C26_real_coordinate   a RealCoordinateConstraint: bound = coord_to_index(nearest) of the coordinate
  C26_position          a PositionConstraint: lower bound = bounds_for_anchor(anchor of the other's FINAL slice
                        + margins, own FINAL size), upper = lower + size
  C26_size              a SizeConstraint: size = _real_length_to_grid_size(extent of the other's FINAL slice …)
  C26_extension         a SizeExtensionConstraint: bound = nearest edge of the other's FINAL anchor / the volume's bound
  C26_static_shape, C26_static_position   partial_grid_shape / partial_real_shape / partial_real_position hold
  C26_nearest           the snapping used by all of them (`argminAbs`) returns the FIRST index of an element
                        nearest to the wanted coordinate (ordered field) — "nearest-edge snapping"
  C26_unconstrained     an axis of a non-volume object that nothing talks about (no static shape/position, no
                        constraint on it) ends as lo = 0, hi = volume size — the volume's own slice when the volume
                        has no partial_real_position there (hypothesis: the volume declares its shape, `volSizedInit`)

Refutation witnesses for the pinned tree (`AsFound.solve`): `asFound_*` examples at the end, and the same
inputs rejected by `solve`.
-/
import FdtdxLemmas.C26Sys
import FdtdxLemmas.C26Snap
import FdtdxLemmas.C26Witness
import FdtdxLemmas.C26Free

namespace Fdtdx.C26

variable {α : Type} [Add α] [Sub α] [Mul α] [Div α] [Neg α] [LT α] [DecidableLT α]
  [OfNat α 0] [OfNat α 1] [OfNat α 2]

set_option linter.unusedSectionVars false

/-! ### set-once -/

/-- C26_set_once: in `_apply_constraints_iteratively` a known slot never changes. -/
theorem C26_set_once (sys : Sys α) (gs : List Group) (n : Nat) (σ τ : St) (e e' : List Nat)
    (h : loop sys gs n σ e = some (τ, e')) (v : Var) (x : Int) (hv : σ v = some x) : τ v = some x :=
  loop_mono sys gs n σ e τ e' h v x hv

/-! ### what a successful `solve` consists of -/

theorem validate_nil {sys : Sys α} {σ : St} {e : List Nat} (h : validate sys σ e = some []) :
    e = [] ∧ ∀ o ∈ sys.objs, o.id ≠ volId sys → objBad σ (volId sys) o.id = some false := by
  unfold validate at h
  simp only at h
  split at h
  · cases h
  · rename_i hany
    simp only [Option.some.injEq, List.append_eq_nil_iff] at h
    refine ⟨h.2, fun o ho hne => ?_⟩
    have hmem : o ∈ sys.objs.filter (fun o => o.id != volId sys) := by
      simp [List.mem_filter, ho, hne]
    have h1 : objBad σ (volId sys) o.id ≠ none := by
      simp only [List.any_eq_true, not_exists, not_and] at hany
      have := hany o hmem
      simpa using this
    have h2 : ¬ (objBad σ (volId sys) o.id == some true) = true := by
      intro hb
      have : o.id ∈ ((sys.objs.filter fun o => o.id != volId sys).filter
          fun o => objBad σ (volId sys) o.id == some true).map (·.id) :=
        List.mem_map.2 ⟨o, List.mem_filter.2 ⟨hmem, hb⟩, rfl⟩
      rw [h.1] at this; cases this
    cases hb : objBad σ (volId sys) o.id with
    | none => exact absurd hb h1
    | some b =>
      cases b with
      | false => rfl
      | true => rw [hb] at h2; simp at h2

theorem solve_done {sys : Sys α} {n : Nat} {r : St} (h : solve sys n = .done r []) :
    wellFormed sys = true ∧ ∃ σ₀, init sys = some σ₀ ∧ loop sys (groups sys) n σ₀ [] = some (r, []) ∧
      validate sys r [] = some [] := by
  unfold solve at h
  split at h
  · cases h
  · rename_i hwf
    refine ⟨by simpa using hwf, ?_⟩
    split at h
    · cases h
    · rename_i σ₀ hinit
      split at h
      · cases h
      · rename_i σ e hloop
        split at h
        · cases h
        · rename_i e' hval
          simp only [Outcome.done.injEq] at h
          obtain ⟨rfl, rfl⟩ := h
          have := (validate_nil hval).1
          subst this
          exact ⟨σ₀, hinit, hloop, hval⟩

theorem mem_axes3 {ax : Nat} : ax ∈ axes3 ↔ ax < 3 := by
  unfold axes3
  constructor
  · intro h; simp at h; omega
  · intro h
    have : ax = 0 ∨ ax = 1 ∨ ax = 2 := by omega
    simpa using this

theorem unresolved_nil {sys : Sys α} {σ : St} (h : unresolved sys σ = []) :
    ∀ o ∈ sys.objs, ∀ ax, ax < 3 → (∃ x, σ ⟨o.id, ax, .lo⟩ = some x) ∧ (∃ x, σ ⟨o.id, ax, .hi⟩ = some x) := by
  intro o ho ax hax
  unfold unresolved at h
  have hf : sliceUnknown σ o.id = false := by
    cases hs : sliceUnknown σ o.id with
    | false => rfl
    | true =>
      have : o.id ∈ (sys.objs.filter fun o => sliceUnknown σ o.id).map (·.id) :=
        List.mem_map.2 ⟨o, List.mem_filter.2 ⟨ho, hs⟩, rfl⟩
      rw [h] at this; cases this
  unfold sliceUnknown at hf
  have := (List.any_eq_false.1 hf) ax (mem_axes3.2 hax)
  simp only [Bool.or_eq_true, not_or, Option.isNone_iff_eq_none] at this
  exact ⟨Option.ne_none_iff_exists'.1 this.1, Option.ne_none_iff_exists'.1 this.2⟩

theorem shapeAtom_mem {sys : Sys α} {o : Obj α} (ho : o ∈ sys.objs) {ax : Nat} (hax : ax < 3) :
    (⟨[⟨o.id, ax, .hi⟩, ⟨o.id, ax, .lo⟩], false, ⟨o.id, ax, .size⟩, subF⟩ : Atom) ∈ allAtoms (groups sys) := by
  refine mem_allAtoms.2 ⟨⟨o.id, false, [⟨[⟨o.id, ax, .hi⟩, ⟨o.id, ax, .lo⟩], false, ⟨o.id, ax, .size⟩, subF⟩]⟩, ?_, by simp⟩
  refine mem_groups.2 (Or.inr (Or.inr (Or.inl ⟨o, ho, ?_⟩)))
  simp only [shapeGroups, List.mem_map]
  exact ⟨ax, mem_axes3.2 hax, rfl⟩

theorem objBad_false {σ : St} {vol id : Nat} (h : objBad σ vol id = some false) (ax : Nat) (hax : ax < 3) :
    ∃ lo hi vlo vhi, σ ⟨id, ax, .lo⟩ = some lo ∧ σ ⟨id, ax, .hi⟩ = some hi ∧ σ ⟨vol, ax, .lo⟩ = some vlo ∧
      σ ⟨vol, ax, .hi⟩ = some vhi ∧ vlo ≤ lo ∧ hi ≤ vhi ∧ lo < hi := by
  unfold objBad at h
  split at h
  · cases h
  · split at h
    · cases h
    · simp only [Option.some.injEq] at h
      have := (List.any_eq_false.1 h) ax (mem_axes3.2 hax)
      split at this
      · rename_i s1 s2 v1 v2 h1 h2 h3 h4
        simp only [Bool.or_eq_true, decide_eq_true_eq, not_or, not_lt, not_le] at this
        exact ⟨s1, s2, v1, v2, h1, h2, h3, h4, this.1.1, this.1.2, this.2⟩
      · simp at this

/-- every in-scope slot is known at the end of a successful run, sizes are consistent -/
theorem final_known {sys : Sys α} {r : St} (hst : StableAll (groups sys) r) (hun : unresolved sys r = []) :
    ∀ o ∈ sys.objs, ∀ ax, ax < 3 → ∃ lo hi, r ⟨o.id, ax, .lo⟩ = some lo ∧ r ⟨o.id, ax, .hi⟩ = some hi ∧
      r ⟨o.id, ax, .size⟩ = some (hi - lo) := by
  intro o ho ax hax
  obtain ⟨⟨lo, hlo⟩, ⟨hi, hhi⟩⟩ := unresolved_nil hun o ho ax hax
  have hv := stable_verified_of_known (hst _ (shapeAtom_mem ho hax)) (by
    intro v hv
    simp only [List.mem_cons, List.not_mem_nil, or_false] at hv
    rcases hv with rfl | rfl
    · exact ⟨hi, hhi⟩
    · exact ⟨lo, hlo⟩)
  obtain ⟨vs, x, hp, hf, ht⟩ := hv
  simp only [premVals, hhi, hlo] at hp
  cases hp
  simp only [subF, Option.some.injEq] at hf
  subst hf
  exact ⟨lo, hi, hlo, hhi, ht⟩

/-- **C26_sound** — a successful placement: no compiled rule is contradicted, every rule about existing
objects is verified on the final slices, every slot is resolved with `size = hi - lo`, every non-volume object
lies inside the volume and has positive size. -/
theorem C26_sound (sys : Sys α) (n : Nat) (r : St) (h : solve sys n = .done r []) :
    (∀ a ∈ allAtoms (groups sys), Stable a r) ∧
    (∀ a ∈ allAtoms (groups sys), (∀ v ∈ a.prem, isObj sys v.o = true ∧ v.ax < 3) → Verified a r) ∧
    (∀ o ∈ sys.objs, ∀ ax, ax < 3 → ∃ lo hi, r ⟨o.id, ax, .lo⟩ = some lo ∧ r ⟨o.id, ax, .hi⟩ = some hi ∧
      r ⟨o.id, ax, .size⟩ = some (hi - lo)) ∧
    (∀ o ∈ sys.objs, o.id ≠ volId sys → ∀ ax, ax < 3 → ∃ lo hi vlo vhi,
      r ⟨o.id, ax, .lo⟩ = some lo ∧ r ⟨o.id, ax, .hi⟩ = some hi ∧
      r ⟨volId sys, ax, .lo⟩ = some vlo ∧ r ⟨volId sys, ax, .hi⟩ = some vhi ∧
      vlo ≤ lo ∧ hi ≤ vhi ∧ lo < hi) := by
  obtain ⟨hwf, σ₀, hinit, hloop, hval⟩ := solve_done h
  have hne : sys.objs ≠ [] := by
    intro h0
    have := wellFormed_oneVol hwf
    unfold OneVol at this
    rw [h0] at this; simp at this
  obtain ⟨hst, _, hun⟩ := loop_sound sys (groups sys) hne n σ₀ [] r hloop
  have hk := final_known hst hun
  refine ⟨hst, ?_, hk, ?_⟩
  · intro a ha hscope
    apply stable_verified_of_known (hst a ha)
    intro v hv
    obtain ⟨hobj, hax⟩ := hscope v hv
    obtain ⟨o, ho, hid⟩ := isObj_iff.1 hobj
    obtain ⟨lo, hi, h1, h2, h3⟩ := hk o ho v.ax hax
    rcases v with ⟨vo, vax, vk⟩
    simp only at hid hax h1 h2 h3
    subst hid
    cases vk
    · exact ⟨lo, h1⟩
    · exact ⟨hi, h2⟩
    · exact ⟨hi - lo, h3⟩
  · intro o ho hne ax hax
    exact objBad_false ((validate_nil hval).2 o ho hne) ax hax

/-! ### the five constraint kinds and the static fields, read off `C26_sound` -/

theorem conAtom_mem {sys : Sys α} {c : Con α} (hc : c ∈ sys.cons) {a : Atom}
    (ha : a ∈ c.atoms sys.grid (volId sys) false) : a ∈ allAtoms (groups sys) :=
  mem_allAtoms.2 ⟨⟨c.owner, true, c.atoms sys.grid (volId sys) false⟩, mem_groups.2 (Or.inr (Or.inr (Or.inr ⟨c, hc, rfl⟩))), ha⟩

theorem raiseAtom_not_stable (o ax : Nat) (r : St) : ¬ Stable (raiseAtom o ax) r := by
  intro h
  rcases h with h | h <;> simp [Atom.eval, raiseAtom, premVals] at h

theorem wellFormed_con {sys : Sys α} (h : wellFormed sys = true) {c : Con α} (hc : c ∈ sys.cons) :
    isObj sys c.owner = true ∧ ∀ t, c.other = some t → isObj sys t = true := by
  unfold wellFormed at h
  simp only [Bool.and_eq_true, List.all_eq_true] at h
  have := h.2 c hc
  refine ⟨this.1, fun t ht => ?_⟩
  rw [ht] at this
  exact this.2

/-- C26_grid_coordinate: the constrained side sits exactly at the given grid coordinate. -/
theorem C26_grid_coordinate {sys : Sys α} {n : Nat} {r : St} (h : solve sys n = .done r [])
    {o : Nat} {es : List (Nat × Bool × Int)} (hc : Con.gridc o es ∈ sys.cons)
    {ax : Nat} {hi : Bool} {c : Int} (he : (ax, hi, c) ∈ es) :
    sys.grid.uniform = true ∧ r ⟨o, ax, sideKind hi⟩ = some c := by
  obtain ⟨hst, hver, _, _⟩ := C26_sound sys n r h
  have hu : sys.grid.uniform = true := by
    cases hu : sys.grid.uniform with
    | true => rfl
    | false =>
      exfalso
      have : raiseAtom o 0 ∈ allAtoms (groups sys) := conAtom_mem hc (by simp [Con.atoms, hu])
      exact raiseAtom_not_stable _ _ _ (hst _ this)
  refine ⟨hu, ?_⟩
  have hm : (⟨[], false, ⟨o, ax, sideKind hi⟩, fun _ => some c⟩ : Atom) ∈ allAtoms (groups sys) :=
    conAtom_mem hc (by
      simp only [Con.atoms, hu, Bool.not_true, Bool.false_eq_true, if_false, List.mem_map]
      exact ⟨(ax, hi, c), he, rfl⟩)
  obtain ⟨vs, x, _, hf, ht⟩ := hver _ hm (by simp)
  simp only [Option.some.injEq] at hf
  subst hf
  exact ht

/-- C26_real_coordinate: the constrained side sits at the grid edge nearest to the given coordinate. -/
theorem C26_real_coordinate {sys : Sys α} {n : Nat} {r : St} (h : solve sys n = .done r [])
    {o : Nat} {es : List (Nat × Bool × α)} (hc : Con.realc o es ∈ sys.cons)
    {ax : Nat} {hi : Bool} {c : α} (he : (ax, hi, c) ∈ es) :
    r ⟨o, ax, sideKind hi⟩ = some (coordToIndex sys.grid ax c) := by
  obtain ⟨_, hver, _, _⟩ := C26_sound sys n r h
  have hm : (⟨[], false, ⟨o, ax, sideKind hi⟩, fun _ => some (coordToIndex sys.grid ax c)⟩ : Atom) ∈
      allAtoms (groups sys) :=
    conAtom_mem hc (by
      simp only [Con.atoms, List.mem_map]
      exact ⟨(ax, hi, c), he, rfl⟩)
  obtain ⟨vs, x, _, hf, ht⟩ := hver _ hm (by simp)
  simp only [Option.some.injEq] at hf
  subst hf
  exact ht

/-- C26_position: on the FINAL slices, the object's lower bound is what `bounds_for_anchor` snaps the other
object's anchor (+ margins) to, for the object's final size; the upper bound is lower + size. -/
theorem C26_position {sys : Sys α} {n : Nat} {r : St} (h : solve sys n = .done r [])
    {o t : Nat} {es : List (PosE α)} (hc : Con.pos o t es ∈ sys.cons) {e : PosE α} (he : e ∈ es) (hax : e.ax < 3) :
    ∃ ob0 ob1 lo hi, r ⟨t, e.ax, .lo⟩ = some ob0 ∧ r ⟨t, e.ax, .hi⟩ = some ob1 ∧
      r ⟨o, e.ax, .lo⟩ = some lo ∧ r ⟨o, e.ax, .hi⟩ = some hi ∧
      posLower sys.grid e [ob0, ob1, hi - lo] = some lo := by
  obtain ⟨hwf, _⟩ := solve_done h
  obtain ⟨_, hver, hk, _⟩ := C26_sound sys n r h
  have hoo : isObj sys o = true := (wellFormed_con hwf hc).1
  have hto : isObj sys t = true := (wellFormed_con hwf hc).2 t rfl
  let prem : List Var := [⟨t, e.ax, .lo⟩, ⟨t, e.ax, .hi⟩, ⟨o, e.ax, .size⟩]
  have hm : (⟨prem, false, ⟨o, e.ax, .lo⟩, posLower sys.grid e⟩ : Atom) ∈ allAtoms (groups sys) :=
    conAtom_mem hc (by
      simp only [Con.atoms, List.mem_flatMap]
      exact ⟨e, he, by simp [prem]⟩)
  obtain ⟨vs, x, hp, hf, ht⟩ := hver _ hm (by
    intro v hv
    simp only [prem, List.mem_cons, List.not_mem_nil, or_false] at hv
    rcases hv with rfl | rfl | rfl <;> exact ⟨by assumption, hax⟩)
  obtain ⟨oo, hoo', hoid⟩ := isObj_iff.1 hoo
  obtain ⟨lo, hi, h1, h2, h3⟩ := hk oo hoo' e.ax hax
  rw [hoid] at h1 h2 h3
  obtain ⟨tobj, hto', htid⟩ := isObj_iff.1 hto
  obtain ⟨tlo, thi, g1, g2, _⟩ := hk tobj hto' e.ax hax
  rw [htid] at g1 g2
  simp only [prem, premVals, g1, g2, h3] at hp
  cases hp
  simp only at ht
  rw [h1] at ht
  have hx : lo = x := Option.some.inj ht
  subst hx
  exact ⟨tlo, thi, lo, hi, g1, g2, h1, h2, hf⟩

/-- C26_size: on the FINAL slices, the object's size is `_real_length_to_grid_size` of the other object's
final extent × proportion + offsets. -/
theorem C26_size {sys : Sys α} {n : Nat} {r : St} (h : solve sys n = .done r [])
    {o t : Nat} {es : List (SizeE α)} (hc : Con.size o t es ∈ sys.cons) {e : SizeE α} (he : e ∈ es)
    (hax : e.ax < 3) (hoax : e.oax < 3) :
    ∃ ob0 ob1 lo hi, r ⟨t, e.oax, .lo⟩ = some ob0 ∧ r ⟨t, e.oax, .hi⟩ = some ob1 ∧
      r ⟨o, e.ax, .lo⟩ = some lo ∧ r ⟨o, e.ax, .hi⟩ = some hi ∧
      realLengthToGridSize sys.grid e.ax
        (gridAdd sys.grid (optAdd (axisExtent sys.grid e.oax ob0 ob1 * e.prop) e.off) e.goff) = some (hi - lo) := by
  obtain ⟨hwf, _⟩ := solve_done h
  obtain ⟨_, hver, hk, _⟩ := C26_sound sys n r h
  have hoo : isObj sys o = true := (wellFormed_con hwf hc).1
  have hto : isObj sys t = true := (wellFormed_con hwf hc).2 t rfl
  let prem : List Var := [⟨t, e.oax, .size⟩, ⟨t, e.oax, .lo⟩, ⟨t, e.oax, .hi⟩]
  have hm : (⟨prem, false, ⟨o, e.ax, .size⟩, sizeF sys.grid e⟩ : Atom) ∈ allAtoms (groups sys) :=
    conAtom_mem hc (by
      simp only [Con.atoms, List.mem_flatMap]
      exact ⟨e, he, by simp [prem]⟩)
  obtain ⟨vs, x, hp, hf, ht⟩ := hver _ hm (by
    intro v hv
    simp only [prem, List.mem_cons, List.not_mem_nil, or_false] at hv
    rcases hv with rfl | rfl | rfl <;> exact ⟨by assumption, hoax⟩)
  obtain ⟨oo, hoo', hoid⟩ := isObj_iff.1 hoo
  obtain ⟨lo, hi, h1, h2, h3⟩ := hk oo hoo' e.ax hax
  rw [hoid] at h1 h2 h3
  obtain ⟨tobj, hto', htid⟩ := isObj_iff.1 hto
  obtain ⟨tlo, thi, g1, g2, g3⟩ := hk tobj hto' e.oax hoax
  rw [htid] at g1 g2 g3
  simp only [prem, premVals, g1, g2, g3] at hp
  cases hp
  simp only at ht
  rw [h3] at ht
  have hx : hi - lo = x := Option.some.inj ht
  subst hx
  exact ⟨tlo, thi, lo, hi, g1, g2, h1, h2, hf⟩

/-- C26_extension: the extended side sits at the grid edge nearest to the other object's FINAL anchor
(+ offsets), or exactly at the volume's bound when no object is given. -/
theorem C26_extension {sys : Sys α} {n : Nat} {r : St} (h : solve sys n = .done r [])
    {o : Nat} {t : Option Nat} {ax : Nat} {hi : Bool} {opos : α} {off : Option α} {goff : Option Int}
    (hc : Con.ext o t ax hi opos off goff ∈ sys.cons) (hax : ax < 3) :
    match t with
    | some t => ∃ ob0 ob1, r ⟨t, ax, .lo⟩ = some ob0 ∧ r ⟨t, ax, .hi⟩ = some ob1 ∧
        ∃ b, extF sys.grid ax opos off goff [ob0, ob1] = some b ∧ r ⟨o, ax, sideKind hi⟩ = some b
    | none => ∃ b, r ⟨volId sys, ax, sideKind hi⟩ = some b ∧ r ⟨o, ax, sideKind hi⟩ = some b := by
  obtain ⟨hwf, _⟩ := solve_done h
  obtain ⟨_, hver, hk, _⟩ := C26_sound sys n r h
  cases t with
  | some t =>
    have hto : isObj sys t = true := (wellFormed_con hwf hc).2 t rfl
    have hm : (⟨[⟨t, ax, .lo⟩, ⟨t, ax, .hi⟩], false, ⟨o, ax, sideKind hi⟩, extF sys.grid ax opos off goff⟩ : Atom) ∈
        allAtoms (groups sys) := conAtom_mem hc (by simp [Con.atoms])
    obtain ⟨vs, x, hp, hf, ht⟩ := hver _ hm (by
      intro v hv
      simp only [List.mem_cons, List.not_mem_nil, or_false] at hv
      rcases hv with rfl | rfl <;> exact ⟨hto, hax⟩)
    obtain ⟨tobj, hto', htid⟩ := isObj_iff.1 hto
    obtain ⟨tlo, thi, g1, g2, _⟩ := hk tobj hto' ax hax
    rw [htid] at g1 g2
    simp only [premVals, g1, g2] at hp
    cases hp
    exact ⟨tlo, thi, g1, g2, x, hf, ht⟩
  | none =>
    have hvol : isObj sys (volId sys) = true := by
      have h1 := wellFormed_oneVol hwf
      unfold OneVol at h1
      obtain ⟨v, hv⟩ := List.length_eq_one_iff.1 h1
      have hmem : v ∈ sys.objs.filter (·.isVol) := by rw [hv]; simp
      have hfind : sys.objs.find? (·.isVol) = some v := by
        rw [← List.head?_filter, hv]; rfl
      unfold volId
      rw [hfind]
      exact isObj_iff.2 ⟨v, (List.mem_filter.1 hmem).1, rfl⟩
    have hm : (⟨[⟨volId sys, ax, sideKind hi⟩], false, ⟨o, ax, sideKind hi⟩, idF⟩ : Atom) ∈
        allAtoms (groups sys) := conAtom_mem hc (by simp [Con.atoms])
    obtain ⟨vs, x, hp, hf, ht⟩ := hver _ hm (by
      intro v hv
      simp only [List.mem_cons, List.not_mem_nil, or_false] at hv
      subst hv
      exact ⟨hvol, hax⟩)
    cases hb : r ⟨volId sys, ax, sideKind hi⟩ with
    | none => simp [premVals, hb] at hp
    | some b =>
      simp only [premVals, hb] at hp
      cases hp
      simp only [idF, Option.some.injEq] at hf
      subst hf
      exact ⟨b, rfl, ht⟩

theorem find?_id_mem {o : Obj α} : ∀ (l : List (Obj α)), (l.map (·.id)).Nodup → o ∈ l →
    l.find? (·.id == o.id) = some o
  | [], _, ho => by cases ho
  | x :: xs, hn, ho => by
    simp only [List.map_cons, List.nodup_cons] at hn
    rcases List.mem_cons.1 ho with e | e
    · subst e; simp
    · have hx : x.id ≠ o.id := fun hx => hn.1 (by rw [hx]; exact List.mem_map.2 ⟨o, e, rfl⟩)
      have : (x.id == o.id) = false := by simpa using hx
      simp [List.find?_cons, this, find?_id_mem xs hn.2 e]

/-- C26_static_shape: a declared `partial_grid_shape` / `partial_real_shape` is the final size. -/
theorem C26_static_shape {sys : Sys α} {n : Nat} {r : St} (h : solve sys n = .done r [])
    {o : Obj α} (ho : o ∈ sys.objs) {ax : Nat} (hax : ax < 3) {s : Int}
    (hs : o.staticSize sys.grid ax = some (some s)) : r ⟨o.id, ax, .size⟩ = some s := by
  obtain ⟨hwf, σ₀, hinit, hloop, _⟩ := solve_done h
  apply loop_mono sys (groups sys) n σ₀ [] r [] hloop
  unfold init at hinit
  split at hinit
  · cases hinit
  · simp only [Option.some.injEq] at hinit
    subst hinit
    have hf : findObj sys o.id = some o := find?_id_mem sys.objs (wellFormed_nodup hwf) ho
    simp only [hax, if_true, hf, Obj.initVal, hs, Option.getD_some]

/-- C26_static_position: a declared `partial_real_position` holds for the final size: the lower bound is what
`bounds_for_center` snaps it to. -/
theorem C26_static_position {sys : Sys α} {n : Nat} {r : St} (h : solve sys n = .done r [])
    {o : Obj α} (ho : o ∈ sys.objs) {ax : Nat} (hax : ax < 3) {p : α} (hp : o.rpos.getD ax none = some p) :
    ∃ lo hi, r ⟨o.id, ax, .lo⟩ = some lo ∧ r ⟨o.id, ax, .hi⟩ = some hi ∧
      centerToBounds sys.grid ax p (hi - lo) = some lo := by
  obtain ⟨_, hver, hk, _⟩ := C26_sound sys n r h
  obtain ⟨lo, hi, h1, h2, h3⟩ := hk o ho ax hax
  have hm : (⟨[⟨o.id, ax, .size⟩], false, ⟨o.id, ax, .lo⟩, lowerF sys.grid ax p⟩ : Atom) ∈ allAtoms (groups sys) := by
    refine mem_allAtoms.2 ⟨⟨o.id, false, [⟨[⟨o.id, ax, .size⟩], false, ⟨o.id, ax, .lo⟩, lowerF sys.grid ax p⟩]⟩, ?_, by simp⟩
    refine mem_groups.2 (Or.inl ⟨o, ho, ?_⟩)
    simp only [Obj.posGroups, List.mem_flatMap]
    rw [List.getD_eq_getElem?_getD] at hp
    exact ⟨ax, mem_axes3.2 hax, by simp [hp]⟩
  obtain ⟨vs, x, hpv, hf, ht⟩ := hver _ hm (by
    intro v hv
    simp only [List.mem_cons, List.not_mem_nil, or_false] at hv
    subst hv
    exact ⟨isObj_iff.2 ⟨o, ho, rfl⟩, hax⟩)
  simp only [premVals, h3] at hpv
  cases hpv
  simp only at ht
  rw [h1] at ht
  have hx : lo = x := Option.some.inj ht
  subst hx
  exact ⟨lo, hi, h1, h2, hf⟩

theorem volId_of_isVol {sys : Sys α} (h1 : OneVol sys) {o : Obj α} (ho : o ∈ sys.objs) (hv : o.isVol = true) :
    volId sys = o.id := by
  unfold OneVol at h1
  obtain ⟨v, hv'⟩ := List.length_eq_one_iff.1 h1
  have hmem : o ∈ sys.objs.filter (·.isVol) := List.mem_filter.2 ⟨ho, hv⟩
  rw [hv'] at hmem
  simp at hmem
  subst hmem
  unfold volId
  rw [← List.head?_filter, hv']
  rfl

theorem exists_vol {sys : Sys α} (h1 : OneVol sys) : ∃ v ∈ sys.objs, v.isVol = true ∧ volId sys = v.id := by
  have h1' := h1
  unfold OneVol at h1
  obtain ⟨v, hv'⟩ := List.length_eq_one_iff.1 h1
  have hmem : v ∈ sys.objs.filter (·.isVol) := by rw [hv']; simp
  obtain ⟨hm, hiv⟩ := List.mem_filter.1 hmem
  exact ⟨v, hm, hiv, volId_of_isVol h1' hm hiv⟩

theorem init_apply {sys : Sys α} {σ₀ : St} (hi : init sys = some σ₀) (hn : (sys.objs.map (·.id)).Nodup)
    {o : Obj α} (ho : o ∈ sys.objs) {ax : Nat} (hax : ax < 3) (k : Kind) :
    σ₀ ⟨o.id, ax, k⟩ = o.initVal sys.grid ax k := by
  unfold init at hi
  split at hi
  · cases hi
  · simp only [Option.some.injEq] at hi
    subst hi
    have hf : findObj sys o.id = some o := find?_id_mem sys.objs hn ho
    simp only [hax, if_true, hf]

/-- **C26_unconstrained** — an axis of a (non-volume) object about which nothing is said — no static shape or
position, no constraint — ends up as `lo = 0`, `hi = size of the volume`; if the volume itself has no
`partial_real_position` on that axis this is exactly the volume's slice: the object spans the whole volume. -/
theorem C26_unconstrained {sys : Sys α} {n : Nat} {r : St} (h : solve sys n = .done r [])
    (hvol : volSizedInit sys = true) {o : Obj α} (ho : o ∈ sys.objs) (hne : o.id ≠ volId sys)
    {ax : Nat} (hax : ax < 3) (hfree : Unconstrained sys o.id ax) :
    (∃ vs, r ⟨volId sys, ax, .size⟩ = some vs ∧ r ⟨o.id, ax, .lo⟩ = some 0 ∧ r ⟨o.id, ax, .hi⟩ = some vs) ∧
    ((∀ v ∈ sys.objs, v.isVol = true → v.rpos.getD ax none = none) →
      r ⟨o.id, ax, .lo⟩ = r ⟨volId sys, ax, .lo⟩ ∧ r ⟨o.id, ax, .hi⟩ = r ⟨volId sys, ax, .hi⟩) := by
  obtain ⟨hwf, σ₀, hinit, hloop, _⟩ := solve_done h
  obtain ⟨_, _, hk, _⟩ := C26_sound sys n r h
  have hnd := wellFormed_nodup hwf
  have h1v := wellFormed_oneVol hwf
  obtain ⟨vs, hvs⟩ := volSizedInit_spec hvol hinit ax hax
  have hnv : o.isVol = false := by
    cases hv : o.isVol with
    | false => rfl
    | true => exact absurd (volId_of_isVol h1v ho hv).symm hne
  obtain ⟨hg, hr, hp⟩ := hfree.1 o ho rfl
  have hss : o.staticSize sys.grid ax = some none := by simp only [Obj.staticSize, hg, hr]
  have hsl : o.staticLower sys.grid ax = some none := by simp only [Obj.staticLower, hp]
  have hP0 : FreeInv sys o.id ax vs σ₀ := by
    refine ⟨hvs, Or.inl ⟨?_, ?_, ?_⟩⟩
    · rw [init_apply hinit hnd ho hax]; simp [Obj.initVal, hsl, hnv]
    · rw [init_apply hinit hnd ho hax]; simp [Obj.initVal, hsl]
    · rw [init_apply hinit hnd ho hax]; simp [Obj.initVal, hss]
  have hPr : FreeInv sys o.id ax vs r :=
    loop_inv (FreeInv sys o.id ax vs) sys (groups sys) (fun a ha ρ x => freeInv_step hfree a ha ρ x)
      (fun ρ => freeInv_ext hfree (isObj_iff.2 ⟨o, ho, rfl⟩) hax ρ) n σ₀ [] r [] hP0 hloop
  obtain ⟨lo, hi, h1, h2, _⟩ := hk o ho ax hax
  obtain ⟨hvr, hst⟩ := hPr
  have hfin : r ⟨o.id, ax, .lo⟩ = some 0 ∧ r ⟨o.id, ax, .hi⟩ = some vs := by
    rcases hst with ⟨g1, _, _⟩ | ⟨g1, g2, _⟩
    · rw [g1] at h1; cases h1
    · exact ⟨g1, g2⟩
  refine ⟨⟨vs, hvr, hfin.1, hfin.2⟩, fun hvp => ?_⟩
  obtain ⟨v, hvm, hiv, hvid⟩ := exists_vol h1v
  obtain ⟨vlo, vhi, q1, q2, q3⟩ := hk v hvm ax hax
  rw [← hvid] at q1 q2 q3
  have hv0 : σ₀ ⟨volId sys, ax, .lo⟩ = some 0 := by
    rw [hvid, init_apply hinit hnd hvm hax]
    have : v.staticLower sys.grid ax = some none := by simp only [Obj.staticLower, hvp v hvm hiv]
    simp [Obj.initVal, this, hiv]
  have hr0 := loop_mono sys (groups sys) n σ₀ [] r [] hloop _ _ hv0
  rw [q1] at hr0
  rw [q3] at hvr
  have e1 : vlo = 0 := Option.some.inj hr0
  have e2 : vhi - vlo = vs := Option.some.inj hvr
  rw [hfin.1, hfin.2, q1, q2, e1]
  refine ⟨rfl, ?_⟩
  congr 1
  omega

/-- C26_nearest: the snapping function behind `coord_to_index`, `bounds_for_anchor`, `bounds_for_center` picks
the FIRST index whose element is nearest to the wanted coordinate (any ordered field). -/
theorem C26_nearest {K : Type} [Field K] [LinearOrder K] [IsStrictOrderedRing K] (xs : List K) (c : K) (hne : xs ≠ []) :
    argminAbs xs c < xs.length ∧
    (∀ j, j < xs.length → |xs.getD (argminAbs xs c) 0 - c| ≤ |xs.getD j 0 - c|) ∧
    (∀ j, j < argminAbs xs c → |xs.getD (argminAbs xs c) 0 - c| < |xs.getD j 0 - c|) :=
  argminAbs_nearest xs c hne

/-! ### non-vacuity: the hypotheses are satisfiable by concrete non-trivial systems -/
section Examples
open W

/-- a placement that succeeds (three objects, a position constraint that holds, twelve grid coordinates) -/
example : ∃ r, solve (sysW [posAB, full 2 1, full 1 3]) 10 = .done r [] ∧ r ⟨1, 0, .lo⟩ = some 3 :=
  let ⟨r, h, hp⟩ := okAnd_exists (p := fun σ => σ ⟨1, 0, .lo⟩ == some 3)
    (show okAnd (solve (sysW [posAB, full 2 1, full 1 3]) 10) _ = true by decide +kernel)
  ⟨r, h, by simpa using hp⟩

/-- … with a static real position, a size constraint and an extension constraint (A at (1,3) as its position says) -/
example : okAnd (solve (sysR [full 3 5, full 2 0, sizeAB, extAC,
    .gridc 1 [(1, false, 0), (1, true, 2), (2, false, 0), (2, true, 2)]]) 10)
    (fun σ => σ ⟨1, 0, .lo⟩ == some 1 && σ ⟨1, 0, .hi⟩ == some 5) = false := by decide +kernel
example : okAnd (solve (sysR [full 3 3, full 2 0, sizeAB, extAC,
    .gridc 1 [(1, false, 0), (1, true, 2), (2, false, 0), (2, true, 2)]]) 10)
    (fun σ => σ ⟨1, 0, .lo⟩ == some 1 && σ ⟨1, 0, .hi⟩ == some 3 && σ ⟨1, 0, .size⟩ == some 2) = true := by decide +kernel

/-- an under-constrained system: B's x axis is free and is extended over the whole volume -/
example : okAnd (solve ⟨gInt, [vol8, cube 1, box 2 false [none, some 2, some 2]],
      [.gridc 2 [(1, false, 0), (2, false, 3)], full 1 3]⟩ 10)
    (fun σ => σ ⟨2, 0, .lo⟩ == some 0 && σ ⟨2, 0, .hi⟩ == some 8 && σ ⟨2, 2, .hi⟩ == some 5) = true := by decide +kernel

/-- … and the hypotheses of `C26_unconstrained` hold for that axis -/
example : Unconstrained (⟨gInt, [vol8, cube 1, box 2 false [none, some 2, some 2]],
      [.gridc 2 [(1, false, 0), (2, false, 3)], full 1 3]⟩ : Sys Int) 2 0 ∧
    volSizedInit (⟨gInt, [vol8, cube 1, box 2 false [none, some 2, some 2]],
      [.gridc 2 [(1, false, 0), (2, false, 3)], full 1 3]⟩ : Sys Int) = true := by
  refine ⟨⟨?_, ?_⟩, ?_⟩ <;> decide +kernel

/-- the error branches: a conflict, an object outside the volume, running out of `max_iter` -/
example : okAnd (solve (sysW [posAB, full 2 1, full 1 5]) 10) (fun _ => true) = false := by decide +kernel
example : okAnd (solve (sysW [full 2 7, full 1 3]) 10) (fun _ => true) = false := by decide +kernel
example : okAnd (solve (sysW [posAB, full 2 1, full 1 3]) 1) (fun _ => true) = false := by decide +kernel

end Examples

/-! ### the pinned tree violated the property (refutation witnesses, replayed on the real code by the harness) -/
section AsFoundWitnesses
open W

/-- defect 1 (early "everything resolved" exit): `[A rel B, grid B, grid A]` is ACCEPTED with A at x = 5 … 7
although the position constraint puts A's lower side on B's upper side (x = 3). -/
example : okAnd (AsFound.solve (sysW [posAB, full 2 1, full 1 5]) 1000)
    (fun σ => σ ⟨1, 0, .lo⟩ == some 5 && σ ⟨2, 0, .hi⟩ == some 3) = true := by decide +kernel

/-- defect 2 (`partial_real_position` skipped when both bounds are known): accepted with A at 3 … 5 although
its position means 1 … 3. -/
example : okAnd (AsFound.solve (sysR [full 3 5, full 2 0, sizeAB, gridA, extAC]) 1000)
    (fun σ => σ ⟨1, 0, .lo⟩ == some 3 && σ ⟨1, 0, .hi⟩ == some 5) = true := by decide +kernel
example : centerToBounds gInt 0 (-2) 2 = some 1 := by decide +kernel

/-- after the fixes both inputs are rejected -/
example : okAnd (solve (sysW [posAB, full 2 1, full 1 5]) 1000) (fun _ => true) = false := by decide +kernel
example : okAnd (solve (sysR [full 3 5, full 2 0, sizeAB, gridA, extAC]) 1000) (fun _ => true) = false := by
  decide +kernel

end AsFoundWitnesses

end Fdtdx.C26
