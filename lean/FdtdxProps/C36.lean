/-
C36 — Dispersive cells follow their recurrence; accepted passive media stay bounded.

Property theorems about `FdtdxModel/C36.lean`:

  C36_zero_coeff_step     a cell whose pole slots are all zero (coefficients and polarisation) takes exactly the
                          non-dispersive step, in both the explicit and the implicit (c4) branch, and stays zero
  C36_zero_coeff_run      … hence over any number of steps and any curl history (induction)
  C36_recurrence          the stored polarisation after a step is c1 P + c2 P_prev + c3 E (+ c4 E'), P_prev' = P
  C36_polarisation_history over a whole run from rest every slot holds pTraj of the cell's own field history,
                          and pTraj satisfies P_{n+2} = c1 P_{n+1} + c2 P_n + c3 E_{n+1} + c4 E_{n+2}  (C36_pTraj_recurrence)
  C36_ampere              (1 + l)·E' = x - inv_eps·Σ (P' - P): the step is the non-dispersive step plus the
                          polarisation current
  second clause (boundedness of accepted media) — necessity side only:
  C36_charPoly_neg_one    value of the characteristic polynomial of the grid-Nyquist mode at z = -1
  C36_nyquist_sign        for one coupling pole: measure > 1  ↔  charPoly(-1) < 0   (ordered field; the quartic is
                          monic, so a negative value at -1 forces a real root z < -1)
  C36_root_beyond_minus_one   over ℝ: charPoly(-1) < 0 → ∃ z < -1, charPoly z = 0
  C36_nyquist_witness     concrete instance (Drude, ω_p dt = 3/2, γ = 0, courant_factor 3/4, vacuum background):
                          the Nyquist amplitudes are multiplied by -2 in every step, for all n
  C36_as_found_accepts_witness / C36_fixed_warns_witness
                          the tree as found accepts that medium silently; the repaired validation warns
  NOT proved (partial): sufficiency — that every medium with measure ≤ 1 - margin keeps the field energy within 10x.
-/
import FdtdxModel.C36
import FdtdxModel.C35
import Mathlib.Tactic.Ring
import Mathlib.Tactic.FieldSimp
import Mathlib.Tactic.Linarith
import Mathlib.Tactic.NormNum
import Mathlib.Tactic.Positivity
import Mathlib.Tactic.LinearCombination
import Mathlib.Algebra.Order.Field.Basic
import Mathlib.Topology.Algebra.Polynomial
import Mathlib.Topology.Order.IntermediateValue
import Mathlib.Topology.Instances.Real.Lemmas

namespace Fdtdx.C36

section field
variable {K : Type} [Field K]

/-- a zero-padded / non-dispersive slot at rest -/
def ZeroSlot (q : PoleCell K) : Prop := q.c1 = 0 ∧ q.c2 = 0 ∧ q.c3 = 0 ∧ q.c4 = 0 ∧ q.p = 0

theorem sumBy_zero (f : PoleCell K → K) (ps : List (PoleCell K)) (h : ∀ q ∈ ps, f q = 0) : sumBy f ps = 0 := by
  induction ps with
  | nil => rfl
  | cons q r ih =>
    simp only [sumBy]
    rw [h q (by simp), ih (fun q' hq' => h q' (by simp [hq'])), add_zero]

theorem sumBy_add (f g : PoleCell K → K) (ps : List (PoleCell K)) :
    sumBy (fun q => f q + g q) ps = sumBy f ps + sumBy g ps := by
  induction ps with
  | nil => simp [sumBy]
  | cons q r ih => simp only [sumBy, ih]; ring

theorem sumBy_sub (f g : PoleCell K → K) (ps : List (PoleCell K)) :
    sumBy (fun q => f q - g q) ps = sumBy f ps - sumBy g ps := by
  induction ps with
  | nil => simp [sumBy]
  | cons q r ih => simp only [sumBy, ih]; ring

theorem sumBy_mul_right (f : PoleCell K → K) (a : K) (ps : List (PoleCell K)) :
    sumBy (fun q => f q * a) ps = sumBy f ps * a := by
  induction ps with
  | nil => simp [sumBy]
  | cons q r ih => simp only [sumBy, ih]; ring

theorem sumBy_congr (f g : PoleCell K → K) (ps : List (PoleCell K)) (h : ∀ q ∈ ps, f q = g q) :
    sumBy f ps = sumBy g ps := by
  induction ps with
  | nil => rfl
  | cons q r ih =>
    simp only [sumBy]
    rw [h q (by simp), ih (fun q' hq' => h q' (by simp [hq']))]

theorem cellE_zero (invEps l x e : K) (hasC4 : Bool) (ps : List (PoleCell K)) (hz : ∀ q ∈ ps, ZeroSlot q) :
    cellE invEps l x e hasC4 ps = ndStep l x := by
  have h1 : sumBy (fun q => q.p - pHat e q) ps = 0 := by
    apply sumBy_zero
    intro q hq
    obtain ⟨a, b, c, _, d⟩ := hz q hq
    simp [pHat, a, b, c, d]
  have h2 : sumBy (fun q => q.c4) ps = 0 := sumBy_zero _ _ (fun q hq => (hz q hq).2.2.2.1)
  unfold cellE ndStep
  cases hasC4 <;> simp [h1, h2]

/-- C36 (first clause): a cell with all-zero pole coefficients (at rest) evolves exactly like the same cell without
dispersion, whichever branch (explicit / implicit c4 divide) the simulation uses; the slots stay at rest. -/
theorem C36_zero_coeff_step (invEps l x e : K) (hasC4 : Bool) (ps : List (PoleCell K)) (hz : ∀ q ∈ ps, ZeroSlot q) :
    (cellStep invEps l x e hasC4 ps).1 = ndStep l x ∧
    (∀ q ∈ (cellStep invEps l x e hasC4 ps).2, ZeroSlot q ∧ q.pp = 0) := by
  refine ⟨cellE_zero invEps l x e hasC4 ps hz, ?_⟩
  intro q hq
  simp only [cellStep, List.mem_map] at hq
  obtain ⟨q0, hq0, rfl⟩ := hq
  obtain ⟨a, b, c, d, p0⟩ := hz q0 hq0
  cases hasC4 <;> simp [ZeroSlot, pHat, a, b, c, d, p0]

/-- … and therefore over any number of steps, for any history of the curl term. -/
theorem C36_zero_coeff_run (invEps l factor : K) (hasC4 : Bool) (drive : Nat → K) (e0 : K) (ps : List (PoleCell K))
    (hz : ∀ q ∈ ps, ZeroSlot q) (n : Nat) :
    (cellRun invEps l factor hasC4 drive n (e0, ps)).1 = ndRun l factor drive n e0 ∧
    (∀ q ∈ (cellRun invEps l factor hasC4 drive n (e0, ps)).2, ZeroSlot q) := by
  induction n with
  | zero => exact ⟨rfl, hz⟩
  | succ n ih =>
    obtain ⟨ihE, ihZ⟩ := ih
    have h := C36_zero_coeff_step invEps l
      (factor * (cellRun invEps l factor hasC4 drive n (e0, ps)).1 + drive n)
      (cellRun invEps l factor hasC4 drive n (e0, ps)).1 hasC4 _ ihZ
    refine ⟨?_, fun q hq => (h.2 q hq).1⟩
    simp only [cellRun, ndRun]
    rw [h.1, ihE]

/-- C36 (recurrence): after a step every slot stores `c1 P + c2 P_prev + c3 E (+ c4 E')` and `P_prev' = P`;
the coefficients are untouched. -/
theorem C36_recurrence (invEps l x e : K) (hasC4 : Bool) (ps : List (PoleCell K)) :
    (cellStep invEps l x e hasC4 ps).2 =
      ps.map (fun q => { q with
        p := q.c1 * q.p + q.c2 * q.pp + q.c3 * e + (if hasC4 then q.c4 * (cellStep invEps l x e hasC4 ps).1 else 0),
        pp := q.p }) := by
  cases hasC4 <;> simp [cellStep, pHat]

theorem C36_pTraj_recurrence (c1 c2 c3 c4 : K) (E : Nat → K) (n : Nat) :
    (pTraj c1 c2 c3 c4 E (n + 2)).1 =
      c1 * (pTraj c1 c2 c3 c4 E (n + 1)).1 + c2 * (pTraj c1 c2 c3 c4 E n).1 + c3 * E (n + 1) + c4 * E (n + 2) := by
  simp [pTraj]

/-- C36 (recurrence over a run): started at rest, every slot of a running cell holds the solution `pTraj` of the
documented recurrence driven by the cell's own field history. -/
theorem C36_polarisation_history (invEps l factor : K) (hasC4 : Bool) (drive : Nat → K) (e0 : K)
    (ps : List (PoleCell K)) (hrest : ∀ q ∈ ps, q.p = 0 ∧ q.pp = 0) (n : Nat) :
    (cellRun invEps l factor hasC4 drive n (e0, ps)).2 =
      ps.map (fun q => { q with
        p := (pTraj q.c1 q.c2 q.c3 (if hasC4 then q.c4 else 0)
                (fun k => (cellRun invEps l factor hasC4 drive k (e0, ps)).1) n).1,
        pp := (pTraj q.c1 q.c2 q.c3 (if hasC4 then q.c4 else 0)
                (fun k => (cellRun invEps l factor hasC4 drive k (e0, ps)).1) n).2 }) := by
  induction n with
  | zero =>
    simp only [cellRun, pTraj]
    conv_lhs => rw [← List.map_id ps]
    apply List.map_congr_left
    intro q hq
    obtain ⟨a, b⟩ := hrest q hq
    cases q; simp_all
  | succ n ih =>
    have hE : (cellRun invEps l factor hasC4 drive (n + 1) (e0, ps)).1 =
        (cellStep invEps l (factor * (cellRun invEps l factor hasC4 drive n (e0, ps)).1 + drive n)
          (cellRun invEps l factor hasC4 drive n (e0, ps)).1 hasC4
          (cellRun invEps l factor hasC4 drive n (e0, ps)).2).1 := rfl
    have hS : (cellRun invEps l factor hasC4 drive (n + 1) (e0, ps)).2 =
        (cellStep invEps l (factor * (cellRun invEps l factor hasC4 drive n (e0, ps)).1 + drive n)
          (cellRun invEps l factor hasC4 drive n (e0, ps)).1 hasC4
          (cellRun invEps l factor hasC4 drive n (e0, ps)).2).2 := rfl
    rw [hS, C36_recurrence, ← hE]
    rw [ih, List.map_map]
    apply List.map_congr_left
    intro q _
    cases hasC4 <;> simp [pTraj]

/-- C36 (Ampère form of the step): the dispersive update is the non-dispersive update plus the polarisation
current, `(1 + l)·E' = x - inv_eps · Σ_p (P_p' - P_p)`. -/
theorem C36_ampere (invEps l x e : K) (hasC4 : Bool) (ps : List (PoleCell K))
    (hdiv : (if hasC4 then 1 + invEps * sumBy (fun q => q.c4) ps + l else 1 + l) ≠ 0) :
    (1 + l) * (cellStep invEps l x e hasC4 ps).1 =
      x - invEps * sumBy (fun q => (pHat e q + (if hasC4 then q.c4 * (cellStep invEps l x e hasC4 ps).1 else 0)) - q.p) ps := by
  cases hasC4
  · simp only [Bool.false_eq_true, if_false] at hdiv ⊢
    simp only [cellStep, cellE, Bool.false_eq_true, if_false, add_zero]
    rw [sumBy_sub, sumBy_sub]
    field_simp
    ring
  · simp only [if_true] at hdiv ⊢
    have hE : (cellStep invEps l x e true ps).1 * (1 + invEps * sumBy (fun q => q.c4) ps + l)
        = x + invEps * sumBy (fun q => q.p - pHat e q) ps := by
      simp only [cellStep, cellE, if_true]
      rw [div_mul_cancel₀ _ hdiv]
    rw [sumBy_sub, sumBy_add, sumBy_mul_right]
    rw [sumBy_sub] at hE
    linear_combination hE

end field

/-! ### the grid-Nyquist mode: necessity of the coupled bound -/
section nyquist
variable {F : Type} [Field F] [LinearOrder F] [IsStrictOrderedRing F]

theorem C36_charPoly_neg_one (nu2 invEps c1 c2 c3 : F) :
    charPoly nu2 invEps c1 c2 c3 (-1) = 4 * ((1 + c1 - c2) * (1 - nu2) - c3 * invEps) := by
  unfold charPoly; ring

/-- for a medium with one coupling Lorentz/Drude pole: the stability measure exceeds 1 exactly when the (monic)
characteristic polynomial of the Nyquist mode is negative at `z = -1`. -/
theorem C36_nyquist_sign [DecidableEq F] (cf eps mu c1 c2 c3 p pp : F) (heps : 0 < eps) (hq : 0 < 1 + c1 - c2)
    (hc3 : c3 ≠ 0) :
    1 < measure cf eps mu [⟨c1, c2, c3, 0, p, pp⟩] ↔
      charPoly (cf * cf * (1 / mu) * (1 / eps)) (1 / eps) c1 c2 c3 (-1) < 0 := by
  rw [C36_charPoly_neg_one]
  have hb : ((c3 : F) == 0) = false := by simpa using hc3
  simp only [measure, sumBy, sub_zero, hb, add_zero, Bool.false_eq_true, if_false]
  rw [lt_div_iff₀ heps]
  constructor
  · intro h
    have h1 : eps - cf * cf * (1 / mu) < c3 / (1 + c1 - c2) := by linarith
    rw [lt_div_iff₀ hq] at h1
    have : (1 + c1 - c2) * (1 - cf * cf * (1 / mu) * (1 / eps)) - c3 * (1 / eps)
        = ((eps - cf * cf * (1 / mu)) * (1 + c1 - c2) - c3) / eps := by
      field_simp
    rw [this]
    have : ((eps - cf * cf * (1 / mu)) * (1 + c1 - c2) - c3) / eps < 0 :=
      div_neg_of_neg_of_pos (by linarith) heps
    linarith
  · intro h
    have e : (1 + c1 - c2) * (1 - cf * cf * (1 / mu) * (1 / eps)) - c3 * (1 / eps)
        = ((eps - cf * cf * (1 / mu)) * (1 + c1 - c2) - c3) / eps := by
      field_simp
    rw [e] at h
    have h2 : ((eps - cf * cf * (1 / mu)) * (1 + c1 - c2) - c3) / eps < 0 := by linarith
    have h3 : (eps - cf * cf * (1 / mu)) * (1 + c1 - c2) - c3 < 0 := by
      by_contra hc
      have := div_nonneg (not_lt.mp hc) heps.le
      linarith
    have h4 : eps - cf * cf * (1 / mu) < c3 / (1 + c1 - c2) := by
      rw [lt_div_iff₀ hq]; linarith
    linarith

end nyquist

section witness

/-- the Nyquist amplitudes of a lossless Drude medium with `ω_p dt = 3/2` at `courant_factor = 3/4`
(`κ = 3/2`, vacuum background) are multiplied by `-2` in every step — for all `n`. -/
theorem C36_nyquist_witness (n : Nat) :
    nyqRun (3 / 2 : ℚ) 1 1 2 (-1) (9 / 4) n ⟨4, -4, -2, 1⟩
      = ⟨4 * (-2) ^ n, -4 * (-2) ^ n, -2 * (-2) ^ n, (-2) ^ n⟩ := by
  induction n with
  | zero => simp [nyqRun]
  | succ n ih =>
    simp only [nyqRun, ih, nyqStep, pow_succ]
    congr 1 <;> ring

/-- these are the coefficients fdtdx stores for that pole (C35 model), `-2` is a root of the characteristic
polynomial, and the tree as found accepts the medium: the per-pole guard passes and nothing else is checked -/
theorem C36_as_found_accepts_witness :
    C35.coefChecked (C35.drude (3 / 2 : ℚ) 0) 1 = some ⟨2, -1, 9 / 4, 0⟩ ∧
    charPoly ((3 / 4 : ℚ) * (3 / 4)) 1 2 (-1) (9 / 4) (-2) = 0 ∧
    AsFound.warns (3 / 4 : ℚ) 1 1 [⟨2, -1, 9 / 4, 0, 0, 0⟩] = false := by
  refine ⟨?_, ?_, rfl⟩
  · simp only [C35.coefChecked, C35.drude, C35.coef]; norm_num
  · norm_num [charPoly]

/-- the repaired validation warns about it (measure 9/8) and is silent for the stable neighbour `ω_p dt = 1/2` -/
theorem C36_fixed_warns_witness :
    warns (3 / 4 : ℚ) 1 1 (1 / 100) [⟨2, -1, 9 / 4, 0, 0, 0⟩] = true ∧
    warns (3 / 4 : ℚ) 1 1 (1 / 100) [⟨2, -1, 1 / 4, 0, 0, 0⟩] = false := by
  constructor <;> (simp only [warns, measure, sumBy]; norm_num)

end witness

/-! ### existence of the root beyond -1 (ℝ) -/
section root

/-- a monic quartic is positive at `M = 1 + Σ|aᵢ|` -/
private theorem quartic_pos (a3 a2 a1 a0 M : ℝ) (hM : M = 1 + |a3| + |a2| + |a1| + |a0|) :
    0 < M ^ 4 + a3 * M ^ 3 + a2 * M ^ 2 + a1 * M + a0 := by
  have hM1 : 1 ≤ M := by
    have := abs_nonneg a3; have := abs_nonneg a2; have := abs_nonneg a1; have := abs_nonneg a0
    linarith
  have hM0 : 0 ≤ M := by linarith
  have p2 : 0 ≤ M ^ 2 := by positivity
  have p3 : 0 < M ^ 3 := by positivity
  have e23 : M ^ 2 ≤ M ^ 3 := by
    have := mul_le_mul_of_nonneg_left hM1 p2
    calc M ^ 2 = M ^ 2 * 1 := by ring
      _ ≤ M ^ 2 * M := this
      _ = M ^ 3 := by ring
  have e12 : M ≤ M ^ 2 := by
    have := mul_le_mul_of_nonneg_left hM1 hM0
    calc M = M * 1 := by ring
      _ ≤ M * M := this
      _ = M ^ 2 := by ring
  have e13 : M ≤ M ^ 3 := le_trans e12 e23
  have e03 : 1 ≤ M ^ 3 := le_trans hM1 e13
  have h3 : -(|a3| * M ^ 3) ≤ a3 * M ^ 3 := by
    have := mul_le_mul_of_nonneg_right (neg_abs_le a3) p3.le
    linarith
  have h2 : -(|a2| * M ^ 3) ≤ a2 * M ^ 2 := by
    have h := mul_le_mul_of_nonneg_right (neg_abs_le a2) p2
    have h' := mul_le_mul_of_nonneg_left e23 (abs_nonneg a2)
    linarith
  have h1 : -(|a1| * M ^ 3) ≤ a1 * M := by
    have h := mul_le_mul_of_nonneg_right (neg_abs_le a1) hM0
    have h' := mul_le_mul_of_nonneg_left e13 (abs_nonneg a1)
    linarith
  have h0 : -(|a0| * M ^ 3) ≤ a0 := by
    have h := neg_abs_le a0
    have h' := mul_le_mul_of_nonneg_left e03 (abs_nonneg a0)
    linarith
  have hM4 : M ^ 4 = M ^ 3 + |a3| * M ^ 3 + |a2| * M ^ 3 + |a1| * M ^ 3 + |a0| * M ^ 3 := by
    have : M ^ 4 = M ^ 3 * M := by ring
    rw [this]; nth_rewrite 2 [hM]; ring
  linarith

theorem C36_root_beyond_minus_one (nu2 invEps c1 c2 c3 : ℝ)
    (h : charPoly nu2 invEps c1 c2 c3 (-1) < 0) : ∃ z : ℝ, z < -1 ∧ charPoly nu2 invEps c1 c2 c3 z = 0 := by
  -- the quartic is monic: far enough to the left it is positive
  set f : ℝ → ℝ := fun z => charPoly nu2 invEps c1 c2 c3 z with hf
  have hcont : Continuous f := by
    simp only [hf, charPoly]; fun_prop
  -- expand in t = -z ≥ 1:  f(-t) = t⁴ + a3 t³ + a2 t² + a1 t + a0
  set a3 : ℝ := 2 + c1 - c3 * invEps - 4 * nu2 with ha3
  set a2 : ℝ := 1 + 2 * c1 - c2 - 2 * (c3 * invEps) - 4 * nu2 * c1 with ha2
  set a1 : ℝ := c1 - 2 * c2 - c3 * invEps + 4 * nu2 * c2 with ha1
  set a0 : ℝ := -c2 with ha0
  have hexp : ∀ t : ℝ, f (-t) = t ^ 4 + a3 * t ^ 3 + a2 * t ^ 2 + a1 * t + a0 := by
    intro t; simp only [hf, charPoly, ha3, ha2, ha1, ha0]; ring
  set M : ℝ := 1 + |a3| + |a2| + |a1| + |a0| with hM
  have hM1 : 1 ≤ M := by
    have := abs_nonneg a3; have := abs_nonneg a2; have := abs_nonneg a1; have := abs_nonneg a0
    linarith
  have hpos : 0 < f (-M) := by
    rw [hexp]; exact quartic_pos a3 a2 a1 a0 M hM
  have hlt : -M ≤ -1 := by linarith
  have hivt := intermediate_value_Icc' hlt hcont.continuousOn
  have h0mem : (0 : ℝ) ∈ Set.Icc (f (-1)) (f (-M)) := ⟨h.le, hpos.le⟩
  obtain ⟨z, hz, hfz⟩ := hivt h0mem
  refine ⟨z, ?_, hfz⟩
  rcases lt_or_eq_of_le hz.2 with hlt' | heq
  · exact hlt'
  · exfalso; rw [heq] at hfz; simp only [hf] at hfz; linarith

end root

/-! ### non-vacuity -/
section nonvacuity

/-- hypotheses of `C36_zero_coeff_step`: a two-slot cell at rest with zero coefficients -/
example : ∀ q ∈ [(⟨0, 0, 0, 0, 0, 7⟩ : PoleCell ℚ), ⟨0, 0, 0, 0, 0, 0⟩], ZeroSlot q := by
  intro q hq; simp at hq; rcases hq with rfl | rfl <;> simp [ZeroSlot]

/-- the statement is not trivially true of every cell: with a coupling pole the step differs -/
example : (cellStep (1 : ℚ) 0 1 1 false [⟨2, -1, 1 / 2, 0, 0, 0⟩]).1 ≠ ndStep 0 1 := by
  norm_num [cellStep, cellE, sumBy, pHat, ndStep]

/-- hypotheses of `C36_nyquist_sign` / `C36_root_beyond_minus_one` for the witness medium -/
example : (0 : ℚ) < 1 ∧ (0 : ℚ) < 1 + 2 - (-1) ∧ (9 / 4 : ℚ) ≠ 0 ∧
    charPoly ((3 / 4 : ℚ) * (3 / 4) * (1 / 1) * (1 / 1)) (1 / 1) 2 (-1) (9 / 4) (-1) < 0 := by
  norm_num [charPoly]

end nonvacuity

end Fdtdx.C36
