/-
C09 — tiling along y, along z, and along any combination of axes.

The x-axis theorem `C09_tile_steps` (FdtdxProps/C09.lean) is transported to the other axes through the cyclic
axis-relabelling equivariance of the time step (`C08_step_equivariant`, FdtdxProps/C08.lean): the y tiling IS the x tiling
of the twice relabelled scene, relabelled once more (`tileY_rot`, `tileCfgY_rot`, `tileMatY_rot` are definitional), and
likewise for z.  Compositions follow because a tiling along one axis preserves agreement on a region bounded along another.

  C09_tile_steps_y, C09_tile_steps_z            one wrap axis (periodic or Bloch, abstract per-copy factors `PhaseOK`)
  C09_tile_steps_xy, _xz, _yz, _xyz             two / three axes, independent factors and per-copy phases per axis
-/
import FdtdxProps.C09
import FdtdxProps.C08
import FdtdxModel.C09Axes

namespace Fdtdx.C09
open Fdtdx Fdtdx.Yee Fdtdx.C02
open Fdtdx.C08 (rotV rotC rotM rotF C08_step_equivariant)
set_option linter.unusedSectionVars false

section
variable {K : Type} [Field K]

/-! ### the tilings along y and z are relabelled x tilings (all definitional) -/

theorem tileY_rot (n : Nat) (w : Nat → K) (V : V3 K) : tileY n w V = rotV (tileX n w (rotV (rotV V))) := rfl
theorem tileZ_rot (n : Nat) (w : Nat → K) (V : V3 K) : tileZ n w V = rotV (rotV (tileX n w (rotV V))) := rfl
theorem tileCfgY_rot (m : Nat) (P Q : K) (cf : Cfg K) : tileCfgY m P Q cf = rotC (tileCfgX m P Q (rotC (rotC cf))) := rfl
theorem tileCfgZ_rot (m : Nat) (P Q : K) (cf : Cfg K) : tileCfgZ m P Q cf = rotC (rotC (tileCfgX m P Q (rotC cf))) := rfl

theorem tileMatY_rot (n : Nat) (mt : Mat K) : tileMatY n mt = rotM (tileMatX n (rotM (rotM mt))) := by
  obtain ⟨ie, im, sE, sH⟩ := mt
  cases sE <;> cases sH <;> rfl

theorem tileMatZ_rot (n : Nat) (mt : Mat K) : tileMatZ n mt = rotM (rotM (tileMatX n (rotM mt))) := by
  obtain ⟨ie, im, sE, sH⟩ := mt
  cases sE <;> cases sH <;> rfl

/-- n steps of the relabelled scene = relabelled n steps (for the step-indexed `fwdN` of C02) -/
theorem fwdN_rot (cf : Cfg K) (m : Mat K) (jE jH : Nat → V3 K) (t s : Nat) (E H : V3 K) :
    fwdN (rotC cf) (rotM m) (fun u => rotV (jE u)) (fun u => rotV (jH u)) t s (rotV E, rotV H)
      = (rotV (fwdN cf m jE jH t s (E, H)).1, rotV (fwdN cf m jE jH t s (E, H)).2) := by
  induction s with
  | zero => rfl
  | succ s ih =>
    simp only [fwdN]
    rw [ih]
    exact C08_step_equivariant cf m _ _ _ _

def AgreeY (N : Nat) (A B : V3 K) : Prop :=
  ∀ i j k, j < N → A.x i j k = B.x i j k ∧ A.y i j k = B.y i j k ∧ A.z i j k = B.z i j k

def AgreeZ (N : Nat) (A B : V3 K) : Prop :=
  ∀ i j k, k < N → A.x i j k = B.x i j k ∧ A.y i j k = B.y i j k ∧ A.z i j k = B.z i j k

theorem agreeY_of_rot {N : Nat} {A B : V3 K} (h : AgreeX N A B) : AgreeY N (rotV A) (rotV B) := by
  intro i j k hj
  obtain ⟨a, b, c⟩ := h j k i hj
  exact ⟨c, a, b⟩

theorem agreeZ_of_rot2 {N : Nat} {A B : V3 K} (h : AgreeX N A B) : AgreeZ N (rotV (rotV A)) (rotV (rotV B)) := by
  intro i j k hk
  obtain ⟨a, b, c⟩ := h k i j hk
  exact ⟨b, c, a⟩

/-- y (resp. z) is a wrap axis of at least one cell without walls -/
def AxisOKy (cf : Cfg K) : Prop := AxisOK (rotC (rotC cf))
def AxisOKz (cf : Cfg K) : Prop := AxisOK (rotC cf)

theorem axisOKy_iff (cf : Cfg K) : AxisOKy cf ↔ (0 < cf.ny ∧ cf.by_.wrap = true ∧ cf.by_.pecLo = false ∧ cf.by_.pecHi = false
    ∧ cf.by_.pmcLo = false ∧ cf.by_.pmcHi = false) :=
  ⟨fun h => ⟨h.pos, h.wrap, h.pecLo, h.pecHi, h.pmcLo, h.pmcHi⟩, fun h => ⟨h.1, h.2.1, h.2.2.1, h.2.2.2.1, h.2.2.2.2.1, h.2.2.2.2.2⟩⟩

theorem axisOKz_iff (cf : Cfg K) : AxisOKz cf ↔ (0 < cf.nz ∧ cf.bz.wrap = true ∧ cf.bz.pecLo = false ∧ cf.bz.pecHi = false
    ∧ cf.bz.pmcLo = false ∧ cf.bz.pmcHi = false) :=
  ⟨fun h => ⟨h.pos, h.wrap, h.pecLo, h.pecHi, h.pmcLo, h.pmcHi⟩, fun h => ⟨h.1, h.2.1, h.2.2.1, h.2.2.2.1, h.2.2.2.2.1, h.2.2.2.2.2⟩⟩

variable (cf : Cfg K) (m : Nat) (w : Nat → K) (P Q : K)

/-- **C09_tile_steps_y**: the supercell along a wrap y axis evolves as the tiled base cell, any number of steps. -/
theorem C09_tile_steps_y (hax : AxisOKy cf) (hp : PhaseOK m w cf.by_.pp cf.by_.pm P Q) (hm : 0 < m) (mt : Mat K)
    (jE jH : Nat → V3 K) (t s : Nat) (E H : V3 K) :
    AgreeY (m * cf.ny)
        (fwdN (tileCfgY m P Q cf) (tileMatY cf.ny mt) (fun u => tileY cf.ny w (jE u)) (fun u => tileY cf.ny w (jH u)) t s
          (tileY cf.ny w E, tileY cf.ny w H)).1
        (tileY cf.ny w (fwdN cf mt jE jH t s (E, H)).1)
    ∧ AgreeY (m * cf.ny)
        (fwdN (tileCfgY m P Q cf) (tileMatY cf.ny mt) (fun u => tileY cf.ny w (jE u)) (fun u => tileY cf.ny w (jH u)) t s
          (tileY cf.ny w E, tileY cf.ny w H)).2
        (tileY cf.ny w (fwdN cf mt jE jH t s (E, H)).2) := by
  have hx := C09_tile_steps (rotC (rotC cf)) m w P Q hax hp hm (rotM (rotM mt)) (fun u => rotV (rotV (jE u)))
    (fun u => rotV (rotV (jH u))) t s (rotV (rotV E)) (rotV (rotV H))
  have hb : fwdN (rotC (rotC cf)) (rotM (rotM mt)) (fun u => rotV (rotV (jE u))) (fun u => rotV (rotV (jH u))) t s
      (rotV (rotV E), rotV (rotV H))
      = (rotV (rotV (fwdN cf mt jE jH t s (E, H)).1), rotV (rotV (fwdN cf mt jE jH t s (E, H)).2)) := by
    rw [fwdN_rot (rotC cf) (rotM mt) (fun u => rotV (jE u)) (fun u => rotV (jH u)) t s (rotV E) (rotV H),
      fwdN_rot cf mt jE jH t s E H]
  rw [hb] at hx
  rw [tileMatY_rot]
  have hy : fwdN (tileCfgY m P Q cf) (rotM (tileMatX cf.ny (rotM (rotM mt)))) (fun u => tileY cf.ny w (jE u))
      (fun u => tileY cf.ny w (jH u)) t s (tileY cf.ny w E, tileY cf.ny w H)
      = (rotV (fwdN (tileCfgX m P Q (rotC (rotC cf))) (tileMatX cf.ny (rotM (rotM mt)))
            (fun u => tileX cf.ny w (rotV (rotV (jE u)))) (fun u => tileX cf.ny w (rotV (rotV (jH u)))) t s
            (tileX cf.ny w (rotV (rotV E)), tileX cf.ny w (rotV (rotV H)))).1,
         rotV (fwdN (tileCfgX m P Q (rotC (rotC cf))) (tileMatX cf.ny (rotM (rotM mt)))
            (fun u => tileX cf.ny w (rotV (rotV (jE u)))) (fun u => tileX cf.ny w (rotV (rotV (jH u)))) t s
            (tileX cf.ny w (rotV (rotV E)), tileX cf.ny w (rotV (rotV H)))).2) :=
    fwdN_rot (tileCfgX m P Q (rotC (rotC cf))) (tileMatX cf.ny (rotM (rotM mt)))
      (fun u => tileX cf.ny w (rotV (rotV (jE u)))) (fun u => tileX cf.ny w (rotV (rotV (jH u)))) t s
      (tileX cf.ny w (rotV (rotV E))) (tileX cf.ny w (rotV (rotV H)))
  rw [hy]
  exact ⟨agreeY_of_rot hx.1, agreeY_of_rot hx.2⟩

/-- **C09_tile_steps_z** -/
theorem C09_tile_steps_z (hax : AxisOKz cf) (hp : PhaseOK m w cf.bz.pp cf.bz.pm P Q) (hm : 0 < m) (mt : Mat K)
    (jE jH : Nat → V3 K) (t s : Nat) (E H : V3 K) :
    AgreeZ (m * cf.nz)
        (fwdN (tileCfgZ m P Q cf) (tileMatZ cf.nz mt) (fun u => tileZ cf.nz w (jE u)) (fun u => tileZ cf.nz w (jH u)) t s
          (tileZ cf.nz w E, tileZ cf.nz w H)).1
        (tileZ cf.nz w (fwdN cf mt jE jH t s (E, H)).1)
    ∧ AgreeZ (m * cf.nz)
        (fwdN (tileCfgZ m P Q cf) (tileMatZ cf.nz mt) (fun u => tileZ cf.nz w (jE u)) (fun u => tileZ cf.nz w (jH u)) t s
          (tileZ cf.nz w E, tileZ cf.nz w H)).2
        (tileZ cf.nz w (fwdN cf mt jE jH t s (E, H)).2) := by
  have hx := C09_tile_steps (rotC cf) m w P Q hax hp hm (rotM mt) (fun u => rotV (jE u)) (fun u => rotV (jH u)) t s
    (rotV E) (rotV H)
  rw [fwdN_rot cf mt jE jH t s E H] at hx
  rw [tileMatZ_rot]
  have h1 := fwdN_rot (tileCfgX m P Q (rotC cf)) (tileMatX cf.nz (rotM mt))
    (fun u => tileX cf.nz w (rotV (jE u))) (fun u => tileX cf.nz w (rotV (jH u))) t s
    (tileX cf.nz w (rotV E)) (tileX cf.nz w (rotV H))
  have h2 : fwdN (tileCfgZ m P Q cf) (rotM (rotM (tileMatX cf.nz (rotM mt)))) (fun u => tileZ cf.nz w (jE u))
      (fun u => tileZ cf.nz w (jH u)) t s (tileZ cf.nz w E, tileZ cf.nz w H)
      = (rotV (rotV (fwdN (tileCfgX m P Q (rotC cf)) (tileMatX cf.nz (rotM mt))
            (fun u => tileX cf.nz w (rotV (jE u))) (fun u => tileX cf.nz w (rotV (jH u))) t s
            (tileX cf.nz w (rotV E), tileX cf.nz w (rotV H))).1),
         rotV (rotV (fwdN (tileCfgX m P Q (rotC cf)) (tileMatX cf.nz (rotM mt))
            (fun u => tileX cf.nz w (rotV (jE u))) (fun u => tileX cf.nz w (rotV (jH u))) t s
            (tileX cf.nz w (rotV E), tileX cf.nz w (rotV H))).2)) := by
    have h2' := fwdN_rot (rotC (tileCfgX m P Q (rotC cf))) (rotM (tileMatX cf.nz (rotM mt)))
      (fun u => rotV (tileX cf.nz w (rotV (jE u)))) (fun u => rotV (tileX cf.nz w (rotV (jH u)))) t s
      (rotV (tileX cf.nz w (rotV E))) (rotV (tileX cf.nz w (rotV H)))
    rw [h1] at h2'
    exact h2'
  rw [h2]
  exact ⟨agreeZ_of_rot2 hx.1, agreeZ_of_rot2 hx.2⟩

/-! ### compositions -/

/-- agreement on a region given by a predicate on the cell index -/
def AgreeOn (p : Nat → Nat → Nat → Prop) (A B : V3 K) : Prop :=
  ∀ i j k, p i j k → A.x i j k = B.x i j k ∧ A.y i j k = B.y i j k ∧ A.z i j k = B.z i j k

theorem AgreeOn.trans {p : Nat → Nat → Nat → Prop} {A B C : V3 K} (h1 : AgreeOn p A B) (h2 : AgreeOn p B C) : AgreeOn p A C := by
  intro i j k hp
  obtain ⟨a1, a2, a3⟩ := h1 i j k hp
  obtain ⟨b1, b2, b3⟩ := h2 i j k hp
  exact ⟨a1.trans b1, a2.trans b2, a3.trans b3⟩

theorem AgreeOn.mono {p q : Nat → Nat → Nat → Prop} {A B : V3 K} (h : AgreeOn q A B) (hpq : ∀ i j k, p i j k → q i j k) :
    AgreeOn p A B := fun i j k hp => h i j k (hpq i j k hp)

theorem agreeX_tileY {N : Nat} {A B : V3 K} (n : Nat) (v : Nat → K) (h : AgreeX N A B) : AgreeX N (tileY n v A) (tileY n v B) := by
  intro i j k hi
  obtain ⟨a, b, c⟩ := h i (j % n) k hi
  exact ⟨by simp only [tileY, a], by simp only [tileY, b], by simp only [tileY, c]⟩

theorem agreeX_tileZ {N : Nat} {A B : V3 K} (n : Nat) (v : Nat → K) (h : AgreeX N A B) : AgreeX N (tileZ n v A) (tileZ n v B) := by
  intro i j k hi
  obtain ⟨a, b, c⟩ := h i j (k % n) hi
  exact ⟨by simp only [tileZ, a], by simp only [tileZ, b], by simp only [tileZ, c]⟩

theorem agreeY_tileZ {N : Nat} {A B : V3 K} (n : Nat) (v : Nat → K) (h : AgreeY N A B) : AgreeY N (tileZ n v A) (tileZ n v B) := by
  intro i j k hj
  obtain ⟨a, b, c⟩ := h i j (k % n) hj
  exact ⟨by simp only [tileZ, a], by simp only [tileZ, b], by simp only [tileZ, c]⟩

theorem axisOKy_tileX (m1 : Nat) (P1 Q1 : K) (h : AxisOKy cf) : AxisOKy (tileCfgX m1 P1 Q1 cf) :=
  (axisOKy_iff _).2 ((axisOKy_iff cf).1 h)

theorem axisOKz_tileX (m1 : Nat) (P1 Q1 : K) (h : AxisOKz cf) : AxisOKz (tileCfgX m1 P1 Q1 cf) :=
  (axisOKz_iff _).2 ((axisOKz_iff cf).1 h)

theorem axisOKz_tileY (m1 : Nat) (P1 Q1 : K) (h : AxisOKz cf) : AxisOKz (tileCfgY m1 P1 Q1 cf) :=
  (axisOKz_iff _).2 ((axisOKz_iff cf).1 h)

variable (m1 m2 m3 : Nat) (w1 w2 w3 : Nat → K) (P1 Q1 P2 Q2 P3 Q3 : K)

/-- **C09_tile_steps_xy**: tiling along x and y (independent factors and per-copy phases) -/
theorem C09_tile_steps_xy (hx : AxisOK cf) (hy : AxisOKy cf) (hp1 : PhaseOK m1 w1 cf.bx.pp cf.bx.pm P1 Q1)
    (hp2 : PhaseOK m2 w2 cf.by_.pp cf.by_.pm P2 Q2) (hm1 : 0 < m1) (hm2 : 0 < m2) (mt : Mat K)
    (jE jH : Nat → V3 K) (t s : Nat) (E H : V3 K) :
    let T : V3 K → V3 K := fun V => tileY cf.ny w2 (tileX cf.nx w1 V)
    let S := fwdN (tileCfgY m2 P2 Q2 (tileCfgX m1 P1 Q1 cf)) (tileMatY cf.ny (tileMatX cf.nx mt)) (fun u => T (jE u))
      (fun u => T (jH u)) t s (T E, T H)
    let B := fwdN cf mt jE jH t s (E, H)
    AgreeOn (fun i j _ => i < m1 * cf.nx ∧ j < m2 * cf.ny) S.1 (T B.1)
    ∧ AgreeOn (fun i j _ => i < m1 * cf.nx ∧ j < m2 * cf.ny) S.2 (T B.2) := by
  intro T S B
  have h1 := C09_tile_steps cf m1 w1 P1 Q1 hx hp1 hm1 mt jE jH t s E H
  have h2 := C09_tile_steps_y (tileCfgX m1 P1 Q1 cf) m2 w2 P2 Q2 (axisOKy_tileX cf m1 P1 Q1 hy) hp2 hm2 (tileMatX cf.nx mt)
    (fun u => tileX cf.nx w1 (jE u)) (fun u => tileX cf.nx w1 (jH u)) t s (tileX cf.nx w1 E) (tileX cf.nx w1 H)
  refine ⟨?_, ?_⟩
  · intro i j k hij
    obtain ⟨a1, a2, a3⟩ := h2.1 i j k hij.2
    obtain ⟨b1, b2, b3⟩ := agreeX_tileY cf.ny w2 h1.1 i j k hij.1
    exact ⟨a1.trans b1, a2.trans b2, a3.trans b3⟩
  · intro i j k hij
    obtain ⟨a1, a2, a3⟩ := h2.2 i j k hij.2
    obtain ⟨b1, b2, b3⟩ := agreeX_tileY cf.ny w2 h1.2 i j k hij.1
    exact ⟨a1.trans b1, a2.trans b2, a3.trans b3⟩

/-- **C09_tile_steps_xz** -/
theorem C09_tile_steps_xz (hx : AxisOK cf) (hz : AxisOKz cf) (hp1 : PhaseOK m1 w1 cf.bx.pp cf.bx.pm P1 Q1)
    (hp3 : PhaseOK m3 w3 cf.bz.pp cf.bz.pm P3 Q3) (hm1 : 0 < m1) (hm3 : 0 < m3) (mt : Mat K)
    (jE jH : Nat → V3 K) (t s : Nat) (E H : V3 K) :
    let T : V3 K → V3 K := fun V => tileZ cf.nz w3 (tileX cf.nx w1 V)
    let S := fwdN (tileCfgZ m3 P3 Q3 (tileCfgX m1 P1 Q1 cf)) (tileMatZ cf.nz (tileMatX cf.nx mt)) (fun u => T (jE u))
      (fun u => T (jH u)) t s (T E, T H)
    let B := fwdN cf mt jE jH t s (E, H)
    AgreeOn (fun i _ k => i < m1 * cf.nx ∧ k < m3 * cf.nz) S.1 (T B.1)
    ∧ AgreeOn (fun i _ k => i < m1 * cf.nx ∧ k < m3 * cf.nz) S.2 (T B.2) := by
  intro T S B
  have h1 := C09_tile_steps cf m1 w1 P1 Q1 hx hp1 hm1 mt jE jH t s E H
  have h2 := C09_tile_steps_z (tileCfgX m1 P1 Q1 cf) m3 w3 P3 Q3 (axisOKz_tileX cf m1 P1 Q1 hz) hp3 hm3 (tileMatX cf.nx mt)
    (fun u => tileX cf.nx w1 (jE u)) (fun u => tileX cf.nx w1 (jH u)) t s (tileX cf.nx w1 E) (tileX cf.nx w1 H)
  refine ⟨?_, ?_⟩
  · intro i j k hik
    obtain ⟨a1, a2, a3⟩ := h2.1 i j k hik.2
    obtain ⟨b1, b2, b3⟩ := agreeX_tileZ cf.nz w3 h1.1 i j k hik.1
    exact ⟨a1.trans b1, a2.trans b2, a3.trans b3⟩
  · intro i j k hik
    obtain ⟨a1, a2, a3⟩ := h2.2 i j k hik.2
    obtain ⟨b1, b2, b3⟩ := agreeX_tileZ cf.nz w3 h1.2 i j k hik.1
    exact ⟨a1.trans b1, a2.trans b2, a3.trans b3⟩

/-- **C09_tile_steps_yz** -/
theorem C09_tile_steps_yz (hy : AxisOKy cf) (hz : AxisOKz cf) (hp2 : PhaseOK m2 w2 cf.by_.pp cf.by_.pm P2 Q2)
    (hp3 : PhaseOK m3 w3 cf.bz.pp cf.bz.pm P3 Q3) (hm2 : 0 < m2) (hm3 : 0 < m3) (mt : Mat K)
    (jE jH : Nat → V3 K) (t s : Nat) (E H : V3 K) :
    let T : V3 K → V3 K := fun V => tileZ cf.nz w3 (tileY cf.ny w2 V)
    let S := fwdN (tileCfgZ m3 P3 Q3 (tileCfgY m2 P2 Q2 cf)) (tileMatZ cf.nz (tileMatY cf.ny mt)) (fun u => T (jE u))
      (fun u => T (jH u)) t s (T E, T H)
    let B := fwdN cf mt jE jH t s (E, H)
    AgreeOn (fun _ j k => j < m2 * cf.ny ∧ k < m3 * cf.nz) S.1 (T B.1)
    ∧ AgreeOn (fun _ j k => j < m2 * cf.ny ∧ k < m3 * cf.nz) S.2 (T B.2) := by
  intro T S B
  have h1 := C09_tile_steps_y cf m2 w2 P2 Q2 hy hp2 hm2 mt jE jH t s E H
  have h2 := C09_tile_steps_z (tileCfgY m2 P2 Q2 cf) m3 w3 P3 Q3 (axisOKz_tileY cf m2 P2 Q2 hz) hp3 hm3 (tileMatY cf.ny mt)
    (fun u => tileY cf.ny w2 (jE u)) (fun u => tileY cf.ny w2 (jH u)) t s (tileY cf.ny w2 E) (tileY cf.ny w2 H)
  refine ⟨?_, ?_⟩
  · intro i j k hjk
    obtain ⟨a1, a2, a3⟩ := h2.1 i j k hjk.2
    obtain ⟨b1, b2, b3⟩ := agreeY_tileZ cf.nz w3 h1.1 i j k hjk.1
    exact ⟨a1.trans b1, a2.trans b2, a3.trans b3⟩
  · intro i j k hjk
    obtain ⟨a1, a2, a3⟩ := h2.2 i j k hjk.2
    obtain ⟨b1, b2, b3⟩ := agreeY_tileZ cf.nz w3 h1.2 i j k hjk.1
    exact ⟨a1.trans b1, a2.trans b2, a3.trans b3⟩

/-- **C09_tile_steps_xyz**: tiling along all three axes -/
theorem C09_tile_steps_xyz (hx : AxisOK cf) (hy : AxisOKy cf) (hz : AxisOKz cf) (hp1 : PhaseOK m1 w1 cf.bx.pp cf.bx.pm P1 Q1)
    (hp2 : PhaseOK m2 w2 cf.by_.pp cf.by_.pm P2 Q2) (hp3 : PhaseOK m3 w3 cf.bz.pp cf.bz.pm P3 Q3)
    (hm1 : 0 < m1) (hm2 : 0 < m2) (hm3 : 0 < m3) (mt : Mat K) (jE jH : Nat → V3 K) (t s : Nat) (E H : V3 K) :
    let T : V3 K → V3 K := fun V => tileZ cf.nz w3 (tileY cf.ny w2 (tileX cf.nx w1 V))
    let S := fwdN (tileCfgZ m3 P3 Q3 (tileCfgY m2 P2 Q2 (tileCfgX m1 P1 Q1 cf))) (tileMatZ cf.nz (tileMatY cf.ny (tileMatX cf.nx mt)))
      (fun u => T (jE u)) (fun u => T (jH u)) t s (T E, T H)
    let B := fwdN cf mt jE jH t s (E, H)
    AgreeOn (fun i j k => i < m1 * cf.nx ∧ j < m2 * cf.ny ∧ k < m3 * cf.nz) S.1 (T B.1)
    ∧ AgreeOn (fun i j k => i < m1 * cf.nx ∧ j < m2 * cf.ny ∧ k < m3 * cf.nz) S.2 (T B.2) := by
  intro T S B
  have h12 := C09_tile_steps_xy cf m1 m2 w1 w2 P1 Q1 P2 Q2 hx hy hp1 hp2 hm1 hm2 mt jE jH t s E H
  have hz' : AxisOKz (tileCfgY m2 P2 Q2 (tileCfgX m1 P1 Q1 cf)) :=
    axisOKz_tileY _ m2 P2 Q2 (axisOKz_tileX cf m1 P1 Q1 hz)
  have h3 := C09_tile_steps_z (tileCfgY m2 P2 Q2 (tileCfgX m1 P1 Q1 cf)) m3 w3 P3 Q3 hz' hp3 hm3
    (tileMatY cf.ny (tileMatX cf.nx mt)) (fun u => tileY cf.ny w2 (tileX cf.nx w1 (jE u)))
    (fun u => tileY cf.ny w2 (tileX cf.nx w1 (jH u))) t s (tileY cf.ny w2 (tileX cf.nx w1 E)) (tileY cf.ny w2 (tileX cf.nx w1 H))
  simp only at h12
  refine ⟨?_, ?_⟩
  · intro i j k hijk
    obtain ⟨a1, a2, a3⟩ := h3.1 i j k hijk.2.2
    obtain ⟨b1, b2, b3⟩ := h12.1 i j (k % cf.nz) ⟨hijk.1, hijk.2.1⟩
    refine ⟨a1.trans ?_, a2.trans ?_, a3.trans ?_⟩
    · exact congrArg (· * w3 (k / cf.nz)) b1
    · exact congrArg (· * w3 (k / cf.nz)) b2
    · exact congrArg (· * w3 (k / cf.nz)) b3
  · intro i j k hijk
    obtain ⟨a1, a2, a3⟩ := h3.2 i j k hijk.2.2
    obtain ⟨b1, b2, b3⟩ := h12.2 i j (k % cf.nz) ⟨hijk.1, hijk.2.1⟩
    refine ⟨a1.trans ?_, a2.trans ?_, a3.trans ?_⟩
    · exact congrArg (· * w3 (k / cf.nz)) b1
    · exact congrArg (· * w3 (k / cf.nz)) b2
    · exact congrArg (· * w3 (k / cf.nz)) b3

end

/-! ### non-vacuity: a 2×3×2 scene periodic on all three axes meets the three axis hypotheses, and the periodic / Bloch
factor relations are satisfiable on every axis (`phaseOK_periodic`, `phaseOK_bloch`). -/
def exPer : Cfg ℚ :=
  { nx := 2, ny := 3, nz := 2, bx := ⟨true, 1, 1, false, false, false, false⟩, by_ := ⟨true, 1, 1, false, false, false, false⟩,
    bz := ⟨true, 2, 1 / 2, false, false, false, false⟩,
    sfx := fun _ => 1, sfy := fun _ => 1, sfz := fun _ => 1, sbx := fun _ => 1, sby := fun _ => 1, sbz := fun _ => 1,
    c := 1 / 2, eta0 := 1 }

example : AxisOK exPer ∧ AxisOKy exPer ∧ AxisOKz exPer :=
  ⟨⟨by decide, rfl, rfl, rfl, rfl, rfl⟩, (axisOKy_iff _).2 ⟨by decide, rfl, rfl, rfl, rfl, rfl⟩,
   (axisOKz_iff _).2 ⟨by decide, rfl, rfl, rfl, rfl, rfl⟩⟩
example : PhaseOK 2 (fun _ => (1 : ℚ)) exPer.by_.pp exPer.by_.pm 1 1 := phaseOK_periodic 2
example : PhaseOK 3 (fun q => (2 : ℚ) ^ q) exPer.bz.pp exPer.bz.pm (2 ^ 3) (2 ^ 3)⁻¹ := by
  have h := phaseOK_bloch (K := ℚ) 3 (by decide) 2 (by norm_num)
  simpa [exPer] using h
example : (tileCfgZ 3 (8 : ℚ) (1 / 8) (tileCfgY 2 1 1 exPer)).ny = 6 ∧ (tileCfgZ 3 (8 : ℚ) (1 / 8) (tileCfgY 2 1 1 exPer)).nz = 6 := by
  decide

end Fdtdx.C09
