/-
C33 with PML objects (CPML step `forwardP` of `FdtdxModel/Cpml.lean`): the PEC-mirror parity of the full-domain fields
survives in the window around the plane that no PML box meets — in particular with PML layers of thickness `th` on the
two far faces of the symmetric axis (the faces the plane does not cut) the fields are parity-symmetric on `m - th - n`
pairs after `n` steps, whatever the PML coefficients and auxiliary fields are.

Not shown here: equality of the reduced run (which carries the far-side PML only) with the upper half of the full run;
that clause stays with the implementation-side oracle of harness/c33.py.
-/
import FdtdxProps.C33
import FdtdxLemmas.C33Cpml
namespace Fdtdx.C33
open Fdtdx Fdtdx.Yee Fdtdx.Cpml

section
variable {K : Type} [Field K]
variable {cf : Cfg K} {m : Nat}

/-- **mirror_window_step_cpml**: the CPML time step `forwardP` (PML objects with their auxiliary fields, e.g. on the two
far faces of the symmetric axis — the faces the plane does not cut) keeps the PEC-mirror parity of the fields in a
window of `r` pairs around the plane that no PML box meets, shrinking it by one pair; the PML boxes stay where they
are.  Nothing is assumed about the PML coefficients or the auxiliary fields. -/
theorem mirror_window_step_cpml (hn : cf.nx = 2 * m) (r : Nat) (hr : r ≤ m) (hpec : r = m → cf.bx.pecHi = false)
    (mt : Mat K) (hx : XInv mt) (hmet : MetricSym cf m r) (jE jH E H : V3 K) (sim : Bool) (pmls : List (PmlSt K))
    (hc : Clear pmls m r)
    (sE : SymE m r E) (sH : SymH m r H) (sJE : SymE m r jE) (sJH : SymH m r jH) :
    SymE m (r - 1) (forwardP cf mt jE jH sim pmls E H).1 ∧ SymH m (r - 1) (forwardP cf mt jE jH sim pmls E H).2.1 ∧
      Clear (forwardP cf mt jE jH sim pmls E H).2.2 m r := by
  have h1 := stepE_sym hn r hr hpec mt hx hmet jE E H sE sH sJE
  -- the E half step: inside the slab the PML loop of curl_H does nothing
  have eE : SymE m r (updEwith cf mt jE (curlHp cf sim pmls H) E) := by
    refine h1.congr (fun i j k a b => ?_)
    have cl : ∀ st ∈ pmls, ¬ st.p.box.mem i j k := fun st hs => hc st hs i j k a b
    refine ⟨?_, ?_, ?_⟩ <;>
      simp only [updEwith, stepE, projE, maskV, addV, curlHp, foldl_applyH_clear _ _ _ _ _ _ _ cl]
  have hc1 := hc.updPsiE (cf := cf) sim H
  have h2 := stepH_sym hn r hr mt hx hmet jH _ H eE sH sJH
  refine ⟨eE.mono (by omega), ?_, (hc1.updPsiH sim _)⟩
  refine h2.congr (fun i j k a b => ?_)
  have cl : ∀ st ∈ pmls.map (updPsiE cf sim H), ¬ st.p.box.mem i j k :=
    fun st hs => hc1 st hs i j k (by omega) (by omega)
  refine ⟨?_, ?_, ?_⟩ <;>
    simp only [forwardP, updHwith, stepH, projH, maskV, addV, curlEp, foldl_applyE_clear _ _ _ _ _ _ _ cl]


/-- `n` CPML steps with the same additive source terms -/
def stepsP (cf : Cfg K) (mt : Mat K) (jE jH : V3 K) (sim : Bool) :
    Nat → V3 K × V3 K × List (PmlSt K) → V3 K × V3 K × List (PmlSt K)
  | 0, s => s
  | n + 1, s => forwardP cf mt jE jH sim (stepsP cf mt jE jH sim n s).2.2 (stepsP cf mt jE jH sim n s).1
      (stepsP cf mt jE jH sim n s).2.1

/-- **mirror_window_cpml**: all steps.  If no PML box meets the `r0` pairs around the plane (PML of thickness `th` on the
far faces: `r0 = m - th`), a parity-symmetric start stays parity-symmetric on `r0 - n` pairs after `n` CPML steps. -/
theorem mirror_window_cpml (hn : cf.nx = 2 * m) (r0 : Nat) (hr : r0 ≤ m) (hpec : r0 = m → cf.bx.pecHi = false)
    (mt : Mat K) (hx : XInv mt) (hmet : MetricSym cf m r0) (jE jH E H : V3 K) (sim : Bool) (pmls : List (PmlSt K))
    (hc : Clear pmls m r0)
    (sE : SymE m r0 E) (sH : SymH m r0 H) (sJE : SymE m r0 jE) (sJH : SymH m r0 jH) (n : Nat) :
    SymE m (r0 - n) (stepsP cf mt jE jH sim n (E, H, pmls)).1 ∧
      SymH m (r0 - n) (stepsP cf mt jE jH sim n (E, H, pmls)).2.1 ∧
      Clear (stepsP cf mt jE jH sim n (E, H, pmls)).2.2 m r0 := by
  induction n with
  | zero => exact ⟨sE, sH, hc⟩
  | succ n ih =>
    obtain ⟨s1, s2, c⟩ := ih
    have hp : r0 - n = m → cf.bx.pecHi = false := fun e => hpec (by omega)
    obtain ⟨t1, t2, c2⟩ := mirror_window_step_cpml hn (r0 - n) (by omega) hp mt hx (hmet.mono (by omega)) jE jH _ _ sim _
      (c.mono (by omega)) s1 s2 (sJE.mono (by omega)) (sJH.mono (by omega))
    have e : r0 - n - 1 = r0 - (n + 1) := by omega
    rw [e] at t1 t2
    refine ⟨t1, t2, ?_⟩
    -- the boxes never move: clearance of the original window is kept
    intro st hs i j k a b
    simp only [stepsP, forwardP] at hs
    obtain ⟨s1', hs1, rfl⟩ := List.mem_map.mp hs
    obtain ⟨s0, hs0, rfl⟩ := List.mem_map.mp hs1
    exact c s0 hs0 i j k a b

end

/-! ### non-vacuity: one-cell PML boxes on both far x faces of the 4-cell axis leave the pair next to the plane clear -/
def exPml (lo hi : Nat) : PmlSt ℚ :=
  { p := { axis := 0, plus := lo = 0, box := ⟨lo, hi, 0, 2, 0, 2⟩, kappaDefault := true,
           aE := fun _ => 1 / 3, bE := fun _ => 1 / 2, ikE := fun _ => 1, aH := fun _ => 1 / 5, bH := fun _ => 1 / 2, ikH := fun _ => 1 },
    e1 := fun _ _ _ => 1, e2 := fun _ _ _ => 2, h1 := fun _ _ _ => 3, h2 := fun _ _ _ => 4 }

example : Clear [exPml 0 1, exPml 3 4] 2 1 := by
  intro st hs i j k a b
  simp only [List.mem_cons, List.mem_nil_iff, or_false] at hs
  rcases hs with rfl | rfl <;> simp [exPml, Box.mem] <;> omega

end Fdtdx.C33
