/-
C40 — Functional updates never mutate their input.

Property theorems about `FdtdxModel/C40.lean` (`asetHeap` = `TreeClass.aset` on a heap of objects, lists, tuples,
dicts and atoms), for every heap, every path (any length, any mix of attribute / index / key operations, valid or
not), every new value and both settings of `create_new_ok`:

  C40_frame              every address that existed before the call holds the same node afterwards
  C40_original_unchanged hence the value reachable from ANY old address — in particular the input object — is unchanged
  C40_result_is_update   the value of the returned object = pure update of the input's value at the path (`updTree`)
  C40_error_iff          the call raises exactly when that pure update is undefined (missing attribute/key without
                         `create_new_ok` or not in last position, index out of range, tuple/atom/object-by-index …)
  C40_same_type          the returned root is a NEW address whose node has the constructor and class of the input
  C40_put_get / C40_put_other / C40_put_ctor
                         the one-level laws that give `updTree` its meaning: after `setChild n op b` the addressed child
                         is `b`, every other slot of the node is untouched, the constructor/class is kept
  C40_error_missing_attr / C40_error_bad_index / C40_error_inner / C40_error_tuple   named error cases
  C40_parse_render / C40_parse_render_string   the path parser reads back every rendered list of well-formed operations
  C40_render_injective   distinct well-formed operation lists have distinct paths

`deref`, `updTree`, `WF`, `Ext` are defined in `FdtdxLemmas/C40.lean`.
-/
import FdtdxLemmas.C40
import FdtdxLemmas.C40Parse
import Mathlib.Tactic.IntervalCases

namespace Fdtdx.C40

/-! ### one-level laws of the primitives (any child type) -/

/-- which slot of a node an operation addresses (negative list indices are normalised) -/
def slot {β : Type} (n : NodeF β) (op : Op) : Option Key :=
  match n, op with
  | .obj _ _, .attr nm => some (.s nm)
  | .list xs, .idx i => (pyIndex xs.length i).map fun j => Key.i j
  | .tuple xs, .idx i => (pyIndex xs.length i).map fun j => Key.i j
  | .dict _, .idx i => some (.i i)
  | .dict _, .key k => some (.s k)
  | _, _ => none

/-- C40_put_get: after the rebuild step the addressed child is the new value. -/
theorem C40_put_get {β : Type} (n n' : NodeF β) (op : Op) (b : β) (m : Bool) (h : setChild n op b = some n') :
    descend n' op m = .child b := by
  cases n <;> cases op <;> simp only [setChild] at h <;> try cases h
  · simp [descend, assocGet_set_same]
  · rename_i xs i
    cases hp : pyIndex xs.length i with
    | none => rw [hp] at h; cases h
    | some j =>
      rw [hp] at h; simp only [Option.map] at h; injection h with h; subst h
      have hj := pyIndex_lt _ _ _ hp
      simp [descend, List.length_set, hp, hj]
  · simp [descend, assocGet_set_same]
  · simp [descend, assocGet_set_same]

/-- C40_put_other: every other slot of the node reads as before (siblings are shared, not copied or changed). -/
theorem C40_put_other {β : Type} (n n' : NodeF β) (op op' : Op) (b : β) (m : Bool)
    (h : setChild n op b = some n') (hne : slot n op' ≠ slot n op) : descend n' op' m = descend n op' m := by
  cases n <;> cases op <;> simp only [setChild] at h <;> try cases h
  · cases op' <;> simp only [descend]
    rw [assocGet_set_other]
    intro e; apply hne; simp [slot, e]
  · rename_i xs i
    cases hp : pyIndex xs.length i with
    | none => rw [hp] at h; cases h
    | some j =>
      rw [hp] at h; simp only [Option.map] at h; injection h with h; subst h
      cases op' <;> simp only [descend]
      rename_i i'
      rw [List.length_set]
      cases hp' : pyIndex xs.length i' with
      | none => rfl
      | some j' =>
        have : j ≠ j' := by
          intro e; apply hne; simp [slot, hp, hp', e]
        simp only [List.getElem?_set_ne this]
  · cases op' <;> simp only [descend]
    · rw [assocGet_set_other]
      intro e; apply hne; simp [slot, e]
    · rw [assocGet_set_other]
      intro e; cases e
  · cases op' <;> simp only [descend]
    · rw [assocGet_set_other]
      intro e; cases e
    · rw [assocGet_set_other]
      intro e; apply hne; simp [slot, e]

/-- C40_put_ctor: the copy has the constructor and class of the original node. -/
theorem C40_put_ctor {β : Type} (n n' : NodeF β) (op : Op) (b : β) (h : setChild n op b = some n') :
    n'.ctor = n.ctor := setChild_ctor n n' op b h

/-! ### the heap never changes below its old size -/

theorem aset_ext (h : Heap) (v : Nat) (c : Bool) : ∀ (ops : List Op) (a : Nat) (h' : Heap) (r' : Nat),
    asetHeap h v c ops a = some (h', r') →
      Ext h h' ∧ r' + 1 = h'.size ∧ h.size ≤ r' ∧ (h'.node r').ctor = (h.node a).ctor := by
  intro ops
  induction ops with
  | nil => intro a h' r' e; simp [asetHeap] at e
  | cons op rest ih =>
    intro a h' r' e
    cases rest with
    | nil =>
      simp only [asetHeap] at e
      cases hs : setChild (h.node a) op v with
      | none => rw [hs] at e; split at e <;> simp at e
      | some n' =>
        rw [hs] at e
        split at e
        · cases e
        · simp only [Option.map] at e
          injection e with e
          have e1 : h' = (h.alloc n').1 := by rw [e]
          have e2 : r' = h.size := (congrArg Prod.snd e).symm
          subst e1 e2
          refine ⟨alloc_ext h n', by rw [alloc_size], Nat.le_refl _, ?_⟩
          rw [alloc_node]; exact setChild_ctor _ _ _ _ hs
    | cons op2 rest' =>
      simp only [asetHeap] at e
      split at e
      · rename_i c0 hd
        split at e
        · rename_i h1 c' hin
          obtain ⟨ex1, _, hsz, _⟩ := ih c0 h1 c' hin
          cases hs : setChild (h.node a) op c' with
          | none => rw [hs] at e; simp at e
          | some n' =>
            rw [hs] at e
            simp only [Option.map] at e
            injection e with e
            have e1 : h' = (h1.alloc n').1 := by rw [e]
            have e2 : r' = h1.size := (congrArg Prod.snd e).symm
            subst e1 e2
            refine ⟨ex1.trans (alloc_ext h1 n'), by rw [alloc_size], ex1.size_le, ?_⟩
            rw [alloc_node]; exact setChild_ctor _ _ _ _ hs
        · cases e
      · cases e

/-- C40_frame: every pre-existing address keeps its node — nothing reachable from the input was written to. -/
theorem C40_frame (h h' : Heap) (v a r' : Nat) (c : Bool) (ops : List Op)
    (e : asetHeap h v c ops a = some (h', r')) : ∀ b, b < h.size → h'.node b = h.node b :=
  fun b hb => (aset_ext h v c ops a h' r' e).1.node b hb

/-- C40_same_type: the result is a fresh address (not the input) with the same constructor and class. -/
theorem C40_same_type (h h' : Heap) (v a r' : Nat) (c : Bool) (ops : List Op)
    (e : asetHeap h v c ops a = some (h', r')) :
    h.size ≤ r' ∧ r' < h'.size ∧ (h'.node r').ctor = (h.node a).ctor := by
  obtain ⟨_, h2, h3, h4⟩ := aset_ext h v c ops a h' r' e
  exact ⟨h3, by omega, h4⟩

/-! ### the result is the pure update -/

theorem deref_alloc (h1 : Heap) (hwf1 : WF h1) (n' : Node) (hk : ∀ k : Nat, k ∈ n'.kids → k < h1.size) :
    deref (h1.alloc n').1 h1.size = .mk (n'.map (deref h1)) := by
  have hwf2 := alloc_wf h1 n' hwf1 hk
  rw [deref_unfold _ hwf2 h1.size (by rw [alloc_size]; omega), alloc_node]
  congr 1
  apply NodeF.map_congr
  intro (k : Nat) hkk
  exact deref_ext' hwf1 (alloc_ext h1 n') k (hk k hkk)

theorem node_deref (h : Heap) (hwf : WF h) (a : Nat) (ha : a < h.size) :
    (deref h a).node = (h.node a).map (deref h) := by
  rw [deref_unfold h hwf a ha]; rfl

theorem aset_spec (h : Heap) (hwf : WF h) (v : Nat) (hv : v < h.size) (c : Bool) :
    ∀ (ops : List Op) (a : Nat), a < h.size →
      (∀ h' r', asetHeap h v c ops a = some (h', r') →
          WF h' ∧ r' < h'.size ∧ updTree (deref h v) c ops (deref h a) = some (deref h' r')) ∧
      (asetHeap h v c ops a = none → updTree (deref h v) c ops (deref h a) = none) := by
  intro ops
  induction ops with
  | nil => intro a _; simp [asetHeap, updTree]
  | cons op rest ih =>
    intro a ha
    have hkid : ∀ k : Nat, k ∈ (h.node a).kids → k < h.size := fun k hk => by
      exact Nat.lt_trans (hwf a ha k hk) ha
    cases rest with
    | nil =>
      simp only [asetHeap, updTree]
      rw [node_deref h hwf a ha, descend_map, setChild_map]
      cases hd : descend (h.node a) op c with
      | err => simp [Res.map]
      | fresh =>
        simp only [Res.map]
        cases hs : setChild (h.node a) op v with
        | none => simp
        | some n' =>
          have hk' : ∀ k : Nat, k ∈ n'.kids → k < h.size := fun k hk => by
            rcases setChild_kids _ _ _ _ hs k hk with h1 | h1
            · exact hkid k h1
            · rw [h1]; exact hv
          refine ⟨?_, by simp⟩
          intro h' r' e
          simp only [Option.map] at e
          injection e with e
          have e1 : h' = (h.alloc n').1 := by rw [e]
          have e2 : r' = h.size := (congrArg Prod.snd e).symm
          subst e1 e2
          refine ⟨alloc_wf h n' hwf hk', by rw [alloc_size]; exact Nat.lt_succ_self _, ?_⟩
          simp only [Option.map]
          rw [deref_alloc h hwf n' hk']
      | child c0 =>
        simp only [Res.map]
        cases hs : setChild (h.node a) op v with
        | none => simp
        | some n' =>
          have hk' : ∀ k : Nat, k ∈ n'.kids → k < h.size := fun k hk => by
            rcases setChild_kids _ _ _ _ hs k hk with h1 | h1
            · exact hkid k h1
            · rw [h1]; exact hv
          refine ⟨?_, by simp⟩
          intro h' r' e
          simp only [Option.map] at e
          injection e with e
          have e1 : h' = (h.alloc n').1 := by rw [e]
          have e2 : r' = h.size := (congrArg Prod.snd e).symm
          subst e1 e2
          refine ⟨alloc_wf h n' hwf hk', by rw [alloc_size]; exact Nat.lt_succ_self _, ?_⟩
          simp only [Option.map]
          rw [deref_alloc h hwf n' hk']
    | cons op2 rest' =>
      simp only [asetHeap, updTree]
      rw [node_deref h hwf a ha, descend_map]
      cases hd : descend (h.node a) op false with
      | err => simp [Res.map]
      | fresh => simp [Res.map]
      | child c0 =>
        simp only [Res.map]
        have hc0 : (c0 : Nat) < h.size := hkid c0 (descend_kid _ _ _ _ hd)
        obtain ⟨ihA, ihB⟩ := ih c0 hc0
        cases hin : asetHeap h v c (op2 :: rest') c0 with
        | none => rw [ihB hin]; simp
        | some p =>
          obtain ⟨h1, c'⟩ := p
          obtain ⟨hwf1, hc', hupd⟩ := ihA h1 c' hin
          have ex1 : Ext h h1 := (aset_ext h v c _ c0 h1 c' hin).1
          rw [hupd]
          simp only
          -- the node of `a`, read through the values of the extended heap
          have hN : (h.node a).map (deref h) = (h.node a).map (deref h1) := by
            apply NodeF.map_congr
            intro (k : Nat) hk
            exact (deref_ext' hwf ex1 k (hkid k hk)).symm
          rw [hN, setChild_map]
          cases hs : setChild (h.node a) op c' with
          | none => simp
          | some n' =>
            have hk' : ∀ k : Nat, k ∈ n'.kids → k < h1.size := fun k hk => by
              rcases setChild_kids _ _ _ _ hs k hk with h2 | h2
              · have := hkid k h2; have := ex1.size_le; omega
              · rw [h2]; exact hc'
            refine ⟨?_, by simp⟩
            intro h' r' e
            simp only [Option.map] at e
            injection e with e
            have e1 : h' = (h1.alloc n').1 := by rw [e]
            have e2 : r' = h1.size := (congrArg Prod.snd e).symm
            subst e1 e2
            refine ⟨alloc_wf h1 n' hwf1 hk', by rw [alloc_size]; exact Nat.lt_succ_self _, ?_⟩
            simp only [Option.map]
            rw [deref_alloc h1 hwf1 n' hk']

/-- C40_result_is_update: the returned object's value is the input's value updated at the path, nothing else. -/
theorem C40_result_is_update (h h' : Heap) (hwf : WF h) (v a r' : Nat) (hv : v < h.size) (ha : a < h.size)
    (c : Bool) (ops : List Op) (e : asetHeap h v c ops a = some (h', r')) :
    updTree (deref h v) c ops (deref h a) = some (deref h' r') :=
  ((aset_spec h hwf v hv c ops a ha).1 h' r' e).2.2

/-- C40_original_unchanged: the value reachable from any old address — in particular from the input object `a`
and from the new value `v` — is the same after the call. -/
theorem C40_original_unchanged (h h' : Heap) (hwf : WF h) (v a r' : Nat) (c : Bool) (ops : List Op)
    (e : asetHeap h v c ops a = some (h', r')) : ∀ b, b < h.size → deref h' b = deref h b :=
  fun b hb => deref_ext' hwf (aset_ext h v c ops a h' r' e).1 b hb

/-- C40_error_iff: `aset` raises exactly when the pure update at that path is undefined. -/
theorem C40_error_iff (h : Heap) (hwf : WF h) (v a : Nat) (hv : v < h.size) (ha : a < h.size)
    (c : Bool) (ops : List Op) :
    asetHeap h v c ops a = none ↔ updTree (deref h v) c ops (deref h a) = none := by
  constructor
  · exact (aset_spec h hwf v hv c ops a ha).2
  · intro hu
    cases hr : asetHeap h v c ops a with
    | none => rfl
    | some p =>
      obtain ⟨h', r'⟩ := p
      have := ((aset_spec h hwf v hv c ops a ha).1 h' r' hr).2.2
      rw [hu] at this; cases this

/-! ### named error cases -/

/-- a missing attribute without `create_new_ok` raises -/
theorem C40_error_missing_attr (h : Heap) (v a : Nat) (cls : Nat) (fs : List (String × Addr)) (nm : String)
    (hn : h.node a = .obj cls fs) (hm : assocGet fs nm = none) : asetHeap h v false [.attr nm] a = none := by
  simp [asetHeap, hn, descend, hm]

/-- … and with `create_new_ok` it is appended, the other attributes keep their addresses -/
theorem C40_create_attr (h : Heap) (v a : Nat) (cls : Nat) (fs : List (String × Addr)) (nm : String)
    (hn : h.node a = .obj cls fs) (hm : assocGet fs nm = none) :
    asetHeap h v true [.attr nm] a = some (h.alloc (.obj cls (assocSet fs nm v))) := by
  simp [asetHeap, hn, descend, hm, setChild]

/-- an index outside `-len ≤ i < len` raises, with or without `create_new_ok` -/
theorem C40_error_bad_index (h : Heap) (v a : Nat) (c : Bool) (xs : List Addr) (i : Int)
    (hn : h.node a = .list xs) (hi : i < -(xs.length : Int) ∨ (xs.length : Int) ≤ i) :
    asetHeap h v c [.idx i] a = none := by
  have : pyIndex xs.length i = none := by
    unfold pyIndex
    rw [if_neg (by omega), if_neg (by omega)]
  simp [asetHeap, hn, descend, this]

/-- a step that is not the last one must reach an existing child, whatever `create_new_ok` says -/
theorem C40_error_inner (h : Heap) (v a : Nat) (c : Bool) (op op2 : Op) (rest : List Op)
    (hd : ∀ c0, descend (h.node a) op false ≠ .child c0) : asetHeap h v c (op :: op2 :: rest) a = none := by
  rw [asetHeap]
  cases hc : descend (h.node a) op false with
  | child c0 => exact absurd hc (hd c0)
  | fresh => rfl
  | err => rfl

/-- a tuple cannot be updated through, although the descent succeeds -/
theorem C40_error_tuple (h : Heap) (v a : Nat) (c : Bool) (xs : List Addr) (i : Int)
    (hn : h.node a = .tuple xs) : asetHeap h v c [.idx i] a = none := by
  simp only [asetHeap, hn, setChild]
  first | done | (split <;> rfl)


/-! ### the path parser: `parse (render ops) = ops` -/

theorem tail_form (ops : List Op) : renderTail ops = [] ∨ ∃ r, renderTail ops = '-' :: '>' :: r := by
  cases ops with
  | nil => left; rfl
  | cons op rest => right; exact ⟨_, rfl⟩

theorem parse_tail : ∀ (ops : List Op) (acc : List Op) (fuel : Nat), ops.all wfOp = true → ops.length < fuel →
    parseLoop fuel false (renderTail ops) acc = some (acc.reverse ++ ops)
  | [], acc, fuel, _, hf => by
    cases fuel with
    | zero => omega
    | succ f => simp [parseLoop, renderTail]
  | op :: rest, acc, fuel, hw, hf => by
    cases fuel with
    | zero => simp at hf
    | succ f =>
      simp only [List.all_cons, Bool.and_eq_true] at hw
      have hne := renderOp_ne_nil op hw.1
      have hempty : (renderOp op ++ renderTail rest).isEmpty = false := by
        cases h : renderOp op with
        | nil => exact absurd h hne
        | cons x xs => rfl
      rw [parseLoop]
      simp only [renderTail, List.cons_append, Bool.not_false, List.isEmpty_cons, Bool.and_false, Bool.false_eq_true, if_false, sep, hempty]
      rw [stepOp_render op hw.1 _ (tail_form rest)]
      simp only
      rw [parse_tail rest (op :: acc) f hw.2 (by simp at hf; omega)]
      simp

theorem renderTail_length (ops : List Op) : ops.length ≤ (renderTail ops).length := by
  induction ops with
  | nil => simp [renderTail]
  | cons op rest ih => simp only [renderTail, List.length_cons, List.length_append]; omega

/-- C40_parse_render: every non-empty list of well-formed operations is read back exactly from its rendering
(`a->b->[0]->['k']`): the parser and the documented syntax agree, for paths of any length. -/
theorem C40_parse_render (ops : List Op) (hne : ops ≠ []) (hw : ops.all wfOp = true) :
    parseChars (renderChars ops) = some ops := by
  cases ops with
  | nil => exact absurd rfl hne
  | cons op rest =>
    simp only [List.all_cons, Bool.and_eq_true] at hw
    have hn := renderOp_ne_nil op hw.1
    have hempty : (renderOp op ++ renderTail rest).isEmpty = false := by
      cases h : renderOp op with
      | nil => exact absurd h hn
      | cons x xs => rfl
    unfold parseChars
    simp only [renderChars, hempty, Bool.false_eq_true, if_false]
    rw [parseLoop]
    simp only [Bool.not_true, Bool.false_and, Bool.false_eq_true, if_false, sep, if_true]
    rw [stepOp_render op hw.1 _ (tail_form rest)]
    simp only
    rw [parse_tail rest [op] _ hw.2 (by
      have := renderTail_length rest
      simp only [List.length_append]; omega)]
    simp

/-- the same on strings, as `TreeClass.aset` receives the path -/
theorem C40_parse_render_string (ops : List Op) (hne : ops ≠ []) (hw : ops.all wfOp = true) :
    parseOps (renderPath ops) = some ops := by
  unfold parseOps renderPath
  rw [String.toList_ofList]
  exact C40_parse_render ops hne hw

/-- C40_render_injective: two different well-formed operation lists never render to the same path. -/
theorem C40_render_injective (ops ops' : List Op) (h1 : ops ≠ []) (h2 : ops' ≠ []) (w1 : ops.all wfOp = true)
    (w2 : ops'.all wfOp = true) (h : renderPath ops = renderPath ops') : ops = ops' := by
  have a := C40_parse_render_string ops h1 w1
  have b := C40_parse_render_string ops' h2 w2
  rw [h, b] at a
  exact (Option.some.inj a).symm

/-! #### the well-formedness predicate is what the parser needs: names outside it are rejected or mis-read
(replayed on the real `_parse_operations` by the harness, stream `not-wf`) -/

example : wfOp (.key "a]b") = false ∧ parseChars (renderChars [.attr "x", .key "a]b"]) = none := by decide
example : wfOp (.key "a[b") = false ∧ parseChars (renderChars [.attr "x", .key "a[b"]) = none := by decide
example : wfOp (.key "it's") = false ∧ parseChars (renderChars [.attr "x", .key "it's"]) = none := by decide
example : wfOp (.attr "a b") = false ∧ parseChars (renderChars [.attr "a b"]) = none := by decide
example : wfOp (.attr "1a") = false ∧ parseChars (renderChars [.attr "1a"]) = none := by decide
/-- an attribute name containing the separator is silently read as two attributes -/
example : wfOp (.attr "a->b") = false ∧ parseChars (renderChars [.attr "a->b"]) = some [.attr "a", .attr "b"] := by decide
/-- keys may contain the separator, blanks, or be empty -/
example : [Op.attr "cfg", .idx (-12), .key "a->b c", .key "", .idx 0].all wfOp = true ∧
    renderPath [.attr "cfg", .idx (-12), .key "a->b c", .key "", .idx 0] = "cfg->[-12]->['a->b c']->['']->[0]" := by decide +kernel

/-! ### non-vacuity: a concrete well-formed heap, a path of length 3 with a negative index, and its result -/

/-- `K(a=[1, {"k": 2}], b=1)` at address 4, a new value at address 5 -/
def h0 : Heap := ⟨[.leaf "1", .leaf "2", .dict [(.s "k", 1)], .list [0, 2], .obj 7 [("a", 3), ("b", 0)], .leaf "9"]⟩

example : WF h0 := by
  intro a ha k hk
  have : a < 6 := ha
  interval_cases a <;> simp [h0, Heap.node, NodeF.kids] at hk <;> omega

example : asetHeap h0 5 false [.attr "a", .idx (-1), .key "k"] 4 =
    some (⟨h0.cells ++ [.dict [(.s "k", 5)], .list [0, 6], .obj 7 [("a", 7), ("b", 0)]]⟩, 8) := by
  decide

example : asetHeap h0 5 false [.attr "a", .idx 2] 4 = none := by decide
example : asetHeap h0 5 false [.attr "zz"] 4 = none := by decide
example : (asetHeap h0 5 true [.attr "zz"] 4).isSome = true := by decide
example : (5 : Nat) < h0.size ∧ (4 : Nat) < h0.size := by decide

end Fdtdx.C40
