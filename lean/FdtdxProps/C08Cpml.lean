/-
C08 — cyclic-relabelling equivariance of the CPML time step (`FdtdxModel/Cpml.lean`: curl_E / curl_H with the PML loop,
psi recursion, `forwardP`, `backwardP`), over ANY scalar type (only the shape of the formulas is used).
-/
import FdtdxModel.C08Cpml
import FdtdxProps.C08

namespace Fdtdx.C08
open Fdtdx Fdtdx.Yee Fdtdx.Cpml
set_option linter.unusedSectionVars false

theorem mem_rot (b : Box) (i j k : Nat) : (rotBox b).mem i j k ↔ b.mem j k i := by
  unfold Box.mem rotBox
  constructor
  · rintro ⟨h1, h2, h3⟩; exact ⟨h2, h3, h1⟩
  · rintro ⟨h1, h2, h3⟩; exact ⟨h3, h1, h2⟩

theorem ite_mem_rot {β : Type} (b : Box) (i j k : Nat) (x y : β) :
    (if (rotBox b).mem i j k then x else y) = if b.mem j k i then x else y := by
  by_cases h : b.mem j k i
  · rw [if_pos h, if_pos ((mem_rot b i j k).2 h)]
  · rw [if_neg h, if_neg (fun h' => h ((mem_rot b i j k).1 h'))]

section
variable {α : Type} [Add α] [Sub α] [Mul α] [Div α] [OfNat α 0] [OfNat α 1] [OfNat α 2]

theorem off_rot (p : Pml α) (ha : p.axis < 3) (i j k : Nat) : (rotP p).off i j k = p.off j k i := by
  obtain ⟨ax, pl, bx, kd, aE, bE, ikE, aH, bH, ikH⟩ := p
  simp only at ha
  have h : ax = 0 ∨ ax = 1 ∨ ax = 2 := by omega
  rcases h with h | h | h <;> subst h <;> simp [rotP, Pml.off, axIdx, Box.lo, rotBox]

theorem stepCpml1_rot (p : Pml α) (c s : Bool) (o : Nat) (d psi : α) :
    stepCpml1 (rotP p) c s o d psi = stepCpml1 p c s o d psi := rfl

theorem dFwd_rot (cf : Cfg α) (a : Nat) (ha : a < 3) (f : F3 α) (i j k : Nat) :
    dFwd (rotC cf) ((a + 1) % 3) (rotF f) i j k = dFwd cf a f j k i := by
  have h : a = 0 ∨ a = 1 ∨ a = 2 := by omega
  rcases h with h | h | h <;> subst h <;> rfl

theorem dBwd_rot (cf : Cfg α) (a : Nat) (ha : a < 3) (f : F3 α) (i j k : Nat) :
    dBwd (rotC cf) ((a + 1) % 3) (rotF f) i j k = dBwd cf a f j k i := by
  have h : a = 0 ∨ a = 1 ∨ a = 2 := by omega
  rcases h with h | h | h <;> subst h <;> rfl

theorem get_rot (V : V3 α) (c : Nat) (hc : c < 3) : V3.get (rotV V) ((c + 1) % 3) = rotF (V3.get V c) := by
  have h : c = 0 ∨ c = 1 ∨ c = 2 := by omega
  rcases h with h | h | h <;> subst h <;> rfl

/-- one iteration of the PML loop of `curl_E`: the relabelled PML acts on component `comp+1` of the relabelled scene at
(i,j,k) exactly as the original PML acts on component `comp` at (j,k,i) -/
theorem applyE_rot (cf : Cfg α) (sim : Bool) (E : V3 α) (comp : Nat) (hc : comp < 3) (i j k : Nat) (acc : α)
    (st : PmlSt α) (ha : st.p.axis < 3) :
    applyE (rotC cf) sim (rotV E) ((comp + 1) % 3) i j k acc (rotSt st) = applyE cf sim E comp j k i acc st := by
  unfold applyE
  have hax : (rotSt st).p.axis = (st.p.axis + 1) % 3 := rfl
  have hbox : (rotSt st).p.box = rotBox st.p.box := rfl
  rw [hbox, ite_mem_rot]
  by_cases hm : st.p.box.mem j k i
  · simp only [hm, if_true, hax]
    have hoff : (rotP st.p).off i j k = st.p.off j k i := off_rot st.p ha i j k
    have hp : (rotSt st).p = rotP st.p := rfl
    have g2 : V3.get (rotV E) (((st.p.axis + 1) % 3 + 2) % 3) = rotF (V3.get E ((st.p.axis + 2) % 3)) := by
      have : ((st.p.axis + 1) % 3 + 2) % 3 = ((st.p.axis + 2) % 3 + 1) % 3 := by omega
      rw [this]; exact get_rot E _ (by omega)
    have g1 : V3.get (rotV E) (((st.p.axis + 1) % 3 + 1) % 3) = rotF (V3.get E ((st.p.axis + 1) % 3)) :=
      get_rot E _ (by omega)
    have c1 : ((comp + 1) % 3 = ((st.p.axis + 1) % 3 + 1) % 3) ↔ (comp = (st.p.axis + 1) % 3) := by omega
    have c2 : ((comp + 1) % 3 = ((st.p.axis + 1) % 3 + 2) % 3) ↔ (comp = (st.p.axis + 2) % 3) := by omega
    simp only [c1, c2, g1, g2, hoff, hp, stepCpml1_rot, dFwd_rot cf st.p.axis ha]
    rfl
  · simp only [hm, if_false]

theorem applyH_rot (cf : Cfg α) (sim : Bool) (H : V3 α) (comp : Nat) (hc : comp < 3) (i j k : Nat) (acc : α)
    (st : PmlSt α) (ha : st.p.axis < 3) :
    applyH (rotC cf) sim (rotV H) ((comp + 1) % 3) i j k acc (rotSt st) = applyH cf sim H comp j k i acc st := by
  unfold applyH
  have hax : (rotSt st).p.axis = (st.p.axis + 1) % 3 := rfl
  have hbox : (rotSt st).p.box = rotBox st.p.box := rfl
  rw [hbox, ite_mem_rot]
  by_cases hm : st.p.box.mem j k i
  · simp only [hm, if_true, hax]
    have hoff : (rotP st.p).off i j k = st.p.off j k i := off_rot st.p ha i j k
    have hp : (rotSt st).p = rotP st.p := rfl
    have g2 : V3.get (rotV H) (((st.p.axis + 1) % 3 + 2) % 3) = rotF (V3.get H ((st.p.axis + 2) % 3)) := by
      have : ((st.p.axis + 1) % 3 + 2) % 3 = ((st.p.axis + 2) % 3 + 1) % 3 := by omega
      rw [this]; exact get_rot H _ (by omega)
    have g1 : V3.get (rotV H) (((st.p.axis + 1) % 3 + 1) % 3) = rotF (V3.get H ((st.p.axis + 1) % 3)) :=
      get_rot H _ (by omega)
    have c1 : ((comp + 1) % 3 = ((st.p.axis + 1) % 3 + 1) % 3) ↔ (comp = (st.p.axis + 1) % 3) := by omega
    have c2 : ((comp + 1) % 3 = ((st.p.axis + 1) % 3 + 2) % 3) ↔ (comp = (st.p.axis + 2) % 3) := by omega
    simp only [c1, c2, g1, g2, hoff, hp, stepCpml1_rot, dBwd_rot cf st.p.axis ha]
    rfl
  · simp only [hm, if_false]

/-- every PML of the list has a valid axis (0, 1, 2) — what `PerfectlyMatchedLayer.axis` is validated to be -/
def AxesOK (pmls : List (PmlSt α)) : Prop := ∀ st ∈ pmls, st.p.axis < 3

theorem foldl_applyE_rot (cf : Cfg α) (sim : Bool) (E : V3 α) (comp : Nat) (hc : comp < 3) (i j k : Nat)
    (pmls : List (PmlSt α)) (hok : AxesOK pmls) (acc : α) :
    (pmls.map rotSt).foldl (applyE (rotC cf) sim (rotV E) ((comp + 1) % 3) i j k) acc
      = pmls.foldl (applyE cf sim E comp j k i) acc := by
  induction pmls generalizing acc with
  | nil => rfl
  | cons st rest ih =>
    simp only [List.map_cons, List.foldl_cons]
    rw [applyE_rot cf sim E comp hc i j k acc st (hok st (List.mem_cons_self ..))]
    exact ih (fun s hs => hok s (List.mem_cons_of_mem _ hs)) _

theorem foldl_applyH_rot (cf : Cfg α) (sim : Bool) (H : V3 α) (comp : Nat) (hc : comp < 3) (i j k : Nat)
    (pmls : List (PmlSt α)) (hok : AxesOK pmls) (acc : α) :
    (pmls.map rotSt).foldl (applyH (rotC cf) sim (rotV H) ((comp + 1) % 3) i j k) acc
      = pmls.foldl (applyH cf sim H comp j k i) acc := by
  induction pmls generalizing acc with
  | nil => rfl
  | cons st rest ih =>
    simp only [List.map_cons, List.foldl_cons]
    rw [applyH_rot cf sim H comp hc i j k acc st (hok st (List.mem_cons_self ..))]
    exact ih (fun s hs => hok s (List.mem_cons_of_mem _ hs)) _

/-- **C08_curlEp_equivariant**: `curl_E` with its CPML loop (per-axis derivative mapping, signs, psi) commutes with the
relabelling -/
theorem C08_curlEp_equivariant (cf : Cfg α) (sim : Bool) (pmls : List (PmlSt α)) (hok : AxesOK pmls) (E : V3 α) :
    curlEp (rotC cf) sim (pmls.map rotSt) (rotV E) = rotV (curlEp cf sim pmls E) := by
  unfold curlEp
  simp only [C08_curlE_equivariant]
  simp only [rotV, rotF]
  congr 1 <;> funext i j k
  · exact foldl_applyE_rot cf sim E 2 (by omega) i j k pmls hok _
  · exact foldl_applyE_rot cf sim E 0 (by omega) i j k pmls hok _
  · exact foldl_applyE_rot cf sim E 1 (by omega) i j k pmls hok _

/-- **C08_curlHp_equivariant** -/
theorem C08_curlHp_equivariant (cf : Cfg α) (sim : Bool) (pmls : List (PmlSt α)) (hok : AxesOK pmls) (H : V3 α) :
    curlHp (rotC cf) sim (pmls.map rotSt) (rotV H) = rotV (curlHp cf sim pmls H) := by
  unfold curlHp
  simp only [C08_curlH_equivariant]
  simp only [rotV, rotF]
  congr 1 <;> funext i j k
  · exact foldl_applyH_rot cf sim H 2 (by omega) i j k pmls hok _
  · exact foldl_applyH_rot cf sim H 0 (by omega) i j k pmls hok _
  · exact foldl_applyH_rot cf sim H 1 (by omega) i j k pmls hok _

theorem PmlSt.ext' (a b : PmlSt α) (hp : a.p = b.p) (h1 : a.e1 = b.e1) (h2 : a.e2 = b.e2) (h3 : a.h1 = b.h1)
    (h4 : a.h2 = b.h2) : a = b := by
  cases a; cases b; simp only at hp h1 h2 h3 h4; subst hp h1 h2 h3 h4; rfl

theorem updPsiH_rot (cf : Cfg α) (sim : Bool) (E : V3 α) (st : PmlSt α) (ha : st.p.axis < 3) :
    updPsiH (rotC cf) sim (rotV E) (rotSt st) = rotSt (updPsiH cf sim E st) := by
  have hoff : ∀ i j k, (rotP st.p).off i j k = st.p.off j k i := off_rot st.p ha
  have g2 : V3.get (rotV E) (((st.p.axis + 1) % 3 + 2) % 3) = rotF (V3.get E ((st.p.axis + 2) % 3)) := by
    have : ((st.p.axis + 1) % 3 + 2) % 3 = ((st.p.axis + 2) % 3 + 1) % 3 := by omega
    rw [this]; exact get_rot E _ (by omega)
  have g1 : V3.get (rotV E) (((st.p.axis + 1) % 3 + 1) % 3) = rotF (V3.get E ((st.p.axis + 1) % 3)) :=
    get_rot E _ (by omega)
  apply PmlSt.ext'
  · rfl
  · rfl
  · rfl
  · funext i j k
    show (if (rotBox st.p.box).mem i j k then _ else _) = _
    rw [ite_mem_rot]
    show (if st.p.box.mem j k i then
        (stepCpml1 (rotP st.p) true sim ((rotP st.p).off i j k)
          (dFwd (rotC cf) ((st.p.axis + 1) % 3) (V3.get (rotV E) (((st.p.axis + 1) % 3 + 2) % 3)) i j k) (st.h1 j k i)).2
      else st.h1 j k i) = _
    rw [g2, hoff, stepCpml1_rot, dFwd_rot cf st.p.axis ha]
    rfl
  · funext i j k
    show (if (rotBox st.p.box).mem i j k then _ else _) = _
    rw [ite_mem_rot]
    show (if st.p.box.mem j k i then
        (stepCpml1 (rotP st.p) true sim ((rotP st.p).off i j k)
          (dFwd (rotC cf) ((st.p.axis + 1) % 3) (V3.get (rotV E) (((st.p.axis + 1) % 3 + 1) % 3)) i j k) (st.h2 j k i)).2
      else st.h2 j k i) = _
    rw [g1, hoff, stepCpml1_rot, dFwd_rot cf st.p.axis ha]
    rfl

theorem updPsiE_rot (cf : Cfg α) (sim : Bool) (H : V3 α) (st : PmlSt α) (ha : st.p.axis < 3) :
    updPsiE (rotC cf) sim (rotV H) (rotSt st) = rotSt (updPsiE cf sim H st) := by
  have hoff : ∀ i j k, (rotP st.p).off i j k = st.p.off j k i := off_rot st.p ha
  have g2 : V3.get (rotV H) (((st.p.axis + 1) % 3 + 2) % 3) = rotF (V3.get H ((st.p.axis + 2) % 3)) := by
    have : ((st.p.axis + 1) % 3 + 2) % 3 = ((st.p.axis + 2) % 3 + 1) % 3 := by omega
    rw [this]; exact get_rot H _ (by omega)
  have g1 : V3.get (rotV H) (((st.p.axis + 1) % 3 + 1) % 3) = rotF (V3.get H ((st.p.axis + 1) % 3)) :=
    get_rot H _ (by omega)
  apply PmlSt.ext'
  · rfl
  · funext i j k
    show (if (rotBox st.p.box).mem i j k then _ else _) = _
    rw [ite_mem_rot]
    show (if st.p.box.mem j k i then
        (stepCpml1 (rotP st.p) false sim ((rotP st.p).off i j k)
          (dBwd (rotC cf) ((st.p.axis + 1) % 3) (V3.get (rotV H) (((st.p.axis + 1) % 3 + 2) % 3)) i j k) (st.e1 j k i)).2
      else st.e1 j k i) = _
    rw [g2, hoff, stepCpml1_rot, dBwd_rot cf st.p.axis ha]
    rfl
  · funext i j k
    show (if (rotBox st.p.box).mem i j k then _ else _) = _
    rw [ite_mem_rot]
    show (if st.p.box.mem j k i then
        (stepCpml1 (rotP st.p) false sim ((rotP st.p).off i j k)
          (dBwd (rotC cf) ((st.p.axis + 1) % 3) (V3.get (rotV H) (((st.p.axis + 1) % 3 + 1) % 3)) i j k) (st.e2 j k i)).2
      else st.e2 j k i) = _
    rw [g1, hoff, stepCpml1_rot, dBwd_rot cf st.p.axis ha]
    rfl
  · rfl
  · rfl

end
end Fdtdx.C08
