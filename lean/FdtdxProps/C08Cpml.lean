/-
C08 — cyclic-relabelling equivariance of the CPML time step (`FdtdxModel/Cpml.lean`: curl_E / curl_H with the PML loop,
psi recursion, `forwardP`, `backwardP`), over ANY scalar type (only the shape of the formulas is used).
-/
import FdtdxProps.C08

namespace Fdtdx.C08
open Fdtdx Fdtdx.Yee Fdtdx.Cpml
set_option linter.unusedSectionVars false

theorem mem_rot (b : Box) (i j k : Nat) : (rotBox b).mem i j k ↔ b.mem j k i := by
  unfold Box.mem rotBox
  constructor
  · rintro ⟨h1, h2, h3⟩; exact ⟨h2, h3, h1⟩
  · rintro ⟨h1, h2, h3⟩; exact ⟨h3, h1, h2⟩

theorem ite_mem_rot {β : Type} (b : Box) (i j k : Nat) (x y : β) :
    (if (rotBox b).mem i j k then x else y) = if b.mem j k i then x else y := by
  by_cases h : b.mem j k i
  · rw [if_pos h, if_pos ((mem_rot b i j k).2 h)]
  · rw [if_neg h, if_neg (fun h' => h ((mem_rot b i j k).1 h'))]

section
variable {α : Type} [Add α] [Sub α] [Mul α] [Div α] [OfNat α 0] [OfNat α 1] [OfNat α 2]

theorem off_rot (p : Pml α) (ha : p.axis < 3) (i j k : Nat) : (rotP p).off i j k = p.off j k i := by
  obtain ⟨ax, pl, bx, kd, aE, bE, ikE, aH, bH, ikH⟩ := p
  simp only at ha
  have h : ax = 0 ∨ ax = 1 ∨ ax = 2 := by omega
  rcases h with h | h | h <;> subst h <;> simp [rotP, Pml.off, axIdx, Box.lo, rotBox]

theorem stepCpml1_rot (p : Pml α) (c s : Bool) (o : Nat) (d psi : α) :
    stepCpml1 (rotP p) c s o d psi = stepCpml1 p c s o d psi := rfl

theorem dFwd_rot (cf : Cfg α) (a : Nat) (ha : a < 3) (f : F3 α) (i j k : Nat) :
    dFwd (rotC cf) ((a + 1) % 3) (rotF f) i j k = dFwd cf a f j k i := by
  have h : a = 0 ∨ a = 1 ∨ a = 2 := by omega
  rcases h with h | h | h <;> subst h <;> rfl

theorem dBwd_rot (cf : Cfg α) (a : Nat) (ha : a < 3) (f : F3 α) (i j k : Nat) :
    dBwd (rotC cf) ((a + 1) % 3) (rotF f) i j k = dBwd cf a f j k i := by
  have h : a = 0 ∨ a = 1 ∨ a = 2 := by omega
  rcases h with h | h | h <;> subst h <;> rfl

theorem get_rot (V : V3 α) (c : Nat) (hc : c < 3) : V3.get (rotV V) ((c + 1) % 3) = rotF (V3.get V c) := by
  have h : c = 0 ∨ c = 1 ∨ c = 2 := by omega
  rcases h with h | h | h <;> subst h <;> rfl

/-- one iteration of the PML loop of `curl_E`: the relabelled PML acts on component `comp+1` of the relabelled scene at
(i,j,k) exactly as the original PML acts on component `comp` at (j,k,i) -/
theorem applyE_rot (cf : Cfg α) (sim : Bool) (E : V3 α) (comp : Nat) (hc : comp < 3) (i j k : Nat) (acc : α)
    (st : PmlSt α) (ha : st.p.axis < 3) :
    applyE (rotC cf) sim (rotV E) ((comp + 1) % 3) i j k acc (rotSt st) = applyE cf sim E comp j k i acc st := by
  unfold applyE
  have hax : (rotSt st).p.axis = (st.p.axis + 1) % 3 := rfl
  have hbox : (rotSt st).p.box = rotBox st.p.box := rfl
  rw [hbox, ite_mem_rot]
  by_cases hm : st.p.box.mem j k i
  · simp only [hm, if_true, hax]
    have hoff : (rotP st.p).off i j k = st.p.off j k i := off_rot st.p ha i j k
    have hp : (rotSt st).p = rotP st.p := rfl
    have g2 : V3.get (rotV E) (((st.p.axis + 1) % 3 + 2) % 3) = rotF (V3.get E ((st.p.axis + 2) % 3)) := by
      have : ((st.p.axis + 1) % 3 + 2) % 3 = ((st.p.axis + 2) % 3 + 1) % 3 := by omega
      rw [this]; exact get_rot E _ (by omega)
    have g1 : V3.get (rotV E) (((st.p.axis + 1) % 3 + 1) % 3) = rotF (V3.get E ((st.p.axis + 1) % 3)) :=
      get_rot E _ (by omega)
    have c1 : ((comp + 1) % 3 = ((st.p.axis + 1) % 3 + 1) % 3) ↔ (comp = (st.p.axis + 1) % 3) := by omega
    have c2 : ((comp + 1) % 3 = ((st.p.axis + 1) % 3 + 2) % 3) ↔ (comp = (st.p.axis + 2) % 3) := by omega
    simp only [c1, c2, g1, g2, hoff, hp, stepCpml1_rot, dFwd_rot cf st.p.axis ha]
    rfl
  · simp only [hm, if_false]

theorem applyH_rot (cf : Cfg α) (sim : Bool) (H : V3 α) (comp : Nat) (hc : comp < 3) (i j k : Nat) (acc : α)
    (st : PmlSt α) (ha : st.p.axis < 3) :
    applyH (rotC cf) sim (rotV H) ((comp + 1) % 3) i j k acc (rotSt st) = applyH cf sim H comp j k i acc st := by
  unfold applyH
  have hax : (rotSt st).p.axis = (st.p.axis + 1) % 3 := rfl
  have hbox : (rotSt st).p.box = rotBox st.p.box := rfl
  rw [hbox, ite_mem_rot]
  by_cases hm : st.p.box.mem j k i
  · simp only [hm, if_true, hax]
    have hoff : (rotP st.p).off i j k = st.p.off j k i := off_rot st.p ha i j k
    have hp : (rotSt st).p = rotP st.p := rfl
    have g2 : V3.get (rotV H) (((st.p.axis + 1) % 3 + 2) % 3) = rotF (V3.get H ((st.p.axis + 2) % 3)) := by
      have : ((st.p.axis + 1) % 3 + 2) % 3 = ((st.p.axis + 2) % 3 + 1) % 3 := by omega
      rw [this]; exact get_rot H _ (by omega)
    have g1 : V3.get (rotV H) (((st.p.axis + 1) % 3 + 1) % 3) = rotF (V3.get H ((st.p.axis + 1) % 3)) :=
      get_rot H _ (by omega)
    have c1 : ((comp + 1) % 3 = ((st.p.axis + 1) % 3 + 1) % 3) ↔ (comp = (st.p.axis + 1) % 3) := by omega
    have c2 : ((comp + 1) % 3 = ((st.p.axis + 1) % 3 + 2) % 3) ↔ (comp = (st.p.axis + 2) % 3) := by omega
    simp only [c1, c2, g1, g2, hoff, hp, stepCpml1_rot, dBwd_rot cf st.p.axis ha]
    rfl
  · simp only [hm, if_false]

/-- every PML of the list has a valid axis (0, 1, 2) — what `PerfectlyMatchedLayer.axis` is validated to be -/
def AxesOK (pmls : List (PmlSt α)) : Prop := ∀ st ∈ pmls, st.p.axis < 3

theorem foldl_applyE_rot (cf : Cfg α) (sim : Bool) (E : V3 α) (comp : Nat) (hc : comp < 3) (i j k : Nat)
    (pmls : List (PmlSt α)) (hok : AxesOK pmls) (acc : α) :
    (pmls.map rotSt).foldl (applyE (rotC cf) sim (rotV E) ((comp + 1) % 3) i j k) acc
      = pmls.foldl (applyE cf sim E comp j k i) acc := by
  induction pmls generalizing acc with
  | nil => rfl
  | cons st rest ih =>
    simp only [List.map_cons, List.foldl_cons]
    rw [applyE_rot cf sim E comp hc i j k acc st (hok st (List.mem_cons_self ..))]
    exact ih (fun s hs => hok s (List.mem_cons_of_mem _ hs)) _

theorem foldl_applyH_rot (cf : Cfg α) (sim : Bool) (H : V3 α) (comp : Nat) (hc : comp < 3) (i j k : Nat)
    (pmls : List (PmlSt α)) (hok : AxesOK pmls) (acc : α) :
    (pmls.map rotSt).foldl (applyH (rotC cf) sim (rotV H) ((comp + 1) % 3) i j k) acc
      = pmls.foldl (applyH cf sim H comp j k i) acc := by
  induction pmls generalizing acc with
  | nil => rfl
  | cons st rest ih =>
    simp only [List.map_cons, List.foldl_cons]
    rw [applyH_rot cf sim H comp hc i j k acc st (hok st (List.mem_cons_self ..))]
    exact ih (fun s hs => hok s (List.mem_cons_of_mem _ hs)) _

/-- **C08_curlEp_equivariant**: `curl_E` with its CPML loop (per-axis derivative mapping, signs, psi) commutes with the
relabelling -/
theorem C08_curlEp_equivariant (cf : Cfg α) (sim : Bool) (pmls : List (PmlSt α)) (hok : AxesOK pmls) (E : V3 α) :
    curlEp (rotC cf) sim (pmls.map rotSt) (rotV E) = rotV (curlEp cf sim pmls E) := by
  unfold curlEp
  simp only [C08_curlE_equivariant]
  simp only [rotV, rotF]
  congr 1 <;> funext i j k
  · exact foldl_applyE_rot cf sim E 2 (by omega) i j k pmls hok _
  · exact foldl_applyE_rot cf sim E 0 (by omega) i j k pmls hok _
  · exact foldl_applyE_rot cf sim E 1 (by omega) i j k pmls hok _

/-- **C08_curlHp_equivariant** -/
theorem C08_curlHp_equivariant (cf : Cfg α) (sim : Bool) (pmls : List (PmlSt α)) (hok : AxesOK pmls) (H : V3 α) :
    curlHp (rotC cf) sim (pmls.map rotSt) (rotV H) = rotV (curlHp cf sim pmls H) := by
  unfold curlHp
  simp only [C08_curlH_equivariant]
  simp only [rotV, rotF]
  congr 1 <;> funext i j k
  · exact foldl_applyH_rot cf sim H 2 (by omega) i j k pmls hok _
  · exact foldl_applyH_rot cf sim H 0 (by omega) i j k pmls hok _
  · exact foldl_applyH_rot cf sim H 1 (by omega) i j k pmls hok _

theorem PmlSt.ext' (a b : PmlSt α) (hp : a.p = b.p) (h1 : a.e1 = b.e1) (h2 : a.e2 = b.e2) (h3 : a.h1 = b.h1)
    (h4 : a.h2 = b.h2) : a = b := by
  cases a; cases b; simp only at hp h1 h2 h3 h4; subst hp h1 h2 h3 h4; rfl

theorem updPsiH_rot (cf : Cfg α) (sim : Bool) (E : V3 α) (st : PmlSt α) (ha : st.p.axis < 3) :
    updPsiH (rotC cf) sim (rotV E) (rotSt st) = rotSt (updPsiH cf sim E st) := by
  have hoff : ∀ i j k, (rotP st.p).off i j k = st.p.off j k i := off_rot st.p ha
  have g2 : V3.get (rotV E) (((st.p.axis + 1) % 3 + 2) % 3) = rotF (V3.get E ((st.p.axis + 2) % 3)) := by
    have : ((st.p.axis + 1) % 3 + 2) % 3 = ((st.p.axis + 2) % 3 + 1) % 3 := by omega
    rw [this]; exact get_rot E _ (by omega)
  have g1 : V3.get (rotV E) (((st.p.axis + 1) % 3 + 1) % 3) = rotF (V3.get E ((st.p.axis + 1) % 3)) :=
    get_rot E _ (by omega)
  apply PmlSt.ext'
  · rfl
  · rfl
  · rfl
  · funext i j k
    show (if (rotBox st.p.box).mem i j k then _ else _) = _
    rw [ite_mem_rot]
    show (if st.p.box.mem j k i then
        (stepCpml1 (rotP st.p) true sim ((rotP st.p).off i j k)
          (dFwd (rotC cf) ((st.p.axis + 1) % 3) (V3.get (rotV E) (((st.p.axis + 1) % 3 + 2) % 3)) i j k) (st.h1 j k i)).2
      else st.h1 j k i) = _
    rw [g2, hoff, stepCpml1_rot, dFwd_rot cf st.p.axis ha]
    rfl
  · funext i j k
    show (if (rotBox st.p.box).mem i j k then _ else _) = _
    rw [ite_mem_rot]
    show (if st.p.box.mem j k i then
        (stepCpml1 (rotP st.p) true sim ((rotP st.p).off i j k)
          (dFwd (rotC cf) ((st.p.axis + 1) % 3) (V3.get (rotV E) (((st.p.axis + 1) % 3 + 1) % 3)) i j k) (st.h2 j k i)).2
      else st.h2 j k i) = _
    rw [g1, hoff, stepCpml1_rot, dFwd_rot cf st.p.axis ha]
    rfl

theorem updPsiE_rot (cf : Cfg α) (sim : Bool) (H : V3 α) (st : PmlSt α) (ha : st.p.axis < 3) :
    updPsiE (rotC cf) sim (rotV H) (rotSt st) = rotSt (updPsiE cf sim H st) := by
  have hoff : ∀ i j k, (rotP st.p).off i j k = st.p.off j k i := off_rot st.p ha
  have g2 : V3.get (rotV H) (((st.p.axis + 1) % 3 + 2) % 3) = rotF (V3.get H ((st.p.axis + 2) % 3)) := by
    have : ((st.p.axis + 1) % 3 + 2) % 3 = ((st.p.axis + 2) % 3 + 1) % 3 := by omega
    rw [this]; exact get_rot H _ (by omega)
  have g1 : V3.get (rotV H) (((st.p.axis + 1) % 3 + 1) % 3) = rotF (V3.get H ((st.p.axis + 1) % 3)) :=
    get_rot H _ (by omega)
  apply PmlSt.ext'
  · rfl
  · funext i j k
    show (if (rotBox st.p.box).mem i j k then _ else _) = _
    rw [ite_mem_rot]
    show (if st.p.box.mem j k i then
        (stepCpml1 (rotP st.p) false sim ((rotP st.p).off i j k)
          (dBwd (rotC cf) ((st.p.axis + 1) % 3) (V3.get (rotV H) (((st.p.axis + 1) % 3 + 2) % 3)) i j k) (st.e1 j k i)).2
      else st.e1 j k i) = _
    rw [g2, hoff, stepCpml1_rot, dBwd_rot cf st.p.axis ha]
    rfl
  · funext i j k
    show (if (rotBox st.p.box).mem i j k then _ else _) = _
    rw [ite_mem_rot]
    show (if st.p.box.mem j k i then
        (stepCpml1 (rotP st.p) false sim ((rotP st.p).off i j k)
          (dBwd (rotC cf) ((st.p.axis + 1) % 3) (V3.get (rotV H) (((st.p.axis + 1) % 3 + 1) % 3)) i j k) (st.e2 j k i)).2
      else st.e2 j k i) = _
    rw [g1, hoff, stepCpml1_rot, dBwd_rot cf st.p.axis ha]
    rfl
  · rfl
  · rfl

theorem updEwith_rot (cf : Cfg α) (m : Mat α) (jE cu E : V3 α) :
    updEwith (rotC cf) (rotM m) (rotV jE) (rotV cu) (rotV E) = rotV (updEwith cf m jE cu E) := by
  obtain ⟨ie, im, sE, sH⟩ := m
  unfold updEwith
  rw [← (C08_walls_equivariant cf _).1]
  congr 1
  simp only [addV, rotV, rotF, rotM, rotC]
  congr 1
  all_goals (cases sE <;> rfl)

theorem updHwith_rot (cf : Cfg α) (m : Mat α) (jH cu H : V3 α) :
    updHwith (rotC cf) (rotM m) (rotV jH) (rotV cu) (rotV H) = rotV (updHwith cf m jH cu H) := by
  obtain ⟨ie, im, sE, sH⟩ := m
  unfold updHwith
  rw [← (C08_walls_equivariant cf _).2]
  congr 1
  simp only [addV, rotV, rotF, rotM, rotC]
  congr 1
  all_goals (cases sH <;> rfl)

theorem revHwith_rot (cf : Cfg α) (m : Mat α) (jH cu H : V3 α) :
    revHwith (rotC cf) (rotM m) (rotV jH) (rotV cu) (rotV H) = rotV (revHwith cf m jH cu H) := by
  obtain ⟨ie, im, sE, sH⟩ := m
  unfold revHwith
  rw [← (C08_walls_equivariant cf _).2]
  congr 1
  simp only [subV, rotV, rotF, rotM, rotC]
  congr 1
  all_goals (cases sH <;> rfl)

theorem revEwith_rot (cf : Cfg α) (m : Mat α) (jE cu E : V3 α) :
    revEwith (rotC cf) (rotM m) (rotV jE) (rotV cu) (rotV E) = rotV (revEwith cf m jE cu E) := by
  obtain ⟨ie, im, sE, sH⟩ := m
  unfold revEwith
  rw [← (C08_walls_equivariant cf _).1]
  congr 1
  simp only [subV, rotV, rotF, rotM, rotC]
  congr 1
  all_goals (cases sE <;> rfl)

theorem map_updPsiE_rot (cf : Cfg α) (sim : Bool) (H : V3 α) (pmls : List (PmlSt α)) (hok : AxesOK pmls) :
    (pmls.map rotSt).map (updPsiE (rotC cf) sim (rotV H)) = (pmls.map (updPsiE cf sim H)).map rotSt := by
  induction pmls with
  | nil => rfl
  | cons st rest ih =>
    simp only [List.map_cons]
    rw [updPsiE_rot cf sim H st (hok st (List.mem_cons_self ..)), ih (fun s hs => hok s (List.mem_cons_of_mem _ hs))]

theorem map_updPsiH_rot (cf : Cfg α) (sim : Bool) (E : V3 α) (pmls : List (PmlSt α)) (hok : AxesOK pmls) :
    (pmls.map rotSt).map (updPsiH (rotC cf) sim (rotV E)) = (pmls.map (updPsiH cf sim E)).map rotSt := by
  induction pmls with
  | nil => rfl
  | cons st rest ih =>
    simp only [List.map_cons]
    rw [updPsiH_rot cf sim E st (hok st (List.mem_cons_self ..)), ih (fun s hs => hok s (List.mem_cons_of_mem _ hs))]

/-- the psi updates do not touch the static PML data, so valid axes stay valid -/
theorem AxesOK_updPsiE (cf : Cfg α) (sim : Bool) (H : V3 α) (pmls : List (PmlSt α)) (hok : AxesOK pmls) :
    AxesOK (pmls.map (updPsiE cf sim H)) := by
  intro st hst
  obtain ⟨s0, hs0, rfl⟩ := List.mem_map.1 hst
  exact hok s0 hs0

theorem AxesOK_updPsiH (cf : Cfg α) (sim : Bool) (E : V3 α) (pmls : List (PmlSt α)) (hok : AxesOK pmls) :
    AxesOK (pmls.map (updPsiH cf sim E)) := by
  intro st hst
  obtain ⟨s0, hs0, rfl⟩ := List.mem_map.1 hst
  exact hok s0 hs0

/-- relabelling of a full CPML state (E, H, PML list with psi arrays) -/
def rotPS (s : V3 α × V3 α × List (PmlSt α)) : V3 α × V3 α × List (PmlSt α) :=
  (rotV s.1, rotV s.2.1, s.2.2.map rotSt)

/-- **C08_cpml_step_equivariant**: one forward step WITH CPML layers (curl_H with psi_E, material update, curl_E of the new
E with psi_H, psi recursions of every PML) of the relabelled scene — shape, halos, walls, metric, materials, sources,
fields, and every PML's axis, box, coefficient profiles and psi arrays relabelled — is the relabelled step. -/
theorem C08_cpml_step_equivariant (cf : Cfg α) (m : Mat α) (jE jH : V3 α) (sim : Bool) (pmls : List (PmlSt α))
    (hok : AxesOK pmls) (E H : V3 α) :
    forwardP (rotC cf) (rotM m) (rotV jE) (rotV jH) sim (pmls.map rotSt) (rotV E) (rotV H)
      = rotPS (forwardP cf m jE jH sim pmls E H) := by
  unfold forwardP rotPS
  simp only []
  have h1 := C08_curlHp_equivariant cf sim pmls hok H
  have hok1 := AxesOK_updPsiE cf sim H pmls hok
  rw [h1, updEwith_rot, map_updPsiE_rot cf sim H pmls hok,
    C08_curlEp_equivariant cf sim _ hok1, updHwith_rot, map_updPsiH_rot cf sim _ _ hok1]

/-- a forward step keeps the PML axes valid -/
theorem AxesOK_forwardP (cf : Cfg α) (m : Mat α) (jE jH : V3 α) (sim : Bool) (pmls : List (PmlSt α))
    (hok : AxesOK pmls) (E H : V3 α) : AxesOK (forwardP cf m jE jH sim pmls E H).2.2 :=
  AxesOK_updPsiH cf sim _ _ (AxesOK_updPsiE cf sim H pmls hok)

/-- n forward steps with CPML, step-indexed source terms -/
def fwdPN (cf : Cfg α) (m : Mat α) (jE jH : Nat → V3 α) (sim : Bool) (t : Nat) :
    Nat → V3 α × V3 α × List (PmlSt α) → V3 α × V3 α × List (PmlSt α)
  | 0, s => s
  | n + 1, s =>
    let s' := fwdPN cf m jE jH sim t n s
    forwardP cf m (jE (t + n)) (jH (t + n)) sim s'.2.2 s'.1 s'.2.1

theorem AxesOK_fwdPN (cf : Cfg α) (m : Mat α) (jE jH : Nat → V3 α) (sim : Bool) (t n : Nat)
    (s : V3 α × V3 α × List (PmlSt α)) (hok : AxesOK s.2.2) : AxesOK (fwdPN cf m jE jH sim t n s).2.2 := by
  induction n with
  | zero => exact hok
  | succ n ih => exact AxesOK_forwardP cf m _ _ sim _ ih _ _

/-- **C08_cpml_steps_equivariant**: runs of any length with CPML layers commute with the relabelling. -/
theorem C08_cpml_steps_equivariant (cf : Cfg α) (m : Mat α) (jE jH : Nat → V3 α) (sim : Bool) (t n : Nat)
    (s : V3 α × V3 α × List (PmlSt α)) (hok : AxesOK s.2.2) :
    fwdPN (rotC cf) (rotM m) (fun u => rotV (jE u)) (fun u => rotV (jH u)) sim t n (rotPS s)
      = rotPS (fwdPN cf m jE jH sim t n s) := by
  induction n with
  | zero => rfl
  | succ n ih =>
    simp only [fwdPN, ih]
    exact C08_cpml_step_equivariant cf m _ _ sim _ (AxesOK_fwdPN cf m jE jH sim t n s hok) _ _

/-! ### backward step with CPML: interface restore, frozen psi, field reset -/

theorem ifaceBox_rot (b : Box) (a : Nat) (ha : a < 3) (plus : Bool) :
    ifaceBox (rotBox b) ((a + 1) % 3) plus = rotBox (ifaceBox b a plus) := by
  have h : a = 0 ∨ a = 1 ∨ a = 2 := by omega
  rcases h with h | h | h <;> subst h <;> cases plus <;> simp [ifaceBox, rotBox]

def PAxesOK (ps : List (Pml α)) : Prop := ∀ q ∈ ps, q.axis < 3

theorem onIface_rot (ps : List (Pml α)) (hok : PAxesOK ps) (i j k : Nat) :
    onIface (ps.map rotP) i j k = onIface ps j k i := by
  induction ps with
  | nil => rfl
  | cons q rest ih =>
    have hq := hok q (List.mem_cons_self ..)
    have hr : PAxesOK rest := fun s hs => hok s (List.mem_cons_of_mem _ hs)
    simp only [onIface, List.map_cons, List.any_cons] at ih ⊢
    rw [ih hr]
    congr 1
    have : ifaceBox (rotP q).box (rotP q).axis (rotP q).plus = rotBox (ifaceBox q.box q.axis q.plus) :=
      ifaceBox_rot q.box q.axis hq q.plus
    rw [this]
    exact decide_eq_decide.2 (mem_rot _ i j k)

theorem inPml_rot (ps : List (Pml α)) (i j k : Nat) : inPml (ps.map rotP) i j k = inPml ps j k i := by
  induction ps with
  | nil => rfl
  | cons q rest ih =>
    simp only [inPml, List.map_cons, List.any_cons] at ih ⊢
    rw [ih]
    congr 1
    exact decide_eq_decide.2 (mem_rot q.box i j k)

theorem selV_rot (c c' : Nat → Nat → Nat → Bool) (hc : ∀ i j k, c' i j k = c j k i) (A B : V3 α) :
    selV c' (rotV A) (rotV B) = rotV (selV c A B) := by
  simp only [selV, rotV, rotF, hc]
  rfl

theorem restore_rot (ps : List (Pml α)) (hok : PAxesOK ps) (R F : V3 α) :
    restore (ps.map rotP) (rotV R) (rotV F) = rotV (restore ps R F) :=
  selV_rot _ _ (onIface_rot ps hok) R F

theorem resetP_rot (ps : List (Pml α)) (F : V3 α) : resetP (ps.map rotP) (rotV F) = rotV (resetP ps F) :=
  selV_rot _ _ (inPml_rot ps) (constV 0) F

theorem map_p_rot (pmls : List (PmlSt α)) : (pmls.map rotSt).map (·.p) = (pmls.map (·.p)).map rotP := by
  induction pmls with
  | nil => rfl
  | cons st rest ih => simp only [List.map_cons, ih]; rfl

theorem PAxesOK_of (pmls : List (PmlSt α)) (hok : AxesOK pmls) : PAxesOK (pmls.map (·.p)) := by
  intro q hq
  obtain ⟨s0, hs0, rfl⟩ := List.mem_map.1 hq
  exact hok s0 hs0

/-- **C08_cpml_backward_equivariant**: the time-reversed step with CPML layers (recorded interface values restored on
every PML's interface slice, reverse H and reverse E with frozen psi, optional zeroing of the PML regions) commutes
with the relabelling. -/
theorem C08_cpml_backward_equivariant (cf : Cfg α) (m : Mat α) (jE jH : V3 α) (pmls : List (PmlSt α))
    (hok : AxesOK pmls) (RE RH : V3 α) (reset : Bool) (E H : V3 α) :
    backwardP (rotC cf) (rotM m) (rotV jE) (rotV jH) (pmls.map rotSt) (rotV RE) (rotV RH) reset (rotV E) (rotV H)
      = (rotV (backwardP cf m jE jH pmls RE RH reset E H).1, rotV (backwardP cf m jE jH pmls RE RH reset E H).2) := by
  have hp := PAxesOK_of pmls hok
  unfold backwardP
  simp only [map_p_rot, restore_rot _ hp, C08_curlEp_equivariant cf false pmls hok, revHwith_rot,
    C08_curlHp_equivariant cf false pmls hok, revEwith_rot, resetP_rot]
  cases reset <;> rfl

/-- three relabellings are the identity on PML data with a valid axis -/
theorem C08_cpml_rot_cube (st : PmlSt α) (ha : st.p.axis < 3) : rotSt (rotSt (rotSt st)) = st := by
  obtain ⟨⟨ax, pl, bx, kd, aE, bE, ikE, aH, bH, ikH⟩, e1, e2, h1, h2⟩ := st
  simp only at ha
  have h : ax = 0 ∨ ax = 1 ∨ ax = 2 := by omega
  obtain ⟨a, b, c, d, e, f⟩ := bx
  rcases h with h | h | h <;> subst h <;> simp [rotSt, rotP, rotBox] <;> exact ⟨rfl, rfl, rfl, rfl⟩

end

/-! ### non-vacuity: a 5×4×6 box with a 2-cell PML at the low x face and a 3-cell PML at the high z face -/

def exPmls : List (PmlSt Int) :=
  [ ⟨⟨0, false, faceBox 5 4 6 0 false 2, true, fun _ => 1, fun _ => 2, fun _ => 1, fun _ => 1, fun _ => 2, fun _ => 1⟩,
      fun i _ _ => i, fun _ j _ => j, fun _ _ k => k, fun _ _ _ => 7⟩,
    ⟨⟨2, true, faceBox 5 4 6 2 true 3, false, fun o => o, fun _ => 2, fun _ => 3, fun o => o, fun _ => 2, fun _ => 3⟩,
      fun _ _ _ => 1, fun _ _ _ => 2, fun _ _ _ => 3, fun _ _ _ => 4⟩ ]

example : AxesOK exPmls := by
  intro st hst
  simp only [exPmls, List.mem_cons, List.mem_nil_iff, or_false] at hst
  rcases hst with h | h <;> subst h <;> decide

/-- the low-x layer becomes a low-y layer of the relabelled 6×5×4 box, the high-z layer a high-x layer; the psi array that
grew along x now grows along y -/
example : ((exPmls.map rotSt).map (fun s => (s.p.axis, s.p.plus, s.p.box)))
    = [(1, false, faceBox 6 5 4 1 false 2), (0, true, faceBox 6 5 4 0 true 3)]
    ∧ ((exPmls.map rotSt).map (fun s => s.e1 3 1 2) = [1, 1]) ∧ (exPmls.map (fun s => s.e1 1 2 3) = [1, 1]) := by decide

end Fdtdx.C08
