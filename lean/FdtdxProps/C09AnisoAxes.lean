/-
C09 — any-tier (full 3×3 tensor) supercells along y, along z, and along any combination of axes.

The x-axis theorem `C09_aniso_tile_steps` (FdtdxProps/C09Aniso.lean) is transported to the other axes through the cyclic
axis-relabelling equivariance of the any-tier step (`C08_aniso_step_equivariant`, FdtdxProps/C08Aniso.lean), exactly as
`FdtdxProps/C09Axes.lean` does for the diagonal tier: the y tiling IS the x tiling of the twice relabelled scene, relabelled
once more (`tileMatAY_rot`, `tileAWY_rot`, together with the definitional `tileY_rot`, `tileCfgY_rot`), likewise for z.
Compositions follow because a tiling along one axis preserves agreement on a region bounded along another.

  C09_aniso_tile_steps_y, C09_aniso_tile_steps_z          one wrap axis (periodic or Bloch, abstract factors `PhaseOK`)
  C09_aniso_tile_steps_xy, _xz, _yz, _xyz                 two / three axes, independent factors and phases per axis

Materials of any tier (scalar / 1 / 3 / 9 components, lossy or lossless), uniform or spacing-weighted neighbour averages;
for the latter the widths of every tiled axis must satisfy the seam condition (`WidthsTileOK`, `WidthsTileOKy`,
`WidthsTileOKz`: uniform grid, or first width = last width on that axis).
-/
import FdtdxModel.C09AnisoAxes
import FdtdxProps.C09Aniso
import FdtdxProps.C09Axes
import FdtdxProps.C08Aniso

namespace Fdtdx.C09
open Fdtdx Fdtdx.Yee Fdtdx.YeeAniso Fdtdx.C02
open Fdtdx.C08 (rotV rotC rotF rotMA rotAW rotTens rotT rotM3 C08_aniso_step_equivariant)
set_option linter.unusedSectionVars false

section
variable {K : Type} [Field K]

/-! ### the material / width tilings along y and z are relabelled x tilings -/

theorem tileTensY_rot (n : Nat) (t : Tens K) : tileTensY n t = rotTens (tileTens n (rotTens (rotTens t))) := by
  cases t <;> rfl

theorem tileTensZ_rot (n : Nat) (t : Tens K) : tileTensZ n t = rotTens (rotTens (tileTens n (rotTens t))) := by
  cases t <;> rfl

theorem tileMatAY_rot (n : Nat) (mt : MatA K) : tileMatAY n mt = rotMA (tileMatAX n (rotMA (rotMA mt))) := by
  obtain ⟨ie, im, sE, sH⟩ := mt
  cases sE <;> cases sH <;> simp [tileMatAY, tileMatAX, rotMA, tileTensY_rot]

theorem tileMatAZ_rot (n : Nat) (mt : MatA K) : tileMatAZ n mt = rotMA (rotMA (tileMatAX n (rotMA mt))) := by
  obtain ⟨ie, im, sE, sH⟩ := mt
  cases sE <;> cases sH <;> simp [tileMatAZ, tileMatAX, rotMA, tileTensZ_rot]

theorem tileAWY_rot (n : Nat) (aw : Option (AW K)) :
    aw.map (tileAWY n) = ((((aw.map rotAW).map rotAW).map (tileAWX n)).map rotAW) := by
  cases aw <;> rfl

theorem tileAWZ_rot (n : Nat) (aw : Option (AW K)) :
    aw.map (tileAWZ n) = ((((aw.map rotAW).map (tileAWX n)).map rotAW).map rotAW) := by
  cases aw <;> rfl

/-- n any-tier steps of the relabelled scene = relabelled n steps (step-indexed `fwdNA` of C02Aniso) -/
theorem fwdNA_rot (cf : Cfg K) (aw : Option (AW K)) (m : MatA K) (jE jH : Nat → V3 K) (t s : Nat) (E H : V3 K) :
    fwdNA (rotC cf) (aw.map rotAW) (rotMA m) (fun u => rotV (jE u)) (fun u => rotV (jH u)) t s (rotV E, rotV H)
      = (rotV (fwdNA cf aw m jE jH t s (E, H)).1, rotV (fwdNA cf aw m jE jH t s (E, H)).2) := by
  induction s with
  | zero => rfl
  | succ s ih =>
    simp only [fwdNA]
    rw [ih]
    exact C08_aniso_step_equivariant cf aw m _ _ _ _

/-- seam condition on the y (resp. z) widths -/
def WidthsTileOKy (n : Nat) (aw : Option (AW K)) : Prop := WidthsTileOK n ((aw.map rotAW).map rotAW)
def WidthsTileOKz (n : Nat) (aw : Option (AW K)) : Prop := WidthsTileOK n (aw.map rotAW)

theorem widthsTileOKy_iff (n : Nat) (aw : Option (AW K)) :
    WidthsTileOKy n aw ↔ ∀ wv, aw = some wv → ∀ j, wPrev (fun t => wv.wy (t % n)) j = wPrev wv.wy (j % n) := by
  cases aw with
  | none => exact ⟨fun _ _ h => (by cases h), fun _ _ h => (by cases h)⟩
  | some wv =>
    constructor
    · intro h wv' hw j
      cases hw
      exact h _ rfl j
    · intro h wv' hw j
      cases hw
      exact h wv rfl j

theorem widthsTileOKz_iff (n : Nat) (aw : Option (AW K)) :
    WidthsTileOKz n aw ↔ ∀ wv, aw = some wv → ∀ k, wPrev (fun t => wv.wz (t % n)) k = wPrev wv.wz (k % n) := by
  cases aw with
  | none => exact ⟨fun _ _ h => (by cases h), fun _ _ h => (by cases h)⟩
  | some wv =>
    constructor
    · intro h wv' hw k
      cases hw
      exact h _ rfl k
    · intro h wv' hw k
      cases hw
      exact h wv rfl k

variable (cf : Cfg K) (m : Nat) (w : Nat → K) (P Q : K)

/-- **C09_aniso_tile_steps_y**: the any-tier supercell along a wrap y axis evolves as the tiled base cell. -/
theorem C09_aniso_tile_steps_y (hax : AxisOKy cf) (hp : PhaseOK m w cf.by_.pp cf.by_.pm P Q) (hm : 0 < m)
    (aw : Option (AW K)) (hW : WidthsTileOKy cf.ny aw) (mt : MatA K) (jE jH : Nat → V3 K) (t s : Nat) (E H : V3 K) :
    AgreeY (m * cf.ny)
        (fwdNA (tileCfgY m P Q cf) (aw.map (tileAWY cf.ny)) (tileMatAY cf.ny mt) (fun u => tileY cf.ny w (jE u))
          (fun u => tileY cf.ny w (jH u)) t s (tileY cf.ny w E, tileY cf.ny w H)).1
        (tileY cf.ny w (fwdNA cf aw mt jE jH t s (E, H)).1)
    ∧ AgreeY (m * cf.ny)
        (fwdNA (tileCfgY m P Q cf) (aw.map (tileAWY cf.ny)) (tileMatAY cf.ny mt) (fun u => tileY cf.ny w (jE u))
          (fun u => tileY cf.ny w (jH u)) t s (tileY cf.ny w E, tileY cf.ny w H)).2
        (tileY cf.ny w (fwdNA cf aw mt jE jH t s (E, H)).2) := by
  have hx := C09_aniso_tile_steps (rotC (rotC cf)) m w P Q hax hp hm ((aw.map rotAW).map rotAW) hW (rotMA (rotMA mt))
    (fun u => rotV (rotV (jE u))) (fun u => rotV (rotV (jH u))) t s (rotV (rotV E)) (rotV (rotV H))
  have hb : fwdNA (rotC (rotC cf)) ((aw.map rotAW).map rotAW) (rotMA (rotMA mt)) (fun u => rotV (rotV (jE u)))
      (fun u => rotV (rotV (jH u))) t s (rotV (rotV E), rotV (rotV H))
      = (rotV (rotV (fwdNA cf aw mt jE jH t s (E, H)).1), rotV (rotV (fwdNA cf aw mt jE jH t s (E, H)).2)) := by
    rw [fwdNA_rot (rotC cf) (aw.map rotAW) (rotMA mt) (fun u => rotV (jE u)) (fun u => rotV (jH u)) t s (rotV E) (rotV H),
      fwdNA_rot cf aw mt jE jH t s E H]
  rw [hb] at hx
  rw [tileMatAY_rot, tileAWY_rot]
  have hy : fwdNA (tileCfgY m P Q cf) ((((aw.map rotAW).map rotAW).map (tileAWX cf.ny)).map rotAW)
      (rotMA (tileMatAX cf.ny (rotMA (rotMA mt)))) (fun u => tileY cf.ny w (jE u))
      (fun u => tileY cf.ny w (jH u)) t s (tileY cf.ny w E, tileY cf.ny w H)
      = (rotV (fwdNA (tileCfgX m P Q (rotC (rotC cf))) (((aw.map rotAW).map rotAW).map (tileAWX cf.ny))
            (tileMatAX cf.ny (rotMA (rotMA mt)))
            (fun u => tileX cf.ny w (rotV (rotV (jE u)))) (fun u => tileX cf.ny w (rotV (rotV (jH u)))) t s
            (tileX cf.ny w (rotV (rotV E)), tileX cf.ny w (rotV (rotV H)))).1,
         rotV (fwdNA (tileCfgX m P Q (rotC (rotC cf))) (((aw.map rotAW).map rotAW).map (tileAWX cf.ny))
            (tileMatAX cf.ny (rotMA (rotMA mt)))
            (fun u => tileX cf.ny w (rotV (rotV (jE u)))) (fun u => tileX cf.ny w (rotV (rotV (jH u)))) t s
            (tileX cf.ny w (rotV (rotV E)), tileX cf.ny w (rotV (rotV H)))).2) :=
    fwdNA_rot (tileCfgX m P Q (rotC (rotC cf))) (((aw.map rotAW).map rotAW).map (tileAWX cf.ny))
      (tileMatAX cf.ny (rotMA (rotMA mt)))
      (fun u => tileX cf.ny w (rotV (rotV (jE u)))) (fun u => tileX cf.ny w (rotV (rotV (jH u)))) t s
      (tileX cf.ny w (rotV (rotV E))) (tileX cf.ny w (rotV (rotV H)))
  rw [hy]
  exact ⟨agreeY_of_rot hx.1, agreeY_of_rot hx.2⟩

/-- **C09_aniso_tile_steps_z** -/
theorem C09_aniso_tile_steps_z (hax : AxisOKz cf) (hp : PhaseOK m w cf.bz.pp cf.bz.pm P Q) (hm : 0 < m)
    (aw : Option (AW K)) (hW : WidthsTileOKz cf.nz aw) (mt : MatA K) (jE jH : Nat → V3 K) (t s : Nat) (E H : V3 K) :
    AgreeZ (m * cf.nz)
        (fwdNA (tileCfgZ m P Q cf) (aw.map (tileAWZ cf.nz)) (tileMatAZ cf.nz mt) (fun u => tileZ cf.nz w (jE u))
          (fun u => tileZ cf.nz w (jH u)) t s (tileZ cf.nz w E, tileZ cf.nz w H)).1
        (tileZ cf.nz w (fwdNA cf aw mt jE jH t s (E, H)).1)
    ∧ AgreeZ (m * cf.nz)
        (fwdNA (tileCfgZ m P Q cf) (aw.map (tileAWZ cf.nz)) (tileMatAZ cf.nz mt) (fun u => tileZ cf.nz w (jE u))
          (fun u => tileZ cf.nz w (jH u)) t s (tileZ cf.nz w E, tileZ cf.nz w H)).2
        (tileZ cf.nz w (fwdNA cf aw mt jE jH t s (E, H)).2) := by
  have hx := C09_aniso_tile_steps (rotC cf) m w P Q hax hp hm (aw.map rotAW) hW (rotMA mt) (fun u => rotV (jE u))
    (fun u => rotV (jH u)) t s (rotV E) (rotV H)
  rw [fwdNA_rot cf aw mt jE jH t s E H] at hx
  rw [tileMatAZ_rot, tileAWZ_rot]
  have h1 := fwdNA_rot (tileCfgX m P Q (rotC cf)) ((aw.map rotAW).map (tileAWX cf.nz)) (tileMatAX cf.nz (rotMA mt))
    (fun u => tileX cf.nz w (rotV (jE u))) (fun u => tileX cf.nz w (rotV (jH u))) t s
    (tileX cf.nz w (rotV E)) (tileX cf.nz w (rotV H))
  have h2 : fwdNA (tileCfgZ m P Q cf) ((((aw.map rotAW).map (tileAWX cf.nz)).map rotAW).map rotAW)
      (rotMA (rotMA (tileMatAX cf.nz (rotMA mt)))) (fun u => tileZ cf.nz w (jE u))
      (fun u => tileZ cf.nz w (jH u)) t s (tileZ cf.nz w E, tileZ cf.nz w H)
      = (rotV (rotV (fwdNA (tileCfgX m P Q (rotC cf)) ((aw.map rotAW).map (tileAWX cf.nz)) (tileMatAX cf.nz (rotMA mt))
            (fun u => tileX cf.nz w (rotV (jE u))) (fun u => tileX cf.nz w (rotV (jH u))) t s
            (tileX cf.nz w (rotV E), tileX cf.nz w (rotV H))).1),
         rotV (rotV (fwdNA (tileCfgX m P Q (rotC cf)) ((aw.map rotAW).map (tileAWX cf.nz)) (tileMatAX cf.nz (rotMA mt))
            (fun u => tileX cf.nz w (rotV (jE u))) (fun u => tileX cf.nz w (rotV (jH u))) t s
            (tileX cf.nz w (rotV E), tileX cf.nz w (rotV H))).2)) := by
    have h2' := fwdNA_rot (rotC (tileCfgX m P Q (rotC cf))) (((aw.map rotAW).map (tileAWX cf.nz)).map rotAW)
      (rotMA (tileMatAX cf.nz (rotMA mt)))
      (fun u => rotV (tileX cf.nz w (rotV (jE u)))) (fun u => rotV (tileX cf.nz w (rotV (jH u)))) t s
      (rotV (tileX cf.nz w (rotV E))) (rotV (tileX cf.nz w (rotV H)))
    rw [h1] at h2'
    exact h2'
  rw [h2]
  exact ⟨agreeZ_of_rot2 hx.1, agreeZ_of_rot2 hx.2⟩

/-! ### compositions -/

theorem widthsTileOKy_tileX (n1 n : Nat) (aw : Option (AW K)) (h : WidthsTileOKy n aw) : WidthsTileOKy n (aw.map (tileAWX n1)) := by
  rw [widthsTileOKy_iff] at h ⊢
  intro wv hw j
  cases aw with
  | none => cases hw
  | some w0 => cases hw; exact h w0 rfl j

theorem widthsTileOKz_tileX (n1 n : Nat) (aw : Option (AW K)) (h : WidthsTileOKz n aw) : WidthsTileOKz n (aw.map (tileAWX n1)) := by
  rw [widthsTileOKz_iff] at h ⊢
  intro wv hw k
  cases aw with
  | none => cases hw
  | some w0 => cases hw; exact h w0 rfl k

theorem widthsTileOKz_tileY (n1 n : Nat) (aw : Option (AW K)) (h : WidthsTileOKz n aw) : WidthsTileOKz n (aw.map (tileAWY n1)) := by
  rw [widthsTileOKz_iff] at h ⊢
  intro wv hw k
  cases aw with
  | none => cases hw
  | some w0 => cases hw; exact h w0 rfl k

variable (m1 m2 m3 : Nat) (w1 w2 w3 : Nat → K) (P1 Q1 P2 Q2 P3 Q3 : K)

/-- **C09_aniso_tile_steps_xy**: tiling along x and y (independent factors and per-copy phases) -/
theorem C09_aniso_tile_steps_xy (hx : AxisOK cf) (hy : AxisOKy cf) (hp1 : PhaseOK m1 w1 cf.bx.pp cf.bx.pm P1 Q1)
    (hp2 : PhaseOK m2 w2 cf.by_.pp cf.by_.pm P2 Q2) (hm1 : 0 < m1) (hm2 : 0 < m2)
    (aw : Option (AW K)) (hW1 : WidthsTileOK cf.nx aw) (hW2 : WidthsTileOKy cf.ny aw) (mt : MatA K)
    (jE jH : Nat → V3 K) (t s : Nat) (E H : V3 K) :
    let T : V3 K → V3 K := fun V => tileY cf.ny w2 (tileX cf.nx w1 V)
    let S := fwdNA (tileCfgY m2 P2 Q2 (tileCfgX m1 P1 Q1 cf)) ((aw.map (tileAWX cf.nx)).map (tileAWY cf.ny))
      (tileMatAY cf.ny (tileMatAX cf.nx mt)) (fun u => T (jE u)) (fun u => T (jH u)) t s (T E, T H)
    let B := fwdNA cf aw mt jE jH t s (E, H)
    AgreeOn (fun i j _ => i < m1 * cf.nx ∧ j < m2 * cf.ny) S.1 (T B.1)
    ∧ AgreeOn (fun i j _ => i < m1 * cf.nx ∧ j < m2 * cf.ny) S.2 (T B.2) := by
  intro T S B
  have h1 := C09_aniso_tile_steps cf m1 w1 P1 Q1 hx hp1 hm1 aw hW1 mt jE jH t s E H
  have h2 := C09_aniso_tile_steps_y (tileCfgX m1 P1 Q1 cf) m2 w2 P2 Q2 (axisOKy_tileX cf m1 P1 Q1 hy) hp2 hm2
    (aw.map (tileAWX cf.nx)) (widthsTileOKy_tileX cf.nx cf.ny aw hW2) (tileMatAX cf.nx mt)
    (fun u => tileX cf.nx w1 (jE u)) (fun u => tileX cf.nx w1 (jH u)) t s (tileX cf.nx w1 E) (tileX cf.nx w1 H)
  refine ⟨?_, ?_⟩
  · intro i j k hij
    obtain ⟨a1, a2, a3⟩ := h2.1 i j k hij.2
    obtain ⟨b1, b2, b3⟩ := agreeX_tileY cf.ny w2 h1.1 i j k hij.1
    exact ⟨a1.trans b1, a2.trans b2, a3.trans b3⟩
  · intro i j k hij
    obtain ⟨a1, a2, a3⟩ := h2.2 i j k hij.2
    obtain ⟨b1, b2, b3⟩ := agreeX_tileY cf.ny w2 h1.2 i j k hij.1
    exact ⟨a1.trans b1, a2.trans b2, a3.trans b3⟩

/-- **C09_aniso_tile_steps_xz** -/
theorem C09_aniso_tile_steps_xz (hx : AxisOK cf) (hz : AxisOKz cf) (hp1 : PhaseOK m1 w1 cf.bx.pp cf.bx.pm P1 Q1)
    (hp3 : PhaseOK m3 w3 cf.bz.pp cf.bz.pm P3 Q3) (hm1 : 0 < m1) (hm3 : 0 < m3)
    (aw : Option (AW K)) (hW1 : WidthsTileOK cf.nx aw) (hW3 : WidthsTileOKz cf.nz aw) (mt : MatA K)
    (jE jH : Nat → V3 K) (t s : Nat) (E H : V3 K) :
    let T : V3 K → V3 K := fun V => tileZ cf.nz w3 (tileX cf.nx w1 V)
    let S := fwdNA (tileCfgZ m3 P3 Q3 (tileCfgX m1 P1 Q1 cf)) ((aw.map (tileAWX cf.nx)).map (tileAWZ cf.nz))
      (tileMatAZ cf.nz (tileMatAX cf.nx mt)) (fun u => T (jE u)) (fun u => T (jH u)) t s (T E, T H)
    let B := fwdNA cf aw mt jE jH t s (E, H)
    AgreeOn (fun i _ k => i < m1 * cf.nx ∧ k < m3 * cf.nz) S.1 (T B.1)
    ∧ AgreeOn (fun i _ k => i < m1 * cf.nx ∧ k < m3 * cf.nz) S.2 (T B.2) := by
  intro T S B
  have h1 := C09_aniso_tile_steps cf m1 w1 P1 Q1 hx hp1 hm1 aw hW1 mt jE jH t s E H
  have h2 := C09_aniso_tile_steps_z (tileCfgX m1 P1 Q1 cf) m3 w3 P3 Q3 (axisOKz_tileX cf m1 P1 Q1 hz) hp3 hm3
    (aw.map (tileAWX cf.nx)) (widthsTileOKz_tileX cf.nx cf.nz aw hW3) (tileMatAX cf.nx mt)
    (fun u => tileX cf.nx w1 (jE u)) (fun u => tileX cf.nx w1 (jH u)) t s (tileX cf.nx w1 E) (tileX cf.nx w1 H)
  refine ⟨?_, ?_⟩
  · intro i j k hik
    obtain ⟨a1, a2, a3⟩ := h2.1 i j k hik.2
    obtain ⟨b1, b2, b3⟩ := agreeX_tileZ cf.nz w3 h1.1 i j k hik.1
    exact ⟨a1.trans b1, a2.trans b2, a3.trans b3⟩
  · intro i j k hik
    obtain ⟨a1, a2, a3⟩ := h2.2 i j k hik.2
    obtain ⟨b1, b2, b3⟩ := agreeX_tileZ cf.nz w3 h1.2 i j k hik.1
    exact ⟨a1.trans b1, a2.trans b2, a3.trans b3⟩

/-- **C09_aniso_tile_steps_yz** -/
theorem C09_aniso_tile_steps_yz (hy : AxisOKy cf) (hz : AxisOKz cf) (hp2 : PhaseOK m2 w2 cf.by_.pp cf.by_.pm P2 Q2)
    (hp3 : PhaseOK m3 w3 cf.bz.pp cf.bz.pm P3 Q3) (hm2 : 0 < m2) (hm3 : 0 < m3)
    (aw : Option (AW K)) (hW2 : WidthsTileOKy cf.ny aw) (hW3 : WidthsTileOKz cf.nz aw) (mt : MatA K)
    (jE jH : Nat → V3 K) (t s : Nat) (E H : V3 K) :
    let T : V3 K → V3 K := fun V => tileZ cf.nz w3 (tileY cf.ny w2 V)
    let S := fwdNA (tileCfgZ m3 P3 Q3 (tileCfgY m2 P2 Q2 cf)) ((aw.map (tileAWY cf.ny)).map (tileAWZ cf.nz))
      (tileMatAZ cf.nz (tileMatAY cf.ny mt)) (fun u => T (jE u)) (fun u => T (jH u)) t s (T E, T H)
    let B := fwdNA cf aw mt jE jH t s (E, H)
    AgreeOn (fun _ j k => j < m2 * cf.ny ∧ k < m3 * cf.nz) S.1 (T B.1)
    ∧ AgreeOn (fun _ j k => j < m2 * cf.ny ∧ k < m3 * cf.nz) S.2 (T B.2) := by
  intro T S B
  have h1 := C09_aniso_tile_steps_y cf m2 w2 P2 Q2 hy hp2 hm2 aw hW2 mt jE jH t s E H
  have h2 := C09_aniso_tile_steps_z (tileCfgY m2 P2 Q2 cf) m3 w3 P3 Q3 (axisOKz_tileY cf m2 P2 Q2 hz) hp3 hm3
    (aw.map (tileAWY cf.ny)) (widthsTileOKz_tileY cf.ny cf.nz aw hW3) (tileMatAY cf.ny mt)
    (fun u => tileY cf.ny w2 (jE u)) (fun u => tileY cf.ny w2 (jH u)) t s (tileY cf.ny w2 E) (tileY cf.ny w2 H)
  refine ⟨?_, ?_⟩
  · intro i j k hjk
    obtain ⟨a1, a2, a3⟩ := h2.1 i j k hjk.2
    obtain ⟨b1, b2, b3⟩ := agreeY_tileZ cf.nz w3 h1.1 i j k hjk.1
    exact ⟨a1.trans b1, a2.trans b2, a3.trans b3⟩
  · intro i j k hjk
    obtain ⟨a1, a2, a3⟩ := h2.2 i j k hjk.2
    obtain ⟨b1, b2, b3⟩ := agreeY_tileZ cf.nz w3 h1.2 i j k hjk.1
    exact ⟨a1.trans b1, a2.trans b2, a3.trans b3⟩

/-- **C09_aniso_tile_steps_xyz**: tiling along all three axes -/
theorem C09_aniso_tile_steps_xyz (hx : AxisOK cf) (hy : AxisOKy cf) (hz : AxisOKz cf)
    (hp1 : PhaseOK m1 w1 cf.bx.pp cf.bx.pm P1 Q1) (hp2 : PhaseOK m2 w2 cf.by_.pp cf.by_.pm P2 Q2)
    (hp3 : PhaseOK m3 w3 cf.bz.pp cf.bz.pm P3 Q3) (hm1 : 0 < m1) (hm2 : 0 < m2) (hm3 : 0 < m3)
    (aw : Option (AW K)) (hW1 : WidthsTileOK cf.nx aw) (hW2 : WidthsTileOKy cf.ny aw) (hW3 : WidthsTileOKz cf.nz aw)
    (mt : MatA K) (jE jH : Nat → V3 K) (t s : Nat) (E H : V3 K) :
    let T : V3 K → V3 K := fun V => tileZ cf.nz w3 (tileY cf.ny w2 (tileX cf.nx w1 V))
    let S := fwdNA (tileCfgZ m3 P3 Q3 (tileCfgY m2 P2 Q2 (tileCfgX m1 P1 Q1 cf)))
      (((aw.map (tileAWX cf.nx)).map (tileAWY cf.ny)).map (tileAWZ cf.nz))
      (tileMatAZ cf.nz (tileMatAY cf.ny (tileMatAX cf.nx mt))) (fun u => T (jE u)) (fun u => T (jH u)) t s (T E, T H)
    let B := fwdNA cf aw mt jE jH t s (E, H)
    AgreeOn (fun i j k => i < m1 * cf.nx ∧ j < m2 * cf.ny ∧ k < m3 * cf.nz) S.1 (T B.1)
    ∧ AgreeOn (fun i j k => i < m1 * cf.nx ∧ j < m2 * cf.ny ∧ k < m3 * cf.nz) S.2 (T B.2) := by
  intro T S B
  have h12 := C09_aniso_tile_steps_xy cf m1 m2 w1 w2 P1 Q1 P2 Q2 hx hy hp1 hp2 hm1 hm2 aw hW1 hW2 mt jE jH t s E H
  have hz' : AxisOKz (tileCfgY m2 P2 Q2 (tileCfgX m1 P1 Q1 cf)) :=
    axisOKz_tileY _ m2 P2 Q2 (axisOKz_tileX cf m1 P1 Q1 hz)
  have h3 := C09_aniso_tile_steps_z (tileCfgY m2 P2 Q2 (tileCfgX m1 P1 Q1 cf)) m3 w3 P3 Q3 hz' hp3 hm3
    ((aw.map (tileAWX cf.nx)).map (tileAWY cf.ny))
    (widthsTileOKz_tileY cf.ny cf.nz _ (widthsTileOKz_tileX cf.nx cf.nz aw hW3))
    (tileMatAY cf.ny (tileMatAX cf.nx mt)) (fun u => tileY cf.ny w2 (tileX cf.nx w1 (jE u)))
    (fun u => tileY cf.ny w2 (tileX cf.nx w1 (jH u))) t s (tileY cf.ny w2 (tileX cf.nx w1 E)) (tileY cf.ny w2 (tileX cf.nx w1 H))
  simp only at h12
  refine ⟨?_, ?_⟩
  · intro i j k hijk
    obtain ⟨a1, a2, a3⟩ := h3.1 i j k hijk.2.2
    obtain ⟨b1, b2, b3⟩ := h12.1 i j (k % cf.nz) ⟨hijk.1, hijk.2.1⟩
    refine ⟨a1.trans ?_, a2.trans ?_, a3.trans ?_⟩
    · exact congrArg (· * w3 (k / cf.nz)) b1
    · exact congrArg (· * w3 (k / cf.nz)) b2
    · exact congrArg (· * w3 (k / cf.nz)) b3
  · intro i j k hijk
    obtain ⟨a1, a2, a3⟩ := h3.2 i j k hijk.2.2
    obtain ⟨b1, b2, b3⟩ := h12.2 i j (k % cf.nz) ⟨hijk.1, hijk.2.1⟩
    refine ⟨a1.trans ?_, a2.trans ?_, a3.trans ?_⟩
    · exact congrArg (· * w3 (k / cf.nz)) b1
    · exact congrArg (· * w3 (k / cf.nz)) b2
    · exact congrArg (· * w3 (k / cf.nz)) b3

end

/-! ### non-vacuity: the fully periodic scene `exPer` of C09Axes with a full non-symmetric tensor tiled along y and z, and
seam-symmetric y widths -/
def exMatAxes : MatA ℚ :=
  ⟨.full (fun i j k => ⟨2, 1 / 3, 0, 1 / 5, 3, (i + 2 * j + 3 * k : Nat), 0, 1 / 7, 1⟩), .scalar 1, none, none⟩

example : (tileMatAZ 2 (tileMatAY 3 exMatAxes)).fullE = true := by decide
example : ((tileMatAZ 2 (tileMatAY 3 exMatAxes)).invEps.expand 1 4 3).yz = (exMatAxes.invEps.expand 1 1 1).yz := by decide
example : WidthsTileOKy (K := ℚ) 3 (some ⟨fun _ => 1, fun j => if j = 1 then 2 else 1, fun _ => 1⟩) :=
  widthsTileOK_of_seam 3 (by decide) _ (by norm_num [Fdtdx.C08.rotAW])
example : WidthsTileOKz (K := ℚ) 2 none := widthsTileOK_none 2

end Fdtdx.C09
