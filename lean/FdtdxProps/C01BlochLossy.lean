/-
C01 (Bloch faces, lossy media) — with a non-negative electric conductivity the sesquilinear energy only decreases.

`FdtdxProps/C01Bloch.lean` gives, over any star field, the exact balance of one source-free step

  Q(E',H') = Q(E,H) − D,   D = ⟨a·ε·(E'+E), E'+E⟩ = Σ wE · (a·ε) · star(E'+E)·(E'+E),   a = c·σ·η₀·ε⁻¹/2

(`C01_bloch_lossy_decrement`).  Here the scalar field additionally carries the order of a star-ordered ring
(`0 ≤ z` iff `z = star s · s`; for ℂ: `z ≤ w` iff `re z ≤ re w ∧ im z = im w`, for ℝ the usual order), and

  C01_bloch_dissipation_nonneg     0 ≤ c, σ, η₀, widths  →  every summand of D is ≥ 0 (a non-negative real), so 0 ≤ D
  C01_bloch_lossy_nonincreasing    … →  Q(forward s) ≤ Q(s)
  C01_bloch_lossy_steps            … →  Q(run (n+1) s) ≤ Q(run n s) ≤ Q(s) for every n (walls stay satisfied)
  C01_bloch_lossy_antitone         n ↦ Q(run n s) is antitone
  C01_bloch_lossy_complex          the ℂ reading: re Q does not increase and im Q does not change

for every grid shape, every mix of zero / periodic / Bloch halos (`star pm = pp`) and PEC / PMC walls, every
metric (`MetricOK`), every real diagonal ε, μ (no sign condition on them) and every wall-satisfying complex state.
In a star-ordered ring `0 ≤ x` implies `star x = x`, so the hypotheses `0 ≤ σ`, `0 ≤ η₀` say "real and ≥ 0".
-/
import FdtdxProps.C01Bloch
import Mathlib.Algebra.Order.Star.Basic
import Mathlib.Algebra.Order.BigOperators.Ring.Finset
import Mathlib.Order.Monotone.Basic
import Mathlib.Analysis.Complex.Basic

open Finset
namespace Fdtdx.C01
open Fdtdx Fdtdx.Yee

section
variable {K : Type} [Field K] [StarRing K] [CharZero K] [PartialOrder K] [IsOrderedRing K] [StarOrderedRing K]

/-- widths are non-negative (hence real) -/
structure WidthsNonnegS (W : Widths K) : Prop where
  wx : ∀ i, 0 ≤ W.wx i
  wy : ∀ i, 0 ≤ W.wy i
  wz : ∀ i, 0 ≤ W.wz i
  dx : ∀ i, 0 ≤ W.dx i
  dy : ∀ i, 0 ≤ W.dy i
  dz : ∀ i, 0 ≤ W.dz i

/-- the conductivity array is non-negative (hence real) -/
structure NonnegV (A : V3 K) : Prop where
  x : ∀ i j k, 0 ≤ A.x i j k
  y : ∀ i j k, 0 ≤ A.y i j k
  z : ∀ i j k, 0 ≤ A.z i j k

omit [CharZero K] [IsOrderedRing K] in
theorem NonnegV.real {A : V3 K} (h : NonnegV A) : RealV A :=
  ⟨fun i j k => (h.x i j k).isSelfAdjoint.star_eq, fun i j k => (h.y i j k).isSelfAdjoint.star_eq,
    fun i j k => (h.z i j k).isSelfAdjoint.star_eq⟩

omit [StarRing K] [CharZero K] [StarOrderedRing K] in
theorem sum3_nonnegS (nx ny nz : Nat) (f : F3 K) (h : ∀ i j k, 0 ≤ f i j k) : 0 ≤ sum3 nx ny nz f := by
  rw [sum3_eq]
  exact sum_nonneg fun i _ => sum_nonneg fun j _ => sum_nonneg fun k _ => h i j k

/-- `1/2 = 2 · (star (1/2) · (1/2))` is non-negative in a star-ordered field -/
theorem half_nonnegS : (0 : K) ≤ 2⁻¹ := by
  have h2 : (2 : K) ≠ 0 := two_ne_zero
  have e : (2 : K)⁻¹ = 2 * (star (2 : K)⁻¹ * (2 : K)⁻¹) := by
    rw [star_inv₀, star_ofNat]; field_simp
  rw [e]
  exact mul_nonneg zero_le_two (star_mul_self_nonneg _)

omit [CharZero K] in
/-- one summand of the dissipation: weight ≥ 0, factor `q = a·ε ≥ 0`, `star g · g ≥ 0` -/
theorem diss_term_nonneg (w q g : K) (hw : 0 ≤ w) (hq : 0 ≤ q) : 0 ≤ w * (star (q * g) * g) := by
  have e : star (q * g) * g = q * (star g * g) := by
    rw [star_mul', hq.isSelfAdjoint.star_eq]; ring
  rw [e]
  exact mul_nonneg hw (mul_nonneg hq (star_mul_self_nonneg g))

/-- **C01_bloch_dissipation_nonneg**: the dissipation term `⟨a·ε·G, G⟩` is a sum of non-negative terms
(`a·ε = c·σ·η₀/2 ≥ 0`, staggered volumes ≥ 0, `star G·G ≥ 0`), for every field `G`. -/
theorem C01_bloch_dissipation_nonneg (cf : Cfg K) (W : Widths K) (m : Mat K) (eps mu : V3 K) (sig G : V3 K)
    (hmat : MatOK m eps mu) (hW : WidthsNonnegS W) (hc : 0 ≤ cf.c) (heta : 0 ≤ cf.eta0) (hsig : NonnegV sig) :
    0 ≤ pairEs cf W (mulV (mulV (lossFactor cf m sig) eps) G) G := by
  unfold pairEs
  apply sum3_nonnegS
  intro i j k
  have hh : (0 : K) ≤ 2⁻¹ := half_nonnegS
  have ax : (lossFactor cf m sig).x i j k * eps.x i j k = cf.c * sig.x i j k * cf.eta0 * 2⁻¹ := by
    simp only [lossFactor]; linear_combination (cf.c * sig.x i j k * cf.eta0 / 2) * hmat.ex i j k
  have ay : (lossFactor cf m sig).y i j k * eps.y i j k = cf.c * sig.y i j k * cf.eta0 * 2⁻¹ := by
    simp only [lossFactor]; linear_combination (cf.c * sig.y i j k * cf.eta0 / 2) * hmat.ey i j k
  have az : (lossFactor cf m sig).z i j k * eps.z i j k = cf.c * sig.z i j k * cf.eta0 * 2⁻¹ := by
    simp only [lossFactor]; linear_combination (cf.c * sig.z i j k * cf.eta0 / 2) * hmat.ez i j k
  have hx : 0 ≤ cf.c * sig.x i j k * cf.eta0 * 2⁻¹ := mul_nonneg (mul_nonneg (mul_nonneg hc (hsig.x i j k)) heta) hh
  have hy : 0 ≤ cf.c * sig.y i j k * cf.eta0 * 2⁻¹ := mul_nonneg (mul_nonneg (mul_nonneg hc (hsig.y i j k)) heta) hh
  have hz : 0 ≤ cf.c * sig.z i j k * cf.eta0 * 2⁻¹ := mul_nonneg (mul_nonneg (mul_nonneg hc (hsig.z i j k)) heta) hh
  simp only [mulV, ax, ay, az]
  exact add_nonneg (add_nonneg
    (diss_term_nonneg _ _ _ (mul_nonneg (mul_nonneg (hW.wx i) (hW.dy j)) (hW.dz k)) hx)
    (diss_term_nonneg _ _ _ (mul_nonneg (mul_nonneg (hW.dx i) (hW.wy j)) (hW.dz k)) hy))
    (diss_term_nonneg _ _ _ (mul_nonneg (mul_nonneg (hW.dx i) (hW.dy j)) (hW.wz k)) hz)

/-- **C01_bloch_lossy_nonincreasing**: Bloch / periodic / zero halos, PEC / PMC walls, complex fields, real
materials, non-negative electric conductivity (and c, η₀, widths ≥ 0, ε·ε⁻¹ = 1): the sesquilinear energy never
increases from one step to the next. -/
theorem C01_bloch_lossy_nonincreasing (cf : Cfg K) (W : Widths K) (ref : K) (m : Mat K) (eps mu : V3 K) (E H : V3 K)
    (sig : V3 K)
    (hm : MetricOK cf W ref) (hh : HalosBloch cf) (hs : ScalesReal cf) (hr : RealData cf W m eps mu)
    (hmat : MatOK m eps mu) (hw : WallOK cf E H)
    (hsE : m.sigE = some sig) (hsH : m.sigH = none)
    (hdiv : ∀ i j k, 1 + (lossFactor cf m sig).x i j k ≠ 0 ∧ 1 + (lossFactor cf m sig).y i j k ≠ 0
      ∧ 1 + (lossFactor cf m sig).z i j k ≠ 0)
    (hW : WidthsNonnegS W) (hc : 0 ≤ cf.c) (heta : 0 ≤ cf.eta0) (hsig : NonnegV sig) :
    energyC cf W eps mu (forward cf m zeroV zeroV E H).1 (forward cf m zeroV zeroV E H).2
      ≤ energyC cf W eps mu E H := by
  rw [C01_bloch_lossy_decrement cf W ref m eps mu E H sig hm hh hs hr hmat hw hsE hsH
    heta.isSelfAdjoint.star_eq hsig.real hdiv]
  exact sub_le_self _ (C01_bloch_dissipation_nonneg cf W m eps mu sig _ hmat hW hc heta hsig)

/-- **C01_bloch_lossy_steps**: for every number of steps `n`, the energy after `n+1` steps is at most the energy
after `n` steps, which is at most the initial energy; the walls stay satisfied. -/
theorem C01_bloch_lossy_steps (cf : Cfg K) (W : Widths K) (ref : K) (m : Mat K) (eps mu : V3 K) (E H : V3 K)
    (sig : V3 K)
    (hm : MetricOK cf W ref) (hh : HalosBloch cf) (hs : ScalesReal cf) (hr : RealData cf W m eps mu)
    (hmat : MatOK m eps mu) (hw : WallOK cf E H)
    (hsE : m.sigE = some sig) (hsH : m.sigH = none)
    (hdiv : ∀ i j k, 1 + (lossFactor cf m sig).x i j k ≠ 0 ∧ 1 + (lossFactor cf m sig).y i j k ≠ 0
      ∧ 1 + (lossFactor cf m sig).z i j k ≠ 0)
    (hW : WidthsNonnegS W) (hc : 0 ≤ cf.c) (heta : 0 ≤ cf.eta0) (hsig : NonnegV sig) (n : Nat) :
    energyC cf W eps mu (run cf m (n + 1) (E, H)).1 (run cf m (n + 1) (E, H)).2
        ≤ energyC cf W eps mu (run cf m n (E, H)).1 (run cf m n (E, H)).2
      ∧ energyC cf W eps mu (run cf m n (E, H)).1 (run cf m n (E, H)).2 ≤ energyC cf W eps mu E H
      ∧ WallOK cf (run cf m n (E, H)).1 (run cf m n (E, H)).2 := by
  have step : ∀ n, WallOK cf (run cf m n (E, H)).1 (run cf m n (E, H)).2 →
      energyC cf W eps mu (run cf m (n + 1) (E, H)).1 (run cf m (n + 1) (E, H)).2
        ≤ energyC cf W eps mu (run cf m n (E, H)).1 (run cf m n (E, H)).2 := fun n hwn =>
    C01_bloch_lossy_nonincreasing cf W ref m eps mu _ _ sig hm hh hs hr hmat hwn hsE hsH hdiv hW hc heta hsig
  have inv : ∀ n, energyC cf W eps mu (run cf m n (E, H)).1 (run cf m n (E, H)).2 ≤ energyC cf W eps mu E H
      ∧ WallOK cf (run cf m n (E, H)).1 (run cf m n (E, H)).2 := by
    intro n
    induction n with
    | zero => exact ⟨le_refl _, hw⟩
    | succ n ih => exact ⟨le_trans (step n ih.2) ih.1, C01_walls_preserved cf m zeroV zeroV _ _⟩
  exact ⟨step n (inv n).2, (inv n).1, (inv n).2⟩

/-- **C01_bloch_lossy_antitone**: the energy as a function of the step count is antitone. -/
theorem C01_bloch_lossy_antitone (cf : Cfg K) (W : Widths K) (ref : K) (m : Mat K) (eps mu : V3 K) (E H : V3 K)
    (sig : V3 K)
    (hm : MetricOK cf W ref) (hh : HalosBloch cf) (hs : ScalesReal cf) (hr : RealData cf W m eps mu)
    (hmat : MatOK m eps mu) (hw : WallOK cf E H)
    (hsE : m.sigE = some sig) (hsH : m.sigH = none)
    (hdiv : ∀ i j k, 1 + (lossFactor cf m sig).x i j k ≠ 0 ∧ 1 + (lossFactor cf m sig).y i j k ≠ 0
      ∧ 1 + (lossFactor cf m sig).z i j k ≠ 0)
    (hW : WidthsNonnegS W) (hc : 0 ≤ cf.c) (heta : 0 ≤ cf.eta0) (hsig : NonnegV sig) :
    Antitone fun n => energyC cf W eps mu (run cf m n (E, H)).1 (run cf m n (E, H)).2 :=
  antitone_nat_of_succ_le fun n =>
    (C01_bloch_lossy_steps cf W ref m eps mu E H sig hm hh hs hr hmat hw hsE hsH hdiv hW hc heta hsig n).1

end

/-! ### the complex reading, and non-vacuity over ℂ: Bloch phase i on the x axis, σ = 1 > 0 -/
section complex
open Complex
open scoped ComplexOrder

/-- **C01_bloch_lossy_complex**: over ℂ (order `z ≤ w ↔ re z ≤ re w ∧ im z = im w`) the real part of the energy does
not increase over `k` further steps and its imaginary part does not change. -/
theorem C01_bloch_lossy_complex (cf : Cfg ℂ) (W : Widths ℂ) (ref : ℂ) (m : Mat ℂ) (eps mu : V3 ℂ) (E H : V3 ℂ)
    (sig : V3 ℂ)
    (hm : MetricOK cf W ref) (hh : HalosBloch cf) (hs : ScalesReal cf) (hr : RealData cf W m eps mu)
    (hmat : MatOK m eps mu) (hw : WallOK cf E H)
    (hsE : m.sigE = some sig) (hsH : m.sigH = none)
    (hdiv : ∀ i j k, 1 + (lossFactor cf m sig).x i j k ≠ 0 ∧ 1 + (lossFactor cf m sig).y i j k ≠ 0
      ∧ 1 + (lossFactor cf m sig).z i j k ≠ 0)
    (hW : WidthsNonnegS W) (hc : 0 ≤ cf.c) (heta : 0 ≤ cf.eta0) (hsig : NonnegV sig) (n k : Nat) :
    (energyC cf W eps mu (run cf m (n + k) (E, H)).1 (run cf m (n + k) (E, H)).2).re
        ≤ (energyC cf W eps mu (run cf m n (E, H)).1 (run cf m n (E, H)).2).re
      ∧ (energyC cf W eps mu (run cf m (n + k) (E, H)).1 (run cf m (n + k) (E, H)).2).im
        = (energyC cf W eps mu (run cf m n (E, H)).1 (run cf m n (E, H)).2).im :=
  Complex.le_def.mp
    (C01_bloch_lossy_antitone cf W ref m eps mu E H sig hm hh hs hr hmat hw hsE hsH hdiv hW hc heta hsig
      (Nat.le_add_right n k))

/-- uniform unit widths -/
noncomputable def lW : Widths ℂ := ⟨fun _ => 1, fun _ => 1, fun _ => 1, fun _ => 1, fun _ => 1, fun _ => 1⟩
/-- conductivity σ = 1 on every component -/
noncomputable def lSig : V3 ℂ := constV 1
/-- ε⁻¹ = 2 (ε = 1/2), μ⁻¹ = 1, electric conductivity `lSig`, no magnetic conductivity -/
noncomputable def lMat : Mat ℂ := ⟨constV 2, constV 1, some lSig, none⟩
/-- a genuinely complex state (PEC walls in y and z already applied to E) -/
noncomputable def lE : V3 ℂ := projE bCfg ⟨fun i j k => i + 2 * j + 3 * k + 1 + I, fun i j k => i * j + k + 2 * I, fun _ _ _ => 5 - I⟩
noncomputable def lH : V3 ℂ := ⟨fun i j _ => i - j * I, fun _ _ k => k + 1, fun i _ _ => 3 - i + I⟩

private theorem l_metric : MetricOK bCfg lW 1 := by constructor <;> intro i <;> simp [bCfg, lW]
private theorem l_halos : HalosBloch bCfg := by constructor <;> intro _ <;> simp [bCfg, bxBC, bzero]
private theorem l_scales : ScalesReal bCfg := by constructor <;> intro _ <;> simp [bCfg]
private theorem l_real : RealData bCfg lW lMat (constV (1 / 2)) (constV 1) := by
  constructor <;> intros <;> simp [bCfg, lW, lMat, constV]
private theorem l_mat : MatOK lMat (constV (1 / 2)) (constV 1) := by
  constructor <;> intro i j k <;> norm_num [lMat, constV]
private theorem l_wall : WallOK bCfg lE lH := by
  constructor <;> intro i j k h <;>
    first | simp [lE, projE, maskV, h] | (simp [pmcMask, bCfg, bxBC, bzero, onWall] at h)
/-- the divisor `1 + a = 1 + (1/2)·1·1·2/2 = 3/2` -/
private theorem l_div : ∀ i j k, 1 + (lossFactor bCfg lMat lSig).x i j k ≠ 0
    ∧ 1 + (lossFactor bCfg lMat lSig).y i j k ≠ 0 ∧ 1 + (lossFactor bCfg lMat lSig).z i j k ≠ 0 := by
  intro i j k; norm_num [lossFactor, bCfg, lMat, lSig, constV]
private theorem l_widths : WidthsNonnegS lW := by constructor <;> intro _ <;> simp [lW]
private theorem l_c : 0 ≤ bCfg.c := by simp [bCfg]
private theorem l_eta : 0 ≤ bCfg.eta0 := by simp [bCfg]
private theorem l_sig : NonnegV lSig := by constructor <;> intro _ _ _ <;> simp [lSig, constV]

/-- every hypothesis of the lossy Bloch theorems holds for this scene: phase `i ≠ 1` on x, σ = 1 ≠ 0, a state with
non-zero imaginary parts that survives the wall projection -/
example (n : Nat) :
    energyC bCfg lW (constV (1 / 2)) (constV 1) (run bCfg lMat (n + 1) (lE, lH)).1 (run bCfg lMat (n + 1) (lE, lH)).2
      ≤ energyC bCfg lW (constV (1 / 2)) (constV 1) (run bCfg lMat n (lE, lH)).1 (run bCfg lMat n (lE, lH)).2 :=
  (C01_bloch_lossy_steps bCfg lW 1 lMat (constV (1 / 2)) (constV 1) lE lH lSig l_metric l_halos l_scales l_real
    l_mat l_wall rfl rfl l_div l_widths l_c l_eta l_sig n).1
example : bxBC.pp = I ∧ bxBC.pp ≠ 1 ∧ lSig.x 0 0 0 = 1 := by
  refine ⟨rfl, ?_, rfl⟩
  simp only [bxBC]; intro h; have := congrArg Complex.im h; simp at this
example : (lE.x 1 1 1).im = 1 ∧ lE.x 1 0 1 = 0 := by
  simp [lE, projE, maskV, pecMask, bCfg, bxBC, bzero, onWall]
end complex

end Fdtdx.C01
