/-
C33 — Electric-plane symmetry reduction is exact.

Setting (shared Yee model, `FdtdxModel/Yee.lean`; reduction `FdtdxModel/C33.lean`): a full domain with `2m` cells
along the symmetry axis x, the plane at the min edge of cell `m`; the reduced domain keeps the cells `m … 2m-1`, gets a
PEC wall on its min face (`make_symmetry_walls`) and a zero min-side halo (`pad_fields_for_boundaries`).  PEC-mirror
parity (`field_component_parity`, `mirror_pairs_on_plane`): E_y, E_z, H_x are sampled ON the plane, are odd
(`m+d ↔ m-d`) and vanish on it; E_x, H_y, H_z are sampled half a cell off and are even (`m+d ↔ m-1-d`).

  mirror_window_step         one `forward` step of the FULL domain keeps the parity in a window that shrinks by one pair
                             — for ANY boundaries at the two x faces (this is the light cone of the far faces)
  forward_agree_plane        parity on the plane ⇒ one step of the reduced domain = upper half of one step of the full one
  forward_agree_shrink       without it: agreement is lost by one layer per step, starting at the plane
  C33_reduced_eq_restricted  all steps: the reduced run equals the upper half of the full run on every layer the far face
                             of the discarded half cannot have reached (everything for n ≤ m - delay, then the cone)
  C33_unfold                 … and the lower half is the parity image of the reduced run (unfolding) inside the window
  C33_reduceCfg              the same for the model's `reduceCfg 0` / `upperV` / `upperMat` (what K compares with fdtdx)

  C33_reduceCfg_y / _z       symmetry plane normal to y / z: transported along the cyclic relabelling of the axes
                             (`FdtdxLemmas/C33Rot.lean`: the Yee step commutes with `rotV`), statements read through `rotV`

  mirror_invariant(_y,_z)    mirror-symmetric far faces (PEC layer at the min face ↔ the zero right ghost at the max face, PMC at
                             both or none): parity-symmetric data stay parity-symmetric for ALL steps, each axis
  C33_symmetric_far_all_steps  … and then the reduced run equals the upper half for all steps (no light cone)
  C33_two_planes_xy, C33_three_planes   quarter / octant domains: the one-plane theorems composed (x, then y, then z)
  (FdtdxProps/C33Cpml.lean)  the parity window also survives the CPML step `forwardP` as long as no PML box meets it

Reduced-vs-full agreement WITH PML objects and detector records: implementation-side oracle only.
-/
import FdtdxLemmas.C33Rot
import Mathlib.Tactic.NormNum
import Mathlib.Tactic.IntervalCases

namespace Fdtdx.C33
open Fdtdx Fdtdx.Yee

section
variable {K : Type} [Field K]
variable {cf : Cfg K} {m : Nat} {b : AxisBC K} {sf sb : Nat → K}

/-- **mirror_window_step**: one full-domain `forward` step maps a state that has the PEC-mirror parity in a window of
`r` pairs around the plane to one that has it in a window of `r - 1` pairs — whatever the far boundaries of the x
axis are (zero halo, PEC, PMC in any mix; the only exception is the outermost pair, which a far PEC layer breaks). -/
theorem mirror_window_step (hn : cf.nx = 2 * m) (r : Nat) (hr : r ≤ m) (hpec : r = m → cf.bx.pecHi = false)
    (mt : Mat K) (hx : XInv mt) (hmet : MetricSym cf m r) (jE jH E H : V3 K)
    (sE : SymE m r E) (sH : SymH m r H) (sJE : SymE m r jE) (sJH : SymH m r jH) :
    SymE m (r - 1) (forward cf mt jE jH E H).1 ∧ SymH m (r - 1) (forward cf mt jE jH E H).2 := by
  have h1 := stepE_sym hn r hr hpec mt hx hmet jE E H sE sH sJE
  exact ⟨h1.mono (by omega), stepH_sym hn r hr mt hx hmet jH _ H h1 sH sJH⟩


/-! ### whole steps, many steps -/

/-- one step, state parity-symmetric on the plane: the reduced domain (PEC wall, zero min-side halo) reproduces the
upper half of the full domain everywhere -/
theorem forward_agree_plane (h : RedOK cf m b sf sb) (mt : Mat K) (jE jH Er Hr E H : V3 K)
    (p : PlaneInv m E H jE) (hE : AgreeFrom m 0 Er E) (hH : AgreeFrom m 0 Hr H) :
    AgreeFrom m 0 (forward (redCfg cf m b sf sb) (upperMat 0 m mt) (upperV 0 m jE) (upperV 0 m jH) Er Hr).1
        (forward cf mt jE jH E H).1 ∧
    AgreeFrom m 0 (forward (redCfg cf m b sf sb) (upperMat 0 m mt) (upperV 0 m jE) (upperV 0 m jH) Er Hr).2
        (forward cf mt jE jH E H).2 := by
  have e : AgreeFrom m 0 (stepE (redCfg cf m b sf sb) (upperMat 0 m mt) (upperV 0 m jE) Er Hr) (stepE cf mt jE E H) := by
    intro i _ hi
    rcases Nat.eq_zero_or_pos i with rfl | h0
    · exact stepE_agree_plane h mt jE Er Hr E H p (hE 0 (le_refl _) hi) (hH 0 (le_refl _) hi)
    · exact stepE_agree h mt jE Er Hr E H i h0 (hE i (by omega) hi) (hH i (by omega) hi) (hH (i - 1) (by omega) (by omega))
  refine ⟨e, ?_⟩
  intro i _ hi
  exact stepH_agree h mt jH _ Hr _ H i hi (e i (by omega) hi) (fun hl => e (i + 1) (by omega) hl) (hH i (by omega) hi)

/-- one step without any assumption on the plane: agreement on the layers `≥ s` survives on the layers `≥ s+1`
(the reduced domain differs from the upper half only through its min face, one layer per step) -/
theorem forward_agree_shrink (h : RedOK cf m b sf sb) (mt : Mat K) (jE jH Er Hr E H : V3 K) (s : Nat)
    (hE : AgreeFrom m s Er E) (hH : AgreeFrom m s Hr H) :
    AgreeFrom m (s + 1) (forward (redCfg cf m b sf sb) (upperMat 0 m mt) (upperV 0 m jE) (upperV 0 m jH) Er Hr).1
        (forward cf mt jE jH E H).1 ∧
    AgreeFrom m (s + 1) (forward (redCfg cf m b sf sb) (upperMat 0 m mt) (upperV 0 m jE) (upperV 0 m jH) Er Hr).2
        (forward cf mt jE jH E H).2 := by
  have e : AgreeFrom m (s + 1) (stepE (redCfg cf m b sf sb) (upperMat 0 m mt) (upperV 0 m jE) Er Hr)
      (stepE cf mt jE E H) := by
    intro i hs hi
    exact stepE_agree h mt jE Er Hr E H i (by omega) (hE i (by omega) hi) (hH i (by omega) hi)
      (hH (i - 1) (by omega) (by omega))
  refine ⟨e, ?_⟩
  intro i hs hi
  exact stepH_agree h mt jH _ Hr _ H i hi (e i hs hi) (fun hl => e (i + 1) (by omega) hl) (hH i (by omega) hi)

/-- **C33_reduced_eq_restricted**: the full statement for a symmetry plane normal to x, inside the Yee model.
Full domain: `2m` cells along x, ANY non-periodic boundaries at its two x faces (zero halo, PEC, PMC, also different
ones at the two ends — nothing is assumed about the far face of the discarded half), anything transversally;
materials constant along x; initial state, sources and metric with the PEC-mirror parity.
Reduced domain: `m` cells, PEC wall on its min face (whatever halo rule), the same far face.  Then after `n` steps
  * the full state still has the parity in a window of `m - delay - n` pairs around the plane, and
  * the reduced run equals the upper half of the full run on every layer `i ≥ n + delay - m`:
    everywhere for `n ≤ m - delay`, and afterwards outside the cone that the asymmetry of the discarded half's far
    face (which starts at distance `m - delay`) has swept, one layer per step. -/
theorem C33_reduced_eq_restricted (h : RedOK cf m b sf sb) (mt : Mat K) (hx : XInv mt) (hmet : MetricSym cf m m)
    (jE jH Er Hr E H : V3 K) (sE : SymE m m E) (sH : SymH m m H) (sJE : SymE m m jE) (sJH : SymH m m jH)
    (hE : AgreeFrom m 0 Er E) (hH : AgreeFrom m 0 Hr H) (n : Nat) :
    let R := steps (redCfg cf m b sf sb) (upperMat 0 m mt) (upperV 0 m jE) (upperV 0 m jH) n (Er, Hr)
    let F := steps cf mt jE jH n (E, H)
    (SymE m (m - farDelay cf - n) F.1 ∧ SymH m (m - farDelay cf - n) F.2) ∧
      AgreeFrom m (n + farDelay cf - m) R.1 F.1 ∧ AgreeFrom m (n + farDelay cf - m) R.2 F.2 := by
  induction n with
  | zero =>
    refine ⟨⟨sE.mono (by omega), sH.mono (by omega)⟩, ?_, ?_⟩
    · have : 0 + farDelay cf - m = 0 := by have := h.hm; unfold farDelay; split_ifs <;> omega
      rw [this]; exact hE
    · have : 0 + farDelay cf - m = 0 := by have := h.hm; unfold farDelay; split_ifs <;> omega
      rw [this]; exact hH
  | succ n ih =>
    obtain ⟨⟨s1, s2⟩, a1, a2⟩ := ih
    have hd : farDelay cf ≤ 1 := by unfold farDelay; split_ifs <;> omega
    have hpec : m - farDelay cf - n = m → cf.bx.pecHi = false := by
      unfold farDelay
      split_ifs with hp
      · intro hh; have := h.hm; omega
      · intro _; simpa using hp
    have sym := mirror_window_step h.hn (m - farDelay cf - n) (by omega) hpec mt hx (hmet.mono (by omega)) jE jH _ _
      s1 s2 (sJE.mono (by omega)) (sJH.mono (by omega))
    have e1 : m - farDelay cf - n - 1 = m - farDelay cf - (n + 1) := by omega
    rw [e1] at sym
    refine ⟨sym, ?_⟩
    by_cases hin : n + farDelay cf < m
    · -- the plane is still inside the symmetric window
      have e2 : n + farDelay cf - m = 0 := by omega
      have e3 : n + 1 + farDelay cf - m = 0 := by omega
      rw [e2] at a1 a2
      rw [e3]
      have p := planeInv_of_sym (r := m - farDelay cf - n) (by omega) s1 s2 (sJE.mono (by omega))
      exact forward_agree_plane h mt jE jH _ _ _ _ p a1 a2
    · have e3 : n + 1 + farDelay cf - m = (n + farDelay cf - m) + 1 := by omega
      rw [e3]
      exact forward_agree_shrink h mt jE jH _ _ _ _ _ a1 a2

/-- corollary in the words of the property: for the first `m - delay` steps the reduced run IS the upper half of the
full run, and the lower half of the full run is its parity image (i.e. unfolding the reduced fields gives the full
fields) on the `m - delay - n` pairs next to the plane. -/
theorem C33_unfold (h : RedOK cf m b sf sb) (mt : Mat K) (hx : XInv mt) (hmet : MetricSym cf m m)
    (jE jH Er Hr E H : V3 K) (sE : SymE m m E) (sH : SymH m m H) (sJE : SymE m m jE) (sJH : SymH m m jH)
    (hE : AgreeFrom m 0 Er E) (hH : AgreeFrom m 0 Hr H) (n : Nat) (hn : n + farDelay cf ≤ m) :
    let R := steps (redCfg cf m b sf sb) (upperMat 0 m mt) (upperV 0 m jE) (upperV 0 m jH) n (Er, Hr)
    let F := steps cf mt jE jH n (E, H)
    (∀ i j k, i < m → R.1.x i j k = F.1.x (m + i) j k ∧ R.1.y i j k = F.1.y (m + i) j k ∧ R.1.z i j k = F.1.z (m + i) j k
        ∧ R.2.x i j k = F.2.x (m + i) j k ∧ R.2.y i j k = F.2.y (m + i) j k ∧ R.2.z i j k = F.2.z (m + i) j k) ∧
    (∀ d j k, d < m - farDelay cf - n →
        F.1.x (m - 1 - d) j k = R.1.x d j k ∧ F.1.y (m - d) j k = - R.1.y d j k ∧ F.1.z (m - d) j k = - R.1.z d j k
        ∧ F.2.x (m - d) j k = - R.2.x d j k ∧ F.2.y (m - 1 - d) j k = R.2.y d j k ∧ F.2.z (m - 1 - d) j k = R.2.z d j k) := by
  intro R F
  obtain ⟨⟨s1, s2⟩, a1, a2⟩ := C33_reduced_eq_restricted h mt hx hmet jE jH Er Hr E H sE sH sJE sJH hE hH n
  have e0 : n + farDelay cf - m = 0 := by omega
  rw [e0] at a1 a2
  refine ⟨fun i j k hi => ?_, fun d j k hd => ?_⟩
  · obtain ⟨x1, y1, z1⟩ := a1 i (by omega) hi j k
    obtain ⟨x2, y2, z2⟩ := a2 i (by omega) hi j k
    exact ⟨x1, y1, z1, x2, y2, z2⟩
  · obtain ⟨x1, y1, z1⟩ := a1 d (by omega) (by omega) j k
    obtain ⟨x2, y2, z2⟩ := a2 d (by omega) (by omega) j k
    refine ⟨?_, ?_, ?_, ?_, ?_, ?_⟩
    · rw [x1]; exact (s1.x d j k hd).symm
    · rw [y1, s1.y d j k hd, neg_neg]
    · rw [z1, s1.z d j k hd, neg_neg]
    · rw [x2, s2.x d j k hd, neg_neg]
    · rw [y2]; exact (s2.y d j k hd).symm
    · rw [z2]; exact (s2.z d j k hd).symm

/-- the model's reduction (`FdtdxModel/C33.lean`, the definition the correspondence check runs against fdtdx) is an
instance of `redCfg` that satisfies `RedOK` -/
theorem reduceCfg_ok (cf : Cfg K) (m : Nat) (hm : 0 < m) (hn : cf.nx = 2 * m) (hfar : cf.bx.wrap = false) :
    reduceCfg 0 cf = redCfg cf m (reduceAxis cf.bx) (fun i => cf.sfx (m + i))
        (fun i => if i = 0 then cf.sfx m else cf.sbx (m + i)) ∧
    RedOK cf m (reduceAxis cf.bx) (fun i => cf.sfx (m + i)) (fun i => if i = 0 then cf.sfx m else cf.sbx (m + i)) := by
  have hh : cf.nx / 2 = m := by omega
  refine ⟨by simp only [reduceCfg, redCfg, hh], ⟨hm, hn, hfar, ?_, rfl, rfl, rfl, rfl, fun _ => rfl, ?_⟩⟩
  · simpa [reduceAxis] using hfar
  · intro i hi
    have : i ≠ 0 := by omega
    simp [this]

/-- **C33_reduceCfg**: `C33_reduced_eq_restricted` for the model's own reduction of the full request: reduced
configuration `reduceCfg 0 cf`, reduced materials / sources / initial state = restriction to the upper half. -/
theorem C33_reduceCfg (cf : Cfg K) (m : Nat) (hm : 0 < m) (hn : cf.nx = 2 * m) (hfar : cf.bx.wrap = false)
    (mt : Mat K) (hx : XInv mt) (hmet : MetricSym cf m m)
    (jE jH E H : V3 K) (sE : SymE m m E) (sH : SymH m m H) (sJE : SymE m m jE) (sJH : SymH m m jH) (n : Nat) :
    let R := steps (reduceCfg 0 cf) (upperMat 0 m mt) (upperV 0 m jE) (upperV 0 m jH) n (upperV 0 m E, upperV 0 m H)
    let F := steps cf mt jE jH n (E, H)
    (SymE m (m - farDelay cf - n) F.1 ∧ SymH m (m - farDelay cf - n) F.2) ∧
      AgreeFrom m (n + farDelay cf - m) R.1 F.1 ∧ AgreeFrom m (n + farDelay cf - m) R.2 F.2 := by
  obtain ⟨e, ok⟩ := reduceCfg_ok cf m hm hn hfar
  rw [e]
  exact C33_reduced_eq_restricted ok mt hx hmet jE jH _ _ E H sE sH sJE sJH
    (fun i _ _ j k => ⟨rfl, rfl, rfl⟩) (fun i _ _ j k => ⟨rfl, rfl, rfl⟩) n

/-- a uniform grid, and any grid whose cell widths are mirror symmetric about the plane, has a symmetric metric -/
theorem metricSym_of_widths (cf : Cfg K) (m : Nat) (ref : K) (w : Nat → K)
    (hf : cf.sfx = metricFwd ref w) (hb : cf.sbx = metricBwd ref w)
    (hw : ∀ d, d < m → w (m + d) = w (m - 1 - d)) : MetricSym cf m m := by
  refine ⟨fun d hd => ?_, fun d h0 hd => ?_⟩
  · simp only [hf, metricFwd, hw d hd]
  · have h1 : m + d ≠ 0 := by omega
    have h2 : m - d ≠ 0 := by omega
    have e1 := hw d hd
    have e2 := hw (d - 1) (by omega)
    rw [show m + (d - 1) = m + d - 1 by omega, show m - 1 - (d - 1) = m - d by omega] at e2
    rw [show m - 1 - d = m - d - 1 by omega] at e1
    simp only [hb, metricBwd, h1, h2, if_false, e1, e2, add_comm]

/-- **C33_reduceCfg_y**: symmetry plane normal to y — `C33_reduceCfg` transported along the relabelling
(`rotV V` is `V` read with the y axis first: `(rotV V).x i j k = V.y k i j`, …; so `SymE m r (rotV E)` says that E_y is
even / half-offset and E_z, E_x odd / on-plane along the y index, and `AgreeFrom m s (rotV R) (rotV F)` compares the
reduced run with the upper half along y). -/
theorem C33_reduceCfg_y (cf : Cfg K) (m : Nat) (hm : 0 < m) (hn : cf.ny = 2 * m) (hfar : cf.by_.wrap = false)
    (mt : Mat K) (hx : XInv (rotMat mt)) (hmet : MetricSym (rotCfg cf) m m)
    (jE jH E H : V3 K) (sE : SymE m m (rotV E)) (sH : SymH m m (rotV H)) (sJE : SymE m m (rotV jE))
    (sJH : SymH m m (rotV jH)) (n : Nat) :
    let R := steps (reduceCfg 1 cf) (upperMat 1 m mt) (upperV 1 m jE) (upperV 1 m jH) n (upperV 1 m E, upperV 1 m H)
    let F := steps cf mt jE jH n (E, H)
    (SymE m (m - farDelay (rotCfg cf) - n) (rotV F.1) ∧ SymH m (m - farDelay (rotCfg cf) - n) (rotV F.2)) ∧
      AgreeFrom m (n + farDelay (rotCfg cf) - m) (rotV R.1) (rotV F.1) ∧
      AgreeFrom m (n + farDelay (rotCfg cf) - m) (rotV R.2) (rotV F.2) := by
  have key := C33_reduceCfg (rotCfg cf) m hm hn hfar (rotMat mt) hx hmet (rotV jE) (rotV jH) (rotV E) (rotV H)
    sE sH sJE sJH n
  rw [steps_rot cf mt jE jH E H n, ← reduceCfg_rot_y, ← upperMat_rot_y, ← upperV_rot_y, ← upperV_rot_y, ← upperV_rot_y,
    ← upperV_rot_y, steps_rot] at key
  exact key

/-- **C33_reduceCfg_z**: symmetry plane normal to z (two relabellings: `(rotV (rotV V)).x i j k = V.z j k i`). -/
theorem C33_reduceCfg_z (cf : Cfg K) (m : Nat) (hm : 0 < m) (hn : cf.nz = 2 * m) (hfar : cf.bz.wrap = false)
    (mt : Mat K) (hx : XInv (rotMat (rotMat mt))) (hmet : MetricSym (rotCfg (rotCfg cf)) m m)
    (jE jH E H : V3 K) (sE : SymE m m (rotV (rotV E))) (sH : SymH m m (rotV (rotV H)))
    (sJE : SymE m m (rotV (rotV jE))) (sJH : SymH m m (rotV (rotV jH))) (n : Nat) :
    let R := steps (reduceCfg 2 cf) (upperMat 2 m mt) (upperV 2 m jE) (upperV 2 m jH) n (upperV 2 m E, upperV 2 m H)
    let F := steps cf mt jE jH n (E, H)
    (SymE m (m - farDelay (rotCfg (rotCfg cf)) - n) (rotV (rotV F.1)) ∧
        SymH m (m - farDelay (rotCfg (rotCfg cf)) - n) (rotV (rotV F.2))) ∧
      AgreeFrom m (n + farDelay (rotCfg (rotCfg cf)) - m) (rotV (rotV R.1)) (rotV (rotV F.1)) ∧
      AgreeFrom m (n + farDelay (rotCfg (rotCfg cf)) - m) (rotV (rotV R.2)) (rotV (rotV F.2)) := by
  have key := C33_reduceCfg (rotCfg (rotCfg cf)) m hm hn hfar (rotMat (rotMat mt)) hx hmet (rotV (rotV jE))
    (rotV (rotV jH)) (rotV (rotV E)) (rotV (rotV H)) sE sH sJE sJH n
  rw [steps_rot (rotCfg cf) (rotMat mt) (rotV jE) (rotV jH) (rotV E) (rotV H) n, steps_rot cf mt jE jH E H n,
    ← reduceCfg_rot_z, ← upperMat_rot_z, ← upperV_rot_z, ← upperV_rot_z, ← upperV_rot_z, ← upperV_rot_z,
    steps_rot, steps_rot] at key
  exact key

/-! ### mirror-symmetric far faces: the parity is an invariant of the full run (no light cone) -/

/-- **mirror_invariant_step**: with mirror-symmetric far faces one `forward` step of the full domain maps
parity-symmetric states (all `m` pairs) to parity-symmetric states — no loss of window. -/
theorem mirror_invariant_step (hn : cf.nx = 2 * m) (hm : 0 < m) (hf : FarSym cf)
    (mt : Mat K) (hx : XInv mt) (hmet : MetricSym cf m m) (jE jH E H : V3 K)
    (sE : SymE m m E) (sH : SymH m m H) (sJE : SymE m m jE) (sJH : SymH m m jH) :
    SymE m m (forward cf mt jE jH E H).1 ∧ SymH m m (forward cf mt jE jH E H).2 := by
  have h1 := stepE_sym hn m (le_refl m) (fun _ => hf.pecHi) mt hx hmet jE E H sE sH sJE
  exact ⟨h1, stepH_sym_edge hn hm hf mt hx hmet jH _ H h1 sH sJH
    (fun j k => (stepE_farPec_zero hf mt jE E H j k).1) (fun j k => (stepE_farPec_zero hf mt jE E H j k).2)⟩

/-- **mirror_invariant**: parity-symmetric initial data, x-invariant materials, parity-symmetric sources and metric,
mirror-symmetric far faces ⇒ the full run is parity-symmetric after EVERY number of steps. -/
theorem mirror_invariant (hn : cf.nx = 2 * m) (hm : 0 < m) (hf : FarSym cf)
    (mt : Mat K) (hx : XInv mt) (hmet : MetricSym cf m m) (jE jH E H : V3 K)
    (sE : SymE m m E) (sH : SymH m m H) (sJE : SymE m m jE) (sJH : SymH m m jH) (n : Nat) :
    SymE m m (steps cf mt jE jH n (E, H)).1 ∧ SymH m m (steps cf mt jE jH n (E, H)).2 := by
  induction n with
  | zero => exact ⟨sE, sH⟩
  | succ n ih => exact mirror_invariant_step hn hm hf mt hx hmet jE jH _ _ ih.1 ih.2 sJE sJH

/-- **C33_symmetric_far_all_steps**: with mirror-symmetric far faces there is no light cone: the reduced run equals
the upper half of the full run on every layer after every number of steps. -/
theorem C33_symmetric_far_all_steps {b : AxisBC K} {sf sb : Nat → K} (h : RedOK cf m b sf sb) (hf : FarSym cf)
    (mt : Mat K) (hx : XInv mt) (hmet : MetricSym cf m m)
    (jE jH Er Hr E H : V3 K) (sE : SymE m m E) (sH : SymH m m H) (sJE : SymE m m jE) (sJH : SymH m m jH)
    (hE : AgreeFrom m 0 Er E) (hH : AgreeFrom m 0 Hr H) (n : Nat) :
    AgreeFrom m 0 (steps (redCfg cf m b sf sb) (upperMat 0 m mt) (upperV 0 m jE) (upperV 0 m jH) n (Er, Hr)).1
        (steps cf mt jE jH n (E, H)).1 ∧
    AgreeFrom m 0 (steps (redCfg cf m b sf sb) (upperMat 0 m mt) (upperV 0 m jE) (upperV 0 m jH) n (Er, Hr)).2
        (steps cf mt jE jH n (E, H)).2 := by
  induction n with
  | zero => exact ⟨hE, hH⟩
  | succ n ih =>
    obtain ⟨s1, s2⟩ := mirror_invariant h.hn h.hm hf mt hx hmet jE jH E H sE sH sJE sJH n
    exact forward_agree_plane h mt jE jH _ _ _ _ (planeInv_of_sym h.hm s1 s2 sJE) ih.1 ih.2

/-- the invariant for a plane normal to y (read through `rotV`) -/
theorem mirror_invariant_y (cf : Cfg K) (hn : cf.ny = 2 * m) (hm : 0 < m) (hf : FarSym (rotCfg cf))
    (mt : Mat K) (hx : XInv (rotMat mt)) (hmet : MetricSym (rotCfg cf) m m) (jE jH E H : V3 K)
    (sE : SymE m m (rotV E)) (sH : SymH m m (rotV H)) (sJE : SymE m m (rotV jE)) (sJH : SymH m m (rotV jH)) (n : Nat) :
    SymE m m (rotV (steps cf mt jE jH n (E, H)).1) ∧ SymH m m (rotV (steps cf mt jE jH n (E, H)).2) := by
  have key := mirror_invariant (cf := rotCfg cf) hn hm hf (rotMat mt) hx hmet (rotV jE) (rotV jH) (rotV E) (rotV H)
    sE sH sJE sJH n
  rwa [steps_rot] at key

/-- the invariant for a plane normal to z -/
theorem mirror_invariant_z (cf : Cfg K) (hn : cf.nz = 2 * m) (hm : 0 < m) (hf : FarSym (rotCfg (rotCfg cf)))
    (mt : Mat K) (hx : XInv (rotMat (rotMat mt))) (hmet : MetricSym (rotCfg (rotCfg cf)) m m) (jE jH E H : V3 K)
    (sE : SymE m m (rotV (rotV E))) (sH : SymH m m (rotV (rotV H))) (sJE : SymE m m (rotV (rotV jE)))
    (sJH : SymH m m (rotV (rotV jH))) (n : Nat) :
    SymE m m (rotV (rotV (steps cf mt jE jH n (E, H)).1)) ∧ SymH m m (rotV (rotV (steps cf mt jE jH n (E, H)).2)) := by
  have key := mirror_invariant (cf := rotCfg (rotCfg cf)) hn hm hf (rotMat (rotMat mt)) hx hmet (rotV (rotV jE))
    (rotV (rotV jH)) (rotV (rotV E)) (rotV (rotV H)) sE sH sJE sJH n
  rwa [steps_rot, steps_rot] at key


/-! ### several planes: the one-plane theorems compose -/

/-- **C33_two_planes_xy**: two electric planes (normal to x and to y) at once.  The quarter domain
`reduceCfg 1 (reduceCfg 0 cf)` — what `place_objects` builds for `config.symmetry = (-1,-1,0)`: one PEC wall per plane —
run on the restriction of the data to the quadrant equals the full run on the quadrant, on every cell outside the
light cones of the two discarded halves' far faces; derived from the one-plane theorems `C33_reduceCfg` (full → x-half)
and `C33_reduceCfg_y` (x-half → quadrant: the x-half domain is again a Yee configuration, and restriction along x
keeps the parity about the y plane).  Together with the two parity windows of the full run (same two theorems applied
to `cf` itself) this is "unfold of unfold = full". -/
theorem C33_two_planes_xy (cf : Cfg K) (mx my : Nat) (hmx : 0 < mx) (hmy : 0 < my)
    (hnx : cf.nx = 2 * mx) (hny : cf.ny = 2 * my) (hfx : cf.bx.wrap = false) (hfy : cf.by_.wrap = false)
    (mt : Mat K) (hxx : XInv mt) (hxy : XInv (rotMat mt))
    (hmetx : MetricSym cf mx mx) (hmety : MetricSym (rotCfg cf) my my) (jE jH E H : V3 K)
    (sEx : SymE mx mx E) (sHx : SymH mx mx H) (sJEx : SymE mx mx jE) (sJHx : SymH mx mx jH)
    (sEy : SymE my my (rotV E)) (sHy : SymH my my (rotV H)) (sJEy : SymE my my (rotV jE)) (sJHy : SymH my my (rotV jH))
    (n : Nat) :
    let R := steps (reduceCfg 1 (reduceCfg 0 cf)) (upperMat 1 my (upperMat 0 mx mt))
      (upperV 1 my (upperV 0 mx jE)) (upperV 1 my (upperV 0 mx jH)) n
      (upperV 1 my (upperV 0 mx E), upperV 1 my (upperV 0 mx H))
    let F := steps cf mt jE jH n (E, H)
    ∀ i j k, n + farDelay cf - mx ≤ i → i < mx → n + farDelay (rotCfg cf) - my ≤ j → j < my →
      (R.1.x i j k = F.1.x (mx + i) (my + j) k ∧ R.1.y i j k = F.1.y (mx + i) (my + j) k ∧
        R.1.z i j k = F.1.z (mx + i) (my + j) k) ∧
      (R.2.x i j k = F.2.x (mx + i) (my + j) k ∧ R.2.y i j k = F.2.y (mx + i) (my + j) k ∧
        R.2.z i j k = F.2.z (mx + i) (my + j) k) := by
  intro R F i j k hi hi' hj hj'
  obtain ⟨_, ax1, ax2⟩ := C33_reduceCfg cf mx hmx hnx hfx mt hxx hmetx jE jH E H sEx sHx sJEx sJHx n
  obtain ⟨_, ay1, ay2⟩ := C33_reduceCfg_y (reduceCfg 0 cf) my hmy hny hfy (upperMat 0 mx mt) (hxy.upper_x mx)
    ⟨hmety.sf, hmety.sb⟩ (upperV 0 mx jE) (upperV 0 mx jH) (upperV 0 mx E) (upperV 0 mx H)
    (sEy.upper_x mx) (sHy.upper_x mx) (sJEy.upper_x mx) (sJHy.upper_x mx) n
  obtain ⟨x1, y1, z1⟩ := ax1 i hi hi' (my + j) k
  obtain ⟨x2, y2, z2⟩ := ax2 i hi hi' (my + j) k
  obtain ⟨p1, q1, r1⟩ := ay1 j hj hj' k i
  obtain ⟨p2, q2, r2⟩ := ay2 j hj hj' k i
  exact ⟨⟨r1.trans x1, p1.trans y1, q1.trans z1⟩, ⟨r2.trans x2, p2.trans y2, q2.trans z2⟩⟩


/-- **C33_three_planes**: three electric planes at once (`config.symmetry = (-1,-1,-1)`): the octant domain
`reduceCfg 2 (reduceCfg 1 (reduceCfg 0 cf))` run on the restriction of the data to the octant equals the full run on the
octant, outside the three light cones; `C33_two_planes_xy` followed by `C33_reduceCfg_z` on the quarter domain. -/
theorem C33_three_planes (cf : Cfg K) (mx my mz : Nat) (hmx : 0 < mx) (hmy : 0 < my) (hmz : 0 < mz)
    (hnx : cf.nx = 2 * mx) (hny : cf.ny = 2 * my) (hnz : cf.nz = 2 * mz)
    (hfx : cf.bx.wrap = false) (hfy : cf.by_.wrap = false) (hfz : cf.bz.wrap = false)
    (mt : Mat K) (hxx : XInv mt) (hxy : XInv (rotMat mt)) (hxz : XInv (rotMat (rotMat mt)))
    (hmetx : MetricSym cf mx mx) (hmety : MetricSym (rotCfg cf) my my) (hmetz : MetricSym (rotCfg (rotCfg cf)) mz mz)
    (jE jH E H : V3 K)
    (sEx : SymE mx mx E) (sHx : SymH mx mx H) (sJEx : SymE mx mx jE) (sJHx : SymH mx mx jH)
    (sEy : SymE my my (rotV E)) (sHy : SymH my my (rotV H)) (sJEy : SymE my my (rotV jE)) (sJHy : SymH my my (rotV jH))
    (sEz : SymE mz mz (rotV (rotV E))) (sHz : SymH mz mz (rotV (rotV H))) (sJEz : SymE mz mz (rotV (rotV jE)))
    (sJHz : SymH mz mz (rotV (rotV jH))) (n : Nat) :
    let U := fun V : V3 K => upperV 2 mz (upperV 1 my (upperV 0 mx V))
    let R := steps (reduceCfg 2 (reduceCfg 1 (reduceCfg 0 cf))) (upperMat 2 mz (upperMat 1 my (upperMat 0 mx mt)))
      (U jE) (U jH) n (U E, U H)
    let F := steps cf mt jE jH n (E, H)
    ∀ i j k, n + farDelay cf - mx ≤ i → i < mx → n + farDelay (rotCfg cf) - my ≤ j → j < my →
      n + farDelay (rotCfg (rotCfg cf)) - mz ≤ k → k < mz →
      (R.1.x i j k = F.1.x (mx + i) (my + j) (mz + k) ∧ R.1.y i j k = F.1.y (mx + i) (my + j) (mz + k) ∧
        R.1.z i j k = F.1.z (mx + i) (my + j) (mz + k)) ∧
      (R.2.x i j k = F.2.x (mx + i) (my + j) (mz + k) ∧ R.2.y i j k = F.2.y (mx + i) (my + j) (mz + k) ∧
        R.2.z i j k = F.2.z (mx + i) (my + j) (mz + k)) := by
  intro U R F i j k hi hi' hj hj' hk hk'
  obtain ⟨⟨x1, y1, z1⟩, ⟨x2, y2, z2⟩⟩ := C33_two_planes_xy cf mx my hmx hmy hnx hny hfx hfy mt hxx hxy hmetx hmety
    jE jH E H sEx sHx sJEx sJHx sEy sHy sJEy sJHy n i j (mz + k) hi hi' hj hj'
  obtain ⟨_, az1, az2⟩ := C33_reduceCfg_z (reduceCfg 1 (reduceCfg 0 cf)) mz hmz hnz hfz
    (upperMat 1 my (upperMat 0 mx mt)) (hxz.upper_xy mx my) ⟨hmetz.sf, hmetz.sb⟩
    (upperV 1 my (upperV 0 mx jE)) (upperV 1 my (upperV 0 mx jH)) (upperV 1 my (upperV 0 mx E))
    (upperV 1 my (upperV 0 mx H)) (sEz.upper_xy mx my) (sHz.upper_xy mx my) (sJEz.upper_xy mx my)
    (sJHz.upper_xy mx my) n
  obtain ⟨p1, q1, r1⟩ := az1 k hk hk' i j
  obtain ⟨p2, q2, r2⟩ := az2 k hk hk' i j
  exact ⟨⟨q1.trans x1, r1.trans y1, p1.trans z1⟩, ⟨q2.trans x2, r2.trans y2, p2.trans z2⟩⟩

end

/-! ### non-vacuity: a concrete non-trivial parity-symmetric state on a 4×2×2 domain (m = 2), far faces PMC / none -/

def exCfg : Cfg ℚ :=
  { nx := 4, ny := 2, nz := 2,
    bx := ⟨false, 1, 1, false, false, true, false⟩, by_ := ⟨true, 1, 1, false, false, false, false⟩,
    bz := ⟨false, 1, 1, true, false, false, false⟩,
    sfx := fun _ => 1, sfy := fun _ => 1, sfz := fun _ => 1, sbx := fun _ => 1, sby := fun _ => 1, sbz := fun _ => 1,
    c := 1 / 2, eta0 := 1 }

def exE : V3 ℚ :=
  { x := fun i j k => ((i : ℚ) - 3 / 2) ^ 2 + j, y := fun i j k => ((i : ℚ) - 2) * (1 + k), z := fun i j _ => ((i : ℚ) - 2) * (2 + j) }
def exH : V3 ℚ :=
  { x := fun i _ k => ((i : ℚ) - 2) * (3 + k), y := fun i j _ => ((i : ℚ) - 3 / 2) ^ 2 * (1 + j), z := fun _ j k => 5 + j + k }

example : SymE 2 2 exE := by
  constructor
  · intro d j k hd; interval_cases d <;> norm_num [exE]
  · intro d j k hd; interval_cases d <;> norm_num [exE]
  · intro d j k hd; interval_cases d <;> norm_num [exE]
  · intro j k _; norm_num [exE]
  · intro j k _; norm_num [exE]

example : SymH 2 2 exH := by
  constructor
  · intro d j k hd; interval_cases d <;> norm_num [exH]
  · intro j k _; norm_num [exH]
  · intro d j k hd; interval_cases d <;> norm_num [exH]
  · intro d j k hd; interval_cases d <;> norm_num [exH]

example : MetricSym exCfg 2 2 := ⟨fun _ _ => rfl, fun _ _ _ => rfl⟩
example : XInv (K := ℚ) ⟨constV 2, constV 1, some (constV (1 / 3)), none⟩ := by
  constructor <;> intros <;> first | rfl | (simp only [Option.some.injEq] at *; subst_vars; rfl) | (simp at *)
example : RedOK exCfg 2 (reduceAxis exCfg.bx) (fun i => exCfg.sfx (2 + i))
    (fun i => if i = 0 then exCfg.sfx 2 else exCfg.sbx (2 + i)) :=
  (reduceCfg_ok exCfg 2 (by decide) rfl rfl).2
/-- the y-axis statement is not vacuous either: a field whose relabelling is `exE` -/
def unrotV (V : V3 ℚ) : V3 ℚ :=
  { x := fun a b c => V.z b c a, y := fun a b c => V.x b c a, z := fun a b c => V.y b c a }
example : rotV (unrotV exE) = exE := rfl
example : rotV (rotV (unrotV (unrotV exH))) = exH := rfl
example : SymE (K := ℚ) 2 2 (constV 0) ∧ SymH (K := ℚ) 2 2 (constV 0) := by
  constructor <;> constructor <;> intros <;> simp [constV]


/-! ### non-vacuity of the invariant and of the several-plane theorems -/

/-- mirror-symmetric far faces: PEC layer at the min x face, nothing at the max face -/
def exCfgSym : Cfg ℚ := { exCfg with bx := ⟨false, 1, 1, true, false, false, false⟩, ny := 4, by_ := ⟨false, 1, 1, false, true, false, false⟩ }
example : FarSym exCfgSym := ⟨rfl, rfl, rfl, rfl⟩

/-- a state with the PEC-mirror parity about the plane x = 2 AND about the plane y = 2 of a 4×4×2 domain -/
def exE2 : V3 ℚ :=
  { x := fun i j _ => ((i : ℚ) - 3 / 2) ^ 2 * ((j : ℚ) - 2), y := fun i j _ => ((i : ℚ) - 2) * ((j : ℚ) - 3 / 2) ^ 2,
    z := fun i j k => ((i : ℚ) - 2) * ((j : ℚ) - 2) * (1 + k) }
def exH2 : V3 ℚ :=
  { x := fun i j _ => ((i : ℚ) - 2) * ((j : ℚ) - 3 / 2) ^ 2, y := fun i j _ => ((i : ℚ) - 3 / 2) ^ 2 * ((j : ℚ) - 2),
    z := fun i j k => ((i : ℚ) - 3 / 2) ^ 2 * ((j : ℚ) - 3 / 2) ^ 2 + k }

example : SymE 2 2 exE2 ∧ SymE 2 2 (rotV exE2) := by
  refine ⟨⟨?_, ?_, ?_, ?_, ?_⟩, ⟨?_, ?_, ?_, ?_, ?_⟩⟩
  all_goals first
    | (intro d j k hd; interval_cases d <;> norm_num [exE2, rotV, rotF] <;> (try ring))
    | (intro j k _; norm_num [exE2, rotV, rotF])

example : SymH 2 2 exH2 ∧ SymH 2 2 (rotV exH2) := by
  refine ⟨⟨?_, ?_, ?_, ?_⟩, ⟨?_, ?_, ?_, ?_⟩⟩
  all_goals first
    | (intro d j k hd; interval_cases d <;> norm_num [exH2, rotV, rotF] <;> (try ring))
    | (intro j k _; norm_num [exH2, rotV, rotF])

example : MetricSym exCfgSym 2 2 ∧ MetricSym (rotCfg exCfgSym) 2 2 := ⟨⟨fun _ _ => rfl, fun _ _ _ => rfl⟩, ⟨fun _ _ => rfl, fun _ _ _ => rfl⟩⟩
example : XInv (rotMat (K := ℚ) ⟨constV 2, constV 1, none, none⟩) := by
  constructor <;> intros <;> first | rfl | (simp [rotMat] at *)

end Fdtdx.C33
