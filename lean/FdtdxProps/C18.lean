/-
C18 — Device parameters map to materials exactly as documented.

Property theorems about `FdtdxModel/C18.lean` (any grid, any number of devices in any arrangement — overlapping
or not —, any tables, any parameter values, any history length; scalars in an arbitrary field, ordered where a
range is claimed):

  C18_outside_unchanged     a cell outside every device slice keeps its inverse permittivity (the etch backup
                            where one exists — which is the current value under the invariant `C18_backup_invariant`)
                            and its dispersive coefficients
  C18_device_cell           a cell of device d not covered by a later device gets `cellInv d` / `cellCoef d` of the
                            design cell ((i−lo)/v, …)                      (painter's order, expand_matrix index law)
  C18_continuous_formula    continuous, 1 or 3 components: inv = 1/(ε₀ + x(ε₁ − ε₀))
  C18_continuous_range      … and for 0 ≤ x ≤ 1, ε₀, ε₁ > 0 it lies in [min(1/ε₀,1/ε₁), max(1/ε₀,1/ε₁)]
  C18_etch_formula / C18_etch_endpoints   etched: inv = 1/(bg + x(ε₀ − bg)), bg = 1/current; x = 0 keeps the cell,
                            x = 1 gives 1/ε₀, in between it stays between the two
  C18_discrete_material     discrete: every component = 1/ε_m,c and every coefficient channel = table[m] for ONE m
  C18_discrete_index_range  … and m < n for the ClosestIndex chain
  C18_history               applyParams X₂ (applyParams X₁ s) = applyParams X₂ s when a backup exists or no device
                            is etched (place_objects creates the backup iff a device is etched)
  C18_history_any_length    hence any non-empty history equals its last parameter set
  C18_repeat_index          jnp.repeat model: (repeat l n)[i] = l[i / n]          (expand_matrix index law)
  C18_inv3_left             the 9-component `_invert_property` model is a matrix inverse when det ≠ 0
-/
import FdtdxModel.C18
import Mathlib.Tactic.Ring
import Mathlib.Tactic.Linarith
import Mathlib.Tactic.FieldSimp
import Mathlib.Algebra.Order.Field.Basic
import Mathlib.Tactic.IntervalCases

namespace Fdtdx.C18
set_option linter.unusedSectionVars false
set_option linter.unusedVariables false

variable {K : Type} [Field K]

/-! ### structure of the loop -/

theorem applyLoop_init (C : ℕ) : ∀ (devs : List (Dev K)) X (s : State K),
    (applyLoop C devs X s).init = s.init := by
  intro devs
  induction devs with
  | nil => intro X s; rfl
  | cons d ds ih => intro X s; simp only [applyLoop]; rw [ih]; rfl

theorem resetInv_init (s : State K) : (resetInv s).init = s.init := by
  unfold resetInv; cases h : s.init <;> simp [h]

theorem resetInv_coef (s : State K) : (resetInv s).coef = s.coef := by
  unfold resetInv; cases h : s.init <;> simp

theorem applyParams_init (C : ℕ) (devs : List (Dev K)) X (s : State K) :
    (applyParams C devs X s).init = s.init := by
  unfold applyParams; rw [applyLoop_init, resetInv_init]

theorem applyLoop_outside (C : ℕ) : ∀ (devs : List (Dev K)) X (s : State K) (i j k : ℕ),
    (∀ d ∈ devs, inSlice d i j k = false) →
    (∀ c, (applyLoop C devs X s).inv c i j k = s.inv c i j k) ∧
    (∀ q, (applyLoop C devs X s).coef q i j k = s.coef q i j k) := by
  intro devs
  induction devs with
  | nil => intro X s i j k _; exact ⟨fun _ => rfl, fun _ => rfl⟩
  | cons d ds ih =>
    intro X s i j k h
    have hd : inSlice d i j k = false := h d (List.mem_cons_self)
    have hds : ∀ d' ∈ ds, inSlice d' i j k = false := fun d' hd' => h d' (List.mem_cons_of_mem _ hd')
    obtain ⟨h1, h2⟩ := ih (fun n => X (n + 1)) (applyDevice C d (X 0) s) i j k hds
    simp only [applyLoop]
    constructor
    · intro c; rw [h1]; simp [applyDevice, hd]
    · intro q; rw [h2]; simp [applyDevice, hd]

theorem applyLoop_append (C : ℕ) : ∀ (pre post : List (Dev K)) X (s : State K),
    applyLoop C (pre ++ post) X s
      = applyLoop C post (fun n => X (n + pre.length)) (applyLoop C pre X s) := by
  intro pre
  induction pre with
  | nil => intro post X s; simp [applyLoop]
  | cons d ds ih =>
    intro post X s
    simp only [List.cons_append, applyLoop, List.length_cons]
    rw [ih]
    congr 1

/-! ### cells outside every device -/

/-- cells outside every device slice: inverse permittivity = the reset array (backup if present, else the
current array), dispersive coefficients unchanged -/
theorem C18_outside_unchanged (C : ℕ) (devs : List (Dev K)) X (s : State K) (i j k : ℕ)
    (hout : ∀ d ∈ devs, inSlice d i j k = false) :
    (∀ c, (applyParams C devs X s).inv c i j k = (resetInv s).inv c i j k) ∧
    (∀ q, (applyParams C devs X s).coef q i j k = s.coef q i j k) ∧
    (s.init = none → ∀ c, (applyParams C devs X s).inv c i j k = s.inv c i j k) ∧
    (∀ I, s.init = some I → ∀ c, (applyParams C devs X s).inv c i j k = I c i j k) := by
  obtain ⟨h1, h2⟩ := applyLoop_outside C devs X (resetInv s) i j k hout
  refine ⟨h1, ?_, ?_, ?_⟩
  · intro q; unfold applyParams; rw [h2, resetInv_coef]
  · intro hn c; unfold applyParams; rw [h1]; simp [resetInv, hn]
  · intro I hI c; unfold applyParams; rw [h1]; simp [resetInv, hI]

/-- the invariant under which "reset to the backup" does not change cells outside devices: the current array
agrees with the backup there.  It holds after place_objects (backup = copy) and after every applyParams. -/
def BackupInv (devs : List (Dev K)) (s : State K) : Prop :=
  ∀ I, s.init = some I → ∀ c i j k, (∀ d ∈ devs, inSlice d i j k = false) → s.inv c i j k = I c i j k

theorem C18_backup_invariant (C : ℕ) (devs : List (Dev K)) X (s : State K) :
    BackupInv devs (applyParams C devs X s) ∧
    (BackupInv devs s → ∀ c i j k, (∀ d ∈ devs, inSlice d i j k = false) →
      (applyParams C devs X s).inv c i j k = s.inv c i j k) := by
  constructor
  · intro I hI c i j k hout
    rw [applyParams_init] at hI
    exact (C18_outside_unchanged C devs X s i j k hout).2.2.2 I hI c
  · intro hinv c i j k hout
    obtain ⟨_, _, hnone, hsome⟩ := C18_outside_unchanged C devs X s i j k hout
    cases h : s.init with
    | none => exact hnone h c
    | some I => rw [hsome I h c, hinv I h c i j k hout]

/-! ### cells of a device -/

/-- painter's order + index law: a cell in the slice of `d` that no later device covers -/
theorem C18_device_cell (C : ℕ) (pre post : List (Dev K)) (d : Dev K) X (s : State K) (i j k : ℕ)
    (hin : inSlice d i j k = true) (hpost : ∀ d' ∈ post, inSlice d' i j k = false) :
    (∀ c, (applyParams C (pre ++ d :: post) X s).inv c i j k
        = cellInv d C (fun c' => (applyLoop C pre X (resetInv s)).inv c' i j k)
            (designVal d (X pre.length) i j k).1 (designVal d (X pre.length) i j k).2 c) ∧
    (∀ q, (applyParams C (pre ++ d :: post) X s).coef q i j k
        = cellCoef d (designVal d (X pre.length) i j k).1 (designVal d (X pre.length) i j k).2 q) := by
  unfold applyParams
  rw [applyLoop_append]
  simp only [applyLoop]
  obtain ⟨h1, h2⟩ := applyLoop_outside C post (fun n => X (n + 1 + pre.length))
    (applyDevice C d (X (0 + pre.length)) (applyLoop C pre X (resetInv s))) i j k hpost
  constructor
  · intro c; rw [h1]; simp [applyDevice, hin]
  · intro q; rw [h2]; simp [applyDevice, hin]

/-- `designVal` is the index law of `expand_matrix`: simulation cell (i,j,k) reads design cell ((i−lo)/v, …) -/
theorem designVal_eq {β : Type} (d : Dev K) (X : ℕ → ℕ → ℕ → β) (i j k : ℕ) :
    designVal d X i j k = X ((i - d.lo.1) / d.v.1) ((j - d.lo.2.1) / d.v.2.1) ((k - d.lo.2.2) / d.v.2.2) := rfl

/-- continuous device, 1 or 3 components -/
theorem C18_continuous_formula (C : ℕ) (hC : C ≠ 9) (d : Dev K) (hm : d.mode = Mode.cont)
    (cur : ℕ → K) (x : K) (m c : ℕ) :
    cellInv d C cur x m c = 1 / (entry d.perm 0 c + x * (entry d.perm 1 c - entry d.perm 0 c)) := by
  simp [cellInv, hm, invProp, hC]

/-- etched device, 1 or 3 components: blend between the existing material and the etch material -/
theorem C18_etch_formula (C : ℕ) (hC : C ≠ 9) (d : Dev K) (hm : d.mode = Mode.etch)
    (cur : ℕ → K) (x : K) (m c : ℕ) :
    cellInv d C cur x m c = 1 / (1 / cur c + x * (entry d.perm 0 c - 1 / cur c)) := by
  simp [cellInv, hm, invProp, hC]

/-- discrete device: ONE material index `m` for every component and every coefficient channel -/
theorem C18_discrete_material (C : ℕ) (hC : C ≠ 9) (d : Dev K) (hm : d.mode = Mode.disc)
    (cur : ℕ → K) (x : K) (m : ℕ) :
    (∀ c, cellInv d C cur x m c = 1 / entry d.perm m c) ∧ (∀ q, cellCoef d x m q = entry d.coef m q) := by
  constructor
  · intro c; simp [cellInv, hm, invProp, hC, C19.ste]
  · intro q; simp [cellCoef, hm]

/-- full tensors, discrete: the inverse of the selected material's tensor -/
theorem C18_discrete_material_full (d : Dev K) (hm : d.mode = Mode.disc) (cur : ℕ → K) (x : K) (m c : ℕ) :
    cellInv d 9 cur x m c = inv3 (fun c' => entry d.perm m c') c := by
  simp [cellInv, hm, invProp, C19.ste]

/-- the material index produced by the `ClosestIndex` chain is a valid row of the table -/
theorem C18_discrete_index_range {α : Type} [Sub α] [Div α] [LT α] [DecidableLT α] [OfNat α 1] [OfNat α 2]
    (floorI : α → ℤ) (cast : ℤ → α) (n : ℕ) (hn : 0 < n) (x : α) :
    (chainOut floorI cast (Chain.closest n) x).2 < n := by
  simp only [chainOut, C19.closestRound, C19.clipI]
  omega

/-- continuous coefficients: the linear blend of the two materials' coefficient rows -/
theorem C18_continuous_coef (d : Dev K) (hm : d.mode ≠ Mode.disc) (x : K) (m q : ℕ) :
    cellCoef d x m q = (1 - x) * entry d.coef 0 q + x * entry d.coef 1 q := by
  cases h : d.mode <;> simp_all [cellCoef]

section ordered
variable [LinearOrder K] [IsStrictOrderedRing K]

/-- the inverse of a convex combination of two positive numbers lies between their inverses -/
theorem C18_continuous_range (e0 e1 x : K) (h0 : 0 < e0) (h1 : 0 < e1) (hx0 : 0 ≤ x) (hx1 : x ≤ 1) :
    min (1 / e0) (1 / e1) ≤ 1 / (e0 + x * (e1 - e0)) ∧ 1 / (e0 + x * (e1 - e0)) ≤ max (1 / e0) (1 / e1) := by
  rcases le_total e0 e1 with h | h
  · have hb0 : e0 ≤ e0 + x * (e1 - e0) := by nlinarith
    have hb1 : e0 + x * (e1 - e0) ≤ e1 := by nlinarith
    have hbpos : 0 < e0 + x * (e1 - e0) := lt_of_lt_of_le h0 hb0
    constructor
    · exact le_trans (min_le_right _ _) (one_div_le_one_div_of_le hbpos hb1)
    · exact le_trans (one_div_le_one_div_of_le h0 hb0) (le_max_left _ _)
  · have hb0 : e1 ≤ e0 + x * (e1 - e0) := by nlinarith
    have hb1 : e0 + x * (e1 - e0) ≤ e0 := by nlinarith
    have hbpos : 0 < e0 + x * (e1 - e0) := lt_of_lt_of_le h1 hb0
    constructor
    · exact le_trans (min_le_left _ _) (one_div_le_one_div_of_le hbpos hb1)
    · exact le_trans (one_div_le_one_div_of_le h1 hb0) (le_max_right _ _)

example : (0 : ℚ) < 2 ∧ (0 : ℚ) < 5 ∧ (0 : ℚ) ≤ 1 / 3 ∧ (1 / 3 : ℚ) ≤ 1 := by norm_num

/-- etched cell: x = 0 leaves the cell as it is, x = 1 gives the etch material, otherwise in between -/
theorem C18_etch_endpoints (cur e0 x : K) (hc : 0 < cur) (h0 : 0 < e0) :
    1 / (1 / cur + 0 * (e0 - 1 / cur)) = cur ∧
    1 / (1 / cur + 1 * (e0 - 1 / cur)) = 1 / e0 ∧
    (0 ≤ x → x ≤ 1 →
      min cur (1 / e0) ≤ 1 / (1 / cur + x * (e0 - 1 / cur)) ∧
      1 / (1 / cur + x * (e0 - 1 / cur)) ≤ max cur (1 / e0)) := by
  have hne : cur ≠ 0 := ne_of_gt hc
  refine ⟨by rw [zero_mul, add_zero, one_div_one_div], by congr 1; ring, ?_⟩
  intro hx0 hx1
  have hpos : 0 < 1 / cur := one_div_pos.mpr hc
  have := C18_continuous_range (1 / cur) e0 x hpos h0 hx0 hx1
  rwa [one_div_one_div] at this

end ordered

/-! ### history independence -/

/-- with identical inverse permittivities and coefficients that agree outside the device slices, the loop gives
identical results (every device overwrites its coefficient slice without reading it) -/
theorem applyLoop_congr_inv (C : ℕ) : ∀ (devs : List (Dev K)) X (s s' : State K),
    s.inv = s'.inv →
    (∀ q i j k, (∀ d ∈ devs, inSlice d i j k = false) → s.coef q i j k = s'.coef q i j k) →
    (applyLoop C devs X s).inv = (applyLoop C devs X s').inv ∧
    (applyLoop C devs X s).coef = (applyLoop C devs X s').coef := by
  intro devs
  induction devs with
  | nil =>
    intro X s s' hi hc
    refine ⟨hi, ?_⟩
    funext q i j k
    exact hc q i j k (by simp)
  | cons d ds ih =>
    intro X s s' hi hc
    simp only [applyLoop]
    apply ih
    · simp [applyDevice, hi]
    · intro q i j k hds
      by_cases hd : inSlice d i j k = true
      · simp [applyDevice, hd]
      · have hd' : inSlice d i j k = false := by simpa using hd
        simp only [applyDevice, hd']
        apply hc q i j k
        intro d' hd'mem
        rcases List.mem_cons.mp hd'mem with rfl | h
        · exact hd'
        · exact hds d' h

/-- without etched devices the loop result depends only on the cells outside the device slices -/
theorem applyLoop_congr_noetch (C : ℕ) : ∀ (devs : List (Dev K)) X (s s' : State K),
    (∀ d ∈ devs, d.mode ≠ Mode.etch) →
    (∀ c i j k, (∀ d ∈ devs, inSlice d i j k = false) → s.inv c i j k = s'.inv c i j k) →
    (∀ q i j k, (∀ d ∈ devs, inSlice d i j k = false) → s.coef q i j k = s'.coef q i j k) →
    (applyLoop C devs X s).inv = (applyLoop C devs X s').inv ∧
    (applyLoop C devs X s).coef = (applyLoop C devs X s').coef := by
  intro devs
  induction devs with
  | nil =>
    intro X s s' _ hi hc
    constructor
    · funext c i j k; exact hi c i j k (by simp)
    · funext q i j k; exact hc q i j k (by simp)
  | cons d ds ih =>
    intro X s s' hne hi hc
    simp only [applyLoop]
    have hdm : d.mode ≠ Mode.etch := hne d List.mem_cons_self
    apply ih _ _ _ (fun d' h => hne d' (List.mem_cons_of_mem _ h))
    · intro c i j k hds
      by_cases hd : inSlice d i j k = true
      · simp only [applyDevice, hd, if_true]
        cases hmode : d.mode with
        | cont => simp [cellInv, hmode]
        | etch => exact absurd hmode hdm
        | disc => simp [cellInv, hmode]
      · have hd' : inSlice d i j k = false := by simpa using hd
        simp only [applyDevice, hd']
        apply hi c i j k
        intro d' hd'mem
        rcases List.mem_cons.mp hd'mem with rfl | h
        · exact hd'
        · exact hds d' h
    · intro q i j k hds
      by_cases hd : inSlice d i j k = true
      · simp [applyDevice, hd]
      · have hd' : inSlice d i j k = false := by simpa using hd
        simp only [applyDevice, hd']
        apply hc q i j k
        intro d' hd'mem
        rcases List.mem_cons.mp hd'mem with rfl | h
        · exact hd'
        · exact hds d' h

theorem State.ext' (a b : State K) (h1 : a.inv = b.inv) (h2 : a.init = b.init) (h3 : a.coef = b.coef) : a = b := by
  cases a; cases b; simp_all

/-- applying a second parameter set forgets the first one: the backup makes etched devices history-free, and
without etched devices (no backup is needed) every device cell is overwritten.  `place_objects` creates the
backup exactly when some device is etched, so the hypothesis always holds for its arrays. -/
theorem C18_history (C : ℕ) (devs : List (Dev K)) X₁ X₂ (s : State K)
    (h : s.init.isSome ∨ ∀ d ∈ devs, d.mode ≠ Mode.etch) :
    applyParams C devs X₂ (applyParams C devs X₁ s) = applyParams C devs X₂ s := by
  have hinit : (applyParams C devs X₁ s).init = s.init := applyParams_init C devs X₁ s
  have hcoef : ∀ q i j k, (∀ d ∈ devs, inSlice d i j k = false) →
      (resetInv (applyParams C devs X₁ s)).coef q i j k = (resetInv s).coef q i j k := by
    intro q i j k hout
    rw [resetInv_coef, resetInv_coef]
    exact (C18_outside_unchanged C devs X₁ s i j k hout).2.1 q
  cases hs : s.init with
  | some I =>
    have hinv : (resetInv (applyParams C devs X₁ s)).inv = (resetInv s).inv := by
      simp [resetInv, hinit, hs]
    obtain ⟨r1, r2⟩ := applyLoop_congr_inv C devs X₂ _ _ hinv hcoef
    apply State.ext'
    · exact r1
    · rw [applyParams_init, applyParams_init, applyParams_init]
    · exact r2
  | none =>
    have hne : ∀ d ∈ devs, d.mode ≠ Mode.etch := by
      rcases h with h | h
      · simp [hs] at h
      · exact h
    have hinv : ∀ c i j k, (∀ d ∈ devs, inSlice d i j k = false) →
        (resetInv (applyParams C devs X₁ s)).inv c i j k = (resetInv s).inv c i j k := by
      intro c i j k hout
      have e1 : resetInv (applyParams C devs X₁ s) = applyParams C devs X₁ s := by
        simp [resetInv, hinit, hs]
      have e2 : resetInv s = s := by simp [resetInv, hs]
      rw [e1, e2]
      exact (C18_outside_unchanged C devs X₁ s i j k hout).2.2.1 hs c
    obtain ⟨r1, r2⟩ := applyLoop_congr_noetch C devs X₂ _ _ hne hinv hcoef
    apply State.ext'
    · exact r1
    · rw [applyParams_init, applyParams_init, applyParams_init]
    · exact r2

example : (⟨fun _ _ _ _ => (1 : ℚ), some (fun _ _ _ _ => 1), fun _ _ _ _ => 0⟩ : State ℚ).init.isSome = true := rfl

/-- a whole history of parameter sets -/
def applyHistory (C : ℕ) (devs : List (Dev K)) :
    List (ℕ → ℕ → ℕ → ℕ → K × ℕ) → State K → State K
  | [], s => s
  | X :: Xs, s => applyHistory C devs Xs (applyParams C devs X s)

/-- any non-empty history leaves the same materials as its last parameter set alone -/
theorem C18_history_any_length (C : ℕ) (devs : List (Dev K)) :
    ∀ (Xs : List (ℕ → ℕ → ℕ → ℕ → K × ℕ)) (X : ℕ → ℕ → ℕ → ℕ → K × ℕ) (s : State K),
    (s.init.isSome ∨ ∀ d ∈ devs, d.mode ≠ Mode.etch) →
    applyHistory C devs (Xs ++ [X]) s = applyParams C devs X s := by
  intro Xs
  induction Xs with
  | nil => intro X s _; simp [applyHistory]
  | cons Y Ys ih =>
    intro X s h
    simp only [List.cons_append, applyHistory]
    have h' : (applyParams C devs Y s).init.isSome ∨ ∀ d ∈ devs, d.mode ≠ Mode.etch := by
      rw [applyParams_init]; exact h
    rw [ih X _ h']
    exact C18_history C devs Y X s h

/-! ### known finding: etched devices and dispersive backgrounds

Not shown (and false for the code as found): "an etched device with x = 0 leaves its cells unmodified" for the
dispersive coefficient arrays.  The coefficient write does not look at the existing coefficients, so the etched
device replaces them by its own material's row whatever x is.  Machine-checked witness on the model (one cell,
one coefficient channel, existing coefficient 1, etch material non-dispersive = row [0], x = 0): -/

def etchWitnessDev : Dev ℚ :=
  { lo := (0, 0, 0), hi := (1, 1, 1), v := (1, 1, 1), mode := Mode.etch, chain := Chain.ident,
    perm := [[1]], coef := [[0]] }

example :
    let s : State ℚ := ⟨fun _ _ _ _ => 1 / 4, some (fun _ _ _ _ => 1 / 4), fun _ _ _ _ => 1⟩
    let s' := applyParams 1 [etchWitnessDev] (fun _ _ _ _ => (0, 0)) s
    s'.inv 0 0 0 0 = s.inv 0 0 0 0 ∧ s'.coef 0 0 0 0 = 0 ∧ s.coef 0 0 0 0 = 1 := by
  refine ⟨?_, ?_, rfl⟩
  · simp [applyParams, applyLoop, applyDevice, resetInv, inSlice, etchWitnessDev, cellInv, invProp, entry, row, designVal]
  · simp [applyParams, applyLoop, applyDevice, resetInv, inSlice, etchWitnessDev, cellCoef, entry, row, designVal]

/-! ### expand_matrix -/

/-- `jnp.repeat(l, n)[i] = l[i // n]` -/
theorem C18_repeat_index {β : Type} (n : ℕ) (hn : 0 < n) : ∀ (l : List β) (i : ℕ),
    (repeatList l n)[i]? = l[i / n]? := by
  intro l
  induction l with
  | nil => intro i; simp [repeatList]
  | cons a l ih =>
    intro i
    have hrep : repeatList (a :: l) n = List.replicate n a ++ repeatList l n := by
      simp [repeatList]
    rw [hrep]
    by_cases hi : i < n
    · rw [List.getElem?_append_left (by simpa using hi)]
      have : i / n = 0 := Nat.div_eq_of_lt hi
      rw [this]
      simp [hi]
    · have hge : n ≤ i := Nat.le_of_not_lt hi
      rw [List.getElem?_append_right (by simpa using hge)]
      simp only [List.length_replicate]
      rw [ih (i - n)]
      have : i / n = (i - n) / n + 1 := Nat.div_eq_sub_div hn hge
      rw [this]
      simp

theorem C18_repeat_length {β : Type} (n : ℕ) (l : List β) : (repeatList l n).length = l.length * n := by
  induction l with
  | nil => simp [repeatList]
  | cons a l ih =>
    have hrep : repeatList (a :: l) n = List.replicate n a ++ repeatList l n := by
      simp [repeatList]
    rw [hrep, List.length_append, ih]; simp; ring

/-! ### full tensors -/

/-- determinant of the row-major 3×3 matrix `f` -/
def det3 (f : ℕ → K) : K :=
  f 0 * (f 4 * f 8 - f 5 * f 7) - f 1 * (f 3 * f 8 - f 5 * f 6) + f 2 * (f 3 * f 7 - f 4 * f 6)

theorem inv3_0 (f : ℕ → K) : inv3 f 0 = (f 4 * f 8 - f 5 * f 7) / det3 f := rfl
theorem inv3_1 (f : ℕ → K) : inv3 f 1 = (f 2 * f 7 - f 1 * f 8) / det3 f := rfl
theorem inv3_2 (f : ℕ → K) : inv3 f 2 = (f 1 * f 5 - f 2 * f 4) / det3 f := rfl
theorem inv3_3 (f : ℕ → K) : inv3 f 3 = (f 5 * f 6 - f 3 * f 8) / det3 f := rfl
theorem inv3_4 (f : ℕ → K) : inv3 f 4 = (f 0 * f 8 - f 2 * f 6) / det3 f := rfl
theorem inv3_5 (f : ℕ → K) : inv3 f 5 = (f 2 * f 3 - f 0 * f 5) / det3 f := rfl
theorem inv3_6 (f : ℕ → K) : inv3 f 6 = (f 3 * f 7 - f 4 * f 6) / det3 f := rfl
theorem inv3_7 (f : ℕ → K) : inv3 f 7 = (f 1 * f 6 - f 0 * f 7) / det3 f := rfl
theorem inv3_8 (f : ℕ → K) : inv3 f 8 = (f 0 * f 4 - f 1 * f 3) / det3 f := rfl

/-- the adjugate formula is a left inverse: Σ_k inv3(f)[3r+k] · f[3k+c] = δ_rc when det ≠ 0 -/
theorem C18_inv3_left (f : ℕ → K) (hdet : det3 f ≠ 0) :
    ∀ r c, r < 3 → c < 3 →
      inv3 f (3 * r) * f c + inv3 f (3 * r + 1) * f (3 + c) + inv3 f (3 * r + 2) * f (6 + c)
        = if r = c then 1 else 0 := by
  intro r c hr hc
  interval_cases r <;> interval_cases c <;>
    simp only [Nat.reduceMul, Nat.reduceAdd, Nat.reduceEqDiff, if_true, if_false,
      inv3_0, inv3_1, inv3_2, inv3_3, inv3_4, inv3_5, inv3_6, inv3_7, inv3_8] <;>
    field_simp <;> unfold det3 <;> ring

example : det3 (fun n => if n = 0 ∨ n = 4 ∨ n = 8 then (2 : ℚ) else 0) ≠ 0 := by
  simp [det3]

end Fdtdx.C18
