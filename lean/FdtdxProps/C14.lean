/-
C14 — On/off schedules decide exactly when sources inject and detectors record.

Theorems about `FdtdxModel/C14.lean` (every parameter combination, every step count, any scalar type):

  schedule
    C14_window_valid / C14_window_invalid   `window` (the literal transcription of `is_on_at_time_step`) succeeds exactly
                                            on the well-determined specifications (`valid`) and then returns the
                                            documented `specWindow`; otherwise the error is `specErr` (all 2^7
                                            presence patterns, by case split)
    C14_never_unreachable                   the "This should never happen" raises are dead code
    C14_isOn_iff_window                     active ⇔ start ≤ t·dt ≤ end (no end = unbounded), `is_always_off` wins
    C14_onList_spec                         on-list entry t = window ∧ interval ∣ t, for every T
    C14_onList_zero_interval                interval 0 raises exactly when some step is inside the window
    C14_fixedList_spec / _error             fixed lists: active ⇔ listed (Python index semantics), IndexError otherwise
    C14_default_all_on                      the `is_default_always_on` shortcut of update_E/H agrees with the schedule
  index map
    C14_idx_is_rank                         idx t = #{u < t | on u} on active steps, −1 otherwise
    C14_idx_strictMono / C14_idx_lt_numOn / C14_idx_surj   chronological, within the allocated slots, every slot used
    C14_numOn_eq_rank                       number of records = number of active steps
  gating
    C14_source_off_identity                 a gated source update at an inactive step is the identity
    C14_detector_writes_only_own_slot       a detector update touches only slot idx t (and nothing when inactive)
    C14_detector_records                    after T steps slot idx t holds the record of step t, for every active t
    C14_detector_nothing_else               slots that are no active step's index keep their initial value
-/
import FdtdxModel.C14
import Mathlib.Tactic.Ring
import Mathlib.Tactic.Linarith
import Mathlib.Tactic.FieldSimp
import Mathlib.Algebra.Order.Field.Basic

namespace Fdtdx.C14

/-! ### the documented window rule -/
section spec
variable {α : Type} [Add α] [Sub α] [Mul α] [OfNat α 0]

/-- explicit start: absolute, or in periods -/
def specStart (s : Switch α) (p : α) : Option α :=
  match s.startTime, s.startAfterPeriods with
  | some a, _ => some a
  | none, some n => some (n * p)
  | none, none => none

/-- explicit end: absolute, or in periods -/
def specEnd (s : Switch α) (p : α) : Option α :=
  match s.endTime, s.endAfterPeriods with
  | some a, _ => some a
  | none, some n => some (n * p)
  | none, none => none

/-- duration: absolute, or in periods -/
def specDur (s : Switch α) (p : α) : Option α :=
  match s.onForTime, s.onForPeriods with
  | _, some n => some (n * p)
  | d, none => d

/-- a period is given whenever a quantity is expressed in periods -/
def periodOk (s : Switch α) : Bool :=
  !(s.startAfterPeriods.isSome || s.endAfterPeriods.isSome || s.onForPeriods.isSome) || s.period.isSome

/-- at most one way to obtain the start: explicit (time / periods), or end − duration -/
def startOk (s : Switch α) : Bool :=
  !(s.startTime.isSome && s.startAfterPeriods.isSome)
  && !((s.startTime.isSome || s.startAfterPeriods.isSome)
        && (s.onForTime.isSome || s.onForPeriods.isSome) && (s.endTime.isSome || s.endAfterPeriods.isSome))
  && !((s.onForTime.isSome && s.onForPeriods.isSome) && (s.endTime.isSome || s.endAfterPeriods.isSome))
  && !((s.onForTime.isSome || s.onForPeriods.isSome) && (s.endTime.isSome && s.endAfterPeriods.isSome))

/-- at most one way to obtain the end: explicit (time / periods), or start + duration (start possibly the default 0) -/
def endOk (s : Switch α) : Bool :=
  !(s.endTime.isSome && s.endAfterPeriods.isSome)
  && !(s.onForTime.isSome && s.onForPeriods.isSome)

def valid (s : Switch α) : Bool := periodOk s && startOk s && endOk s

/-- the error the implementation raises for a specification that is not `valid` (checks in source order) -/
def specErr (s : Switch α) : Err :=
  if !periodOk s then .needPeriod else if !startOk s then .badStart else .badEnd

/-- the documented window: `(start, end)`, `none` = unbounded -/
def specWindow (s : Switch α) : α × Option α :=
  let p := s.period.getD 0
  match specStart s p, specEnd s p, specDur s p with
  | some a, some e, _ => (a, some e)
  | some a, none, some d => (a, some (a + d))
  | some a, none, none => (a, none)
  | none, some e, some d => (e - d, some e)
  | none, some e, none => (0, some e)
  | none, none, some d => (0, some (0 + d))
  | none, none, none => (0, none)

/-- `window` is total on valid specifications and returns the documented window; on the others it raises `specErr`. -/
theorem C14_window_eq (s : Switch α) :
    window s = if valid s then .ok (specWindow s) else .error (specErr s) := by
  rcases s with ⟨st, sap, et, eap, oft, ofp, per, fx, off, iv⟩
  cases st <;> cases sap <;> cases et <;> cases eap <;> cases oft <;> cases ofp <;> cases per <;> rfl

theorem C14_window_valid (s : Switch α) (h : valid s = true) : window s = .ok (specWindow s) := by
  rw [C14_window_eq, if_pos h]

theorem C14_window_invalid (s : Switch α) (h : valid s = false) : window s = .error (specErr s) := by
  rw [C14_window_eq, h]; rfl

/-- the four "This should never happen" raises (and the other two error kinds) cannot come out of `window` -/
theorem C14_never_unreachable (s : Switch α) :
    window s ≠ .error .never ∧ window s ≠ .error .zeroInterval ∧ window s ≠ .error .indexError := by
  rw [C14_window_eq]
  by_cases h : valid s = true
  · simp [h]
  · have h' : valid s = false := by simpa using h
    simp only [h', Bool.false_eq_true, if_false, specErr]
    by_cases h1 : periodOk s <;> by_cases h2 : startOk s <;> simp [h1, h2]

end spec

/-! ### active ⇔ window rule -/
section on
variable {α : Type} [Add α] [Sub α] [Mul α] [OfNat α 0] [LE α] [DecidableLE α]

/-- the window predicate: start ≤ time ≤ end, unbounded when there is no end -/
def InWindow (w : α × Option α) (tp : α) : Prop := w.1 ≤ tp ∧ ∀ e, w.2 = some e → tp ≤ e

omit [Add α] [Sub α] [Mul α] [OfNat α 0] in
theorem inWindow_iff (w : α × Option α) (tp : α) : inWindow w tp = true ↔ InWindow w tp := by
  rcases w with ⟨a, e⟩
  cases e <;> simp [inWindow, InWindow]

/-- C14 (schedule): a step is active exactly when the documented window rule says so. -/
theorem C14_isOn_iff_window (cast : Nat → α) (s : Switch α) (dt : α) (t : Nat)
    (hoff : s.alwaysOff = false) (hv : valid s = true) :
    ∃ b, isOn cast s dt t = .ok b ∧ (b = true ↔ InWindow (specWindow s) (cast t * dt)) := by
  refine ⟨inWindow (specWindow s) (cast t * dt), ?_, inWindow_iff _ _⟩
  simp [isOn, hoff, C14_window_valid s hv]

theorem C14_isOn_always_off (cast : Nat → α) (s : Switch α) (dt : α) (t : Nat) (hoff : s.alwaysOff = true) :
    isOn cast s dt t = .ok false := by
  simp [isOn, hoff]

theorem C14_isOn_invalid (cast : Nat → α) (s : Switch α) (dt : α) (t : Nat)
    (hoff : s.alwaysOff = false) (hv : valid s = false) :
    isOn cast s dt t = .error (specErr s) := by
  simp [isOn, hoff, C14_window_invalid s hv]

/-- the documented activity of step `t` (no fixed list): not always-off, inside the window, on the interval grid -/
def active (cast : Nat → α) (s : Switch α) (dt : α) (t : Nat) : Bool :=
  !s.alwaysOff && inWindow (specWindow s) (cast t * dt) && onGrid s.interval t

theorem onGrid_iff (k : Int) (t : Nat) : onGrid k t = true ↔ k ∣ (t : Int) := by
  simp [onGrid, Int.dvd_iff_emod_eq_zero]

theorem collect_ok (f : Nat → Except Err Bool) (g : Nat → Bool) (n : Nat) (h : ∀ t, t < n → f t = .ok (g t)) :
    collect f n = .ok ((List.range n).map g) := by
  induction n with
  | zero => rfl
  | succ n ih =>
    rw [collect, ih (fun t ht => h t (by omega)), h n (by omega), List.range_succ, List.map_append]
    rfl

theorem collect_error (f : Nat → Except Err Bool) (n t : Nat) (e : Err) (ht : t < n) (hf : f t = .error e)
    (hlt : ∀ u, u < t → ∃ b, f u = .ok b) : collect f n = .error e := by
  induction n with
  | zero => omega
  | succ n ih =>
    rw [collect]
    by_cases h : t < n
    · rw [ih h]
    · have : t = n := by omega
      subst this
      have : ∃ l, collect f t = .ok l := by
        clear ih hf ht h
        induction t with
        | zero => exact ⟨[], rfl⟩
        | succ m ihm =>
          obtain ⟨l, hl⟩ := ihm (fun u hu => hlt u (by omega))
          obtain ⟨b, hb⟩ := hlt m (by omega)
          exact ⟨l ++ [b], by rw [collect, hl, hb]⟩
      obtain ⟨l, hl⟩ := this
      rw [hl, hf]

/-- C14 (schedule, whole list): for every step count the on-list is the window rule ∧ interval grid. -/
theorem C14_onList_spec (cast : Nat → α) (s : Switch α) (dt : α) (T : Nat)
    (hfx : s.fixedSteps = none) (hv : s.alwaysOff = true ∨ valid s = true) (hiv : s.interval ≠ 0) :
    onList cast s dt T = .ok ((List.range T).map (active cast s dt)) := by
  unfold onList
  rw [hfx]
  apply collect_ok
  intro t _
  unfold onAt active
  by_cases hoff : s.alwaysOff = true
  · simp [C14_isOn_always_off cast s dt t hoff, hoff]
  · have hoff' : s.alwaysOff = false := by simpa using hoff
    have hv' : valid s = true := by rcases hv with h | h; exact absurd h hoff; exact h
    simp only [isOn, hoff', C14_window_valid s hv', Bool.false_eq_true, if_false]
    cases h : inWindow (specWindow s) (cast t * dt) <;> simp [hiv]

/-- `interval = 0`: `t % 0` raises exactly when some step lies inside the window (first such step aborts the loop) -/
theorem C14_onList_zero_interval (cast : Nat → α) (s : Switch α) (dt : α) (T : Nat)
    (hfx : s.fixedSteps = none) (hoff : s.alwaysOff = false) (hv : valid s = true) (hiv : s.interval = 0) :
    (onList cast s dt T = .error .zeroInterval ↔ ∃ t, t < T ∧ InWindow (specWindow s) (cast t * dt)) ∧
    ((¬ ∃ t, t < T ∧ InWindow (specWindow s) (cast t * dt)) → onList cast s dt T = .ok (List.replicate T false)) := by
  have hat : ∀ t, onAt cast s dt t =
      if inWindow (specWindow s) (cast t * dt) then .error .zeroInterval else .ok false := by
    intro t
    unfold onAt
    simp only [isOn, hoff, C14_window_valid s hv, Bool.false_eq_true, if_false]
    cases h : inWindow (specWindow s) (cast t * dt) <;> simp [hiv]
  have hnone : (¬ ∃ t, t < T ∧ InWindow (specWindow s) (cast t * dt)) →
      onList cast s dt T = .ok (List.replicate T false) := by
    intro hn
    unfold onList
    rw [hfx]
    have := collect_ok (onAt cast s dt) (fun _ => false) T (by
      intro t ht
      rw [hat]
      have : inWindow (specWindow s) (cast t * dt) = false := by
        by_contra hc
        have hc' : inWindow (specWindow s) (cast t * dt) = true := by simpa using hc
        exact hn ⟨t, ht, (inWindow_iff _ _).1 hc'⟩
      simp [this])
    rw [this]
    induction T with
    | zero => rfl
    | succ n ih => simp [List.range_succ, List.replicate_succ', List.map_append]
  refine ⟨⟨?_, ?_⟩, hnone⟩
  · intro herr
    by_contra hn
    rw [hnone hn] at herr
    cases herr
  · rintro ⟨t, ht, hw⟩
    -- least such step
    have hex : ∃ t, t < T ∧ inWindow (specWindow s) (cast t * dt) = true := ⟨t, ht, (inWindow_iff _ _).2 hw⟩
    classical
    let t0 := Nat.find hex
    have h0 : t0 < T ∧ inWindow (specWindow s) (cast t0 * dt) = true := Nat.find_spec hex
    unfold onList
    rw [hfx]
    apply collect_error (onAt cast s dt) T t0 .zeroInterval h0.1
    · rw [hat, if_pos h0.2]
    · intro u hu
      have : ¬ (u < T ∧ inWindow (specWindow s) (cast u * dt) = true) := Nat.find_min hex hu
      refine ⟨false, ?_⟩
      rw [hat]
      have : inWindow (specWindow s) (cast u * dt) = false := by
        by_contra hc
        exact this ⟨by omega, by simpa using hc⟩
      simp [this]

end on

/-! ### the default always-on shortcut -/
section dflt
variable {K : Type} [Field K] [LinearOrder K] [IsStrictOrderedRing K]

/-- `update_E/H` bypass `lax.cond` when `switch.is_default_always_on`; that agrees with the schedule: every step
    is active (non-negative time axis). -/
theorem C14_default_all_on (cast : Nat → K) (hc : ∀ n, 0 ≤ cast n) (s : Switch K) (dt : K) (hdt : 0 ≤ dt) (T : Nat)
    (hd : isDefaultAlwaysOn s = true) :
    onList cast s dt T = .ok (List.replicate T true) := by
  rcases s with ⟨st, sap, et, eap, oft, ofp, per, fx, off, iv⟩
  simp only [isDefaultAlwaysOn, Bool.and_eq_true, Bool.not_eq_true', Option.isNone_iff_eq_none, beq_iff_eq] at hd
  obtain ⟨⟨⟨⟨⟨⟨⟨⟨⟨h1, h2⟩, h3⟩, h4⟩, h5⟩, h6⟩, h7⟩, h8⟩, h9⟩, h10⟩ := hd
  subst h1 h2 h3 h4 h5 h6 h7 h8 h9 h10
  rw [C14_onList_spec cast _ dt T rfl (Or.inr rfl) (show (1 : Int) ≠ 0 by decide)]
  congr 1
  have : ∀ t, active cast (⟨none, none, none, none, none, none, none, none, false, 1⟩ : Switch K) dt t = true := by
    intro t
    simp [active, specWindow, specStart, specEnd, specDur, inWindow, onGrid, mul_nonneg (hc t) hdt]
  induction T with
  | zero => rfl
  | succ n ih => simp [List.range_succ, List.replicate_succ', List.map_append, this, ih]

/-- the adjusted time step handed to a gated source is the on-index, up to the `1e-8` regulariser of
    `linear_interpolated_indexing` (exactly the on-index for `eps = 0`) -/
theorem C14_adjTime_exact (v : K) : adjTime (2 : K) 0 v = v := by
  unfold adjTime
  field_simp
  ring

end dflt

/-! ### fixed step lists -/

theorem fixedList_length (T : Nat) (l : List Int) (r : List Bool) (h : fixedList T l = .ok r) : r.length = T := by
  induction l generalizing r with
  | nil => simp [fixedList] at h; subst h; simp
  | cons i rest ih =>
    simp only [fixedList] at h
    cases hp : pyIndex T i with
    | none => rw [hp] at h; cases h
    | some j =>
      rw [hp] at h
      cases hr : fixedList T rest with
      | error e => rw [hr] at h; cases h
      | ok l' =>
        rw [hr] at h
        simp only [Except.ok.injEq] at h
        subst h
        simp [ih l' hr]

/-- C14 (fixed lists): step `t` is active ⇔ some listed index denotes `t` under Python list indexing. -/
theorem C14_fixedList_spec (T : Nat) (l : List Int) (r : List Bool) (h : fixedList T l = .ok r) (t : Nat) (ht : t < T) :
    r[t]? = some (decide (∃ i ∈ l, pyIndex T i = some t)) := by
  induction l generalizing r with
  | nil =>
    simp [fixedList] at h; subst h
    simp [ht]
  | cons i rest ih =>
    simp only [fixedList] at h
    cases hp : pyIndex T i with
    | none => rw [hp] at h; cases h
    | some j =>
      rw [hp] at h
      cases hr : fixedList T rest with
      | error e => rw [hr] at h; cases h
      | ok l' =>
        rw [hr] at h
        simp only [Except.ok.injEq] at h
        subst h
        have hlen := fixedList_length T rest l' hr
        have ih' := ih l' hr
        by_cases hjt : j = t
        · subst hjt
          rw [List.getElem?_set_self (by omega)]
          simp [hp]
        · rw [List.getElem?_set_ne hjt, ih']
          simp [hp, hjt]

/-- IndexError ⇔ some listed index is outside `[-T, T)` -/
theorem C14_fixedList_error (T : Nat) (l : List Int) :
    (fixedList T l = .error .indexError ↔ ∃ i ∈ l, pyIndex T i = none) ∧
    (∀ e, fixedList T l = .error e → e = .indexError) := by
  induction l with
  | nil => simp [fixedList]
  | cons i rest ih =>
    simp only [fixedList]
    cases hp : pyIndex T i with
    | none => simp [hp]
    | some j =>
      cases hr : fixedList T rest with
      | error e =>
        have he := ih.2 e hr
        subst he
        have := ih.1.1 hr
        simp [hp, this]
      | ok l' =>
        have : ¬ ∃ i ∈ rest, pyIndex T i = none := by
          intro hx
          have := ih.1.2 hx
          rw [hr] at this; cases this
        refine ⟨⟨fun h => (by cases h), ?_⟩, fun e h => (by cases h)⟩
        rintro ⟨i', hi', hn⟩
        rcases List.mem_cons.1 hi' with rfl | hmem
        · rw [hp] at hn; cases hn
        · exact absurd ⟨i', hmem, hn⟩ this

theorem pyIndex_spec (T : Nat) (i : Int) (t : Nat) :
    pyIndex T i = some t ↔ t < T ∧ ((i : Int) = t ∨ i = (t : Int) - T) := by
  unfold pyIndex
  split
  · simp only [Option.some.injEq]; omega
  · split
    · simp only [Option.some.injEq]; omega
    · simp only [reduceCtorEq, false_iff]; omega

/-! ### index map = rank -/

theorem rank_mono (on : Nat → Bool) {t u : Nat} (h : t ≤ u) : rank on t ≤ rank on u := by
  induction u with
  | zero => have : t = 0 := by omega
            subst this; exact Nat.le_refl _
  | succ n ih =>
    by_cases hn : t = n + 1
    · subst hn; exact Nat.le_refl _
    · have := ih (by omega)
      simp only [rank]; omega

/-- C14: the index map is strictly increasing along the active steps (records are in chronological order). -/
theorem C14_idx_strictMono (on : Nat → Bool) {t u : Nat} (h : t < u) (ht : on t = true) : rank on t < rank on u := by
  have h1 : rank on (t + 1) = rank on t + 1 := by simp [rank, ht]
  have h2 := rank_mono on (show t + 1 ≤ u by omega)
  omega

/-- C14: every active step's index lies inside the `numOn` allocated slots. -/
theorem C14_idx_lt_numOn (on : Nat → Bool) {t T : Nat} (h : t < T) (ht : on t = true) : rank on t < rank on T :=
  C14_idx_strictMono on h ht

/-- C14: every allocated slot is the index of exactly one active step. -/
theorem C14_idx_surj (on : Nat → Bool) (T i : Nat) (h : i < rank on T) :
    ∃ t, t < T ∧ on t = true ∧ rank on t = i ∧ ∀ u, u < T → on u = true → rank on u = i → u = t := by
  induction T with
  | zero => simp [rank] at h
  | succ n ih =>
    have uniq : ∀ t, on t = true → rank on t = i → ∀ u, on u = true → rank on u = i → u = t := by
      intro t ht hr u hu hru
      rcases Nat.lt_trichotomy u t with hlt | heq | hgt
      · have := C14_idx_strictMono on hlt hu; omega
      · exact heq
      · have := C14_idx_strictMono on hgt ht; omega
    by_cases hi : i < rank on n
    · obtain ⟨t, ht, hon, hr, _⟩ := ih hi
      exact ⟨t, by omega, hon, hr, fun u _ hu hru => uniq t hon hr u hu hru⟩
    · have hn : on n = true := by
        by_contra hc
        have : on n = false := by simpa using hc
        simp [rank, this] at h; omega
      have hr : rank on n = i := by simp [rank, hn] at h; omega
      exact ⟨n, by omega, hn, hr, fun u _ hu hru => uniq n hn hr u hu hru⟩

/-- the on-list as a function of the step -/
def onFn (l : List Bool) (t : Nat) : Bool := l.getD t false

theorem rank_cons (b : Bool) (l : List Bool) (t : Nat) :
    rank (onFn (b :: l)) (t + 1) = (if b then 1 else 0) + rank (onFn l) t := by
  induction t with
  | zero => simp [rank, onFn]
  | succ n ih =>
    rw [rank, ih, rank]
    have : onFn (b :: l) (n + 1) = onFn l n := by simp [onFn]
    rw [this]; omega

theorem idxFrom_get (c : Nat) (l : List Bool) (t : Nat) (ht : t < l.length) :
    (idxFrom c l)[t]? = some (if onFn l t then ((c + rank (onFn l) t : Nat) : Int) else -1) := by
  induction l generalizing c t with
  | nil => simp at ht
  | cons b l ih =>
    cases t with
    | zero => cases b <;> simp [idxFrom, onFn, rank]
    | succ t =>
      have ht' : t < l.length := by simpa using ht
      have hon : onFn (b :: l) (t + 1) = onFn l t := by simp [onFn]
      cases b
      · simp only [idxFrom, List.getElem?_cons_succ, ih c t ht', hon, rank_cons]
        simp
      · simp only [idxFrom, List.getElem?_cons_succ, ih (c + 1) t ht', hon, rank_cons]
        simp only [if_true]
        congr 2
        push_cast; ring

theorem idxFrom_length (c : Nat) (l : List Bool) : (idxFrom c l).length = l.length := by
  induction l generalizing c with
  | nil => rfl
  | cons b l ih => cases b <;> simp [idxFrom, ih]

/-- C14: the time-step → array-index map computed by the counter loop is the rank
    `idx t = #{u < t | on u}` on active steps and −1 elsewhere. -/
theorem C14_idx_is_rank (l : List Bool) (t : Nat) (ht : t < l.length) :
    (idxMap l)[t]? = some (if onFn l t then (rank (onFn l) t : Int) else -1) := by
  have := idxFrom_get 0 l t ht
  simpa [idxMap] using this

/-- C14: number of allocated records (`sum(on_list)`) = number of active steps. -/
theorem C14_numOn_eq_rank (l : List Bool) : numOn l = rank (onFn l) l.length := by
  induction l with
  | nil => rfl
  | cons b l ih =>
    rw [List.length_cons, rank_cons, ← ih]
    cases b <;> simp [numOn] <;> omega

/-! ### gating -/

/-- C14: a source whose switch is not active at step `t` adds nothing: the gated update is the identity. -/
theorem C14_source_off_identity {F τ : Type} (on : Nat → Bool) (adj raw : Nat → τ) (upd : τ → F → F) (t : Nat) (E : F)
    (hoff : on t = false) : gatedSource false on adj raw upd t E = E := by
  simp [gatedSource, hoff]

theorem C14_source_on {F τ : Type} (on : Nat → Bool) (adj raw : Nat → τ) (upd : τ → F → F) (t : Nat) (E : F)
    (hon : on t = true) : gatedSource false on adj raw upd t E = upd (adj t) E := by
  simp [gatedSource, hon]

/-- C14: one detector update writes only slot `idx t`, and nothing at an inactive step. -/
theorem C14_detector_writes_only_own_slot {β : Type} (on : Nat → Bool) (idx : Nat → Nat) (st : Nat → β) (t : Nat)
    (r : β) : (∀ i, i ≠ idx t → detStep on idx st t r i = st i) ∧ (on t = false → detStep on idx st t r = st)
      ∧ (on t = true → detStep on idx st t r (idx t) = r) := by
  refine ⟨fun i hi => ?_, fun h => ?_, fun h => ?_⟩
  · unfold detStep; split <;> simp [hi]
  · simp [detStep, h]
  · simp [detStep, h]

/-- C14: after the run, the slot of every active step holds that step's record. -/
theorem C14_detector_records {β : Type} (on : Nat → Bool) (rec init : Nat → β) (T t : Nat) (ht : t < T)
    (hon : on t = true) : detRun on (rank on) rec init T (rank on t) = rec t := by
  induction T with
  | zero => omega
  | succ n ih =>
    simp only [detRun, detStep]
    by_cases hn : t = n
    · subst hn; simp [hon]
    · have htn : t < n := by omega
      by_cases hon' : on n = true
      · have := C14_idx_strictMono on htn hon
        simp only [hon', if_true]
        rw [if_neg (by omega)]
        exact ih htn
      · simp only [hon', Bool.false_eq_true, if_false]
        exact ih htn

/-- C14: …and nothing else: a slot that is no active step's index keeps its initial value (in particular every
    slot ≥ the number of active steps). -/
theorem C14_detector_nothing_else {β : Type} (on : Nat → Bool) (rec init : Nat → β) (T i : Nat)
    (h : ∀ t, t < T → on t = true → rank on t ≠ i) : detRun on (rank on) rec init T i = init i := by
  induction T with
  | zero => rfl
  | succ n ih =>
    simp only [detRun, detStep]
    have ih' := ih (fun t ht => h t (by omega))
    by_cases hon : on n = true
    · have := h n (by omega) hon
      simp only [hon, if_true]
      rw [if_neg (by omega)]
      exact ih'
    · simp only [hon, Bool.false_eq_true, if_false]
      exact ih'

/-! ### non-vacuity and concrete instances -/

-- a valid specification with a derived start, on ℚ-like data over Int (any ring works for `window`)
example : window ({ endTime := some 7, onForTime := some 3 } : Switch Int) = .ok (4, some 7) := by decide
example : valid ({ endTime := some 7, onForTime := some 3 } : Switch Int) = true := by decide
example : window ({ onForPeriods := some 3, period := some 2 } : Switch Int) = .ok (0, some 6) := by decide
-- the three error kinds of the validation
example : window ({ startAfterPeriods := some 1 } : Switch Int) = .error .needPeriod := by decide
example : window ({ startTime := some 1, endTime := some 5, onForTime := some 2 } : Switch Int) = .error .badStart := by decide
example : window ({ onForTime := some 1, onForPeriods := some 1, period := some 2 } : Switch Int) = .error .badEnd := by decide
-- a schedule with active and inactive steps, its index map and record count
example : onList (fun n => (n : Int)) ({ startTime := some 2, endTime := some 7, interval := 2 } : Switch Int) 1 10
    = .ok [false, false, true, false, true, false, true, false, false, false] := by decide
example : idxMap [false, false, true, false, true, false, true] = [-1, -1, 0, -1, 1, -1, 2] := by decide
example : numOn [false, false, true, false, true, false, true] = 3 := by decide
-- interval 0 raises only when a step is inside the window
example : onList (fun n => (n : Int)) ({ startTime := some 50, interval := 0 } : Switch Int) 1 4
    = .ok [false, false, false, false] := by decide
example : onList (fun n => (n : Int)) ({ interval := 0 } : Switch Int) 1 4 = .error .zeroInterval := by decide
-- fixed lists: Python negative indices wrap, always-off and interval are ignored
example : onList (fun n => (n : Int)) ({ fixedSteps := some [1, -1], alwaysOff := true, interval := 2 } : Switch Int) 1 4
    = .ok [false, true, false, true] := by decide
example : onList (fun n => (n : Int)) ({ fixedSteps := some [4] } : Switch Int) 1 4 = .error .indexError := by decide
-- hypotheses of the detector theorems are met by a non-trivial schedule
example : ∃ t, t < 7 ∧ onFn [false, false, true, false, true, false, true] t = true
    ∧ rank (onFn [false, false, true, false, true, false, true]) t = 1 := ⟨4, by decide⟩

end Fdtdx.C14
