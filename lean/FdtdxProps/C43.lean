/-
C43 — Shapes are rasterised by cell-centre inclusion.

Theorems about `FdtdxModel/C43.lean`, for any grid (edge lists of any length, uniform or not), any index box, any
ordered field.  `X = center e (lo+i)` is the absolute centre of cell `i` of the box, `Xc = (e_lo + e_up)/2` the centre of
the box the object was allotted (where the analytic shape is centred).

  C43_local_offset            local centre − shape centre = X − Xc   (the code's local coordinates are exact)
  C43_ellipsoid_iff           Sphere mask ⇔ ((X−Xc)/rx)² + ((Y−Yc)/ry)² + ((Z−Zc)/rz)² < 1
  C43_ellipsoid_strict        a centre ON the surface (or outside) is not marked
  C43_sphere_iff              equal radii r > 0: mask ⇔ |centre − box centre|² < r²
  C43_cylinder_iff            Cylinder mask ⇔ (H−Hc)² + (V−Vc)² < r² on the two transverse axes
  C43_extrusion_law           extruded masks (cylinder, polygon) do not depend on the index along the axis and read the two
                              transverse indices in ascending axis order
  C43_uniform_formula         on equal widths h the resolved-grid centre formula equals the legacy `(i + ½)·h`
  C43_polygon_local_iff       ExtrudedPolygon mask ⇔ the offset (H−Hc, V−Vc) passes the interior test against the user's
                              origin-centred vertices (the shift to local coordinates is exact)
  C43_polygon_partial         … where the interior test is the even–odd crossing rule of the MODEL; the code calls
                              matplotlib `Path.contains_points`, tied to it only differentially, away from the boundary.
-/
import FdtdxModel.C43
import FdtdxLemmas.C37Basic

set_option linter.unusedSectionVars false
set_option linter.unusedVariables false
set_option linter.unusedSimpArgs false

namespace Fdtdx.C43
open Fdtdx.C37

variable {K : Type} [Field K] [LinearOrder K] [IsStrictOrderedRing K]

theorem half_eq' : (half : K) = 1 / 2 := rfl

/-- centre of the allotted box -/
def boxCenter (e : List K) (lo up : Nat) : K := (edge e lo + edge e up) / 2

/-- the code's local coordinates lose nothing: offset from the shape centre = absolute centre − box centre -/
theorem C43_local_offset (e : List K) (lo up i : Nat) :
    localCenter e lo i - shapeCenter e lo up = center e (lo + i) - boxCenter e lo up := by
  unfold localCenter shapeCenter center boxCenter
  rw [half_eq']; ring

theorem normOffset_eq (e : List K) (lo up : Nat) (r : K) (i : Nat) :
    normOffset e lo up r i = (center e (lo + i) - boxCenter e lo up) / r := by
  unfold normOffset; rw [C43_local_offset]

/-- **ellipsoid**: the mask is exactly "cell centre strictly inside the analytic ellipsoid" -/
theorem C43_ellipsoid_iff (ex ey ez : List K) (lx ux ly uy lz uz : Nat) (rx ry rz : K) (i j k : Nat) :
    ellipsoidMaskAt ex ey ez lx ux ly uy lz uz rx ry rz i j k = true ↔
      ((center ex (lx + i) - boxCenter ex lx ux) / rx) ^ 2 + ((center ey (ly + j) - boxCenter ey ly uy) / ry) ^ 2
        + ((center ez (lz + k) - boxCenter ez lz uz) / rz) ^ 2 < 1 := by
  unfold ellipsoidMaskAt
  rw [decide_eq_true_eq, normOffset_eq, normOffset_eq, normOffset_eq]
  unfold sq
  simp only [pow_two]

/-- **strictness**: centres on the surface or outside are not marked -/
theorem C43_ellipsoid_strict (ex ey ez : List K) (lx ux ly uy lz uz : Nat) (rx ry rz : K) (i j k : Nat)
    (h : 1 ≤ ((center ex (lx + i) - boxCenter ex lx ux) / rx) ^ 2 + ((center ey (ly + j) - boxCenter ey ly uy) / ry) ^ 2
        + ((center ez (lz + k) - boxCenter ez lz uz) / rz) ^ 2) :
    ellipsoidMaskAt ex ey ez lx ux ly uy lz uz rx ry rz i j k = false := by
  by_contra hne
  have ht : ellipsoidMaskAt ex ey ez lx ux ly uy lz uz rx ry rz i j k = true := by simpa using hne
  exact absurd ((C43_ellipsoid_iff ..).mp ht) (not_lt.mpr h)

/-- **sphere**: with equal radii r > 0 the test is the Euclidean one -/
theorem C43_sphere_iff (ex ey ez : List K) (lx ux ly uy lz uz : Nat) (r : K) (hr : 0 < r) (i j k : Nat) :
    ellipsoidMaskAt ex ey ez lx ux ly uy lz uz r r r i j k = true ↔
      (center ex (lx + i) - boxCenter ex lx ux) ^ 2 + (center ey (ly + j) - boxCenter ey ly uy) ^ 2
        + (center ez (lz + k) - boxCenter ez lz uz) ^ 2 < r ^ 2 := by
  rw [C43_ellipsoid_iff]
  have hr2 : 0 < r ^ 2 := by positivity
  rw [div_pow, div_pow, div_pow, ← add_div, ← add_div, div_lt_one hr2]

/-- **cylinder**: Euclidean test in the transverse plane -/
theorem C43_cylinder_iff (eh ev : List K) (lh uh lv uv : Nat) (r : K) (hr : 0 < r) (i j : Nat) :
    cylinderMaskAt eh ev lh uh lv uv r i j = true ↔
      (center eh (lh + i) - boxCenter eh lh uh) ^ 2 + (center ev (lv + j) - boxCenter ev lv uv) ^ 2 < r ^ 2 := by
  unfold cylinderMaskAt
  rw [decide_eq_true_eq, normOffset_eq, normOffset_eq]
  unfold sq
  have hr2 : 0 < r ^ 2 := by positivity
  rw [← pow_two, ← pow_two, div_pow, div_pow, ← add_div, div_lt_one hr2]

theorem C43_cylinder_strict (eh ev : List K) (lh uh lv uv : Nat) (r : K) (hr : 0 < r) (i j : Nat)
    (h : r ^ 2 ≤ (center eh (lh + i) - boxCenter eh lh uh) ^ 2 + (center ev (lv + j) - boxCenter ev lv uv) ^ 2) :
    cylinderMaskAt eh ev lh uh lv uv r i j = false := by
  by_contra hne
  have ht : cylinderMaskAt eh ev lh uh lv uv r i j = true := by simpa using hne
  exact absurd ((C43_cylinder_iff eh ev lh uh lv uv r hr i j).mp ht) (not_lt.mpr h)

/-- **extrusion law**: the 3-D mask ignores the index along `axis` and reads the transverse indices in ascending order -/
theorem C43_extrusion_law (m2 : Nat → Nat → Bool) (i j k t : Nat) :
    (extrude 0 m2 i j k = m2 j k ∧ extrude 0 m2 t j k = extrude 0 m2 i j k) ∧
    (extrude 1 m2 i j k = m2 i k ∧ extrude 1 m2 i t k = extrude 1 m2 i j k) ∧
    (extrude 2 m2 i j k = m2 i j ∧ extrude 2 m2 i j t = extrude 2 m2 i j k) := by
  simp [extrude]

/-- **uniform = non-uniform formula** on equal widths: if the box edges are `e_lo + h·i`, the resolved-grid local centre
is the legacy `(i + ½)·h` -/
theorem C43_uniform_formula (e : List K) (lo n : Nat) (h : K)
    (hw : ∀ i, i ≤ n → edge e (lo + i) = edge e lo + h * (i : K)) (i : Nat) (hi : i < n) :
    localCenter e lo i = uniformCenter (Nat.cast : Nat → K) h i := by
  unfold localCenter uniformCenter
  rw [hw i (by omega), show lo + i + 1 = lo + (i + 1) by omega, hw (i + 1) (by omega), half_eq']
  push_cast; ring

/-! ### polygons -/

theorem crosses_translate (px py a b : K) (p q : K × K) :
    crosses (px + a) (py + b) (p.1 + a, p.2 + b) (q.1 + a, q.2 + b) = crosses px py p q := by
  unfold crosses
  have e1 : (py + b < p.2 + b) ↔ (py < p.2) := by constructor <;> intro h <;> linarith
  have e2 : (py + b < q.2 + b) ↔ (py < q.2) := by constructor <;> intro h <;> linarith
  have e3 : (q.1 + a - (p.1 + a)) * (py + b - (p.2 + b)) / (q.2 + b - (p.2 + b)) + (p.1 + a)
      = (q.1 - p.1) * (py - p.2) / (q.2 - p.2) + p.1 + a := by
    rw [show q.1 + a - (p.1 + a) = q.1 - p.1 by ring, show py + b - (p.2 + b) = py - p.2 by ring,
      show q.2 + b - (p.2 + b) = q.2 - p.2 by ring]; ring
  have e4 : (px + a < (q.1 + a - (p.1 + a)) * (py + b - (p.2 + b)) / (q.2 + b - (p.2 + b)) + (p.1 + a))
      ↔ (px < (q.1 - p.1) * (py - p.2) / (q.2 - p.2) + p.1) := by
    rw [e3]; constructor <;> intro h <;> linarith
  simp only [e1, e2, e4]

/-- the crossing rule is translation invariant -/
theorem pointInPolygon_translate (vs : List (K × K)) (a b px py : K) :
    pointInPolygon (vs.map fun v => (v.1 + a, v.2 + b)) (px + a) (py + b) = pointInPolygon vs px py := by
  cases vs with
  | nil => rfl
  | cons v0 rest =>
    simp only [pointInPolygon, List.map_cons]
    have hz : ((v0.1 + a, v0.2 + b) :: rest.map fun v => (v.1 + a, v.2 + b)).zip
        (((v0.1 + a, v0.2 + b) :: rest.map fun v => (v.1 + a, v.2 + b)).drop 1 ++ [(v0.1 + a, v0.2 + b)])
        = ((v0 :: rest).zip ((v0 :: rest).drop 1 ++ [v0])).map
            (fun s => ((s.1.1 + a, s.1.2 + b), (s.2.1 + a, s.2.2 + b))) := by
      have : ((v0.1 + a, v0.2 + b) :: rest.map fun v => (v.1 + a, v.2 + b)) = (v0 :: rest).map fun v => (v.1 + a, v.2 + b) := rfl
      rw [this, ← List.map_drop, show [(v0.1 + a, v0.2 + b)] = [v0].map fun v => (v.1 + a, v.2 + b) from rfl,
        ← List.map_append, List.zip_map]
      rfl
    rw [hz, List.foldl_map]
    congr 1
    funext acc s
    rw [crosses_translate]

/-- **polygon**: the 2-D mask tests the offset of the cell centre from the box centre against the user's
origin-centred vertices — the shift to local coordinates is exact on any grid -/
theorem C43_polygon_local_iff (vs : List (K × K)) (eh ev : List K) (lh uh lv uv i j : Nat) :
    polygonMaskAt vs eh ev lh uh lv uv i j =
      pointInPolygon vs (center eh (lh + i) - boxCenter eh lh uh) (center ev (lv + j) - boxCenter ev lv uv) := by
  unfold polygonMaskAt
  have h1 : localCenter eh lh i = (center eh (lh + i) - boxCenter eh lh uh) + shapeCenter eh lh uh := by
    have := C43_local_offset eh lh uh i; linarith
  have h2 : localCenter ev lv j = (center ev (lv + j) - boxCenter ev lv uv) + shapeCenter ev lv uv := by
    have := C43_local_offset ev lv uv j; linarith
  simp only []
  rw [h1, h2, pointInPolygon_translate]

/-- **polygon, PARTIAL**: full statement wanted — "mask ⇔ centre strictly inside the polygon as decided by the code".
The code decides with matplotlib `Path.contains_points` (external C++); what is proved is the statement for the model's
even–odd crossing rule, which for an axis-parallel rectangle is the open box up to its boundary: -/
theorem C43_polygon_partial (a b px py : K) (ha : 0 < a) (hb : 0 < b) :
    (-a < px → px < a → -b < py → py < b →
      pointInPolygon [(-a, -b), (a, -b), (a, b), (-a, b)] px py = true) ∧
    ((px < -a ∨ a < px ∨ py < -b ∨ b < py) →
      pointInPolygon [(-a, -b), (a, -b), (a, b), (-a, b)] px py = false) := by
  have hb2 : b - -b ≠ 0 := by linarith
  have hb3 : -b - b ≠ 0 := by linarith
  have s1 : (a - a) * (py - -b) / (b - -b) + a = a := by simp
  have s2 : (-a - -a) * (py - b) / (-b - b) + -a = -a := by simp
  constructor
  · intro h1 h2 h3 h4
    have n1 : ¬ py < -b := by linarith
    simp [pointInPolygon, crosses, n1, h4, h2, s1, s2, not_lt.mpr (le_of_lt h1)]
  · intro h
    simp only [pointInPolygon, crosses, List.zip_cons_cons, List.drop_succ_cons, List.drop_zero, List.cons_append,
      List.nil_append, List.zip_nil_right, List.foldl_cons, List.foldl_nil, s1, s2, lt_irrefl, decide_false,
      bne_self_eq_false, Bool.false_and, Bool.bne_false, Bool.false_bne]
    rcases h with h | h | h | h
    · have : px < a := by linarith
      by_cases c1 : py < -b <;> by_cases c2 : py < b <;> simp [c1, c2, h, this]
    · have : ¬ px < -a := by linarith
      have h' : ¬ px < a := by linarith
      by_cases c1 : py < -b <;> by_cases c2 : py < b <;> simp [c1, c2, h', this]
    · have c2 : py < b := by linarith
      simp [h, c2]
    · have c1 : ¬ py < -b := by linarith
      have c2 : ¬ py < b := by linarith
      simp [c1, c2]

/-! ### non-vacuity (K = ℚ): a non-uniform grid, a centre exactly on the surface, a polygon -/

def exE : List ℚ := [0, 1, 3, 4, 8, 9, 11]     -- box [0,4): centres ½, 2, 3½, 6; box centre 4
def exU : List ℚ := [0, 1, 2, 3, 4, 5]

/-- centre at offset exactly −2 with r = 2: on the surface, not marked; the neighbour at offset −½ is -/
example : ellipsoidMaskAt exE exU exU 0 4 1 4 1 4 2 2 2 1 1 1 = false := by decide +kernel
example : ellipsoidMaskAt exE exU exU 0 4 1 4 1 4 2 2 2 2 1 1 = true := by decide +kernel
example : cylinderMaskAt exE exU 0 4 1 4 2 1 1 = false ∧ cylinderMaskAt exE exU 0 4 1 4 (21 / 10) 1 1 = true := by
  decide +kernel
example : polygonMaskAt [(-2, -1), (2, -1), (0, 1)] exE exU 0 4 1 4 2 1 = true := by decide +kernel
example : polygonMaskAt [(-2, -1), (2, -1), (0, 1)] exE exU 0 4 1 4 0 2 = false := by decide +kernel
/-- the hypothesis of `C43_uniform_formula` on a concrete equal-width axis -/
example : ∀ i, i ≤ 4 → edge exU (1 + i) = edge exU 1 + 1 * (i : ℚ) := by decide +kernel

end Fdtdx.C43
