/-
C08 — equivariance under cyclic permutation of the axes, full-tensor (9-component) tier.

`rotM3 / rotT / rotTens / rotMA / rotAW` (`FdtdxModel/C08Aniso.lean`): a 3×3 tensor is relabelled as R·T·Rᵀ, i.e. the nine
components are permuted.  Over any field K (commutativity of + and · is needed: the three terms of a row are summed in a
different order in the relabelled scene, so on binary64 the statement holds up to rounding only):

  C08_aniso_avg_equivariant       the neighbour averages (uniform and spacing-weighted) commute with the relabelling
  C08_aniso_mats_equivariant      update matrices: (A, B)(R inv Rᵀ, R σ Rᵀ) = (R A Rᵀ, R B Rᵀ), forward and reverse
  C08_aniso_step_equivariant      forwardA (rot cf) (rot aw) (rot m) (rot jE) (rot jH) (rot E) (rot H) = rot (forwardA …)
                                  for every material tier (scalar / 1 / 3 / 9 components, lossy or not)
  C08_aniso_backward_equivariant  the same for backwardA
  C08_aniso_steps_equivariant     n steps with step-indexed sources
-/
import FdtdxModel.C08Aniso
import FdtdxProps.C08
import Mathlib.Tactic.Ring

namespace Fdtdx.C08
open Fdtdx Fdtdx.Yee Fdtdx.YeeAniso
set_option linter.unusedSectionVars false

section
variable {K : Type} [Field K]

theorem nextAx_rot (cf : Cfg K) (ax : Nat) (g : F3 K) :
    nextAx (rotC cf) (rotAx ax) (rotF g) = rotF (nextAx cf ax g) := by
  match ax with
  | 0 => rfl
  | 1 => rfl
  | n + 2 => rfl

theorem prevAx_rot (cf : Cfg K) (ax : Nat) (g : F3 K) :
    prevAx (rotC cf) (rotAx ax) (rotF g) = rotF (prevAx cf ax g) := by
  match ax with
  | 0 => rfl
  | 1 => rfl
  | n + 2 => rfl

theorem awAx_rot (w : AW K) (ax : Nat) : (rotAW w).ax (rotAx ax) = w.ax ax := by
  match ax with
  | 0 => rfl
  | 1 => rfl
  | n + 2 => rfl

theorem idxAx_rot (ax i j k : Nat) : idxAx (rotAx ax) i j k = idxAx ax j k i := by
  match ax with
  | 0 => rfl
  | 1 => rfl
  | n + 2 => rfl

/-- **C08_aniso_avg_equivariant** -/
theorem C08_aniso_avg_equivariant (cf : Cfg K) (aw : Option (AW K)) (comp loc : Nat) (S : F3 K) :
    avgE (rotC cf) (aw.map rotAW) (rotAx comp) (rotAx loc) (rotF S) = rotF (avgE cf aw comp loc S)
    ∧ avgH (rotC cf) (aw.map rotAW) (rotAx comp) (rotAx loc) (rotF S) = rotF (avgH cf aw comp loc S) := by
  cases aw with
  | none =>
    constructor
    · simp only [avgE, Option.map_none, prevAx_rot, nextAx_rot]; rfl
    · simp only [avgH, Option.map_none, prevAx_rot, nextAx_rot]; rfl
  | some w =>
    constructor
    · simp only [avgE, Option.map_some, nextAx_rot, awAx_rot, idxAx_rot]
      have hc : (fun i j k => (1 / 2 : K) * (rotF S i j k + rotF (nextAx cf loc S) i j k))
          = rotF (fun i j k => (1 / 2 : K) * (S i j k + nextAx cf loc S i j k)) := rfl
      rw [hc, prevAx_rot]; rfl
    · simp only [avgH, Option.map_some, prevAx_rot, awAx_rot, idxAx_rot]
      have hc : (fun i j k => (rotF S i j k * wPrev (w.ax loc) (idxAx loc j k i) + rotF (prevAx cf loc S) i j k * w.ax loc (idxAx loc j k i))
            / (w.ax loc (idxAx loc j k i) + wPrev (w.ax loc) (idxAx loc j k i)))
          = rotF (fun i j k => (S i j k * wPrev (w.ax loc) (idxAx loc i j k) + prevAx cf loc S i j k * w.ax loc (idxAx loc i j k))
            / (w.ax loc (idxAx loc i j k) + wPrev (w.ax loc) (idxAx loc i j k))) := rfl
      rw [hc, nextAx_rot]; rfl

/-! ### 3×3 algebra commutes with R·(·)·Rᵀ -/

theorem M3ext {a b : M3 K} (h1 : a.xx = b.xx) (h2 : a.xy = b.xy) (h3 : a.xz = b.xz) (h4 : a.yx = b.yx)
    (h5 : a.yy = b.yy) (h6 : a.yz = b.yz) (h7 : a.zx = b.zx) (h8 : a.zy = b.zy) (h9 : a.zz = b.zz) : a = b := by
  cases a; cases b; simp only [M3.mk.injEq]; exact ⟨h1, h2, h3, h4, h5, h6, h7, h8, h9⟩

theorem rotM3_mul (a b : M3 K) : M3.mul (rotM3 a) (rotM3 b) = rotM3 (M3.mul a b) := by
  apply M3ext <;> simp only [M3.mul, rotM3] <;> ring

theorem rotM3_det (a : M3 K) : M3.det (rotM3 a) = M3.det a := by
  simp only [M3.det, rotM3]; ring

theorem rotM3_adj (a : M3 K) : M3.adj (rotM3 a) = rotM3 (M3.adj a) := by
  apply M3ext <;> simp only [M3.adj, rotM3] <;> ring

theorem rotM3_solve (m x : M3 K) : M3.solve (rotM3 m) (rotM3 x) = rotM3 (M3.solve m x) := by
  simp only [M3.solve, rotM3_adj, rotM3_mul, rotM3_det]; rfl

theorem rotM3_lossMats (c etaF : K) (inv : M3 K) (sig : Option (M3 K)) :
    lossMats c etaF (rotM3 inv) (sig.map rotM3) = (rotM3 (lossMats c etaF inv sig).1, rotM3 (lossMats c etaF inv sig).2) := by
  cases sig with
  | none => rfl
  | some s => simp only [lossMats, Option.map_some, rotM3_mul]; rfl

/-- **C08_aniso_mats_equivariant** -/
theorem C08_aniso_mats_equivariant (c etaF : K) (inv : M3 K) (sig : Option (M3 K)) :
    updMats c etaF (rotM3 inv) (sig.map rotM3) = (rotM3 (updMats c etaF inv sig).1, rotM3 (updMats c etaF inv sig).2)
    ∧ updMatsRev c etaF (rotM3 inv) (sig.map rotM3)
        = (rotM3 (updMatsRev c etaF inv sig).1, rotM3 (updMatsRev c etaF inv sig).2) := by
  constructor
  · simp only [updMats, rotM3_lossMats, rotM3_solve]; rfl
  · simp only [updMatsRev, rotM3_lossMats, rotM3_solve]; rfl

theorem sigAt_rot (sig : Option (F3 (M3 K))) (i j k : Nat) :
    sigAt (sig.map rotT) i j k = (sigAt sig j k i).map rotM3 := by
  cases sig <;> rfl

/-- the rows of a relabelled tensor applied to a relabelled field, with averaging operators that commute with the
relabelling, are the relabelled rows (the three terms of a row appear in a different order) -/
theorem rowsApply_rot (avg avg' : Nat → Nat → F3 K → F3 K)
    (havg : ∀ c l S, avg' (rotAx c) (rotAx l) (rotF S) = rotF (avg c l S)) (T : F3 (M3 K)) (V : V3 K) :
    rowsApply avg' (rotT T) (rotV V) = rotV (rowsApply avg T V) := by
  have h02 : avg' 1 0 (rotF V.x) = rotF (avg 0 2 V.x) := havg 0 2 V.x
  have h12 : avg' 2 0 (rotF V.y) = rotF (avg 1 2 V.y) := havg 1 2 V.y
  have h10 : avg' 2 1 (rotF V.y) = rotF (avg 1 0 V.y) := havg 1 0 V.y
  have h20 : avg' 0 1 (rotF V.z) = rotF (avg 2 0 V.z) := havg 2 0 V.z
  have h01 : avg' 1 2 (rotF V.x) = rotF (avg 0 1 V.x) := havg 0 1 V.x
  have h21 : avg' 0 2 (rotF V.z) = rotF (avg 2 1 V.z) := havg 2 1 V.z
  simp only [rowsApply, rotV, h02, h12, h10, h20, h01, h21]
  congr 1 <;> funext i j k <;> simp only [rotT, rotM3, rotF] <;> ring

theorem addV_rot (A B : V3 K) : addV (rotV A) (rotV B) = rotV (addV A B) := rfl
theorem subV_rot (A B : V3 K) : subV (rotV A) (rotV B) = rotV (subV A B) := rfl

/-! ### the four full-tensor half steps -/

theorem matsField_rot (c etaF : K) (inv : F3 (M3 K)) (sig : Option (F3 (M3 K))) :
    (fun i j k => (updMats c etaF (rotT inv i j k) (sigAt (sig.map rotT) i j k)).1)
        = rotT (fun i j k => (updMats c etaF (inv i j k) (sigAt sig i j k)).1)
    ∧ (fun i j k => (updMats c etaF (rotT inv i j k) (sigAt (sig.map rotT) i j k)).2)
        = rotT (fun i j k => (updMats c etaF (inv i j k) (sigAt sig i j k)).2)
    ∧ (fun i j k => (updMatsRev c etaF (rotT inv i j k) (sigAt (sig.map rotT) i j k)).1)
        = rotT (fun i j k => (updMatsRev c etaF (inv i j k) (sigAt sig i j k)).1)
    ∧ (fun i j k => (updMatsRev c etaF (rotT inv i j k) (sigAt (sig.map rotT) i j k)).2)
        = rotT (fun i j k => (updMatsRev c etaF (inv i j k) (sigAt sig i j k)).2) := by
  refine ⟨?_, ?_, ?_, ?_⟩ <;> funext i j k <;> simp only [rotT, sigAt_rot] <;>
    first
    | rw [(C08_aniso_mats_equivariant c etaF _ _).1]
    | rw [(C08_aniso_mats_equivariant c etaF _ _).2]

theorem stepEFull_rot (cf : Cfg K) (aw : Option (AW K)) (inv : F3 (M3 K)) (sig : Option (F3 (M3 K))) (jE E H : V3 K) :
    stepEFull (rotC cf) (aw.map rotAW) (rotT inv) (sig.map rotT) (rotV jE) (rotV E) (rotV H)
      = rotV (stepEFull cf aw inv sig jE E H) := by
  obtain ⟨hA, hB, _, _⟩ := matsField_rot cf.c cf.eta0 inv sig
  have havg : ∀ c l S, avgE (rotC cf) (aw.map rotAW) (rotAx c) (rotAx l) (rotF S) = rotF (avgE cf aw c l S) :=
    fun c l S => (C08_aniso_avg_equivariant cf aw c l S).1
  unfold stepEFull
  simp only [C08_curlH_equivariant]
  rw [← (C08_walls_equivariant cf _).1]
  congr 1
  show addV (addV (rowsApply _ (fun i j k => (updMats cf.c cf.eta0 (rotT inv i j k) (sigAt (sig.map rotT) i j k)).1) _)
    (rowsApply _ (fun i j k => (updMats cf.c cf.eta0 (rotT inv i j k) (sigAt (sig.map rotT) i j k)).2) _)) _ = _
  rw [hA, hB, rowsApply_rot _ _ havg, rowsApply_rot _ _ havg, addV_rot, addV_rot]

theorem stepHFull_rot (cf : Cfg K) (aw : Option (AW K)) (inv : F3 (M3 K)) (sig : Option (F3 (M3 K))) (jH E H : V3 K) :
    stepHFull (rotC cf) (aw.map rotAW) (rotT inv) (sig.map rotT) (rotV jH) (rotV E) (rotV H)
      = rotV (stepHFull cf aw inv sig jH E H) := by
  obtain ⟨hA, hB, _, _⟩ := matsField_rot cf.c (1 / cf.eta0) inv sig
  have havg : ∀ c l S, avgH (rotC cf) (aw.map rotAW) (rotAx c) (rotAx l) (rotF S) = rotF (avgH cf aw c l S) :=
    fun c l S => (C08_aniso_avg_equivariant cf aw c l S).2
  unfold stepHFull
  simp only [C08_curlE_equivariant]
  rw [← (C08_walls_equivariant cf _).2]
  congr 1
  show addV (subV (rowsApply _ (fun i j k => (updMats cf.c (1 / cf.eta0) (rotT inv i j k) (sigAt (sig.map rotT) i j k)).1) _)
    (rowsApply _ (fun i j k => (updMats cf.c (1 / cf.eta0) (rotT inv i j k) (sigAt (sig.map rotT) i j k)).2) _)) _ = _
  rw [hA, hB, rowsApply_rot _ _ havg, rowsApply_rot _ _ havg, subV_rot, addV_rot]

theorem revStepEFull_rot (cf : Cfg K) (aw : Option (AW K)) (inv : F3 (M3 K)) (sig : Option (F3 (M3 K))) (jE E H : V3 K) :
    revStepEFull (rotC cf) (aw.map rotAW) (rotT inv) (sig.map rotT) (rotV jE) (rotV E) (rotV H)
      = rotV (revStepEFull cf aw inv sig jE E H) := by
  obtain ⟨_, _, hA, hB⟩ := matsField_rot cf.c cf.eta0 inv sig
  have havg : ∀ c l S, avgE (rotC cf) (aw.map rotAW) (rotAx c) (rotAx l) (rotF S) = rotF (avgE cf aw c l S) :=
    fun c l S => (C08_aniso_avg_equivariant cf aw c l S).1
  unfold revStepEFull
  simp only [C08_curlH_equivariant, subV_rot]
  rw [← (C08_walls_equivariant cf _).1]
  congr 1
  show subV (rowsApply _ (fun i j k => (updMatsRev cf.c cf.eta0 (rotT inv i j k) (sigAt (sig.map rotT) i j k)).1) _)
    (rowsApply _ (fun i j k => (updMatsRev cf.c cf.eta0 (rotT inv i j k) (sigAt (sig.map rotT) i j k)).2) _) = _
  rw [hA, hB, rowsApply_rot _ _ havg, rowsApply_rot _ _ havg, subV_rot]

theorem revStepHFull_rot (cf : Cfg K) (aw : Option (AW K)) (inv : F3 (M3 K)) (sig : Option (F3 (M3 K))) (jH E H : V3 K) :
    revStepHFull (rotC cf) (aw.map rotAW) (rotT inv) (sig.map rotT) (rotV jH) (rotV E) (rotV H)
      = rotV (revStepHFull cf aw inv sig jH E H) := by
  obtain ⟨_, _, hA, hB⟩ := matsField_rot cf.c (1 / cf.eta0) inv sig
  have havg : ∀ c l S, avgH (rotC cf) (aw.map rotAW) (rotAx c) (rotAx l) (rotF S) = rotF (avgH cf aw c l S) :=
    fun c l S => (C08_aniso_avg_equivariant cf aw c l S).2
  unfold revStepHFull
  simp only [C08_curlE_equivariant, subV_rot]
  rw [← (C08_walls_equivariant cf _).2]
  congr 1
  show addV (rowsApply _ (fun i j k => (updMatsRev cf.c (1 / cf.eta0) (rotT inv i j k) (sigAt (sig.map rotT) i j k)).1) _)
    (rowsApply _ (fun i j k => (updMatsRev cf.c (1 / cf.eta0) (rotT inv i j k) (sigAt (sig.map rotT) i j k)).2) _) = _
  rw [hA, hB, rowsApply_rot _ _ havg, rowsApply_rot _ _ havg, addV_rot]

/-! ### tier dispatch -/

theorem rotTens_isFull (t : Tens K) : (rotTens t).isFull = t.isFull := by cases t <;> rfl

theorem rotTens_expand (t : Tens K) : (rotTens t).expand = rotT t.expand := by cases t <;> rfl

theorem rotTens_toV3 (t : Tens K) : (rotTens t).toV3 = rotV t.toV3 := by cases t <;> rfl

theorem rotMA_full (m : MatA K) : (rotMA m).fullE = m.fullE ∧ (rotMA m).fullH = m.fullH := by
  obtain ⟨ie, im, sE, sH⟩ := m
  constructor
  · cases sE <;> simp [MatA.fullE, rotMA, optFull, rotTens_isFull]
  · cases sH <;> simp [MatA.fullH, rotMA, optFull, rotTens_isFull]

theorem rotMA_diagMat (m : MatA K) : (rotMA m).diagMat = rotM m.diagMat := by
  obtain ⟨ie, im, sE, sH⟩ := m
  cases sE <;> cases sH <;> simp [MatA.diagMat, rotMA, rotM, rotTens_toV3]

theorem optExpand_rot (s : Option (Tens K)) : (s.map rotTens).map Tens.expand = (s.map Tens.expand).map rotT := by
  cases s with
  | none => rfl
  | some t => simp [rotTens_expand]

theorem stepEA_rot (cf : Cfg K) (aw : Option (AW K)) (m : MatA K) (jE E H : V3 K) :
    stepEA (rotC cf) (aw.map rotAW) (rotMA m) (rotV jE) (rotV E) (rotV H) = rotV (stepEA cf aw m jE E H) := by
  unfold stepEA
  rw [(rotMA_full m).1, rotMA_diagMat]
  cases m.fullE with
  | true =>
    simp only [if_true]
    show stepEFull _ _ (rotTens m.invEps).expand ((m.sigE.map rotTens).map Tens.expand) _ _ _ = _
    rw [rotTens_expand, optExpand_rot, stepEFull_rot]
  | false => simp only [Bool.false_eq_true, if_false]; exact stepE_rot cf _ jE E H

theorem stepHA_rot (cf : Cfg K) (aw : Option (AW K)) (m : MatA K) (jH E H : V3 K) :
    stepHA (rotC cf) (aw.map rotAW) (rotMA m) (rotV jH) (rotV E) (rotV H) = rotV (stepHA cf aw m jH E H) := by
  unfold stepHA
  rw [(rotMA_full m).2, rotMA_diagMat]
  cases m.fullH with
  | true =>
    simp only [if_true]
    show stepHFull _ _ (rotTens m.invMu).expand ((m.sigH.map rotTens).map Tens.expand) _ _ _ = _
    rw [rotTens_expand, optExpand_rot, stepHFull_rot]
  | false => simp only [Bool.false_eq_true, if_false]; exact stepH_rot cf _ jH E H

theorem revStepEA_rot (cf : Cfg K) (aw : Option (AW K)) (m : MatA K) (jE E H : V3 K) :
    revStepEA (rotC cf) (aw.map rotAW) (rotMA m) (rotV jE) (rotV E) (rotV H) = rotV (revStepEA cf aw m jE E H) := by
  unfold revStepEA
  rw [(rotMA_full m).1, rotMA_diagMat]
  cases m.fullE with
  | true =>
    simp only [if_true]
    show revStepEFull _ _ (rotTens m.invEps).expand ((m.sigE.map rotTens).map Tens.expand) _ _ _ = _
    rw [rotTens_expand, optExpand_rot, revStepEFull_rot]
  | false => simp only [Bool.false_eq_true, if_false]; exact revStepE_rot cf _ jE E H

theorem revStepHA_rot (cf : Cfg K) (aw : Option (AW K)) (m : MatA K) (jH E H : V3 K) :
    revStepHA (rotC cf) (aw.map rotAW) (rotMA m) (rotV jH) (rotV E) (rotV H) = rotV (revStepHA cf aw m jH E H) := by
  unfold revStepHA
  rw [(rotMA_full m).2, rotMA_diagMat]
  cases m.fullH with
  | true =>
    simp only [if_true]
    show revStepHFull _ _ (rotTens m.invMu).expand ((m.sigH.map rotTens).map Tens.expand) _ _ _ = _
    rw [rotTens_expand, optExpand_rot, revStepHFull_rot]
  | false => simp only [Bool.false_eq_true, if_false]; exact revStepH_rot cf _ jH E H

/-- **C08_aniso_step_equivariant**: one forward step of the relabelled scene — any material tier, in particular full 3×3
tensors relabelled as R·T·Rᵀ, lossy or lossless, uniform or spacing-weighted averaging — is the relabelled forward step. -/
theorem C08_aniso_step_equivariant (cf : Cfg K) (aw : Option (AW K)) (m : MatA K) (jE jH E H : V3 K) :
    forwardA (rotC cf) (aw.map rotAW) (rotMA m) (rotV jE) (rotV jH) (rotV E) (rotV H)
      = (rotV (forwardA cf aw m jE jH E H).1, rotV (forwardA cf aw m jE jH E H).2) := by
  simp only [forwardA, stepEA_rot, stepHA_rot]

/-- **C08_aniso_backward_equivariant** -/
theorem C08_aniso_backward_equivariant (cf : Cfg K) (aw : Option (AW K)) (m : MatA K) (jE jH E H : V3 K) :
    backwardA (rotC cf) (aw.map rotAW) (rotMA m) (rotV jE) (rotV jH) (rotV E) (rotV H)
      = (rotV (backwardA cf aw m jE jH E H).1, rotV (backwardA cf aw m jE jH E H).2) := by
  simp only [backwardA, revStepHA_rot, revStepEA_rot]

/-- n forward steps of the any-tier step with step-indexed source terms -/
def fwdNA (cf : Cfg K) (aw : Option (AW K)) (m : MatA K) (jE jH : Nat → V3 K) (t : Nat) : Nat → V3 K × V3 K → V3 K × V3 K
  | 0, s => s
  | n + 1, s => let s' := fwdNA cf aw m jE jH t n s; forwardA cf aw m (jE (t + n)) (jH (t + n)) s'.1 s'.2

/-- **C08_aniso_steps_equivariant**: a run of any length -/
theorem C08_aniso_steps_equivariant (cf : Cfg K) (aw : Option (AW K)) (m : MatA K) (jE jH : Nat → V3 K) (t n : Nat)
    (s : V3 K × V3 K) :
    fwdNA (rotC cf) (aw.map rotAW) (rotMA m) (fun u => rotV (jE u)) (fun u => rotV (jH u)) t n (rotS s)
      = rotS (fwdNA cf aw m jE jH t n s) := by
  induction n with
  | zero => rfl
  | succ n ih =>
    simp only [fwdNA, ih]
    exact C08_aniso_step_equivariant cf aw m _ _ _ _

/-- three relabellings are the identity on tensors as well -/
theorem C08_aniso_rot_cube (m : M3 K) (t : F3 (M3 K)) : rotM3 (rotM3 (rotM3 m)) = m ∧ rotT (rotT (rotT t)) = t :=
  ⟨rfl, rfl⟩

end

/-! ### non-vacuity: the relabelling really permutes the nine components -/
example : rotM3 (⟨1, 2, 3, 4, 5, 6, 7, 8, 9⟩ : M3 Int) = ⟨9, 7, 8, 3, 1, 2, 6, 4, 5⟩ := rfl
example : rotAx 0 = 1 ∧ rotAx 1 = 2 ∧ rotAx 2 = 0 := by decide

end Fdtdx.C08
