/-
C02 — backward ∘ forward = identity, fully anisotropic (9-component) tier (`FdtdxModel/YeeAniso.lean`).

  C02_aniso_lossless_roundtrip        σ_E = σ_H = none, inv_eps / inv_mu of ANY tier (scalar, 1, 3 or 9 components, a full
                                      3×3 tensor per cell, not necessarily symmetric), any halo rule (zero / wrap with
                                      arbitrary ghost multipliers = Bloch), any metric, uniform or spacing-weighted
                                      averaging with any widths, PEC / PMC walls, any additive sources, any wall-satisfying
                                      state:   backwardA (forwardA s) = s      exactly, over any field.
  C02_aniso_lossless_roundtrip_steps  n forward steps then n backward steps (step-indexed sources).
  aniso_lossy_cell_local              LOSSY full tensors: per cell A_rev·A_fwd = I and B_rev = A_rev·B_fwd whenever
                                      det M1 ≠ 0 and det M2 ≠ 0, hence A_rev·(A_fwd·e + B_fwd·k) − B_rev·k = e for the
                                      un-averaged (cell-local) update.
  aniso_lossy_roundtrip_fails         but the full lossy round trip is NOT the identity: the off-diagonal entries of A act on
                                      neighbour AVERAGES, and averaging there and back is a smoothing, not the identity.
                                      Concrete witness over ℚ.  The property text claims lossless tensors only.
-/
import FdtdxModel.YeeAniso
import FdtdxProps.C02
import Mathlib.Tactic.FieldSimp
import Mathlib.Tactic.Ring
import Mathlib.Tactic.NormNum

namespace Fdtdx.C02
open Fdtdx Fdtdx.Yee Fdtdx.YeeAniso Fdtdx.C01

section
variable {K : Type} [Field K]

/-! ### 3×3 algebra over a field -/

omit [Field K] in
theorem M3.ext' {a b : M3 K} (h1 : a.xx = b.xx) (h2 : a.xy = b.xy) (h3 : a.xz = b.xz) (h4 : a.yx = b.yx)
    (h5 : a.yy = b.yy) (h6 : a.yz = b.yz) (h7 : a.zx = b.zx) (h8 : a.zy = b.zy) (h9 : a.zz = b.zz) : a = b := by
  cases a; cases b; simp only [M3.mk.injEq]; exact ⟨h1, h2, h3, h4, h5, h6, h7, h8, h9⟩

theorem M3.mul_assoc' (a b c : M3 K) : M3.mul (M3.mul a b) c = M3.mul a (M3.mul b c) := by
  apply M3.ext' <;> simp only [M3.mul] <;> ring

theorem M3.one_mul' (a : M3 K) : M3.mul M3.one a = a := by
  apply M3.ext' <;> simp [M3.mul, M3.one]

theorem M3.mul_one' (a : M3 K) : M3.mul a M3.one = a := by
  apply M3.ext' <;> simp [M3.mul, M3.one]

theorem M3.adj_mul (a : M3 K) : M3.mul (M3.adj a) a = M3.smul (M3.det a) M3.one := by
  apply M3.ext' <;> simp only [M3.mul, M3.adj, M3.smul, M3.one, M3.det] <;> ring

theorem M3.smul_mul (s : K) (a b : M3 K) : M3.mul (M3.smul s a) b = M3.smul s (M3.mul a b) := by
  apply M3.ext' <;> simp only [M3.mul, M3.smul] <;> ring

theorem M3.mul_smul (s : K) (a b : M3 K) : M3.mul a (M3.smul s b) = M3.smul s (M3.mul a b) := by
  apply M3.ext' <;> simp only [M3.mul, M3.smul] <;> ring

/-- `solve m x = m⁻¹·x` written with the scaled adjugate -/
theorem M3.solve_eq (m x : M3 K) : M3.solve m x = M3.mul (M3.smul (1 / M3.det m) (M3.adj m)) x := by
  apply M3.ext' <;> simp only [M3.solve, M3.sdiv, M3.mul, M3.smul] <;> ring

/-- left inverse: (adj m / det m) · m = I -/
theorem M3.inv_mul (m : M3 K) (h : M3.det m ≠ 0) : M3.mul (M3.smul (1 / M3.det m) (M3.adj m)) m = M3.one := by
  rw [M3.smul_mul, M3.adj_mul]
  apply M3.ext' <;> simp only [M3.smul, M3.one] <;> field_simp

/-- `solve m (m·x) = x` -/
theorem M3.solve_mul (m x : M3 K) (h : M3.det m ≠ 0) : M3.solve m (M3.mul m x) = x := by
  rw [M3.solve_eq, ← M3.mul_assoc', M3.inv_mul m h, M3.one_mul']

/-- `jnp.linalg.solve(I, x) = x` -/
theorem M3.solve_one (x : M3 K) : M3.solve M3.one x = x := by
  apply M3.ext' <;> simp [M3.solve, M3.sdiv, M3.mul, M3.adj, M3.det, M3.one]

/-- the two loss matrices commute (both are polynomials in the same `f`) -/
theorem M3.loss_commute (f : M3 K) :
    M3.mul (M3.add M3.one f) (M3.sub M3.one f) = M3.mul (M3.sub M3.one f) (M3.add M3.one f) := by
  apply M3.ext' <;> simp only [M3.mul, M3.add, M3.sub, M3.one] <;> ring

/-! ### lossless: A = I, B = c·inv in both directions -/

theorem updMats_none (c etaF : K) (inv : M3 K) : updMats c etaF inv none = (M3.one, M3.smul c inv) := by
  simp only [updMats, lossMats, M3.solve_one]

theorem updMatsRev_none (c etaF : K) (inv : M3 K) : updMatsRev c etaF inv none = (M3.one, M3.smul c inv) := by
  simp only [updMatsRev, lossMats, M3.solve_one]

/-! ### lossless half steps of the full-tensor branch -/

theorem revStepEFull_stepEFull (cf : Cfg K) (aw : Option (AW K)) (inv : F3 (M3 K)) (jE E H : V3 K)
    (hwx : ∀ i j k, pecMask cf 0 i j k = true → E.x i j k = 0)
    (hwy : ∀ i j k, pecMask cf 1 i j k = true → E.y i j k = 0)
    (hwz : ∀ i j k, pecMask cf 2 i j k = true → E.z i j k = 0) :
    revStepEFull cf aw inv none jE (stepEFull cf aw inv none jE E H) H = E := by
  apply V3.ext'
  · intro i j k
    by_cases hmk : pecMask cf 0 i j k = true
    · simp [revStepEFull, projE, maskV, hmk, hwx i j k hmk]
    · simp only [revStepEFull, stepEFull, projE, maskV, subV, addV, rowsApply, sigAt, Option.map_none, updMats_none,
        updMatsRev_none, M3.one, M3.smul, hmk, Bool.false_eq_true, if_false]
      ring
  · intro i j k
    by_cases hmk : pecMask cf 1 i j k = true
    · simp [revStepEFull, projE, maskV, hmk, hwy i j k hmk]
    · simp only [revStepEFull, stepEFull, projE, maskV, subV, addV, rowsApply, sigAt, Option.map_none, updMats_none,
        updMatsRev_none, M3.one, M3.smul, hmk, Bool.false_eq_true, if_false]
      ring
  · intro i j k
    by_cases hmk : pecMask cf 2 i j k = true
    · simp [revStepEFull, projE, maskV, hmk, hwz i j k hmk]
    · simp only [revStepEFull, stepEFull, projE, maskV, subV, addV, rowsApply, sigAt, Option.map_none, updMats_none,
        updMatsRev_none, M3.one, M3.smul, hmk, Bool.false_eq_true, if_false]
      ring

theorem revStepHFull_stepHFull (cf : Cfg K) (aw : Option (AW K)) (inv : F3 (M3 K)) (jH E' H : V3 K)
    (hwx : ∀ i j k, pmcMask cf 0 i j k = true → H.x i j k = 0)
    (hwy : ∀ i j k, pmcMask cf 1 i j k = true → H.y i j k = 0)
    (hwz : ∀ i j k, pmcMask cf 2 i j k = true → H.z i j k = 0) :
    revStepHFull cf aw inv none jH E' (stepHFull cf aw inv none jH E' H) = H := by
  apply V3.ext'
  · intro i j k
    by_cases hmk : pmcMask cf 0 i j k = true
    · simp [revStepHFull, projH, maskV, hmk, hwx i j k hmk]
    · simp only [revStepHFull, stepHFull, projH, maskV, subV, addV, rowsApply, sigAt, Option.map_none, updMats_none,
        updMatsRev_none, M3.one, M3.smul, hmk, Bool.false_eq_true, if_false]
      ring
  · intro i j k
    by_cases hmk : pmcMask cf 1 i j k = true
    · simp [revStepHFull, projH, maskV, hmk, hwy i j k hmk]
    · simp only [revStepHFull, stepHFull, projH, maskV, subV, addV, rowsApply, sigAt, Option.map_none, updMats_none,
        updMatsRev_none, M3.one, M3.smul, hmk, Bool.false_eq_true, if_false]
      ring
  · intro i j k
    by_cases hmk : pmcMask cf 2 i j k = true
    · simp [revStepHFull, projH, maskV, hmk, hwz i j k hmk]
    · simp only [revStepHFull, stepHFull, projH, maskV, subV, addV, rowsApply, sigAt, Option.map_none, updMats_none,
        updMatsRev_none, M3.one, M3.smul, hmk, Bool.false_eq_true, if_false]
      ring

/-! ### any tier: the dispatch of `update_E` / `update_H` -/

/-- without conductivity arrays the divisors of the diagonal tier are trivially fine -/
theorem factorOK_lossless (cf : Cfg K) (m : MatA K) (hE : m.sigE = none) (hH : m.sigH = none) :
    FactorOK cf m.diagMat := by
  constructor <;> intro i j k s hs <;> simp [MatA.diagMat, hE, hH, optAt] at hs

theorem revStepEA_stepEA (cf : Cfg K) (aw : Option (AW K)) (m : MatA K) (jE E H : V3 K)
    (hE : m.sigE = none) (hH : m.sigH = none) (hw : WallOK cf E H) :
    revStepEA cf aw m jE (stepEA cf aw m jE E H) H = E := by
  unfold revStepEA stepEA
  cases hf : m.fullE with
  | true =>
    simp only [if_true, hE, Option.map_none]
    exact revStepEFull_stepEFull cf aw _ jE E H hw.ex hw.ey hw.ez
  | false =>
    simp only [Bool.false_eq_true, if_false]
    exact revStepE_stepE cf m.diagMat jE E H (factorOK_lossless cf m hE hH) hw.ex hw.ey hw.ez

theorem revStepHA_stepHA (cf : Cfg K) (aw : Option (AW K)) (m : MatA K) (jH E' H : V3 K)
    (hE : m.sigE = none) (hH : m.sigH = none)
    (hwx : ∀ i j k, pmcMask cf 0 i j k = true → H.x i j k = 0)
    (hwy : ∀ i j k, pmcMask cf 1 i j k = true → H.y i j k = 0)
    (hwz : ∀ i j k, pmcMask cf 2 i j k = true → H.z i j k = 0) :
    revStepHA cf aw m jH E' (stepHA cf aw m jH E' H) = H := by
  unfold revStepHA stepHA
  cases hf : m.fullH with
  | true =>
    simp only [if_true, hH, Option.map_none]
    exact revStepHFull_stepHFull cf aw _ jH E' H hwx hwy hwz
  | false =>
    simp only [Bool.false_eq_true, if_false]
    exact revStepH_stepH cf m.diagMat jH E' H (factorOK_lossless cf m hE hH) hwx hwy hwz

/-- **C02_aniso_lossless_roundtrip**: with σ_E = σ_H = none and inverse permittivity / permeability of any tier — in
particular a full 3×3 tensor per cell — one backward step after one forward step returns E and H exactly. -/
theorem C02_aniso_lossless_roundtrip (cf : Cfg K) (aw : Option (AW K)) (m : MatA K) (jE jH : V3 K) (E H : V3 K)
    (hE : m.sigE = none) (hH : m.sigH = none) (hw : WallOK cf E H) :
    backwardA cf aw m jE jH (forwardA cf aw m jE jH E H).1 (forwardA cf aw m jE jH E H).2 = (E, H) := by
  have h1 : revStepHA cf aw m jH (stepEA cf aw m jE E H) (stepHA cf aw m jH (stepEA cf aw m jE E H) H) = H :=
    revStepHA_stepHA cf aw m jH _ H hE hH hw.hx hw.hy hw.hz
  have h2 : revStepEA cf aw m jE (stepEA cf aw m jE E H) H = E := revStepEA_stepEA cf aw m jE E H hE hH hw
  simp only [backwardA, forwardA]
  rw [h1, h2]

/-- pointwise form: every component of E and H at every cell -/
theorem C02_aniso_lossless_roundtrip_pointwise (cf : Cfg K) (aw : Option (AW K)) (m : MatA K) (jE jH : V3 K) (E H : V3 K)
    (hE : m.sigE = none) (hH : m.sigH = none) (hw : WallOK cf E H) (i j k : Nat) :
    let s' := forwardA cf aw m jE jH E H
    let s := backwardA cf aw m jE jH s'.1 s'.2
    s.1.x i j k = E.x i j k ∧ s.1.y i j k = E.y i j k ∧ s.1.z i j k = E.z i j k ∧
    s.2.x i j k = H.x i j k ∧ s.2.y i j k = H.y i j k ∧ s.2.z i j k = H.z i j k := by
  intro s' s
  have h : s = (E, H) := C02_aniso_lossless_roundtrip cf aw m jE jH E H hE hH hw
  rw [h]
  exact ⟨rfl, rfl, rfl, rfl, rfl, rfl⟩

/-- the step of any tier ends with the wall projections -/
theorem forwardA_walls (cf : Cfg K) (aw : Option (AW K)) (m : MatA K) (jE jH : V3 K) (E H : V3 K) :
    WallOK cf (forwardA cf aw m jE jH E H).1 (forwardA cf aw m jE jH E H).2 := by
  constructor <;> intro i j k hmk <;> simp only [forwardA, stepEA, stepHA] <;> split <;>
    simp [stepEFull, stepHFull, stepE, stepH, projE, projH, maskV, hmk]

def fwdNA (cf : Cfg K) (aw : Option (AW K)) (m : MatA K) (jE jH : Nat → V3 K) (t : Nat) : Nat → V3 K × V3 K → V3 K × V3 K
  | 0, s => s
  | n + 1, s => let s' := fwdNA cf aw m jE jH t n s; forwardA cf aw m (jE (t + n)) (jH (t + n)) s'.1 s'.2

def bwdNA (cf : Cfg K) (aw : Option (AW K)) (m : MatA K) (jE jH : Nat → V3 K) (t : Nat) : Nat → V3 K × V3 K → V3 K × V3 K
  | 0, s => s
  | n + 1, s => bwdNA cf aw m jE jH t n (backwardA cf aw m (jE (t + n)) (jH (t + n)) s.1 s.2)

theorem fwdNA_walls (cf : Cfg K) (aw : Option (AW K)) (m : MatA K) (jE jH : Nat → V3 K) (t n : Nat) (E H : V3 K)
    (hw : WallOK cf E H) : WallOK cf (fwdNA cf aw m jE jH t n (E, H)).1 (fwdNA cf aw m jE jH t n (E, H)).2 := by
  cases n with
  | zero => exact hw
  | succ n => exact forwardA_walls cf aw m _ _ _ _

/-- **C02_aniso_lossless_roundtrip_steps**: n forward steps then n backward steps (step-indexed sources) are the identity. -/
theorem C02_aniso_lossless_roundtrip_steps (cf : Cfg K) (aw : Option (AW K)) (m : MatA K) (jE jH : Nat → V3 K) (t n : Nat)
    (E H : V3 K) (hE : m.sigE = none) (hH : m.sigH = none) (hw : WallOK cf E H) :
    bwdNA cf aw m jE jH t n (fwdNA cf aw m jE jH t n (E, H)) = (E, H) := by
  induction n with
  | zero => rfl
  | succ n ih =>
    have hwn := fwdNA_walls cf aw m jE jH t n E H hw
    show bwdNA cf aw m jE jH t n (backwardA cf aw m (jE (t + n)) (jH (t + n))
      (forwardA cf aw m (jE (t + n)) (jH (t + n)) (fwdNA cf aw m jE jH t n (E, H)).1 (fwdNA cf aw m jE jH t n (E, H)).2).1
      (forwardA cf aw m (jE (t + n)) (jH (t + n)) (fwdNA cf aw m jE jH t n (E, H)).1 (fwdNA cf aw m jE jH t n (E, H)).2).2) = _
    rw [C02_aniso_lossless_roundtrip cf aw m _ _ _ _ hE hH hwn]
    exact ih

/-! ### lossy full tensors: cell-local inverse only -/

theorem M3.mul_adj (a : M3 K) : M3.mul a (M3.adj a) = M3.smul (M3.det a) M3.one := by
  apply M3.ext' <;> simp only [M3.mul, M3.adj, M3.smul, M3.one, M3.det] <;> ring

/-- right inverse: m · (adj m / det m) = I -/
theorem M3.mul_inv (m : M3 K) (h : M3.det m ≠ 0) : M3.mul m (M3.smul (1 / M3.det m) (M3.adj m)) = M3.one := by
  rw [M3.mul_smul, M3.mul_adj]
  apply M3.ext' <;> simp only [M3.smul, M3.one] <;> field_simp

/-- the 3×3 systems the code solves are regular: det M1 ≠ 0 (forward) and det M2 ≠ 0 (reverse) -/
structure LossOK (c etaF : K) (inv : M3 K) (sig : Option (M3 K)) : Prop where
  d1 : M3.det (lossMats c etaF inv sig).1 ≠ 0
  d2 : M3.det (lossMats c etaF inv sig).2 ≠ 0

/-- A_rev · A_fwd = I -/
theorem aniso_Arev_Afwd (c etaF : K) (inv : M3 K) (sig : Option (M3 K)) (h : LossOK c etaF inv sig) :
    M3.mul (updMatsRev c etaF inv sig).1 (updMats c etaF inv sig).1 = M3.one := by
  obtain ⟨h1, h2⟩ := h
  simp only [updMats, updMatsRev, M3.solve_eq]
  generalize (lossMats c etaF inv sig).1 = M1 at h1 ⊢
  generalize (lossMats c etaF inv sig).2 = M2 at h2 ⊢
  calc M3.mul (M3.mul (M3.smul (1 / M3.det M2) (M3.adj M2)) M1) (M3.mul (M3.smul (1 / M3.det M1) (M3.adj M1)) M2)
      = M3.mul (M3.smul (1 / M3.det M2) (M3.adj M2)) (M3.mul (M3.mul M1 (M3.smul (1 / M3.det M1) (M3.adj M1))) M2) := by
        simp only [M3.mul_assoc']
    _ = M3.one := by rw [M3.mul_inv M1 h1, M3.one_mul', M3.inv_mul M2 h2]

/-- B_rev = A_rev · B_fwd -/
theorem aniso_Brev (c etaF : K) (inv : M3 K) (sig : Option (M3 K)) (h : LossOK c etaF inv sig) :
    (updMatsRev c etaF inv sig).2 = M3.mul (updMatsRev c etaF inv sig).1 (updMats c etaF inv sig).2 := by
  obtain ⟨h1, h2⟩ := h
  simp only [updMats, updMatsRev, M3.solve_eq]
  generalize (lossMats c etaF inv sig).1 = M1 at h1 ⊢
  generalize (lossMats c etaF inv sig).2 = M2 at h2 ⊢
  rw [M3.mul_smul]
  congr 1
  calc M3.mul (M3.smul (1 / M3.det M2) (M3.adj M2)) inv
      = M3.mul (M3.smul (1 / M3.det M2) (M3.adj M2)) (M3.mul (M3.mul M1 (M3.smul (1 / M3.det M1) (M3.adj M1))) inv) := by
        rw [M3.mul_inv M1 h1, M3.one_mul']
    _ = _ := by simp only [M3.mul_assoc']

/-- matrix–vector product -/
def M3.vec (a : M3 K) (v : K × K × K) : K × K × K :=
  (a.xx * v.1 + a.xy * v.2.1 + a.xz * v.2.2, a.yx * v.1 + a.yy * v.2.1 + a.yz * v.2.2, a.zx * v.1 + a.zy * v.2.1 + a.zz * v.2.2)

theorem M3.vec_mul (a b : M3 K) (v : K × K × K) : M3.vec (M3.mul a b) v = M3.vec a (M3.vec b v) := by
  simp only [M3.vec, M3.mul, Prod.mk.injEq]; refine ⟨?_, ?_, ?_⟩ <;> ring

theorem M3.vec_one (v : K × K × K) : M3.vec M3.one v = v := by
  obtain ⟨a, b, c⟩ := v
  simp [M3.vec, M3.one]

/-- **aniso_lossy_cell_local**: where the 3×3 systems are regular, the reverse update inverts the forward update of the
same cell when all three components are taken at that cell (no neighbour averaging):
`A_rev·(A_fwd·e + B_fwd·k) − B_rev·k = e`. -/
theorem aniso_lossy_cell_local (c etaF : K) (inv : M3 K) (sig : Option (M3 K)) (h : LossOK c etaF inv sig)
    (e k : K × K × K) :
    M3.vec (updMatsRev c etaF inv sig).1 (M3.vec (updMats c etaF inv sig).1 e + M3.vec (updMats c etaF inv sig).2 k)
      - M3.vec (updMatsRev c etaF inv sig).2 k = e := by
  have hA := aniso_Arev_Afwd c etaF inv sig h
  have hB := aniso_Brev c etaF inv sig h
  have e1 : M3.vec (updMatsRev c etaF inv sig).1 (M3.vec (updMats c etaF inv sig).1 e) = e := by
    rw [← M3.vec_mul, hA, M3.vec_one]
  have e2 : M3.vec (updMatsRev c etaF inv sig).2 k
      = M3.vec (updMatsRev c etaF inv sig).1 (M3.vec (updMats c etaF inv sig).2 k) := by
    rw [← M3.vec_mul, ← hB]
  have lin : ∀ (a : M3 K) (u v : K × K × K), M3.vec a (u + v) = M3.vec a u + M3.vec a v := by
    intro a u v
    simp only [M3.vec, Prod.fst_add, Prod.snd_add, Prod.mk_add_mk, Prod.mk.injEq]
    refine ⟨?_, ?_, ?_⟩ <;> ring
  rw [lin, e1, e2]
  simp

end

/-! ### the full lossy round trip fails (witness over ℚ) -/

def zBC : AxisBC Rat := ⟨false, 1, 1, false, false, false, false⟩
/-- one cell, zero halo on every axis, uniform metric, c = η₀ = 1 -/
def cexCfg : Cfg Rat :=
  { nx := 1, ny := 1, nz := 1, bx := zBC, by_ := zBC, bz := zBC,
    sfx := fun _ => 1, sfy := fun _ => 1, sfz := fun _ => 1, sbx := fun _ => 1, sby := fun _ => 1, sbz := fun _ => 1,
    c := 1, eta0 := 1 }
/-- identity inverse permittivity, conductivity tensor with an xy / yx entry -/
def cexMat : MatA Rat :=
  ⟨.full (fun _ _ _ => ⟨1, 0, 0, 0, 1, 0, 0, 0, 1⟩), .scalar 1, some (.full (fun _ _ _ => ⟨0, 1, 0, 1, 0, 0, 0, 0, 0⟩)), none⟩
def cexE : V3 Rat := ⟨fun _ _ _ => 1, fun _ _ _ => 0, fun _ _ _ => 0⟩
def cexZero : V3 Rat := constV 0

/-- the 3×3 systems of the witness are regular (det M1 = det M2 = 3/4), so the cell-local statement applies to it -/
example : LossOK (K := ℚ) 1 1 ⟨1, 0, 0, 0, 1, 0, 0, 0, 1⟩ (some ⟨0, 1, 0, 1, 0, 0, 0, 0, 0⟩) := by
  constructor <;> norm_num [lossMats, M3.det, M3.add, M3.sub, M3.one, M3.smul, M3.mul]

/-- **aniso_lossy_roundtrip_fails**: lossy full tensor, source-free, no walls: E_x = 1 comes back as 8/3.
(forward: E_x ← A_xx·1 = 5/3 and E_y ← A_yx·avg(E_x) = −4/3·¼; reverse: E_x ← 5/3·5/3 + 4/3·avg(E_y) = 25/9 − 1/9.) -/
theorem aniso_lossy_roundtrip_fails :
    let s' := forwardA cexCfg none cexMat cexZero cexZero cexE cexZero
    (backwardA cexCfg none cexMat cexZero cexZero s'.1 s'.2).1.x 0 0 0 = 8 / 3 ∧ cexE.x 0 0 0 = 1 := by
  decide +kernel

/-! ### non-vacuity: a full non-symmetric tensor on the concrete domain of C01 (periodic x, PEC y) -/
def exMatA : MatA Rat :=
  ⟨.full (fun i j k => ⟨2, 1 / 3, 0, 1 / 5, 3, (i + j + k : Nat), 0, 1 / 7, 1⟩), .scalar 1, none, none⟩
example : exMatA.sigE = none ∧ exMatA.sigH = none ∧ exMatA.fullE = true ∧ exMatA.fullH = false := by decide
example : WallOK exCfg exE exH := by
  constructor <;> intro i j k h <;> first | simp [exE, projE, maskV, h] | (simp [pmcMask, exCfg, exBC, onWall] at h)

end Fdtdx.C02

